/-
  C09 (run level), part 4: what the consensus-side operations (BeginBlock, DeliverTx, EndBlock) do to the
  MEMPOOL views of the account, delegatee and reward ledgers: nothing, except that `DelFinality` of a
  delegatee (unstaking of the last stake, jailing) also erases it from the mempool view.
-/
import RigoProofs.C09RunAux
open Std
set_option linter.unusedSimpArgs false
set_option linter.unusedVariables false

namespace Rigo.C09R
open Rigo Rigo.C02

/-! ### maps obtained by erasing keys -/

def Erased {α : Type} (m m' : KMap α) : Prop := ∃ ks : List String, m' = ks.foldl (fun acc k => acc.erase k) m

theorem Erased.refl {α : Type} (m : KMap α) : Erased m m := ⟨[], rfl⟩
theorem Erased.one {α : Type} (m : KMap α) (k : String) : Erased m (m.erase k) := ⟨[k], rfl⟩
theorem Erased.trans {α : Type} {a b c : KMap α} (h1 : Erased a b) (h2 : Erased b c) : Erased a c := by
  obtain ⟨k1, rfl⟩ := h1
  obtain ⟨k2, rfl⟩ := h2
  exact ⟨k1 ++ k2, by rw [List.foldl_append]⟩

theorem Erased.sub {α : Type} {m m' : KMap α} (h : Erased m m') {k : String} {v : α} (hk : m'[k]? = some v) :
    m[k]? = some v := by
  obtain ⟨ks, rfl⟩ := h
  induction ks generalizing m with
  | nil => exact hk
  | cons a ks ih =>
    rw [List.foldl_cons] at hk
    have := ih hk
    rw [kmap_get_erase] at this
    split at this
    · cases this
    · exact this

theorem Erased.msum_le {α : Type} (f : α → Int) {m m' : KMap α} (h : Erased m m')
    (hf : ∀ (k : String) (v : α), m[k]? = some v → 0 ≤ f v) : msum f m' ≤ msum f m := by
  obtain ⟨ks, rfl⟩ := h
  induction ks generalizing m with
  | nil => exact Int.le_refl _
  | cons a ks ih =>
    rw [List.foldl_cons]
    have hf' : ∀ (k : String) (v : α), (m.erase a)[k]? = some v → 0 ≤ f v := by
      intro k v hk
      rw [kmap_get_erase] at hk
      split at hk
      · cases hk
      · exact hf k v hk
    have h1 := ih hf'
    have h2 := msum_erase f m a
    have h3 : 0 ≤ fAt f m a := by
      unfold fAt
      cases hm : m[a]? with
      | none => simp
      | some v => simp; exact hf a v hm
    omega

/-! ### the mempool-side frame -/

/-- mempool views of accounts and rewards untouched; the mempool view of the delegatees may lose entries -/
def CFr (s s' : St) : Prop :=
  s'.accts.chk = s.accts.chk ∧ s'.rewards.chk = s.rewards.chk ∧ Erased s.delegs.chk s'.delegs.chk

theorem CFr.refl (s : St) : CFr s s := ⟨rfl, rfl, Erased.refl _⟩
theorem CFr.trans {a b c : St} (h1 : CFr a b) (h2 : CFr b c) : CFr a c :=
  ⟨h2.1.trans h1.1, h2.2.1.trans h1.2.1, h1.2.2.trans h2.2.2⟩

/-- the three mempool views -/
def cs (s : St) : KMap Account × KMap Reward × KMap Delegatee := (s.accts.chk, s.rewards.chk, s.delegs.chk)

theorem CFr.of_cs {s s' : St} (h : cs s' = cs s) : CFr s s' := by
  unfold cs at h
  simp only [Prod.mk.injEq] at h
  exact ⟨h.1, h.2.1, by rw [h.2.2]; exact Erased.refl _⟩

@[simp] theorem cs_setAcct (s : St) (a : Account) : cs (s.setAcct true a) = cs s := by
  simp [cs, St.setAcct, Led.set]

@[simp] theorem cs_findOrNewAcct (s : St) (a : Hex) : cs (s.findOrNewAcct true a).1 = cs s := by
  unfold St.findOrNewAcct; split
  · rfl
  · exact cs_setAcct _ _

theorem cs_reward {s s1 : St} {a : Hex} {amt : Nat} (h : s.reward true a amt = some s1) : cs s1 = cs s := by
  unfold St.reward at h
  split at h
  · cases h
  · split at h
    · cases h
    · cases h; exact cs_setAcct _ _

theorem execTransfer_cs {s : St} {tx : TxIn} {r : RunOut} (h : execTransfer s true tx = .ok r) : cs r.st = cs s := by
  unfold execTransfer at h
  simp only [bind, Except.bind, pure, Except.pure, throw, throwThe, MonadExceptOf.throw] at h
  repeat' split at h
  all_goals first | cases h | skip
  all_goals simp

theorem execSetDoc_cs {s : St} {tx : TxIn} {r : RunOut} (h : execSetDoc s true tx = .ok r) : cs r.st = cs s := by
  unfold execSetDoc at h
  simp only [bind, Except.bind, pure, Except.pure, throw, throwThe, MonadExceptOf.throw] at h
  repeat' split at h
  all_goals first | cases h | skip
  all_goals simp

theorem execStaking_cs {s : St} {ht : Int} {tx : TxIn} {r : RunOut} (h : execStaking s true ht tx = .ok r) :
    cs r.st = cs s := by
  unfold execStaking at h
  simp only [bind, Except.bind, pure, Except.pure, throw, throwThe, MonadExceptOf.throw] at h
  repeat' split at h
  all_goals first | cases h | skip
  all_goals simp [cs, St.setAcct, Led.set]

theorem execProposal_cs {s : St} {tx : TxIn} {r : RunOut} (h : execProposal s true tx = .ok r) : cs r.st = cs s := by
  unfold execProposal at h
  simp only [bind, Except.bind, pure, Except.pure, throw, throwThe, MonadExceptOf.throw] at h
  repeat' split at h
  all_goals first | cases h | skip
  all_goals rfl

theorem execVoting_cs {s : St} {tx : TxIn} {r : RunOut} (h : execVoting s true tx = .ok r) : cs r.st = cs s := by
  unfold execVoting at h
  simp only [bind, Except.bind, pure, Except.pure, throw, throwThe, MonadExceptOf.throw] at h
  repeat' split at h
  all_goals first | cases h | skip
  all_goals rfl

theorem execWithdraw_cs {s : St} {ht : Int} {tx : TxIn} {r : RunOut} (h : execWithdraw s true ht tx = .ok r) :
    cs r.st = cs s := by
  unfold execWithdraw at h
  simp only [bind, Except.bind, pure, Except.pure, throw, throwThe, MonadExceptOf.throw] at h
  repeat' split at h
  all_goals first | cases h | skip
  all_goals
    rename_i hw _ _ hr _
    have := cs_reward hr
    simp only [cs, Led.set] at this ⊢
    exact this

theorem foldl_cs {β : Type} (f : St → β → St) (hf : ∀ acc x, cs (f acc x) = cs acc) (l : List β) (s : St) :
    cs (l.foldl f s) = cs s := by
  induction l generalizing s with
  | nil => rfl
  | cons a l ih => rw [List.foldl_cons, ih, hf]

theorem execEvm_cs {s : St} {tx : TxIn} {r : RunOut} (h : execEvm s true tx = .ok r) : cs r.st = cs s := by
  unfold execEvm at h
  simp only [bind, Except.bind, pure, Except.pure, throw, throwThe, MonadExceptOf.throw] at h
  have hA : ∀ (l : List Hex) (s : St), cs (l.foldl (fun acc a => (acc.findOrNewAcct true a).1) s) = cs s :=
    fun l s => foldl_cs _ (fun acc a => cs_findOrNewAcct acc a) l s
  repeat' split at h
  all_goals first | cases h | skip
  · rfl
  · exact hA _ _
  · show cs (St.setAcct _ true _) = _
    rw [cs_setAcct, foldl_cs _ ?_ _ _, hA]
    intro acc x; rw [cs_setAcct, cs_findOrNewAcct]
  · show cs (List.foldl _ _ _) = _
    rw [foldl_cs _ ?_ _ _, hA]
    intro acc x; rw [cs_setAcct, cs_findOrNewAcct]

theorem execUnstaking_cfr {s : St} {ht : Int} {tx : TxIn} {r : RunOut} (h : execUnstaking s true ht tx = .ok r) :
    CFr s r.st := by
  unfold execUnstaking at h
  simp only [bind, Except.bind, pure, Except.pure, throw, throwThe, MonadExceptOf.throw] at h
  repeat' split at h
  all_goals first | cases h | skip
  all_goals
    refine ⟨rfl, rfl, ?_⟩
    simp only [Led.del, Led.set, if_true]
    first | exact Erased.refl _ | exact Erased.one _ _

theorem execBody_cfr {s : St} {ht : Int} {tx : TxIn} {rc : Account} {r : RunOut}
    (h : execBody s true ht tx rc = .ok r) : CFr s r.st := by
  unfold execBody at h
  split at h
  · exact CFr.of_cs (execEvm_cs h)
  split at h
  · exact CFr.of_cs (execProposal_cs h)
  split at h
  · exact CFr.of_cs (execVoting_cs h)
  split at h
  · split at h
    · exact CFr.of_cs (execEvm_cs h)
    · exact CFr.of_cs (execTransfer_cs h)
  split at h
  · exact CFr.of_cs (execSetDoc_cs h)
  split at h
  · exact CFr.of_cs (execStaking_cs h)
  split at h
  · exact execUnstaking_cfr h
  split at h
  · exact CFr.of_cs (execWithdraw_cs h)
  · cases h

theorem runTrx_cfr {s : St} {ht : Int} {tx : TxIn} {rc : Account} {s2 : St} {g : Nat} {k : Option String}
    (h : runTrx s true ht tx rc = .ok (s2, g, k)) : CFr s s2 := by
  rw [runTrx_eq] at h
  simp only [bind, Except.bind] at h
  split at h
  · cases h
  · rename_i r hr
    have hb := execBody_cfr hr
    rcases runTail_cases h with ⟨_, _, h1⟩ | ⟨_, h1⟩ | ⟨_, _, _, _, sender, a1, _, _, h1⟩
    · rw [h1]; exact hb
    · rw [h1]; exact hb
    · rw [h1]; exact hb.trans (CFr.of_cs (cs_setAcct _ _))

theorem handleTx_cfr (s : St) (ht : Int) (tx : TxIn) : CFr s (handleTx s true ht tx).1 := by
  by_cases hlen : byteLen tx.to = 20
  case neg => rw [handleTx_badlen_fst hlen]; exact CFr.refl s
  rw [handleTx_goodlen hlen]
  unfold handleTxOld
  simp only []
  split
  · exact CFr.refl s
  split
  · exact CFr.refl s
  · have h0 : CFr s (s.findOrNewAcct true tx.to).1 := CFr.of_cs (cs_findOrNewAcct _ _)
    split
    · exact h0
    · exact h0
    · rename_i s1 hv
      obtain ⟨l, rfl⟩ := validateTrx_limiter hv
      have h1 : CFr s { (s.findOrNewAcct true tx.to).1 with limiter := l } := h0.trans (CFr.of_cs rfl)
      split
      · exact h1
      · exact h1
      · rename_i hr; exact h1.trans (runTrx_cfr hr)
      · rename_i hr; exact h1.trans (runTrx_cfr hr)

theorem deliverTx_cfr (s : St) (tx : TxIn) : CFr s (deliverTx s tx).1 := by
  unfold deliverTx
  split
  · exact CFr.refl s
  · rename_i b hb
    have := handleTx_cfr s b.height tx
    simp only []
    split
    · exact this
    · split
      · exact this.trans (CFr.of_cs rfl)
      · exact this

theorem endBlock_cfr (s : St) : CFr s (endBlock s).1 := by
  obtain ⟨_, e2, e3, _, _, e6⟩ := endBlock_eq' s
  exact ⟨e6, by rw [e2], by rw [e3]; exact Erased.refl _⟩

/-! ### BeginBlock -/

theorem stakePunish_cs (s : St) (a : Hex) : cs (stakePunish s a).1 = cs s := by
  unfold stakePunish
  split
  · rfl
  · simp [cs, Led.set]

theorem bStake_cs (s : St) (ev : List Hex) : cs (bStake s ev).1 = cs s := by
  unfold bStake
  suffices h : ∀ (acc : St × List Int), cs acc.1 = cs s → cs (ev.foldl (fun (x : St × List Int) a =>
      match x with
      | (acc, l) =>
        match stakePunish acc a with
        | (acc', some sl) => (acc', l ++ [sl])
        | (acc', none) => (acc', l)) acc).1 = cs s from h (s, []) rfl
  induction ev with
  | nil => intro acc h; exact h
  | cons a as ih =>
    intro acc h
    simp only [List.foldl_cons]
    apply ih
    obtain ⟨acc, l⟩ := acc
    have h2 := stakePunish_cs acc a
    simp only []
    split
    · rename_i heq; rw [heq] at h2; exact h2.trans h
    · rename_i heq; rw [heq] at h2; exact h2.trans h

theorem processVote_cfr {s s' : St} {height : Int} {rl : KMap Delegatee} {v : VoteIn} {i i' : Nat}
    (h : processVote s height rl v i = .ok (s', i')) :
    s'.accts = s.accts ∧ Erased s.delegs.chk s'.delegs.chk := by
  cases hv : v.signed with
  | true =>
    rw [processVote_signed _ _ _ _ _ hv] at h
    split at h
    · cases h; exact ⟨rfl, Erased.refl _⟩
    · split at h
      · cases h; exact ⟨rfl, Erased.refl _⟩
      · split at h
        · cases h
        · rename_i hr; cases h
          obtain ⟨e, _⟩ := rewardTo_only hr
          rw [e]; exact ⟨rfl, Erased.refl _⟩
  | false =>
    rw [processVote_unsigned _ _ _ _ _ hv] at h
    split at h
    · cases h; exact ⟨rfl, Erased.refl _⟩
    · split at h
      · cases h
        refine ⟨rfl, ?_⟩
        simp only [Led.del, Led.set, if_true]
        exact Erased.one _ _
      · cases h
        refine ⟨rfl, ?_⟩
        simp only [Led.set, if_true]
        exact Erased.refl _

theorem bVotes_cfr {s s' : St} {height : Int} {rl : KMap Delegatee} {votes : List VoteIn} {i' : Nat}
    (h : bVotes s height rl votes = .ok (s', i')) : s'.accts = s.accts ∧ Erased s.delegs.chk s'.delegs.chk := by
  unfold bVotes at h
  refine C02.res_pair_fold (fun x => x.accts = s.accts ∧ Erased s.delegs.chk x.delegs.chk) (voteStep height rl)
    (fun _ _ => rfl) ?_ votes s 0 s' i' ⟨rfl, Erased.refl _⟩ h
  intro a j x a' j' ha hx
  obtain ⟨p1, p2⟩ := processVote_cfr (s := a) (by simpa [voteStep] using hx)
  exact ⟨p1.trans ha.1, ha.2.trans p2⟩

theorem beginBlock_cfr (s : St) (h : Header) (hk : KeysOK s.rewards.fin) : CFr s (beginBlock s h).1 := by
  apply beginBlock_ind s h (fun x => CFr s x)
  · exact CFr.refl s
  · intro _
    obtain ⟨bf, e1, e2, _⟩ := bGov_fr (bbA s h) h.evidence
    obtain ⟨_, _, _, _, _, _, _, b8, _⟩ := bf
    exact ⟨by rw [b8]; rfl, by rw [e1]; rfl, by rw [e2]; exact Erased.refl _⟩
  · intro _ m _
    obtain ⟨bf, e1, e2, _⟩ := bGov_fr (bbA s h) h.evidence
    obtain ⟨_, _, _, _, _, _, _, b8, _⟩ := bf
    have hc := bStake_cs (bbC (bGov (bbA s h) h.evidence).1 m) h.evidence
    unfold cs at hc
    simp only [Prod.mk.injEq] at hc
    obtain ⟨c1, c2, c3⟩ := hc
    refine ⟨?_, ?_, ?_⟩
    · rw [c1]; show (bGov (bbA s h) h.evidence).1.accts.chk = _; rw [b8]; rfl
    · rw [c2]; show (bGov (bbA s h) h.evidence).1.rewards.chk = _; rw [e1]; rfl
    · rw [c3]; show Erased _ (bGov (bbA s h) h.evidence).1.delegs.chk; rw [e2]; exact Erased.refl _
  · intro _ m rl s' issued _ _ hv
    obtain ⟨bf, e1, e2, _⟩ := bGov_fr (bbA s h) h.evidence
    obtain ⟨_, _, _, _, _, _, _, b8, _⟩ := bf
    have hc := bStake_cs (bbC (bGov (bbA s h) h.evidence).1 m) h.evidence
    unfold cs at hc
    simp only [Prod.mk.injEq] at hc
    obtain ⟨c1, c2, c3⟩ := hc
    obtain ⟨df, d1, _⟩ := bStake_fr (bbC (bGov (bbA s h) h.evidence).1 m) h.evidence
    have hk' : KeysOK (bStake (bbC (bGov (bbA s h) h.evidence).1 m) h.evidence).1.rewards.fin := by
      rw [d1]; show KeysOK (bGov (bbA s h) h.evidence).1.rewards.fin; rw [e1]; exact hk
    obtain ⟨_, r2, _⟩ := bVotes_rew hk' hv
    obtain ⟨v1, v2⟩ := bVotes_cfr hv
    refine ⟨?_, ?_, ?_⟩
    · rw [v1, c1]; show (bGov (bbA s h) h.evidence).1.accts.chk = _; rw [b8]; rfl
    · rw [r2, c2]; show (bGov (bbA s h) h.evidence).1.rewards.chk = _; rw [e1]; rfl
    · refine Erased.trans ?_ v2
      rw [c3]; show Erased _ (bGov (bbA s h) h.evidence).1.delegs.chk; rw [e2]; exact Erased.refl _

end Rigo.C09R
