/-
  C10 — the merge-diff `validatorUpdates old new` turns the set of `old` into the set of `new`,
  and is well-formed for the consensus engine.
-/
import RigoProofs.C10Tm
open Std

namespace Rigo.TM

/-- address-sorted and duplicate-free -/
def SortedByAddr (ds : List Delegatee) : Prop := ds.Pairwise (fun a b => a.addr < b.addr)

/-- the public key of each listed delegatee is a fixed function of its address -/
def PubOfAddr (f : Hex → Hex) (ds : List Delegatee) : Prop := ∀ d ∈ ds, d.pub = f d.addr

def Injective (f : Hex → Hex) : Prop := ∀ a b, f a = f b → a = b

theorem SortedByAddr.tail {d : Delegatee} {ds : List Delegatee} (h : SortedByAddr (d :: ds)) : SortedByAddr ds :=
  (List.pairwise_cons.mp h).2
theorem SortedByAddr.head {d : Delegatee} {ds : List Delegatee} (h : SortedByAddr (d :: ds)) :
    ∀ x ∈ ds, d.addr < x.addr := (List.pairwise_cons.mp h).1
theorem PubOfAddr.tail {f : Hex → Hex} {d : Delegatee} {ds : List Delegatee} (h : PubOfAddr f (d :: ds)) : PubOfAddr f ds :=
  fun x hx => h x (List.mem_cons_of_mem _ hx)

theorem lookup_adds (ns : List Delegatee) (hpos : ∀ n ∈ ns, n.total ≠ 0) (M : ValSet) (k : Hex) :
    (applyUpdates M (ns.map fun n => (n.pub, n.total)))[k]? =
      match ns.reverse.find? (·.pub == k) with
      | some n => some n.total
      | none => M[k]? := by
  induction ns generalizing M with
  | nil => simp
  | cons n ns ih =>
    simp only [List.map_cons, applyUpdates_cons, List.reverse_cons, List.find?_append]
    rw [ih (fun x hx => hpos x (List.mem_cons_of_mem _ hx))]
    cases h : ns.reverse.find? (·.pub == k) with
    | some x => simp
    | none =>
      have := hpos n (by simp)
      by_cases hk : n.pub = k <;> simp [hk, getElem?_applyUpdate, this]

theorem lookup_removes (es : List Delegatee) (M : ValSet) (k : Hex) :
    (applyUpdates M (es.map fun e => (e.pub, (0 : Int))))[k]? =
      if es.any (·.pub == k) then none else M[k]? := by
  induction es generalizing M with
  | nil => simp
  | cons e es ih =>
    simp only [List.map_cons, applyUpdates_cons, List.any_cons]
    rw [ih]
    by_cases h : es.any (·.pub == k) <;> by_cases hk : e.pub = k <;> simp [h, hk, getElem?_applyUpdate]


/-- distinct public keys in an address-sorted list -/
theorem pub_distinct {f : Hex → Hex} (finj : Injective f) {ds : List Delegatee} (hs : SortedByAddr ds)
    (hp : PubOfAddr f ds) : ds.Pairwise (fun a b => a.pub ≠ b.pub) := by
  unfold SortedByAddr at hs
  induction hs with
  | nil => exact List.Pairwise.nil
  | cons hr _ ih =>
    refine List.Pairwise.cons ?_ (ih hp.tail)
    intro x hx e
    rw [hp _ (by simp), hp x (List.mem_cons_of_mem _ hx)] at e
    have := finj _ _ e
    exact String.ne_of_lt (hr x hx) this

theorem find?_reverse_pub {ds : List Delegatee} (hd : ds.Pairwise (fun a b => a.pub ≠ b.pub)) (k : Hex) :
    ds.reverse.find? (·.pub == k) = ds.find? (·.pub == k) := by
  induction hd with
  | nil => rfl
  | @cons d ds hr _ ih =>
    simp only [List.reverse_cons, List.find?_append, ih, List.find?_cons]
    by_cases hk : d.pub = k
    · have : ds.find? (·.pub == k) = none := by
        simp only [List.find?_eq_none, beq_iff_eq]; intro x hx e; exact hr x hx (hk.trans e.symm)
      simp [hk, this]
    · have hb : (d.pub == k) = false := by simp [hk]
      cases h : ds.find? (·.pub == k) <;> simp [hb]

/-- what the engine's set looks like after the merge-diff, key by key -/
def mergeSpec (old new : List Delegatee) (M : ValSet) (k : Hex) : Option Int :=
  match new.find? (·.pub == k) with
  | some n => some n.total
  | none => if old.any (·.pub == k) then none else M[k]?

theorem lookup_merge {f : Hex → Hex} (finj : Injective f) (old new : List Delegatee) :
    SortedByAddr old → SortedByAddr new → PubOfAddr f old → PubOfAddr f new →
    (∀ n ∈ new, n.total ≠ 0) → ∀ (M : ValSet), (∀ e ∈ old, M[e.pub]? = some e.total) → ∀ (k : Hex),
    (applyUpdates M (validatorUpdates old new))[k]? = mergeSpec old new M k := by
  fun_induction validatorUpdates old new with
  | case1 ns =>
    intro _ hn _ hpn hpos M _ k
    rw [lookup_adds ns hpos, find?_reverse_pub (pub_distinct finj hn hpn)]
    simp [mergeSpec]
  | case2 es hne =>
    intro _ _ _ _ _ M _ k
    rw [lookup_removes]; simp [mergeSpec]
  | case3 e es n ns hlt ih =>
    intro ho hn hpo hpn hpos M hM k
    have hd := pub_distinct finj ho hpo
    rw [applyUpdates_cons, ih ho.tail hn hpo.tail hpn hpos]
    · unfold mergeSpec
      cases hf : (n :: ns).find? (·.pub == k) with
      | some x => rfl
      | none =>
        simp only [List.any_cons]
        by_cases hk : e.pub = k <;> by_cases ha : es.any (·.pub == k) <;>
          simp [hk, ha, getElem?_applyUpdate]
    · intro e' he'
      have hne : e.pub ≠ e'.pub := (List.pairwise_cons.mp hd).1 e' he'
      rw [getElem?_applyUpdate]; simp only [hne, if_false]
      exact hM e' (List.mem_cons_of_mem _ he')
  | case4 e es n ns hlt heq hne ih =>
    intro ho hn hpo hpn hpos M hM k
    have hdo := pub_distinct finj ho hpo
    have hdn := pub_distinct finj hn hpn
    have hpub : e.pub = n.pub := by
      rw [hpo e (by simp), hpn n (by simp)]; simp only [beq_iff_eq] at heq; rw [heq]
    have hn0 : n.total ≠ 0 := hpos n (by simp)
    rw [applyUpdates_cons, ih ho.tail hn.tail hpo.tail hpn.tail (fun x hx => hpos x (List.mem_cons_of_mem _ hx))]
    · unfold mergeSpec
      simp only [List.find?_cons, List.any_cons]
      by_cases hk : n.pub = k
      · have h1 : ns.find? (·.pub == k) = none := by
          simp only [List.find?_eq_none, beq_iff_eq]; intro x hx e'
          exact (List.pairwise_cons.mp hdn).1 x hx (hk.trans e'.symm)
        have h2 : es.any (·.pub == k) = false := by
          simp only [List.any_eq_false, beq_iff_eq]; intro x hx e'
          exact (List.pairwise_cons.mp hdo).1 x hx (hpub.trans (hk.trans e'.symm))
        simp [hk, h1, h2, getElem?_applyUpdate, hn0]
      · have hb : (n.pub == k) = false := by simp [hk]
        have hb' : (e.pub == k) = false := by rw [hpub]; exact hb
        cases hf : ns.find? (·.pub == k) with
        | some x => simp [hb]
        | none => by_cases ha : es.any (·.pub == k) <;> simp [hb, hb', ha, getElem?_applyUpdate, hk]
    · intro e' he'
      have hne' : n.pub ≠ e'.pub := hpub ▸ (List.pairwise_cons.mp hdo).1 e' he'
      rw [getElem?_applyUpdate]; simp only [hne', if_false]
      exact hM e' (List.mem_cons_of_mem _ he')
  | case5 e es n ns hlt heq hne ih =>
    intro ho hn hpo hpn hpos M hM k
    have hdo := pub_distinct finj ho hpo
    have hdn := pub_distinct finj hn hpn
    have hpub : e.pub = n.pub := by
      rw [hpo e (by simp), hpn n (by simp)]; simp only [beq_iff_eq] at heq; rw [heq]
    have htot : e.total = n.total := by simpa using hne
    rw [ih ho.tail hn.tail hpo.tail hpn.tail (fun x hx => hpos x (List.mem_cons_of_mem _ hx)) M
      (fun e' he' => hM e' (List.mem_cons_of_mem _ he'))]
    unfold mergeSpec
    simp only [List.find?_cons, List.any_cons]
    by_cases hk : n.pub = k
    · have h1 : ns.find? (·.pub == k) = none := by
        simp only [List.find?_eq_none, beq_iff_eq]; intro x hx e'
        exact (List.pairwise_cons.mp hdn).1 x hx (hk.trans e'.symm)
      have h2 : es.any (·.pub == k) = false := by
        simp only [List.any_eq_false, beq_iff_eq]; intro x hx e'
        exact (List.pairwise_cons.mp hdo).1 x hx (hpub.trans (hk.trans e'.symm))
      have := hM e (by simp)
      rw [hpub, hk, htot] at this
      simp [hk, h1, h2, this]
    · have hb : (n.pub == k) = false := by simp [hk]
      have hb' : (e.pub == k) = false := by rw [hpub]; exact hb
      simp [hb, hb']
  | case6 e es n ns hlt heq ih =>
    intro ho hn hpo hpn hpos M hM k
    have hdn := pub_distinct finj hn hpn
    have hn0 : n.total ≠ 0 := hpos n (by simp)
    have hgt : n.addr < e.addr := by
      simp only [beq_iff_eq] at heq
      rcases String.le_total e.addr n.addr with h | h
      · exact absurd (String.not_lt.mp hlt) (fun h' => heq (String.le_antisymm h h'))
      · exact String.not_le.mp (fun h' => heq (String.le_antisymm h' h))
    have hnew : ∀ e' ∈ e :: es, n.pub ≠ e'.pub := by
      intro e' he' eq
      rw [hpn n (by simp), hpo e' he'] at eq
      have := finj _ _ eq
      rcases List.mem_cons.mp he' with rfl | h
      · exact String.ne_of_lt hgt this
      · exact String.ne_of_lt (String.lt_trans hgt (ho.head e' h)) this
    rw [applyUpdates_cons, ih ho hn.tail hpo hpn.tail (fun x hx => hpos x (List.mem_cons_of_mem _ hx))]
    · unfold mergeSpec
      simp only [List.find?_cons]
      by_cases hk : n.pub = k
      · have h1 : ns.find? (·.pub == k) = none := by
          simp only [List.find?_eq_none, beq_iff_eq]; intro x hx e'
          exact (List.pairwise_cons.mp hdn).1 x hx (hk.trans e'.symm)
        have h2 : (e :: es).any (·.pub == k) = false := by
          simp only [List.any_eq_false, beq_iff_eq]; intro x hx e'
          exact hnew x hx (hk.trans e'.symm)
        simp [hk, h1, h2, getElem?_applyUpdate, hn0]
      · have hb : (n.pub == k) = false := by simp [hk]
        cases hf : ns.find? (·.pub == k) with
        | some x => simp [hb]
        | none => by_cases ha : (e :: es).any (·.pub == k) <;> simp [hb, ha, getElem?_applyUpdate, hk]
    · intro e' he'
      rw [getElem?_applyUpdate]; simp only [hnew e' he', if_false]
      exact hM e' he'

/-- **merge-diff correctness**: for address-sorted duplicate-free `old`, `new` whose public keys are a
    fixed injective function of the address and whose new powers are non-zero, applying the update
    list to the set of `old` yields exactly the set of `new`. -/
theorem mergeDiff_correct {f : Hex → Hex} (finj : Injective f) (old new : List Delegatee)
    (ho : SortedByAddr old) (hn : SortedByAddr new) (hpo : PubOfAddr f old) (hpn : PubOfAddr f new)
    (hpos : ∀ n ∈ new, n.total ≠ 0) :
    applyUpdates (asSet old) (validatorUpdates old new) = asSet new := by
  apply ExtTreeMap.ext_getElem?
  intro k
  have hdo := pub_distinct finj ho hpo
  have hdn := pub_distinct finj hn hpn
  rw [lookup_merge finj old new ho hn hpo hpn hpos (asSet old) (fun e he => getElem?_asSet_of_mem old hdo e he)]
  unfold mergeSpec
  cases hf : new.find? (·.pub == k) with
  | some x =>
    have hx := List.mem_of_find?_eq_some hf
    have hp := List.find?_some hf
    simp only [beq_iff_eq] at hp
    rw [← hp, getElem?_asSet_of_mem new hdn x hx]
  | none =>
    simp only [List.find?_eq_none, beq_iff_eq] at hf
    rw [getElem?_asSet_of_not_mem new k hf]
    by_cases ha : old.any (·.pub == k)
    · simp [ha]
    · simp only [ha]
      simp only [List.any_eq_true, beq_iff_eq, not_exists, not_and] at ha
      simpa using getElem?_asSet_of_not_mem old k ha

/-- every update is either the removal of an `old` member or the (key, power) of a `new` member -/
theorem mem_validatorUpdates (old new : List Delegatee) :
    ∀ u ∈ validatorUpdates old new,
      (u.2 = 0 ∧ ∃ e ∈ old, u.1 = e.pub) ∨ (∃ n ∈ new, u = (n.pub, n.total)) := by
  fun_induction validatorUpdates old new with
  | case1 ns => intro u hu; right; simpa [eq_comm] using hu
  | case2 es hne =>
    intro u hu; left
    simp only [List.mem_map] at hu
    obtain ⟨e, he, rfl⟩ := hu
    exact ⟨rfl, e, he, rfl⟩
  | case3 e es n ns hlt ih =>
    intro u hu
    rcases List.mem_cons.mp hu with rfl | hu
    · left; exact ⟨rfl, e, by simp, rfl⟩
    · rcases ih u hu with ⟨h0, e', he', h⟩ | h
      · left; exact ⟨h0, e', List.mem_cons_of_mem _ he', h⟩
      · right; exact h
  | case4 e es n ns hlt heq hne ih =>
    intro u hu
    rcases List.mem_cons.mp hu with rfl | hu
    · right; exact ⟨n, by simp, rfl⟩
    · rcases ih u hu with ⟨h0, e', he', h⟩ | ⟨n', hn', h⟩
      · left; exact ⟨h0, e', List.mem_cons_of_mem _ he', h⟩
      · right; exact ⟨n', List.mem_cons_of_mem _ hn', h⟩
  | case5 e es n ns hlt heq hne ih =>
    intro u hu
    rcases ih u hu with ⟨h0, e', he', h⟩ | ⟨n', hn', h⟩
    · left; exact ⟨h0, e', List.mem_cons_of_mem _ he', h⟩
    · right; exact ⟨n', List.mem_cons_of_mem _ hn', h⟩
  | case6 e es n ns hlt heq ih =>
    intro u hu
    rcases List.mem_cons.mp hu with rfl | hu
    · right; exact ⟨n, by simp, rfl⟩
    · rcases ih u hu with h | ⟨n', hn', h⟩
      · left; exact h
      · right; exact ⟨n', List.mem_cons_of_mem _ hn', h⟩

/-- the key of every update is the key of an address occurring in `old` or `new` -/
theorem key_validatorUpdates {f : Hex → Hex} {old new : List Delegatee} (hpo : PubOfAddr f old)
    (hpn : PubOfAddr f new) : ∀ u ∈ validatorUpdates old new,
      ∃ d, (d ∈ old ∨ d ∈ new) ∧ u.1 = f d.addr := by
  intro u hu
  rcases mem_validatorUpdates old new u hu with ⟨_, e, he, h⟩ | ⟨n, hn, rfl⟩
  · exact ⟨e, Or.inl he, h.trans (hpo e he)⟩
  · exact ⟨n, Or.inr hn, hpn n hn⟩

theorem nodup_validatorUpdates {f : Hex → Hex} (finj : Injective f) (old new : List Delegatee) :
    SortedByAddr old → SortedByAddr new → PubOfAddr f old → PubOfAddr f new →
    ((validatorUpdates old new).map (·.1)).Nodup := by
  fun_induction validatorUpdates old new with
  | case1 ns =>
    intro _ hn _ hpn
    have := pub_distinct finj hn hpn
    simp only [List.map_map, List.Nodup]
    rw [List.pairwise_map]
    exact this
  | case2 es hne =>
    intro ho _ hpo _
    have := pub_distinct finj ho hpo
    simp only [List.map_map, List.Nodup]
    rw [List.pairwise_map]
    exact this
  | case3 e es n ns hlt ih =>
    intro ho hn hpo hpn
    simp only [List.map_cons, List.nodup_cons]
    refine ⟨?_, ih ho.tail hn hpo.tail hpn⟩
    intro hmem
    obtain ⟨u, hu, hk⟩ := List.mem_map.mp hmem
    obtain ⟨d, hd, hkd⟩ := key_validatorUpdates hpo.tail hpn u hu
    have : d.addr = e.addr := finj _ _ (by rw [← hkd, hk, hpo e (by simp)])
    have hlt' : e.addr < d.addr := by
      rcases hd with hd | hd
      · exact ho.head d hd
      · rcases List.mem_cons.mp hd with rfl | hd
        · exact hlt
        · exact String.lt_trans hlt (hn.head d hd)
    exact String.ne_of_lt hlt' this.symm
  | case4 e es n ns hlt heq hne ih =>
    intro ho hn hpo hpn
    simp only [beq_iff_eq] at heq
    simp only [List.map_cons, List.nodup_cons]
    refine ⟨?_, ih ho.tail hn.tail hpo.tail hpn.tail⟩
    intro hmem
    obtain ⟨u, hu, hk⟩ := List.mem_map.mp hmem
    obtain ⟨d, hd, hkd⟩ := key_validatorUpdates hpo.tail hpn.tail u hu
    have : d.addr = n.addr := finj _ _ (by rw [← hkd, hk, hpn n (by simp)])
    have hlt' : n.addr < d.addr := by
      rcases hd with hd | hd
      · rw [← heq]; exact ho.head d hd
      · exact hn.head d hd
    exact String.ne_of_lt hlt' this.symm
  | case5 e es n ns hlt heq hne ih =>
    intro ho hn hpo hpn
    exact ih ho.tail hn.tail hpo.tail hpn.tail
  | case6 e es n ns hlt heq ih =>
    intro ho hn hpo hpn
    have hgt : n.addr < e.addr := by
      simp only [beq_iff_eq] at heq
      rcases String.le_total e.addr n.addr with h | h
      · exact absurd (String.not_lt.mp hlt) (fun h' => heq (String.le_antisymm h h'))
      · exact String.not_le.mp (fun h' => heq (String.le_antisymm h' h))
    simp only [List.map_cons, List.nodup_cons]
    refine ⟨?_, ih ho hn.tail hpo hpn.tail⟩
    intro hmem
    obtain ⟨u, hu, hk⟩ := List.mem_map.mp hmem
    obtain ⟨d, hd, hkd⟩ := key_validatorUpdates hpo hpn.tail u hu
    have : d.addr = n.addr := finj _ _ (by rw [← hkd, hk, hpn n (by simp)])
    have hlt' : n.addr < d.addr := by
      rcases hd with hd | hd
      · rcases List.mem_cons.mp hd with rfl | hd
        · exact hgt
        · exact String.lt_trans hgt (ho.head d hd)
      · exact hn.head d hd
    exact String.ne_of_lt hlt' this.symm

theorem asSet_isEmpty_eq_false {ds : List Delegatee} (hd : ds.Pairwise (fun a b => a.pub ≠ b.pub)) (hne : ds ≠ []) :
    (asSet ds).isEmpty = false := by
  cases ds with
  | nil => exact absurd rfl hne
  | cons d ds =>
    have h := getElem?_asSet_of_mem (d :: ds) hd d (by simp)
    rw [ExtTreeMap.isEmpty_eq_false_iff]
    intro he
    rw [he] at h
    simp at h

theorem asSet_nil_isEmpty : (asSet []).isEmpty = true := by
  simp [asSet]

/-- **well-formedness** of the merge-diff for the consensus engine: no duplicate keys, no negative power,
    removals only of members of the old set, powers are the new delegatees' totals; the engine accepts
    the list whenever the new set is not empty. -/
theorem updates_wellformed {f : Hex → Hex} (finj : Injective f) (old new : List Delegatee)
    (ho : SortedByAddr old) (hn : SortedByAddr new) (hpo : PubOfAddr f old) (hpn : PubOfAddr f new)
    (hpos : ∀ n ∈ new, 0 < n.total) :
    ((validatorUpdates old new).map (·.1)).Nodup ∧
    (∀ u ∈ validatorUpdates old new, 0 ≤ u.2) ∧
    (∀ u ∈ validatorUpdates old new, u.2 = 0 → u.1 ∈ asSet old) ∧
    (∀ u ∈ validatorUpdates old new, u.2 ≠ 0 → ∃ n ∈ new, u = (n.pub, n.total)) ∧
    ((applyUpdates (asSet old) (validatorUpdates old new)).isEmpty = false ↔ new ≠ []) := by
  have hpos' : ∀ n ∈ new, n.total ≠ 0 := fun n hn => Int.ne_of_gt (hpos n hn)
  refine ⟨nodup_validatorUpdates finj old new ho hn hpo hpn, ?_, ?_, ?_, ?_⟩
  · intro u hu
    rcases mem_validatorUpdates old new u hu with ⟨h0, _⟩ | ⟨n, hn', rfl⟩
    · omega
    · exact Int.le_of_lt (hpos n hn')
  · intro u hu h0
    rcases mem_validatorUpdates old new u hu with ⟨_, e, he, hk⟩ | ⟨n, hn', rfl⟩
    · rw [ExtTreeMap.mem_iff_isSome_getElem?, hk, getElem?_asSet_of_mem old (pub_distinct finj ho hpo) e he]; rfl
    · exact absurd h0 (hpos' n hn')
  · intro u hu h0
    rcases mem_validatorUpdates old new u hu with ⟨h, _⟩ | h
    · exact absurd h h0
    · exact h
  · rw [mergeDiff_correct finj old new ho hn hpo hpn hpos']
    constructor
    · intro h e; rw [e, asSet_nil_isEmpty] at h; cases h
    · exact asSet_isEmpty_eq_false (pub_distinct finj hn hpn)

/-- the engine accepts the merge-diff whenever the new validator list is not empty -/
theorem updates_accepted {f : Hex → Hex} (finj : Injective f) (old new : List Delegatee)
    (ho : SortedByAddr old) (hn : SortedByAddr new) (hpo : PubOfAddr f old) (hpn : PubOfAddr f new)
    (hpos : ∀ n ∈ new, 0 < n.total) (hne : new ≠ []) :
    tmAccepts (asSet old) (validatorUpdates old new) := by
  obtain ⟨h1, h2, h3, _, h5⟩ := updates_wellformed finj old new ho hn hpo hpn hpos
  exact ⟨h1, h2, h3, h5.mpr hne⟩

/-- … and rejects it when the new list is empty and the old one is not (the set would become empty) -/
theorem updates_rejected_of_empty (old : List Delegatee) :
    ¬ tmAccepts (asSet old) (validatorUpdates old []) := by
  intro h
  have h4 := h.2.2.2
  have : validatorUpdates old [] = old.map fun e => (e.pub, 0) := by
    cases old <;> simp [validatorUpdates]
  rw [this, ExtTreeMap.isEmpty_eq_false_iff] at h4
  apply h4
  apply ExtTreeMap.ext_getElem?
  intro k
  rw [lookup_removes]
  by_cases ha : old.any (·.pub == k)
  · simp [ha]
  · simp only [ha]
    simp only [List.any_eq_true, beq_iff_eq, not_exists, not_and] at ha
    simpa using getElem?_asSet_of_not_mem old k ha

end Rigo.TM
