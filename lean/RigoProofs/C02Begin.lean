/-
  C02 helper: BeginBlock (governance punishment is value-neutral, slashing burns exactly `slashLoss`,
  rewards only touch the reward ledger, jailing moves stakes from bonded to unbonding).
-/
import RigoProofs.C02End
import RigoProofs.C02Slash

namespace Rigo.C02

open Std Rigo.Delegatee

/-- agreement on everything value-relevant except the reward ledger -/
structure CoreEq (s s' : St) : Prop where
  accts : s'.accts = s.accts
  delegs : s'.delegs = s.delegs
  frozen : s'.frozen = s.frozen
  blk : s'.blk = s.blk
  active : s'.active = s.active
  ghost : s'.ghost = s.ghost

theorem CoreEq.refl (s : St) : CoreEq s s := ⟨rfl, rfl, rfl, rfl, rfl, rfl⟩
theorem CoreEq.trans {a b c : St} (h1 : CoreEq a b) (h2 : CoreEq b c) : CoreEq a c :=
  ⟨h2.1.trans h1.1, h2.2.trans h1.2, h2.3.trans h1.3, h2.4.trans h1.4, h2.5.trans h1.5, h2.6.trans h1.6⟩
theorem ValEq.core {s s' : St} (h : ValEq s s') : CoreEq s s' := ⟨h.1, h.2, h.3, h.4, h.5, h.6⟩

/-! ### governance punishment -/

theorem pair_fold_coreEq {α β : Type} (F : St × β → α → St × β)
    (hF : ∀ acc b x, CoreEq acc (F (acc, b) x).1) : ∀ (l : List α) (s : St) (b : β), CoreEq s (l.foldl F (s, b)).1 := by
  intro l
  induction l with
  | nil => intro s b; exact CoreEq.refl s
  | cons x l ih =>
    intro s b
    rw [List.foldl_cons]
    have h1 := hF s b x
    cases hx : F (s, b) x with
    | mk s1 b1 => rw [hx] at h1; exact h1.trans (ih s1 b1)

theorem govPunish_coreEq (s : St) (a : Hex) : CoreEq s (govPunish s a).1 := by
  unfold govPunish
  apply pair_fold_coreEq
  intro acc b x
  simp only
  split
  · exact CoreEq.refl _
  · exact ⟨rfl, rfl, rfl, rfl, rfl, rfl⟩

theorem beginGov_coreEq (s : St) (h : Header) :
    CoreEq { s with blk := some { height := h.height, time := h.time, proposer := h.proposer } } (beginGov s h) := by
  unfold beginGov
  apply pair_fold_coreEq
  intro acc b x
  exact govPunish_coreEq acc x

/-! ### the vote loop -/

/-- what one vote (reward or missed-block bookkeeping, possibly jailing) preserves -/
structure VoteOK (s s' : St) : Prop where
  inv0 : Inv0 s'
  hold : holdings s' = holdings s
  accts : s'.accts = s.accts
  blk : s'.blk = s.blk
  active : s'.active = s.active
  ghost : s'.ghost = s.ghost
  delegsHist : s'.delegs.hist = s.delegs.hist
  frozenHist : s'.frozen.hist = s.frozen.hist
  keep : ∀ (k : String) (st : Stake), s.frozen.fin[k]? = some st → s'.frozen.fin[k]? = some st

theorem VoteOK.refl {s : St} (hi : Inv0 s) : VoteOK s s := ⟨hi, rfl, rfl, rfl, rfl, rfl, rfl, rfl, fun _ _ h => h⟩
theorem VoteOK.trans {a b c : St} (h1 : VoteOK a b) (h2 : VoteOK b c) : VoteOK a c :=
  ⟨h2.inv0, h2.hold.trans h1.hold, h2.accts.trans h1.accts, h2.blk.trans h1.blk, h2.active.trans h1.active,
   h2.ghost.trans h1.ghost, h2.delegsHist.trans h1.delegsHist, h2.frozenHist.trans h1.frozenHist,
   fun k st h => h2.keep k st (h1.keep k st h)⟩

theorem CoreEq.voteOK {s s' : St} (h : CoreEq s s') (hi : Inv0 s) : VoteOK s s' := by
  refine ⟨⟨?_, ?_, ?_⟩, ?_, h.accts, h.blk, h.active, h.ghost, by rw [h.delegs], by rw [h.frozen], ?_⟩
  · rw [h.accts]; exact hi.acctKey
  · rw [h.delegs]; exact hi.delegKey
  · rw [h.frozen]; exact hi.frozenKey
  · unfold holdings; rw [h.accts, h.delegs, h.frozen]
  · rw [h.frozen]; exact fun _ _ h => h

theorem res_pair_fold {α : Type} (P : St → Prop) (F : Res (St × Nat) → α → Res (St × Nat))
    (hpanic : ∀ e x, F (.panic e) x = .panic e)
    (hstep : ∀ s i x s' i', P s → F (.ok (s, i)) x = .ok (s', i') → P s') :
    ∀ (l : List α) (s : St) (i : Nat) (s' : St) (i' : Nat), P s → l.foldl F (.ok (s, i)) = .ok (s', i') → P s' := by
  have hp : ∀ (l : List α) e, l.foldl F (.panic e) = .panic e := by
    intro l; induction l with
    | nil => intro e; rfl
    | cons x l ih => intro e; rw [List.foldl_cons, hpanic, ih]
  intro l
  induction l with
  | nil =>
    intro s i s' i' hs h
    simp only [List.foldl_nil] at h; injection h with h; injection h with h1 _; subst h1; exact hs
  | cons x l ih =>
    intro s i s' i' hs h
    rw [List.foldl_cons] at h
    cases hx : F (.ok (s, i)) x with
    | panic e => rw [hx, hp] at h; cases h
    | ok r1 =>
      obtain ⟨s1, i1⟩ := r1
      rw [hx] at h; exact ih s1 i1 s' i' (hstep s i x s1 i1 hs hx) h

theorem rewardTo_coreEq {s s' : St} {d : Delegatee} {height : Int} {i : Nat}
    (h : rewardTo s d height = .ok (s', i)) : CoreEq s s' := by
  unfold rewardTo at h
  refine res_pair_fold (CoreEq s) _ ?_ ?_ _ s 0 s' i (CoreEq.refl s) h
  · intro e x; rfl
  · intro s1 i1 x s2 i2 hc hs
    simp only at hs
    split at hs
    · cases hs
    · injection hs with hs; injection hs with h1 _; subst h1
      exact hc.trans ⟨rfl, rfl, rfl, rfl, rfl, rfl⟩

theorem processVote_ok {s s' : St} {height : Int} {rl : KMap Delegatee} {v : VoteIn} {i i' : Nat}
    (h : processVote s height rl v i = .ok (s', i')) (hi : Inv0 s)
    (hf : FreezeSafe s.frozen.fin (jailedStakes s height v)) : VoteOK s s' := by
  unfold processVote at h
  split at h
  · -- signed: rewards only
    split at h
    · injection h with h; injection h with h1 _; subst h1; exact VoteOK.refl hi
    · split at h
      · injection h with h; injection h with h1 _; subst h1; exact VoteOK.refl hi
      · split at h
        · cases h
        · rename_i s1 i1 hr
          injection h with h; injection h with h1 _; subst h1
          exact (rewardTo_coreEq hr).voteOK hi
  · rename_i hs
    have hs' : v.signed = false := by simpa using hs
    unfold jailedStakes at hf
    simp only [hs', Bool.false_eq_true, if_false] at hf
    simp only at h
    split at h
    · injection h with h; injection h with h1 _; subst h1; exact VoteOK.refl hi
    · rename_i d hd
      rw [hd] at hf
      simp only at hf
      have hd' : s.delegs.fin[ledgerKey v.addr]? = some d := by simpa [Led.get] using hd
      obtain ⟨dk, dtot, dpow⟩ := hi.delegKey _ _ hd'
      generalize countInWindow (mark d.notSigned (height - 1)) _ (height - 1) = cw at h hf
      split at h
      · -- jailed: all stakes move to the unbonding ledger
        rename_i hcond
        rw [if_pos hcond] at hf
        injection h with h; injection h with h1 _; subst h1
        simp only [delAllStakes]
        obtain ⟨f1, f2, f3, f4⟩ := freezeAll_ok d.stakes (height + s.active.lazyRewardBlocks) s.frozen hf
        refine ⟨⟨hi.acctKey, ?_, ?_⟩, ?_, rfl, rfl, rfl, rfl, by simp [Led.del, Led.set], f1, f3⟩
        · intro k d' hk
          simp only [Led.del, Led.set, if_true] at hk
          rw [ExtTreeMap.getElem?_erase] at hk
          split at hk
          · cases hk
          · rw [ExtTreeMap.getElem?_insert] at hk
            split at hk
            · rename_i hne e; exact absurd e hne
            · exact hi.delegKey k d' hk
        · intro k x hk
          rcases f4 k x hk with h | ⟨hk', st0, hst0, e⟩
          · exact hi.frozenKey k x h
          · subst e; exact ⟨hk', dpow st0 hst0⟩
        · simp only [holdings]
          rw [f2]
          simp only [Led.del, Led.set, if_true, bonded]
          rw [msum_erase, msum_insert, dk, fAt_some _ hd']
          simp only [fAt]
          rw [ExtTreeMap.getElem?_insert]
          simp only [compare_eq_iff_eq, if_true, Option.map_some, Option.getD_some]
          congr 1; congr 1; simp only [bonded, unbonding]; omega
      · -- not jailed: only the missed-block marks change
        injection h with h; injection h with h1 _; subst h1
        refine ⟨⟨hi.acctKey, ?_, hi.frozenKey⟩, ?_, rfl, rfl, rfl, rfl, by simp [Led.set], rfl, fun _ _ h => h⟩
        · intro k d' hk
          simp only [Led.set, if_true] at hk
          rw [ExtTreeMap.getElem?_insert] at hk
          split at hk
          · rename_i e; simp at e
            injection hk with hk; subst hk
            exact ⟨e, dtot, dpow⟩
          · exact hi.delegKey k d' hk
        · simp only [holdings, Led.set, if_true, bonded]
          rw [msum_insert, dk, fAt_some _ hd']
          congr 1; congr 1; simp only [bonded]; omega

theorem votesFold_panic (height : Int) (rl : KMap Delegatee) (l : List VoteIn) (p : String) :
    l.foldl (fun acc v =>
      match acc with
      | .panic p => .panic p
      | .ok (s, issued) => processVote s height rl v issued) (Res.panic p : Res (St × Nat)) = .panic p := by
  induction l with
  | nil => rfl
  | cons y l ih => rw [List.foldl_cons]; exact ih

theorem votesFold_ok (height : Int) (rl : KMap Delegatee) : ∀ (l : List VoteIn) (s : St) (i : Nat) (r : St × Nat),
    Inv0 s → VotesFresh height rl s i l →
    l.foldl (fun acc v =>
      match acc with
      | .panic p => .panic p
      | .ok (s, issued) => processVote s height rl v issued) (Res.ok (s, i)) = .ok r → VoteOK s r.1 := by
  intro l
  induction l with
  | nil =>
    intro s i r hi _ h
    simp only [List.foldl_nil] at h; injection h with h; subst h; exact VoteOK.refl hi
  | cons v l ih =>
    intro s i r hi hf h
    rw [List.foldl_cons] at h
    simp only at h
    obtain ⟨hf1, hf2⟩ := hf
    cases hp : processVote s height rl v i with
    | panic p => rw [hp, votesFold_panic] at h; cases h
    | ok r1 =>
      obtain ⟨s1, i1⟩ := r1
      rw [hp] at h hf2
      simp only at hf2
      have v1 := processVote_ok hp hi hf1
      exact v1.trans (ih s1 i1 r v1.inv0 hf2 h)

end Rigo.C02
