/-
  C05 — congruence pass, part 3: the relation `Sim P` (same state up to empty account records of
  `P`-addresses under fresh keys), the EVM path (`evmAccessed`, `evmSynced`, created-contract lookup) and
  `runTrx` on two `Sim`-related states.
-/
import RigoProofs.C05CongrNative
open Std
set_option linter.unusedSimpArgs false
set_option linter.unusedVariables false
namespace Rigo.C05C
open Rigo

/-- `m'` is `m` plus empty records, under keys that had no record, of addresses satisfying `P` -/
def EmptyExtP (P : Hex → Prop) (m m' : KMap Account) : Prop :=
  ∀ k : String, m'[k]? = m[k]? ∨ (m[k]? = none ∧ ∃ a, P a ∧ ledgerKey a = k ∧ m'[k]? = some (emptyAcct a))

theorem EmptyExtP.refl (P : Hex → Prop) (m : KMap Account) : EmptyExtP P m m := fun _ => Or.inl rfl

theorem EmptyExtP.mono {P Q : Hex → Prop} {m m' : KMap Account} (hPQ : ∀ a, P a → Q a) (h : EmptyExtP P m m') :
    EmptyExtP Q m m' := by
  intro k
  rcases h k with e | ⟨n, a, pa, ka, e⟩
  · exact Or.inl e
  · exact Or.inr ⟨n, a, hPQ a pa, ka, e⟩

theorem EmptyExtP.toEmptyExt {P : Hex → Prop} {m m' : KMap Account} (h : EmptyExtP P m m') : EmptyExt m m' := by
  intro k
  rcases h k with e | ⟨n, a, pa, ka, e⟩
  · exact Or.inl e
  · exact Or.inr ⟨n, a, ka, e⟩

theorem EmptyExtP.trans {P : Hex → Prop} {a b c : KMap Account} (h1 : EmptyExtP P a b) (h2 : EmptyExtP P b c) :
    EmptyExtP P a c := by
  intro k
  rcases h1 k with e1 | ⟨n1, x, px, kx, e1⟩ <;> rcases h2 k with e2 | ⟨n2, y, py, ky, e2⟩
  · exact Or.inl (e2.trans e1)
  · exact Or.inr ⟨by rw [← e1]; exact n2, y, py, ky, e2⟩
  · exact Or.inr ⟨n1, x, px, kx, e2.trans e1⟩
  · rw [e1] at n2; simp at n2

theorem EmptyExtP.insert {P : Hex → Prop} {m m' : KMap Account} (h : EmptyExtP P m m') (k : String) (v : Account) :
    EmptyExtP P (m.insert k v) (m'.insert k v) := by
  intro j
  rw [kmap_get_insert, kmap_get_insert]
  by_cases hk : k = j
  · simp [hk]
  · simp only [hk, if_false]; exact h j

theorem EmptyExtP.agree {P : Hex → Prop} {m m' : KMap Account} (h : EmptyExtP P m m') {k : String}
    (hk : m[k]? ≠ none) : m'[k]? = m[k]? := by
  rcases h k with e | ⟨n, _⟩
  · exact e
  · exact absurd n hk

theorem EmptyExtP.present {P : Hex → Prop} {m m' : KMap Account} (h : EmptyExtP P m m') {k : String}
    (hk : m[k]? ≠ none) : m'[k]? ≠ none := by
  rw [h.agree hk]; exact hk

/-- no address satisfying `P` shares its ledger key with a different address `a` -/
def Compat (P : Hex → Prop) (a : Hex) : Prop := ∀ x, P x → ledgerKey x = ledgerKey a → x = a

/-- the two states differ only by empty `P`-records in the consensus account map -/
def Sim (P : Hex → Prop) (t t' : St) : Prop :=
  t' = withFin t t'.accts.fin ∧ EmptyExtP P t.accts.fin t'.accts.fin

theorem Sim.refl (P : Hex → Prop) (t : St) : Sim P t t := ⟨rfl, EmptyExtP.refl P _⟩

theorem Sim.mono {P Q : Hex → Prop} {t t' : St} (hPQ : ∀ a, P a → Q a) (h : Sim P t t') : Sim Q t t' :=
  ⟨h.1, h.2.mono hPQ⟩

theorem Sim.obs {P : Hex → Prop} {t t' : St} (h : Sim P t t') : obs t' = obs t :=
  obs_eq_of_shape h.1 h.2.toEmptyExt

theorem Sim.setAcct {P : Hex → Prop} {t t' : St} (h : Sim P t t') (v : Account) :
    Sim P (t.setAcct true v) (t'.setAcct true v) := by
  obtain ⟨e, hE⟩ := h
  constructor
  · rw [e, setAcct_withFin]
    rw [setAcct_true]; rfl
  · rw [setAcct_true, setAcct_true]
    exact hE.insert _ _

theorem Sim.findOrNew {P : Hex → Prop} {t t' : St} (h : Sim P t t') {a : Hex} (hc : Compat P a) :
    Sim P (t.findOrNewAcct true a).1 (t'.findOrNewAcct true a).1 ∧
    (t'.findOrNewAcct true a).2 = (t.findOrNewAcct true a).2 := by
  have hS := h
  obtain ⟨e, hE⟩ := h
  rw [findOrNew_true, findOrNew_true]
  rcases hE (ledgerKey a) with e1 | ⟨n, x, px, kx, e1⟩
  · rw [e1]
    cases hh : t.accts.fin[ledgerKey a]? with
    | some ac => exact ⟨hS, rfl⟩
    | none => exact ⟨hS.setAcct _, rfl⟩
  · have hx : x = a := hc x px kx
    subst hx
    rw [e1, n]
    simp only
    refine ⟨⟨?_, ?_⟩, rfl⟩
    · rw [e, setAcct_true]; rfl
    · rw [setAcct_true]
      intro j
      simp only
      rw [kmap_get_insert]
      by_cases hj : ledgerKey x = j
      · subst hj; left; simp only [if_true]; exact e1
      · simp only [hj, if_false]; exact hE j

theorem present_setAcct {t : St} {k : String} (v : Account) (hk : t.accts.fin[k]? ≠ none) :
    (t.setAcct true v).accts.fin[k]? ≠ none := by
  rw [setAcct_fin_get]; split <;> simp_all

theorem present_findOrNew {t : St} {k : String} (a : Hex) (hk : t.accts.fin[k]? ≠ none) :
    (t.findOrNewAcct true a).1.accts.fin[k]? ≠ none :=
  (EmptyExt_findOrNew t a |> fun h => by
    rcases h k with e | ⟨n, _⟩
    · rw [e]; exact hk
    · exact absurd n hk)

theorem present_findOrNew_self (t : St) (a : Hex) : (t.findOrNewAcct true a).1.accts.fin[ledgerKey a]? ≠ none := by
  rw [findOrNew_snd_get]; simp

theorem evmAccessed_cons (t : St) (a : Hex) (l : List Hex) :
    evmAccessed t (a :: l) = evmAccessed (t.findOrNewAcct true a).1 l := rfl

theorem Sim.evmAccessed {P : Hex → Prop} (l : List Hex) : ∀ {t t' : St}, Sim P t t' → (∀ a ∈ l, Compat P a) →
    Sim P (evmAccessed t l) (evmAccessed t' l) := by
  induction l with
  | nil => intro t t' h _; exact h
  | cons a l ih =>
    intro t t' h hc
    rw [evmAccessed_cons, evmAccessed_cons]
    exact ih (h.findOrNew (hc a List.mem_cons_self)).1 (fun b hb => hc b (List.mem_cons_of_mem _ hb))

theorem present_evmAccessed (l : List Hex) : ∀ {t : St} {k : String}, t.accts.fin[k]? ≠ none →
    (evmAccessed t l).accts.fin[k]? ≠ none := by
  induction l with
  | nil => intro t k h; exact h
  | cons a l ih => intro t k h; rw [evmAccessed_cons]; exact ih (present_findOrNew a h)

theorem present_evmAccessed_mem (l : List Hex) : ∀ {t : St} {a : Hex}, a ∈ l →
    (evmAccessed t l).accts.fin[ledgerKey a]? ≠ none := by
  induction l with
  | nil => intro t a h; simp at h
  | cons b l ih =>
    intro t a h
    rw [evmAccessed_cons]
    rcases List.mem_cons.mp h with rfl | h
    · exact present_evmAccessed l (present_findOrNew_self t a)
    · exact ih h

theorem evmSynced_cons (t : St) (e : Hex × Nat × Nat) (l : List (Hex × Nat × Nat)) :
    evmSynced t (e :: l) = evmSynced (syncOne t e) l := rfl

theorem Sim.syncOne {P : Hex → Prop} {t t' : St} (h : Sim P t t') {e : Hex × Nat × Nat} (hc : Compat P e.1) :
    Sim P (syncOne t e) (syncOne t' e) := by
  obtain ⟨h1, h2⟩ := h.findOrNew hc
  unfold Rigo.syncOne
  rw [h2]
  exact h1.setAcct _

theorem present_syncOne {t : St} {k : String} (e : Hex × Nat × Nat) (hk : t.accts.fin[k]? ≠ none) :
    (syncOne t e).accts.fin[k]? ≠ none := by
  unfold syncOne
  exact present_setAcct _ (present_findOrNew _ hk)

theorem present_syncOne_self (t : St) (e : Hex × Nat × Nat) : (syncOne t e).accts.fin[ledgerKey e.1]? ≠ none := by
  unfold syncOne
  exact present_setAcct _ (present_findOrNew_self t e.1)

theorem Sim.evmSynced {P : Hex → Prop} (l : List (Hex × Nat × Nat)) : ∀ {t t' : St}, Sim P t t' →
    (∀ e ∈ l, Compat P e.1) → Sim P (evmSynced t l) (evmSynced t' l) := by
  induction l with
  | nil => intro t t' h _; exact h
  | cons a l ih =>
    intro t t' h hc
    rw [evmSynced_cons, evmSynced_cons]
    exact ih (h.syncOne (hc a List.mem_cons_self)) (fun b hb => hc b (List.mem_cons_of_mem _ hb))

theorem present_evmSynced (l : List (Hex × Nat × Nat)) : ∀ {t : St} {k : String}, t.accts.fin[k]? ≠ none →
    (evmSynced t l).accts.fin[k]? ≠ none := by
  induction l with
  | nil => intro t k h; exact h
  | cons a l ih => intro t k h; rw [evmSynced_cons]; exact ih (present_syncOne a h)

theorem present_evmSynced_mem (l : List (Hex × Nat × Nat)) : ∀ {t : St} {e : Hex × Nat × Nat}, e ∈ l →
    (evmSynced t l).accts.fin[ledgerKey e.1]? ≠ none := by
  induction l with
  | nil => intro t a h; simp at h
  | cons b l ih =>
    intro t a h
    rw [evmSynced_cons]
    rcases List.mem_cons.mp h with rfl | h
    · exact present_evmSynced l (present_syncOne_self t a)
    · exact ih h

/-- `execEvm` on the DeliverTx path in terms of `evmAccessed` / `evmSynced` -/
theorem execEvm_eq (s : St) (tx : TxIn) :
    execEvm s true tx =
      match tx.evm with
      | none => .error (.panic "model: contract execution without oracle")
      | some o =>
        if o.ok = false then .ok { st := evmAccessed s o.accessed, fail := some o.failKind }
        else if isZeroAddr tx.to = true then
          match (evmSynced (evmAccessed s o.accessed) o.synced).accts.fin[ledgerKey o.created]? with
          | some c => .ok { st := (evmSynced (evmAccessed s o.accessed) o.synced).setAcct true { c with code := tx.hash },
                            evmGas := some o.gasUsed }
          | none => .error (.panic "nil dereference: created contract account not found")
        else .ok { st := evmSynced (evmAccessed s o.accessed) o.synced, evmGas := some o.gasUsed } := by
  unfold execEvm
  cases ho : tx.evm with
  | none => rfl
  | some o =>
    simp only [bind, Except.bind, pure, Except.pure, throw, throwThe, MonadExceptOf.throw, findAcct_true]
    cases hok : o.ok with
    | false => simp; rfl
    | true =>
      simp
      cases hz : isZeroAddr tx.to with
      | false => simp; rfl
      | true =>
        simp
        first | rfl | (unfold evmSynced evmAccessed syncOne; rfl)


/-- a successful deployment finds the created address: it is among the addresses synced in or out, or
    no `P`-address shares its key -/
def CreatedOK (P : Hex → Prop) (t : TxIn) : Prop :=
  ∀ o, t.evm = some o → o.ok = true → isZeroAddr t.to = true →
    (∃ a ∈ o.accessed, ledgerKey a = ledgerKey o.created) ∨
    (∃ e ∈ o.synced, ledgerKey e.1 = ledgerKey o.created) ∨
    ∀ x, P x → ledgerKey x ≠ ledgerKey o.created

/-- the addresses the EVM result touches do not collide (different address, same ledger key) with a `P`-address -/
def OracleCompat (P : Hex → Prop) (t : TxIn) : Prop :=
  ∀ o, t.evm = some o → (∀ a ∈ o.accessed, Compat P a) ∧ (∀ e ∈ o.synced, Compat P e.1)

/-- related results of running a transaction body on two `Sim`-related states -/
def RunRel (P : Hex → Prop) : Step (St × Nat × Option String) → Step (St × Nat × Option String) → Prop
  | .ok (x, g, k), .ok (x', g', k') => g' = g ∧ k' = k ∧ Sim P x x'
  | .error _, .error _ => True
  | _, _ => False

theorem runTrx_evm_rel {P : Hex → Prop} {sv sv' : St} {h : Int} {t : TxIn} {recv : Account}
    (hS : Sim P sv sv') (hO : OracleCompat P t) (hC : CreatedOK P t) (hv : viaEvm t recv) :
    RunRel P (runTrx sv true h t recv) (runTrx sv' true h t recv) := by
  rw [runTrx_evm hv, runTrx_evm hv, execEvm_eq, execEvm_eq]
  cases ho : t.evm with
  | none => simp [RunRel, Except.bind]
  | some o =>
    obtain ⟨c1, c2⟩ := hO o ho
    have hA := hS.evmAccessed o.accessed c1
    have hY := hA.evmSynced o.synced c2
    simp only
    by_cases hok : o.ok = false
    · simp only [hok, if_true, Except.bind]
      simp [RunRel]
      exact hA
    · have hok' : o.ok = true := by simpa using hok
      simp only [hok, if_false]
      by_cases hz : isZeroAddr t.to = true
      · simp only [hz, if_true]
        have hl : (evmSynced (evmAccessed sv' o.accessed) o.synced).accts.fin[ledgerKey o.created]? =
            (evmSynced (evmAccessed sv o.accessed) o.synced).accts.fin[ledgerKey o.created]? := by
          rcases hY.2 (ledgerKey o.created) with e | ⟨n, x, px, kx, e⟩
          · exact e
          · exfalso
            rcases hC o ho hok' hz with ⟨a, ha, ka⟩ | ⟨e', he', ke⟩ | hno
            · exact present_evmSynced o.synced (ka ▸ present_evmAccessed_mem o.accessed ha) n
            · exact (ke ▸ present_evmSynced_mem o.synced he') n
            · exact hno x px kx
        rw [hl]
        cases hc : (evmSynced (evmAccessed sv o.accessed) o.synced).accts.fin[ledgerKey o.created]? with
        | none => simp [RunRel, Except.bind]
        | some c =>
          simp [RunRel, Except.bind]
          exact hY.setAcct _
      · simp only [hz, if_false, Except.bind]
        simp [RunRel]
        exact hY

theorem runTrx_native_rel {P : Hex → Prop} {sv sv' : St} {h : Int} {t : TxIn} {recv : Account}
    (hS : Sim P sv sv') (hf : sv.accts.fin[ledgerKey t.from_]? ≠ none) (hto : sv.accts.fin[ledgerKey t.to]? ≠ none)
    (hn : ¬ viaEvm t recv) :
    RunRel P (runTrx sv true h t recv) (runTrx sv' true h t recv) := by
  obtain ⟨e, hE⟩ := hS
  generalize sv'.accts.fin = m' at e hE
  subst e
  let R : KMap Account → KMap Account → Prop := fun a b =>
    EmptyExtP P a b ∧ b[ledgerKey t.from_]? = a[ledgerKey t.from_]? ∧ b[ledgerKey t.to]? = a[ledgerKey t.to]?
  have hR : InsClosed R := by
    intro a b k v ⟨h1, h2, h3⟩
    refine ⟨h1.insert k v, ?_, ?_⟩
    · rw [kmap_get_insert, kmap_get_insert, h2]
    · rw [kmap_get_insert, kmap_get_insert, h3]
  have hR' : InsClosed (fun a b => R b a) := fun a b k v hab => hR b a k v hab
  have h0 : R sv.accts.fin m' := ⟨hE, hE.agree hf, hE.agree hto⟩
  cases h1 : runTrx sv true h t recv with
  | ok p =>
    obtain ⟨x, g, k⟩ := p
    have h1' : runTrx (withFin sv sv.accts.fin) true h t recv = .ok (x, g, k) := h1
    obtain ⟨x', hx', e1, e2⟩ := runTrx_native_twin hR (fun a b hab => hab.2.1) (fun a b hab => hab.2.2) h0 hn h1'
    rw [hx']
    exact ⟨rfl, rfl, e1, e2.1⟩
  | error er =>
    cases h2 : runTrx (withFin sv m') true h t recv with
    | error er' => trivial
    | ok p =>
      exfalso
      obtain ⟨x, g, k⟩ := p
      obtain ⟨x', hx', _, _⟩ := runTrx_native_twin (m' := sv.accts.fin) hR'
        (fun a b hab => hab.2.1.symm) (fun a b hab => hab.2.2.symm) h0 hn h2
      have : runTrx sv true h t recv = .ok (x', g, k) := hx'
      rw [h1] at this
      simp at this

theorem runTrx_rel {P : Hex → Prop} {sv sv' : St} {h : Int} {t : TxIn} {recv : Account}
    (hS : Sim P sv sv') (hf : sv.accts.fin[ledgerKey t.from_]? ≠ none) (hto : sv.accts.fin[ledgerKey t.to]? ≠ none)
    (hO : OracleCompat P t) (hC : CreatedOK P t) :
    RunRel P (runTrx sv true h t recv) (runTrx sv' true h t recv) := by
  by_cases hv : viaEvm t recv
  · exact runTrx_evm_rel hS hO hC hv
  · exact runTrx_native_rel hS hf hto hv

end Rigo.C05C
