/-
  Helper lemmas for the equality theorems between the generated definitions
  (`Rigo.Gen.*`, Rigo/Generated/Funcs.lean, regenerated from the Go source on every check run)
  and the hand-written model (`Rigo.*`).

  * `Res.toG`  : the model's `Res` as the generated code's `G = Except String`, up to the panic text;
  * `G.same`   : equality of two `G` values up to the text of the panic;
  * `forIn_eq_pure` : the loop rule used for every translated `for … range` loop: a loop whose
    body never panics computes the structurally recursive function `L`.
-/
import Rigo.Generated.Funcs
import Rigo.StakeLogic

namespace Rigo.GenEq
open Rigo Rigo.Gen

/-- a Go panic, whatever its text -/
def G.panics {α : Type} (x : G α) : Prop := ∃ s, x = .error s

/-- the generated value corresponds to the model's `Res`: same value, or both panic -/
def G.matches {α : Type} (x : G α) (r : Res α) : Prop :=
  match r with
  | .ok a => x = .ok a
  | .panic _ => G.panics x

@[simp] theorem G.matches_ok {α : Type} (x : G α) (a : α) : G.matches x (.ok a) ↔ x = .ok a := Iff.rfl
@[simp] theorem G.matches_panic {α : Type} (x : G α) (s : String) : G.matches x (.panic s) ↔ G.panics x := Iff.rfl
@[simp] theorem G.panics_error {α : Type} (s : String) : G.panics (Except.error s : G α) := ⟨s, rfl⟩
@[simp] theorem G.panics_throw {α : Type} (s : String) : G.panics (throw s : G α) := ⟨s, rfl⟩
@[simp] theorem G.not_panics_ok {α : Type} (a : α) : ¬ G.panics (Except.ok a : G α) := by
  intro ⟨s, h⟩; cases h
@[simp] theorem G.not_panics_pure {α : Type} (a : α) : ¬ G.panics (pure a : G α) := by
  intro ⟨s, h⟩; cases h

/-- unfolding set for the monad plumbing of generated code -/
macro "gsimp" : tactic =>
  `(tactic| simp only [bind, Except.bind, pure, Except.pure, throw, throwThe, MonadExceptOf.throw,
      gdiv, gmod, gdivN, gmodN, gderef])

theorem wrapI64_ofNat (u : Nat) (h : u < two64) :
    wrapI64 (Int.ofNat u) = if u < two63 then Int.ofNat u else Int.ofNat u - (two64 : Int) := by
  unfold wrapI64
  simp only [Int.ofNat_eq_natCast]
  have h1 : (u : Int) % (two64 : Int) = (u : Int) :=
    Int.emod_eq_of_lt (Int.natCast_nonneg u) (by exact_mod_cast h)
  rw [h1]
  by_cases c : u < two63
  · have : (u : Int) < (two63 : Int) := by exact_mod_cast c
    simp [c, this]
  · have : ¬ (u : Int) < (two63 : Int) := by
      intro h'; apply c; exact_mod_cast h'
    simp [c, this]

/-! ### comparison helpers of the generated prelude -/

theorem cmpBytes_eq_zero (a b : Hex) : cmpBytes a b = 0 ↔ a = b := by
  unfold cmpBytes
  by_cases h1 : a < b
  · have : a ≠ b := fun h => by subst h; exact String.lt_irrefl _ h1
    simp [h1, this]
  · by_cases h2 : a = b <;> simp [h1, h2]

theorem cmpBytes_pos (a b : Hex) : cmpBytes a b > 0 ↔ b < a := by
  unfold cmpBytes
  by_cases h1 : a < b
  · have := String.lt_asymm h1
    simp [h1, this]
  · by_cases h2 : a = b
    · subst h2; simp
    · have : b < a := String.not_le.mp (fun h' => h2 (String.le_antisymm h' (String.not_lt.mp h1)))
      simp [h1, h2, this]

theorem cmpBytes_neg (a b : Hex) : cmpBytes a b < 0 ↔ a < b := by
  unfold cmpBytes
  by_cases h1 : a < b
  · simp [h1]
  · by_cases h2 : a = b <;> simp [h1, h2]

theorem sign256_neg (a : Nat) : sign256 a < 0 ↔ isNeg256 a = true := by
  unfold sign256 isNeg256
  by_cases h0 : a = 0
  · subst h0; simp [two255]
  · by_cases h1 : a ≥ two255 <;> simp [h0, h1]

theorem cmp256_pos (a b : Nat) : cmp256 a b > 0 ↔ a > b := by
  unfold cmp256
  by_cases h1 : a < b
  · simp [h1]; omega
  · by_cases h2 : a = b
    · subst h2; simp
    · simp [h1, h2]; omega

theorem cmp256_neg (a b : Nat) : cmp256 a b < 0 ↔ a < b := by
  unfold cmp256
  by_cases h1 : a < b
  · simp [h1]
  · by_cases h2 : a = b <;> simp [h1, h2]

theorem gidx_eq {α : Type} (xs : List α) (i : Nat) (x : α) (h : xs[i]? = some x) :
    gidx xs (i : Int) = .ok x := by
  unfold gidx
  have : ¬ ((i : Int) < 0) := by omega
  simp [this, h, pure, Except.pure]

/-- `Res` with the value mapped (for generated functions that return more components) -/
def Res.map {α β : Type} (f : α → β) : Res α → Res β
  | .ok a => .ok (f a)
  | .panic s => .panic s

/-- loop rule: a `for x in xs` loop whose body, started in state `s` with `x :: xs` remaining,
    behaves as one step of the recursive function `L`, computes `L`. -/
theorem forIn_eq_pure {α σ : Type} (f : α → σ → G (ForInStep σ)) (L : List α → σ → σ)
    (hnil : ∀ s, L [] s = s)
    (hstep : ∀ x xs s, (f x s >>= fun r => match r with
        | .yield s' => pure (L xs s') | .done s' => pure s') = pure (L (x :: xs) s))
    (xs : List α) (s : σ) : forIn xs s f = pure (L xs s) := by
  induction xs generalizing s with
  | nil => simp [hnil]
  | cons x xs ih =>
    rw [List.forIn_cons, ← hstep x xs s]
    congr 1; funext r; cases r <;> simp [ih]

/-- loop rule for loops that may panic or return early: the loop computes the recursive `L`
    with values in `G`. -/
theorem forIn_eq {α σ : Type} (f : α → σ → G (ForInStep σ)) (L : List α → σ → G σ)
    (hnil : ∀ s, L [] s = pure s)
    (hstep : ∀ x xs s, (f x s >>= fun r => match r with
        | .yield s' => L xs s' | .done s' => pure s') = L (x :: xs) s)
    (xs : List α) (s : σ) : forIn xs s f = L xs s := by
  induction xs generalizing s with
  | nil => simp [hnil]
  | cons x xs ih =>
    rw [List.forIn_cons, ← hstep x xs s]
    congr 1; funext r; cases r <;> simp [ih]

end Rigo.GenEq
