/-
  Round 4: the signer's decision logic (types/crypto/sfile_pv.go): `voteToStep`, `saveSigned`, `signVote`,
  `signProposal` against `Rigo.Signer.compute` / `step` (Rigo/Signer.lean).

  Oracles of the generated functions (explicit parameters): the canonical sign bytes of the request
  (`VoteSignBytes` / `ProposalSignBytes`, protobuf), the "only differ by timestamp" helper (protobuf) and
  the key's `Sign`.  `Save()` (atomic file write) is the "persist" call of funcs.json: the generated
  `SFilePV` has the ghost field `disk`, which receives the record at that moment.  What is tied:
  which height / round / step triple is checked and stored, the reuse of the stored signature only for
  equal sign bytes or sign bytes that differ in the timestamp only, "conflicting data" otherwise, and
  that after a fresh signature is handed out the durable record IS the new record (`disk = lss`).

  `Codec`: the byte encodings of sign bytes and signatures (injective on sign bytes, never empty) --
  the model keeps them structured, the Go code as byte strings.
-/
import RigoProofs.GenFuncsSigner

set_option linter.unusedSimpArgs false
set_option linter.unusedVariables false

namespace Rigo.GenEq
open Rigo Rigo.Gen Rigo.Signer

/-- byte encodings of the model's structured sign bytes / signatures -/
structure Codec where
  enc : SignBytes → Hex
  encSig : Sig → Hex
  enc_ne : ∀ x, enc x ≠ ""
  sig_ne : ∀ x, encSig x ≠ ""
  enc_inj : ∀ a b, enc a = enc b → a = b

/-- the Go record of a model record -/
def lssOf (C : Codec) (l : LSS) : LastSignState :=
  { height := l.height, round := l.round, step := l.step,
    signature := (l.signature.map C.encSig).getD "", signBytes := (l.signBytes.map C.enc).getD "" }

theorem absLSS_lssOf (C : Codec) (l : LSS) : AbsLSS (lssOf C l) l := by
  refine ⟨rfl, rfl, rfl, ?_, ?_⟩
  · cases h : l.signBytes <;> simp [lssOf, h, C.enc_ne]
  · cases h : l.signature <;> simp [lssOf, h, C.sig_ne]

/-- the Go signer (memory record + ghost durable copy) of a model state -/
def pvOf (C : Codec) (s : St) : SFilePV := { lss := lssOf C s.mem, disk := lssOf C s.disk }

/-- vote type of a protobuf type code (1 = prevote, 2 = precommit) -/
def tyOf (tc : Int) : VoteType := if tc = 1 then .prevote else if tc = 2 then .precommit else .unknown

/-- `voteToStep`: the step of the request's sign bytes; an unknown type panics -/
theorem voteToStep_eq (tc h r : Int) (c ts : Nat) (sg : Hex) :
    match (Req.vote h r (tyOf tc) c ts).signBytes? with
    | some sb => voteToStep ⟨tc, h, r, ts, sg⟩ = .ok sb.step
    | none => G.panics (voteToStep ⟨tc, h, r, ts, sg⟩) := by
  unfold voteToStep tyOf
  by_cases c1 : tc = 1
  · simp [c1, Req.signBytes?, pure, Except.pure]
  · by_cases c2 : tc = 2
    · simp [c1, c2, Req.signBytes?, pure, Except.pure]
    · simp [c1, c2, Req.signBytes?, throw, throwThe, MonadExceptOf.throw]

/-- `saveSigned`: the five fields are set and THEN persisted: memory and disk hold the new record -/
theorem SFilePV_saveSigned_eq (C : Codec) (s : St) (sb : SignBytes) :
    SFilePV_saveSigned (pvOf C s) sb.height sb.round sb.step (C.enc sb) (C.encSig (sign sb)) =
      .ok (pvOf C ⟨⟨sb.height, sb.round, sb.step, some sb, some (sign sb)⟩,
                   ⟨sb.height, sb.round, sb.step, some sb, some (sign sb)⟩⟩) := rfl

/-- the error text of the Go code -/
def signLabel : Err → String
  | .conflict => "conflicting data"
  | e => hrsLabel e

/-- the "only differ by timestamp" oracle as the model has it: the stored timestamp and the verdict -/
def tsOracle (l : LSS) (sb : SignBytes) : Nat × Bool :=
  match l.signBytes with
  | some last => (last.ts, onlyDifferByTimestamp last sb)
  | none => (0, false)

theorem checkHRS_reuse (l : LSS) (h r s : Int) (last : SignBytes) (sig : Sig)
    (hc : checkHRS l h r s = .reuse last sig) : l.signBytes = some last ∧ l.signature = some sig := by
  unfold checkHRS at hc
  repeat' split at hc
  all_goals first | cases hc | skip
  all_goals simp_all

theorem checkHRS_not_conflict (l : LSS) (h r s : Int) (e : Err) (hc : checkHRS l h r s = .err e) : e ≠ .conflict := by
  unfold checkHRS at hc
  repeat' split at hc
  all_goals first | (cases hc; done) | skip
  all_goals (injection hc with hc; subst hc; simp)

/-- the expected outcome of `signVote` / `signProposal` for an outcome of the model: the signer after the
    request, the signature / timestamp written into the message, the error -/
def signOutcome (C : Codec) (s : St) (rq : Req) : Option (SFilePV × Option Nat × Option Hex × Option String) :=
  match step s (.sign rq) with
  | (s', .reply (.fresh sig)) => some (pvOf C s', none, some (C.encSig sig), none)
  | (s', .reply (.same sig)) => some (pvOf C s', none, some (C.encSig sig), none)
  | (s', .reply (.tsSame sig ts)) => some (pvOf C s', some ts, some (C.encSig sig), none)
  | (s', .reply (.err e)) => some (pvOf C s', none, none, some (signLabel e))
  | _ => none

/-- `signVote` = the model's `step (.sign (.vote ..))`: same signer state (memory AND durable copy), same
    signature and timestamp handed out, same error; a panic of the model is a panic -/
theorem SFilePV_signVote_eq (C : Codec) (s : St) (chain : String) (tc h r : Int) (c ts : Nat) (sg : Hex) (anyB : Hex) :
    let rq := Req.vote h r (tyOf tc) c ts
    let vote : TmVote := ⟨tc, h, r, ts, sg⟩
    match rq.signBytes? with
    | none => G.panics (SFilePV_signVote (pvOf C s) chain vote anyB (0, false) (anyB, none))
    | some sb =>
      let out := SFilePV_signVote (pvOf C s) chain vote (C.enc sb) (tsOracle s.mem sb) (C.encSig (sign sb), none)
      match signOutcome C s rq with
      | some (pv', ts', sig', e) =>
        out = .ok (pv', { vote with timestamp := ts'.getD ts, signature := sig'.getD sg }, e)
      | none => G.panics out := by
  intro rq vote
  have hstep := voteToStep_eq tc h r c ts sg
  cases hsb : rq.signBytes? with
  | none =>
    simp only [rq, hsb] at hstep
    obtain ⟨e, he⟩ := hstep
    refine ⟨e, ?_⟩
    unfold SFilePV_signVote
    simp only [vote, he, bind, Except.bind]
  | some sb =>
    simp only [rq, hsb] at hstep
    have hh : sb.height = h ∧ sb.round = r ∧ sb.content = c ∧ sb.ts = ts := by
      have hsb' : (Req.vote h r (tyOf tc) c ts).signBytes? = some sb := hsb
      unfold tyOf at hsb'
      by_cases c1 : tc = 1
      · simp [c1, Req.signBytes?] at hsb'; subst hsb'; simp
      · by_cases c2 : tc = 2
        · simp [c1, c2, Req.signBytes?] at hsb'; subst hsb'; simp
        · simp [c1, c2, Req.signBytes?] at hsb'
    obtain ⟨e1, e2, e3, e4⟩ := hh
    have hchk := LastSignState_CheckHRS_eq (lssOf C s.mem) s.mem (absLSS_lssOf C s.mem) h r sb.step
    simp only []
    unfold SFilePV_signVote
    simp only [vote, hstep, bind, Except.bind, pure, Except.pure, pvOf]
    simp only [signOutcome, step, compute, rq, hsb, e1, e2]
    cases hc : checkHRS s.mem h r sb.step with
    | fresh =>
      rw [hc] at hchk
      simp only [hrsMatches] at hchk
      simp only [hchk]
      simp [SFilePV_saveSigned, lssOf, sign, pvOf, e1, e2, pure, Except.pure, bind, Except.bind]
    | err e =>
      rw [hc] at hchk
      simp only [hrsMatches] at hchk
      simp only [hchk]
      have hnc := checkHRS_not_conflict _ _ _ _ _ hc
      cases e <;> simp [signLabel, hrsLabel, pvOf] at hnc ⊢
    | panic =>
      rw [hc] at hchk
      simp only [hrsMatches] at hchk
      obtain ⟨e, he⟩ := hchk
      simp only [he]
      exact ⟨e, rfl⟩
    | reuse last sig =>
      rw [hc] at hchk
      simp only [hrsMatches] at hchk
      simp only [hchk]
      obtain ⟨hl, hs⟩ := checkHRS_reuse _ _ _ _ _ _ hc
      by_cases ceq : sb = last
      · subst ceq
        simp [lssOf, hl, hs, pvOf]
      · have hne : ¬ C.enc sb = C.enc last := fun e => ceq (C.enc_inj _ _ e)
        by_cases cts : onlyDifferByTimestamp last sb = true
        · simp [lssOf, hl, hs, pvOf, ceq, hne, tsOracle, cts]
        · simp [lssOf, hl, hs, pvOf, ceq, hne, tsOracle, cts, signLabel]

/-- `signProposal` = the model's `step (.sign (.proposal ..))` (step 1 = propose) -/
theorem SFilePV_signProposal_eq (C : Codec) (s : St) (chain : String) (h r : Int) (c ts : Nat) (sg : Hex) :
    let rq := Req.proposal h r c ts
    let prop : TmProposal := ⟨h, r, ts, sg⟩
    let sb : SignBytes := ⟨h, r, 1, c, ts⟩
    let out := SFilePV_signProposal (pvOf C s) chain prop (C.enc sb) (tsOracle s.mem sb) (C.encSig (sign sb), none)
    match signOutcome C s rq with
    | some (pv', ts', sig', e) =>
      out = .ok (pv', { prop with timestamp := ts'.getD ts, signature := sig'.getD sg }, e)
    | none => G.panics out := by
  intro rq prop sb
  have hchk := LastSignState_CheckHRS_eq (lssOf C s.mem) s.mem (absLSS_lssOf C s.mem) h r 1
  simp only []
  unfold SFilePV_signProposal
  simp only [prop, bind, Except.bind, pure, Except.pure, pvOf]
  simp only [signOutcome, step, compute, rq, Req.signBytes?]
  cases hc : checkHRS s.mem h r 1 with
  | fresh =>
    rw [hc] at hchk
    simp only [hrsMatches] at hchk
    simp only [hchk]
    simp [SFilePV_saveSigned, lssOf, sign, pvOf, sb, pure, Except.pure, bind, Except.bind]
  | err e =>
    rw [hc] at hchk
    simp only [hrsMatches] at hchk
    simp only [hchk]
    have hnc := checkHRS_not_conflict _ _ _ _ _ hc
    cases e <;> simp [signLabel, hrsLabel, pvOf] at hnc ⊢
  | panic =>
    rw [hc] at hchk
    simp only [hrsMatches] at hchk
    obtain ⟨e, he⟩ := hchk
    simp only [he]
    exact ⟨e, rfl⟩
  | reuse last sig =>
    rw [hc] at hchk
    simp only [hrsMatches] at hchk
    simp only [hchk]
    obtain ⟨hl, hs⟩ := checkHRS_reuse _ _ _ _ _ _ hc
    by_cases ceq : sb = last
    · have ceq' : (⟨h, r, 1, c, ts⟩ : SignBytes) = last := ceq
      subst ceq'
      simp [lssOf, hl, hs, pvOf, sb]
    · have ceq' : ¬ (⟨h, r, 1, c, ts⟩ : SignBytes) = last := ceq
      have hne : ¬ C.enc ⟨h, r, 1, c, ts⟩ = C.enc last := fun e => ceq (C.enc_inj _ _ e)
      by_cases cts : onlyDifferByTimestamp last ⟨h, r, 1, c, ts⟩ = true
      · simp [lssOf, hl, hs, pvOf, ceq', hne, tsOracle, cts, sb]
      · simp [lssOf, hl, hs, pvOf, ceq', hne, tsOracle, cts, signLabel, sb]

/-- what the tie says about persistence: whenever `signVote` hands out a FRESH signature, the durable
    copy equals the memory record, and that record carries exactly the request's height / round / step -/
theorem signVote_fresh_persisted (C : Codec) (s s' : St) (rq : Req) (sig : Sig)
    (h : step s (.sign rq) = (s', .reply (.fresh sig))) :
    (pvOf C s').disk = (pvOf C s').lss ∧
      ∃ sb, rq.signBytes? = some sb ∧ (pvOf C s').lss.height = sb.height ∧ (pvOf C s').lss.round = sb.round ∧
        (pvOf C s').lss.step = sb.step := by
  simp only [step, compute] at h
  cases hsb : rq.signBytes? with
  | none => simp [hsb] at h
  | some sb =>
    simp only [hsb] at h
    cases hc : checkHRS s.mem sb.height sb.round sb.step with
    | fresh =>
      simp only [hc] at h
      injection h with h1 h2
      subst h1
      exact ⟨rfl, sb, rfl, rfl, rfl, rfl⟩
    | err e => simp [hc] at h
    | panic => simp [hc] at h
    | reuse last sg =>
      simp only [hc] at h
      by_cases c1 : sb = last
      · simp [c1] at h
      · by_cases c2 : onlyDifferByTimestamp last sb = true <;> simp [c1, c2] at h

/-! ### a concrete `Codec` (the hypotheses of the structure are satisfiable) -/

def unary (n : Nat) (rest : List Char) : List Char := List.replicate n 'a' ++ 'b' :: rest

theorem unary_inj (n m : Nat) (xs ys : List Char) (h : unary n xs = unary m ys) : n = m ∧ xs = ys := by
  induction n generalizing m with
  | zero =>
    cases m with
    | zero => simpa [unary] using h
    | succ m => simp [unary, List.replicate_succ] at h
  | succ n ih =>
    cases m with
    | zero => simp [unary, List.replicate_succ] at h
    | succ m =>
      simp only [unary, List.replicate_succ, List.cons_append, List.cons.injEq, true_and] at h
      have := ih m h
      exact ⟨by omega, this.2⟩

def encChars (sb : SignBytes) : List Char :=
  unary sb.height.toNat (unary (-sb.height).toNat (unary sb.round.toNat (unary (-sb.round).toNat
    (unary sb.step.toNat (unary (-sb.step).toNat (unary sb.content (unary sb.ts [])))))))

theorem encChars_inj (a b : SignBytes) (h : encChars a = encChars b) : a = b := by
  unfold encChars at h
  obtain ⟨h1, h⟩ := unary_inj _ _ _ _ h
  obtain ⟨h2, h⟩ := unary_inj _ _ _ _ h
  obtain ⟨h3, h⟩ := unary_inj _ _ _ _ h
  obtain ⟨h4, h⟩ := unary_inj _ _ _ _ h
  obtain ⟨h5, h⟩ := unary_inj _ _ _ _ h
  obtain ⟨h6, h⟩ := unary_inj _ _ _ _ h
  obtain ⟨h7, h⟩ := unary_inj _ _ _ _ h
  obtain ⟨h8, h⟩ := unary_inj _ _ _ _ h
  cases a; cases b
  simp only [SignBytes.mk.injEq] at *
  refine ⟨by omega, by omega, by omega, h7, h8⟩

theorem unary_ne_nil (n : Nat) (xs : List Char) : unary n xs ≠ [] := by
  unfold unary; simp

/-- sign bytes / signatures as unary-coded strings: injective, never empty -/
def demoCodec : Codec where
  enc sb := String.ofList (encChars sb)
  encSig sg := String.ofList (encChars sg.signed)
  enc_ne x := by
    intro h
    have := congrArg String.toList h
    simp at this
    exact unary_ne_nil _ _ this
  sig_ne x := by
    intro h
    have := congrArg String.toList h
    simp at this
    exact unary_ne_nil _ _ this
  enc_inj a b h := by
    apply encChars_inj
    have := congrArg String.toList h
    simpa using this

/-- non-vacuity of the signer theorems: a concrete codec, a stored prevote, and the same vote again
    with another timestamp gets the stored signature and the stored timestamp -/
example : signOutcome demoCodec
    ⟨⟨5, 1, 2, some ⟨5, 1, 2, 7, 100⟩, some ⟨⟨5, 1, 2, 7, 100⟩⟩⟩, ⟨5, 1, 2, some ⟨5, 1, 2, 7, 100⟩, some ⟨⟨5, 1, 2, 7, 100⟩⟩⟩⟩
    (.vote 5 1 .prevote 7 130) =
    some (pvOf demoCodec ⟨⟨5, 1, 2, some ⟨5, 1, 2, 7, 100⟩, some ⟨⟨5, 1, 2, 7, 100⟩⟩⟩, ⟨5, 1, 2, some ⟨5, 1, 2, 7, 100⟩, some ⟨⟨5, 1, 2, 7, 100⟩⟩⟩⟩,
      some 100, some (demoCodec.encSig ⟨⟨5, 1, 2, 7, 100⟩⟩), none) := by
  simp [signOutcome, step, compute, Req.signBytes?, checkHRS, onlyDifferByTimestamp]


end Rigo.GenEq
