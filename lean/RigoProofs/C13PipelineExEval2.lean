/-
  C13 / pipeline (7d'): direct evaluation of the example run, continued: amounts issued at BeginBlock 6 and 7.
-/
import RigoProofs.C13PipelineExDefs
open Std
namespace Rigo.C13P.Ex
open Rigo Rigo.TM Rigo.C14L Rigo.C19 Rigo.C13 Rigo.C13P

/-- BeginBlock(7), all signed: 72 = (10 + 5 + 9) × 3 issued, C's cumulated reward grows by 5 × 3 -/
theorem eval7 : (beginBlock (exec S0 (b1 ++ b2 ++ b3 ++ b4 ++ b5 ++ b6)) (hdr 7 (newVotes true))).2.issued = some 72 ∧
    cumOf (beginBlock (exec S0 (b1 ++ b2 ++ b3 ++ b4 ++ b5 ++ b6)) (hdr 7 (newVotes true))).1 (ledgerKey addrC) =
      cumOf (exec S0 (b1 ++ b2 ++ b3 ++ b4 ++ b5 ++ b6)) (ledgerKey addrC) + 15 := by decide +kernel

/-- BeginBlock(6): B did not sign block 5, only A's stakes are paid: 45 = 15 × 3 -/
theorem eval6 : (beginBlock (exec S0 (b1 ++ b2 ++ b3 ++ b4 ++ b5)) (hdr 6 (newVotes false))).2.issued = some 45 := by decide +kernel

end Rigo.C13P.Ex
