/-
  C09 (run level), part 5: one CheckTx never raises the value held in the MEMPOOL view
  (`VC` = Σ balances + 10^18 · Σ bonded power + Σ withdrawable rewards, all over the `chk` views) and keeps
  the structure of that view (`ChkInv`).
-/
import RigoProofs.C09RunChkFr
open Std
set_option linter.unusedSimpArgs false
set_option linter.unusedVariables false

namespace Rigo.C09R
open Rigo Rigo.C02 Rigo.Delegatee

/-! ### value and structure of the mempool view -/

def rsum (m : KMap Reward) : Int := msum (fun r : Reward => (r.cumulated : Int)) m

/-- value held in the mempool view -/
def VC (s : St) : Int :=
  sumBal s.accts.chk + (amountPerPower : Int) * bonded s.delegs.chk + rsum s.rewards.chk

structure ChkInv (s : St) : Prop where
  acctKey : ∀ (k : String) (a : Account), s.accts.chk[k]? = some a → ledgerKey a.addr = k
  delegKey : ∀ (k : String) (d : Delegatee), s.delegs.chk[k]? = some d →
    ledgerKey d.addr = k ∧ d.total = sumPower d.stakes ∧ ∀ st ∈ d.stakes, PowerOK st.power
  rewKey : ∀ (k : String) (r : Reward), s.rewards.chk[k]? = some r → ledgerKey r.addr = k

/-- structure + bound -/
def CInv (B : Int) (s : St) : Prop := ChkInv s ∧ VC s ≤ B

theorem rsum_nonneg (m : KMap Reward) : 0 ≤ rsum m := msum_nonneg _ _ (fun _ _ _ => Int.natCast_nonneg _)

theorem bondedC_nonneg {s : St} (hi : ChkInv s) : 0 ≤ bonded s.delegs.chk :=
  msum_nonneg _ _ (fun k d h => sumPower_nonneg _ (hi.delegKey k d h).2.2)

theorem mulBonded_nonneg {s : St} (hi : ChkInv s) : 0 ≤ (amountPerPower : Int) * bonded s.delegs.chk :=
  Int.mul_nonneg (Int.le_of_lt app_pos) (bondedC_nonneg hi)

theorem sumBalC_le {s : St} (hi : ChkInv s) : sumBal s.accts.chk ≤ VC s := by
  unfold VC; have := mulBonded_nonneg hi; have := rsum_nonneg s.rewards.chk; omega

theorem balC_le {s : St} (hi : ChkInv s) {k : String} {a : Account} (h : s.accts.chk[k]? = some a) :
    (a.bal : Int) ≤ VC s := by
  have := bal_le_sumBal s.accts.chk h; have := sumBalC_le hi; omega

@[simp] theorem Led.set_chk_false {α : Type} (l : Led α) (k : String) (v : α) : (l.set false k v).chk = l.chk.insert k v := by
  simp [Led.set]
@[simp] theorem Led.del_chk_false {α : Type} (l : Led α) (k : String) : (l.del false k).chk = l.chk.erase k := by
  simp [Led.del]

theorem findAcct_false (s : St) (addr : Hex) : s.findAcct false addr = s.accts.chk[ledgerKey addr]? := by
  simp [St.findAcct, Led.get]

@[simp] theorem setAcct_false_chk (s : St) (a : Account) :
    (s.setAcct false a).accts.chk = s.accts.chk.insert (ledgerKey a.addr) a := by
  simp [St.setAcct, Led.set]

theorem VC_setAcct (s : St) (a : Account) :
    VC (s.setAcct false a) = VC s - fAt (fun a : Account => (a.bal : Int)) s.accts.chk (ledgerKey a.addr) + a.bal := by
  unfold VC sumBal
  rw [setAcct_false_chk, msum_insert]
  simp only [setAcct_delegs, setAcct_rewards]
  omega

theorem chkInv_setAcct {s : St} (hi : ChkInv s) (a : Account) : ChkInv (s.setAcct false a) := by
  refine ⟨?_, hi.delegKey, hi.rewKey⟩
  intro k b hb
  rw [setAcct_false_chk, kmap_get_insert] at hb
  split at hb
  · rename_i e; injection hb with hb; subst hb; exact e
  · exact hi.acctKey k b hb

/-- replace the account stored under `k` by one with the same address -/
theorem VC_update {s : St} (hi : ChkInv s) {k : String} {a a' : Account} (h : s.accts.chk[k]? = some a)
    (haddr : a'.addr = a.addr) : VC (s.setAcct false a') = VC s - a.bal + a'.bal := by
  rw [VC_setAcct, haddr, hi.acctKey k a h, fAt_some _ h]

theorem cinv_update {B : Int} {s : St} (hc : CInv B s) {k : String} {a a' : Account} (h : s.accts.chk[k]? = some a)
    (haddr : a'.addr = a.addr) (hle : a'.bal ≤ a.bal) : CInv B (s.setAcct false a') := by
  refine ⟨chkInv_setAcct hc.1 _, ?_⟩
  rw [VC_update hc.1 h haddr]
  have := hc.2
  omega

theorem findOrNew_cinv {B : Int} {s : St} (hc : CInv B s) (addr : Hex) : CInv B (s.findOrNewAcct false addr).1 := by
  unfold St.findOrNewAcct
  split
  · exact hc
  · rename_i hn
    rw [findAcct_false] at hn
    refine ⟨chkInv_setAcct hc.1 _, ?_⟩
    rw [VC_setAcct]
    simp only []
    rw [fAt_none _ hn]
    have := hc.2
    simp; omega

/-! ### transfer, set-doc, governance -/

theorem execTransfer_cinv {B : Int} (hB : B < (two255 : Int)) {s : St} {tx : TxIn} {r : RunOut}
    (h : execTransfer s false tx = .ok r) (hc : CInv B s) : CInv B r.st := by
  obtain ⟨hi, hb⟩ := hc
  simp only [execTransfer, pure, Except.pure, throw, throwThe, MonadExceptOf.throw] at h
  split at h
  case h_2 => cases h
  rename_i sender hs
  rw [findAcct_false] at hs
  have hsb := balC_le hi hs
  have h255 := two255_lt
  split at h
  · split at h; · cases h
    rename_i a1 h1
    split at h; · cases h
    rename_i a2 h2
    injection h with h; subst h
    obtain ⟨e1, hle⟩ := subBalance_exact h1 (by omega)
    have e2 := addBalance_exact h2 (by subst e1; simp; omega)
    subst e1; subst e2
    refine cinv_update ⟨hi, hb⟩ hs rfl ?_
    simp; omega
  · rename_i hne
    split at h
    case h_2 => cases h
    rename_i receiver hr
    rw [findAcct_false] at hr
    split at h; · cases h
    rename_i a1 h1
    split at h; · cases h
    rename_i r1 h2
    injection h with h; subst h
    have hne' : ledgerKey tx.from_ ≠ ledgerKey tx.to := by simpa using hne
    have h2b := two_bal_le_sumBal s.accts.chk hne' hs hr
    have h3 := sumBalC_le hi
    obtain ⟨e1, hle⟩ := subBalance_exact h1 (by omega)
    have e2 := addBalance_exact h2 (by omega)
    subst e1; subst e2
    have hi1 := chkInv_setAcct hi { sender with bal := sender.bal - tx.amount }
    have hr' : (s.setAcct false { sender with bal := sender.bal - tx.amount }).accts.chk[ledgerKey tx.to]? = some receiver := by
      rw [setAcct_false_chk, ExtTreeMap.getElem?_insert]
      have : ledgerKey sender.addr = ledgerKey tx.from_ := hi.acctKey _ _ hs
      simp [this, hne', hr]
    refine ⟨chkInv_setAcct hi1 _, ?_⟩
    rw [VC_update hi1 hr' (a' := { receiver with bal := receiver.bal + tx.amount }) rfl,
      VC_update hi hs (a' := { sender with bal := sender.bal - tx.amount }) rfl]
    simp; omega

theorem execSetDoc_cinv {B : Int} {s : St} {tx : TxIn} {r : RunOut}
    (h : execSetDoc s false tx = .ok r) (hc : CInv B s) : CInv B r.st := by
  simp only [execSetDoc, pure, Except.pure, throw, throwThe, MonadExceptOf.throw] at h
  split at h
  case h_2 => cases h
  rename_i sender hs
  rw [findAcct_false] at hs
  split at h
  case h_2 => cases h
  injection h with h; subst h
  exact cinv_update hc hs rfl (Nat.le_refl _)

theorem cinv_congr {B : Int} {s s' : St} (hc : CInv B s) (h : cs s' = cs s) : CInv B s' := by
  unfold cs at h
  simp only [Prod.mk.injEq] at h
  obtain ⟨h1, h2, h3⟩ := h
  obtain ⟨hi, hb⟩ := hc
  refine ⟨⟨by rw [h1]; exact hi.acctKey, by rw [h3]; exact hi.delegKey, by rw [h2]; exact hi.rewKey⟩, ?_⟩
  unfold VC at hb ⊢; rw [h1, h2, h3]; exact hb

theorem execProposal_cinv {B : Int} {s : St} {tx : TxIn} {r : RunOut}
    (h : execProposal s false tx = .ok r) (hc : CInv B s) : CInv B r.st := by
  unfold execProposal at h
  simp only [bind, Except.bind, pure, Except.pure, throw, throwThe, MonadExceptOf.throw] at h
  repeat' split at h
  all_goals first | cases h | skip
  all_goals exact cinv_congr hc rfl

theorem execVoting_cinv {B : Int} {s : St} {tx : TxIn} {r : RunOut}
    (h : execVoting s false tx = .ok r) (hc : CInv B s) : CInv B r.st := by
  unfold execVoting at h
  simp only [bind, Except.bind, pure, Except.pure, throw, throwThe, MonadExceptOf.throw] at h
  repeat' split at h
  all_goals first | cases h | skip
  all_goals exact cinv_congr hc rfl

theorem execEvm_false_st {s : St} {tx : TxIn} {r : RunOut} (h : execEvm s false tx = .ok r) : r.st = s ∧ r.fail = none := by
  rw [Rigo.execEvm_false] at h
  injection h with h; subst h; exact ⟨rfl, rfl⟩

/-! ### reward withdrawal -/

theorem wsub_exact {a b : Nat} (hb : b ≤ a) (ha : a < two256) : wsub a b = a - b := by
  unfold wsub
  rw [Nat.mod_eq_of_lt (by omega : b < two256)]
  have : a + two256 - b = (a - b) + two256 := by omega
  rw [this, Nat.add_mod_right, Nat.mod_eq_of_lt (by omega)]

theorem withdraw_spec {w w' : Reward} {r : Nat} {h : Int} (hw : w.withdraw r h = .ok w') :
    w'.addr = w.addr ∧ w'.cumulated = wsub w.cumulated r := by
  unfold Reward.withdraw at hw
  split at hw
  · cases hw; exact ⟨rfl, rfl⟩
  · split at hw
    · cases hw; exact ⟨rfl, rfl⟩
    · cases hw

theorem rewC_le {s : St} (hi : ChkInv s) {k : String} {r : Reward} (h : s.rewards.chk[k]? = some r) :
    (r.cumulated : Int) ≤ VC s := by
  have h1 := fAt_le_msum (fun r : Reward => (r.cumulated : Int)) s.rewards.chk (fun _ _ _ => Int.natCast_nonneg _) k
  rw [fAt_some _ h] at h1
  have h2 : (r.cumulated : Int) ≤ rsum s.rewards.chk := h1
  have := mulBonded_nonneg hi
  have := sumBal_nonneg s.accts.chk
  unfold VC; omega

theorem execWithdraw_cinv {B : Int} (hB : B < (two255 : Int)) {s : St} {tx : TxIn} {r : RunOut} {height : Int}
    (h : execWithdraw s false height tx = .ok r) (hreq : ∀ req w, tx.payload = .withdraw req →
      s.rewards.chk[ledgerKey tx.from_]? = some w → req ≤ w.cumulated) (hc : CInv B s) : CInv B r.st := by
  obtain ⟨hi, hb⟩ := hc
  simp only [execWithdraw, pure, Except.pure, throw, throwThe, MonadExceptOf.throw, bind, Except.bind] at h
  split at h
  case h_2 => cases h
  rename_i req hpay
  split at h
  · cases h
  rename_i w hw
  split at h
  · cases h
  rename_i w' hw'
  split at h
  case h_2 => cases h
  rename_i s2 hs2
  injection h with h; subst h
  have hw0 : s.rewards.chk[ledgerKey tx.from_]? = some w := by simpa [Led.get] using hw
  have hle := hreq req w hpay hw0
  obtain ⟨wa, wc⟩ := withdraw_spec (ofRes_ok hw')
  have h255 := two255_lt
  have hwb := rewC_le hi hw0
  rw [wsub_exact hle (by omega)] at wc
  unfold St.reward at hs2
  split at hs2; · cases hs2
  rename_i a ha
  split at hs2; · cases hs2
  rename_i a' ha'
  injection hs2 with hs2; subst hs2
  rw [findAcct_false] at ha
  have ha0 : s.accts.chk[ledgerKey tx.from_]? = some a := ha
  have hab := balC_le hi ha0
  have hreq' := addBalance_lt ha'
  have e := addBalance_exact ha' (by rw [two256_eq]; omega)
  subst e
  have hkey : ledgerKey w'.addr = ledgerKey tx.from_ := by rw [wa]; exact hi.rewKey _ _ hw0
  -- the state with the reward record replaced
  have hi1 : ChkInv { s with rewards := s.rewards.set false (ledgerKey w'.addr) w' } := by
    refine ⟨hi.acctKey, hi.delegKey, ?_⟩
    intro k r hk
    simp only [Led.set_chk_false] at hk
    rw [kmap_get_insert] at hk
    split at hk
    · rename_i e; injection hk with hk; subst hk; exact e
    · exact hi.rewKey k r hk
  have hv1 : VC { s with rewards := s.rewards.set false (ledgerKey w'.addr) w' } = VC s - req := by
    unfold VC rsum
    simp only [Led.set_chk_false]
    rw [msum_insert, hkey, fAt_some _ hw0, wc]
    push_cast [hle]
    omega
  have hgoal : CInv B (St.setAcct { s with rewards := s.rewards.set false (ledgerKey w'.addr) w' } false
      { a with bal := a.bal + req }) := by
    refine ⟨chkInv_setAcct hi1 _, ?_⟩
    rw [VC_update hi1 (k := ledgerKey tx.from_) (a := a) (a' := { a with bal := a.bal + req }) ha0 rfl, hv1]
    push_cast; omega
  simpa using hgoal

/-! ### staking and unstaking -/

theorem VC_setDeleg (s : St) (fr : Led Stake) (k : String) (d' : Delegatee) :
    VC { s with delegs := s.delegs.set false k d', frozen := fr } =
      VC s - (amountPerPower : Int) * fAt (fun d : Delegatee => sumPower d.stakes) s.delegs.chk k +
        (amountPerPower : Int) * sumPower d'.stakes := by
  unfold VC bonded
  simp only [Led.set_chk_false]
  rw [msum_insert, Int.mul_add, Int.mul_sub]
  omega

theorem VC_delDeleg (s : St) (fr : Led Stake) (k : String) :
    VC { s with delegs := s.delegs.del false k, frozen := fr } =
      VC s - (amountPerPower : Int) * fAt (fun d : Delegatee => sumPower d.stakes) s.delegs.chk k := by
  unfold VC bonded
  simp only [Led.del_chk_false]
  rw [msum_erase, Int.mul_sub]
  omega

theorem chkInv_setDeleg {s : St} (hi : ChkInv s) (fr : Led Stake) {k : String} {d' : Delegatee}
    (hk : ledgerKey d'.addr = k) (ht : d'.total = sumPower d'.stakes) (hp : ∀ st ∈ d'.stakes, PowerOK st.power) :
    ChkInv { s with delegs := s.delegs.set false k d', frozen := fr } := by
  refine ⟨hi.acctKey, ?_, hi.rewKey⟩
  intro k' d hd
  simp only [Led.set_chk_false] at hd
  rw [kmap_get_insert] at hd
  split at hd
  · rename_i e; injection hd with hd; subst hd; exact ⟨hk.trans e, ht, hp⟩
  · exact hi.delegKey k' d hd

theorem chkInv_delDeleg {s : St} (hi : ChkInv s) (fr : Led Stake) (k : String) :
    ChkInv { s with delegs := s.delegs.del false k, frozen := fr } := by
  refine ⟨hi.acctKey, ?_, hi.rewKey⟩
  intro k' d hd
  simp only [Led.del_chk_false] at hd
  rw [kmap_get_erase] at hd
  split at hd
  · cases hd
  · exact hi.delegKey k' d hd

theorem power_le_amount {amt : Nat} {v : Int} (hv : amountToPower amt = .ok v) :
    PowerOK v ∧ (amountPerPower : Int) * v ≤ amt := by
  obtain ⟨hp, e⟩ := amountToPower_ok hv
  refine ⟨hp, ?_⟩
  rw [e]
  have h1 : amt / amountPerPower % two64 ≤ amt / amountPerPower := Nat.mod_le _ _
  have h2 : amountPerPower * (amt / amountPerPower) ≤ amt := Nat.mul_div_le _ _
  have h3 : amountPerPower * (amt / amountPerPower % two64) ≤ amt :=
    Nat.le_trans (Nat.mul_le_mul_left _ h1) h2
  exact_mod_cast h3

theorem execStaking_cinv {B : Int} (hB : B < (two255 : Int)) {s : St} {tx : TxIn} {r : RunOut} {height : Int}
    (h : execStaking s false height tx = .ok r) (hc : CInv B s) : CInv B r.st := by
  obtain ⟨hi, hb⟩ := hc
  have key : ∀ (d : Delegatee) (sender a1 : Account) (v : Int),
      (s.delegs.chk[ledgerKey tx.to]? = some d ∨
        (s.delegs.chk[ledgerKey tx.to]? = none ∧ ledgerKey d.addr = ledgerKey tx.to ∧ d.total = 0 ∧ d.stakes = [])) →
      s.findAcct false tx.from_ = some sender → subBalance sender tx.amount = some a1 →
      amountToPower tx.amount = .ok v →
      CInv B { s.setAcct false a1 with
        delegs := s.delegs.set false (ledgerKey d.addr)
          (d.addStake { owner := tx.from_, to := tx.to, hash := tx.hash, power := v, start := height + 1 }) } := by
    intro d sender a1 v hd hs h1 hv
    rw [findAcct_false] at hs
    have hsb := balC_le hi hs
    have h255 := two255_lt
    obtain ⟨e1, hle⟩ := subBalance_exact h1 (by omega)
    subst e1
    obtain ⟨hpow, hmul⟩ := power_le_amount hv
    have hkey : ledgerKey d.addr = ledgerKey tx.to := by
      rcases hd with hd | ⟨_, he, _⟩
      · exact (hi.delegKey _ _ hd).1
      · exact he
    have hdtot : d.total = sumPower d.stakes ∧ ∀ st ∈ d.stakes, PowerOK st.power := by
      rcases hd with hd | ⟨_, _, h0, hs0⟩
      · exact (hi.delegKey _ _ hd).2
      · rw [h0, hs0]; simp [sumPower]
    have hfat : fAt (fun d : Delegatee => sumPower d.stakes) s.delegs.chk (ledgerKey tx.to) = sumPower d.stakes := by
      rcases hd with hd | ⟨hn, _, _, hs0⟩
      · exact fAt_some _ hd
      · rw [fAt_none _ hn, hs0]; simp [sumPower]
    have hi1 := chkInv_setAcct hi { sender with bal := sender.bal - tx.amount }
    have hv1 := VC_update hi hs (a' := { sender with bal := sender.bal - tx.amount }) rfl
    refine ⟨?_, ?_⟩
    · refine chkInv_setDeleg hi1 _ rfl ?_ ?_
      · simp [addStake, sumPower_append, sumPower_cons, sumPower_nil, hdtot.1]
      · intro st hst
        simp only [addStake, List.mem_append, List.mem_singleton] at hst
        rcases hst with hst | hst
        · exact hdtot.2 st hst
        · subst hst; exact hpow
    · have := VC_setDeleg (s.setAcct false { sender with bal := sender.bal - tx.amount })
        (s.setAcct false { sender with bal := sender.bal - tx.amount }).frozen (ledgerKey d.addr)
        (d.addStake { owner := tx.from_, to := tx.to, hash := tx.hash, power := v, start := height + 1 })
      simp only [setAcct_delegs, setAcct_frozen] at this
      refine Int.le_trans (Int.le_of_eq this) ?_
      rw [hv1, hkey, hfat]
      simp only [addStake, sumPower_append, sumPower_cons, sumPower_nil]
      rw [Int.mul_add, Int.mul_add]
      push_cast [hle]
      omega
  simp only [execStaking, bind, Except.bind, pure, Except.pure, throw, throwThe, MonadExceptOf.throw] at h
  split at h
  · rename_i d hd
    split at h
    case h_2 => cases h
    rename_i sender hs
    split at h; · cases h
    rename_i a1 h1
    split at h; · cases h
    rename_i v hv
    injection h with h; subst h
    exact key d sender a1 v (Or.inl (by simpa [Led.get] using hd)) hs h1 (ofRes_ok hv)
  · rename_i hd
    split at h
    · rename_i heq
      split at h
      case h_2 => cases h
      rename_i sender hs
      split at h; · cases h
      rename_i a1 h1
      split at h; · cases h
      rename_i v hv
      injection h with h; subst h
      have he : tx.from_ = tx.to := by simpa using heq
      refine key { addr := tx.from_, pub := if false = true then tx.pub else "" } sender a1 v
        (Or.inr ⟨by simpa [Led.get] using hd, ?_, ?_, ?_⟩) hs h1 (ofRes_ok hv)
      · simp [he]
      · rfl
      · rfl
    · cases h

theorem unstakeRest_facts {d : Delegatee} {hash : Hex} {st : Stake} (hst : d.findStake hash = some st)
    (dtot : d.total = sumPower d.stakes) (dpow : ∀ x ∈ d.stakes, PowerOK x.power) :
    (unstakeRest d hash).addr = d.addr ∧ (unstakeRest d hash).total = sumPower (unstakeRest d hash).stakes ∧
      (∀ x ∈ (unstakeRest d hash).stakes, x ∈ d.stakes) ∧
      sumPower (unstakeRest d hash).stakes ≤ sumPower d.stakes := by
  have hdel := delStake_of_find hst
  have hfind : d.stakes.find? (·.hash == hash) = some st := hst
  have hsum1 : sumPower (d.delStake hash).stakes = sumPower d.stakes - st.power := by
    rw [hdel]; exact sumPower_eraseP _ _ _ hfind
  have hmem1 : ∀ x ∈ (d.delStake hash).stakes, x ∈ d.stakes := by
    rw [hdel]; intro x hx; exact List.mem_of_mem_eraseP hx
  have hstmem : st ∈ d.stakes := List.mem_of_find?_eq_some hfind
  have hstp := (dpow st hstmem).1
  have hnn : 0 ≤ sumPower (d.delStake hash).stakes := sumPower_nonneg _ (fun x hx => dpow x (hmem1 x hx))
  unfold unstakeRest
  by_cases h0 : (d.delStake hash).self = 0
  · simp only [h0, if_true, delAllStakes]
    refine ⟨by rw [hdel], ?_, by simp, ?_⟩
    · show (d.delStake hash).total - sumPower (d.delStake hash).stakes = sumPower []
      rw [hsum1]; rw [hdel]; simp [sumPower_nil]; omega
    · rw [sumPower_nil]; omega
  · simp only [h0, if_false]
    refine ⟨by rw [hdel], ?_, hmem1, ?_⟩
    · rw [hsum1]; rw [hdel]; simp; omega
    · omega

theorem execUnstaking_cinv {B : Int} {s : St} {tx : TxIn} {r : RunOut} {height : Int}
    (h : execUnstaking s false height tx = .ok r) (hc : CInv B s) : CInv B r.st := by
  obtain ⟨hi, hb⟩ := hc
  have key : ∀ (d : Delegatee) (hash : Hex) (st : Stake) (fr : Led Stake),
      s.delegs.chk[ledgerKey tx.to]? = some d → d.findStake hash = some st →
      CInv B { s with
        delegs := if (unstakeRest d hash).total = 0 then s.delegs.del false (ledgerKey (unstakeRest d hash).addr)
                  else s.delegs.set false (ledgerKey (unstakeRest d hash).addr) (unstakeRest d hash),
        frozen := fr } := by
    intro d hash st fr hd hst
    obtain ⟨dk, dtot, dpow⟩ := hi.delegKey _ _ hd
    obtain ⟨ra, rtot, rmem, rle⟩ := unstakeRest_facts hst dtot dpow
    have rkey : ledgerKey (unstakeRest d hash).addr = ledgerKey tx.to := by rw [ra]; exact dk
    have hfat := fAt_some (fun d : Delegatee => sumPower d.stakes) hd
    have hnn : 0 ≤ sumPower d.stakes := sumPower_nonneg _ dpow
    have hnn2 : 0 ≤ sumPower (unstakeRest d hash).stakes := sumPower_nonneg _ (fun x hx => dpow x (rmem x hx))
    rw [rkey]
    split
    · refine ⟨chkInv_delDeleg hi fr _, ?_⟩
      rw [VC_delDeleg, hfat]
      have : 0 ≤ (amountPerPower : Int) * sumPower d.stakes := Int.mul_nonneg (Int.le_of_lt app_pos) hnn
      omega
    · refine ⟨chkInv_setDeleg hi fr rkey rtot (fun x hx => dpow x (rmem x hx)), ?_⟩
      rw [VC_setDeleg, hfat]
      have : (amountPerPower : Int) * sumPower (unstakeRest d hash).stakes ≤ (amountPerPower : Int) * sumPower d.stakes :=
        Int.mul_le_mul_of_nonneg_left rle (Int.le_of_lt app_pos)
      omega
  simp only [execUnstaking, bind, Except.bind, pure, Except.pure, throw, throwThe, MonadExceptOf.throw] at h
  split at h; · cases h
  rename_i d hd
  split at h
  case h_2 => cases h
  rename_i hash hp
  split at h; · cases h
  split at h; · cases h
  rename_i st hst
  split at h; · cases h
  injection h with h; subst h
  have hd0 : s.delegs.chk[ledgerKey tx.to]? = some d := by simpa [Led.get] using hd
  have := key d hash st
  unfold unstakeRest at this
  by_cases h0 : (d.delStake hash).self = 0
  · simp only [h0, if_true] at this ⊢
    exact this _ hd0 hst
  · simp only [h0, if_false] at this ⊢
    exact this _ hd0 hst

/-! ### the fee debit, `runTrx`, `handleTx` -/

theorem feeDebit_cinv {B : Int} (hB : B < (two255 : Int)) {s : St} {from_ : Hex} {fee : Nat} {sender a1 : Account}
    (hs : s.findAcct false from_ = some sender) (h1 : subBalance sender fee = some a1) (hc : CInv B s) :
    CInv B (s.setAcct false { a1 with nonce := a1.nonce + 1 }) := by
  rw [findAcct_false] at hs
  have hsb := balC_le hc.1 hs
  have h255 := two255_lt
  have := hc.2
  obtain ⟨e1, hle⟩ := subBalance_exact h1 (by omega)
  subst e1
  refine cinv_update hc hs rfl ?_
  simp

theorem validateWithdraw_req {s s1 : St} {e : Bool} {tx : TxIn} (h : validateWithdraw s e tx = .ok s1) :
    ∀ (req : Nat) (w : Reward), tx.payload = .withdraw req → s.rewards.get e (ledgerKey tx.from_) = some w →
      req ≤ w.cumulated := by
  intro req w hp hw
  unfold validateWithdraw at h
  simp only [bind, Except.bind, pure, Except.pure, throw, throwThe, MonadExceptOf.throw] at h
  rw [hp] at h
  simp only [] at h
  rw [hw] at h
  simp only [] at h
  repeat' split at h
  all_goals first | cases h | skip
  omega

theorem typeValidate_req {s s1 : St} {e : Bool} {ht : Int} {tx : TxIn} {rc : Account}
    (h : typeValidate s e ht tx rc = .ok s1) (hty : tx.type = TRX_WITHDRAW) :
    ∀ (req : Nat) (w : Reward), tx.payload = .withdraw req → s.rewards.get e (ledgerKey tx.from_) = some w →
      req ≤ w.cumulated := by
  unfold typeValidate at h
  simp [hty, (show ¬ TRX_WITHDRAW = TRX_PROPOSAL by decide), (show ¬ TRX_WITHDRAW = TRX_VOTING by decide),
    (show ¬ TRX_WITHDRAW = TRX_TRANSFER by decide), (show ¬ TRX_WITHDRAW = TRX_SETDOC by decide),
    (show ¬ TRX_WITHDRAW = TRX_STAKING by decide), (show ¬ TRX_WITHDRAW = TRX_UNSTAKING by decide)] at h
  exact validateWithdraw_req h

theorem execBody_cinv {B : Int} (hB : B < (two255 : Int)) {s : St} {ht : Int} {tx : TxIn} {rc : Account} {r : RunOut}
    (h : execBody s false ht tx rc = .ok r)
    (hreq : tx.type = TRX_WITHDRAW → ∀ (req : Nat) (w : Reward), tx.payload = .withdraw req →
      s.rewards.chk[ledgerKey tx.from_]? = some w → req ≤ w.cumulated)
    (hc : CInv B s) : CInv B r.st := by
  unfold execBody at h
  split at h
  · rw [(execEvm_false_st h).1]; exact hc
  split at h
  · exact execProposal_cinv h hc
  split at h
  · exact execVoting_cinv h hc
  split at h
  · split at h
    · rw [(execEvm_false_st h).1]; exact hc
    · exact execTransfer_cinv hB h hc
  split at h
  · exact execSetDoc_cinv h hc
  split at h
  · exact execStaking_cinv hB h hc
  split at h
  · exact execUnstaking_cinv h hc
  split at h
  · rename_i hty; exact execWithdraw_cinv hB h (hreq hty) hc
  · cases h

theorem runTrx_cinv {B : Int} (hB : B < (two255 : Int)) {s : St} {ht : Int} {tx : TxIn} {rc : Account}
    {s2 : St} {g : Nat} {k : Option String} (h : runTrx s false ht tx rc = .ok (s2, g, k))
    (hreq : tx.type = TRX_WITHDRAW → ∀ (req : Nat) (w : Reward), tx.payload = .withdraw req →
      s.rewards.chk[ledgerKey tx.from_]? = some w → req ≤ w.cumulated)
    (hc : CInv B s) : CInv B s2 := by
  rw [runTrx_eq] at h
  simp only [bind, Except.bind] at h
  split at h
  · cases h
  · rename_i r hr
    have hb := execBody_cinv hB hr hreq hc
    rcases runTail_cases h with ⟨_, _, h1⟩ | ⟨_, h1⟩ | ⟨_, _, _, _, sender, a1, hs, ha, h1⟩
    · rw [h1]; exact hb
    · rw [h1]; exact hb
    · rw [h1]; exact feeDebit_cinv hB hs ha hb

/-- **one CheckTx keeps the mempool-view invariant and its bound** -/
theorem handleTx_cinv {B : Int} (hB : B < (two255 : Int)) (s : St) (ht : Int) (tx : TxIn) (hc : CInv B s) :
    CInv B (handleTx s false ht tx).1 := by
  by_cases hlen : byteLen tx.to = 20
  case neg => rw [handleTx_badlen_fst hlen]; exact hc
  rw [handleTx_goodlen hlen]
  unfold handleTxOld
  simp only []
  split
  · exact hc
  split
  · exact hc
  · have h0 := findOrNew_cinv hc tx.to
    split
    · exact h0
    · exact h0
    · rename_i s1 hv
      obtain ⟨_, _, htv⟩ := validateTrx_ok hv
      obtain ⟨l, hl⟩ := validateTrx_limiter hv
      have h1 : CInv B s1 := by rw [hl]; exact cinv_congr h0 rfl
      have hreq : tx.type = TRX_WITHDRAW → ∀ (req : Nat) (w : Reward), tx.payload = .withdraw req →
          s1.rewards.chk[ledgerKey tx.from_]? = some w → req ≤ w.cumulated := by
        intro hty req w hp hw
        refine typeValidate_req htv hty req w hp ?_
        rw [hl] at hw
        simpa [Led.get] using hw
      split
      · exact h1
      · exact h1
      · rename_i hr; exact runTrx_cinv hB hr hreq h1
      · rename_i hr; exact runTrx_cinv hB hr hreq h1

theorem checkTx_cinv {B : Int} (hB : B < (two255 : Int)) (s : St) (tx : TxIn) (hc : CInv B s) :
    CInv B (checkTx s tx).1 := handleTx_cinv hB s _ tx hc

end Rigo.C09R
