/-
  C15: successful TRX_PROPOSAL / TRX_VOTING transactions — who may submit, what is recorded, who may
  vote and when.
-/
import RigoProofs.C15Vote
import RigoProofs.C13C15TxFrame
import RigoProofs.WrapI64

namespace Rigo.C15
open Rigo

/-- a transaction answered with code 0 passed validation and ran to completion -/
theorem handleTx_success {s : St} {e : Bool} {h : Int} {tx : TxIn} (hc : (handleTx s e h tx).2.code = 0) :
    tx.decodable = true ∧ ∃ sender s1 s2 g,
      s.findAcct e tx.from_ = some sender ∧
      validateTrx (s.findOrNewAcct e tx.to).1 e h tx sender (s.findOrNewAcct e tx.to).2 = .ok s1 ∧
      runTrx s1 e h tx (s.findOrNewAcct e tx.to).2 = .ok (s2, g, none) ∧ (handleTx s e h tx).1 = s2 := by
  have hfc : (if e = true then 5 else 3 : Nat) ≠ 0 := by split <;> omega
  have hl := handleTx_ok_len hc
  rw [handleTx_goodlen hl] at hc ⊢
  unfold handleTxOld at hc ⊢
  simp only [] at hc ⊢
  have hdec : tx.decodable = true := by
    by_cases hd : tx.decodable = true
    · exact hd
    · simp [hd] at hc; exact absurd hc hfc
  refine ⟨hdec, ?_⟩
  simp only [hdec, Bool.not_true, Bool.false_eq_true, if_false] at hc ⊢
  cases hfind : s.findAcct e tx.from_ with
  | none => rw [hfind] at hc; simp at hc; exact absurd hc hfc
  | some sender =>
    rw [hfind] at hc
    simp only [] at hc ⊢
    cases hval : validateTrx (s.findOrNewAcct e tx.to).1 e h tx sender (s.findOrNewAcct e tx.to).2 with
    | error er => rw [hval] at hc; cases er <;> (simp at hc; exact absurd hc hfc)
    | ok s1 =>
      rw [hval] at hc
      simp only [] at hc ⊢
      cases hrun : runTrx s1 e h tx (s.findOrNewAcct e tx.to).2 with
      | error er => rw [hrun] at hc; cases er <;> (simp at hc; exact absurd hc hfc)
      | ok res =>
        obtain ⟨s2, g, k⟩ := res
        rw [hrun] at hc
        cases k with
        | some kk => simp at hc; exact absurd hc hfc
        | none => exact ⟨sender, s1, s2, g, rfl, hval, hrun, rfl⟩

theorem validateTrx_proposal (s : St) (e : Bool) (ht : Int) (tx : TxIn) (snd rcv : Account) (htype : tx.type = TRX_PROPOSAL) :
    validateTrx s e ht tx snd rcv =
      (commonValidation0 s e tx >>= fun _ => commonValidation1 snd tx >>= fun _ => validateProposal s e ht tx) := by
  unfold validateTrx
  simp [htype]

theorem validateTrx_voting (s : St) (e : Bool) (ht : Int) (tx : TxIn) (snd rcv : Account) (htype : tx.type = TRX_VOTING) :
    validateTrx s e ht tx snd rcv =
      (commonValidation0 s e tx >>= fun _ => commonValidation1 snd tx >>= fun _ => validateVoting s e ht tx) := by
  unfold validateTrx
  simp [htype, TRX_VOTING, TRX_PROPOSAL]

theorem execBody_proposal (s : St) (e : Bool) (ht : Int) (tx : TxIn) (rcv : Account) (htype : tx.type = TRX_PROPOSAL) :
    execBody s e ht tx rcv = execProposal s e tx := by
  unfold execBody
  simp [htype, TRX_PROPOSAL, TRX_CONTRACT]

theorem execBody_voting (s : St) (e : Bool) (ht : Int) (tx : TxIn) (rcv : Account) (htype : tx.type = TRX_VOTING) :
    execBody s e ht tx rcv = execVoting s e tx := by
  unfold execBody
  simp [htype, TRX_PROPOSAL, TRX_CONTRACT, TRX_VOTING]

/-- extraction of the inner validation result from the bind chain -/
theorem bind_chain_ok {s1 : St} {a b : Step Unit} {c : Step St}
    (h : (a >>= fun _ => b >>= fun _ => c) = .ok s1) : a = .ok () ∧ b = .ok () ∧ c = .ok s1 := by
  simp only [bind, Except.bind] at h
  cases a with
  | error er => cases h
  | ok u =>
    simp only [] at h
    cases b with
    | error er => cases h
    | ok u' => simp only [] at h; exact ⟨rfl, rfl, h⟩

/-- the proposal recorded by `execProposal`: voters = the current validators with their total powers -/
def snapshotProposal (s : St) (tx : TxIn) (start period applying optType : Int) (opts : List VoteOpt) : Proposal :=
  { hash := tx.hash, start := start, end_ := start + period, applying := applying,
    total := (s.lastVals.map (·.total)).sum,
    majority := Int.tdiv ((s.lastVals.map (·.total)).sum * 2) 3, optType := optType,
    voters := (s.lastVals.map fun v => ({ addr := v.addr, power := v.total } : Voter)).mergeSort (fun a b => a.addr ≤ b.addr),
    options := opts.map fun o => { o with votes := 0 } }

structure ProposalAccepted (s : St) (e : Bool) (h : Int) (tx : TxIn) (msg : Hex) (start period applying optType : Int)
    (opts : List VoteOpt) : Prop where
  payload : tx.payload = .proposal msg start period applying optType opts
  toZero : byteLen tx.to = 20 ∧ isZeroAddr tx.to = true
  isValidator : ∃ d ∈ s.lastVals, d.addr = tx.from_
  fresh : s.props.get e (ledgerKey tx.hash) = none
  future : start > h
  periodMin : s.active.minVotingPeriodBlocks ≤ period
  periodMax : period ≤ s.active.maxVotingPeriodBlocks
  lazyApply : applying ≥ start + period + s.active.lazyApplyingBlocks
  hasOption : opts ≠ []
  parse : optType = PROPOSAL_GOVPARAMS → ∀ o ∈ opts, o.parsedV.isSome

/-- what a successful validation establishes WITHOUT any hypothesis: `ProposalAccepted` with the height tests as the
    Go code performs them, in int64 (`HeightsAccepted`), in place of `lazyApply` -/
structure ProposalAcceptedW (s : St) (e : Bool) (h : Int) (tx : TxIn) (msg : Hex) (start period applying optType : Int)
    (opts : List VoteOpt) : Prop where
  payload : tx.payload = .proposal msg start period applying optType opts
  toZero : byteLen tx.to = 20 ∧ isZeroAddr tx.to = true
  isValidator : ∃ d ∈ s.lastVals, d.addr = tx.from_
  fresh : s.props.get e (ledgerKey tx.hash) = none
  future : start > h
  periodMin : s.active.minVotingPeriodBlocks ≤ period
  periodMax : period ≤ s.active.maxVotingPeriodBlocks
  heights : HeightsAccepted start period s.active.lazyApplyingBlocks applying
  hasOption : opts ≠ []
  parse : optType = PROPOSAL_GOVPARAMS → ∀ o ∈ opts, o.parsedV.isSome

/-- under `ProposalHeightsFit` (int64 fields, no overflow of `start + period + lazyApplyingBlocks`) the int64 tests
    are the inequalities on unbounded integers -/
theorem ProposalAcceptedW.toAccepted {s : St} {e : Bool} {h : Int} {tx : TxIn} {msg : Hex}
    {start period applying optType : Int} {opts : List VoteOpt}
    (acc : ProposalAcceptedW s e h tx msg start period applying optType opts) (hfit : ProposalHeightsFit s tx) :
    ProposalAccepted s e h tx msg start period applying optType opts := by
  unfold ProposalHeightsFit at hfit
  rw [acc.payload] at hfit
  simp only at hfit
  obtain ⟨hs, hp, hl, hf⟩ := hfit
  exact ⟨acc.payload, acc.toZero, acc.isValidator, acc.fresh, acc.future, acc.periodMin, acc.periodMax,
    (acc.heights.unbounded hs hp hl hf).1, acc.hasOption, acc.parse⟩

theorem validateProposal_okW {s s1 : St} {e : Bool} {h : Int} {tx : TxIn} (hv : validateProposal s e h tx = .ok s1) :
    ∃ msg start period applying optType opts, ProposalAcceptedW s e h tx msg start period applying optType opts := by
  unfold validateProposal at hv
  simp only [bind, Except.bind, pure, Except.pure, throw, throwThe, MonadExceptOf.throw] at hv
  split at hv
  · cases hv
  rename_i hto
  split at hv
  · cases hv
  rename_i hval
  split at hv
  · rename_i msg start period applying optType opts hpay
    split at hv
    · cases hv
    rename_i hdup
    split at hv
    · cases hv
    rename_i hstart
    split at hv
    · cases hv
    rename_i hper
    split at hv
    · cases hv
    rename_i hparse
    split at hv
    · cases hv
    rename_i hend
    split at hv
    · cases hv
    rename_i happ
    split at hv
    · cases hv
    rename_i hemp
    refine ⟨msg, start, period, applying, optType, opts, hpay, by simpa using hto, ?_, ?_, by omega, by omega, by omega,
      ⟨by omega, by omega, by omega⟩, by simpa using hemp, ?_⟩
    · have hval' : s.isValidator tx.from_ = true := by simpa using hval
      unfold St.isValidator at hval'
      rw [List.any_eq_true] at hval'
      obtain ⟨d, hd, hda⟩ := hval'
      exact ⟨d, hd, by simpa using hda⟩
    · simpa using hdup
    · intro hty o ho
      simp only [not_and, Bool.not_eq_true] at hparse
      have := hparse hty
      rw [List.any_eq_false] at this
      have h3 := this o ho
      cases hpv : o.parsedV with
      | none => simp [hpv] at h3
      | some _ => rfl
  · cases hv

/-- the unbounded inequalities need `ProposalHeightsFit` since the model follows Go's int64 sums
    (without it: `C15.proposal_overflow_accepted`) -/
theorem validateProposal_ok {s s1 : St} {e : Bool} {h : Int} {tx : TxIn} (hv : validateProposal s e h tx = .ok s1)
    (hfit : ProposalHeightsFit s tx) :
    ∃ msg start period applying optType opts, ProposalAccepted s e h tx msg start period applying optType opts := by
  obtain ⟨msg, start, period, applying, optType, opts, acc⟩ := validateProposal_okW hv
  exact ⟨msg, start, period, applying, optType, opts, acc.toAccepted hfit⟩

theorem execProposal_ok {s : St} {e : Bool} {tx : TxIn} {msg : Hex} {start period applying optType : Int} {opts : List VoteOpt}
    (hp : tx.payload = .proposal msg start period applying optType opts) :
    execProposal s e tx =
      .ok { st := { s with props := (s.props.set e (ledgerKey tx.hash) (snapshotProposal s tx start period applying optType opts)) } } := by
  unfold execProposal snapshotProposal
  rw [hp]
  rfl

/-- `only_validators_propose` + `voters_are_snapshot`, on either path; hypothesis-free form (height tests in int64) -/
theorem proposal_successW {s : St} {e : Bool} {h : Int} {tx : TxIn} (htype : tx.type = TRX_PROPOSAL)
    (hc : (handleTx s e h tx).2.code = 0) :
    ∃ msg start period applying optType opts, ProposalAcceptedW s e h tx msg start period applying optType opts ∧
      (handleTx s e h tx).1.props = s.props.set e (ledgerKey tx.hash) (snapshotProposal s tx start period applying optType opts) := by
  obtain ⟨_, sender, s1, s2, g, _, hval, hrun, hres⟩ := handleTx_success hc
  obtain ⟨hfr, _, hfp, _⟩ := findOrNewAcct_frAll s e tx.to
  generalize (s.findOrNewAcct e tx.to) = pr at *
  obtain ⟨s0, rcv⟩ := pr
  simp only [] at hfr hfp hval hrun
  rw [validateTrx_proposal _ _ _ _ _ _ htype] at hval
  obtain ⟨_, _, hvp⟩ := bind_chain_ok hval
  have hs1 := validateProposal_eq hvp
  subst hs1
  obtain ⟨msg, start, period, applying, optType, opts, acc⟩ := validateProposal_okW hvp
  have hlv : s1.lastVals = s.lastVals := hfr.2.2.2.2.1
  have hact : s1.active = s.active := hfr.2.2.1
  have hpr : s1.props = s.props := hfp
  refine ⟨msg, start, period, applying, optType, opts, ?_, ?_⟩
  · obtain ⟨a1, a2, a3, a4, a5, a6, a7, a8, a9, a10⟩ := acc
    exact ⟨a1, a2, by rw [← hlv]; exact a3, by rw [← hpr]; exact a4, a5, by rw [← hact]; exact a6,
      by rw [← hact]; exact a7, by rw [← hact]; exact a8, a9, a10⟩
  · rw [hres]
    rw [runTrx_eq, execBody_proposal _ _ _ _ _ htype, execProposal_ok acc.payload] at hrun
    simp only [bind, Except.bind] at hrun
    have hsnap : snapshotProposal s1 tx start period applying optType opts = snapshotProposal s tx start period applying optType opts := by
      unfold snapshotProposal; rw [hlv]
    rcases runTail_cases hrun with ⟨_, _, h2⟩ | ⟨_, h2⟩ | ⟨_, _, _, _, _, _, _, _, h2⟩
    · rw [h2]; simp only []; rw [hpr, hsnap]
    · rw [h2]; simp only []; rw [hpr, hsnap]
    · rw [h2]; simp only [St.setAcct]; rw [hpr, hsnap]

/-- `only_validators_propose` + `voters_are_snapshot`, on either path, with `applying ≥ start + period + lazy` on
    unbounded integers: needs `ProposalHeightsFit` -/
theorem proposal_success {s : St} {e : Bool} {h : Int} {tx : TxIn} (htype : tx.type = TRX_PROPOSAL)
    (hc : (handleTx s e h tx).2.code = 0) (hfit : ProposalHeightsFit s tx) :
    ∃ msg start period applying optType opts, ProposalAccepted s e h tx msg start period applying optType opts ∧
      (handleTx s e h tx).1.props = s.props.set e (ledgerKey tx.hash) (snapshotProposal s tx start period applying optType opts) := by
  obtain ⟨msg, start, period, applying, optType, opts, acc, hprops⟩ := proposal_successW htype hc
  exact ⟨msg, start, period, applying, optType, opts, acc.toAccepted hfit, hprops⟩

structure VoteAccepted (s : St) (e : Bool) (h : Int) (tx : TxIn) (hash : Hex) (choice : Int) (p : Proposal) : Prop where
  payload : tx.payload = .voting hash choice
  found : s.props.get e (ledgerKey hash) = some p
  isVoter : ∃ v ∈ p.voters, v.addr = tx.from_
  choiceLo : 0 ≤ choice
  choiceHi : choice < p.options.length
  afterStart : p.start ≤ h
  beforeEnd : h ≤ p.end_

theorem validateVoting_ok {s s1 : St} {e : Bool} {h : Int} {tx : TxIn} (hv : validateVoting s e h tx = .ok s1) :
    ∃ hash choice p, VoteAccepted s e h tx hash choice p := by
  unfold validateVoting at hv
  simp only [bind, Except.bind, pure, Except.pure, throw, throwThe, MonadExceptOf.throw] at hv
  split at hv
  · cases hv
  split at hv
  · rename_i hash choice hpay
    split at hv
    · cases hv
    · rename_i p hp
      split at hv
      · cases hv
      rename_i hvoter
      split at hv
      · cases hv
      rename_i hch
      split at hv
      · cases hv
      rename_i hwin
      refine ⟨hash, choice, p, hpay, hp, ?_, by omega, by omega, by omega, by omega⟩
      have hvoter' : (p.voters.any fun x => x.addr == tx.from_) = true := by simpa using hvoter
      rw [List.any_eq_true] at hvoter'
      obtain ⟨v, hv1, hv2⟩ := hvoter'
      exact ⟨v, hv1, by simpa using hv2⟩
  · cases hv

/-- `only_snapshot_voters_vote_in_window`: a successful vote comes from a recorded voter, inside the
    window, for an existing option; the stored proposal is `doVote` of the old one -/
theorem voting_success {s : St} {e : Bool} {h : Int} {tx : TxIn} (htype : tx.type = TRX_VOTING)
    (hc : (handleTx s e h tx).2.code = 0) :
    ∃ hash choice p, VoteAccepted s e h tx hash choice p ∧
      (handleTx s e h tx).1.props = s.props.set e (ledgerKey p.hash) (p.doVote tx.from_ choice) := by
  obtain ⟨_, sender, s1, s2, g, _, hval, hrun, hres⟩ := handleTx_success hc
  obtain ⟨hfr, _, hfp, _⟩ := findOrNewAcct_frAll s e tx.to
  generalize (s.findOrNewAcct e tx.to) = pr at *
  obtain ⟨s0, rcv⟩ := pr
  simp only [] at hfr hfp hval hrun
  rw [validateTrx_voting _ _ _ _ _ _ htype] at hval
  obtain ⟨_, _, hvp⟩ := bind_chain_ok hval
  have hs1 := validateVoting_eq hvp
  subst hs1
  obtain ⟨hash, choice, p, acc⟩ := validateVoting_ok hvp
  have hpr : s1.props = s.props := hfp
  refine ⟨hash, choice, p, ?_, ?_⟩
  · obtain ⟨a1, a2, a3, a4, a5, a6, a7⟩ := acc
    exact ⟨a1, by rw [← hpr]; exact a2, a3, a4, a5, a6, a7⟩
  · rw [hres]
    have hex : execVoting s1 e tx = .ok { st := { s1 with props := s1.props.set e (ledgerKey p.hash) (p.doVote tx.from_ choice) } } := by
      unfold execVoting
      rw [acc.payload]
      simp only [acc.found]
      have : (p.voters.any fun x => x.addr == tx.from_) = true := by
        rw [List.any_eq_true]
        obtain ⟨v, hv1, hv2⟩ := acc.isVoter
        exact ⟨v, hv1, by simp [hv2]⟩
      simp [this, pure, Except.pure]
    rw [runTrx_eq, execBody_voting _ _ _ _ _ htype, hex] at hrun
    simp only [bind, Except.bind] at hrun
    rcases runTail_cases hrun with ⟨_, _, h2⟩ | ⟨_, h2⟩ | ⟨_, _, _, _, _, _, _, _, h2⟩
    · rw [h2]; simp only []; rw [hpr]
    · rw [h2]; simp only []; rw [hpr]
    · rw [h2]; simp only [St.setAcct]; rw [hpr]

end Rigo.C15
