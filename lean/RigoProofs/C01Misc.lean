/-
  C01 helpers: accessed-address revert, governance punish targets, vote options, validator updates.
-/
import RigoProofs.C01Maps
open Std

namespace Rigo.Determinism
open Rigo.Ledger

/-! ### revertAccessedObjAddr -/

theorem revertAddrs_perm {l₁ l₂ : List (Hex × Int)} (p : l₁.Perm l₂) (s : Int) :
    (revertAddrs l₁ s).Perm (revertAddrs l₂ s) := (p.filter _).map _

theorem revertAccessed_perm_eq (m : Accessed) {l₁ l₂ : List (Hex × Int)} (p : l₁.Perm l₂) (s : Int) :
    revertAccessed m l₁ s = revertAccessed m l₂ s :=
  foldl_erase_perm (revertAddrs_perm p s) m

theorem mem_revertAddrs (m : Accessed) {order : List (Hex × Int)} (p : order.Perm m.toList) (s : Int) (a : Hex) :
    a ∈ revertAddrs order s ↔ ∃ v, m[a]? = some v ∧ s < v := by
  unfold revertAddrs
  simp only [List.mem_map, List.mem_filter, decide_eq_true_eq]
  constructor
  · rintro ⟨⟨a', v⟩, ⟨hm, hs⟩, rfl⟩
    exact ⟨v, ExtTreeMap.mem_toList_iff_getElem?_eq_some.mp (p.subset hm), hs⟩
  · rintro ⟨v, hv, hs⟩
    exact ⟨(a, v), ⟨p.symm.subset (ExtTreeMap.mem_toList_iff_getElem?_eq_some.mpr hv), hs⟩, rfl⟩

/-- what is left after the revert: exactly the entries tagged `≤ snapshot` -/
theorem getElem?_revertAccessed (m : Accessed) {order : List (Hex × Int)} (p : order.Perm m.toList)
    (s : Int) (a : Hex) :
    (revertAccessed m order s)[a]? = (m[a]?).filter (fun v => decide (v ≤ s)) := by
  unfold revertAccessed
  rw [getElem?_foldl_erase]
  have hm := mem_revertAddrs m p s a
  cases hv : m[a]? with
  | none =>
    simp
  | some v =>
    rw [hv] at hm
    by_cases hs : s < v
    · have : a ∈ revertAddrs order s := hm.mpr ⟨v, rfl, hs⟩
      simp only [this, if_true, Option.filter_some]
      have : ¬ v ≤ s := by omega
      simp [this]
    · have : a ∉ revertAddrs order s := by
        intro h
        obtain ⟨v', hv', hs'⟩ := hm.mp h
        simp only [Option.some.injEq] at hv'
        subst hv'; exact hs hs'
      simp only [this, if_false, Option.filter_some]
      have : v ≤ s := by omega
      simp [this]

/-! ### doPunish targets -/

theorem voterLoop_eq_any (t : Hex) (vs : List Voter) : voterLoop t vs = vs.any (·.addr == t) := by
  induction vs with
  | nil => rfl
  | cons v vs ih =>
    simp only [voterLoop, List.any_cons, ih]
    cases v.addr == t <;> simp

theorem any_perm {α : Type} {l₁ l₂ : List α} (p : l₁.Perm l₂) (f : α → Bool) : l₁.any f = l₂.any f := by
  rw [Bool.eq_iff_iff, List.any_eq_true, List.any_eq_true]
  constructor
  · rintro ⟨x, hx, h⟩; exact ⟨x, p.subset hx, h⟩
  · rintro ⟨x, hx, h⟩; exact ⟨x, p.symm.subset hx, h⟩

theorem voterLoop_perm {vs₁ vs₂ : List Voter} (p : vs₁.Perm vs₂) (t : Hex) :
    voterLoop t vs₁ = voterLoop t vs₂ := by
  rw [voterLoop_eq_any, voterLoop_eq_any, any_perm p]

theorem punishTargets_congr {ps qs : List (String × List Voter)} (h : VoterOrderEquiv ps qs) (t : Hex) :
    punishTargets ps t = punishTargets qs t := by
  induction h with
  | nil => rfl
  | cons hp _ ih =>
    unfold punishTargets at ih ⊢
    simp only [List.filter_cons, voterLoop_perm hp t]
    split
    · simp only [List.map_cons, ih]
    · exact ih

theorem voterOrderEquiv_refl (ps : List (String × List Voter)) : VoterOrderEquiv ps ps := by
  induction ps with
  | nil => exact .nil
  | cons p ps ih => obtain ⟨k, vs⟩ := p; exact .cons (List.Perm.refl _) ih

/-- the model's `targets` in `govPunish` (Rigo/Block.lean) is `punishTargets` on the committed
    proposals in key order, voters in the model's canonical (address) order -/
theorem govPunish_targets_eq (props : KMap Proposal) (addr : Hex) :
    ((props.toList.filter fun (_, p) => p.voters.any (·.addr == addr)).map (·.1))
      = punishTargets (props.toList.map fun kp => (kp.1, kp.2.voters)) addr := by
  unfold punishTargets
  rw [List.filter_map, List.map_map]
  congr 1
  congr 1
  funext kp
  simp [voterLoop_eq_any]

/-- the targets come out in committed-key order, each key at most once -/
theorem punishTargets_ordered (props : KMap Proposal) (addr : Hex) :
    (punishTargets (props.toList.map fun kp => (kp.1, kp.2.voters)) addr).Pairwise
      (fun a b => compare a b = .lt) := by
  unfold punishTargets
  rw [List.pairwise_map]
  refine List.Pairwise.filter _ ?_
  rw [List.pairwise_map]
  exact ExtTreeMap.ordered_keys_toList

/-! ### vote options -/

theorem sorted_votes_eq {os s₁ s₂ : List VoteOpt} (h₁ : IsSortOf optionLess os s₁) (h₂ : IsSortOf optionLess os s₂) :
    s₁.map (·.votes) = s₂.map (·.votes) := by
  have conv : ∀ {s : List VoteOpt}, Sorted optionLess s → (s.map (·.votes)).Pairwise (fun a b => b ≤ a) := by
    intro s hs
    rw [List.pairwise_map]
    refine hs.imp ?_
    intro a b h
    simp only [optionLess, decide_eq_false_iff_not] at h
    omega
  refine List.Perm.eq_of_pairwise (le := fun (a b : Int) => b ≤ a) ?_ (conv h₁.2) (conv h₂.2)
    ((h₁.1.trans h₂.1.symm).map _)
  intro a b _ _ h1 h2
  omega

theorem head_votes_max {os s : List VoteOpt} (h : IsSortOf optionLess os s) {top : VoteOpt} {rest : List VoteOpt}
    (hs : s = top :: rest) : ∀ o ∈ os, o.votes ≤ top.votes := by
  intro o ho
  have hm : o ∈ s := h.1.symm.subset ho
  have hp := h.2
  subst hs
  unfold Sorted at hp
  rw [List.pairwise_cons] at hp
  rcases List.mem_cons.mp hm with rfl | hm
  · exact Int.le_refl _
  · have := hp.1 o hm
    simp only [optionLess, decide_eq_false_iff_not] at this
    omega

theorem freezeDecision_eq {os s₁ s₂ : List VoteOpt} (h₁ : IsSortOf optionLess os s₁) (h₂ : IsSortOf optionLess os s₂)
    (maj : Int) : freezeDecision s₁ maj = freezeDecision s₂ maj := by
  have h := congrArg List.head? (sorted_votes_eq h₁ h₂)
  rw [List.head?_map, List.head?_map] at h
  unfold freezeDecision
  cases e₁ : s₁.head? <;> cases e₂ : s₂.head? <;> simp_all

/-! ### validator updates -/

theorem sortByAddr_perm_eq {l₁ l₂ : List Delegatee} (p : l₁.Perm l₂) (nd : DistinctAddr l₁) :
    sortByAddr l₁ = sortByAddr l₂ :=
  sorted_perm_unique (addrLess_strictTotal nd).total (sortByAddr_sorted l₁) (sortByAddr_sorted l₂)
    (sortByAddr_isSort l₁).1 ((sortByAddr_isSort l₂).1.trans p.symm)

theorem sortByPower_perm_eq {l₁ l₂ : List Delegatee} (p : l₁.Perm l₂) (nd : DistinctAddr l₁) :
    sortByPower l₁ = sortByPower l₂ :=
  mergeSort_ltOrEq_perm (powerLess_strictTotal nd) p

theorem sortObjs_perm_eq {l₁ l₂ : List (Hex × Int)} (p : l₁.Perm l₂) (nd : DistinctObjAddr l₁) :
    sortObjs l₁ = sortObjs l₂ :=
  mergeSort_ltOrEq_perm (objLess_strictTotal nd) p

end Rigo.Determinism
