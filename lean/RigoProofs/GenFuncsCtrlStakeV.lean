/-
  Round 3, stake controller, validation (ctrlers/stake/ctrler.go), part 3 (main):
  `(*StakeCtrler).ValidateTrx` = the stake part of the model's `validateTrx`
  (`validateStaking` / `validateUnstaking` / `validateWithdraw`), outcome for outcome.
-/
import RigoProofs.GenFuncsCtrlStakeV2

set_option linter.unusedSimpArgs false

namespace Rigo.GenEq
open Rigo Rigo.Gen

/-- the stake controller's share of the model's `validateTrx`: the dispatch on the transaction type
    (`validateTrx_stake` links it to `validateTrx`); any other type is `ErrUnknownTrxType` -/
def stakeValidate (s : St) (exec : Bool) (tx : TxIn) : Step St :=
  if tx.type = TRX_STAKING then validateStaking s exec tx
  else if tx.type = TRX_UNSTAKING then validateUnstaking s exec tx
  else if tx.type = TRX_WITHDRAW then validateWithdraw s exec tx
  else .error (.err "unknowntype")

/-- for the three stake transaction types the model's `validateTrx`, once the common validations pass,
    is `stakeValidate` -/
theorem validateTrx_stake (s : St) (exec : Bool) (height : Int) (tx : TxIn) (sender receiver : Account)
    (h0 : commonValidation0 s exec tx = .ok ()) (h1 : commonValidation1 sender tx = .ok ())
    (ht : tx.type = TRX_STAKING ∨ tx.type = TRX_UNSTAKING ∨ tx.type = TRX_WITHDRAW) :
    validateTrx s exec height tx sender receiver = stakeValidate s exec tx := by
  unfold validateTrx stakeValidate
  simp only [h0, h1, stakeV_okb]
  unfold TRX_STAKING TRX_UNSTAKING TRX_WITHDRAW at ht
  unfold TRX_PROPOSAL TRX_VOTING TRX_TRANSFER TRX_SETDOC TRX_STAKING TRX_UNSTAKING TRX_WITHDRAW
  rcases ht with h | h | h <;> simp [h]

/-- other transaction types are refused with `ErrUnknownTrxType`, the controller is unchanged -/
theorem StakeCtrler_ValidateTrx_other (c : StakeCtrler) (tx : TxIn) (ctx : TrxContext)
    (mv md : Nat) (mr : Int) (srt : SortOf orderedPowerObj_Less) (htx : ctx.tx = trxOf tx)
    (h2 : tx.type ≠ TRX_STAKING) (h3 : tx.type ≠ TRX_UNSTAKING) (h8 : tx.type ≠ TRX_WITHDRAW) :
    Gen.StakeCtrler_ValidateTrx c ctx mv md mr srt = .ok (c, some "ErrUnknownTrxType") := by
  unfold Gen.StakeCtrler_ValidateTrx
  unfold TRX_STAKING at h2
  unfold TRX_UNSTAKING at h3
  unfold TRX_WITHDRAW at h8
  simp only [htx, Trx_GetType_eq, stakeV_okb, pure_bind, h2, h3, h8, if_false]
  cases ctx.exec <;> simp only [Bool.false_eq_true, if_true, if_false, pure_bind] <;> rfl

/-- the hypotheses of the main theorem; they concern STAKING transactions only:
    * `StakeAmountFits` : `amount / 10^18 < 2^255` (true of every uint256 amount);
    * `StakeSumFits`    : no int64 overflow of `delegatee.TotalPower + txPower`;
    * `DelegKeyed`      : the delegatee stored under the key of `tx.to` has the address `tx.to`. -/
def StakeValidateHyp (s : St) (exec : Bool) (tx : TxIn) : Prop :=
  tx.type = TRX_STAKING → StakeAmountFits tx ∧ StakeSumFits s exec tx ∧ DelegKeyed s exec tx
instance (s : St) (exec : Bool) (tx : TxIn) : Decidable (StakeValidateHyp s exec tx) := by
  unfold StakeValidateHyp; infer_instance

/-- **`(*StakeCtrler).ValidateTrx`** on a controller `c` that holds the stake part of the model state `s`,
    for the transaction `tx` on the path `exec`, with the governance oracles read from the active
    parameters and ANY admissible sort in the limiter: the model's verdict, outcome for outcome
    (`StakeValidateMatches`): accepted ↦ no error and a controller that holds the model's new state (only the
    limiter changes, on DeliverTx); refused with kind `k` ↦ the Go error `stakeVLabel k` and the controller
    unchanged; model panic ↦ Go panic. -/
theorem StakeCtrler_ValidateTrx_eq (c : StakeCtrler) (s : St) (exec : Bool) (tx : TxIn) (ctx : TrxContext)
    (srt : SortOf orderedPowerObj_Less) (hrel : StakeRel c s) (hd : ObjsDistinct c.stakeLimiter)
    (htx : ctx.tx = trxOf tx) (hex : ctx.exec = exec) (hyp : StakeValidateHyp s exec tx) :
    StakeValidateMatches
      (Gen.StakeCtrler_ValidateTrx c ctx s.active.minValidatorStake s.active.minDelegatorStake
        s.active.minSelfStakeRatio srt) c (stakeValidate s exec tx) := by
  unfold stakeValidate
  by_cases h2 : tx.type = TRX_STAKING
  · obtain ⟨ha, hs, hk⟩ := hyp h2
    simp only [h2, if_true]
    exact StakeCtrler_ValidateTrx_staking c s exec tx ctx srt hrel hd htx hex h2 ha hs hk
  by_cases h3 : tx.type = TRX_UNSTAKING
  · simp only [h2, h3, if_true, if_false]
    exact StakeCtrler_ValidateTrx_unstaking c s exec tx ctx _ _ _ srt hrel hd htx hex h3
  by_cases h8 : tx.type = TRX_WITHDRAW
  · simp only [h2, h3, h8, if_true, if_false]
    exact StakeCtrler_ValidateTrx_withdraw c s exec tx ctx _ _ _ srt hrel htx hex h8
  simp only [h2, h3, h8, if_false, StakeValidateMatches_err, stakeVLabel_unknowntype]
  exact StakeCtrler_ValidateTrx_other c tx ctx _ _ _ srt htx h2 h3 h8

/-! ### a concrete run: three validators, a limiter, one delegatee with a delegated stake -/

def svA : Hex := "00000000000000000000000000000000000000aa"
def svB : Hex := "00000000000000000000000000000000000000bb"
def svC : Hex := "00000000000000000000000000000000000000cc"
def svD : Hex := "00000000000000000000000000000000000000dd"
def svH : Hex := "1111111111111111111111111111111111111111111111111111111111111111"
/-- the limiter after `reset`: 3 validators with powers 100, 80, 60; each may hold 100 %, 33 % may change -/
def svSl : StakeLimiter :=
  { indi := 100, upd := 33, maxCnt := 3, objs := [(svC, 100), (svB, 80), (svA, 60)], base := 240, updated := 0 }
def svStake : Stake := { owner := svB, to := svA, hash := svH, power := 10, start := 1 }
def svDA : Delegatee := { addr := svA, pub := "02", self := 50, total := 60, stakes := [svStake] }
def svDB : Delegatee := { addr := svB, pub := "03", self := 80, total := 80 }
def svDC : Delegatee := { addr := svC, pub := "04", self := 100, total := 100 }
def svS : St :=
  { delegs := ({} : Led Delegatee).set true (ledgerKey svA) svDA
    rewards := ({} : Led Reward).set true (ledgerKey svB) { addr := svB, cumulated := 100 }
    lastVals := [svDC, svDB, svDA]
    limiter := toLimiter svSl
    active := { (default : Params) with minValidatorStake := 10000000000000000000,
                                        minDelegatorStake := 1000000000000000000, minSelfStakeRatio := 50 } }
def svCtx (tx : TxIn) (exec : Bool) : TrxContext :=
  { height := 100, txHash := "", tx := trxOf tx, exec := exec, senderPubKey := "",
    sender := { addr := tx.from_ }, receiver := { addr := tx.to }, gasUsed := 0, chainId := "c" }
/-- `…bb` delegates 5·10^18 to `…aa` -/
def svTx (amt : Nat) : TxIn := { from_ := svB, to := svA, type := 2, amount := amt }

example : ObjsDistinct svSl := by decide
example : StakeValidateHyp svS true (svTx 5000000000000000000) := by decide

/-- DeliverTx of the delegation: all hypotheses hold, the Go code accepts and the limiter has recorded the
    new power 65 of `…aa` (whatever the sort) -/
example (srt : SortOf orderedPowerObj_Less) :
    ∃ c', Gen.StakeCtrler_ValidateTrx (stakeCtrlOf svS svSl) (svCtx (svTx 5000000000000000000) true)
        svS.active.minValidatorStake svS.active.minDelegatorStake svS.active.minSelfStakeRatio srt = .ok (c', none) ∧
      toLimiter c'.stakeLimiter =
        { toLimiter svSl with objs := objSort [(svC, 100), (svB, 80), (svA, 65)], updated := 0 } := by
  have hm : stakeValidate svS true (svTx 5000000000000000000) =
      .ok { svS with limiter := { toLimiter svSl with objs := objSort [(svC, 100), (svB, 80), (svA, 65)], updated := 0 } } := by rfl
  have h := StakeCtrler_ValidateTrx_eq (stakeCtrlOf svS svSl) svS true (svTx 5000000000000000000) (svCtx (svTx 5000000000000000000) true) srt
    (stakeRel_of _ _ rfl) (by decide) rfl rfl (by decide)
  rw [hm] at h
  obtain ⟨c', e, r⟩ := h
  exact ⟨c', e, r.limiter⟩

/-- a delegation of 50·10^18 would push the self-stake ratio of `…aa` to 45 % < 50 %: refused, controller unchanged -/
example (srt : SortOf orderedPowerObj_Less) :
    Gen.StakeCtrler_ValidateTrx (stakeCtrlOf svS svSl) (svCtx (svTx 50000000000000000000) true)
        svS.active.minValidatorStake svS.active.minDelegatorStake svS.active.minSelfStakeRatio srt =
      .ok (stakeCtrlOf svS svSl, some "not enough self power - validator: %v, self power: %v, total power: %v") := by
  have hm : stakeValidate svS true (svTx 50000000000000000000) = .error (.err "selfratio") := by rfl
  have h := StakeCtrler_ValidateTrx_eq (stakeCtrlOf svS svSl) svS true (svTx 50000000000000000000) (svCtx (svTx 50000000000000000000) true) srt
    (stakeRel_of _ _ rfl) (by decide) rfl rfl (by decide)
  rw [hm] at h
  simpa using h

/-- `…bb` unstakes its stake of power 10 from `…aa`: accepted, the limiter records 10 of 240 as changed -/
def svUnTx : TxIn := { from_ := svB, to := svA, type := 3, payload := .unstaking svH }

example (srt : SortOf orderedPowerObj_Less) :
    ∃ c', Gen.StakeCtrler_ValidateTrx (stakeCtrlOf svS svSl) (svCtx svUnTx true)
        svS.active.minValidatorStake svS.active.minDelegatorStake svS.active.minSelfStakeRatio srt = .ok (c', none) ∧
      toLimiter c'.stakeLimiter =
        { toLimiter svSl with objs := objSort [(svC, 100), (svB, 80), (svA, 50)], updated := 10 } := by
  have hm : stakeValidate svS true svUnTx =
      .ok { svS with limiter := { toLimiter svSl with objs := objSort [(svC, 100), (svB, 80), (svA, 50)], updated := 10 } } := by rfl
  have h := StakeCtrler_ValidateTrx_eq (stakeCtrlOf svS svSl) svS true svUnTx (svCtx svUnTx true) srt
    (stakeRel_of _ _ rfl) (by decide) rfl rfl (by decide)
  rw [hm] at h
  obtain ⟨c', e, r⟩ := h
  exact ⟨c', e, r.limiter⟩

/-- a withdrawal of more than the cumulated reward (100) is `ErrInvalidTrx`; of 100 it is accepted -/
def svWdTx (req : Nat) : TxIn := { from_ := svB, to := svA, type := 8, payload := .withdraw req }

example (srt : SortOf orderedPowerObj_Less) :
    Gen.StakeCtrler_ValidateTrx (stakeCtrlOf svS svSl) (svCtx (svWdTx 150) true) 0 0 0 srt =
      .ok (stakeCtrlOf svS svSl, some "ErrInvalidTrx") := by
  have hm : validateWithdraw svS true (svWdTx 150) = .error (.err "noreward") := by rfl
  have h := StakeCtrler_ValidateTrx_withdraw (stakeCtrlOf svS svSl) svS true (svWdTx 150) (svCtx (svWdTx 150) true) 0 0 0 srt
    (stakeRel_of _ _ rfl) rfl rfl rfl
  rw [hm] at h
  simpa using h

example (srt : SortOf orderedPowerObj_Less) :
    ∃ c', Gen.StakeCtrler_ValidateTrx (stakeCtrlOf svS svSl) (svCtx (svWdTx 100) true) 0 0 0 srt = .ok (c', none) := by
  have hm : validateWithdraw svS true (svWdTx 100) = .ok svS := by rfl
  have h := StakeCtrler_ValidateTrx_withdraw (stakeCtrlOf svS svSl) svS true (svWdTx 100) (svCtx (svWdTx 100) true) 0 0 0 srt
    (stakeRel_of _ _ rfl) rfl rfl rfl
  rw [hm] at h
  obtain ⟨c', e, _⟩ := h
  exact ⟨c', e⟩

/-! ### the differences excluded by the hypotheses -/

def svSl0 : StakeLimiter := { indi := 0, upd := 0, maxCnt := 0, objs := [], base := 0, updated := 0 }
/-- a delegatee whose total power is 2^63 - 1 -/
def svBigD : Delegatee := { addr := svA, pub := "02", self := 10, total := 9223372036854775807 }
def svBigS : St := { delegs := ({} : Led Delegatee).set true (ledgerKey svA) svBigD }
/-- it stakes one more unit of power on itself -/
def svBigTx : TxIn := { from_ := svA, to := svA, type := 2, amount := 1000000000000000000 }

/-- Without `StakeSumFits`: `delegatee.TotalPower + txPower = 2^63`.  On int64 the sum wraps to `-2^63`, the Go
    test `(totalPower + txPower) <= 0` fires and the node panics: so does the model.  The generated code
    computes on unbounded integers, sees a positive sum and accepts.  An artefact of the translator's
    reading of int64 (documented in the header of Funcs.lean), not a defect of the Go code or of the model;
    not reachable with a realistic supply (2^63 power units = 9.2·10^36 base units). -/
theorem StakeCtrler_ValidateTrx_differs_overflow :
    ∃ (s : St) (tx : TxIn) (ctx : TrxContext) (c c' : StakeCtrler) (w : String),
      StakeRel c s ∧ ObjsDistinct c.stakeLimiter ∧ ctx.tx = trxOf tx ∧ ctx.exec = true ∧ tx.type = TRX_STAKING ∧
      StakeAmountFits tx ∧ DelegKeyed s true tx ∧ ¬ StakeSumFits s true tx ∧
      stakeValidate s true tx = .error (.panic w) ∧
      Gen.StakeCtrler_ValidateTrx c ctx s.active.minValidatorStake s.active.minDelegatorStake
        s.active.minSelfStakeRatio mergeSortOf = .ok (c', none) := by
  have h := StakeCtrler_ValidateTrx_staking_nowrap (stakeCtrlOf svBigS svSl0) svBigS true svBigTx
    (svCtx svBigTx true) mergeSortOf (stakeRel_of _ _ rfl) (by decide) rfl rfl rfl (by decide)
  have hm : validateStakingOv (fun _ => False) svBigS true svBigTx = .ok svBigS := by rfl
  rw [hm] at h
  obtain ⟨c', e, _⟩ := h
  exact ⟨svBigS, svBigTx, svCtx svBigTx true, stakeCtrlOf svBigS svSl0, c', _, stakeRel_of _ _ rfl, by decide, rfl, rfl,
    rfl, by decide, by decide, by decide, rfl, e⟩

/-- a limiter that knows `…bb` with power 80 and `…dd` with power 7 -/
def svBadSl : StakeLimiter :=
  { indi := 100, upd := 33, maxCnt := 3, objs := [(svC, 100), (svB, 80), (svD, 7)], base := 187, updated := 0 }
/-- the delegatee `…bb` stored under the key of the address `…dd` (no reachable state: `Set` stores under
    `Key()`, and the keys of two different 20-byte addresses differ) -/
def svBadS : St :=
  { delegs := ({} : Led Delegatee).set false (ledgerKey svD) svDB
    lastVals := [svDC, svDB, svDA]
    limiter := toLimiter svBadSl }
def svBadTx : TxIn := { from_ := svA, to := svD, type := 2, amount := 5000000000000000000 }

/-- Without `DelegKeyed`: the delegatee read under `ledgerKey tx.to` carries another address.  The Go code hands
    the delegatee OBJECT to the limiter, which looks up `delegatee.Addr` (`…bb`, power 80 = its total power:
    accepted); the model hands it `tx.to` (`…dd`, power 7 ≠ 80: the limiter's power-mismatch refusal, i.e.
    `ErrUpdatableStakeRatio`).  A modelling shortcut (`tx.to` for `delegatee.Addr`) that is exact on every
    state whose delegatee ledger is keyed by address; not reachable. -/
theorem StakeCtrler_ValidateTrx_differs_key :
    ∃ (s : St) (tx : TxIn) (ctx : TrxContext) (c c' : StakeCtrler),
      StakeRel c s ∧ ObjsDistinct c.stakeLimiter ∧ ctx.tx = trxOf tx ∧ ctx.exec = false ∧ tx.type = TRX_STAKING ∧
      StakeAmountFits tx ∧ StakeSumFits s false tx ∧ ¬ DelegKeyed s false tx ∧
      stakeValidate s false tx = .error (.err "limiter") ∧
      Gen.StakeCtrler_ValidateTrx c ctx s.active.minValidatorStake s.active.minDelegatorStake
        s.active.minSelfStakeRatio mergeSortOf = .ok (c', none) := by
  have h := StakeCtrler_ValidateTrx_staking_nowrap (stakeCtrlOf svBadS svBadSl) svBadS false svBadTx
    (svCtx svBadTx false) mergeSortOf (stakeRel_of _ _ rfl) (by decide) rfl rfl rfl (by decide)
  have hm : validateStakingOv (fun _ => False) svBadS false svBadTx = .ok svBadS := by rfl
  rw [hm] at h
  obtain ⟨c', e, _⟩ := h
  exact ⟨svBadS, svBadTx, svCtx svBadTx false, stakeCtrlOf svBadS svBadSl, c', stakeRel_of _ _ rfl, by decide, rfl, rfl,
    rfl, by decide, by decide, by decide, rfl, e⟩

/-- an "amount" of 2^255·10^18 (not a uint256) staked on oneself -/
def svHugeTx : TxIn :=
  { from_ := svA, to := svA, type := 2,
    amount := 57896044618658097711785492504343953926634992332820282019728792003956564819968000000000000000000 }

/-- Without `StakeAmountFits`: for a quotient `q ≥ 2^255` the Go test `q.Sign() <= 0` refuses the transaction,
    the model (which tests `q = 0`) goes on — here to the overflow panic, the power `uint64(q)` being 0.
    Such an amount is not a uint256: an artefact of amounts being unbounded `Nat`s, excluded by
    `tx.amount < 2^256` (`stakeAmountFits_of_uint256`). -/
theorem StakeCtrler_ValidateTrx_differs_amount :
    ∃ (s : St) (tx : TxIn) (ctx : TrxContext) (c : StakeCtrler) (w : String),
      StakeRel c s ∧ ctx.tx = trxOf tx ∧ tx.type = TRX_STAKING ∧ ¬ StakeAmountFits tx ∧ ¬ tx.amount < two256 ∧
      stakeValidate s true tx = .error (.panic w) ∧
      Gen.StakeCtrler_ValidateTrx c ctx s.active.minValidatorStake s.active.minDelegatorStake
        s.active.minSelfStakeRatio mergeSortOf = .ok (c, some "ErrInvalidTrx") := by
  refine ⟨{}, svHugeTx, svCtx svHugeTx true, stakeCtrlOf {} svSl0, _, stakeRel_of _ _ rfl, rfl, rfl, by decide, by decide,
    rfl, ?_⟩
  exact StakeCtrler_ValidateTrx_staking_sign _ svHugeTx _ _ _ _ _ rfl rfl (by decide)

end Rigo.GenEq
