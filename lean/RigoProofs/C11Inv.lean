/-
  C11 helpers (4): the delegatee-bookkeeping invariant `DelegsOK` and the key discipline of the
  unbonding ledger `FrozenOK` are invariants of the abstract transition system, hence of every
  history of the model.
-/
import RigoProofs.C11Steps
import RigoProofs.Reach

namespace Rigo
open Delegatee

/-! ### induction over histories -/

theorem list_snoc_induction {α : Type} (P : List α → Prop) (h0 : P [])
    (hs : ∀ l a, P l → P (l ++ [a])) : ∀ l, P l := by
  intro l
  rw [← List.reverse_reverse l]
  induction l.reverse with
  | nil => exact h0
  | cons a t ih => rw [List.reverse_cons]; exact hs _ _ ih

/-- a delivered transaction's target is the hex rendering of a byte string (even length) -/
def Op.HexOK : Op → Prop
  | .deliver tx => tx.to.length % 2 = 0
  | _ => True

instance : DecidablePred Op.HexOK := fun op => by
  cases op <;> simp only [Op.HexOK] <;> infer_instance

/-- genesis validator addresses are 20 bytes -/
def GenesisOK (g : Genesis) : Prop := ∀ v ∈ g.vals, v.2.1.length = 40

instance (g : Genesis) : Decidable (GenesisOK g) := by unfold GenesisOK; infer_instance

/-- the histories the staking theorems quantify over: any operations in any order, no second
    InitChain, well-formed hex in delivered transactions -/
def History (ops : List Op) : Prop := ∀ op ∈ ops, op.isInit = false ∧ op.HexOK

instance (ops : List Op) : Decidable (History ops) := by unfold History; infer_instance

theorem History.snoc {ops : List Op} {op : Op} (h : History (ops ++ [op])) :
    History ops ∧ op.isInit = false ∧ op.HexOK :=
  ⟨fun o ho => h o (by simp [ho]), h op (by simp)⟩

/-! ### the invariants -/

def DelegMapOK (m : KMap Delegatee) : Prop :=
  ∀ (k : String) (d : Delegatee), m[k]? = some d → DelegOK d ∧ k = ledgerKey d.addr ∧ d.addr.length = 40

def DelegsOK (c : Core) : Prop := DelegMapOK c.dfin ∧ ∀ m ∈ c.dhist, DelegMapOK m

def FrozenMapOK (m : KMap Stake) : Prop :=
  ∀ (k : String) (st : Stake), m[k]? = some st → k = ledgerKey st.hash

def FrozenOK (c : Core) : Prop := FrozenMapOK c.ffin ∧ ∀ m ∈ c.fhist, FrozenMapOK m

theorem DelegMapOK.empty : DelegMapOK {} := by intro k d h; simp at h

theorem DelegMapOK.insert {m : KMap Delegatee} {d : Delegatee} (hm : DelegMapOK m) (hd : DelegOK d)
    (hl : d.addr.length = 40) : DelegMapOK (m.insert (ledgerKey d.addr) d) := by
  intro k d' h
  rw [Std.ExtTreeMap.getElem?_insert] at h
  by_cases hk : ledgerKey d.addr = k
  · simp [hk] at h; subst h; exact ⟨hd, hk.symm, hl⟩
  · simp [hk] at h; exact hm k d' h

theorem DelegMapOK.erase {m : KMap Delegatee} (hm : DelegMapOK m) (k0 : String) : DelegMapOK (m.erase k0) := by
  intro k d' h
  rw [Std.ExtTreeMap.getElem?_erase] at h
  by_cases hk : k0 = k
  · simp [hk] at h
  · simp [hk] at h; exact hm k d' h

theorem FrozenMapOK.empty : FrozenMapOK {} := by intro k d h; simp at h

theorem FrozenMapOK.insert {m : KMap Stake} (hm : FrozenMapOK m) (st : Stake) (r : Int) :
    FrozenMapOK (m.insert (ledgerKey st.hash) { st with refund := r }) := by
  intro k d' h
  rw [Std.ExtTreeMap.getElem?_insert] at h
  by_cases hk : ledgerKey st.hash = k
  · simp [hk] at h; subst h; exact hk.symm
  · simp [hk] at h; exact hm k d' h

theorem FrozenMapOK.erase {m : KMap Stake} (hm : FrozenMapOK m) (k0 : String) : FrozenMapOK (m.erase k0) := by
  intro k d' h
  rw [Std.ExtTreeMap.getElem?_erase] at h
  by_cases hk : k0 = k
  · simp [hk] at h
  · simp [hk] at h; exact hm k d' h

theorem FrozenMapOK.freezeFin {m : KMap Stake} (hm : FrozenMapOK m) (ss : List Stake) (r : Int) :
    FrozenMapOK (freezeFin m ss r) := by
  intro k v h
  rcases freezeFin_get h with h1 | ⟨st, _, hk, hv⟩
  · exact hm k v h1
  · subst hv; exact hk.symm

/-! ### `unfreezeFold` touches only the unbonding view and the log -/

theorem unfreezeFold_frame (l : List (String × Stake)) (ht : Int) (c : Core) :
    (unfreezeFold l ht c).dfin = c.dfin ∧ (unfreezeFold l ht c).dhist = c.dhist ∧
    (unfreezeFold l ht c).fhist = c.fhist ∧ (unfreezeFold l ht c).active = c.active ∧
    (unfreezeFold l ht c).height = c.height ∧ (unfreezeFold l ht c).lastHeight = c.lastHeight := by
  unfold unfreezeFold
  induction l generalizing c with
  | nil => simp
  | cons x l ih =>
    simp only [List.foldl_cons]
    obtain ⟨h1, h2, h3, h4, h5, h6⟩ := ih (if x.2.refund ≤ ht then
      { c with ffin := c.ffin.erase (ledgerKey x.2.hash), refunds := c.refunds ++ [refundEntry x.2 ht] } else c)
    rw [h1, h2, h3, h4, h5, h6]
    split <;> simp

theorem unfreezeFold_frozenOK (l : List (String × Stake)) (ht : Int) (c : Core) (h : FrozenMapOK c.ffin) :
    FrozenMapOK (unfreezeFold l ht c).ffin := by
  unfold unfreezeFold
  induction l generalizing c with
  | nil => exact h
  | cons x l ih =>
    simp only [List.foldl_cons]
    apply ih
    split
    · exact h.erase _
    · exact h

/-! ### preservation -/

theorem DelegOK.notSigned {d : Delegatee} (h : DelegOK d) (ns : List Int) : DelegOK { d with notSigned := ns } := h

theorem BeginAtom.delegsOK {h : Header} {c c' : Core} (ha : BeginAtom h c c') (hc : DelegsOK c) : DelegsOK c' := by
  obtain ⟨hf, hh⟩ := hc
  cases ha with
  | slash a d _ hd =>
    obtain ⟨hok, hk, hl⟩ := hf _ _ hd
    refine ⟨?_, hh⟩
    have := hf.insert (d := (d.doSlash c.active.slashRatio).1) (DelegOK.doSlash _ hok.2.2) hl
    rw [doSlash_addr, ← hk] at this
    exact this
  | mark k d ns hd =>
    obtain ⟨hok, hk, hl⟩ := hf _ _ hd
    exact ⟨hf.insert (d := { d with notSigned := ns }) (hok.notSigned ns) hl, hh⟩
  | jail k d ns hd =>
    obtain ⟨hok, hk, hl⟩ := hf _ _ hd
    exact ⟨(hf.insert (d := { d with notSigned := ns }) (hok.notSigned ns) hl).erase _, hh⟩

theorem BeginAtom.frozenOK {h : Header} {c c' : Core} (ha : BeginAtom h c c') (hc : FrozenOK c) : FrozenOK c' := by
  obtain ⟨hf, hh⟩ := hc
  cases ha with
  | slash a d _ hd => exact ⟨hf, hh⟩
  | mark k d ns hd => exact ⟨hf, hh⟩
  | jail k d ns hd => exact ⟨hf.freezeFin _ _, hh⟩

theorem hex40 {a : Hex} (h1 : byteLen a = 20) (h2 : a.length % 2 = 0) : a.length = 40 := by
  unfold byteLen at h1; omega

theorem StakeTarget.addr {c : Core} {tx : TxIn} {d : Delegatee} (h : StakeTarget c tx d) (hc : DelegMapOK c.dfin)
    (h1 : byteLen tx.to = 20) (h2 : tx.to.length % 2 = 0) : DelegOK d ∧ d.addr = tx.to ∧ d.addr.length = 40 := by
  have hto := hex40 h1 h2
  rcases h with h | ⟨_, hft, rfl⟩
  · obtain ⟨hok, hk, hl⟩ := hc _ _ h
    exact ⟨hok, (ledgerKey_inj40 hto hl hk).symm, hl⟩
  · exact ⟨DelegOK.empty _ _, hft, by simpa [hft] using hto⟩

theorem unstake_d2_ok {d : Delegatee} (hash : Hex) (hok : DelegOK d) :
    DelegOK (if (d.delStake hash).self = 0 then (d.delStake hash).delAllStakes.1 else d.delStake hash) ∧
    (if (d.delStake hash).self = 0 then (d.delStake hash).delAllStakes.1 else d.delStake hash).addr = d.addr := by
  have h1 := hok.delStake hash
  split
  · rename_i h0
    exact ⟨(h1.delAllStakes).2.2.2.2 h0, by rw [(h1.delAllStakes).2.2.2.1, delStake_addr]⟩
  · exact ⟨h1, delStake_addr _ _⟩

theorem OpCore.delegsOK {nk : List Hex} {op : Op} {c c' : Core} (h : OpCore nk op c c') (hx : op.HexOK)
    (hc : DelegsOK c) : DelegsOK c' := by
  cases h with
  | same => exact hc
  | begin_ h _ _ _ hs => exact Steps.inv (P := DelegsOK) (fun _ _ ha hp => ha.delegsOK hp) hs hc
  | stake tx _ ht d power _ _ _ hto hd _ _ =>
    obtain ⟨hok, haddr, hl⟩ := hd.addr hc.1 hto hx
    refine ⟨?_, hc.2⟩
    have := hc.1.insert (d := d.addStake (newStake tx power ht)) (hok.addStake (by simp [newStake, haddr]))
      (by simpa [addStake_addr] using hl)
    simpa [addStake_addr] using this
  | unstake tx _ ht d hash st _ _ _ _ hd _ _ =>
    obtain ⟨hok, hk, hl⟩ := hc.1 _ _ hd
    obtain ⟨h2, ha⟩ := unstake_d2_ok hash hok
    refine ⟨?_, hc.2⟩
    show DelegMapOK (unstakeCore c d st hash ht).dfin
    unfold unstakeCore
    dsimp only
    generalize (if (d.delStake hash).self = 0 then (d.delStake hash).delAllStakes.1 else d.delStake hash) = d2 at h2 ha
    split
    · exact hc.1.erase _
    · exact hc.1.insert h2 (by rw [ha]; exact hl)
  | end_ _ ht _ =>
    obtain ⟨h1, h2, _⟩ := unfreezeFold_frame c.fcommitted.toList ht c
    unfold unfreezeCore DelegsOK
    rw [h1, h2]; exact hc
  | commit _ ht act _ =>
    refine ⟨hc.1, ?_⟩
    intro m hm
    simp only [List.mem_append, List.mem_singleton] at hm
    rcases hm with hm | rfl
    · exact hc.2 m hm
    · exact hc.1
  | restart _ act =>
    refine ⟨?_, hc.2⟩
    show DelegMapOK c.dcommitted
    unfold Core.dcommitted
    cases hl : c.dhist.getLast? with
    | none => exact DelegMapOK.empty
    | some m => exact hc.2 m (List.mem_of_getLast? hl)

theorem OpCore.frozenOK {nk : List Hex} {op : Op} {c c' : Core} (h : OpCore nk op c c') (hc : FrozenOK c) :
    FrozenOK c' := by
  cases h with
  | same => exact hc
  | begin_ h _ _ _ hs => exact Steps.inv (P := FrozenOK) (fun _ _ ha hp => ha.frozenOK hp) hs hc
  | stake => exact hc
  | unstake tx _ ht d hash st _ _ _ _ hd _ _ =>
    refine ⟨?_, hc.2⟩
    show FrozenMapOK (unstakeCore c d st hash ht).ffin
    unfold unstakeCore
    dsimp only
    split
    · exact (hc.1.insert st _).freezeFin _ _
    · exact hc.1.insert st _
  | end_ _ ht _ =>
    obtain ⟨_, _, h3, _⟩ := unfreezeFold_frame c.fcommitted.toList ht c
    refine ⟨unfreezeFold_frozenOK _ _ _ hc.1, ?_⟩
    unfold unfreezeCore; rw [h3]; exact hc.2
  | commit _ ht act _ =>
    refine ⟨hc.1, ?_⟩
    intro m hm
    simp only [List.mem_append, List.mem_singleton] at hm
    rcases hm with hm | rfl
    · exact hc.2 m hm
    · exact hc.1
  | restart _ act =>
    refine ⟨?_, hc.2⟩
    show FrozenMapOK c.fcommitted
    unfold Core.fcommitted
    cases hl : c.fhist.getLast? with
    | none => exact FrozenMapOK.empty
    | some m => exact hc.2 m (List.mem_of_getLast? hl)

/-! ### genesis and the lift to histories -/

theorem genesis_delegsOK {g : Genesis} (hg : GenesisOK g) : DelegsOK (genesisCore g) := by
  refine ⟨?_, by intro m hm; simp [genesisCore] at hm⟩
  simp only [genesisCore]
  have : ∀ (l : List (Hex × Hex × Int)) (m : KMap Delegatee), (∀ v ∈ l, v.2.1.length = 40) → DelegMapOK m →
      DelegMapOK (l.foldl (fun m v => m.insert (ledgerKey v.2.1) (genesisDeleg v)) m) := by
    intro l
    induction l with
    | nil => intro m _ hm; exact hm
    | cons v l ih =>
      intro m hl hm
      simp only [List.foldl_cons]
      apply ih _ (fun w hw => hl w (by simp [hw]))
      have hd : DelegOK (genesisDeleg v) := (DelegOK.empty v.2.1 v.1).addStake rfl
      exact hm.insert (d := genesisDeleg v) hd (hl v (by simp))
  exact this _ _ hg DelegMapOK.empty

theorem genesis_frozenOK (g : Genesis) : FrozenOK (genesisCore g) :=
  ⟨FrozenMapOK.empty, by intro m hm; simp [genesisCore] at hm⟩

theorem history_delegsOK {g : Genesis} (hg : GenesisOK g) :
    ∀ ops, History ops → DelegsOK (exec (initChain g) ops).core := by
  apply list_snoc_induction
  · intro _; rw [exec_nil, initChain_core]; exact genesis_delegsOK hg
  · intro ops op ih h
    obtain ⟨h1, h2, h3⟩ := h.snoc
    rw [exec_snoc]
    exact (step_core _ op h2).delegsOK h3 (ih h1)

theorem history_frozenOK (g : Genesis) :
    ∀ ops, (∀ op ∈ ops, op.isInit = false) → FrozenOK (exec (initChain g) ops).core := by
  apply list_snoc_induction
  · intro _; rw [exec_nil, initChain_core]; exact genesis_frozenOK g
  · intro ops op ih h
    rw [exec_snoc]
    exact (step_core _ op (h op (by simp))).frozenOK (ih (fun o ho => h o (by simp [ho])))

end Rigo
