/-
  C12 helpers: reading `Track` (unbonding / refunded), the trigger lemmas for unstaking and for jailing,
  and the credit performed by the refund pass for one due stake.
-/
import RigoProofs.C12Trace
import RigoProofs.C11Lineage

namespace Rigo
open Delegatee

/-- what `Track` says in plain terms -/
theorem Track.summary {U : List String} {k : String} {x : Stake} {H M : Int} {p : Phase} {c : Core}
    (ht : Track k x H M p c) (hl : Life U p c) (hinv : HeightInv c) (hk : k ≠ zeroKey) (hM : H + 1 ≤ M) :
    (c.lastHeight < M ∧ ¬ (p = .ended ∧ c.height = some M) ∧ c.ffin[k]? = some x ∧
      c.refunds.filter (fun e => ledgerKey e.1 == k) = [] ∧ ¬ BondedKey c k) ∨
    ((M ≤ c.lastHeight ∨ (p = .ended ∧ c.height = some M)) ∧
      c.refunds.filter (fun e => ledgerKey e.1 == k) = [refundEntry x M] ∧ c.ffin[k]? = none ∧ ¬ BondedKey c k) := by
  have nb : ∀ v, c.ffin[k]? = some v → ¬ BondedKey c k := by
    rintro v hv ⟨kd, d, st, a1, a2, a3⟩
    have := hl.excl kd d st a1 a2 (by rw [a3]; exact hk)
    rw [a3, hv] at this; cases this
  cases ht with
  | fresh h1 h2 h3 =>
    left
    have := hinv H h1
    exact ⟨by omega, by rintro ⟨_, hh⟩; rw [h1] at hh; cases hh; omega, h2, not_logged_of_ffin hl hk h2, nb _ h2⟩
  | waiting h1 h2 h3 h4 h5 =>
    left
    refine ⟨h2, ?_, h3, not_logged_of_ffin hl hk h3, nb _ h3⟩
    rintro ⟨hp, hh⟩
    have := h5 hp (by rw [hh]; simp)
    have := hinv M hh
    omega
  | refunded h1 h2 h3 =>
    right
    have hlog : Logged c k := by
      have : refundEntry x M ∈ c.refunds.filter (fun e => ledgerKey e.1 == k) := by rw [h1]; simp
      obtain ⟨m1, m2⟩ := List.mem_filter.mp this
      exact ⟨_, m1, by simpa using m2⟩
    exact ⟨h3, h1, h2, (hl.gone k hk hlog).1⟩

/-- in a block of height `M` before its EndBlock the tracked stake is still waiting, committed -/
theorem Track.at_due_block {k : String} {x : Stake} {H M : Int} {c : Core}
    (ht : Track k x H M .inBlock c) (hinv : HeightInv c) (hh : c.height = some M) (hM : H + 1 ≤ M) :
    c.fcommitted[k]? = some x := by
  have hlast := hinv M hh
  cases ht with
  | fresh h1 _ _ => rw [h1] at hh; cases hh; omega
  | waiting _ _ _ h4 _ => exact h4
  | refunded _ _ h3 =>
    rcases h3 with h3 | ⟨hp, _⟩
    · omega
    · cases hp

/-! ### trigger: a successful unstaking -/

theorem unstake_trigger {g : Genesis} (hg : GenesisOK g) (pre : List Op) (tx : TxIn) (b : BlockCtx) (q : Phase)
    (hist : History pre) (hq : phaseRun .idle pre = some q) (hu : UniqueStakeKeys g pre)
    (hb : (exec (initChain g) pre).blk = some b)
    (hok : (handleTx (exec (initChain g) pre) true b.height tx).2.code = 0) (hty : tx.type = TRX_UNSTAKING) :
    tx.sigOk = true ∧ ∃ d hash st, tx.payload = .unstaking hash ∧
      (exec (initChain g) pre).delegs.fin[ledgerKey tx.to]? = some d ∧ d.findStake hash = some st ∧ st.owner = tx.from_ ∧
      (exec (initChain g) (pre ++ [.deliver tx])).core.height = some b.height ∧
      ∀ x ∈ releasedBy d st hash, skey x ≠ zeroKey →
        BondedKey (exec (initChain g) pre).core (skey x) ∧
        (exec (initChain g) (pre ++ [.deliver tx])).core.ffin[skey x]? =
          some { x with refund := b.height + (exec (initChain g) pre).active.lazyRewardBlocks } := by
  obtain ⟨hsig, d, hash, st, hp, hd, hst, hown, hc⟩ := unstake_success hok hty
  have hh : (exec (initChain g) pre).core.height = some b.height := by simp [St.core, hb]
  have hcore : (exec (initChain g) (pre ++ [.deliver tx])).core = unstakeCore (exec (initChain g) pre).core d st hash b.height := by
    rw [exec_snoc]
    show (deliverTx _ tx).1.core = _
    rw [deliverTx_fst_core hb (by rw [hc]; exact hh), hc]
  refine ⟨hsig, d, hash, st, hp, hd, hst, hown, by rw [hcore]; exact hh, ?_⟩
  intro x hx hz
  have hl := history_life hg pre hist q hq hu
  have hsub : ∀ y ∈ releasedBy d st hash, y ∈ d.stakes := by
    intro y hy
    unfold releasedBy at hy
    simp only [List.mem_cons] at hy
    rcases hy with rfl | hy
    · exact (findStake_mem hst).1
    · split at hy
      · exact (delStake_stakes_sublist d hash).subset hy
      · cases hy
  refine ⟨⟨_, d, x, hd, hsub x hx, rfl⟩, ?_⟩
  obtain ⟨y, hy, hyk, hv⟩ := (unstakeCore_effect (history_delegsOK hg pre hist) b.height hd hst).1 x hx
  have : y = x := key_inj_of_nodup d.stakes (hl.nodup _ d hd) y (hsub y hy) x (hsub x hx) hyk (by rw [hyk]; exact hz)
  subst this
  rw [hcore]; exact hv

/-! ### trigger: jailing inside a BeginBlock -/

/-- owner, target, hash and start height agree -/
def SameOrigin (a b : Stake) : Prop := a.owner = b.owner ∧ a.to = b.to ∧ a.hash = b.hash ∧ a.start = b.start

theorem BeginAtom.frozen_origin {h : Header} {c c' : Core} (ha : BeginAtom h c c') {k : String} {v : Stake}
    (hv : c'.ffin[k]? = some v) :
    c.ffin[k]? = some v ∨ ∃ (kd : String) (d : Delegatee) (st : Stake), c.dfin[kd]? = some d ∧ st ∈ d.stakes ∧ skey st = k ∧
      v = { st with refund := h.height + c.active.lazyRewardBlocks } := by
  cases ha with
  | slash => exact Or.inl hv
  | mark => exact Or.inl hv
  | jail k0 d ns hd0 =>
    rcases freezeFin_get hv with h1 | ⟨st, hst, hk, hvv⟩
    · exact Or.inl h1
    · exact Or.inr ⟨k0, d, st, hd0, hst, hk, hvv⟩

theorem BeginAtom.active {h : Header} {c c' : Core} (ha : BeginAtom h c c') : c'.active = c.active := by
  cases ha <;> rfl

/-- an entry of the unbonding view after the BeginBlock moves either was there before or is a stake
    that was bonded at the start of the block: same owner, target, hash, start; power not larger
    (smaller only if slashed in this very block); refund height = block height + unbonding period -/
theorem Steps.frozen_origin {h : Header} {c0 c' : Core} (hs : Steps (BeginAtom h) c0 c') (hd : DelegsOK c0)
    {k : String} {v : Stake} (hv : c'.ffin[k]? = some v) :
    c0.ffin[k]? = some v ∨ ∃ (kd : String) (d : Delegatee) (st : Stake), c0.dfin[kd]? = some d ∧ st ∈ d.stakes ∧ skey st = k ∧
      SameOrigin st v ∧ v.power ≤ st.power ∧ v.refund = h.height + c0.active.lazyRewardBlocks := by
  have := Steps.inv (P := fun x => Descends h c0 x ∧ DelegsOK x ∧ x.active = c0.active ∧
      ∀ v, x.ffin[k]? = some v → c0.ffin[k]? = some v ∨ ∃ (kd : String) (d : Delegatee) (st : Stake),
        c0.dfin[kd]? = some d ∧ st ∈ d.stakes ∧ skey st = k ∧
        SameOrigin st v ∧ v.power ≤ st.power ∧ v.refund = h.height + c0.active.lazyRewardBlocks)
    (fun a b hab ⟨h1, h2, h3, h4⟩ => by
      refine ⟨h1.trans (hab.descends h2), hab.delegsOK h2, hab.active.trans h3, ?_⟩
      intro v hv
      rcases hab.frozen_origin hv with h5 | ⟨kd, d, st, a1, a2, a3, a4⟩
      · exact h4 v h5
      · right
        obtain ⟨d0, st0, b1, b2, b3, b4⟩ := h1 kd d st a1 a2
        refine ⟨kd, d0, st0, b1, b2, ?_, ?_, ?_, ?_⟩
        · rw [← a3]; simp only [skey]; rw [b3.2.2.1]
        · subst a4; exact ⟨b3.1, b3.2.1, b3.2.2.1, b3.2.2.2.1⟩
        · subst a4
          show st.power ≤ st0.power
          rcases b4 with b4 | ⟨b4, _⟩ <;> omega
        · subst a4; show h.height + a.active.lazyRewardBlocks = _; rw [h3])
    hs ⟨Descends.refl _ _, hd, rfl, fun v hv => Or.inl hv⟩
  exact this.2.2.2 v hv

/-- trigger for jailing: a delegatee that is in the ledger before a BeginBlock and gone after it was
    jailed there; each of its stakes (non-zero key) is then unbonding — or was forfeited by a slashing in
    the same BeginBlock -/
theorem jail_trigger {g : Genesis} (hg : GenesisOK g) (pre : List Op) (h : Header) (q : Phase)
    (hist : History pre) (hq : phaseRun .idle pre = some q) (hph : phaseStep q (.begin_ h) = some .inBlock)
    (hu : UniqueStakeKeys g pre) (K : String) (d : Delegatee) (x : Stake)
    (hd : (exec (initChain g) pre).delegs.fin[K]? = some d) (hx : x ∈ d.stakes) (hz : skey x ≠ zeroKey)
    (hgone : (exec (initChain g) (pre ++ [.begin_ h])).delegs.fin[K]? = none) :
    (exec (initChain g) (pre ++ [.begin_ h])).core.height = some h.height ∧
    (ForfeitPath h { (exec (initChain g) pre).core with height := some h.height }
        (exec (initChain g) (pre ++ [.begin_ h])).core (skey x) ∨
     ∃ xr, (exec (initChain g) (pre ++ [.begin_ h])).core.ffin[skey x]? = some xr ∧ SameOrigin x xr ∧
        xr.power ≤ x.power ∧ xr.refund = h.height + (exec (initChain g) pre).active.lazyRewardBlocks) := by
  have hl := history_life hg pre hist q hq hu
  have hdo := history_delegsOK hg pre hist
  have hp : q = .idle := by cases q <;> simp [phaseStep] at hph <;> rfl
  subst hp
  have hop := step_core (exec (initChain g) pre) (.begin_ h) rfl
  rw [← exec_snoc] at hop
  generalize hc' : (exec (initChain g) (pre ++ [.begin_ h])).core = c' at hop hgone ⊢
  have hgone' : c'.dfin[K]? = none := by rw [← hc']; exact hgone
  have hd' : (exec (initChain g) pre).core.dfin[K]? = some d := hd
  cases hop with
  | same => rw [hd'] at hgone'; cases hgone'
  | begin_ _ _ _ hht hs =>
    have hhgt := Steps.inv (P := fun y => y.height = some h.height)
      (fun a b hab ha => by rw [hab.height.1]; exact ha) hs rfl
    refine ⟨hhgt, ?_⟩
    have h0 : Life (usedKeys g pre) .inBlock { (exec (initChain g) pre).core with height := some h.height } :=
      { used := hl.used, nodup := hl.nodup, across := hl.across, excl := hl.excl, once := hl.once, gone := hl.gone,
        boundary := fun hn => (by cases hn), idle := fun hp => (by cases hp),
        inblock := fun _ k st _ hk => (by
          show (exec (initChain g) pre).core.ffin[k]? = some st
          rw [(hl.boundary (hl.idle rfl)).1]; exact hk) }
    rcases hs.forward h0 (by simp) hdo hz ⟨d, x, hd', hx, rfl⟩ with ⟨d1, _, b1, _⟩ | hb | hb
    · rw [hgone'] at b1; cases b1
    · right
      cases hv : c'.ffin[skey x]? with
      | none => exact absurd hv hb
      | some xr =>
        refine ⟨xr, rfl, ?_⟩
        rcases hs.frozen_origin hdo hv with h5 | ⟨kd, d0, st0, a1, a2, a3, a4, a5, a6⟩
        · exfalso
          have := hl.excl K d x hd' hx hz
          have h5' : (exec (initChain g) pre).core.ffin[skey x]? = some xr := h5
          rw [this] at h5'; cases h5'
        · have hkk := hl.across kd K d0 d st0 x a1 hd' a2 hx a3 (by rw [a3]; exact hz)
          subst hkk
          have a1' : (exec (initChain g) pre).core.dfin[kd]? = some d0 := a1
          rw [hd'] at a1'; cases a1'
          have := key_inj_of_nodup d.stakes (hl.nodup _ d hd') st0 a2 x hx a3 (by rw [a3]; exact hz)
          subst this
          exact ⟨a4, a5, a6⟩
    · exact Or.inl hb

/-! ### the credit for one due stake -/

/-- at an EndBlock of height `ht` that does not panic, a committed unbonding stake `x` that is due is
    one of the stakes credited, in order, by `AcctCtrler.Reward(owner, power x 10^18)` -/
theorem refund_pass_credits {s : St} {b : BlockCtx} (hb : s.blk = some b) (hp : (endBlock s).2.panic = "")
    {k : String} {x : Stake} (hc : s.frozen.committed[k]? = some x) (hdue : x.refund ≤ b.height) :
    ∃ s3 s4 s'' l1 l2, s3.core = s.core ∧ unfreeze s3 b.height = .ok s4 ∧ (endBlock s).1.accts = s4.accts ∧
      (s3.frozen.committed.toList.filter (due b.height)).map (·.2) = l1 ++ x :: l2 ∧
      creditAll s3 (l1 ++ x :: l2) = some s'' ∧ s4.accts = s''.accts := by
  obtain ⟨_, s3, s4, h3, h4, h5⟩ := endBlock_ok_core hb hp
  obtain ⟨s'', c1, c2, _⟩ := unfreeze_credit h4
  have hcm : s3.frozen.committed = s.frozen.committed := by
    have : s3.core.fhist = s.core.fhist := by rw [h3]
    unfold Led.committed
    show s3.core.fhist.getLast?.getD {} = s.core.fhist.getLast?.getD {}
    rw [this]
  have hmem : x ∈ (s3.frozen.committed.toList.filter (due b.height)).map (·.2) := by
    rw [hcm]
    simp only [List.mem_map, List.mem_filter]
    exact ⟨(k, x), ⟨Std.ExtTreeMap.mem_toList_iff_getElem?_eq_some.mpr hc, by simp [due, hdue]⟩, rfl⟩
  obtain ⟨l1, l2, hl⟩ := List.append_of_mem hmem
  exact ⟨s3, s4, s'', l1, l2, h3, h4, h5, hl, by rw [← hl]; exact c1, c2⟩

end Rigo
