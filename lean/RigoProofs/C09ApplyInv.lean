/-
  C09 (the apply-time parse panic of EndBlock is unreachable), part 1: the invariant and the transactions.

  `applyProposals` (Rigo/Block.lean) answers `.panic "EndBlock: option does not unmarshal at apply time"` when the
  recorded major option of a frozen PROPOSAL_GOVPARAMS proposal has `parsedA = none`.  Since the repair,
  `validateProposal` (Rigo/App.lean) rejects a GOVPARAMS proposal one of whose options fails EITHER parse
  (`parsedV.isNone || parsedA.isNone`).  Hence the invariant `OptsParse s`:
    * every GOVPARAMS proposal stored in the open-proposal ledger `s.props` — every committed version, the consensus
      view AND the mempool view (CheckTx runs the same validation and writes the mempool view) — has an apply-time
      parse for EVERY option;
    * the same for every GOVPARAMS proposal of the frozen ledger `s.fprops`, and the recorded major option of every
      frozen proposal is ONE OF its options (`freezeProposals` records the head of `sortOptions p.options` and stores
      the sorted list as the options) — so the major option has an apply-time parse, too.
  No hypothesis on the inputs: the fact comes from validation itself.  The structure follows `C10P.PInv`
  (RigoProofs/C10ParamsInv.lean), whose ledger predicates (`LedAll`) and success lemmas (`proposal_success`,
  `voting_success`, frames) are reused.
-/
import RigoProofs.C10ParamsStep

open Std

namespace Rigo.C09A
open Rigo Rigo.C15

/-- the panic outcome this file is about -/
def parsePanic : String := "EndBlock: option does not unmarshal at apply time"

/-- every option of the list has an apply-time parse -/
def OptsP (os : List VoteOpt) : Prop := ∀ o ∈ os, o.parsedA.isSome = true

/-- an open proposal: if it is a GOVPARAMS proposal, every option parses at apply time -/
def PropOK : String → Proposal → Prop := fun _ p => p.optType = PROPOSAL_GOVPARAMS → OptsP p.options

/-- a frozen proposal: the same, and the recorded major option is one of the options -/
def FrozOK : String → Proposal → Prop := fun _ p =>
  (p.optType = PROPOSAL_GOVPARAMS → OptsP p.options) ∧ ∀ m, p.major = some m → m ∈ p.options

/-- what `applyProposals` needs: the major option of a frozen GOVPARAMS proposal parses at apply time -/
theorem FrozOK.major {k : String} {p : Proposal} (h : FrozOK k p) (hty : p.optType = PROPOSAL_GOVPARAMS)
    {m : VoteOpt} (hm : p.major = some m) : m.parsedA.isSome = true :=
  h.1 hty m (h.2 m hm)

/-- **the invariant**: all three components (committed versions, consensus view, mempool view) of both ledgers -/
structure OptsParse (s : St) : Prop where
  props : LedAll PropOK s.props
  fprops : LedAll FrozOK s.fprops

/-! ### options under voting, punishing, snapshot and sorting -/

theorem OptsP.zipIdx_map {l : List VoteOpt} (h : OptsP l) (f : VoteOpt × Nat → VoteOpt)
    (hf : ∀ x, (f x).parsedA = x.1.parsedA) : OptsP (l.zipIdx.map f) := by
  intro o' ho'
  obtain ⟨x, hx, rfl⟩ := List.mem_map.mp ho'
  obtain ⟨o, i⟩ := x
  rw [hf]
  exact h o (List.fst_mem_of_mem_zipIdx hx)

theorem doVote_optType (p : Proposal) (a : Hex) (c : Int) : (p.doVote a c).optType = p.optType := by
  unfold Proposal.doVote
  split <;> rfl

theorem doVote_optsP {p : Proposal} (h : OptsP p.options) (a : Hex) (c : Int) : OptsP (p.doVote a c).options := by
  unfold Proposal.doVote
  split
  · exact h
  · rename_i v _
    simp only []
    have h1 : OptsP (if v.choice ≥ 0 then p.options.zipIdx.map (fun (o, i) =>
        if (i : Int) = v.choice then { o with votes := o.votes - v.power } else o) else p.options) := by
      split
      · apply h.zipIdx_map
        intro x; obtain ⟨o, i⟩ := x; simp only []; split <;> rfl
      · exact h
    split
    · apply h1.zipIdx_map
      intro x; obtain ⟨o, i⟩ := x; simp only []; split <;> rfl
    · exact h1

theorem doPunish_optType (p : Proposal) (a : Hex) (r : Int) : (p.doPunish a r).1.optType = p.optType := by
  unfold Proposal.doPunish
  split
  · rfl
  · simp only []
    repeat' split
    all_goals simp [doVote_optType]

theorem doPunish_optsP {p : Proposal} (h : OptsP p.options) (a : Hex) (r : Int) : OptsP (p.doPunish a r).1.options := by
  unfold Proposal.doPunish
  split
  · exact h
  · rename_i v _
    have h1 : OptsP (if v.choice ≥ 0 then p.doVote a (-1) else p).options := by
      split
      · exact doVote_optsP h a (-1)
      · exact h
    simp only []
    split
    · exact h1
    · split
      · apply doVote_optsP; exact doVote_optsP h a (-1)
      · exact h

theorem doPunish_propOK (k : String) (p : Proposal) (a : Hex) (r : Int) (h : PropOK k p) : PropOK k (p.doPunish a r).1 := by
  intro hty
  rw [doPunish_optType] at hty
  exact doPunish_optsP (h hty) a r

theorem snapshot_optsP {opts : List VoteOpt} (h : OptsP opts) (s : St) (tx : TxIn) (a b c d : Int) :
    OptsP (snapshotProposal s tx a b c d opts).options := by
  intro o' ho'
  have : o' ∈ opts.map (fun o => { o with votes := 0 }) := ho'
  obtain ⟨o, ho, rfl⟩ := List.mem_map.mp this
  exact h o ho

theorem mem_sortOptions {os : List VoteOpt} {o : VoteOpt} : o ∈ sortOptions os ↔ o ∈ os :=
  (List.mergeSort_perm _ _).mem_iff

theorem sortOptions_optsP {os : List VoteOpt} (h : OptsP os) : OptsP (sortOptions os) :=
  fun o ho => h o (mem_sortOptions.mp ho)

/-! ### validation: the repaired check -/

/-- a GOVPARAMS proposal payload that passes `validateProposal` has an apply-time parse for every option -/
theorem validateProposal_parse {s s1 : St} {e : Bool} {h : Int} {tx : TxIn} (hv : validateProposal s e h tx = .ok s1)
    {msg : Hex} {start period applying optType : Int} {opts : List VoteOpt}
    (hp : tx.payload = .proposal msg start period applying optType opts) (hty : optType = PROPOSAL_GOVPARAMS) :
    OptsP opts := by
  unfold validateProposal at hv
  rw [hp] at hv
  simp only [bind, Except.bind, pure, Except.pure, throw, throwThe, MonadExceptOf.throw] at hv
  split at hv
  · cases hv
  split at hv
  · cases hv
  split at hv
  · cases hv
  split at hv
  · cases hv
  split at hv
  · cases hv
  split at hv
  · cases hv
  rename_i hparse
  intro o ho
  simp only [not_and, Bool.not_eq_true] at hparse
  have := hparse hty
  rw [List.any_eq_false] at this
  have h3 := this o ho
  cases hpa : o.parsedA with
  | none => simp [hpa] at h3
  | some _ => rfl

/-- the same at the level of `handleTx`, either path: a TRX_PROPOSAL answered with code 0 -/
theorem proposal_success_parse {s : St} {e : Bool} {h : Int} {tx : TxIn} (htype : tx.type = TRX_PROPOSAL)
    (hc : (handleTx s e h tx).2.code = 0)
    {msg : Hex} {start period applying optType : Int} {opts : List VoteOpt}
    (hp : tx.payload = .proposal msg start period applying optType opts) (hty : optType = PROPOSAL_GOVPARAMS) :
    OptsP opts := by
  obtain ⟨_, sender, s1, s2, g, _, hval, _, _⟩ := handleTx_success hc
  rw [validateTrx_proposal _ _ _ _ _ _ htype] at hval
  obtain ⟨_, _, hvp⟩ := bind_chain_ok hval
  exact validateProposal_parse hvp hp hty

/-! ### transactions -/

/-- any transaction on either path keeps the open-proposal predicate, in all views -/
theorem handleTx_props (s : St) (e : Bool) (ht : Int) (tx : TxIn) (hp : LedAll PropOK s.props) :
    LedAll PropOK (handleTx s e ht tx).1.props := by
  by_cases hc : (handleTx s e ht tx).2.code = 0
  · by_cases h1 : tx.type = TRX_PROPOSAL
    · obtain ⟨msg, start, period, applying, optType, opts, acc, hprops⟩ := proposal_successW h1 hc
      rw [hprops]
      refine hp.set _ _ _ ?_
      intro hty
      exact snapshot_optsP (proposal_success_parse h1 hc acc.payload hty) s tx _ _ _ _
    by_cases h2 : tx.type = TRX_VOTING
    · obtain ⟨hash, choice, p, acc, hprops⟩ := voting_success h2 hc
      rw [hprops]
      refine hp.set _ _ _ ?_
      intro hty
      rw [doVote_optType] at hty
      exact doVote_optsP (hp.get acc.found hty) tx.from_ choice
    · have := (handleTx_frame s e ht tx).2.2.1 ⟨h1, h2⟩
      unfold FrP at this; rw [this]; exact hp
  · rw [handleTx_props_fail s e ht tx hc]; exact hp

theorem handleTx_optsParse (s : St) (e : Bool) (ht : Int) (tx : TxIn) (hs : OptsParse s) :
    OptsParse (handleTx s e ht tx).1 := by
  obtain ⟨_, f2, _⟩ := (handleTx_frame s e ht tx).1
  exact ⟨handleTx_props s e ht tx hs.props, by rw [f2]; exact hs.fprops⟩

theorem OptsParse.withBlk {s : St} (hs : OptsParse s) (b : Option BlockCtx) : OptsParse { s with blk := b } :=
  ⟨hs.props, hs.fprops⟩

theorem deliverTx_optsParse (s : St) (tx : TxIn) (hs : OptsParse s) : OptsParse (deliverTx s tx).1 := by
  unfold deliverTx
  split
  · exact hs
  · rename_i b hb
    have := handleTx_optsParse s true b.height tx hs
    generalize handleTx s true b.height tx = res at this
    obtain ⟨s', o⟩ := res
    simp only [] at this ⊢
    split
    · exact this
    · split
      · exact this.withBlk _
      · exact this

theorem checkTx_optsParse (s : St) (tx : TxIn) (hs : OptsParse s) : OptsParse (checkTx s tx).1 :=
  handleTx_optsParse s false (s.lastHeight + 1) tx hs

end Rigo.C09A
