/-
  C11 helpers (9): every stake created by a successful staking transaction is, at every later state,
  bonded, or unbonding, or refunded, or was forfeited by a slashing BeginBlock (`Forfeited`).
-/
import RigoProofs.C11Fwd

namespace Rigo
open Delegatee

/-- the slashing ratio in force never exceeds 100 % (governance can set any value; with more than
    100 % slashing would produce negative powers) — checked at every prefix of the history -/
def SlashRatioSane (g : Genesis) (ops : List Op) : Prop :=
  ∀ n, n ≤ ops.length → (exec (initChain g) (ops.take n)).active.slashRatio ≤ 100

instance (g : Genesis) (ops : List Op) : Decidable (SlashRatioSane g ops) := by
  unfold SlashRatioSane; exact Nat.decidableBallLE _ _

/-- genesis validators have non-negative power -/
def GenesisPowersOK (g : Genesis) : Prop := ∀ v ∈ g.vals, 0 ≤ v.2.2

instance (g : Genesis) : Decidable (GenesisPowersOK g) := by unfold GenesisPowersOK; infer_instance

theorem SlashRatioSane.snoc {g : Genesis} {ops : List Op} {op : Op} (h : SlashRatioSane g (ops ++ [op])) :
    SlashRatioSane g ops ∧ (exec (initChain g) ops).active.slashRatio ≤ 100 := by
  constructor
  · intro n hn
    have := h n (by simp; omega)
    rwa [List.take_append_of_le_length hn] at this
  · have := h ops.length (by simp)
    rwa [List.take_left'] at this
    rfl

theorem genesis_nonneg {g : Genesis} (hg : GenesisPowersOK g) : PowersNonneg (genesisCore g) := by
  refine ⟨?_, by intro m hm; simp [genesisCore] at hm⟩
  intro k d hk st hst
  obtain ⟨v, hv, rfl⟩ := genesis_dfin_values g k d hk
  simp [genesisDeleg, Delegatee.addStake] at hst
  subst hst
  exact hg v hv

theorem genesis_noNz (g : Genesis) : NoNzBeforeCommit (genesisCore g) := by
  intro _ _ k hk
  rintro ⟨kd, d, st, h1, h2, h3⟩
  obtain ⟨v, _, rfl⟩ := genesis_dfin_values g kd d h1
  simp [genesisDeleg, Delegatee.addStake] at h2
  subst h2
  exact hk h3.symm

theorem history_nonneg {g : Genesis} (hg : GenesisPowersOK g) :
    ∀ ops, (∀ op ∈ ops, op.isInit = false) → SlashRatioSane g ops → PowersNonneg (exec (initChain g) ops).core := by
  apply list_snoc_induction
  · intro _ _; rw [exec_nil, initChain_core]; exact genesis_nonneg hg
  · intro ops op ih h hs
    obtain ⟨hs0, hr⟩ := hs.snoc
    rw [exec_snoc]
    exact (step_core _ op (h op (by simp))).nonneg hr (ih (fun o ho => h o (by simp [ho])) hs0)

theorem history_noNz (g : Genesis) :
    ∀ ops, (∀ op ∈ ops, op.isInit = false) → NoNzBeforeCommit (exec (initChain g) ops).core := by
  apply list_snoc_induction
  · intro _; rw [exec_nil, initChain_core]; exact genesis_noNz g
  · intro ops op ih h
    rw [exec_snoc]
    exact (step_core _ op (h op (by simp))).noNz (ih (fun o ho => h o (by simp [ho])))

/-- a successful staking transaction leaves its stake bonded -/
theorem stakedBy_cases (s : St) (op : Op) :
    stakedBy s op = [] ∨ ∃ tx, op = .deliver tx ∧ stakedBy s op = [tx.hash] ∧
      BondedKey (step s op).1.core (ledgerKey tx.hash) := by
  cases op with
  | deliver tx =>
    by_cases hc : tx.type = TRX_STAKING ∧ (deliverTx s tx).2.tx.map (·.code) = some 0
    · right
      refine ⟨tx, rfl, by simp only [stakedBy, hc, and_self, if_true], ?_⟩
      obtain ⟨hty, hcode⟩ := hc
      cases hb : s.blk with
      | none =>
        exfalso
        unfold deliverTx at hcode; rw [hb] at hcode; simp at hcode
      | some b =>
        rw [deliverTx_out hb] at hcode
        simp only [Option.map_some, Option.some.injEq] at hcode
        have hh : s.core.height = some b.height := by simp [St.core, hb]
        rcases handleTx_core s b.height tx with ⟨_, h⟩ | ⟨_, _, _, _, d, power, _, _, hcore⟩ | ⟨_, h, _⟩
        · exact absurd hty (h hcode).1
        · show BondedKey (deliverTx s tx).1.core _
          rw [deliverTx_fst_core hb (by rw [hcore]; exact hh), hcore]
          exact ⟨ledgerKey d.addr, d.addStake (newStake tx power b.height), newStake tx power b.height,
            by simp, by simp [Delegatee.addStake], rfl⟩
        · rw [hty] at h; exact absurd h (by decide)
    · exact Or.inl (by simp only [stakedBy, hc, if_false])
  | init g => exact Or.inl rfl
  | begin_ h => exact Or.inl rfl
  | check tx => exact Or.inl rfl
  | end_ => exact Or.inl rfl
  | commit => exact Or.inl rfl
  | restart => exact Or.inl rfl

/-- ghost predicate over the history: at some BeginBlock of the history, the evidence named the
    delegatee holding the stake with key `k` and the stake's slashed amount rounded to 0, so the
    slashing removed the stake altogether -/
def Forfeited (g : Genesis) (ops : List Op) (k : String) : Prop :=
  ∃ pre h post, ops = pre ++ .begin_ h :: post ∧
    ForfeitPath h { (exec (initChain g) pre).core with height := some h.height }
      (exec (initChain g) (pre ++ [.begin_ h])).core k

theorem Forfeited.snoc {g : Genesis} {ops : List Op} {k : String} (h : Forfeited g ops k) (op : Op) :
    Forfeited g (ops ++ [op]) k := by
  obtain ⟨pre, hd, post, rfl, hp⟩ := h
  exact ⟨pre, hd, post ++ [op], by simp, hp⟩

theorem present_or_forfeited {g : Genesis} (hg : GenesisOK g) (hgp : GenesisPowersOK g) :
    ∀ ops, History ops → ∀ p, phaseRun .idle ops = some p → UniqueStakeKeys g ops → SlashRatioSane g ops →
      ∀ k ∈ usedKeys g ops,
        BondedKey (exec (initChain g) ops).core k ∨ (exec (initChain g) ops).core.ffin[k]? ≠ none ∨
        Logged (exec (initChain g) ops).core k ∨ Forfeited g ops k := by
  apply list_snoc_induction
  · intro _ _ _ _ _ k hk; simp [usedKeys, stakedLog] at hk
  · intro ops op ih hist p' hp' hu hs k hk
    obtain ⟨h1, h2, h3⟩ := hist.snoc
    obtain ⟨hs0, _⟩ := hs.snoc
    rw [phaseRun_snoc] at hp'
    cases hq : phaseRun .idle ops with
    | none => rw [hq] at hp'; cases hp'
    | some p =>
      rw [hq] at hp'
      simp only [Option.bind_some] at hp'
      have hU : usedKeys g (ops ++ [op]) = usedKeys g ops ++ (stakedBy (exec (initChain g) ops) op).map ledgerKey := by
        simp [usedKeys, stakedLog_snoc]
      have hu' := hu
      unfold UniqueStakeKeys at hu'
      rw [hU] at hu' hk
      have hu0 : UniqueStakeKeys g ops := by
        unfold UniqueStakeKeys
        exact hu'.sublist (List.Sublist.cons_cons _ (List.sublist_append_left _ _))
      have hnoinit : ∀ o ∈ ops, o.isInit = false := fun o ho => (h1 o ho).1
      have hl := history_life hg ops h1 p hq hu0
      have hd := history_delegsOK hg ops h1
      have hf := history_frozenOK g ops hnoinit
      have hnn := (history_nonneg hgp ops hnoinit hs0).1
      have hj := history_noNz g ops hnoinit
      have hstep := step_core (exec (initChain g) ops) op h2
      rw [exec_snoc]
      simp only [List.mem_append] at hk
      rcases hk with hk | hk
      · have hkz : k ≠ zeroKey := by
          intro he
          exact (List.nodup_cons.mp hu').1 (by rw [← he]; exact List.mem_append_left _ hk)
        rcases ih h1 p hq hu0 hs0 k hk with hb | hb | hb | hb
        · obtain ⟨kd, d, st, a1, a2, a3⟩ := hb
          rcases hstep.forward hl hd hnn hj hp' hkz ⟨d, st, a1, a2, a3⟩ with ⟨d', st', b1, b2, b3⟩ | hb | ⟨h, rfl, hb⟩
          · exact Or.inl ⟨kd, d', st', b1, b2, b3⟩
          · exact Or.inr (Or.inl hb)
          · refine Or.inr (Or.inr (Or.inr ⟨ops, h, [], rfl, ?_⟩))
            rw [exec_snoc]; exact hb
        · cases hst : (exec (initChain g) ops).core.ffin[k]? with
          | none => exact absurd hst hb
          | some st =>
            rcases hstep.ffin_stable hl hd hf hp' hkz hst with h4 | ⟨_, ht, _, _, _, h8, h9⟩
            · exact Or.inr (Or.inl (by rw [h4]; simp))
            · refine Or.inr (Or.inr (Or.inl ⟨refundEntry st ht, ?_, ?_⟩))
              · rw [h8]
                have : refundEntry st ht ∈ (refundBatch (exec (initChain g) ops).core ht).filter (fun e => ledgerKey e.1 == k) := by
                  rw [h9]; simp
                exact List.mem_append_right _ (List.mem_filter.mp this).1
              · have : refundEntry st ht ∈ (refundBatch (exec (initChain g) ops).core ht).filter (fun e => ledgerKey e.1 == k) := by
                  rw [h9]; simp
                simpa using (List.mem_filter.mp this).2
        · obtain ⟨e, he, hek⟩ := hb
          refine Or.inr (Or.inr (Or.inl ⟨e, ?_, hek⟩))
          rcases hstep.refunds with h4 | ⟨_, ht, _, h4⟩
          · rw [h4]; exact he
          · rw [h4]; exact List.mem_append_left _ he
        · exact Or.inr (Or.inr (Or.inr (hb.snoc op)))
      · rcases stakedBy_cases (exec (initChain g) ops) op with h0 | ⟨tx, rfl, h4, h5⟩
        · rw [h0] at hk; simp at hk
        · rw [h4] at hk
          simp at hk
          subst hk
          exact Or.inl h5

end Rigo
