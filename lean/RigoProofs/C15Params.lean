/-
  C15: reachable-state invariants of the governance core (frozen proposals carry a majority option and
  are closed; the parameter ledger mirrors active / pending; heights) and the theorems built on them.
-/
import RigoProofs.C15EndBlock
import RigoProofs.Reach

namespace Rigo.C15
open Rigo

/-! ### InitChain -/

/-- what the genesis folds leave alone -/
def IFr (s s' : St) : Prop := Fr s s' ∧ FrR s s' ∧ FrP s s'
theorem IFr.refl (s : St) : IFr s s := ⟨Fr.refl s, FrR.refl s, FrP.refl s⟩
theorem IFr.trans {a b c : St} (h1 : IFr a b) (h2 : IFr b c) : IFr a c :=
  ⟨h1.1.trans h2.1, h1.2.1.trans h2.2.1, h1.2.2.trans h2.2.2⟩
theorem IFr.of_frAll {s s' : St} (h : FrAll s s') : IFr s s' := ⟨h.1, h.2.1, h.2.2.1⟩

theorem foldl_ifr {β : Type} (f : St → β → St) (hf : ∀ acc x, IFr acc (f acc x)) (l : List β) (s : St) :
    IFr s (l.foldl f s) := by
  induction l generalizing s with
  | nil => exact IFr.refl s
  | cons a l ih => exact (hf s a).trans (ih _)

/-- the state before the genesis holders / validators are written -/
def initBase (g : Genesis) : St :=
  { ({ chainId := g.chainId, active := g.params } : St) with
    params := ({} : Led Params).set true zeroHash g.params }

theorem initChain_ifr (g : Genesis) : IFr (initBase g) (initChain g) := by
  unfold initChain
  simp only []
  refine IFr.trans (foldl_ifr _ ?_ g.holders _) (foldl_ifr _ ?_ g.vals _)
  · intro acc x; exact IFr.of_frAll (setAcct_frAll _ _ _)
  · intro acc x
    refine (IFr.of_frAll (findOrNewAcct_frAll acc true x.2.1)).trans ?_
    simp [IFr, Fr, FrR, FrP]

/-! ### the invariant -/

/-- frozen proposals: majority option recorded, voting window over -/
def FrozenP (s : St) : String → Proposal → Prop := fun _ p => FrozenOK p ∧ p.end_ ≤ s.lastHeight

/-- the parameter ledger mirrors the active / pending parameters (where it has an entry) -/
def ParamsW (s : St) : Prop :=
  (∀ p, s.params.committed[zeroHash]? = some p → p = s.active) ∧
  (∀ p, s.params.fin[zeroHash]? = some p → p = s.pending.getD s.active)

/-- ledger version = last committed height; an open block is the next one -/
def HeightInv (s : St) : Prop :=
  (s.params.hist.length : Int) = s.lastHeight ∧ ∀ b, s.blk = some b → b.height = s.lastHeight + 1

structure GovCore (s : St) : Prop where
  frozen : LedAll (FrozenP s) s.fprops
  paramsW : ParamsW s
  heights : HeightInv s

theorem committed_snoc {α : Type} (l : Led α) : l.commit.committed = l.fin := by
  simp [Led.commit, Led.committed]

theorem govCore_init (g : Genesis) : GovCore (initChain g) := by
  obtain ⟨hfr, _, _⟩ := initChain_ifr g
  obtain ⟨e1, e2, e3, e4, _, _, e7, e8, _⟩ := hfr
  refine ⟨?_, ⟨?_, ?_⟩, ⟨?_, ?_⟩⟩
  · rw [e2]; exact LedAll.empty _
  · intro p hp; rw [e1] at hp; simp [initBase, Led.committed, Led.set] at hp
  · intro p hp; rw [e1] at hp; rw [e3, e4]
    simp [initBase, Led.set] at hp; simp [initBase, hp]
  · rw [e1, e8]; simp [initBase, Led.set]
  · intro b hb; rw [e7] at hb; simp [initBase] at hb

theorem frozenP_congr {s s' : St} (h : s'.lastHeight = s.lastHeight) : FrozenP s' = FrozenP s := by
  unfold FrozenP; rw [h]

/-- frame used by BeginBlock / DeliverTx / CheckTx: the governance core is untouched, the block
    context keeps its height -/
theorem govCore_of_frame {s s' : St} (hs : GovCore s) (hp : s'.params = s.params) (hf : s'.fprops = s.fprops)
    (ha : s'.active = s.active) (hpe : s'.pending = s.pending) (hl : s'.lastHeight = s.lastHeight)
    (hb : ∀ b, s'.blk = some b → b.height = s.lastHeight + 1) : GovCore s' := by
  refine ⟨?_, ?_, ?_⟩
  · rw [frozenP_congr hl, hf]; exact hs.frozen
  · unfold ParamsW; rw [hp, ha, hpe]; exact hs.paramsW
  · unfold HeightInv; rw [hp, hl]; exact ⟨hs.heights.1, hb⟩

theorem deliverTx_frame (s : St) (tx : TxIn) :
    Fr s { (deliverTx s tx).1 with blk := s.blk } ∧
    (∀ b, (deliverTx s tx).1.blk = some b → ∃ b0, s.blk = some b0 ∧ b.height = b0.height) ∧
    (tx.type ≠ TRX_WITHDRAW → FrR s (deliverTx s tx).1) ∧
    (tx.type ≠ TRX_PROPOSAL ∧ tx.type ≠ TRX_VOTING → FrP s (deliverTx s tx).1) ∧
    (tx.type ≠ TRX_STAKING ∧ tx.type ≠ TRX_UNSTAKING → FrD s (deliverTx s tx).1) := by
  unfold deliverTx
  split
  · rename_i hb
    refine ⟨by simp [Fr], ?_, fun _ => FrR.refl s, fun _ => FrP.refl s, fun _ => FrD.refl s⟩
    intro b h; rw [hb] at h; cases h
  · rename_i b0 hb
    have hfr := handleTx_frame s true b0.height tx
    generalize handleTx s true b0.height tx = res at hfr
    obtain ⟨s', o⟩ := res
    obtain ⟨f1, f2, f3, f4⟩ := hfr
    simp only [] at f1 f2 f3 f4 ⊢
    have hblk : s'.blk = some b0 := by rw [f1.2.2.2.2.2.2.1, hb]
    split
    · refine ⟨by unfold Fr at *; simp_all, ?_, f2, f3, f4⟩
      intro b h; exact ⟨b0, hb, by rw [hblk] at h; cases h; rfl⟩
    · split
      · refine ⟨by unfold Fr at *; simp_all, ?_, ?_, ?_, ?_⟩
        · intro b h; simp only [Option.some.injEq] at h; subst h; exact ⟨b0, hb, rfl⟩
        · intro h; have := f2 h; unfold FrR at *; simp_all
        · intro h; have := f3 h; unfold FrP at *; simp_all
        · intro h; have := f4 h; unfold FrD at *; simp_all
      · refine ⟨by unfold Fr at *; simp_all, ?_, f2, f3, f4⟩
        intro b h; exact ⟨b0, hb, by rw [hblk] at h; cases h; rfl⟩

theorem govCore_step {s : St} (hs : GovCore s) (op : Op) (hop : op.isInit = false) : GovCore (step s op).1 := by
  cases op with
  | init g => simp [Op.isInit] at hop
  | begin_ h =>
    show GovCore (beginBlock s h).1
    obtain ⟨e1, e2, e3, e4, _, e6, _⟩ := beginBlock_bfr s h
    refine govCore_of_frame hs e1 e2 e3 e4 e6 ?_
    intro b hb
    rcases beginBlock_blk s h with hk | ⟨hh, hk⟩
    · rw [hk] at hb; exact hs.heights.2 b hb
    · rw [hk] at hb; cases hb; exact hh
  | deliver tx =>
    show GovCore (deliverTx s tx).1
    obtain ⟨f, hb, _⟩ := deliverTx_frame s tx
    obtain ⟨e1, e2, e3, e4, _, _, _, e8, _⟩ := f
    refine govCore_of_frame hs e1 e2 e3 e4 e8 ?_
    intro b h
    obtain ⟨b0, hb0, hh⟩ := hb b h
    rw [hh]; exact hs.heights.2 b0 hb0
  | check tx =>
    show GovCore (checkTx s tx).1
    obtain ⟨e1, e2, e3, e4, _, _, e7, e8, _⟩ := (handleTx_frame s false (s.lastHeight + 1) tx).1
    refine govCore_of_frame hs e1 e2 e3 e4 e8 ?_
    intro b h
    have : (checkTx s tx).1.blk = s.blk := e7
    rw [this] at h; exact hs.heights.2 b h
  | end_ =>
    show GovCore (endBlock s).1
    have hP : ∀ b, s.blk = some b → ∀ (k : String) (p : Proposal) (top : VoteOpt), p.end_ < b.height → top.votes ≥ p.majority →
        (sortOptions p.options).head? = some top →
        FrozenP s k { p with options := sortOptions p.options, major := some top } := by
      intro b hb k p top hend hv hhead
      have := hs.heights.2 b hb
      exact ⟨⟨top, rfl, hv, hhead⟩, by show p.end_ ≤ s.lastHeight; omega⟩
    obtain ⟨ea, el, eb, eh, ef, ec⟩ := endBlock_spec s (FrozenP s) hP hs.frozen
    refine ⟨?_, ?_, ?_⟩
    · rw [frozenP_congr el]; exact ef
    · have hcomm : (endBlock s).1.params.committed = s.params.committed := by unfold Led.committed; rw [eh]
      unfold ParamsW
      rw [hcomm, ea]
      refine ⟨hs.paramsW.1, ?_⟩
      rcases ec with ⟨c1, c2⟩ | ⟨b, np, _, _, c2, c3⟩
      · rw [c1, c2]; exact hs.paramsW.2
      · intro p hp; rw [c3] at hp; simp at hp; rw [c2]; exact hp.symm
    · unfold HeightInv; rw [eh, el, eb]; exact hs.heights
  | commit =>
    show GovCore (commit s).1
    unfold commit
    split
    · exact hs
    · rename_i b hb
      have hh := hs.heights.2 b hb
      refine ⟨?_, ⟨?_, ?_⟩, ⟨?_, ?_⟩⟩
      · refine LedAll.commit ?_
        obtain ⟨a1, a2, a3⟩ := hs.frozen
        have mono : ∀ (k : String) (p : Proposal), FrozenP s k p → FrozenOK p ∧ p.end_ ≤ b.height := by
          intro k p ⟨x, y⟩; exact ⟨x, by omega⟩
        exact ⟨fun k v h => mono k v (a1 k v h), fun k v h => mono k v (a2 k v h),
          fun m hm k v h => mono k v (a3 m hm k v h)⟩
      · intro p hp
        simp only [committed_snoc] at hp
        exact hs.paramsW.2 p hp
      · intro p hp
        simp only [Led.commit] at hp
        simpa using hs.paramsW.2 p hp
      · simp only [Led.commit, List.length_append, List.length_singleton]
        have := hs.heights.1
        omega
      · intro b' hb'; cases hb'
  | restart =>
    show GovCore (restart s)
    have hact : (s.params.reopen.committed[zeroHash]?).getD s.active = s.active := by
      have : s.params.reopen.committed = s.params.committed := rfl
      rw [this]
      cases hc : s.params.committed[zeroHash]? with
      | none => rfl
      | some p => simp [hs.paramsW.1 p hc]
    refine ⟨?_, ⟨?_, ?_⟩, ⟨?_, ?_⟩⟩
    · exact hs.frozen.reopen
    · intro p hp
      show p = (s.params.reopen.committed[zeroHash]?).getD s.active
      rw [hact]; exact hs.paramsW.1 p hp
    · intro p hp
      show p = Option.getD none ((s.params.reopen.committed[zeroHash]?).getD s.active)
      rw [hact]; exact hs.paramsW.1 p hp
    · exact hs.heights.1
    · intro b hb; cases hb

theorem govCore_reachable {g : Genesis} {s : St} (h : Reachable g s) : GovCore s :=
  Reachable.induction (fun s => GovCore s) (govCore_init g) (fun s op _ hs hop => govCore_step hs op hop) h

end Rigo.C15
