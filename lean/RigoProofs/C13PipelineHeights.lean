/-
  C13 / pipeline (2): in a well-phased run without panic answers the `k`-th block is block `k`:
  after `n` EndBlock calls the last committed height is `n` (or `n − 1` between EndBlock and Commit), and
  a block is open between BeginBlock and Commit.  Plus the shape of a well-phased prefix that is inside a block.
-/
import RigoProofs.C13PipelineDefs
import RigoProofs.C19Query

open Std

namespace Rigo.C13P
open Rigo Rigo.TM Rigo.C19

/-! ### `phaseRun` and `NoPanic` over concatenations -/

theorem phaseRun_append (p : Phase) (a b : List Op) :
    phaseRun p (a ++ b) = (phaseRun p a).bind (fun p' => phaseRun p' b) := by
  induction a generalizing p with
  | nil => rfl
  | cons op a ih =>
    simp only [List.cons_append, phaseRun]
    cases phaseStep p op with
    | none => rfl
    | some p' => exact ih p'

theorem phaseRun_split {p q : Phase} {a b : List Op} (h : phaseRun p (a ++ b) = some q) :
    ∃ m, phaseRun p a = some m ∧ phaseRun m b = some q := by
  rw [phaseRun_append] at h
  cases hm : phaseRun p a with
  | none => rw [hm] at h; cases h
  | some m => rw [hm] at h; exact ⟨m, rfl, h⟩

theorem phaseRun_cons {p q : Phase} {op : Op} {b : List Op} (h : phaseRun p (op :: b) = some q) :
    ∃ m, phaseStep p op = some m ∧ phaseRun m b = some q := by
  simp only [phaseRun] at h
  cases hm : phaseStep p op with
  | none => rw [hm] at h; cases h
  | some m => rw [hm] at h; exact ⟨m, rfl, h⟩

theorem phaseStep_notInit {p p' : Phase} {op : Op} (h : phaseStep p op = some p') : op.isInit = false := by
  cases op <;> first | rfl | (cases p <;> cases h)

theorem phaseRun_notInit {p q : Phase} {ops : List Op} (h : phaseRun p ops = some q) : ∀ op ∈ ops, op.isInit = false := by
  induction ops generalizing p with
  | nil => intro op ho; cases ho
  | cons o ops ih =>
    obtain ⟨m, h1, h2⟩ := phaseRun_cons h
    intro op ho
    rcases List.mem_cons.mp ho with rfl | ho
    · exact phaseStep_notInit h1
    · exact ih h2 op ho

/-- no call of a run from `s` answered with a panic -/
def NoPanicFrom (s : St) (ops : List Op) : Prop := ∀ o ∈ (run s ops).2, o.panic = ""

theorem noPanic_iff (g : Genesis) (ops : List Op) : NoPanic g ops ↔ NoPanicFrom (initChain g) ops := Iff.rfl

theorem NoPanicFrom.append {s : St} {a b : List Op} (h : NoPanicFrom s (a ++ b)) :
    NoPanicFrom s a ∧ NoPanicFrom (exec s a) b := by
  unfold NoPanicFrom at h ⊢
  rw [run_append] at h
  exact ⟨fun o ho => h o (List.mem_append_left _ ho), fun o ho => h o (List.mem_append_right _ ho)⟩

theorem NoPanicFrom.cons {s : St} {op : Op} {b : List Op} (h : NoPanicFrom s (op :: b)) :
    (step s op).2.panic = "" ∧ NoPanicFrom (step s op).1 b := by
  unfold NoPanicFrom at h ⊢
  simp only [run] at h
  exact ⟨h _ (by simp), fun o ho => h o (by simp [ho])⟩

/-! ### BeginBlock opens block `lastHeight + 1` or answers with a panic -/

theorem beginBlock_badHeight (s : St) (h : Header) (hne : h.height ≠ s.lastHeight + 1) :
    (beginBlock s h).2.panic = "BeginBlock: error block height" := by
  unfold beginBlock; rw [if_pos hne]

theorem beginBlock_height_of_noPanic (s : St) (h : Header) (hp : (beginBlock s h).2.panic = "") :
    h.height = s.lastHeight + 1 := by
  apply Classical.byContradiction
  intro hne
  rw [beginBlock_badHeight s h hne] at hp
  exact absurd hp (by decide)

theorem beginBlock_open (s : St) (h : Header) (hh : h.height = s.lastHeight + 1) :
    frame (beginBlock s h).1 = { frame s with blkHeight := some h.height } := by
  rcases beginBlock_frame s h with hf | ⟨_, hf⟩
  · -- the refusal branch is impossible: re-run the case split of `beginBlock_frame`
    rw [C06.beginBlock_eq] at hf ⊢
    rw [if_neg (by simp [hh])] at hf ⊢
    have hg := bbGov_frame s h
    repeat' split
    all_goals first
      | exact hg
      | (rw [bbStake_frame, bbElig_frame]; exact hg)
      | (rw [bbVotes_frame ‹C06.bbVotes _ _ _ = Res.ok _›, bbStake_frame, bbElig_frame]; exact hg)
  · exact hf

/-! ### heights along a well-phased run -/

/-- after `n` EndBlock calls: the last committed height, and whether a block is open -/
def HInv (p : Phase) (s : St) (n : Nat) : Prop :=
  match p with
  | .idle => s.lastHeight = n
  | .inBlock => s.lastHeight = n ∧ s.blk.isSome = true
  | .ended => s.lastHeight + 1 = n ∧ s.blk.isSome = true

theorem frame_lastHeight {s s' : St} (h : frame s' = frame s) : s'.lastHeight = s.lastHeight :=
  congrArg Frame.lastHeight h

theorem frame_blk {s s' : St} (h : frame s' = frame s) : s'.blk.isSome = s.blk.isSome := by
  have := congrArg Frame.blkHeight h
  simp only [frame] at this
  cases hs : s.blk <;> cases hs' : s'.blk <;> simp_all

theorem hinv_step {s : St} {op : Op} {p p' : Phase} {n : Nat} (hv : VersionsAgree s)
    (hp : phaseStep p op = some p') (hnp : (step s op).2.panic = "") (hi : HInv p s n) :
    HInv p' (step s op).1 (n + if isEnd op then 1 else 0) := by
  cases op with
  | init g => cases p <;> cases hp
  | begin_ hd =>
    cases p <;> simp only [phaseStep, Option.some.injEq, reduceCtorEq] at hp
    subst hp
    have hh := beginBlock_height_of_noPanic s hd hnp
    have hf := beginBlock_open s hd hh
    have h1 : (beginBlock s hd).1.lastHeight = s.lastHeight := congrArg Frame.lastHeight hf
    have h2 : (beginBlock s hd).1.blk.isSome = true := by
      have := congrArg Frame.blkHeight hf
      simp only [frame] at this
      cases hb : (beginBlock s hd).1.blk with
      | none => rw [hb] at this; cases this
      | some b => rfl
    simp only [HInv, step, isEnd] at hi ⊢
    exact ⟨by rw [h1, hi]; simp, h2⟩
  | deliver tx =>
    cases p <;> simp only [phaseStep, Option.some.injEq, reduceCtorEq] at hp
    subst hp
    have hf := deliverTx_frame s tx
    simp only [HInv, step, isEnd] at hi ⊢
    exact ⟨by rw [frame_lastHeight hf, hi.1]; simp, by rw [frame_blk hf]; exact hi.2⟩
  | check tx =>
    have hf := checkTx_frame s tx
    have e : p' = p := by cases p <;> simp only [phaseStep, Option.some.injEq] at hp <;> exact hp.symm
    subst e
    cases p' <;> simp only [HInv, step, isEnd] at hi ⊢
    · rw [frame_lastHeight hf, hi]; simp
    · exact ⟨by rw [frame_lastHeight hf, hi.1]; simp, by rw [frame_blk hf]; exact hi.2⟩
    · exact ⟨by rw [frame_lastHeight hf, hi.1]; simp, by rw [frame_blk hf]; exact hi.2⟩
  | end_ =>
    cases p <;> simp only [phaseStep, Option.some.injEq, reduceCtorEq] at hp
    subst hp
    have hf := endBlock_frame s
    simp only [HInv, step, isEnd] at hi ⊢
    exact ⟨by rw [frame_lastHeight hf, hi.1]; simp, by rw [frame_blk hf]; exact hi.2⟩
  | commit =>
    cases p <;> simp only [phaseStep, Option.some.injEq, reduceCtorEq] at hp
    subst hp
    simp only [HInv, step, isEnd] at hi ⊢
    obtain ⟨h1, h2⟩ := hi
    rcases commit_frame s with ⟨hb, _⟩ | ⟨b, hb, hc⟩
    · rw [hb] at h2; cases h2
    · have hl : (commit s).1.lastHeight = b.height := congrArg Frame.lastHeight hc
      have hbh : b.height = s.lastHeight + 1 := hv.2.2.2.2.2.2.2.2 b.height (by simp [frame, hb])
      rw [hl, hbh, h1]; simp
  | restart =>
    cases p <;> simp only [phaseStep, Option.some.injEq, reduceCtorEq] at hp
    subst hp
    simp only [HInv, step, isEnd] at hi ⊢
    show (restart s).lastHeight = _
    rw [show (restart s).lastHeight = s.lastHeight from rfl, hi]; simp

theorem hinv_run (ops : List Op) {s : St} {p q : Phase} {n : Nat} (hv : VersionsAgree s)
    (hp : phaseRun p ops = some q) (hnp : NoPanicFrom s ops) (hi : HInv p s n) :
    HInv q (exec s ops) (n + endCount ops) := by
  induction ops generalizing s p n with
  | nil => simp only [phaseRun, Option.some.injEq] at hp; subst hp; simpa [endCount, exec_nil] using hi
  | cons op ops ih =>
    obtain ⟨m, h1, h2⟩ := phaseRun_cons hp
    obtain ⟨n1, n2⟩ := hnp.cons
    have hs := hinv_step hv h1 n1 hi
    have hv' := step_frameOK s op (phaseStep_notInit h1) hv
    have := ih hv' h2 n2 hs
    rw [exec_cons]
    have hc : endCount (op :: ops) = (if isEnd op then 1 else 0) + endCount ops := by
      cases h : isEnd op
      · rw [endCount_cons_other _ _ h]; simp
      · have : op = .end_ := by cases op <;> simp_all [isEnd]
        subst this; rw [endCount_cons_end]; simp; omega
    rw [hc, ← Nat.add_assoc]; exact this

/-- **heights from genesis**: after a well-phased, panic-free run with `n` EndBlock calls -/
theorem heights (g : Genesis) (ops : List Op) (q : Phase) (hp : phaseRun .idle ops = some q) (hnp : NoPanic g ops) :
    HInv q (exec (initChain g) ops) (endCount ops) := by
  have hv : VersionsAgree (initChain g) := versions_agree_of_reachable (Reachable.start g)
  have h0 : HInv .idle (initChain g) 0 := by
    have := congrArg Frame.lastHeight (initChain_frame g)
    simp only [frame] at this
    simp [HInv, this]
  simpa using hinv_run ops hv hp hnp h0

/-! ### the shape of a well-phased prefix that ends inside a block -/

def isTx : Op → Bool
  | .deliver _ => true
  | .check _ => true
  | _ => false

theorem inBlock_shape : ∀ (ops : List Op), phaseRun .idle ops = some .inBlock →
    ∃ p0 hd mid, ops = p0 ++ .begin_ hd :: mid ∧ phaseRun .idle p0 = some .idle ∧ ∀ op ∈ mid, isTx op = true := by
  apply list_snoc_induction
  · intro h; cases h
  · intro l op ih h
    obtain ⟨m, h1, h2⟩ := phaseRun_split h
    obtain ⟨m', h3, h4⟩ := phaseRun_cons h2
    simp only [phaseRun, Option.some.injEq] at h4
    subst h4
    cases op with
    | init g => cases m <;> cases h3
    | begin_ hd =>
      cases m <;> simp only [phaseStep, reduceCtorEq] at h3
      exact ⟨l, hd, [], rfl, h1, by intro op ho; cases ho⟩
    | deliver tx =>
      cases m <;> simp only [phaseStep, reduceCtorEq] at h3
      obtain ⟨p0, hd, mid, e, hp0, hmid⟩ := ih h1
      refine ⟨p0, hd, mid ++ [.deliver tx], by rw [e]; simp, hp0, ?_⟩
      intro op ho
      rcases List.mem_append.mp ho with ho | ho
      · exact hmid op ho
      · simp at ho; subst ho; rfl
    | check tx =>
      have e : m = .inBlock := by cases m <;> simp only [phaseStep, Option.some.injEq] at h3 <;> first | rfl | cases h3
      subst e
      obtain ⟨p0, hd, mid, e, hp0, hmid⟩ := ih h1
      refine ⟨p0, hd, mid ++ [.check tx], by rw [e]; simp, hp0, ?_⟩
      intro op ho
      rcases List.mem_append.mp ho with ho | ho
      · exact hmid op ho
      · simp at ho; subst ho; rfl
    | end_ => cases m <;> simp only [phaseStep, Option.some.injEq, reduceCtorEq] at h3
    | commit => cases m <;> simp only [phaseStep, Option.some.injEq, reduceCtorEq] at h3
    | restart => cases m <;> simp only [phaseStep, Option.some.injEq, reduceCtorEq] at h3

/-- what precedes an `end_` in a well-phased run is inside a block -/
theorem before_end_inBlock {p1 p2 : List Op} {q : Phase} (h : phaseRun .idle (p1 ++ .end_ :: p2) = some q) :
    phaseRun .idle p1 = some .inBlock := by
  obtain ⟨m, h1, h2⟩ := phaseRun_split h
  obtain ⟨m', h3, _⟩ := phaseRun_cons h2
  cases m <;> simp only [phaseStep, reduceCtorEq] at h3
  exact h1

/-- what precedes a `begin_` in a well-phased run is between blocks -/
theorem before_begin_idle {p1 p2 : List Op} {hd : Header} {q : Phase} (h : phaseRun .idle (p1 ++ .begin_ hd :: p2) = some q) :
    phaseRun .idle p1 = some .idle := by
  obtain ⟨m, h1, h2⟩ := phaseRun_split h
  obtain ⟨m', h3, _⟩ := phaseRun_cons h2
  cases m <;> simp only [phaseStep, reduceCtorEq] at h3
  exact h1

theorem endCount_txs (mid : List Op) (h : ∀ op ∈ mid, isTx op = true) : endCount mid = 0 := by
  induction mid with
  | nil => rfl
  | cons op mid ih =>
    have h1 := h op (by simp)
    have : isEnd op = false := by cases op <;> simp_all [isTx, isEnd]
    rw [endCount_cons_other _ _ this]
    exact ih (fun o ho => h o (List.mem_cons_of_mem _ ho))

end Rigo.C13P
