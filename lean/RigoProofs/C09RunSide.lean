/-
  C09 (run level), part 1: the side invariant `Aux` — limiter sanity, block-context height, reward
  record heights, non-negative committed delegatee powers — and how one transaction moves the two
  state components it talks about (`limiter`, `rewards`).
-/
import RigoProofs.C09NoPanic
import RigoProofs.C15EndBlock
open Std
set_option linter.unusedSimpArgs false
set_option linter.unusedVariables false

namespace Rigo.C09R
open Rigo

/-! ### the limiter -/

/-- the limiter is nil, or has a non-negative base power and a positive validator count -/
def LimOK (l : Limiter) : Prop := l.isNil = true ∨ (0 ≤ l.base ∧ 1 ≤ l.maxCnt)

theorem check_keeps {l l' : Limiter} {a : Hex} {t d : Int} {ap : Bool} (h : l.check a t d ap = .ok l') :
    l'.isNil = l.isNil ∧ l'.base = l.base ∧ l'.maxCnt = l.maxCnt := by
  unfold Limiter.check at h
  simp only [] at h
  repeat' split at h
  all_goals first
    | (injection h with h; subst h; exact ⟨rfl, rfl, rfl⟩)
    | (simp at h; done)
    | skip
  all_goals
    rename_i hx
    repeat' split at hx
    all_goals first | (simp at hx; done) | skip
    all_goals (injection hx with hx; subst hx; cases h)

theorem LimOK_check {l l' : Limiter} {a : Hex} {t d : Int} {ap : Bool} (hl : LimOK l)
    (h : l.check a t d ap = .ok l') : LimOK l' := by
  obtain ⟨e1, e2, e3⟩ := check_keeps h
  unfold LimOK; rw [e1, e2, e3]; exact hl

theorem limit_lim {s s1 : St} {e : Bool} {a : Hex} {t d : Int} (hl : LimOK s.limiter)
    (h : s.limit e a t d = .ok s1) : LimOK s1.limiter ∧ s1.rewards = s.rewards := by
  unfold St.limit at h
  split at h
  · split at h
    · rename_i hc; cases h; exact ⟨LimOK_check hl hc, rfl⟩
    · cases h
    · cases h
  · cases h; exact ⟨hl, rfl⟩

theorem validateStaking_lim {s s1 : St} {e : Bool} {tx : TxIn} (hl : LimOK s.limiter)
    (h : validateStaking s e tx = .ok s1) : LimOK s1.limiter ∧ s1.rewards = s.rewards := by
  unfold validateStaking at h
  simp only [bind, Except.bind, pure, Except.pure, throw, throwThe, MonadExceptOf.throw] at h
  repeat' split at h
  all_goals first | cases h | exact limit_lim hl h

theorem validateUnstaking_lim {s s1 : St} {e : Bool} {tx : TxIn} (hl : LimOK s.limiter)
    (h : validateUnstaking s e tx = .ok s1) : LimOK s1.limiter ∧ s1.rewards = s.rewards := by
  unfold validateUnstaking at h
  simp only [bind, Except.bind, pure, Except.pure, throw, throwThe, MonadExceptOf.throw] at h
  repeat' split at h
  all_goals first | cases h | exact limit_lim hl h

theorem validateTrx_lim {s s1 : St} {e : Bool} {ht : Int} {tx : TxIn} {snd rcv : Account} (hl : LimOK s.limiter)
    (h : validateTrx s e ht tx snd rcv = .ok s1) : LimOK s1.limiter ∧ s1.rewards = s.rewards := by
  unfold validateTrx at h
  simp only [bind, Except.bind, pure, Except.pure, throw, throwThe, MonadExceptOf.throw] at h
  split at h
  · cases h
  split at h
  · cases h
  split at h
  · rw [validateProposal_eq h]; exact ⟨hl, rfl⟩
  split at h
  · rw [validateVoting_eq h]; exact ⟨hl, rfl⟩
  split at h
  · cases h; exact ⟨hl, rfl⟩
  split at h
  · repeat' split at h
    all_goals first | cases h | skip
    all_goals exact ⟨hl, rfl⟩
  split at h
  · exact validateStaking_lim hl h
  split at h
  · exact validateUnstaking_lim hl h
  split at h
  · rw [validateWithdraw_eq h]; exact ⟨hl, rfl⟩
  split at h
  · rw [validateEvm_eq h]; exact ⟨hl, rfl⟩
  · cases h

/-! ### the two components a transaction body may touch -/

/-- the limiter and the reward ledger -/
structure Side where
  limiter : Limiter
  rewards : Led Reward

def side (s : St) : Side := { limiter := s.limiter, rewards := s.rewards }

@[simp] theorem side_setAcct (s : St) (e : Bool) (a : Account) : side (s.setAcct e a) = side s := rfl

@[simp] theorem side_findOrNewAcct (s : St) (e : Bool) (a : Hex) : side (s.findOrNewAcct e a).1 = side s := by
  unfold St.findOrNewAcct; split <;> rfl

theorem reward_side {s s1 : St} {e : Bool} {a : Hex} {amt : Nat} (h : s.reward e a amt = some s1) :
    side s1 = side s := by
  unfold St.reward at h
  split at h
  · cases h
  · split at h
    · cases h
    · cases h; rfl

theorem execTransfer_side {s : St} {e : Bool} {tx : TxIn} {r : RunOut} (h : execTransfer s e tx = .ok r) :
    side r.st = side s := by
  unfold execTransfer at h
  simp only [bind, Except.bind, pure, Except.pure, throw, throwThe, MonadExceptOf.throw] at h
  repeat' split at h
  all_goals first | cases h | skip
  all_goals rfl

theorem execSetDoc_side {s : St} {e : Bool} {tx : TxIn} {r : RunOut} (h : execSetDoc s e tx = .ok r) :
    side r.st = side s := by
  unfold execSetDoc at h
  simp only [bind, Except.bind, pure, Except.pure, throw, throwThe, MonadExceptOf.throw] at h
  repeat' split at h
  all_goals first | cases h | skip
  all_goals rfl

theorem execStaking_side {s : St} {e : Bool} {ht : Int} {tx : TxIn} {r : RunOut} (h : execStaking s e ht tx = .ok r) :
    side r.st = side s := by
  unfold execStaking at h
  simp only [bind, Except.bind, pure, Except.pure, throw, throwThe, MonadExceptOf.throw] at h
  repeat' split at h
  all_goals first | cases h | skip
  all_goals rfl

theorem execUnstaking_side {s : St} {e : Bool} {ht : Int} {tx : TxIn} {r : RunOut} (h : execUnstaking s e ht tx = .ok r) :
    side r.st = side s := by
  unfold execUnstaking at h
  simp only [bind, Except.bind, pure, Except.pure, throw, throwThe, MonadExceptOf.throw] at h
  repeat' split at h
  all_goals first | cases h | skip
  all_goals rfl

theorem execProposal_side {s : St} {e : Bool} {tx : TxIn} {r : RunOut} (h : execProposal s e tx = .ok r) :
    side r.st = side s := by
  unfold execProposal at h
  simp only [bind, Except.bind, pure, Except.pure, throw, throwThe, MonadExceptOf.throw] at h
  repeat' split at h
  all_goals first | cases h | skip
  all_goals rfl

theorem execVoting_side {s : St} {e : Bool} {tx : TxIn} {r : RunOut} (h : execVoting s e tx = .ok r) :
    side r.st = side s := by
  unfold execVoting at h
  simp only [bind, Except.bind, pure, Except.pure, throw, throwThe, MonadExceptOf.throw] at h
  repeat' split at h
  all_goals first | cases h | skip
  all_goals rfl

theorem foldl_side {β : Type} (f : St → β → St) (hf : ∀ acc x, side (f acc x) = side acc) (l : List β) (s : St) :
    side (l.foldl f s) = side s := by
  induction l generalizing s with
  | nil => rfl
  | cons a l ih => rw [List.foldl_cons, ih, hf]

theorem execEvm_side {s : St} {e : Bool} {tx : TxIn} {r : RunOut} (h : execEvm s e tx = .ok r) : side r.st = side s := by
  unfold execEvm at h
  simp only [bind, Except.bind, pure, Except.pure, throw, throwThe, MonadExceptOf.throw] at h
  have hA : ∀ (l : List Hex) (s : St), side (l.foldl (fun acc a => (acc.findOrNewAcct true a).1) s) = side s :=
    fun l s => foldl_side _ (fun acc a => side_findOrNewAcct acc true a) l s
  repeat' split at h
  all_goals first | cases h | skip
  · rfl
  · exact hA _ _
  · show side (St.setAcct _ true _) = _
    rw [side_setAcct, foldl_side _ ?_ _ _, hA]
    intro acc x; rw [side_setAcct, side_findOrNewAcct]
  · show side (List.foldl _ _ _) = _
    rw [foldl_side _ ?_ _ _, hA]
    intro acc x; rw [side_setAcct, side_findOrNewAcct]

theorem ofRes_ok1 {α : Type} {x : Res α} {v : α} (h : ofRes x = .ok v) : x = .ok v := by
  cases x with
  | ok a => simp [ofRes] at h; rw [h]
  | panic p => simp [ofRes] at h

/-- a reward record written by a successful `withdraw` / `issue` carries the current height -/
theorem withdraw_height {w w' : Reward} {r : Nat} {h : Int} (hw : w.withdraw r h = .ok w') : w'.height = h := by
  unfold Reward.withdraw at hw
  split at hw
  · cases hw; rfl
  · split at hw
    · cases hw; assumption
    · cases hw

theorem issue_height {w w' : Reward} {r : Nat} {h : Int} (hw : w.issue r h = .ok w') : w'.height = h := by
  unfold Reward.issue at hw
  split at hw
  · cases hw; rfl
  · split at hw
    · cases hw; assumption
    · cases hw

/-- the reward ledger after a step on path `e` at height `H`: unchanged, or one record of height `H`
    written into the view of that path under the key of its own address -/
def RewStep (e : Bool) (H : Int) (l l' : Led Reward) : Prop :=
  l' = l ∨ ∃ (r : Reward), l' = l.set e (ledgerKey r.addr) r ∧ r.height = H

theorem execWithdraw_side {s : St} {e : Bool} {ht : Int} {tx : TxIn} {r : RunOut} (h : execWithdraw s e ht tx = .ok r) :
    r.st.limiter = s.limiter ∧ RewStep e ht s.rewards r.st.rewards := by
  unfold execWithdraw at h
  simp only [bind, Except.bind, pure, Except.pure, throw, throwThe, MonadExceptOf.throw] at h
  repeat' split at h
  all_goals first | cases h | skip
  all_goals
    rename_i hw _ _ hr _
    have hs := reward_side hr
    have hh := withdraw_height (ofRes_ok1 hw)
    have h1 : (side _).limiter = (side _).limiter := congrArg Side.limiter hs
    have h2 : (side _).rewards = (side _).rewards := congrArg Side.rewards hs
    exact ⟨h1, Or.inr ⟨_, h2, hh⟩⟩


theorem RewStep.refl (e : Bool) (H : Int) (l : Led Reward) : RewStep e H l l := Or.inl rfl

theorem side_eq {s s' : St} (h : side s' = side s) : s'.limiter = s.limiter ∧ s'.rewards = s.rewards :=
  ⟨congrArg Side.limiter h, congrArg Side.rewards h⟩

theorem execBody_side {s : St} {e : Bool} {ht : Int} {tx : TxIn} {rc : Account} {r : RunOut}
    (h : execBody s e ht tx rc = .ok r) : r.st.limiter = s.limiter ∧ RewStep e ht s.rewards r.st.rewards := by
  have key : ∀ {s' : St}, side s' = side s → s'.limiter = s.limiter ∧ RewStep e ht s.rewards s'.rewards := by
    intro s' hs; obtain ⟨a, b⟩ := side_eq hs; exact ⟨a, Or.inl b⟩
  unfold execBody at h
  split at h
  · exact key (execEvm_side h)
  split at h
  · exact key (execProposal_side h)
  split at h
  · exact key (execVoting_side h)
  split at h
  · split at h
    · exact key (execEvm_side h)
    · exact key (execTransfer_side h)
  split at h
  · exact key (execSetDoc_side h)
  split at h
  · exact key (execStaking_side h)
  split at h
  · exact key (execUnstaking_side h)
  split at h
  · exact execWithdraw_side h
  · cases h

theorem runTrx_side {s : St} {e : Bool} {ht : Int} {tx : TxIn} {rc : Account} {s2 : St} {g : Nat} {k : Option String}
    (h : runTrx s e ht tx rc = .ok (s2, g, k)) : s2.limiter = s.limiter ∧ RewStep e ht s.rewards s2.rewards := by
  rw [runTrx_eq] at h
  simp only [bind, Except.bind] at h
  split at h
  · cases h
  · rename_i r hr
    have hb := execBody_side hr
    rcases runTail_cases h with ⟨_, _, h1⟩ | ⟨_, h1⟩ | ⟨_, _, _, _, sender, a1, _, _, h1⟩
    · rw [h1]; exact hb
    · rw [h1]; exact hb
    · rw [h1]; exact hb

/-- one transaction on path `e` at height `ht`: the limiter stays sane, the reward ledger is unchanged
    or receives one record of height `ht` in the view of path `e` -/
theorem handleTx_side (s : St) (e : Bool) (ht : Int) (tx : TxIn) (hl : LimOK s.limiter) :
    LimOK (handleTx s e ht tx).1.limiter ∧ RewStep e ht s.rewards (handleTx s e ht tx).1.rewards := by
  by_cases hlen : byteLen tx.to = 20
  case neg => rw [handleTx_badlen_fst hlen]; exact ⟨hl, Or.inl rfl⟩
  rw [handleTx_goodlen hlen]
  unfold handleTxOld
  simp only []
  split
  · exact ⟨hl, Or.inl rfl⟩
  split
  · exact ⟨hl, Or.inl rfl⟩
  · have h0 := side_eq (side_findOrNewAcct s e tx.to)
    have hl0 : LimOK (s.findOrNewAcct e tx.to).1.limiter := by rw [h0.1]; exact hl
    split
    · exact ⟨hl0, Or.inl h0.2⟩
    · exact ⟨hl0, Or.inl h0.2⟩
    · rename_i s1 hv
      obtain ⟨hl1, hr1⟩ := validateTrx_lim hl0 hv
      split
      · exact ⟨hl1, Or.inl (hr1.trans h0.2)⟩
      · exact ⟨hl1, Or.inl (hr1.trans h0.2)⟩
      · rename_i hr
        obtain ⟨a, b⟩ := runTrx_side hr
        rw [hr1, h0.2] at b
        exact ⟨by rw [a]; exact hl1, b⟩
      · rename_i hr
        obtain ⟨a, b⟩ := runTrx_side hr
        rw [hr1, h0.2] at b
        exact ⟨by rw [a]; exact hl1, b⟩

end Rigo.C09R
