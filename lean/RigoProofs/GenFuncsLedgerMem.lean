/-
  Round 4: the ledger package itself.  `memItems` (ledger/mem_items.go), generated definitions
  `Rigo.Gen.memItems_*` against the overlay operations of the hand model `Rigo.Ledger.Impl`
  (Rigo/Ledger/Impl.lean).  The generated code works on the model's own `MemItems` structure
  (funcs.json maps `ledger.memItems` to `Rigo.Ledger.MemItems`), so the statements are equalities.
-/
import RigoProofs.GenFuncsBase

set_option linter.unusedSimpArgs false
set_option linter.unusedVariables false

namespace Rigo.GenEq
open Rigo Rigo.Gen Rigo.Ledger

/-! ### map facts -/

theorem lmap_erase_absent (m : Map) (k : Key) (h : m[k]? = none) : m.erase k = m := by
  apply Std.ExtTreeMap.ext_getElem?
  intro a
  by_cases c : k = a
  · subst c; simp [h]
  · grind

/-- `appendRemovedKey` -/
theorem memItems_appendRemovedKey_eq (m : MemItems) (k : Key) :
    memItems_appendRemovedKey m k = .ok { m with removed := m.removed ++ [k] } := rfl

/-- mirror of the search loop of `isRemovedKey` -/
theorem isRemoved_loop (key : Key) (ks : List Key) :
    (forIn ks ((none, ()) : Option Bool × Unit) (fun k (r : Option Bool × Unit) =>
        if key = k then (pure (ForInStep.done (some true, ())) : G _)
        else pure (ForInStep.yield (none, ()))) : G _) =
      .ok (if key ∈ ks then some true else none, ()) := by
  induction ks with
  | nil => rfl
  | cons k ks ih =>
    rw [List.forIn_cons]
    by_cases c : key = k
    · simp [c, pure, Except.pure, bind, Except.bind]
    · simp only [c, if_false, pure, Except.pure, bind, Except.bind] at ih ⊢
      rw [ih]
      simp [c]

/-- `isRemovedKey(k)`: membership in the removed list -/
theorem memItems_isRemovedKey_eq (m : MemItems) (k : Key) :
    memItems_isRemovedKey m k = .ok (decide (k ∈ m.removed)) := by
  unfold memItems_isRemovedKey
  dsimp only
  have := isRemoved_loop k m.removed
  simp only [pure, Except.pure, bind, Except.bind] at this ⊢
  rw [this]
  by_cases c : k ∈ m.removed <;> simp [c]

/-- `setGotItem(item)`: the item is cached under its own key -/
theorem memItems_setGotItem_eq (m : MemItems) (v : Val) (K : Val → Key) :
    memItems_setGotItem m (some v) K = .ok { m with got := m.got.insert (K v) v } := rfl

/-- `setUpdatedItem(item)` -/
theorem memItems_setUpdatedItem_eq (m : MemItems) (v : Val) (K : Val → Key) :
    memItems_setUpdatedItem m (some v) K = .ok { m with updated := m.updated.insert (K v) v } := rfl

/-- a nil item panics (`Key()` on nil) -/
theorem memItems_setGotItem_nil (m : MemItems) (K : Val → Key) : G.panics (memItems_setGotItem m none K) :=
  ⟨_, rfl⟩

/-- the two together are the model's `setIn` -/
theorem setIn_eq (m : MemItems) (v : Val) (K : Val → Key) :
    (memItems_setUpdatedItem m (some v) K >>= fun m' => memItems_setGotItem m' (some v) K) = .ok (Impl.setIn m (K v) v) := rfl

/-- `getGotItem(k)` -/
theorem memItems_getGotItem_eq (m : MemItems) (k : Key) :
    memItems_getGotItem m k = .ok (m.got[k]?, (m.got[k]?).isSome) := rfl

/-- `delGotItem(k)`: the cached item is dropped and returned -/
theorem memItems_delGotItem_eq (m : MemItems) (k : Key) :
    memItems_delGotItem m k = .ok ({ m with got := m.got.erase k }, m.got[k]?) := by
  unfold memItems_delGotItem
  dsimp only
  cases h : m.got[k]? with
  | none => simp [pure, Except.pure, lmap_erase_absent _ _ h]
  | some v => simp [pure, Except.pure]

/-- `delUpdatedItem(k)` -/
theorem memItems_delUpdatedItem_eq (m : MemItems) (k : Key) :
    memItems_delUpdatedItem m k = .ok ({ m with updated := m.updated.erase k }, m.updated[k]?) := by
  unfold memItems_delUpdatedItem
  dsimp only
  cases h : m.updated[k]? with
  | none => simp [pure, Except.pure, lmap_erase_absent _ _ h]
  | some v => simp [pure, Except.pure]

/-- the two together are the model's `cancelSetIn` -/
theorem cancelSetIn_eq (m : MemItems) (k : Key) :
    (memItems_delUpdatedItem m k >>= fun r => memItems_delGotItem r.1 k) =
      .ok (Impl.cancelSetIn m k, m.got[k]?) := by
  rw [memItems_delUpdatedItem_eq]
  simp only [bind, Except.bind]
  rw [memItems_delGotItem_eq]
  rfl

/-- `reset()` -/
theorem memItems_reset_eq (m : MemItems) : memItems_reset m = .ok MemItems.empty := rfl

/-! ### `delRemovedKey` -/

theorem gslice_nat {α : Type} (xs : List α) (a b : Nat) (h1 : a ≤ b) (h2 : b ≤ xs.length) :
    gslice xs (a : Int) (b : Int) = .ok ((xs.take b).drop a) := by
  unfold gslice
  have : ¬ ((a : Int) < 0 ∨ (b : Int) < (a : Int) ∨ (xs.length : Int) < (b : Int)) := by omega
  rw [if_neg this]; simp [pure, Except.pure]

/-- the loop of `delRemovedKey`, started after the prefix `pre` -/
theorem delRemoved_loop (k : Key) (m0 : MemItems) (ks pre : List Key) (i : Int)
    (hrem : m0.removed = pre ++ ks) (hi : i + 1 = (pre.length : Int)) :
    ∃ s, (forIn ks ((none, m0, i) : Option MemItems × MemItems × Int) (fun (key0 : Key) (__s : Option MemItems × MemItems × Int) =>
        if key0 = k then do
          let a ← gslice __s.snd.fst.removed 0 (__s.snd.snd + 1)
          let b ← gslice __s.snd.fst.removed (__s.snd.snd + 1 + 1) ↑__s.snd.fst.removed.length
          pure (ForInStep.done
            (some ({ got := __s.snd.fst.got, updated := __s.snd.fst.updated, removed := a ++ b } : MemItems),
              ({ got := __s.snd.fst.got, updated := __s.snd.fst.updated, removed := a ++ b } : MemItems),
              __s.snd.snd + 1))
        else pure (ForInStep.yield (none, __s.snd.fst, __s.snd.snd + 1))) : G (Option MemItems × MemItems × Int)) = .ok s ∧
      s.1.getD s.2.1 = { m0 with removed := pre ++ ks.erase k } := by
  induction ks generalizing pre i with
  | nil =>
    refine ⟨_, rfl, ?_⟩
    cases m0; simp at hrem; simp [hrem]
  | cons x ks ih =>
    rw [List.forIn_cons]
    by_cases c : x = k
    · subst c
      have e1 : gslice m0.removed 0 (i + 1) = .ok pre := by
        have := gslice_nat m0.removed 0 pre.length (by omega) (by rw [hrem]; simp)
        rw [hi]; simpa [hrem] using this
      have e2 : gslice m0.removed (i + 1 + 1) (m0.removed.length : Int) = .ok ks := by
        have := gslice_nat m0.removed (pre.length + 1) m0.removed.length (by rw [hrem]; simp) (by omega)
        rw [hi, show ((pre.length : Int) + 1) = ((pre.length + 1 : Nat) : Int) by simp, this]; simp only [hrem]
        have hl : (pre ++ x :: ks).length = pre.length + (ks.length + 1) := by simp
        have e : pre ++ x :: ks = (pre ++ [x]) ++ ks := by simp
        rw [List.take_length, e, List.drop_left' (by simp)]
      simp only [if_true, e1, e2, bind, Except.bind, pure, Except.pure]
      refine ⟨_, rfl, ?_⟩
      simp
    · have c' : (x == k) = false := by simp [c]
      simp only [c, if_false, bind, Except.bind, pure, Except.pure]
      obtain ⟨s, hs, hv⟩ := ih (pre ++ [x]) (i + 1) (by simp [hrem]) (by simp; omega)
      simp only [bind, Except.bind, pure, Except.pure] at hs
      refine ⟨s, hs, ?_⟩
      rw [hv]; simp [List.erase_cons, c']

/-- `delRemovedKey(k)`: the FIRST occurrence of the key is taken out of the removed list -/
theorem memItems_delRemovedKey_eq (m : MemItems) (k : Key) :
    memItems_delRemovedKey m k = .ok { m with removed := m.removed.erase k } := by
  unfold memItems_delRemovedKey
  dsimp only
  obtain ⟨s, hs, hv⟩ := delRemoved_loop k m m.removed [] (-1) rfl (by simp)
  simp only [List.nil_append] at hv
  rw [hs]
  simp only [bind, Except.bind, pure, Except.pure]
  rw [← hv]
  cases s.1 <;> rfl

/-! ### `refresh`: the updated items are merged into the got items, in ANY iteration order -/

/-- insertion of a list of entries -/
def insAll (l : List (Key × Val)) (g : Map) : Map := l.foldl (fun acc e => acc.insert e.1 e.2) g

theorem insAll_get (l : List (Key × Val)) (hd : l.Pairwise (fun a b => a.1 ≠ b.1)) (g : Map) (k : Key) :
    (insAll l g)[k]? = ((l.find? (fun e => e.1 == k)).map (·.2)).or g[k]? := by
  induction l generalizing g with
  | nil => simp [insAll]
  | cons e l ih =>
    have hd' := List.pairwise_cons.mp hd
    have := ih hd'.2 (g.insert e.1 e.2)
    simp only [insAll, List.foldl_cons] at this ⊢
    rw [this]
    by_cases c : e.1 = k
    · have hn : l.find? (fun e => e.1 == k) = none := by
        rw [List.find?_eq_none]
        intro a ha
        have := hd'.1 a ha
        simp; intro h; exact this (c.trans h.symm)
      simp [List.find?_cons, c, hn]
    · have c' : (e.1 == k) = false := by simp [c]
      simp only [List.find?_cons, c']
      congr 1
      grind

theorem find_of_mem (l : List (Key × Val)) (hd : l.Pairwise (fun a b => a.1 ≠ b.1)) (k : Key) (v : Val)
    (hm : (k, v) ∈ l) : (l.find? (fun e => e.1 == k)).map (·.2) = some v := by
  induction l with
  | nil => cases hm
  | cons e l ih =>
    have hd' := List.pairwise_cons.mp hd
    by_cases c : e.1 = k
    · simp only [List.find?_cons, c, beq_self_eq_true, Option.map_some]
      rcases List.mem_cons.mp hm with h | h
      · rw [← h]
      · exact absurd c (hd'.1 _ h)
    · have c' : (e.1 == k) = false := by simp [c]
      simp only [List.find?_cons, c']
      rcases List.mem_cons.mp hm with h | h
      · rw [← h] at c; exact absurd rfl c
      · exact ih hd'.2 h

theorem perm_find (u : Map) (l : List (Key × Val)) (hp : l.Perm u.toList) (k : Key) :
    (l.find? (fun e => e.1 == k)).map (·.2) = u[k]? ∧ l.Pairwise (fun a b => a.1 ≠ b.1) := by
  have hd0 : u.toList.Pairwise (fun a b => a.1 ≠ b.1) := by
    have := Std.ExtTreeMap.distinct_keys_toList (t := u)
    refine this.imp ?_
    intro a b h e
    apply h; rw [e]; exact Std.ReflCmp.compare_self
  have hd : l.Pairwise (fun a b => a.1 ≠ b.1) :=
    (List.Perm.pairwise_iff (fun h => Ne.symm h) hp).mpr hd0
  refine ⟨?_, hd⟩
  apply Option.ext
  intro v
  rw [← Std.ExtTreeMap.mem_toList_iff_getElem?_eq_some, ← hp.mem_iff]
  constructor
  · intro h
    rw [Option.map_eq_some_iff] at h
    obtain ⟨e, he, hv⟩ := h
    have hm := List.mem_of_find?_eq_some he
    have hk := List.find?_some he
    simp at hk
    rw [← hk, ← hv]; exact hm
  · intro hm
    exact find_of_mem l hd k v hm

/-- inserting the entries of `u` in any order gives the union -/
theorem insAll_perm (u g : Map) (l : List (Key × Val)) (hp : l.Perm u.toList) : insAll l g = g ∪ u := by
  apply Std.ExtTreeMap.ext_getElem?
  intro k
  obtain ⟨h1, h2⟩ := perm_find u l hp k
  rw [insAll_get l h2, h1, Std.ExtTreeMap.getElem?_union]

/-- `refresh()` = the model's `MemItems.refresh`, for every iteration order of the map -/
theorem memItems_refresh_eq (m : MemItems) (ord : MapOrder) : memItems_refresh m ord = .ok m.refresh := by
  unfold memItems_refresh
  dsimp only
  rw [forIn_eq_pure _ (fun l (s : MemItems) => { s with got := insAll l s.got })]
  · simp only [bind, Except.bind, pure, Except.pure, MemItems.refresh]
    rw [insAll_perm m.updated m.got _ (ord.perm _)]
  · intro s; rfl
  · intro x xs s
    simp [insAll, gderef, pure, Except.pure, bind, Except.bind]

/-! ### the key order of `Commit` -/

/-- `LedgerKeyList.Less(i, j)`: the key at `i` is GREATER than the key at `j` (descending order) -/
theorem LedgerKeyList_Less_eq (a b : Nat) :
    LedgerKeyList_Less [a, b] 1 0 = .ok (decide (a < b)) ∧ LedgerKeyList_Less [a, b] 0 1 = .ok (decide (b < a)) := by
  constructor
  · simp [LedgerKeyList_Less, gidx, cmpKey, pure, Except.pure, bind, Except.bind]
    by_cases h : b < a <;> by_cases h2 : b = a <;> simp [h, h2] <;> omega
  · simp [LedgerKeyList_Less, gidx, cmpKey, pure, Except.pure, bind, Except.bind]
    by_cases h : a < b <;> by_cases h2 : a = b <;> simp [h, h2] <;> omega

/-- every admissible sort orders the keys descending -/
theorem sortKeys_desc (srt : SortOf LedgerKeyList_Less) (xs : List Key) :
    (srt.sort xs).Pairwise (fun a b => b ≤ a) := by
  refine (srt.sorted xs).imp ?_
  intro a b h
  rw [(LedgerKeyList_Less_eq a b).1] at h
  simp at h; exact h

end Rigo.GenEq
