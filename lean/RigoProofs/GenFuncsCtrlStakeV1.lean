/-
  Round 3, stake controller, validation (ctrlers/stake/ctrler.go), part 1:
  getters, `IsValidator`, the outcome relation `StakeValidateMatches`, and the WITHDRAW and UNSTAKING
  branches of `(*StakeCtrler).ValidateTrx` against the model's `validateWithdraw` / `validateUnstaking`.
-/
import RigoProofs.GenFuncsCtrlBase

set_option linter.unusedSimpArgs false

namespace Rigo.GenEq
open Rigo Rigo.Gen

/-! ### getters and small wrappers -/

theorem Delegatee_GetSelfPower_eq (d : Delegatee) : Delegatee_GetSelfPower d = .ok d.self := rfl
theorem Delegatee_GetTotalPower_eq (d : Delegatee) : Delegatee_GetTotalPower d = .ok d.total := rfl
theorem AmountPerPower_eq : AmountPerPower = .ok amountPerPower := rfl

/-- `FindStake(hash)`: index and stake of the first stake with that hash, or `(-1, nil)` -/
theorem Delegatee_FindStake_eq (d : Delegatee) (hash : Hex) :
    Delegatee_FindStake d hash = .ok (match d.stakes.findIdx? (fun s => decide (hash = s.hash)) with
      | some k => ((k : Int), d.stakes[k]?)
      | none => (-1, none)) := by
  unfold Delegatee_FindStake
  rw [Delegatee_findStake_eq]
  rfl

/-- the stake component of `FindStake` is the model's `Delegatee.findStake` -/
theorem Delegatee_FindStake_snd (d : Delegatee) (hash : Hex) :
    (Delegatee_FindStake d hash).map (·.2) = .ok (d.findStake hash) := by
  have h := Delegatee_findStake_snd d hash
  unfold Delegatee_FindStake
  rw [Delegatee_findStake_eq] at h ⊢
  exact h

/-- `FindStake` as a value: some index, and the model's `findStake` -/
theorem Delegatee_FindStake_model (d : Delegatee) (hash : Hex) :
    ∃ i, Delegatee_FindStake d hash = .ok (i, d.findStake hash) := by
  have h := Delegatee_FindStake_snd d hash
  cases hf : Delegatee_FindStake d hash with
  | error e => rw [hf] at h; cases h
  | ok r =>
    rw [hf] at h
    simp only [Except.map, Except.ok.injEq] at h
    exact ⟨r.1, by rw [← h]⟩

/-- `IsValidator(addr)`: is `addr` the address of one of the last validators (model: `St.isValidator`) -/
theorem StakeCtrler_IsValidator_eq (c : StakeCtrler) (s : St) (addr : Hex) (h : c.lastValidators = s.lastVals) :
    StakeCtrler_IsValidator c addr = .ok (s.isValidator addr) := by
  unfold StakeCtrler_IsValidator St.isValidator
  rw [h]
  simp only [bytes_Compare_eq]
  generalize s.lastVals = vs
  induction vs with
  | nil => rfl
  | cons v vs ih =>
    simp only [List.forIn_cons, List.any_cons]
    by_cases hv : v.addr = addr
    · have : cmpBytes v.addr addr = 0 := (cmpBytes_eq_zero _ _).mpr hv
      simp only [bind, Except.bind, pure, Except.pure, this, if_true]; simp [hv]
    · have : ¬ cmpBytes v.addr addr = 0 := fun e => hv ((cmpBytes_eq_zero _ _).mp e)
      simp only [bind, Except.bind, pure, Except.pure, this, if_false] at ih ⊢
      rw [ih]; simp [hv]

/-! ### outcomes of `ValidateTrx` -/

/-- the Go error of each failure kind of the model's `validateStaking` / `validateUnstaking` /
    `validateWithdraw` (the label of the `xerrors` value; `selfratio` is a `fmt.Errorf` text) -/
def stakeVLabel (k : String) : Option String :=
  if k = "stakeamt" ∨ k = "minvalstake" ∨ k = "mindelstake" ∨ k = "wdamount" ∨ k = "noreward" then some "ErrInvalidTrx"
  else if k = "nodelegatee" then some "ErrNotFoundDelegatee"
  else if k = "selfratio" then some "not enough self power - validator: %v, self power: %v, total power: %v"
  else if k = "limiter" then some "ErrUpdatableStakeRatio"
  else if k = "notfound" then some "ErrNotFoundResult"
  else if k = "payloadparams" then some "ErrInvalidTrxPayloadParams"
  else if k = "nostake" ∨ k = "notowner" then some "ErrNotFoundStake"
  else if k = "payloadtype" then some "ErrInvalidTrxPayloadType"
  else if k = "unknowntype" then some "ErrUnknownTrxType"
  else none

/-! the labels, evaluated once (string comparisons are kept out of the big proofs) -/
@[simp] theorem stakeVLabel_stakeamt : stakeVLabel "stakeamt" = some "ErrInvalidTrx" := by simp [stakeVLabel]
@[simp] theorem stakeVLabel_minvalstake : stakeVLabel "minvalstake" = some "ErrInvalidTrx" := by simp [stakeVLabel]
@[simp] theorem stakeVLabel_mindelstake : stakeVLabel "mindelstake" = some "ErrInvalidTrx" := by simp [stakeVLabel]
@[simp] theorem stakeVLabel_wdamount : stakeVLabel "wdamount" = some "ErrInvalidTrx" := by simp [stakeVLabel]
@[simp] theorem stakeVLabel_noreward : stakeVLabel "noreward" = some "ErrInvalidTrx" := by simp [stakeVLabel]
@[simp] theorem stakeVLabel_nodelegatee : stakeVLabel "nodelegatee" = some "ErrNotFoundDelegatee" := by simp [stakeVLabel]
@[simp] theorem stakeVLabel_selfratio : stakeVLabel "selfratio" = some "not enough self power - validator: %v, self power: %v, total power: %v" := by simp [stakeVLabel]
@[simp] theorem stakeVLabel_limiter : stakeVLabel "limiter" = some "ErrUpdatableStakeRatio" := by simp [stakeVLabel]
@[simp] theorem stakeVLabel_notfound : stakeVLabel "notfound" = some "ErrNotFoundResult" := by simp [stakeVLabel]
@[simp] theorem stakeVLabel_payloadparams : stakeVLabel "payloadparams" = some "ErrInvalidTrxPayloadParams" := by simp [stakeVLabel]
@[simp] theorem stakeVLabel_nostake : stakeVLabel "nostake" = some "ErrNotFoundStake" := by simp [stakeVLabel]
@[simp] theorem stakeVLabel_notowner : stakeVLabel "notowner" = some "ErrNotFoundStake" := by simp [stakeVLabel]
@[simp] theorem stakeVLabel_payloadtype : stakeVLabel "payloadtype" = some "ErrInvalidTrxPayloadType" := by simp [stakeVLabel]
@[simp] theorem stakeVLabel_unknowntype : stakeVLabel "unknowntype" = some "ErrUnknownTrxType" := by simp [stakeVLabel]

/-- the generated result `g` of `ValidateTrx` on the controller `c` corresponds to the model's verdict:
    * accepted with new state `s'`: no error, and the new controller holds `s'` (only the limiter can differ);
    * refused with kind `k`: the Go error of that kind, and the controller is UNCHANGED;
    * model panic: the generated code panics. -/
def StakeValidateMatches (g : G (StakeCtrler × Option String)) (c : StakeCtrler) (step : Step St) : Prop :=
  match step with
  | .ok s' => ∃ c', g = .ok (c', none) ∧ StakeRel c' s'
  | .error (.err k) => g = .ok (c, stakeVLabel k)
  | .error (.panic _) => G.panics g

@[simp] theorem StakeValidateMatches_ok (g : G (StakeCtrler × Option String)) (c : StakeCtrler) (s' : St) :
    StakeValidateMatches g c (.ok s') ↔ ∃ c', g = .ok (c', none) ∧ StakeRel c' s' := Iff.rfl
@[simp] theorem StakeValidateMatches_err (g : G (StakeCtrler × Option String)) (c : StakeCtrler) (k : String) :
    StakeValidateMatches g c (.error (.err k)) ↔ g = .ok (c, stakeVLabel k) := Iff.rfl
@[simp] theorem StakeValidateMatches_panic (g : G (StakeCtrler × Option String)) (c : StakeCtrler) (w : String) :
    StakeValidateMatches g c (.error (.panic w)) ↔ G.panics g := Iff.rfl

/-- `Except.ok a >>= f` (substitution of a computed sub-result; used to cut the generated function down to
    the branch of the transaction type before the monad plumbing is unfolded) -/
theorem stakeV_ok_bind {α β : Type} (a : α) (f : α → G β) : (Except.ok a >>= f) = f a := rfl

theorem stakeV_sign256_ne_zero (a : Nat) : sign256 a ≠ 0 ↔ a ≠ 0 := by
  unfold sign256
  by_cases h0 : a = 0
  · simp [h0]
  · by_cases h1 : a ≥ two255 <;> simp [h0, h1]

/-! ### TRX_WITHDRAW -/

/-- `ValidateTrx`, case `TRX_WITHDRAW` = the model's `validateWithdraw`, check for check in the same
    order (amount must be 0, payload type, reward record of the sender in the view of the path,
    requested amount ≤ cumulated reward); the oracles and the sort are not consulted; no hypothesis. -/
theorem StakeCtrler_ValidateTrx_withdraw (c : StakeCtrler) (s : St) (exec : Bool) (tx : TxIn) (ctx : TrxContext)
    (mv md : Nat) (mr : Int) (srt : SortOf orderedPowerObj_Less) (hrel : StakeRel c s)
    (htx : ctx.tx = trxOf tx) (hex : ctx.exec = exec) (ht : tx.type = TRX_WITHDRAW) :
    StakeValidateMatches (Gen.StakeCtrler_ValidateTrx c ctx mv md mr srt) c (validateWithdraw s exec tx) := by
  unfold Gen.StakeCtrler_ValidateTrx validateWithdraw
  unfold TRX_WITHDRAW at ht
  simp only [htx, hex, Trx_GetType_eq, ht, stakeV_ok_bind, pure_bind, Int.reduceEq, if_true, if_false]
  simp only [hrel.rewards, ledOf_get, toLedgerKey_eq, stakeV_sign256_ne_zero, cmp256_pos]
  simp only [bind, Except.bind, pure, Except.pure, throw, throwThe, MonadExceptOf.throw]
  simp only [trxOf]
  by_cases h1 : tx.amount ≠ 0
  · cases exec <;> simp [h1]
  simp only [h1, if_false]
  obtain ⟨p, hp⟩ : ∃ p, tx.payload = p := ⟨_, rfl⟩
  cases p <;> simp only [hp, payOf, TrxPayload.asWithdraw, Option.isSome_none, Option.isSome_some, gderef,
    not_true, not_false_iff, Bool.false_eq_true, if_true, if_false, ite_self]
  all_goals try (simp; done)
  cases exec <;> simp only [Bool.false_eq_true, if_true, if_false]
  all_goals
    cases hr : s.rewards.get _ (ledgerKey tx.from_) with
    | none => simp
    | some rw =>
      rename_i req
      by_cases h2 : req > rw.cumulated
      · simp [h2, pure, Except.pure]
      · simp [h2, pure, Except.pure]
        exact hrel

/-! ### the limiter call at the end of the STAKING and UNSTAKING branches -/

/-- the model's verdict of the limiter as a validation step (`St.limit` with ≥ 3 validators) -/
def stakeV_limitStep (s : St) (v : Limiter.Verdict) : Step St :=
  match v with
  | .ok l => .ok { s with limiter := l }
  | .reject _ => .error (.err "limiter")
  | .panic site => .error (.panic site)

theorem stakeV_limit_eq (s : St) (exec : Bool) (a : Hex) (t diff : Int) :
    s.limit exec a t diff = if s.lastVals.length ≥ 3 then stakeV_limitStep s (s.limiter.check a t diff exec) else .ok s := by
  unfold St.limit stakeV_limitStep
  split
  · split <;> simp_all
  · rfl

/-- the end of the STAKING and UNSTAKING branches: the limiter's result is stored in the controller, an error
    of the limiter becomes `ErrUpdatableStakeRatio` -/
theorem stakeV_limiter_tail (c : StakeCtrler) (s : St) (hrel : StakeRel c s) (lim : G (StakeLimiter × Option String))
    (v : Limiter.Verdict) (hm : LimiterMatches lim c.stakeLimiter v) :
    StakeValidateMatches
      (lim >>= fun r =>
        if r.2.isSome = true then pure ({ c with stakeLimiter := r.1 }, some "ErrUpdatableStakeRatio")
        else pure ({ c with stakeLimiter := r.1 }, none)) c (stakeV_limitStep s v) := by
  cases v with
  | ok l =>
    obtain ⟨sl', e, ht⟩ := hm
    subst e
    refine ⟨{ c with stakeLimiter := sl' }, by simp [bind, Except.bind, pure, Except.pure], ?_⟩
    exact ⟨hrel.all, hrel.last, hrel.delegs, hrel.frozen, hrel.rewards, ht⟩
  | reject w =>
    obtain ⟨e, he⟩ := hm
    subst he
    simp [stakeV_limitStep, bind, Except.bind, pure, Except.pure]
  | panic w =>
    obtain ⟨e, he⟩ := hm
    subst he
    exact ⟨e, rfl⟩

theorem stakeV_hashLen_check (h : Hex) : (h = "" ∨ hexLen h ≠ 32) ↔ byteLen h ≠ 32 := by
  unfold hexLen
  constructor
  · rintro (e | e)
    · subst e; decide
    · omega
  · intro e; right; omega

/-! ### TRX_UNSTAKING -/

/-- `ValidateTrx`, case `TRX_UNSTAKING` = the model's `validateUnstaking`, check for check in the same order:
    delegatee of `tx.to` in the view of the path (`ErrNotFoundResult`), type assertion on the payload (panic),
    32-byte stake hash, the stake exists in the delegatee, the sender owns it, and — with at least 3 last
    validators — the limiter on `(delegatee, -stake.power)` (`CheckLimit` on DeliverTx, which records the
    change in the limiter, `EvaluateLimit` on CheckTx).  Only hypothesis: one limiter entry per address
    (`ObjsDistinct`, the hypothesis of the round-2 limiter theorems). -/
theorem StakeCtrler_ValidateTrx_unstaking (c : StakeCtrler) (s : St) (exec : Bool) (tx : TxIn) (ctx : TrxContext)
    (mv md : Nat) (mr : Int) (srt : SortOf orderedPowerObj_Less) (hrel : StakeRel c s)
    (hd : ObjsDistinct c.stakeLimiter)
    (htx : ctx.tx = trxOf tx) (hex : ctx.exec = exec) (ht : tx.type = TRX_UNSTAKING) :
    StakeValidateMatches (Gen.StakeCtrler_ValidateTrx c ctx mv md mr srt) c (validateUnstaking s exec tx) := by
  have hget : ∀ e k, c.delegateeLedger.get e k = s.delegs.get e k := by
    intro e k; rw [hrel.delegs]; simp
  have hlen : c.lastValidators.length = s.lastVals.length := by rw [hrel.last]
  unfold Gen.StakeCtrler_ValidateTrx validateUnstaking
  unfold TRX_UNSTAKING at ht
  simp only [htx, hex, Trx_GetType_eq, ht, stakeV_ok_bind, pure_bind, Int.reduceEq, if_true, if_false]
  simp only [hget, hlen, toLedgerKey_eq, HexBytes_Compare_eq, stakeV_ok_bind, stakeV_limit_eq, stakeV_hashLen_check]
  have htl := fun lim v => stakeV_limiter_tail c s hrel lim v
  obtain ⟨o, hg⟩ : ∃ o, s.delegs.get exec (ledgerKey tx.to) = o := ⟨_, rfl⟩
  cases exec <;> simp only [Bool.false_eq_true, if_true, if_false, pure_bind]
  all_goals
    simp only [trxOf, hg]
    cases o with
    | none => simp [pure, Except.pure, throw, throwThe, MonadExceptOf.throw]
    | some d =>
      simp only [gnotFound_some, Option.isSome_none, Bool.false_eq_true, if_false]
      obtain ⟨p, hp⟩ : ∃ p, tx.payload = p := ⟨_, rfl⟩
      cases p <;> simp only [hp, payOf, TrxPayload.asUnstaking, gassert]
      all_goals try (simp [bind, Except.bind, throw, throwThe, MonadExceptOf.throw]; done)
      rename_i hash
      simp only [pure_bind, gderef]
      by_cases h1 : byteLen hash ≠ 32
      · simp [h1, pure, Except.pure, throw, throwThe, MonadExceptOf.throw, bind, Except.bind]
      simp only [h1, if_false]
      obtain ⟨i, hi⟩ := Delegatee_FindStake_model d hash
      simp only [hi, stakeV_ok_bind]
      cases hf : d.findStake hash with
      | none => simp [pure, Except.pure, throw, throwThe, MonadExceptOf.throw]
      | some st =>
        simp only [Option.isNone_some, Bool.false_eq_true, if_false, pure_bind]
        by_cases h2 : tx.from_ = st.owner
        · have h2' : cmpBytes tx.from_ st.owner = 0 := (cmpBytes_eq_zero _ _).mpr h2
          simp only [h2', ne_eq, not_true_eq_false, if_false]
          simp only [h2, not_true_eq_false, if_false]
          by_cases h3 : s.lastVals.length ≥ 3
          · have h3' : (s.lastVals.length : Int) ≥ 3 := by omega
            have e : -1 * st.power = -st.power := by omega
            simp only [h3, h3', if_true, e]
            apply htl
            rw [← hrel.limiter]
            first
              | (have _hx : ctx.exec = false := hex
                 exact StakeLimiter_EvaluateLimit_eq c.stakeLimiter d (-st.power) srt hd)
              | exact StakeLimiter_CheckLimit_eq c.stakeLimiter d (-st.power) srt hd
          · have h3' : ¬ (s.lastVals.length : Int) ≥ 3 := by omega
            simp only [h3, h3', if_false]
            exact ⟨c, rfl, hrel⟩
        · have h2' : ¬ cmpBytes tx.from_ st.owner = 0 := fun e => h2 ((cmpBytes_eq_zero _ _).mp e)
          simp [h2', h2, pure, Except.pure, throw, throwThe, MonadExceptOf.throw, bind, Except.bind]

end Rigo.GenEq
