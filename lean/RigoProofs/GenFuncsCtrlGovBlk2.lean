/-
  Round 3, `GovCtrler.freezeProposals` (ctrlers/gov/ctrler.go) against the model's `Rigo.freezeProposals`
  (Rigo/Block.lean), outcome for outcome (`GovFreezeRel`):

  * model `.ok s'`  ↦  `.ok (govCtrlOf s', frozen, removed, none)` with `frozen` / `removed` the hashes of
    the expired proposals with / without a major option (`govFrozenOfList`, `govRemovedOfList`);
  * model panic "DelFinality of a proposal that is gone"  ↦  the Go function RETURNS `ErrNotFoundResult`;
  * model panic "proposal without options"  ↦  the Go function panics (index out of range).

  Hypotheses: `PropKeysOK` (Go deletes / freezes under `prop.Key()`, the model under the map key),
  `OpenNoMajor` (see `GovCtrler_freezeProposals_differs`), `OptionSortAgrees` (Go's `sort.Sort` is the
  abstract parameter `srt`; the model sorts with the stable `mergeSort`; `mergeSortOfOptions` satisfies it
  unconditionally: `GovCtrler_freezeProposals_eq_mergeSort`; see `GovCtrler_freezeProposals_differs_tie`).

  Both sides freeze the COMMITTED copy of the proposal (the item handed out by the iteration), not the
  version in the consensus view: a punishment (`doPunish`) applied in the same block is not in the
  frozen record.  Go and the model agree on this.
-/
import RigoProofs.GenFuncsCtrlGovBlk1

set_option linter.unusedSimpArgs false

namespace Rigo.GenEq
open Rigo Rigo.Gen

/-- the state of the loop of `freezeProposals`: controller, `frozen`, `removed`, the callback's error -/
abbrev GovFreezeSt := GovCtrler × List Hex × List Hex × Option String

/-- mirror of the loop of `freezeProposals` -/
def govFreezeL (h : Int) (srt : SortOf powerOrderVoteOptions_Less) : List GovProposal → GovFreezeSt → G GovFreezeSt
  | [], s => pure s
  | g :: gs, s =>
    if g.header.end_ < h then
      match s.1.proposalLedger.get true (ledgerKey g.header.hash) with
      | none => pure ({ s.1 with proposalLedger := s.1.proposalLedger.del true (ledgerKey g.header.hash) },
                      s.2.1, s.2.2.1, some "ErrNotFoundResult")
      | some _ =>
        match GovProposal_updateMajorOption g srt with
        | .error e => .error e
        | .ok r =>
          if r.2.isSome then
            govFreezeL h srt gs
              ({ s.1 with
                  proposalLedger := s.1.proposalLedger.del true (ledgerKey g.header.hash)
                  frozenLedger := s.1.frozenLedger.set true (ledgerKey r.1.header.hash) r.1 },
                s.2.1 ++ [r.1.header.hash], s.2.2.1, s.2.2.2)
          else
            govFreezeL h srt gs
              ({ s.1 with proposalLedger := s.1.proposalLedger.del true (ledgerKey g.header.hash) },
                s.2.1, s.2.2.1 ++ [r.1.header.hash], s.2.2.2)
    else govFreezeL h srt gs s

/-- one step of the model's fold in `freezeProposals` -/
def govFreezeStep (height : Int) : Res St → String × Proposal → Res St := fun acc (k, p) =>
    match acc with
    | .panic e => .panic e
    | .ok s =>
      if p.end_ < height then
        if (s.props.get true k).isNone then .panic "EndBlock: DelFinality of a proposal that is gone" else
        let s1 := { s with props := s.props.del true k }
        let sorted := sortOptions p.options
        match sorted with
        | [] => .panic "index out of range: proposal without options"
        | top :: _ =>
          if top.votes ≥ p.majority then
            .ok { s1 with fprops := s1.fprops.set true k { p with options := sorted, major := some top } }
          else .ok s1
      else .ok s

theorem govFreezeProposals_fold (s : St) (height : Int) :
    freezeProposals s height = s.props.committed.toList.foldl (govFreezeStep height) (.ok s) := rfl

theorem govFreezeStep_panic (height : Int) (e : String) (l : List (String × Proposal)) :
    l.foldl (govFreezeStep height) (.panic e) = .panic e := by
  induction l with
  | nil => rfl
  | cons kp l ih => rw [List.foldl_cons]; exact ih

/-- the model's panic text for a failed `DelFinality` -/
def govFreezeGoneSite : String := "EndBlock: DelFinality of a proposal that is gone"

theorem govFreezeStep_skip (h : Int) (s : St) (k : String) (p : Proposal) (c1 : ¬ p.end_ < h) :
    govFreezeStep h (.ok s) (k, p) = .ok s := by simp [govFreezeStep, c1]

theorem govFreezeStep_gone (h : Int) (s : St) (k : String) (p : Proposal) (c1 : p.end_ < h)
    (hg : s.props.get true k = none) : govFreezeStep h (.ok s) (k, p) = .panic govFreezeGoneSite := by
  simp [govFreezeStep, c1, hg, govFreezeGoneSite]

theorem govFreezeStep_noopt (h : Int) (s : St) (k : String) (p q : Proposal) (c1 : p.end_ < h)
    (hg : s.props.get true k = some q) (hso : sortOptions p.options = []) :
    govFreezeStep h (.ok s) (k, p) = .panic "index out of range: proposal without options" := by
  simp [govFreezeStep, c1, hg, hso]

theorem govFreezeStep_frozen (h : Int) (s : St) (k : String) (p q : Proposal) (top : VoteOpt) (rest : List VoteOpt)
    (c1 : p.end_ < h) (hg : s.props.get true k = some q) (hso : sortOptions p.options = top :: rest)
    (c2 : top.votes ≥ p.majority) :
    govFreezeStep h (.ok s) (k, p) =
      .ok { s with props := s.props.del true k
                   fprops := s.fprops.set true k { p with options := top :: rest, major := some top } } := by
  simp [govFreezeStep, c1, hg, hso, c2]

theorem govFreezeStep_removed (h : Int) (s : St) (k : String) (p q : Proposal) (top : VoteOpt) (rest : List VoteOpt)
    (c1 : p.end_ < h) (hg : s.props.get true k = some q) (hso : sortOptions p.options = top :: rest)
    (c2 : ¬ top.votes ≥ p.majority) :
    govFreezeStep h (.ok s) (k, p) = .ok { s with props := s.props.del true k } := by
  simp [govFreezeStep, c1, hg, hso, c2]

/-- the freeze decision: the top option of the sorted options has the majority -/
def govWillFreeze (p : Proposal) : Bool :=
  match sortOptions p.options with
  | top :: _ => decide (top.votes ≥ p.majority)
  | [] => false

/-- the `frozen` output: the hashes of the expired proposals with a major option, in key order -/
def govFrozenOfList (height : Int) (l : List (String × Proposal)) : List Hex :=
  (l.filter fun kp => decide (kp.2.end_ < height) && govWillFreeze kp.2).map (·.2.hash)

/-- the `removed` output: the hashes of the expired proposals without a major option, in key order -/
def govRemovedOfList (height : Int) (l : List (String × Proposal)) : List Hex :=
  (l.filter fun kp => decide (kp.2.end_ < height) && !govWillFreeze kp.2).map (·.2.hash)

/-- outcome for outcome: success = the controller of the model's new state, the two hash lists, no error;
    the model's panic "DelFinality of a proposal that is gone" = the Go function RETURNS the error
    `ErrNotFoundResult` (the iteration stops); the model's panic "proposal without options" = the Go
    function panics (index out of range) -/
def GovFreezeRel (x : G GovFreezeSt) (fr rm : List Hex) : Res St → Prop
  | .ok s' => x = .ok (govCtrlOf s', fr, rm, none)
  | .panic site =>
    if site = govFreezeGoneSite then ∃ c fr' rm', x = .ok (c, fr', rm', some "ErrNotFoundResult") else G.panics x

theorem govBlk_sortOptions_nil_iff (os : List VoteOpt) : sortOptions os = [] ↔ os = [] := by
  constructor
  · intro h
    have := (List.mergeSort_perm os (fun a b => decide (a.votes ≥ b.votes))).length_eq
    unfold sortOptions at h
    rw [h] at this
    exact List.length_eq_zero_iff.mp this.symm
  · intro h; subst h; simp [sortOptions]

theorem govFreezeL_rel (h : Int) (srt : SortOf powerOrderVoteOptions_Less) (l : List (String × Proposal))
    (hk : ∀ kp ∈ l, kp.1 = ledgerKey kp.2.hash)
    (hm : ∀ kp ∈ l, kp.2.end_ < h → kp.2.major = none)
    (hs : ∀ kp ∈ l, kp.2.end_ < h → srt.sort (kp.2.options.map optOf) = (sortOptions kp.2.options).map optOf)
    (acc : St) (fr rm : List Hex) :
    GovFreezeRel (govFreezeL h srt (l.map fun kv => propOf kv.2) (govCtrlOf acc, fr, rm, none))
      (fr ++ govFrozenOfList h l) (rm ++ govRemovedOfList h l) (l.foldl (govFreezeStep h) (.ok acc)) := by
  induction l generalizing acc fr rm with
  | nil => simp [govFreezeL, GovFreezeRel, govFrozenOfList, govRemovedOfList, pure, Except.pure]
  | cons kp l ih =>
    have hk1 := hk kp (by simp)
    have hm1 := hm kp (by simp)
    have hs1 := hs kp (by simp)
    have ih' := ih (fun kp' h' => hk kp' (by simp [h'])) (fun kp' h' => hm kp' (by simp [h']))
      (fun kp' h' => hs kp' (by simp [h']))
    obtain ⟨k, p⟩ := kp
    simp only at hk1 hm1 hs1
    rw [List.map_cons, List.foldl_cons]
    by_cases c1 : p.end_ < h
    · have c1' : (propOf p).header.end_ < h := c1
      have hkey : ledgerKey (propOf p).header.hash = k := hk1.symm
      cases hg : acc.props.get true k with
      | none =>
        have hstep := govFreezeStep_gone h acc k p c1 hg
        rw [hstep, govFreezeStep_panic]
        simp only [govFreezeL, c1', if_true, hkey, govCtrlOf, ledOf_get, hg, Option.map_none, GovFreezeRel, if_true]
        exact ⟨_, _, _, rfl⟩
      | some q =>
        by_cases hne : p.options = []
        · have hso : sortOptions p.options = [] := (govBlk_sortOptions_nil_iff _).mpr hne
          have hstep := govFreezeStep_noopt h acc k p q c1 hg hso
          rw [hstep, govFreezeStep_panic]
          obtain ⟨e, he⟩ := GovProposal_updateMajorOption_nil p srt hne
          simp only [govFreezeL, c1', if_true, hkey, govCtrlOf, ledOf_get, hg, Option.map_some, he, GovFreezeRel]
          rw [if_neg (by decide)]
          exact ⟨e, rfl⟩
        · obtain ⟨top', rest', top, rest, hsort, _, hso, _, he⟩ := GovProposal_updateMajorOption_eq p srt hne
          have hs2 := hs1 c1
          rw [hsort, hso, List.map_cons] at hs2
          obtain ⟨ht, hr⟩ := List.cons.inj hs2
          subst ht hr
          by_cases c2 : top.votes ≥ p.majority
          · have hstep := govFreezeStep_frozen h acc k p q top rest c1 hg hso c2
            have hwf : govWillFreeze p = true := by simp [govWillFreeze, hso, c2]
            rw [hstep]
            simp only [c2, if_true] at he
            have hprop : ({ propOf p with options := optOf top :: List.map optOf rest, major := some (optOf top) } : GovProposal) =
                propOf { p with options := top :: rest, major := some top } := rfl
            simp only [govFreezeL, c1', if_true, hkey, govCtrlOf, ledOf_get, hg, Option.map_some, he, Option.isSome_some,
              hprop]
            have hkey2 : ledgerKey (propOf { p with options := top :: rest, major := some top }).header.hash = k := hkey
            rw [hkey2, ledOf_set, ledOf_del]
            have := ih' { acc with props := acc.props.del true k
                                   fprops := acc.fprops.set true k { p with options := top :: rest, major := some top } }
              (fr ++ [p.hash]) rm
            simp only [govFrozenOfList, govRemovedOfList, List.filter_cons, c1, hwf, decide_true, Bool.and_self, if_true,
              Bool.not_true, Bool.and_false, Bool.false_eq_true, if_false, List.map_cons]
            simp only [govFrozenOfList, govRemovedOfList, List.append_assoc, List.singleton_append, govCtrlOf] at this
            exact this
          · have hstep := govFreezeStep_removed h acc k p q top rest c1 hg hso c2
            have hwf : govWillFreeze p = false := by simp [govWillFreeze, hso, c2]
            rw [hstep]
            simp only [c2, if_false, hm1 c1, Option.map_none] at he
            simp only [govFreezeL, c1', if_true, hkey, govCtrlOf, ledOf_get, hg, Option.map_some, he, Option.isSome_none,
              Bool.false_eq_true, if_false]
            rw [ledOf_del]
            have := ih' { acc with props := acc.props.del true k } fr (rm ++ [p.hash])
            simp only [govFrozenOfList, govRemovedOfList, List.filter_cons, c1, hwf, decide_true, Bool.and_self, if_true,
              Bool.not_false, Bool.and_false, Bool.false_eq_true, if_false, List.map_cons, Bool.and_true]
            simp only [govFrozenOfList, govRemovedOfList, List.append_assoc, List.singleton_append, govCtrlOf] at this
            exact this
    · have c1' : ¬ (propOf p).header.end_ < h := c1
      have hstep := govFreezeStep_skip h acc k p c1
      rw [hstep]
      simp only [govFreezeL, c1', if_false]
      have := ih' acc fr rm
      simp only [govFrozenOfList, govRemovedOfList, List.filter_cons, c1, decide_false, Bool.false_and, Bool.false_eq_true,
        if_false]
      exact this

/-- an open proposal has no major option yet (`NewGovProposal` creates it without one and only
    `freezeProposals` sets it, on the copy that goes to the frozen ledger); without this the Go code
    freezes an expired proposal that has no majority under its OLD major option, the model removes it -/
def OpenNoMajor (s : St) (height : Int) : Prop :=
  ∀ kp ∈ s.props.committed.toList, kp.2.end_ < height → kp.2.major = none

instance (s : St) (height : Int) : Decidable (OpenNoMajor s height) := by unfold OpenNoMajor; infer_instance

/-- the sort used by Go orders the options of the expiring proposals as the model's stable sort does
    (Go's `sort.Sort` is not stable: with tied options another admissible sort may pick another top
    option; `mergeSortOfOptions` satisfies this for every state, see `optionSortAgrees_mergeSort`) -/
def OptionSortAgrees (srt : SortOf powerOrderVoteOptions_Less) (s : St) (height : Int) : Prop :=
  ∀ kp ∈ s.props.committed.toList, kp.2.end_ < height →
    srt.sort (kp.2.options.map optOf) = (sortOptions kp.2.options).map optOf

instance (srt : SortOf powerOrderVoteOptions_Less) (s : St) (height : Int) : Decidable (OptionSortAgrees srt s height) := by
  unfold OptionSortAgrees; infer_instance

theorem mergeSortOfOptions_sort (os : List VoteOpt) :
    mergeSortOfOptions.sort (os.map optOf) = (sortOptions os).map optOf := by
  unfold sortOptions
  show (os.map optOf).mergeSort (fun a b => decide (a.votes ≥ b.votes)) = _
  exact (List.map_mergeSort (r := fun (a b : VoteOpt) => decide (a.votes ≥ b.votes))
    (s := fun (a b : VoteOption) => decide (a.votes ≥ b.votes)) (f := optOf) (l := os) (fun a _ b _ => rfl)).symm

theorem optionSortAgrees_mergeSort (s : St) (height : Int) : OptionSortAgrees mergeSortOfOptions s height :=
  fun kp _ _ => mergeSortOfOptions_sort kp.2.options

theorem govFreeze_bind_eta (x : G GovFreezeSt) :
    (x >>= fun s => pure (s.fst, s.snd.fst, s.snd.snd.fst, s.snd.snd.snd)) = x := by
  cases x <;> rfl

/-- the generated function is its loop (the mirror `govFreezeL`) on the committed items -/
theorem GovCtrler_freezeProposals_loop (s : St) (height : Int) (srt : SortOf powerOrderVoteOptions_Less) :
    GovCtrler_freezeProposals (govCtrlOf s) height srt =
      govFreezeL height srt (s.props.committed.toList.map fun kv => propOf kv.2) (govCtrlOf s, [], [], none) := by
  unfold GovCtrler_freezeProposals
  dsimp only
  rw [forIn_eq _ (govFreezeL height srt) (fun _ => rfl)]
  · exact govFreeze_bind_eta _
  · intro g gs ⟨c, fr, rm, it⟩
    simp only [govFreezeL, GovProposal_Key, hexArray32_eq, GovProposal_UpdateMajorOption_eq, pure_bind]
    by_cases c1 : g.header.end_ < height
    · simp only [c1, if_true]
      cases hg : c.proposalLedger.get true (ledgerKey g.header.hash) with
      | none => simp [bind, Except.bind, pure, Except.pure]
      | some q =>
        simp only [gnotFound_some, Option.isSome_none, Bool.false_eq_true, if_false]
        cases hr : GovProposal_updateMajorOption g srt with
        | error e => rfl
        | ok r =>
          by_cases c2 : r.2.isSome = true
          · simp [c2, bind, Except.bind, pure, Except.pure]
          · simp [c2, bind, Except.bind, pure, Except.pure]
    · simp [c1, bind, Except.bind, pure, Except.pure]

/-- `freezeProposals` against the model's `freezeProposals`, outcome for outcome (`GovFreezeRel`) -/
theorem GovCtrler_freezeProposals_eq (s : St) (height : Int) (srt : SortOf powerOrderVoteOptions_Less)
    (hk : PropKeysOK s.props) (hm : OpenNoMajor s height) (hs : OptionSortAgrees srt s height) :
    GovFreezeRel (GovCtrler_freezeProposals (govCtrlOf s) height srt)
      (govFrozenOfList height s.props.committed.toList) (govRemovedOfList height s.props.committed.toList)
      (freezeProposals s height) := by
  rw [GovCtrler_freezeProposals_loop, govFreezeProposals_fold]
  have := govFreezeL_rel height srt s.props.committed.toList hk hm hs s [] []
  simpa using this

/-- with the model's stable sort as Go's sort no assumption on the sort is left -/
theorem GovCtrler_freezeProposals_eq_mergeSort (s : St) (height : Int)
    (hk : PropKeysOK s.props) (hm : OpenNoMajor s height) :
    GovFreezeRel (GovCtrler_freezeProposals (govCtrlOf s) height mergeSortOfOptions)
      (govFrozenOfList height s.props.committed.toList) (govRemovedOfList height s.props.committed.toList)
      (freezeProposals s height) :=
  GovCtrler_freezeProposals_eq s height _ hk hm (optionSortAgrees_mergeSort s height)

/-- the success case as an equation -/
theorem GovCtrler_freezeProposals_ok (s s' : St) (height : Int) (srt : SortOf powerOrderVoteOptions_Less)
    (hk : PropKeysOK s.props) (hm : OpenNoMajor s height) (hs : OptionSortAgrees srt s height)
    (h : freezeProposals s height = .ok s') :
    GovCtrler_freezeProposals (govCtrlOf s) height srt =
      .ok (govCtrlOf s', govFrozenOfList height s.props.committed.toList,
           govRemovedOfList height s.props.committed.toList, none) := by
  have := GovCtrler_freezeProposals_eq s height srt hk hm hs
  rw [h] at this
  exact this

end Rigo.GenEq
