/-
  C11/C12 helpers (2): the part of the state the staking properties talk about (`Core`) and an exact
  summary of what one transaction (`handleTx`) does to it.
-/
import RigoProofs.C11Sum
import RigoProofs.TxRecv

namespace Rigo
open Delegatee

/-- consensus view and committed history of the bonded and unbonding ledgers, plus the few scalars
    the staking rules read -/
structure Core where
  dfin : KMap Delegatee
  dhist : List (KMap Delegatee)
  ffin : KMap Stake
  fhist : List (KMap Stake)
  active : Params
  height : Option Int
  lastHeight : Int
  refunds : List (Hex × Hex × Int × Int)

def St.core (s : St) : Core :=
  { dfin := s.delegs.fin, dhist := s.delegs.hist, ffin := s.frozen.fin, fhist := s.frozen.hist,
    active := s.active, height := s.blk.map (·.height), lastHeight := s.lastHeight,
    refunds := s.ghost.refunds }

@[simp] theorem core_setAcct (s : St) (e : Bool) (a : Account) : (s.setAcct e a).core = s.core := rfl

@[simp] theorem core_findOrNewAcct (s : St) (e : Bool) (a : Hex) : (s.findOrNewAcct e a).1.core = s.core := by
  unfold St.findOrNewAcct; split <;> rfl

theorem limit_core {s s1 : St} {e : Bool} {a : Hex} {t d : Int} (h : s.limit e a t d = .ok s1) :
    s1.core = s.core := by
  unfold St.limit at h
  split at h
  · split at h
    · cases h; rfl
    · cases h
    · cases h
  · cases h; rfl

theorem reward_core {s s1 : St} {e : Bool} {a : Hex} {amt : Nat} (h : s.reward e a amt = some s1) :
    s1.core = s.core := by
  unfold St.reward at h
  split at h
  · cases h
  · split at h
    · cases h
    · cases h; rfl

/-! ### validation leaves the core alone -/

theorem validateStaking_core {s s1 : St} {e : Bool} {tx : TxIn} (h : validateStaking s e tx = .ok s1) :
    s1.core = s.core := by
  unfold validateStaking at h
  simp only [bind, Except.bind, pure, Except.pure, throw, throwThe, MonadExceptOf.throw] at h
  repeat' split at h
  all_goals first | cases h | exact limit_core h

theorem validateUnstaking_core {s s1 : St} {e : Bool} {tx : TxIn} (h : validateUnstaking s e tx = .ok s1) :
    s1.core = s.core := by
  unfold validateUnstaking at h
  simp only [bind, Except.bind, throw, throwThe, MonadExceptOf.throw] at h
  repeat' split at h
  all_goals first | cases h | exact limit_core h

theorem validateWithdraw_core {s s1 : St} {e : Bool} {tx : TxIn} (h : validateWithdraw s e tx = .ok s1) :
    s1.core = s.core := by
  unfold validateWithdraw at h
  simp only [bind, Except.bind, pure, Except.pure, throw, throwThe, MonadExceptOf.throw] at h
  repeat' split at h
  all_goals (cases h; try rfl)

theorem validateProposal_core {s s1 : St} {e : Bool} {ht : Int} {tx : TxIn}
    (h : validateProposal s e ht tx = .ok s1) : s1.core = s.core := by
  unfold validateProposal at h
  simp only [bind, Except.bind, pure, Except.pure, throw, throwThe, MonadExceptOf.throw] at h
  repeat' split at h
  all_goals (cases h; try rfl)

theorem validateVoting_core {s s1 : St} {e : Bool} {ht : Int} {tx : TxIn}
    (h : validateVoting s e ht tx = .ok s1) : s1.core = s.core := by
  unfold validateVoting at h
  simp only [bind, Except.bind, pure, Except.pure, throw, throwThe, MonadExceptOf.throw] at h
  repeat' split at h
  all_goals (cases h; try rfl)

theorem validateEvm_core {s s1 : St} {tx : TxIn} {rc : Account}
    (h : validateEvm s tx rc = .ok s1) : s1.core = s.core := by
  unfold validateEvm at h
  simp only [bind, Except.bind, pure, Except.pure, throw, throwThe, MonadExceptOf.throw] at h
  repeat' split at h
  all_goals (cases h; try rfl)

theorem commonValidation0_ok {s : St} {e : Bool} {tx : TxIn} (h : commonValidation0 s e tx = .ok ()) :
    byteLen tx.from_ = 20 ∧ byteLen tx.to = 20 ∧ (e = true → tx.sigOk = true) := by
  unfold commonValidation0 at h
  simp only [bind, Except.bind, pure, Except.pure, throw, throwThe, MonadExceptOf.throw] at h
  repeat' split at h
  all_goals first | cases h | skip
  refine ⟨by omega, by omega, ?_⟩
  intro he
  rename_i hs
  simp [he] at hs
  exact hs

theorem validateTrx_ok_core {s s1 : St} {e : Bool} {ht : Int} {tx : TxIn} {sender rc : Account}
    (h : validateTrx s e ht tx sender rc = .ok s1) :
    s1.core = s.core ∧ byteLen tx.from_ = 20 ∧ byteLen tx.to = 20 ∧ (e = true → tx.sigOk = true) := by
  unfold validateTrx at h
  simp only [bind, Except.bind] at h
  split at h
  · cases h
  · rename_i u h0
    cases u
    have h0' := commonValidation0_ok h0
    refine ⟨?_, h0'⟩
    split at h
    · cases h
    · simp only [pure, Except.pure, throw, throwThe, MonadExceptOf.throw] at h
      repeat' split at h
      all_goals first
        | exact validateProposal_core h
        | exact validateVoting_core h
        | exact validateStaking_core h
        | exact validateUnstaking_core h
        | exact validateWithdraw_core h
        | exact validateEvm_core h
        | (cases h; try rfl)

/-! ### execution of the transaction bodies that do not touch stakes -/

theorem execTransfer_core {s : St} {e : Bool} {tx : TxIn} {r : RunOut} (h : execTransfer s e tx = .ok r) :
    r.st.core = s.core := by
  unfold execTransfer at h
  simp only [pure, Except.pure, throw, throwThe, MonadExceptOf.throw] at h
  repeat' split at h
  all_goals (cases h; try rfl)

theorem execSetDoc_core {s : St} {e : Bool} {tx : TxIn} {r : RunOut} (h : execSetDoc s e tx = .ok r) :
    r.st.core = s.core := by
  unfold execSetDoc at h
  simp only [pure, Except.pure, throw, throwThe, MonadExceptOf.throw] at h
  repeat' split at h
  all_goals (cases h; try rfl)

theorem execWithdraw_core {s : St} {e : Bool} {ht : Int} {tx : TxIn} {r : RunOut}
    (h : execWithdraw s e ht tx = .ok r) : r.st.core = s.core := by
  unfold execWithdraw at h
  simp only [bind, Except.bind, pure, Except.pure, throw, throwThe, MonadExceptOf.throw] at h
  split at h
  · split at h
    · cases h
    · split at h
      · cases h
      · split at h
        · rename_i s2 hs2
          have := reward_core hs2
          cases h
          split <;> simpa [St.core] using this
        · cases h
  · cases h

theorem execProposal_core {s : St} {e : Bool} {tx : TxIn} {r : RunOut} (h : execProposal s e tx = .ok r) :
    r.st.core = s.core := by
  unfold execProposal at h
  simp only [pure, Except.pure, throw, throwThe, MonadExceptOf.throw] at h
  repeat' split at h
  all_goals (cases h; try rfl)

theorem execVoting_core {s : St} {e : Bool} {tx : TxIn} {r : RunOut} (h : execVoting s e tx = .ok r) :
    r.st.core = s.core := by
  unfold execVoting at h
  simp only [bind, Except.bind, pure, Except.pure, throw, throwThe, MonadExceptOf.throw] at h
  repeat' split at h
  all_goals (cases h; try rfl)

theorem foldl_core {α : Type} (f : St → α → St) (hf : ∀ s a, (f s a).core = s.core) (l : List α) (s : St) :
    (l.foldl f s).core = s.core := by
  induction l generalizing s with
  | nil => rfl
  | cons a l ih => simp only [List.foldl_cons]; rw [ih, hf]

theorem execEvm_core {s : St} {e : Bool} {tx : TxIn} {r : RunOut} (h : execEvm s e tx = .ok r) :
    r.st.core = s.core := by
  unfold execEvm at h
  have h1 : ∀ (l : List Hex) (s : St), (l.foldl (fun acc a => (acc.findOrNewAcct true a).1) s).core = s.core :=
    fun l s => foldl_core _ (fun s a => core_findOrNewAcct s true a) l s
  have h2 : ∀ (l : List (Hex × Nat × Nat)) (s : St), (l.foldl (fun acc (x : Hex × Nat × Nat) =>
      ((acc.findOrNewAcct true x.1).1).setAcct true { (acc.findOrNewAcct true x.1).2 with bal := x.2.1, nonce := x.2.2 }) s).core = s.core :=
    fun l s => foldl_core _ (fun s a => by simp) l s
  simp only [bind, Except.bind, pure, Except.pure, throw, throwThe, MonadExceptOf.throw] at h
  repeat' split at h
  all_goals (cases h; try simp [h1, h2])

/-! ### staking and unstaking -/

/-- the stake a staking transaction creates -/
def newStake (tx : TxIn) (power height : Int) : Stake :=
  { owner := tx.from_, to := tx.to, hash := tx.hash, power := power, start := height + 1 }

/-- the delegatee a staking transaction adds its stake to: the one stored under the target's key,
    or a fresh one when a not yet registered account stakes on itself -/
def StakeTarget (c : Core) (tx : TxIn) (d : Delegatee) : Prop :=
  c.dfin[ledgerKey tx.to]? = some d ∨
  (c.dfin[ledgerKey tx.to]? = none ∧ tx.from_ = tx.to ∧ d = { addr := tx.from_, pub := tx.pub })

theorem execStaking_core {s : St} {ht : Int} {tx : TxIn} {r : RunOut} (h : execStaking s true ht tx = .ok r) :
    ∃ d power, StakeTarget s.core tx d ∧ amountToPower tx.amount = .ok power ∧
      r.st.core = { s.core with dfin := s.core.dfin.insert (ledgerKey d.addr) (d.addStake (newStake tx power ht)) } := by
  unfold execStaking at h
  simp only [bind, Except.bind, pure, Except.pure, throw, throwThe, MonadExceptOf.throw] at h
  repeat' split at h
  all_goals (try (cases h; done))
  · rename_i d hd _ _ _ _ _ _ _ power hp
    cases h
    have hp' : amountToPower tx.amount = .ok power := by
      unfold ofRes at hp; split at hp
      · rename_i hh; cases hp; exact hh
      · cases hp
    exact ⟨d, power, Or.inl (by simpa [St.core, Led.get] using hd), hp', by
      simp [St.core, Led.set, newStake, St.setAcct, addStake_addr]⟩
  · rename_i hd hft _ _ _ _ _ _ _ power hp _
    cases h
    have hp' : amountToPower tx.amount = .ok power := by
      unfold ofRes at hp; split at hp
      · rename_i hh; cases hp; exact hh
      · cases hp
    exact ⟨{ addr := tx.from_, pub := tx.pub }, power,
      Or.inr ⟨by simpa [St.core, Led.get] using hd, by simpa using hft, rfl⟩, hp', by
      simp [St.core, Led.set, newStake, St.setAcct, addStake_addr]⟩
  · rename_i hn; exact absurd trivial hn

theorem execStaking_core_false {s : St} {ht : Int} {tx : TxIn} {r : RunOut}
    (h : execStaking s false ht tx = .ok r) : r.st.core = s.core := by
  unfold execStaking at h
  simp only [bind, Except.bind, pure, Except.pure, throw, throwThe, MonadExceptOf.throw] at h
  repeat' split at h
  all_goals (cases h; try rfl)

/-- the core after a successful unstaking of stake `st` (found under `hash`) of delegatee `d` -/
def unstakeCore (c : Core) (d : Delegatee) (st : Stake) (hash : Hex) (height : Int) : Core :=
  let refund := height + c.active.lazyRewardBlocks
  let d1 := d.delStake hash
  let f1 := c.ffin.insert (ledgerKey st.hash) { st with refund := refund }
  let d2 := if d1.self = 0 then d1.delAllStakes.1 else d1
  let f2 := if d1.self = 0 then freezeFin f1 d1.stakes refund else f1
  { c with dfin := if d2.total = 0 then c.dfin.erase (ledgerKey d2.addr) else c.dfin.insert (ledgerKey d2.addr) d2,
           ffin := f2 }

theorem execUnstaking_core {s : St} {ht : Int} {tx : TxIn} {r : RunOut} (h : execUnstaking s true ht tx = .ok r) :
    ∃ d hash st, tx.payload = .unstaking hash ∧ s.core.dfin[ledgerKey tx.to]? = some d ∧
      d.findStake hash = some st ∧ tx.from_ = st.owner ∧ r.st.core = unstakeCore s.core d st hash ht := by
  unfold execUnstaking at h
  simp only [bind, Except.bind, pure, Except.pure, throw, throwThe, MonadExceptOf.throw] at h
  split at h
  · cases h
  · rename_i d hd
    split at h
    · rename_i hash hpay
      split at h
      · cases h
      · split at h
        · cases h
        · rename_i st hst
          split at h
          · cases h
          · rename_i hown
            cases h
            refine ⟨d, hash, st, hpay, by simpa [St.core, Led.get] using hd, hst, by simpa using hown, ?_⟩
            simp only [unstakeCore, St.core, freezeAll_true, Led.set, Led.del]
            by_cases h0 : (d.delStake hash).self = 0
            · by_cases h1 : (d.delStake hash).delAllStakes.1.total = 0
              · simp [h0, h1, delAllStakes_snd]
              · simp [h0, h1, delAllStakes_snd]
            · by_cases h1 : (d.delStake hash).total = 0
              · simp [h0, h1]
              · simp [h0, h1]
    · cases h

theorem execUnstaking_core_false {s : St} {ht : Int} {tx : TxIn} {r : RunOut}
    (h : execUnstaking s false ht tx = .ok r) : r.st.core = s.core := by
  unfold execUnstaking at h
  simp only [bind, Except.bind, pure, Except.pure, throw, throwThe, MonadExceptOf.throw] at h
  split at h
  · cases h
  · split at h
    · split at h
      · cases h
      · split at h
        · cases h
        · split at h
          · cases h
          · cases h
            have hf := fun fr ss r => freezeAll_false fr ss r
            simp only [St.core, Led.set, Led.del, Bool.false_eq_true, if_false]
            split <;> split <;> simp [hf]
    · cases h

theorem execStaking_fail {s : St} {e : Bool} {ht : Int} {tx : TxIn} {r : RunOut}
    (h : execStaking s e ht tx = .ok r) : r.fail = none := by
  unfold execStaking at h
  simp only [bind, Except.bind, pure, Except.pure, throw, throwThe, MonadExceptOf.throw] at h
  repeat' split at h
  all_goals (cases h; try rfl)

theorem execUnstaking_fail {s : St} {e : Bool} {ht : Int} {tx : TxIn} {r : RunOut}
    (h : execUnstaking s e ht tx = .ok r) : r.fail = none := by
  unfold execUnstaking at h
  simp only [bind, Except.bind, pure, Except.pure, throw, throwThe, MonadExceptOf.throw] at h
  repeat' split at h
  all_goals (cases h; try rfl)

/-! ### `runTrx` and `handleTx` -/

theorem bind_ok {α β : Type} {x : Step α} {f : α → Step β} {b : β} (h : (x >>= f) = .ok b) :
    ∃ a, x = .ok a ∧ f a = .ok b := by
  cases x with
  | error e => cases h
  | ok a => exact ⟨a, rfl, h⟩

set_option hygiene false in
/-- from `hb : (fee tail of runTrx) r = .ok (s2, g, f)` derive `ht : s2.core = r.st.core ∧ (r.fail = none → f = none)` -/
local macro "run_tail" : tactic => `(tactic| (
  have ht : s2.core = r.st.core ∧ (r.fail = none → f = none) := by
    simp only [pure, Except.pure, throw, throwThe, MonadExceptOf.throw] at hb
    repeat' split at hb
    all_goals (cases hb; try (refine ⟨rfl, ?_⟩))
    all_goals (intro hn; first | exact hn | rfl)))

theorem runTrx_core {s s2 : St} {e : Bool} {ht : Int} {tx : TxIn} {rc : Account} {g : Nat} {f : Option String}
    (h : runTrx s e ht tx rc = .ok (s2, g, f)) :
    (tx.type = TRX_STAKING ∧ f = none ∧ ∃ r, execStaking s e ht tx = .ok r ∧ s2.core = r.st.core) ∨
    (tx.type = TRX_UNSTAKING ∧ f = none ∧ ∃ r, execUnstaking s e ht tx = .ok r ∧ s2.core = r.st.core) ∨
    (tx.type ≠ TRX_STAKING ∧ tx.type ≠ TRX_UNSTAKING ∧ s2.core = s.core) := by
  unfold runTrx at h
  dsimp only at h
  by_cases hc : tx.type = TRX_CONTRACT
  · rw [if_pos hc] at h
    obtain ⟨r, hr, hb⟩ := bind_ok h
    run_tail
    exact Or.inr (Or.inr ⟨by rw [hc]; decide, by rw [hc]; decide, by rw [ht.1, execEvm_core hr]⟩)
  rw [if_neg hc] at h; clear hc
  by_cases hc : tx.type = TRX_PROPOSAL
  · rw [if_pos hc] at h
    obtain ⟨r, hr, hb⟩ := bind_ok h
    run_tail
    exact Or.inr (Or.inr ⟨by rw [hc]; decide, by rw [hc]; decide, by rw [ht.1, execProposal_core hr]⟩)
  rw [if_neg hc] at h; clear hc
  by_cases hc : tx.type = TRX_VOTING
  · rw [if_pos hc] at h
    obtain ⟨r, hr, hb⟩ := bind_ok h
    run_tail
    exact Or.inr (Or.inr ⟨by rw [hc]; decide, by rw [hc]; decide, by rw [ht.1, execVoting_core hr]⟩)
  rw [if_neg hc] at h; clear hc
  by_cases hc : tx.type = TRX_TRANSFER
  · rw [if_pos hc] at h
    obtain ⟨r, hr, hb⟩ := bind_ok h
    run_tail
    refine Or.inr (Or.inr ⟨by rw [hc]; decide, by rw [hc]; decide, ?_⟩)
    rw [ht.1]
    split at hr
    · exact execEvm_core hr
    · exact execTransfer_core hr
  rw [if_neg hc] at h; clear hc
  by_cases hc : tx.type = TRX_SETDOC
  · rw [if_pos hc] at h
    obtain ⟨r, hr, hb⟩ := bind_ok h
    run_tail
    exact Or.inr (Or.inr ⟨by rw [hc]; decide, by rw [hc]; decide, by rw [ht.1, execSetDoc_core hr]⟩)
  rw [if_neg hc] at h; clear hc
  by_cases hc : tx.type = TRX_STAKING
  · rw [if_pos hc] at h
    obtain ⟨r, hr, hb⟩ := bind_ok h
    run_tail
    exact Or.inl ⟨hc, ht.2 (execStaking_fail hr), r, hr, ht.1⟩
  rw [if_neg hc] at h
  by_cases hc2 : tx.type = TRX_UNSTAKING
  · rw [if_pos hc2] at h
    obtain ⟨r, hr, hb⟩ := bind_ok h
    run_tail
    exact Or.inr (Or.inl ⟨hc2, ht.2 (execUnstaking_fail hr), r, hr, ht.1⟩)
  rw [if_neg hc2] at h
  by_cases hc3 : tx.type = TRX_WITHDRAW
  · rw [if_pos hc3] at h
    obtain ⟨r, hr, hb⟩ := bind_ok h
    run_tail
    exact Or.inr (Or.inr ⟨hc, hc2, by rw [ht.1, execWithdraw_core hr]⟩)
  · rw [if_neg hc3] at h
    obtain ⟨r, hr, hb⟩ := bind_ok h
    cases hr

/-- CheckTx never touches the consensus view, the history, or the refund log -/
theorem handleTxOld_false_core (s : St) (ht : Int) (tx : TxIn) : (handleTxOld s false ht tx).1.core = s.core := by
  unfold handleTxOld
  dsimp only
  split
  · rfl
  split
  · rfl
  · split
    · rename_i h; simp
    · simp
    · rename_i s1 hv
      have h1 := (validateTrx_ok_core hv).1
      split
      · simp [h1]
      · simp [h1]
      · rename_i s2 _ k hr
        rcases runTrx_core hr with ⟨_, hf, _⟩ | ⟨_, hf, _⟩ | ⟨_, _, hc⟩
        · cases hf
        · cases hf
        · simp [hc, h1]
      · rename_i s2 g hr
        rcases runTrx_core hr with ⟨_, _, r, hr, hc⟩ | ⟨_, _, r, hr, hc⟩ | ⟨_, _, hc⟩
        · simp [hc, execStaking_core_false hr, h1]
        · simp [hc, execUnstaking_core_false hr, h1]
        · simp [hc, h1]

/-- what a delivered transaction does to the core: nothing, unless it is a *successful* staking or
    unstaking transaction, whose effect is described exactly -/
theorem handleTxOld_core (s : St) (ht : Int) (tx : TxIn) :
    ((handleTxOld s true ht tx).1.core = s.core ∧
      ((handleTxOld s true ht tx).2.code = 0 → tx.type ≠ TRX_STAKING ∧ tx.type ≠ TRX_UNSTAKING)) ∨
    ((handleTxOld s true ht tx).2.code = 0 ∧ tx.type = TRX_STAKING ∧ tx.sigOk = true ∧ byteLen tx.to = 20 ∧
      ∃ d power, StakeTarget s.core tx d ∧ amountToPower tx.amount = .ok power ∧
        (handleTxOld s true ht tx).1.core =
          { s.core with dfin := s.core.dfin.insert (ledgerKey d.addr) (d.addStake (newStake tx power ht)) }) ∨
    ((handleTxOld s true ht tx).2.code = 0 ∧ tx.type = TRX_UNSTAKING ∧ tx.sigOk = true ∧
      ∃ d hash st, tx.payload = .unstaking hash ∧ s.core.dfin[ledgerKey tx.to]? = some d ∧
        d.findStake hash = some st ∧ tx.from_ = st.owner ∧
        (handleTxOld s true ht tx).1.core = unstakeCore s.core d st hash ht) := by
  unfold handleTxOld
  dsimp only
  split
  · left; simp
  split
  · left; simp
  · split
    · left; simp
    · left; simp
    · rename_i s1 hv
      obtain ⟨h1, _, hto, hsig⟩ := validateTrx_ok_core hv
      have hsig := hsig rfl
      simp only [core_findOrNewAcct] at h1
      split
      · left; simp [h1]
      · left; simp [h1]
      · rename_i s2 _ k hr
        left
        rcases runTrx_core hr with ⟨_, hf, _⟩ | ⟨_, hf, _⟩ | ⟨_, _, hc⟩
        · cases hf
        · cases hf
        · simp [hc, h1]
      · rename_i s2 g hr
        rcases runTrx_core hr with ⟨hty, _, r, hr, hc⟩ | ⟨hty, _, r, hr, hc⟩ | ⟨hn1, hn2, hc⟩
        · right; left
          obtain ⟨d, power, hd, hp, hcore⟩ := execStaking_core hr
          rw [h1] at hd hcore
          exact ⟨rfl, hty, hsig, hto, d, power, hd, hp, by simp only [hc, hcore]⟩
        · right; right
          obtain ⟨d, hash, st, hp, hd, hst, hown, hcore⟩ := execUnstaking_core hr
          rw [h1] at hd hcore
          exact ⟨rfl, hty, hsig, d, hash, st, hp, hd, hst, hown, by simp only [hc, hcore]⟩
        · left; exact ⟨by simp [hc, h1], fun _ => ⟨hn1, hn2⟩⟩

/-- CheckTx never touches the consensus view, the history, or the refund log -/
theorem handleTx_false_core (s : St) (ht : Int) (tx : TxIn) : (handleTx s false ht tx).1.core = s.core := by
  by_cases hl : byteLen tx.to = 20
  · rw [handleTx_goodlen hl]; exact handleTxOld_false_core s ht tx
  · rw [handleTx_badlen_fst hl]

/-- what a delivered transaction does to the core: nothing, unless it is a *successful* staking or
    unstaking transaction, whose effect is described exactly -/
theorem handleTx_core (s : St) (ht : Int) (tx : TxIn) :
    ((handleTx s true ht tx).1.core = s.core ∧
      ((handleTx s true ht tx).2.code = 0 → tx.type ≠ TRX_STAKING ∧ tx.type ≠ TRX_UNSTAKING)) ∨
    ((handleTx s true ht tx).2.code = 0 ∧ tx.type = TRX_STAKING ∧ tx.sigOk = true ∧ byteLen tx.to = 20 ∧
      ∃ d power, StakeTarget s.core tx d ∧ amountToPower tx.amount = .ok power ∧
        (handleTx s true ht tx).1.core =
          { s.core with dfin := s.core.dfin.insert (ledgerKey d.addr) (d.addStake (newStake tx power ht)) }) ∨
    ((handleTx s true ht tx).2.code = 0 ∧ tx.type = TRX_UNSTAKING ∧ tx.sigOk = true ∧
      ∃ d hash st, tx.payload = .unstaking hash ∧ s.core.dfin[ledgerKey tx.to]? = some d ∧
        d.findStake hash = some st ∧ tx.from_ = st.owner ∧
        (handleTx s true ht tx).1.core = unstakeCore s.core d st hash ht) := by
  by_cases hl : byteLen tx.to = 20
  · rw [handleTx_goodlen hl]; exact handleTxOld_core s ht tx
  · exact Or.inl ⟨by rw [handleTx_badlen_fst hl], fun hc => absurd hc (handleTx_badlen_code hl)⟩

end Rigo
