/-
  C12 helpers: an EndBlock that does not answer with a panic has run the refund pass.
-/
import RigoProofs.C12Refund

namespace Rigo

theorem foldl_res_panic {α σ : Type} (F : Res σ → α → Res σ)
    (hF : ∀ acc a, (∀ e, acc = .panic e → e ≠ "") → ∀ e, F acc a = .panic e → e ≠ "")
    (l : List α) (acc : Res σ) (h0 : ∀ e, acc = .panic e → e ≠ "") :
    ∀ e, l.foldl F acc = .panic e → e ≠ "" := by
  induction l generalizing acc with
  | nil => exact h0
  | cons a l ih => simp only [List.foldl_cons]; exact ih _ (hF acc a h0)

theorem freezeProposals_panic {s : St} {ht : Int} {e : String} (h : freezeProposals s ht = .panic e) : e ≠ "" := by
  unfold freezeProposals at h
  refine foldl_res_panic _ ?_ _ _ (by intro e he; cases he) e h
  intro acc a hacc e he
  cases acc with
  | panic e' => cases he; exact hacc _ rfl
  | ok s0 =>
    dsimp only at he
    repeat' split at he
    all_goals (cases he; try decide)

theorem applyProposals_panic {s : St} {ht : Int} {e : String} (h : applyProposals s ht = .panic e) : e ≠ "" := by
  unfold applyProposals at h
  refine foldl_res_panic _ ?_ _ _ (by intro e he; cases he) e h
  intro acc a hacc e he
  cases acc with
  | panic e' => cases he; exact hacc _ rfl
  | ok s0 =>
    dsimp only at he
    repeat' split at he
    all_goals (cases he; try decide)

theorem feeHandover_panic {s : St} {b : BlockCtx} {e : String} (h : feeHandover s b = .panic e) : e ≠ "" := by
  unfold feeHandover at h
  split at h
  · dsimp only at h
    split at h
    · cases h; decide
    · cases h
  · cases h

theorem unfreeze_panic {s : St} {ht : Int} {e : String} (h : unfreeze s ht = .panic e) : e ≠ "" := by
  rw [unfreeze_eq] at h
  refine foldl_res_panic _ ?_ _ _ (by intro e he; cases he) e h
  intro acc a hacc e he
  cases acc with
  | panic e' => cases he; exact hacc _ rfl
  | ok s0 =>
    unfold unfreezeStep at he
    dsimp only at he
    repeat' split at he
    all_goals (cases he; try decide)

theorem updateValidators_panic {s : St} {e : String} (h : updateValidators s = .panic e) : e ≠ "" := by
  unfold updateValidators at h
  split at h
  · rename_i e' hs
    cases h
    unfold selectValidators at hs
    split at hs
    · cases hs; decide
    · cases hs
  · cases h

/-- EndBlock inside a block either answers with a panic (and then changed nothing in the stake
    ledgers) or has run the refund pass of that block's height -/
theorem endBlock_ok_core {s : St} {b : BlockCtx} (hb : s.blk = some b) (hp : (endBlock s).2.panic = "") :
    (endBlock s).1.core = unfreezeCore s.core b.height ∧
    ∃ s3 s4, s3.core = s.core ∧ unfreeze s3 b.height = .ok s4 ∧ (endBlock s).1.accts = s4.accts := by
  unfold endBlock at hp ⊢
  rw [hb] at hp ⊢
  dsimp only at hp ⊢
  cases h1 : freezeProposals s b.height with
  | panic e => rw [h1] at hp; exact absurd hp (freezeProposals_panic h1)
  | ok s1 =>
    rw [h1] at hp
    dsimp only at hp ⊢
    cases h2 : applyProposals s1 b.height with
    | panic e => rw [h2] at hp; exact absurd hp (applyProposals_panic h2)
    | ok s2 =>
      rw [h2] at hp
      dsimp only at hp ⊢
      cases h3 : feeHandover s2 b with
      | panic e => rw [h3] at hp; exact absurd hp (feeHandover_panic h3)
      | ok s3 =>
        rw [h3] at hp
        dsimp only at hp ⊢
        have c3 : s3.core = s.core := by
          rw [feeHandover_core h3, applyProposals_core h2, freezeProposals_core h1]
        cases h4 : unfreeze s3 b.height with
        | panic e => rw [h4] at hp; exact absurd hp (unfreeze_panic h4)
        | ok s4 =>
          rw [h4] at hp
          dsimp only at hp ⊢
          cases h5 : updateValidators s4 with
          | panic e => rw [h5] at hp; exact absurd hp (updateValidators_panic h5)
          | ok r =>
            obtain ⟨s5, u⟩ := r
            dsimp only
            have hacc : s5.accts = s4.accts := by
              unfold updateValidators at h5
              split at h5
              · cases h5
              · cases h5; rfl
            exact ⟨by rw [updateValidators_core h5, unfreeze_core h4, c3], s3, s4, c3, h4, hacc⟩

end Rigo
