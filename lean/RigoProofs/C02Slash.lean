/-
  C02 helper: slashing (the stake controller's evidence handling in BeginBlock) keeps the structural
  invariants and destroys exactly `slashLoss` power per hit delegatee.
-/
import RigoProofs.C02Basic

namespace Rigo.C02

open Std Rigo.Delegatee

/-! ### arithmetic of one stake -/

theorem slash_bounds {p ratio : Int} (hp : 0 ≤ p) (hr : 0 ≤ ratio) (hr' : ratio ≤ 100) :
    0 ≤ Int.tdiv (p * ratio) 100 ∧ Int.tdiv (p * ratio) 100 ≤ p := by
  have h1 : 0 ≤ p * ratio := Int.mul_nonneg hp hr
  have h2 : p * ratio ≤ p * 100 := Int.mul_le_mul_of_nonneg_left hr' hp
  rw [Int.tdiv_eq_ediv_of_nonneg h1]
  generalize p * ratio = x at h1 h2
  omega

/-! ### `doSlash` -/

theorem mem_foldl_eraseP (rem : List Stake) : ∀ (acc : List Stake) (x : Stake),
    x ∈ rem.foldl (fun acc r => acc.eraseP (·.hash == r.hash)) acc → x ∈ acc := by
  induction rem with
  | nil => intro acc x h; exact h
  | cons r rem ih =>
    intro acc x h
    rw [List.foldl_cons] at h
    exact List.mem_of_mem_eraseP (ih _ x h)

theorem doSlash_addr (d : Delegatee) (ratio : Int) : (d.doSlash ratio).1.addr = d.addr := rfl

theorem doSlash_total (d : Delegatee) (ratio : Int) :
    (d.doSlash ratio).1.total = sumPower (d.doSlash ratio).1.stakes := rfl

theorem doSlash_powerOK (d : Delegatee) (ratio : Int) (hr : 0 ≤ ratio) (hr' : ratio ≤ 100)
    (hd : ∀ st ∈ d.stakes, PowerOK st.power) : ∀ st ∈ (d.doSlash ratio).1.stakes, PowerOK st.power := by
  intro st hst
  have hmem := mem_foldl_eraseP _ _ _ hst
  rw [List.mem_map] at hmem
  obtain ⟨s0, hs0, heq⟩ := hmem
  have hp := hd s0 hs0
  have hb := slash_bounds hp.1 hr hr'
  simp only at heq
  split at heq
  · rw [← heq]; exact hp
  · rw [← heq]
    unfold PowerOK at hp ⊢
    simp only
    omega

/-! ### one evidence -/

theorem stakePunish_none {s : St} {a : Hex} (h : s.delegs.get true (ledgerKey a) = none) :
    stakePunish s a = (s, none) := by
  unfold stakePunish; rw [h]

theorem stakePunish_some {s : St} {a : Hex} {d : Delegatee} (h : s.delegs.get true (ledgerKey a) = some d) :
    stakePunish s a =
      ({ s with delegs := { s.delegs with fin := s.delegs.fin.insert (ledgerKey a) (d.doSlash s.active.slashRatio).1 } },
       some (d.doSlash s.active.slashRatio).2) := by
  unfold stakePunish; rw [h]; rfl

theorem stakePunish_ok {s : St} (a : Hex) (hi : Inv0 s) (hr : SlashSane s) :
    Inv0 (stakePunish s a).1 ∧ (stakePunish s a).1.accts = s.accts ∧ (stakePunish s a).1.frozen = s.frozen ∧
    (stakePunish s a).1.blk = s.blk ∧ (stakePunish s a).1.active = s.active ∧ (stakePunish s a).1.ghost = s.ghost ∧
    (stakePunish s a).1.delegs.hist = s.delegs.hist ∧
    bonded (stakePunish s a).1.delegs.fin = bonded s.delegs.fin -
      (match s.delegs.get true (ledgerKey a) with | none => 0 | some d => slashLoss d s.active.slashRatio) := by
  cases h : s.delegs.get true (ledgerKey a) with
  | none => rw [stakePunish_none h]; simp [hi]
  | some d =>
    have hf : s.delegs.fin[ledgerKey a]? = some d := by simpa [Led.get] using h
    obtain ⟨hk, ht, hp⟩ := hi.delegKey _ _ hf
    rw [stakePunish_some h]
    refine ⟨⟨hi.acctKey, ?_, hi.frozenKey⟩, rfl, rfl, rfl, rfl, rfl, rfl, ?_⟩
    · intro k d' hd'
      simp only at hd'
      rw [ExtTreeMap.getElem?_insert] at hd'
      split at hd'
      · rename_i hkk
        injection hd' with hd'; subst hd'
        refine ⟨?_, doSlash_total _ _, doSlash_powerOK _ _ hr.1 hr.2 hp⟩
        rw [doSlash_addr, hk]; simpa using hkk
      · exact hi.delegKey k d' hd'
    · simp only
      unfold bonded
      rw [msum_insert, fAt_some _ hf]
      unfold slashLoss
      omega

/-! ### the evidence fold of `beginBlock` -/

/-- the step function of the stake controller's evidence fold in `beginBlock` -/
theorem stakeStep_fst (acc : St) (l : List Int) (a : Hex) :
    ((fun ((acc, l) : St × List Int) (a : Hex) =>
      match stakePunish acc a with
      | (acc', some sl) => (acc', l ++ [sl])
      | (acc', none) => (acc', l)) (acc, l) a).1 = (stakePunish acc a).1 := by
  simp only
  split <;> simp_all

theorem stakeFold_ok (ev : List Hex) : ∀ (s : St) (l : List Int), Inv0 s → SlashSane s →
    let r := ev.foldl (fun ((acc, l) : St × List Int) a =>
      match stakePunish acc a with
      | (acc', some sl) => (acc', l ++ [sl])
      | (acc', none) => (acc', l)) (s, l)
    Inv0 r.1 ∧ r.1.accts = s.accts ∧ r.1.frozen = s.frozen ∧ r.1.blk = s.blk ∧ r.1.active = s.active ∧
    r.1.ghost = s.ghost ∧ r.1.delegs.hist = s.delegs.hist ∧
    holdings r.1 = holdings s - (amountPerPower : Int) * slashLossList s ev := by
  induction ev with
  | nil =>
    intro s l hi _
    simp [hi, slashLossList]
  | cons a ev ih =>
    intro s l hi hr
    obtain ⟨p1, p2, p3, p4, p5, p6, p7, p8⟩ := stakePunish_ok a hi hr
    generalize hf : (fun ((acc, l) : St × List Int) (a : Hex) =>
      match stakePunish acc a with
      | (acc', some sl) => (acc', l ++ [sl])
      | (acc', none) => (acc', l)) = f at ih ⊢
    have hstep : (f (s, l) a).1 = (stakePunish s a).1 := by rw [← hf]; exact stakeStep_fst s l a
    rw [List.foldl_cons]
    generalize f (s, l) a = x at hstep ⊢
    obtain ⟨s1, l1⟩ := x
    change s1 = _ at hstep
    subst hstep
    have hr1 : SlashSane (stakePunish s a).1 := by unfold SlashSane; rw [p5]; exact hr
    obtain ⟨q1, q2, q3, q4, q5, q6, q7, q8⟩ := ih (stakePunish s a).1 l1 p1 hr1
    refine ⟨q1, q2.trans p2, q3.trans p3, q4.trans p4, q5.trans p5, q6.trans p6, q7.trans p7, ?_⟩
    show holdings _ = _
    rw [q8]
    have hh : holdings (stakePunish s a).1 = holdings s - (amountPerPower : Int) *
        (match s.delegs.get true (ledgerKey a) with | none => 0 | some d => slashLoss d s.active.slashRatio) := by
      unfold holdings
      rw [p2, p3, p8, Int.mul_add, Int.mul_add, Int.mul_sub]
      omega
    rw [hh]
    have hl : slashLossList s (a :: ev) =
        (match s.delegs.get true (ledgerKey a) with | none => 0 | some d => slashLoss d s.active.slashRatio) +
          slashLossList (stakePunish s a).1 ev := rfl
    rw [hl, Int.mul_add]
    omega

/-! ### `slashLossList` depends on the delegatee ledger and the active parameters only -/

theorem stakePunish_congr {s s' : St} (a : Hex) (hd : s'.delegs = s.delegs) (ha : s'.active = s.active) :
    (stakePunish s' a).1.delegs = (stakePunish s a).1.delegs ∧
    (stakePunish s' a).1.active = (stakePunish s a).1.active := by
  unfold stakePunish
  rw [hd, ha]
  cases s.delegs.get true (ledgerKey a) with
  | none => exact ⟨hd, ha⟩
  | some d => exact ⟨rfl, rfl⟩

theorem slashLossList_congr (ev : List Hex) : ∀ (s s' : St), s'.delegs = s.delegs → s'.active = s.active →
    slashLossList s' ev = slashLossList s ev := by
  induction ev with
  | nil => intro s s' _ _; rfl
  | cons a ev ih =>
    intro s s' hd ha
    obtain ⟨h1, h2⟩ := stakePunish_congr a hd ha
    have e1 : slashLossList s' (a :: ev) =
        (match s'.delegs.get true (ledgerKey a) with | none => 0 | some d => slashLoss d s'.active.slashRatio) +
          slashLossList (stakePunish s' a).1 ev := rfl
    have e2 : slashLossList s (a :: ev) =
        (match s.delegs.get true (ledgerKey a) with | none => 0 | some d => slashLoss d s.active.slashRatio) +
          slashLossList (stakePunish s a).1 ev := rfl
    rw [e1, e2, ih _ _ h1 h2, hd, ha]

end Rigo.C02
