/-
  Equality theorems for the stake limiter (ctrlers/stake/limiter.go): `reset`, `findPowerObj`,
  and the link of `checkIndividualPowerLimit` to the first stage of the model's `Limiter.check`.
  (`checkUpdatablePowerLimit` is outside the translated subset: it updates an element of
  `powerObjs` through a pointer returned by `findPowerObj` and calls `sort.Sort`.)
-/
import RigoProofs.GenFuncsLoops

set_option linter.unusedSimpArgs false

namespace Rigo.GenEq
open Rigo Rigo.Gen

/-- the generated `StakeLimiter` as the model's `Limiter` (`powerObjs == nil` ⇔ no entries) -/
def toLimiter (g : StakeLimiter) : Limiter :=
  { objs := g.objs, isNil := g.objs.isEmpty, base := g.base, updated := g.updated,
    maxCnt := g.maxCnt, indi := g.indi, upd := g.upd }

/-! ### `findPowerObj` -/

theorem StakeLimiter_findPowerObj_eq (sl : StakeLimiter) (addr : Hex) :
    StakeLimiter_findPowerObj sl addr = .ok (match sl.objs.findIdx? (fun o => decide (o.1 = addr)) with
      | some k => ((k : Int), sl.objs[k]?)
      | none => (-1, none)) := by
  unfold StakeLimiter_findPowerObj
  dsimp only
  rw [forIn_eq_pure _ (findL (fun o : Hex × Int => o.1 = addr))]
  · simp only [bind, Except.bind, pure, Except.pure, findL_fst]
    cases h : sl.objs.findIdx? (fun o => decide (o.1 = addr)) with
    | none => simp
    | some k => simp
  · intro s; rfl
  · intro x xs ⟨r, i⟩
    by_cases c : x.1 = addr <;>
      simp [findL, c, HexBytes_Compare_eq, cmpBytes_eq_zero, pure, Except.pure, bind, Except.bind]

/-- the index component is the model's `idxOf`, the object component the model's `find?` -/
theorem StakeLimiter_findPowerObj_model (sl : StakeLimiter) (addr : Hex) :
    StakeLimiter_findPowerObj sl addr =
      .ok (Limiter.idxOf sl.objs addr, sl.objs.find? (·.1 == addr)) := by
  rw [StakeLimiter_findPowerObj_eq]
  have e : (fun o : Hex × Int => decide (o.1 = addr)) = (fun o => o.1 == addr) := by
    funext o; by_cases c : o.1 = addr <;> simp [c]
  unfold Limiter.idxOf
  rw [e, List.find?_eq_bind_findIdx?_getElem?]
  cases h : sl.objs.findIdx? (fun o => o.1 == addr) <;> simp

/-! ### `reset` -/

def resetL (m : Int) : List Delegatee → Int × List (Hex × Int) × Int → Int × List (Hex × Int) × Int
  | [], s => s
  | d :: ds, (b, po, i) =>
    resetL m ds (if i + 1 < m then b + d.total else b, po ++ [(d.addr, d.total)], i + 1)

theorem resetL_eq (m : Int) (ds : List Delegatee) (b : Int) (po : List (Hex × Int)) (k : Nat) :
    resetL m ds (b, po, (k : Int) - 1) =
      (b + (((ds.zipIdx k).filter fun (_, i) => (i : Int) < m).map (·.1.total)).sum,
       po ++ ds.map (fun d => (d.addr, d.total)), (k : Int) - 1 + ds.length) := by
  induction ds generalizing b po k with
  | nil => simp [resetL]
  | cons d ds ih =>
    simp only [resetL, Int.sub_add_cancel, List.zipIdx_cons]
    have e : (k : Int) = ((k + 1 : Nat) : Int) - 1 := by omega
    rw [e, ih]
    by_cases c : (k : Int) < m
    · have c' : ((k + 1 : Nat) : Int) - 1 < m := by omega
      simp [c, c', List.filter_cons]; omega
    · have c' : ¬ ((k + 1 : Nat) : Int) - 1 < m := by omega
      simp [c, c', List.filter_cons]; omega

/-- `reset(delgs, maxValCnt, indi, upd)` = `Limiter.reset` -/
theorem StakeLimiter_reset_eq (sl : StakeLimiter) (ds : List Delegatee) (m indi upd : Int) :
    ∃ g, StakeLimiter_reset sl ds m indi upd = .ok g ∧ toLimiter g = Limiter.reset ds m indi upd := by
  unfold StakeLimiter_reset
  dsimp only
  rw [forIn_eq_pure _ (resetL m)]
  · have := resetL_eq m ds 0 [] 0
    simp only [Int.natCast_zero, Int.zero_sub] at this
    simp only [bind, Except.bind, pure, Except.pure, this]
    refine ⟨_, rfl, ?_⟩
    simp [toLimiter, Limiter.reset]
  · intro s; rfl
  · intro x xs ⟨b, po, i⟩
    by_cases c : i + 1 < m <;> simp [resetL, c, bind, Except.bind, pure, Except.pure]

/-! ### individual limit: link to `Limiter.check` -/

/-- when the generated individual check panics / rejects, so does the model's `check`
    (the limiter being non-nil) -/
theorem check_individual_link (sl : StakeLimiter) (d : Delegatee) (diff : Int) (apply : Bool)
    (hnil : sl.objs.isEmpty = false) :
    (G.panics (StakeLimiter_checkIndividualPowerLimit sl d diff) →
       (toLimiter sl).check d.addr d.total diff apply = .panic "limiter: division by zero (individual)") ∧
    (∀ e, StakeLimiter_checkIndividualPowerLimit sl d diff = .ok (some e) →
       (toLimiter sl).check d.addr d.total diff apply = .reject "individual") := by
  have hm := StakeLimiter_checkIndividualPowerLimit_eq sl d diff
  unfold Limiter.check
  simp only [toLimiter, hnil]
  by_cases h1 : diff ≤ 0
  · simp only [h1, if_true, G.matches_ok] at hm
    constructor
    · intro hp; rw [hm] at hp; simp at hp
    · intro e he; rw [hm] at he; simp at he
  · by_cases h2 : sl.base + diff = 0
    · simp only [h1, h2, if_true, if_false, G.matches_panic] at hm
      constructor
      · intro _; simp [h1, h2]
      · intro e he; rw [he] at hm; simp at hm
    · by_cases h3 : Int.tdiv ((d.total + diff) * 100) (sl.base + diff) > sl.indi
      · simp only [h1, h2, h3, if_true, if_false, G.matches_ok] at hm
        constructor
        · intro hp; rw [hm] at hp; simp at hp
        · intro e _; simp [h1, h2, h3]
      · simp only [h1, h2, h3, if_false, G.matches_ok] at hm
        constructor
        · intro hp; rw [hm] at hp; simp at hp
        · intro e he; rw [hm] at he; simp at he

end Rigo.GenEq
