/-
  C10 — `valset_mirror_params`: the validator-set mirror property with the parameter hypothesis on the INPUTS only
  (genesis parameters and the apply-time parse `parsedA` of the options of delivered proposal transactions),
  i.e. the body of `Rigo.C10.valset_mirror_params_statement` (RigoProps/C10.lean), proved.

  Why "every option merged into the GENESIS parameters is OK" is enough although parameters may be changed by several
  successive proposals (an option is then merged into already-changed parameters, `mergeParams s.active o`):
  `RatioOK` looks at the field `slashRatio` only, `MinStakeOK` at the field `minValidatorStake` only, and
  `mergeParams` is field-wise — a field of the result is either the option's value (the same value whatever the
  base) or the base's value.  Hence `OKP (mergeParams g po) → ∀ base, OKP base → OKP (mergeParams base po)`
  (`optGood_of_merge`; it does not even use that `g` itself is OK).

  Which parse is applied: `applyProposals` merges `m.parsedA` of the recorded major option (`parsedV` is only
  inspected by `validateProposal`); the hypothesis of the statement speaks about `parsedA`, which is the right one.
  No counter-example: the statement is true as written.
-/
import RigoProofs.C10ParamsStep

open Std

namespace Rigo.C10P
open Rigo Rigo.C15 Rigo.TM

/-- the two conditions `valset_mirror_inputs` needs of the active parameters -/
def OKP (p : Params) : Prop := RatioOK p ∧ MinStakeOK p

instance (p : Params) : Decidable (OKP p) := by unfold OKP; infer_instance

/-- an option that keeps `OKP` whatever OK parameters it is merged into -/
def OptGood (po : POpt) : Prop := ∀ base, OKP base → OKP (mergeParams base po)

theorem merge_slashRatio (b : Params) (po : POpt) :
    (mergeParams b po).slashRatio = if po.slashRatio = 0 then b.slashRatio else po.slashRatio := rfl

theorem merge_minValidatorStake (b : Params) (po : POpt) :
    (mergeParams b po).minValidatorStake =
      match po.minValidatorStake with
      | some v => if v = 0 then b.minValidatorStake else v
      | none => b.minValidatorStake := rfl

/-- the decidable, base-free form of `OptGood`: the two fields the mirror theorem depends on are unset or in range -/
def OptFieldsOK (po : POpt) : Prop :=
  (po.slashRatio = 0 ∨ (0 ≤ po.slashRatio ∧ po.slashRatio ≤ 100)) ∧
  (po.minValidatorStake = none ∨ po.minValidatorStake = some 0 ∨
    ∃ v, po.minValidatorStake = some v ∧ amountPerPower ≤ v ∧ v < two64 * amountPerPower)

theorem optFieldsOK_of_merge {g0 : Params} {po : POpt} (h : OKP (mergeParams g0 po)) : OptFieldsOK po := by
  obtain ⟨hr, hm⟩ := h
  unfold RatioOK at hr
  unfold MinStakeOK at hm
  rw [merge_slashRatio] at hr
  rw [merge_minValidatorStake] at hm
  constructor
  · by_cases h0 : po.slashRatio = 0
    · exact Or.inl h0
    · rw [if_neg h0] at hr; exact Or.inr hr
  · cases hv : po.minValidatorStake with
    | none => exact Or.inl rfl
    | some v =>
      rw [hv] at hm
      simp only [] at hm
      by_cases h0 : v = 0
      · subst h0; exact Or.inr (Or.inl rfl)
      · rw [if_neg h0] at hm; exact Or.inr (Or.inr ⟨v, rfl, hm⟩)

theorem optGood_of_fields {po : POpt} (h : OptFieldsOK po) : OptGood po := by
  intro base hb
  obtain ⟨hr, hm⟩ := hb
  obtain ⟨h1, h2⟩ := h
  unfold RatioOK at hr
  unfold MinStakeOK at hm
  constructor
  · unfold RatioOK
    rw [merge_slashRatio]
    rcases h1 with h1 | h1
    · rw [if_pos h1]; exact hr
    · by_cases h0 : po.slashRatio = 0
      · rw [if_pos h0]; exact hr
      · rw [if_neg h0]; exact h1
  · unfold MinStakeOK
    rw [merge_minValidatorStake]
    rcases h2 with h2 | h2 | ⟨v, h2, hv⟩
    · rw [h2]; exact hm
    · rw [h2]; exact hm
    · rw [h2]
      simp only []
      by_cases h0 : v = 0
      · rw [if_pos h0]; exact hm
      · rw [if_neg h0]; exact hv

/-- **the successive-merge lemma**: an option whose merge into SOME parameter set (e.g. the genesis parameters) is OK
    is OK merged into ANY OK parameter set — `RatioOK` / `MinStakeOK` are per-field and `mergeParams` is field-wise -/
theorem optGood_of_merge {g0 : Params} {po : POpt} (h : OKP (mergeParams g0 po)) : OptGood po :=
  optGood_of_fields (optFieldsOK_of_merge h)

/-- conversely (for an OK base) -/
theorem optFieldsOK_iff {g0 : Params} (hg : OKP g0) (po : POpt) : OKP (mergeParams g0 po) ↔ OptFieldsOK po :=
  ⟨optFieldsOK_of_merge, fun h => optGood_of_fields h g0 hg⟩

/-- the hypothesis of the statement on one history, named -/
def OptionsOK (g : Genesis) (ops : List Op) : Prop :=
  ∀ op ∈ ops, ∀ tx msg st pe ap ty opts, op = Op.deliver tx → tx.payload = Payload.proposal msg st pe ap ty opts →
    ∀ o ∈ opts, ∀ po, o.parsedA = some po → RatioOK (mergeParams g.params po) ∧ MinStakeOK (mergeParams g.params po)

/-- the invariant along every history whose inputs are OK: active and pending parameters are OK, every option that
    can still be applied is good -/
theorem pinv_of_inputs (g : Genesis) (ops : List Op) (hno : ∀ op ∈ ops, op.isInit = false)
    (hr : RatioOK g.params) (hm : MinStakeOK g.params) (hopt : OptionsOK g ops) :
    PInv OKP OptGood (exec (initChain g) ops) := by
  refine pinv_exec (Q := OKP) (G := OptGood) (fun b po hb hg => hg b hb) g ⟨hr, hm⟩ ops hno ?_
  intro op hop tx hd msg st pe ap ty opts hpl o ho po hpo
  exact optGood_of_merge (hopt op hop tx msg st pe ap ty opts hd hpl o ho po hpo)

/-- **`ParamsAlong` from the inputs**: the state hypothesis of `valset_mirror_inputs` follows from the genesis
    parameters being OK and every option of every delivered proposal transaction, merged into the genesis
    parameters, being OK -/
theorem paramsAlong_of_inputs (g : Genesis) (ops : List Op) (hno : ∀ op ∈ ops, op.isInit = false)
    (hr : RatioOK g.params) (hm : MinStakeOK g.params) (hopt : OptionsOK g ops) :
    ParamsAlong (initChain g) ops := by
  intro pre post e
  subst e
  exact (pinv_of_inputs g pre (fun o ho => hno o (by simp [ho])) hr hm
    (fun op hop => hopt op (by simp [hop]))).active

/-- **valset_mirror_params** (= the body of `Rigo.C10.valset_mirror_params_statement`, verbatim): for every history
    whose inputs satisfy `InputsOK`, whose genesis parameters have a slash ratio in 0..100 and
    10^18 ≤ minValidatorStake < 2^64·10^18, and in which every option of every delivered proposal transaction (its
    apply-time parse), merged into the genesis parameters, satisfies the same two conditions, folding all emitted
    validator updates over ∅ gives exactly the set of `lastVals`. -/
theorem valset_mirror_params :
    ∀ (f : Hex → Hex), Injective f → ∀ (g : Genesis) (ops : List Op), InputsOK f g ops →
      RatioOK g.params → MinStakeOK g.params →
      (∀ op ∈ ops, ∀ tx msg st pe ap ty opts, op = Op.deliver tx → tx.payload = Payload.proposal msg st pe ap ty opts →
        ∀ o ∈ opts, ∀ po, o.parsedA = some po → RatioOK (mergeParams g.params po) ∧ MinStakeOK (mergeParams g.params po)) →
      applyUpdates ∅ (updatesOf (run (initChain g) ops).2) = asSet (exec (initChain g) ops).lastVals := by
  intro f finj g ops hin hr hm hopt
  have hp := paramsAlong_of_inputs g ops (fun op ho => (hin.hist op ho).1) hr hm hopt
  have h := (TM.valset_mirror_inputs finj g ops hin hp).1
  rw [(initChain_lists g).2.1] at h
  exact h

/-- the same relative to the genesis set (hypothesis `GenesisAnnouncedFirst` as in `valset_mirror_from_genesis`) -/
theorem valset_mirror_params_from_genesis {f : Hex → Hex} (finj : Injective f) (g : Genesis) (ops : List Op)
    (hin : InputsOK f g ops) (hr : RatioOK g.params) (hm : MinStakeOK g.params) (hopt : OptionsOK g ops)
    (hfirst : GenesisAnnouncedFirst g ops) :
    applyUpdates (genesisSet g) (updatesOf (run (initChain g) ops).2) = asSet (exec (initChain g) ops).lastVals :=
  TM.valset_mirror_from_genesis finj g ops hin
    (paramsAlong_of_inputs g ops (fun op ho => (hin.hist op ho).1) hr hm hopt) hfirst

/-! ### a decidable check of the option hypothesis -/

/-- all options of a proposal payload, merged into `g0`, are OK -/
def txOptsCheck (g0 : Params) (tx : TxIn) : Bool :=
  match tx.payload with
  | .proposal _ _ _ _ _ opts =>
    opts.all fun o => match o.parsedA with
      | some po => decide (OKP (mergeParams g0 po))
      | none => true
  | _ => true

def opOptsCheck (g0 : Params) : Op → Bool
  | .deliver tx => txOptsCheck g0 tx
  | _ => true

/-- `OptionsOK` can be established by evaluation -/
theorem optionsOK_of_check {g : Genesis} {ops : List Op} (h : ops.all (opOptsCheck g.params) = true) :
    OptionsOK g ops := by
  intro op hop tx msg st pe ap ty opts hd hpl o ho po hpo
  have h1 := List.all_eq_true.mp h op hop
  subst hd
  simp only [opOptsCheck, txOptsCheck, hpl] at h1
  have h2 := List.all_eq_true.mp h1 o ho
  simp only [hpo] at h2
  exact of_decide_eq_true h2

/-! ### non-vacuity -/

def addrA : Hex := "aaaaaaaaaaaaaaaaaaaaaaaaaaaaaaaaaaaaaaaa"
def addrZ : Hex := "0000000000000000000000000000000000000000"

/-- one validator A (key = address, `f = id`), sane parameters -/
def exG : Genesis :=
  { chainId := "c10p", holders := [(addrA, 1000)], vals := [(addrA, addrA, 10)],
    params := { maxValidatorCnt := 10, minValidatorStake := 1000000000000000000, minDelegatorStake := 0,
                rewardPerPower := 3, lazyRewardBlocks := 2, lazyApplyingBlocks := 1, gasPrice := 1,
                minTrxGas := 1, maxTrxGas := 1000, maxBlockGas := 100000, minVotingPeriodBlocks := 1,
                maxVotingPeriodBlocks := 100, minSelfStakeRatio := 50, maxUpdatableStakeRatio := 30,
                maxIndividualStakeRatio := 100, slashRatio := 50, signedBlocksWindow := 100, minSignedBlocks := 5,
                version := 1 } }

def unsetOpt : POpt :=
  { maxValidatorCnt := 0, minValidatorStake := none, minDelegatorStake := none, rewardPerPower := none,
    lazyRewardBlocks := 0, lazyApplyingBlocks := 0, gasPrice := none, minTrxGas := 0, maxTrxGas := 0,
    maxBlockGas := 0, minVotingPeriodBlocks := 0, maxVotingPeriodBlocks := 0, minSelfStakeRatio := 0,
    maxUpdatableStakeRatio := 0, maxIndividualStakeRatio := 0, slashRatio := 0, signedBlocksWindow := 0,
    minSignedBlocks := 0, version := 0 }

/-- option 0 changes BOTH fields the mirror theorem depends on; option 1 changes neither -/
def optA : POpt := { unsetOpt with slashRatio := 30, minValidatorStake := some 2000000000000000000 }
def optB : POpt := { unsetOpt with gasPrice := some 2 }
def voA : VoteOpt := { raw := "7b", parsedV := some optA, parsedA := some optA }
def voB : VoteOpt := { raw := "7c", parsedV := some optB, parsedA := some optB }

/-- A proposes in block 3: voting in 4..5, applying at 6 -/
def txProp : TxIn :=
  { hash := "b0", sigOk := true, from_ := addrA, to := addrZ, gas := 1, price := 1, type := TRX_PROPOSAL,
    payload := .proposal "" 4 1 6 PROPOSAL_GOVPARAMS [voA, voB] }
/-- A (the only validator: 10 of 10 ≥ ⌊2·10/3⌋) votes for option 0 in block 4 -/
def txVote : TxIn :=
  { hash := "b1", sigOk := true, nonce := 1, from_ := addrA, to := addrZ, gas := 1, price := 1, type := TRX_VOTING,
    payload := .voting "b0" 0 }

def exBlock (n : Int) (txs : List TxIn) : List Op := [.begin_ { height := n }] ++ txs.map Op.deliver ++ [.end_, .commit]

/-- seven blocks: proposal in 3, vote in 4, frozen at EndBlock 6, applied at EndBlock 7, active from Commit 7.
    Evaluating the model on this history (`#eval`, compiled code — the kernel cannot, `isZeroAddr` = `String.all`
    does not reduce) gives: both transactions answered "ok", no panic, and
    `(exec (initChain exG) exOps).active.slashRatio = 30`, `….minValidatorStake = 2·10^18`, `lastVals = [A]`:
    the proposal passes and changes both fields. -/
def exOps : List Op :=
  exBlock 1 [] ++ exBlock 2 [] ++ exBlock 3 [txProp] ++ exBlock 4 [txVote] ++ exBlock 5 [] ++ exBlock 6 [] ++ exBlock 7 []

example : Injective id := fun _ _ h => h

example : RatioOK exG.params ∧ MinStakeOK exG.params := ⟨by decide, by decide⟩

/-- the option hypothesis of `valset_mirror_params` on a history that delivers a (passing) governance proposal -/
theorem exOps_optionsOK : OptionsOK exG exOps := optionsOK_of_check (by decide)

theorem exOps_inputsOK : InputsOK id exG exOps := by
  refine ⟨by decide, ?_, ?_, ?_⟩
  · intro v hv; simp [exG] at hv; subst hv; exact ⟨rfl, by decide⟩
  · intro op hop
    cases op with
    | init g => simp [exOps, exBlock] at hop
    | deliver tx =>
      simp [exOps, exBlock] at hop
      rcases hop with rfl | rfl
      · exact ⟨rfl, (show txProp.to.length % 2 = 0 by decide)⟩
      · exact ⟨rfl, (show txVote.to.length % 2 = 0 by decide)⟩
    | _ => exact ⟨rfl, trivial⟩
  · intro op hop
    cases op with
    | deliver tx =>
      simp [exOps, exBlock] at hop
      rcases hop with rfl | rfl <;> (intro h; exact absurd h (by decide))
    | _ => trivial

/-- the theorem applies to it -/
example : applyUpdates ∅ (updatesOf (run (initChain exG) exOps).2) = asSet (exec (initChain exG) exOps).lastVals :=
  valset_mirror_params id (fun _ _ h => h) exG exOps exOps_inputsOK (by decide) (by decide) exOps_optionsOK

/-- the apply step, kernel-checked on a hand-made state: block 7 is open, the frozen proposal (major option `voA`)
    is committed; EndBlock makes the merged parameters pending, and they are OK -/
def pFrozen : Proposal :=
  { hash := "b0", start := 4, end_ := 5, applying := 6, total := 10, majority := 6, optType := PROPOSAL_GOVPARAMS,
    voters := [{ addr := addrA, power := 10, choice := 0 }],
    options := [{ voA with votes := 10 }, voB], major := some { voA with votes := 10 } }
def sApply : St :=
  { chainId := "c10p", active := exG.params, lastHeight := 6, blk := some { height := 7 },
    fprops := { hist := [({} : KMap Proposal).insert (ledgerKey "b0") pFrozen],
                fin := ({} : KMap Proposal).insert (ledgerKey "b0") pFrozen,
                chk := ({} : KMap Proposal).insert (ledgerKey "b0") pFrozen } }

example : (endBlock sApply).1.pending =
    some { exG.params with slashRatio := 30, minValidatorStake := 2000000000000000000 } := by decide
example : OKP (mergeParams exG.params optA) := by decide
/-- successive merges: `optA` on top of parameters already changed by another proposal -/
example : OKP (mergeParams (mergeParams (mergeParams exG.params optA) optB) optA) := by decide

/-- an option the hypothesis excludes (slash ratio 200, cf. C15 `total_inv_punish_witness`): not `OptFieldsOK` -/
example : ¬ OptFieldsOK { unsetOpt with slashRatio := 200 } := by
  intro h; rcases h.1 with h | h
  · exact absurd h (by decide)
  · exact absurd h.2 (by decide)

end Rigo.C10P
