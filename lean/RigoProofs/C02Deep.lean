/-
  C02 deepening: non-negativity of the burns, `SupplyBound` derived from a bound on
  genesis total + withdrawn rewards, the no-wrap invariant, conservation over the committed versions,
  and a decidable checker for the side conditions `RunOK`.
-/
import RigoProofs.C02Init

namespace Rigo.C02

open Std Rigo.Delegatee

/-! ### (1) slashing never creates value -/

theorem sumPower_eraseP_le (p : Stake → Bool) : ∀ (l : List Stake), (∀ x ∈ l, 0 ≤ x.power) →
    sumPower (l.eraseP p) ≤ sumPower l := by
  intro l
  induction l with
  | nil => intro _; simp
  | cons a l ih =>
    intro h
    by_cases hp : p a
    · rw [List.eraseP_cons_of_pos hp, sumPower_cons]
      have := h a (by simp); omega
    · rw [List.eraseP_cons_of_neg hp, sumPower_cons, sumPower_cons]
      have := ih (fun x hx => h x (List.mem_cons_of_mem _ hx))
      omega

theorem sumPower_foldl_eraseP_le (rem : List Stake) : ∀ (acc : List Stake), (∀ x ∈ acc, 0 ≤ x.power) →
    sumPower (rem.foldl (fun acc r => acc.eraseP (·.hash == r.hash)) acc) ≤ sumPower acc := by
  induction rem with
  | nil => intro acc _; simp
  | cons r rem ih =>
    intro acc h
    rw [List.foldl_cons]
    have h1 := sumPower_eraseP_le (·.hash == r.hash) acc h
    have h2 := ih (acc.eraseP (·.hash == r.hash)) (fun x hx => h x (List.mem_of_mem_eraseP hx))
    omega

/-- the per-stake reduction of `doSlash` -/
def redFn (ratio : Int) (s : Stake) : Stake :=
  let sl := Int.tdiv (s.power * ratio) 100; if sl < 1 then s else { s with power := s.power - sl }

theorem redFn_bounds (ratio : Int) (hr : 0 ≤ ratio) (hr' : ratio ≤ 100) (a : Stake) (hp : PowerOK a.power) :
    0 ≤ (redFn ratio a).power ∧ (redFn ratio a).power ≤ a.power := by
  have hb := slash_bounds hp.1 hr hr'
  unfold redFn
  simp only
  split
  · exact ⟨hp.1, Int.le_refl _⟩
  · simp only; omega

theorem reduced_le (ratio : Int) (hr : 0 ≤ ratio) (hr' : ratio ≤ 100) : ∀ (l : List Stake),
    (∀ st ∈ l, PowerOK st.power) →
    sumPower (l.map (redFn ratio)) ≤ sumPower l ∧ ∀ x ∈ l.map (redFn ratio), 0 ≤ x.power := by
  intro l
  induction l with
  | nil => intro _; simp [sumPower]
  | cons a l ih =>
    intro h
    obtain ⟨ih1, ih2⟩ := ih (fun st hst => h st (List.mem_cons_of_mem _ hst))
    have hb := redFn_bounds ratio hr hr' a (h a (by simp))
    simp only [List.map_cons, sumPower_cons, List.mem_cons]
    refine ⟨by omega, ?_⟩
    rintro x (hx | hx)
    · subst hx; exact hb.1
    · exact ih2 x hx

/-- the power destroyed by `doSlash` is never negative -/
theorem slashLoss_nonneg (d : Delegatee) (ratio : Int) (hr : 0 ≤ ratio) (hr' : ratio ≤ 100)
    (hd : ∀ st ∈ d.stakes, PowerOK st.power) : 0 ≤ slashLoss d ratio := by
  unfold slashLoss
  obtain ⟨h1, h2⟩ := reduced_le ratio hr hr' d.stakes hd
  have h3 := sumPower_foldl_eraseP_le (d.stakes.filter fun s => Int.tdiv (s.power * ratio) 100 < 1) _ h2
  have e : (d.doSlash ratio).1.stakes =
      (d.stakes.filter fun s => Int.tdiv (s.power * ratio) 100 < 1).foldl (fun acc r => acc.eraseP (·.hash == r.hash))
        (d.stakes.map (redFn ratio)) := rfl
  rw [e]; omega

theorem slashLossList_nonneg (ev : List Hex) : ∀ (s : St), Inv0 s → SlashSane s → 0 ≤ slashLossList s ev := by
  induction ev with
  | nil => intro s _ _; simp [slashLossList]
  | cons a ev ih =>
    intro s hi hr
    obtain ⟨i1, _, _, _, a1, _, _, _⟩ := stakePunish_ok a hi hr
    have h2 := ih (stakePunish s a).1 i1 (by unfold SlashSane; rw [a1]; exact hr)
    cases hd : s.delegs.get true (ledgerKey a) with
    | none => simp only [slashLossList, hd]; omega
    | some d =>
      simp only [slashLossList, hd]
      have := slashLoss_nonneg d _ hr.1 hr.2 (hi.delegKey _ d (by simpa [Led.get] using hd)).2.2
      omega

theorem slashBurnStep_nonneg {s : St} {op : Op} (hi : Inv0 s) (hok : StepOK s op) : 0 ≤ slashBurnStep s op := by
  cases op with
  | begin_ h =>
    simp only [slashBurnStep]
    split
    · omega
    · exact Int.mul_nonneg (Int.le_of_lt app_pos) (slashLossList_nonneg _ s hi hok.2.1)
  | _ => simp [slashBurnStep]

theorem evmBurnStep_nonneg {s : St} {op : Op} (hok : StepOK s op) : 0 ≤ evmBurnStep s op := by
  cases op with
  | deliver tx => exact hok.2.2
  | _ => simp [evmBurnStep]

/-- "stake destroyed by slashing" and the EVM burn are never negative along an admissible history -/
theorem burns_nonneg : ∀ (ops : List Op) (p p' : Phase) (s : St), Inv p s → phaseRun p ops = some p' → RunOK s ops →
    0 ≤ slashBurnRun s ops ∧ 0 ≤ evmBurnRun s ops := by
  intro ops
  induction ops with
  | nil => intro p p' s _ _ _; simp [slashBurnRun, evmBurnRun]
  | cons op ops ih =>
    intro p p' s hinv hph hok
    simp only [phaseRun] at hph
    cases h1 : phaseStep p op with
    | none => rw [h1] at hph; cases hph
    | some p1 =>
      rw [h1] at hph; simp only at hph
      obtain ⟨ok1, ok2⟩ := hok
      obtain ⟨i1, _⟩ := step_ok hinv h1 ok1
      obtain ⟨e1, e2⟩ := ih p1 p' (step s op).1 i1 hph ok2
      have := slashBurnStep_nonneg hinv.inv0 ok1
      have := evmBurnStep_nonneg ok1
      simp only [slashBurnRun, evmBurnRun]
      omega

/-! ### (4) the committed versions -/

/-- the conserved quantity computed over the last committed versions of the three ledgers -/
def totalCommitted (s : St) : Int :=
  sumBal s.accts.committed +
    (amountPerPower : Int) * (bonded s.delegs.committed + unbonding s.frozen.committed)

theorem totalCommitted_eq {s : St} (hinv : Inv .idle s) (hh : s.accts.hist ≠ []) : totalCommitted s = total s := by
  obtain ⟨e1, e2, e3, _, _⟩ := hinv.idle rfl hh
  have hb : s.blk = none := hinv.blk.1 rfl
  unfold totalCommitted total holdings feeInFlight
  rw [← e1, ← e2, ← e3, hb]; simp

/-! ### (2) `SupplyBound` derived; no wrap-around -/

/-- side conditions of one step without `SupplyBound` -/
def StepOK1 (s : St) : Op → Prop
  | .init _ => False
  | .begin_ h => BeginCompletes s h ∧ SlashSane s ∧ JailFresh s h
  | .deliver tx => UnstakeFresh s tx ∧ EvmOracleOK s tx
  | .check _ => True
  | .end_ => EndCompletes s
  | .commit => True
  | .restart => s.accts.hist ≠ []

/-- side conditions along a history, with `W` an upper bound of the rewards withdrawn at any time -/
def RunOK1 (W : Int) : St → List Op → Prop
  | s, [] => (s.ghost.withdrawn : Int) ≤ W
  | s, op :: ops => (s.ghost.withdrawn : Int) ≤ W ∧ StepOK1 s op ∧ RunOK1 W (step s op).1 ops

theorem stepOK_of {s : St} {op : Op} (h : StepOK1 s op) (hb : SupplyBound s) : StepOK s op := by
  cases op with
  | init g => exact h
  | begin_ hd => exact h
  | deliver tx => exact ⟨hb, h.1, h.2⟩
  | check tx => trivial
  | end_ => exact ⟨h, hb⟩
  | commit => trivial
  | restart => exact h

/-- the fee-burn counter never decreases -/
theorem feeBurn_mono {p p' : Phase} {s : St} {op : Op} (hinv : Inv p s) (hph : phaseStep p op = some p')
    (hok : StepOK s op) : s.ghost.feeBurn ≤ (step s op).1.ghost.feeBurn := by
  cases op with
  | init g => exact absurd hok (by simp [StepOK])
  | check tx => exact Nat.le_of_eq (check_ok tx hinv).2.2.2.2.symm
  | begin_ h =>
    cases p <;> simp [phaseStep] at hph
    have := (begin_ok hinv hok.1 hok.2.1 hok.2.2).2.2
    show _ ≤ (beginBlock s h).1.ghost.feeBurn
    rw [this]; exact Nat.le_refl _
  | deliver tx =>
    cases p <;> simp [phaseStep] at hph
    exact Nat.le_of_eq (deliver_ok hinv hok.1 hok.2.1 hok.2.2).2.2.symm
  | end_ =>
    cases p <;> simp [phaseStep] at hph
    exact end_feeBurn_le hinv hok.2 hok.1
  | commit =>
    cases p <;> simp [phaseStep] at hph
    have := (commit_ok hinv).2.2
    show _ ≤ (commit s).1.ghost.feeBurn
    rw [this]; exact Nat.le_refl _
  | restart =>
    cases p <;> simp [phaseStep] at hph
    exact Nat.le_refl _

/-- the run theorem with `SupplyBound` DERIVED from `C + W < 2^63·10^18`
    (C = value accounted at the start minus rewards withdrawn so far, W = bound on withdrawn rewards) -/
theorem run_ok1 (W C : Int) (hC : C + W < ((two63 * amountPerPower : Nat) : Int)) :
    ∀ (ops : List Op) (p p' : Phase) (s : St), Inv p s → phaseRun p ops = some p' → RunOK1 W s ops →
    valueAt p s ≤ C + s.ghost.withdrawn →
    RunOK s ops ∧ Inv p' (exec s ops) ∧
    ((exec s ops).ghost.withdrawn : Int) ≤ W ∧
    valueAt p' (exec s ops) ≤ C + (exec s ops).ghost.withdrawn := by
  intro ops
  induction ops with
  | nil =>
    intro p p' s hinv hph hok hv
    simp only [phaseRun] at hph; injection hph with hph; subst hph
    exact ⟨trivial, hinv, hok, hv⟩
  | cons op ops ih =>
    intro p p' s hinv hph hok hv
    simp only [phaseRun] at hph
    cases h1 : phaseStep p op with
    | none => rw [h1] at hph; cases hph
    | some p1 =>
      rw [h1] at hph; simp only at hph
      obtain ⟨hW, ok1, ok2⟩ := hok
      have sok : StepOK s op := by
        by_cases hp : p = .ended
        · subst hp
          cases op <;> simp [phaseStep] at h1 <;> trivial
        · apply stepOK_of ok1
          unfold SupplyBound
          unfold valueAt at hv; rw [if_neg hp] at hv; omega
      obtain ⟨i1, e1⟩ := step_ok hinv h1 sok
      have b1 := slashBurnStep_nonneg hinv.inv0 sok
      have b2 := evmBurnStep_nonneg sok
      have b3 := feeBurn_mono hinv h1 sok
      have key : valueAt p1 (step s op).1 ≤ C + (step s op).1.ghost.withdrawn := by omega
      obtain ⟨r1, r2, r3, r4⟩ := ih p1 p' (step s op).1 i1 hph ok2 key
      rw [exec_cons]
      exact ⟨⟨sok, r1⟩, r2, r3, r4⟩

/-- every well-phased history whose steps satisfy `StepOK1` and in which the rewards withdrawn never
    exceed `W`, with `genesisTotal g + W < 2^63·10^18`, satisfies `SupplyBound` at every step (so `RunOK`
    holds), keeps the invariant, and its value never exceeds genesis total + withdrawn rewards -/
theorem supply_bound_derived (g : Genesis) (hg : GenesisSane g) (W : Int)
    (hB : genesisTotal g + W < ((two63 * amountPerPower : Nat) : Int)) (ops : List Op) (p : Phase)
    (hph : phaseRun .idle ops = some p) (hok : RunOK1 W (initChain g) ops) :
    RunOK (initChain g) ops ∧ Inv p (exec (initChain g) ops) ∧
    valueAt p (exec (initChain g) ops) ≤ genesisTotal g + (exec (initChain g) ops).ghost.withdrawn ∧
    ((exec (initChain g) ops).ghost.withdrawn : Int) ≤ W := by
  have hp := initChain_initP g hg
  obtain ⟨r1, r2, r3, r4⟩ := run_ok1 W (genesisTotal g) hB ops .idle p (initChain g) (init_inv g hg) hph hok
    (by rw [valueAt_idle, hp.withdrawn]; unfold genesisTotal; omega)
  exact ⟨r1, r2, r4, r3⟩

/-- no uint256 quantity is anywhere near wrapping -/
structure NoWrap (p : Phase) (s : St) : Prop where
  bal : ∀ (k : String) (a : Account), s.accts.fin[k]? = some a → (a.bal : Int) < ((two63 * amountPerPower : Nat) : Int)
  fee : p ≠ .ended → feeInFlight s < ((two63 * amountPerPower : Nat) : Int)
  bondedPower : ∀ (k : String) (d : Delegatee), s.delegs.fin[k]? = some d → ∀ st ∈ d.stakes, PowerOK st.power
  unbondingPower : ∀ (k : String) (st : Stake), s.frozen.fin[k]? = some st → PowerOK st.power
  stakeValue : (amountPerPower : Int) * (bonded s.delegs.fin + unbonding s.frozen.fin) < ((two63 * amountPerPower : Nat) : Int)

theorem noWrap_of {p : Phase} {s : St} (hinv : Inv p s) (hv : valueAt p s < ((two63 * amountPerPower : Nat) : Int)) :
    NoWrap p s := by
  have hi := hinv.inv0
  have h2 := sumBal_le_holdings hi
  have h3 := feeInFlight_nonneg s
  have h4 := sumBal_nonneg s.accts.fin
  have hh : holdings s < ((two63 * amountPerPower : Nat) : Int) := by
    unfold valueAt at hv; split at hv
    · exact hv
    · unfold total at hv; omega
  refine ⟨fun k a h => ?_, fun hp => ?_, fun k d h => (hi.delegKey k d h).2.2, fun k st h => (hi.frozenKey k st h).2, ?_⟩
  · have := bal_le_sumBal s.accts.fin h; omega
  · unfold valueAt at hv; rw [if_neg hp] at hv; unfold total at hv
    have : 0 ≤ holdings s := by omega
    omega
  · unfold holdings at hh; omega

/-! ### (3) a decidable checker for `RunOK` -/

instance (fr : KMap Stake) (ss : List Stake) : Decidable (FreezeSafe fr ss) := by unfold FreezeSafe; infer_instance

def unstakeFreshB (s : St) (tx : TxIn) : Bool :=
  if tx.type = TRX_UNSTAKING then
    match s.delegs.fin[ledgerKey tx.to]?, tx.payload with
    | some d, .unstaking hash => decide (FreezeSafe s.frozen.fin (unstakeMoved d hash))
    | _, _ => true
  else true

theorem unstakeFreshB_ok {s : St} {tx : TxIn} (h : unstakeFreshB s tx = true) : UnstakeFresh s tx := by
  intro hty d hash hd hp
  unfold unstakeFreshB at h
  rw [if_pos hty, hd, hp] at h
  simpa using h

def votesFreshB (height : Int) (rl : KMap Delegatee) : St → Nat → List VoteIn → Bool
  | _, _, [] => true
  | s, i, v :: vs =>
    decide (FreezeSafe s.frozen.fin (jailedStakes s height v)) &&
    match processVote s height rl v i with
    | .ok (s', i') => votesFreshB height rl s' i' vs
    | .panic _ => true

theorem votesFreshB_ok (height : Int) (rl : KMap Delegatee) : ∀ (vs : List VoteIn) (s : St) (i : Nat),
    votesFreshB height rl s i vs = true → VotesFresh height rl s i vs := by
  intro vs
  induction vs with
  | nil => intro s i _; trivial
  | cons v vs ih =>
    intro s i h
    simp only [votesFreshB, Bool.and_eq_true, decide_eq_true_eq] at h
    refine ⟨h.1, ?_⟩
    cases hp : processVote s height rl v i with
    | panic e => trivial
    | ok r => obtain ⟨s', i'⟩ := r; rw [hp] at h; exact ih s' i' h.2

def jailFreshB (s : St) (h : Header) : Bool :=
  match (beginPre s h).delegs.at? (hopOf h) with
  | none => true
  | some rl => votesFreshB h.height rl (beginPre s h) 0 h.votes

theorem jailFreshB_ok {s : St} {h : Header} (hb : jailFreshB s h = true) : JailFresh s h := by
  intro rl hat
  unfold jailFreshB at hb; rw [hat] at hb
  exact votesFreshB_ok _ _ _ _ _ hb

def beginCompletesB (s : St) (h : Header) : Bool :=
  decide (h.height = s.lastHeight + 1) &&
  (match amountToPower (beginGov s h).active.minValidatorStake with | .ok _ => true | .panic _ => false) &&
  (h.votes.isEmpty ||
    match (beginPre s h).delegs.at? (hopOf h) with
    | none => false
    | some rl => match votesFold h.height rl (beginPre s h) h.votes with | .ok _ => true | .panic _ => false)

theorem beginCompletesB_ok {s : St} {h : Header} (hb : beginCompletesB s h = true) : BeginCompletes s h := by
  simp only [beginCompletesB, Bool.and_eq_true, Bool.or_eq_true, decide_eq_true_eq] at hb
  obtain ⟨⟨h1, h2⟩, h3⟩ := hb
  refine ⟨h1, ?_, ?_⟩
  · cases ha : amountToPower (beginGov s h).active.minValidatorStake with
    | ok p => exact ⟨p, rfl⟩
    | panic e => rw [ha] at h2; cases h2
  · intro hne
    rcases h3 with h3 | h3
    · rw [h3] at hne; cases hne
    · cases hat : (beginPre s h).delegs.at? (hopOf h) with
      | none => rw [hat] at h3; cases h3
      | some rl =>
        rw [hat] at h3; simp only at h3
        cases hv : votesFold h.height rl (beginPre s h) h.votes with
        | ok r => exact ⟨rl, r, rfl, hv⟩
        | panic e => rw [hv] at h3; cases h3

def endCompletesB (s : St) : Bool :=
  match s.blk with
  | none => false
  | some b =>
    match freezeProposals s b.height with
    | .panic _ => false
    | .ok s1 =>
    match applyProposals s1 b.height with
    | .panic _ => false
    | .ok s2 =>
    match feeHandover s2 b with
    | .panic _ => false
    | .ok s3 =>
    match unfreeze s3 b.height with
    | .panic _ => false
    | .ok s4 =>
    match updateValidators s4 with
    | .panic _ => false
    | .ok _ => true

theorem endCompletesB_ok {s : St} (hb : endCompletesB s = true) : EndCompletes s := by
  unfold endCompletesB at hb
  split at hb; · cases hb
  rename_i b hbk
  split at hb; · cases hb
  rename_i s1 h1
  split at hb; · cases hb
  rename_i s2 h2
  split at hb; · cases hb
  rename_i s3 h3
  split at hb; · cases hb
  rename_i s4 h4
  split at hb; · cases hb
  rename_i r h5
  exact ⟨b, s1, s2, s3, s4, r, hbk, h1, h2, h3, h4, h5⟩

/-- decidable version of `StepOK1` -/
def stepOK1B (s : St) : Op → Bool
  | .init _ => false
  | .begin_ h => beginCompletesB s h && decide (SlashSane s) && jailFreshB s h
  | .deliver tx => unstakeFreshB s tx && decide (EvmOracleOK s tx)
  | .check _ => true
  | .end_ => endCompletesB s
  | .commit => true
  | .restart => decide (s.accts.hist ≠ [])

theorem stepOK1B_ok {s : St} {op : Op} (h : stepOK1B s op = true) : StepOK1 s op := by
  cases op with
  | init g => cases h
  | begin_ hd =>
    simp only [stepOK1B, Bool.and_eq_true, decide_eq_true_eq] at h
    exact ⟨beginCompletesB_ok h.1.1, h.1.2, jailFreshB_ok h.2⟩
  | deliver tx =>
    simp only [stepOK1B, Bool.and_eq_true, decide_eq_true_eq] at h
    exact ⟨unstakeFreshB_ok h.1, h.2⟩
  | check tx => trivial
  | end_ => exact endCompletesB_ok h
  | commit => trivial
  | restart =>
    simp only [stepOK1B, decide_eq_true_eq] at h
    exact h

/-- decidable version of `RunOK1 W` -/
def runOK1B (W : Int) : St → List Op → Bool
  | s, [] => decide ((s.ghost.withdrawn : Int) ≤ W)
  | s, op :: ops => decide ((s.ghost.withdrawn : Int) ≤ W) && stepOK1B s op && runOK1B W (step s op).1 ops

theorem runOK1B_ok (W : Int) : ∀ (ops : List Op) (s : St), runOK1B W s ops = true → RunOK1 W s ops := by
  intro ops
  induction ops with
  | nil => intro s h; simpa [runOK1B, RunOK1] using h
  | cons op ops ih =>
    intro s h
    simp only [runOK1B, Bool.and_eq_true, decide_eq_true_eq] at h
    exact ⟨h.1.1, stepOK1B_ok h.1.2, ih _ h.2⟩

end Rigo.C02
