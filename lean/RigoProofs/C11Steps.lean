/-
  C11/C12 helpers (3): the abstract transition system on `Core` and the theorem that every
  operation of the model (`step`) moves the core along it (`step_core`), plus the core of the
  genesis state (`initChain_core`).
-/
import RigoProofs.C11Frame

namespace Rigo
open Delegatee

def Core.fcommitted (c : Core) : KMap Stake := c.fhist.getLast?.getD {}
def Core.dcommitted (c : Core) : KMap Delegatee := c.dhist.getLast?.getD {}

/-- the ghost-log entry `unfreeze` writes for a refunded stake -/
def refundEntry (st : Stake) (ht : Int) : Hex × Hex × Int × Int := (st.hash, st.owner, st.power, ht)

/-- one pass of `unfreezingStakes` over a list of committed unbonding entries -/
def unfreezeFold (l : List (String × Stake)) (ht : Int) (c : Core) : Core :=
  l.foldl (fun c x => if x.2.refund ≤ ht then
      { c with ffin := c.ffin.erase (ledgerKey x.2.hash), refunds := c.refunds ++ [refundEntry x.2 ht] }
    else c) c

def unfreezeCore (c : Core) (ht : Int) : Core := unfreezeFold c.fcommitted.toList ht c

/-- the atomic moves of `StakeCtrler.BeginBlock` -/
inductive BeginAtom (h : Header) (c : Core) : Core → Prop
  | slash (a : Hex) (d : Delegatee) : a ∈ h.evidence → c.dfin[ledgerKey a]? = some d →
      BeginAtom h c { c with dfin := c.dfin.insert (ledgerKey a) (d.doSlash c.active.slashRatio).1 }
  | mark (k : String) (d : Delegatee) (ns : List Int) : c.dfin[k]? = some d →
      BeginAtom h c { c with dfin := c.dfin.insert (ledgerKey d.addr) { d with notSigned := ns } }
  | jail (k : String) (d : Delegatee) (ns : List Int) : c.dfin[k]? = some d →
      BeginAtom h c { c with dfin := (c.dfin.insert (ledgerKey d.addr) { d with notSigned := ns }).erase (ledgerKey d.addr),
                             ffin := freezeFin c.ffin d.stakes (h.height + c.active.lazyRewardBlocks) }

/-- reflexive-transitive closure -/
inductive Steps (R : Core → Core → Prop) : Core → Core → Prop
  | refl (c : Core) : Steps R c c
  | tail {c c' c'' : Core} : Steps R c c' → R c' c'' → Steps R c c''

theorem Steps.trans {R : Core → Core → Prop} {a b c : Core} (h1 : Steps R a b) (h2 : Steps R b c) : Steps R a c := by
  induction h2 with
  | refl => exact h1
  | tail _ r ih => exact .tail ih r

theorem Steps.single {R : Core → Core → Prop} {a b : Core} (h : R a b) : Steps R a b := .tail (.refl a) h

/-- an invariant of the atoms is an invariant of the closure -/
theorem Steps.inv {R : Core → Core → Prop} {P : Core → Prop} (hR : ∀ c c', R c c' → P c → P c')
    {a b : Core} (h : Steps R a b) (ha : P a) : P b := by
  induction h with
  | refl => exact ha
  | tail _ r ih => exact hR _ _ r ih

/-- what one operation does to the core -/
inductive OpCore (nk : List Hex) : Op → Core → Core → Prop
  | same (op : Op) (c : Core) : (op = .commit → c.height = none) → OpCore nk op c c
  | begin_ (h : Header) (c c' : Core) : h.height = c.lastHeight + 1 →
      Steps (BeginAtom h) { c with height := some h.height } c' → OpCore nk (.begin_ h) c c'
  | stake (tx : TxIn) (c : Core) (ht : Int) (d : Delegatee) (power : Int) : c.height = some ht →
      tx.type = TRX_STAKING → tx.sigOk = true → byteLen tx.to = 20 → StakeTarget c tx d →
      amountToPower tx.amount = .ok power → tx.hash ∈ nk →
      OpCore nk (.deliver tx) c { c with dfin := c.dfin.insert (ledgerKey d.addr) (d.addStake (newStake tx power ht)) }
  | unstake (tx : TxIn) (c : Core) (ht : Int) (d : Delegatee) (hash : Hex) (st : Stake) : c.height = some ht →
      tx.type = TRX_UNSTAKING → tx.sigOk = true → tx.payload = .unstaking hash →
      c.dfin[ledgerKey tx.to]? = some d → d.findStake hash = some st → tx.from_ = st.owner →
      OpCore nk (.deliver tx) c (unstakeCore c d st hash ht)
  | end_ (c : Core) (ht : Int) : c.height = some ht → OpCore nk .end_ c (unfreezeCore c ht)
  | commit (c : Core) (ht : Int) (act : Params) : c.height = some ht →
      OpCore nk .commit c { c with dhist := c.dhist ++ [c.dfin], fhist := c.fhist ++ [c.ffin], active := act,
                                   height := none, lastHeight := ht }
  | restart (c : Core) (act : Params) :
      OpCore nk .restart c { c with dfin := c.dcommitted, ffin := c.fcommitted, active := act, height := none }

/-! ### EndBlock -/

theorem unfreeze_fold_core (ht : Int) (l : List (String × Stake)) (acc : Res St) (s' : St)
    (h : l.foldl (fun acc (x : String × Stake) =>
      match acc with
      | .panic e => .panic e
      | .ok s =>
        if x.2.refund ≤ ht then
          match s.reward true x.2.owner (powerToAmount x.2.power) with
          | none => .panic "EndBlock: refund to a missing account"
          | some s1 =>
            .ok { s1 with frozen := s1.frozen.del true (ledgerKey x.2.hash),
                          ghost := { s1.ghost with refunds := s1.ghost.refunds ++ [(x.2.hash, x.2.owner, x.2.power, ht)] } }
        else .ok s) acc = .ok s') :
    ∃ s0, acc = .ok s0 ∧ s'.core = unfreezeFold l ht s0.core := by
  induction l generalizing acc with
  | nil => exact ⟨s', h, rfl⟩
  | cons x l ih =>
    simp only [List.foldl_cons] at h
    obtain ⟨s1, h1, hc⟩ := ih _ h
    cases acc with
    | panic e => cases h1
    | ok s0 =>
      refine ⟨s0, rfl, ?_⟩
      rw [hc]
      simp only [unfreezeFold, List.foldl_cons]
      congr 1
      dsimp only at h1
      split at h1
      · rename_i hdue
        split at h1
        · cases h1
        · rename_i s2 hs2
          have := reward_core hs2
          cases h1
          simp only [hdue, if_true, refundEntry]
          simp only [St.core, Led.del] at this ⊢
          simp only [Core.mk.injEq] at this
          obtain ⟨e1, e2, e3, e4, e5, e6, e7, e8⟩ := this
          simp [e1, e2, e3, e4, e5, e6, e7, e8]
      · rename_i hdue
        cases h1
        simp [hdue]

theorem unfreeze_core {s s' : St} {ht : Int} (h : unfreeze s ht = .ok s') : s'.core = unfreezeCore s.core ht := by
  unfold unfreeze at h
  obtain ⟨s0, h0, hc⟩ := unfreeze_fold_core ht _ _ _ h
  cases h0
  exact hc

theorem foldl_res_core {α : Type} (F : Res St → α → Res St)
    (hF : ∀ acc a s', F acc a = .ok s' → ∃ s0, acc = .ok s0 ∧ s'.core = s0.core)
    (l : List α) (acc : Res St) (s' : St) (h : l.foldl F acc = .ok s') :
    ∃ s0, acc = .ok s0 ∧ s'.core = s0.core := by
  induction l generalizing acc with
  | nil => exact ⟨s', h, rfl⟩
  | cons a l ih =>
    simp only [List.foldl_cons] at h
    obtain ⟨s1, h1, hc⟩ := ih _ h
    obtain ⟨s0, h0, hc0⟩ := hF _ _ _ h1
    exact ⟨s0, h0, hc.trans hc0⟩

theorem freezeProposals_core {s s' : St} {ht : Int} (h : freezeProposals s ht = .ok s') : s'.core = s.core := by
  unfold freezeProposals at h
  obtain ⟨s0, h0, hc⟩ := foldl_res_core _ (by
    intro acc a s' hh
    cases acc with
    | panic e => cases hh
    | ok s0 =>
      refine ⟨s0, rfl, ?_⟩
      dsimp only at hh
      repeat' split at hh
      all_goals (cases hh; try rfl)) _ _ _ h
  cases h0; exact hc

theorem applyProposals_core {s s' : St} {ht : Int} (h : applyProposals s ht = .ok s') : s'.core = s.core := by
  unfold applyProposals at h
  obtain ⟨s0, h0, hc⟩ := foldl_res_core _ (by
    intro acc a s' hh
    cases acc with
    | panic e => cases hh
    | ok s0 =>
      refine ⟨s0, rfl, ?_⟩
      dsimp only at hh
      repeat' split at hh
      all_goals (cases hh; try rfl)) _ _ _ h
  cases h0; exact hc

theorem feeHandover_core {s s' : St} {b : BlockCtx} (h : feeHandover s b = .ok s') : s'.core = s.core := by
  unfold feeHandover at h
  split at h
  · dsimp only at h
    split at h
    · cases h
    · cases h; rfl
  · cases h; rfl

theorem updateValidators_core {s s' : St} {u : List ValUpdate} (h : updateValidators s = .ok (s', u)) :
    s'.core = s.core := by
  unfold updateValidators at h
  repeat' split at h
  all_goals (cases h; try rfl)

theorem endBlock_core {nk : List Hex} (s : St) : OpCore nk .end_ s.core (endBlock s).1.core := by
  unfold endBlock
  split
  · exact .same _ _ (by first | (intro h; cases h) | simp_all [St.core])
  · rename_i b hb
    split
    · exact .same _ _ (by first | (intro h; cases h) | simp_all [St.core])
    · rename_i s1 h1
      have c1 := freezeProposals_core h1
      split
      · rw [c1]; exact .same _ _ (by first | (intro h; cases h) | simp_all [St.core])
      · rename_i s2 h2
        have c2 := applyProposals_core h2
        split
        · rw [c2, c1]; exact .same _ _ (by first | (intro h; cases h) | simp_all [St.core])
        · rename_i s3 h3
          have c3 := feeHandover_core h3
          have c30 : s3.core = s.core := by rw [c3, c2, c1]
          split
          · rw [c30]; exact .same _ _ (by first | (intro h; cases h) | simp_all [St.core])
          · rename_i s4 h4
            have c4 := unfreeze_core h4
            have hh : s.core.height = some b.height := by simp [St.core, hb]
            split
            · rw [c4, c30]; exact .end_ _ _ hh
            · rename_i s5 u h5
              rw [updateValidators_core h5, c4, c30]; exact .end_ _ _ hh

/-! ### Commit, restart, CheckTx, DeliverTx -/

theorem commit_core {nk : List Hex} (s : St) : OpCore nk .commit s.core (commit s).1.core := by
  unfold commit
  split
  · rename_i hb
    exact .same _ _ (fun _ => by simp [St.core, hb])
  · rename_i b hb
    have hh : s.core.height = some b.height := by simp [St.core, hb]
    exact .commit s.core b.height (s.pending.getD s.active) hh

theorem restart_core {nk : List Hex} (s : St) : OpCore nk .restart s.core (restart s).core :=
  .restart s.core _

theorem checkTx_core (s : St) (tx : TxIn) : (checkTx s tx).1.core = s.core := by
  unfold checkTx; exact handleTx_false_core _ _ _

theorem deliverTx_fst_core {s : St} {tx : TxIn} {b : BlockCtx} (hb : s.blk = some b)
    (hh : (handleTx s true b.height tx).1.core.height = some b.height) :
    (deliverTx s tx).1.core = (handleTx s true b.height tx).1.core := by
  unfold deliverTx
  rw [hb]
  dsimp only
  split
  · rfl
  · split
    · simp only [St.core] at hh ⊢
      simp [hh]
    · rfl

/-- the hashes of the stakes an operation creates: a delivered staking transaction answered with code 0 -/
def stakedBy (s : St) : Op → List Hex
  | .deliver tx =>
    if tx.type = TRX_STAKING ∧ (deliverTx s tx).2.tx.map (·.code) = some 0 then [tx.hash] else []
  | _ => []

theorem deliverTx_out {s : St} {tx : TxIn} {b : BlockCtx} (hb : s.blk = some b) :
    (deliverTx s tx).2.tx = some (handleTx s true b.height tx).2 := by
  unfold deliverTx
  rw [hb]
  dsimp only
  split
  · rfl
  · split <;> rfl

theorem deliverTx_core (s : St) (tx : TxIn) :
    OpCore (stakedBy s (.deliver tx)) (.deliver tx) s.core (deliverTx s tx).1.core := by
  cases hb : s.blk with
  | none => unfold deliverTx; rw [hb]; exact .same _ _ (by first | (intro h; cases h) | simp_all [St.core])
  | some b =>
    have hh : s.core.height = some b.height := by simp [St.core, hb]
    rcases handleTx_core s b.height tx with ⟨hc, _⟩ | ⟨hcode, hty, hsig, hto, d, power, hd, hp, hc⟩ |
        ⟨_, hty, hsig, d, hash, st, hpay, hd, hst, hown, hc⟩
    · rw [deliverTx_fst_core hb (by rw [hc]; exact hh), hc]; exact .same _ _ (by first | (intro h; cases h) | simp_all [St.core])
    · rw [deliverTx_fst_core hb (by rw [hc]; exact hh), hc]
      refine OpCore.stake tx s.core b.height d power hh hty hsig hto hd hp ?_
      simp [stakedBy, hty, deliverTx_out hb, hcode]
    · rw [deliverTx_fst_core hb (by rw [hc]; exact hh), hc]
      exact OpCore.unstake tx s.core b.height d hash st hh hty hsig hpay hd hst hown

/-! ### BeginBlock -/

theorem foldl_pair_core {α β : Type} (F : St × β → α → St × β) (hF : ∀ x a, (F x a).1.core = x.1.core)
    (l : List α) (x : St × β) : (l.foldl F x).1.core = x.1.core := by
  induction l generalizing x with
  | nil => rfl
  | cons a l ih => simp only [List.foldl_cons]; rw [ih, hF]

theorem foldl_pair_steps {α β : Type} (R : Core → Core → Prop) (F : St × β → α → St × β) (l : List α)
    (hF : ∀ x, ∀ a ∈ l, Steps R x.1.core (F x a).1.core) (x : St × β) :
    Steps R x.1.core (l.foldl F x).1.core := by
  induction l generalizing x with
  | nil => exact .refl _
  | cons a l ih =>
    simp only [List.foldl_cons]
    exact (hF x a (by simp)).trans (ih (fun x b hb => hF x b (by simp [hb])) _)

theorem foldl_res_steps {α : Type} (R : Core → Core → Prop) (F : Res (St × Nat) → α → Res (St × Nat))
    (hF : ∀ acc a r, F acc a = .ok r → ∃ r0, acc = .ok r0 ∧ Steps R r0.1.core r.1.core)
    (l : List α) (acc : Res (St × Nat)) (r : St × Nat) (h : l.foldl F acc = .ok r) :
    ∃ r0, acc = .ok r0 ∧ Steps R r0.1.core r.1.core := by
  induction l generalizing acc with
  | nil => exact ⟨r, h, .refl _⟩
  | cons a l ih =>
    simp only [List.foldl_cons] at h
    obtain ⟨r1, h1, hc⟩ := ih _ h
    obtain ⟨r0, h0, hc0⟩ := hF _ _ _ h1
    exact ⟨r0, h0, hc0.trans hc⟩

theorem govPunish_core (s : St) (a : Hex) : (govPunish s a).1.core = s.core := by
  unfold govPunish
  dsimp only
  rw [foldl_pair_core]
  intro x k
  repeat' split
  all_goals rfl

theorem stakePunish_core (h : Header) (s : St) (a : Hex) (ha : a ∈ h.evidence) :
    Steps (BeginAtom h) s.core (stakePunish s a).1.core := by
  unfold stakePunish
  split
  · exact .refl _
  · rename_i d hd
    exact .single (BeginAtom.slash a d ha (by simpa [St.core, Led.get] using hd))

theorem rewardTo_core {s s' : St} {d : Delegatee} {ht : Int} {i : Nat} (h : rewardTo s d ht = .ok (s', i)) :
    s'.core = s.core := by
  unfold rewardTo at h
  obtain ⟨r0, h0, hc⟩ := foldl_res_steps (fun a b => a = b) _ (by
    intro acc a r hh
    cases acc with
    | panic e => cases hh
    | ok r0 =>
      refine ⟨r0, rfl, ?_⟩
      obtain ⟨s0, i0⟩ := r0
      dsimp only at hh
      split at hh
      · cases hh
      · cases hh; exact .single rfl) _ _ _ h
  cases h0
  have : ∀ a b : Core, Steps (fun a b => a = b) a b → a = b := by
    intro a b hs
    induction hs with
    | refl => rfl
    | tail _ r ih => rw [ih, r]
  exact (this _ _ hc).symm

theorem processVote_core (h : Header) {s : St} {rl : KMap Delegatee} {v : VoteIn} {i : Nat} {r : St × Nat}
    (hp : processVote s h.height rl v i = .ok r) : Steps (BeginAtom h) s.core r.1.core := by
  unfold processVote at hp
  split at hp
  · split at hp
    · cases hp; exact .refl _
    · split at hp
      · cases hp; exact .refl _
      · split at hp
        · cases hp
        · rename_i s' i' hr
          cases hp
          rw [rewardTo_core hr]; exact .refl _
  · dsimp only at hp
    split at hp
    · cases hp; exact .refl _
    · rename_i d hd
      have hd' : s.core.dfin[ledgerKey v.addr]? = some d := by simpa [St.core, Led.get] using hd
      generalize (if h.height - 1 - s.active.signedBlocksWindow < 0 then 0 else h.height - 1 - s.active.signedBlocksWindow) = h0 at hp
      split at hp
      · cases hp
        have := BeginAtom.jail (h := h) _ d (countInWindow (mark d.notSigned (h.height - 1)) h0 (h.height - 1)).snd hd'
        refine .single ?_
        simpa [St.core, Led.set, Led.del, freezeAll_true, delAllStakes_snd] using this
      · cases hp
        have := BeginAtom.mark (h := h) _ d (countInWindow (mark d.notSigned (h.height - 1)) h0 (h.height - 1)).snd hd'
        refine .single ?_
        simpa [St.core, Led.set] using this

/-- the tail of `beginBlock` after the evidence has been handled (votes: rewards, marks, jailing) -/
def bbVotesC (s : St) (h : Header) (punishG punishS : List Int) : St × Out :=
  if h.votes.isEmpty then (s, { punishG := punishG }) else
  let hop : Int := if h.height - 4 < 0 then 1 else h.height - 4
  match s.delegs.at? hop with
  | none => (s, { panic := "BeginBlock: reward ledger version does not exist" })
  | some rl =>
    let r := h.votes.foldl (fun acc v =>
      match acc with
      | .panic p => .panic p
      | .ok (s, issued) => processVote s h.height rl v issued) (Res.ok (s, 0))
    match r with
    | .panic p => (s, { panic := p })
    | .ok (s', issued) => (s', { issued := some issued, punishS := punishS, punishG := punishG })

/-- the stake controller's part of `beginBlock` -/
def bbStakeC (s : St) (h : Header) (punishG : List Int) : St × Out :=
  match amountToPower s.active.minValidatorStake with
  | .panic p => (s, { panic := p })
  | .ok minPower =>
  let all := sortByPower ((s.delegs.committed.toList.map (·.2)).filter fun d => d.self ≥ minPower)
  let s := { s with allDelegs := all,
                    limiter := Limiter.reset all s.active.maxValidatorCnt s.active.maxIndividualStakeRatio s.active.maxUpdatableStakeRatio }
  let x := h.evidence.foldl (fun (acc, l) a =>
    match stakePunish acc a with
    | (acc', some sl) => (acc', l ++ [sl])
    | (acc', none) => (acc', l)) (s, [])
  bbVotesC x.1 h punishG x.2

theorem beginBlock_eqC (s : St) (h : Header) : beginBlock s h =
    if h.height ≠ s.lastHeight + 1 then (s, { panic := "BeginBlock: error block height" }) else
    let s1 := { s with blk := some { height := h.height, time := h.time, proposer := h.proposer } }
    let g := h.evidence.foldl (fun (acc, l) a => let (acc', sl) := govPunish acc a; (acc', l ++ [sl])) (s1, [])
    bbStakeC g.1 h g.2 := rfl

theorem bbVotes_core (s : St) (h : Header) (pg ps : List Int) :
    Steps (BeginAtom h) s.core (bbVotesC s h pg ps).1.core := by
  unfold bbVotesC
  split
  · exact .refl _
  · dsimp only
    split
    · exact .refl _
    · rename_i rl _
      split
      · exact .refl _
      · rename_i s' issued hr
        obtain ⟨r0, h0, hc⟩ := foldl_res_steps (BeginAtom h) _ (by
          intro acc v r hh
          cases acc with
          | panic e => cases hh
          | ok r0 => exact ⟨r0, rfl, processVote_core h hh⟩) _ _ _ hr
        cases h0
        exact hc

theorem bbStake_core (s : St) (h : Header) (pg : List Int) :
    Steps (BeginAtom h) s.core (bbStakeC s h pg).1.core := by
  unfold bbStakeC
  split
  · exact .refl _
  · dsimp only
    refine Steps.trans ?_ (bbVotes_core _ h pg _)
    refine Steps.trans ?_ (foldl_pair_steps (BeginAtom h) _ h.evidence ?_ _)
    · exact .refl _
    · intro x a ha
      have := stakePunish_core h x.1 a ha
      split
      · rename_i acc' sl hsp; rw [hsp] at this; exact this
      · rename_i acc' hsp; rw [hsp] at this; exact this

theorem beginBlock_core {nk : List Hex} (s : St) (h : Header) : OpCore nk (.begin_ h) s.core (beginBlock s h).1.core := by
  rw [beginBlock_eqC]
  split
  · exact .same _ _ (by first | (intro h; cases h) | simp_all [St.core])
  · rename_i hht
    have hht : h.height = s.core.lastHeight + 1 := by simpa [St.core] using hht
    refine .begin_ h _ _ hht ?_
    dsimp only
    refine Steps.trans ?_ (bbStake_core _ h _)
    rw [foldl_pair_core]
    · exact .refl _
    · intro x a
      exact govPunish_core x.1 a

/-! ### every operation -/

theorem step_core (s : St) (op : Op) (hop : op.isInit = false) :
    OpCore (stakedBy s op) op s.core (step s op).1.core := by
  cases op with
  | init g => simp [Op.isInit] at hop
  | begin_ h => exact beginBlock_core s h
  | deliver tx => exact deliverTx_core s tx
  | check tx => show OpCore _ _ _ (checkTx s tx).1.core; rw [checkTx_core]; exact .same _ _ (by first | (intro h; cases h) | simp_all [St.core])
  | end_ => exact endBlock_core s
  | commit => exact commit_core s
  | restart => exact restart_core s

/-! ### genesis -/

/-- the delegatee `initChain` creates for a genesis validator (public key, address, power) -/
def genesisDeleg (v : Hex × Hex × Int) : Delegatee :=
  ({ addr := v.2.1, pub := v.1 } : Delegatee).addStake
    { owner := v.2.1, to := v.2.1, hash := zeroHash, power := v.2.2, start := 1 }

def genesisCore (g : Genesis) : Core :=
  { dfin := g.vals.foldl (fun m v => m.insert (ledgerKey v.2.1) (genesisDeleg v)) {},
    dhist := [], ffin := {}, fhist := [], active := g.params, height := none, lastHeight := 0, refunds := [] }

theorem initChain_core (g : Genesis) : (initChain g).core = genesisCore g := by
  unfold initChain
  dsimp only
  have hv : ∀ (l : List (Hex × Hex × Int)) (s : St),
      (l.foldl (fun acc (x : Hex × Hex × Int) =>
        { (acc.findOrNewAcct true x.2.1).1 with
          delegs := (acc.findOrNewAcct true x.2.1).1.delegs.set true (ledgerKey x.2.1)
            (({ addr := x.2.1, pub := x.1 } : Delegatee).addStake
              { owner := x.2.1, to := x.2.1, hash := zeroHash, power := x.2.2, start := 1 }) }) s).core =
      { s.core with dfin := l.foldl (fun m v => m.insert (ledgerKey v.2.1) (genesisDeleg v)) s.core.dfin } := by
    intro l
    induction l with
    | nil => intro s; rfl
    | cons x l ih =>
      intro s
      simp only [List.foldl_cons]
      rw [ih]
      have h1 := core_findOrNewAcct s true x.2.1
      simp only [St.core, Core.mk.injEq] at h1
      obtain ⟨e1, e2, e3, e4, e5, e6, e7, e8⟩ := h1
      simp only [St.core, Led.set, genesisDeleg, if_true]
      simp [e1, e2, e3, e4, e5, e6, e7, e8]
  have hh : ∀ (l : List (Hex × Nat)) (s : St),
      (l.foldl (fun acc (x : Hex × Nat) => acc.setAcct true { addr := x.1, bal := x.2 }) s).core = s.core :=
    fun l s => foldl_core (fun acc (x : Hex × Nat) => acc.setAcct true { addr := x.1, bal := x.2 }) (fun s a => rfl) l s
  exact (hv _ _).trans (by rw [hh]; rfl)

end Rigo
