/-
  Bridge  Impl ⊑ Spec ⊑ Led   (the ledger abstraction used by the application model).

  The framework has two ledger abstractions:
  * `Rigo.Ledger.Spec` (Rigo/Ledger/Spec.lean): committed versions + a consensus overlay `fin : Ov`
    + a mempool overlay `chk : Ov` (overlay = written map + deleted list, reads go through `view`);
    `Impl` (the real three-cache ledger) refines it: `run_refines` / `C18.ledger_refines`.
  * `Rigo.Led α` (Rigo/Types.lean): committed history + consensus VIEW + mempool VIEW (whole maps),
    used by Rigo/App.lean and Rigo/Block.lean for accounts, delegatees, rewards, proposals, frozen
    stakes.

  This file proves that `Led` is a correct abstraction of `Spec` (hence of `Impl`) on the
  cancel-free operation fragment, and that it is NOT one (no function on `Led` states can be) for
  the four `cancel*` operations.

  What exactly is stated
  ----------------------
  `Spec`/`Impl` are keyed by `Rigo.Ledger.Key = Nat` with values `Val = Nat`; `Led α` is keyed by
  `String` with values `α`.  We therefore
  (A) define `LedG K V cmp`, a key/value-generic copy of `Led` with the same fields and the same
      operations (`committed version at? get set del commit reopen`), an operation language
      `LOp K V` (the `Rigo.Ledger.Op` constructors without the four `cancel*`), outputs `LOut K V`,
      `LedG.step`, `LedG.run`;
  (B) prove that `Rigo.Led α` IS `LedG String α compare`: `Led.toG`/`Led.ofG` are mutually inverse by
      `rfl`, and every operation of `Led` commutes with `toG` (`toG_get … toG_reopen`, each `rfl` or
      `cases exec <;> rfl`); `Led.step`/`Led.run` (written with the operations of Rigo/Types.lean
      only) commute with `toG` (`Led.toG_step`, `Led.toG_run`);
  (C) define `absLed : Spec → LedG Key Val compare`
        hist := s.committed,
        fin  := the map  k ↦ view s.fin s.last k   (`viewMap s.fin s.last`),
        chk  := the map  k ↦ view s.chk s.last k   (`viewMap s.chk s.last`)
      (`absLed_fin`, `absLed_chk` state the lookups; `ExtTreeMap` is extensional, so equality of
      abstract states below is real equality, not just lookup-wise agreement);
  (D) `sim_step`: for every `Spec` state `s` and every operation `o : LOp Key Val`
        `Spec.step s o.toOp = (s', out)`  ⇒  `(absLed s).step o = (absLed s', out')`, `out = out'.toOut`
      i.e. same output and `absLed` commutes with the step (a functional forward simulation from ANY
      spec state, no invariant needed);
  (E) `sim_run`: the same for operation sequences; `spec_refines_led`, `impl_refines_led`: from the
      empty ledgers, for every cancel-free operation sequence, `Impl.run`, `Spec.run` and the `Led`
      abstraction produce the same output list.  Two equivalent phrasings: over `List (LOp Key Val)`
      (embedded by `LOp.toOp`), and over `ops : List Op` with `CancelFree ops` (translated by
      `Op.toL?`);
  (F) `cancelSet_not_abstractable`, `cancelDel_not_abstractable` (+ the `…F` variants): two `Spec`
      states with the same `absLed` whose `absLed` differ after the `cancel*` operation, so no
      function on `Led` states simulates `cancel*`.  The application model never issues them (the
      only Go call site, the failed credit after `Withdraw`, needs a reward ≥ 2^255 and is
      documented unreachable in DESIGN.md §3), which is why `Led` has no such operation.

  The passage from `LedG Key Val` (Nat keys) to `LedG String α` = `Led α` (String keys) is by
  parametricity in (A)/(B) here; RigoProofs/LedBridgeEnc.lean machine-checks it too, through an
  arbitrary injective key encoding.
-/
import RigoProofs.Ledger
import Rigo.Types
open Std

namespace Rigo.LedBridge
open Rigo.Ledger

/-! ## (A) key-generic copy of `Rigo.Led` -/

/-- `Rigo.Led` with the key type, value type and key order as parameters. -/
structure LedG (K V : Type) (cmp : K → K → Ordering) where
  hist : List (ExtTreeMap K V cmp) := []      -- hist[i] is version i+1
  fin : ExtTreeMap K V cmp := {}
  chk : ExtTreeMap K V cmp := {}

namespace LedG
variable {K V : Type} {cmp : K → K → Ordering}

def committed (l : LedG K V cmp) : ExtTreeMap K V cmp := l.hist.getLast?.getD {}
def version (l : LedG K V cmp) : Nat := l.hist.length
def at? (l : LedG K V cmp) (n : Int) : Option (ExtTreeMap K V cmp) :=
  if n ≤ 0 then some l.committed else l.hist[n.toNat - 1]?
def get [TransCmp cmp] (l : LedG K V cmp) (exec : Bool) (k : K) : Option V := if exec then l.fin[k]? else l.chk[k]?
def set [TransCmp cmp] (l : LedG K V cmp) (exec : Bool) (k : K) (v : V) : LedG K V cmp :=
  if exec then { l with fin := l.fin.insert k v } else { l with chk := l.chk.insert k v }
def del [TransCmp cmp] (l : LedG K V cmp) (exec : Bool) (k : K) : LedG K V cmp :=
  if exec then { l with fin := l.fin.erase k, chk := l.chk.erase k } else { l with chk := l.chk.erase k }
def commit (l : LedG K V cmp) : LedG K V cmp := { hist := l.hist ++ [l.fin], fin := l.fin, chk := l.fin }
def reopen (l : LedG K V cmp) : LedG K V cmp := { l with fin := l.committed, chk := l.committed }

theorem ext' [TransCmp cmp] [LawfulEqCmp cmp] {l₁ l₂ : LedG K V cmp} (h : l₁.hist = l₂.hist)
    (hf : ∀ k : K, l₁.fin[k]? = l₂.fin[k]?) (hc : ∀ k : K, l₁.chk[k]? = l₂.chk[k]?) : l₁ = l₂ := by
  cases l₁; cases l₂
  simp only at h hf hc
  rw [h, ExtTreeMap.ext_getElem? hf, ExtTreeMap.ext_getElem? hc]

end LedG

/-- The cancel-free fragment of `Rigo.Ledger.Op`, generic in key and value type. -/
inductive LOp (K V : Type) where
  | set (k : K) (v : V) | get (k : K) | del (k : K)
  | setF (k : K) (v : V) | getF (k : K) | delF (k : K)
  | read (k : K) | iterAll | commit | readAt (n : Int) (k : K) | reopen | version
  deriving Repr

/-- `Rigo.Ledger.Out`, generic in key and value type. -/
inductive LOut (K V : Type) where
  | unit | val (v : Option V) | ver (n : Nat) | items (l : List (K × V)) | err
  deriving Repr, DecidableEq

/-- One ledger operation at the `Led` abstraction.  `del`/`delF` report what the view held (the Go
    `Del`/`DelFinality` return the deleted item); `exec = false` is the mempool view (`Get`/`Set`/
    `Del`), `exec = true` the consensus view (`GetFinality`/`SetFinality`/`DelFinality`). -/
def LedG.step {K V : Type} {cmp : K → K → Ordering} [TransCmp cmp] (l : LedG K V cmp) :
    LOp K V → LedG K V cmp × LOut K V
  | .set k v => (l.set false k v, .unit)
  | .get k => (l, .val (l.get false k))
  | .del k => (l.del false k, .val (l.get false k))
  | .setF k v => (l.set true k v, .unit)
  | .getF k => (l, .val (l.get true k))
  | .delF k => (l.del true k, .val (l.get true k))
  | .read k => (l, .val l.committed[k]?)
  | .iterAll => (l, .items l.committed.toList)
  | .commit => (l.commit, .ver l.commit.version)
  | .readAt n k => (l, match l.at? n with | some t => .val t[k]? | none => .err)
  | .reopen => (l.reopen, .unit)
  | .version => (l, .ver l.version)

def LedG.run {K V : Type} {cmp : K → K → Ordering} [TransCmp cmp] (l : LedG K V cmp) :
    List (LOp K V) → LedG K V cmp × List (LOut K V)
  | [] => (l, [])
  | op :: ops => let (l', o) := l.step op; let (l'', os) := l'.run ops; (l'', o :: os)

/-! ## (B) `Rigo.Led α` is `LedG String α compare` -/

section LedIsLedG
variable {α : Type}

def Led.toG (l : Led α) : LedG String α compare := ⟨l.hist, l.fin, l.chk⟩
def Led.ofG (l : LedG String α compare) : Led α := ⟨l.hist, l.fin, l.chk⟩

@[simp] theorem Led.ofG_toG (l : Led α) : Led.ofG (Led.toG l) = l := rfl
@[simp] theorem Led.toG_ofG (l : LedG String α compare) : Led.toG (Led.ofG l) = l := rfl
theorem Led.toG_empty : Led.toG ({} : Led α) = {} := rfl
theorem Led.toG_hist (l : Led α) : (Led.toG l).hist = l.hist := rfl
theorem Led.toG_fin (l : Led α) : (Led.toG l).fin = l.fin := rfl
theorem Led.toG_chk (l : Led α) : (Led.toG l).chk = l.chk := rfl
theorem Led.toG_committed (l : Led α) : (Led.toG l).committed = l.committed := rfl
theorem Led.toG_version (l : Led α) : (Led.toG l).version = l.version := rfl
theorem Led.toG_at? (l : Led α) (n : Int) : (Led.toG l).at? n = l.at? n := rfl
theorem Led.toG_get (l : Led α) (e : Bool) (k : String) : (Led.toG l).get e k = l.get e k := rfl
theorem Led.toG_set (l : Led α) (e : Bool) (k : String) (v : α) :
    Led.toG (l.set e k v) = (Led.toG l).set e k v := by cases e <;> rfl
theorem Led.toG_del (l : Led α) (e : Bool) (k : String) :
    Led.toG (l.del e k) = (Led.toG l).del e k := by cases e <;> rfl
theorem Led.toG_commit (l : Led α) : Led.toG l.commit = (Led.toG l).commit := rfl
theorem Led.toG_reopen (l : Led α) : Led.toG l.reopen = (Led.toG l).reopen := rfl

/-- the operation step written with the operations of Rigo/Types.lean only -/
def Led.step (l : Led α) : LOp String α → Led α × LOut String α
  | .set k v => (l.set false k v, .unit)
  | .get k => (l, .val (l.get false k))
  | .del k => (l.del false k, .val (l.get false k))
  | .setF k v => (l.set true k v, .unit)
  | .getF k => (l, .val (l.get true k))
  | .delF k => (l.del true k, .val (l.get true k))
  | .read k => (l, .val l.committed[k]?)
  | .iterAll => (l, .items l.committed.toList)
  | .commit => (l.commit, .ver l.commit.version)
  | .readAt n k => (l, match l.at? n with | some t => .val t[k]? | none => .err)
  | .reopen => (l.reopen, .unit)
  | .version => (l, .ver l.version)

def Led.run (l : Led α) : List (LOp String α) → Led α × List (LOut String α)
  | [] => (l, [])
  | op :: ops => let (l', o) := Led.step l op; let (l'', os) := Led.run l' ops; (l'', o :: os)

theorem Led.toG_step (l : Led α) (o : LOp String α) :
    (Led.toG l).step o = (Led.toG (Led.step l o).1, (Led.step l o).2) := by
  cases o with
  | readAt n k =>
    simp only [LedG.step, Led.step, Led.toG_at?]
    cases l.at? n <;> rfl
  | _ => rfl

theorem Led.toG_run (l : Led α) (ops : List (LOp String α)) :
    (Led.toG l).run ops = (Led.toG (Led.run l ops).1, (Led.run l ops).2) := by
  induction ops generalizing l with
  | nil => rfl
  | cons o ops ih => simp only [LedG.run, Led.run, Led.toG_step, ih]

end LedIsLedG

/-! ## (C) abstraction function `Spec → Led` -/

/-- the `Led` instance at the key/value types of `Spec`/`Impl` -/
abbrev LedN := LedG Key Val compare
abbrev NOp := LOp Key Val
abbrev NOut := LOut Key Val

/-- the map `k ↦ view o t k` (what a read through overlay `o` over committed map `t` sees) -/
def viewMap (o : Ov) (t : Map) : Map := eraseAll t o.deleted ∪ o.written

theorem viewMap_get (o : Ov) (t : Map) (k : Key) : (viewMap o t)[k]? = view o t k := by
  simp only [viewMap, ExtTreeMap.getElem?_union, getElem?_eraseAll, view]
  cases o.written[k]? <;> simp

theorem viewMap_empty (t : Map) : viewMap {} t = t := by
  apply ExtTreeMap.ext_getElem?
  intro k; rw [viewMap_get]; simp [view]

/-- Abstraction: committed history, consensus view, mempool view. -/
def absLed (s : Spec) : LedN :=
  { hist := s.committed, fin := viewMap s.fin s.last, chk := viewMap s.chk s.last }

theorem absLed_hist (s : Spec) : (absLed s).hist = s.committed := rfl
theorem absLed_fin (s : Spec) (k : Key) : (absLed s).fin[k]? = view s.fin s.last k := viewMap_get ..
theorem absLed_chk (s : Spec) (k : Key) : (absLed s).chk[k]? = view s.chk s.last k := viewMap_get ..
theorem absLed_committed (s : Spec) : (absLed s).committed = s.last := rfl
theorem absLed_version (s : Spec) : (absLed s).version = s.version := rfl
theorem absLed_empty : absLed {} = {} := by
  refine LedG.ext' (by rfl) (fun k => ?_) (fun k => ?_) <;> simp [absLed, viewMap_get, view, Spec.last]

/-! ## embedding of the fragment into `Rigo.Ledger.Op` -/

def LOp.toOp : NOp → Op
  | .set k v => .set k v | .get k => .get k | .del k => .del k
  | .setF k v => .setF k v | .getF k => .getF k | .delF k => .delF k
  | .read k => .read k | .iterAll => .iterAll | .commit => .commit
  | .readAt n k => .readAt n k | .reopen => .reopen | .version => .version

def LOut.toOut : NOut → Out
  | .unit => .unit | .val v => .val v | .ver n => .ver n | .items l => .items l | .err => .err

def Op.isCancel : Op → Bool
  | .cancelSet .. | .cancelDel .. | .cancelSetF .. | .cancelDelF .. => true
  | _ => false

/-- partial inverse of `LOp.toOp`: `none` exactly on the four `cancel*` operations -/
def Op.toL? : Op → Option NOp
  | .set k v => some (.set k v) | .get k => some (.get k) | .del k => some (.del k)
  | .setF k v => some (.setF k v) | .getF k => some (.getF k) | .delF k => some (.delF k)
  | .read k => some (.read k) | .iterAll => some .iterAll | .commit => some .commit
  | .readAt n k => some (.readAt n k) | .reopen => some .reopen | .version => some .version
  | .cancelSet .. | .cancelDel .. | .cancelSetF .. | .cancelDelF .. => none

/-- an operation sequence without `CancelSet/CancelDel/CancelSetFinality/CancelDelFinality` -/
def CancelFree (ops : List Op) : Prop := ∀ op ∈ ops, Op.isCancel op = false

instance (ops : List Op) : Decidable (CancelFree ops) := by unfold CancelFree; infer_instance

theorem LOp.toOp_not_cancel (o : NOp) : Op.isCancel o.toOp = false := by cases o <;> rfl
theorem LOp.toL?_toOp (o : NOp) : Op.toL? o.toOp = some o := by cases o <;> rfl
theorem Op.toL?_eq_none (op : Op) : Op.toL? op = none ↔ Op.isCancel op = true := by
  cases op <;> simp [Op.toL?, Op.isCancel]
theorem Op.toOp_of_toL? (op : Op) (o : NOp) (h : Op.toL? op = some o) : o.toOp = op := by
  cases op <;> simp [Op.toL?] at h <;> subst h <;> rfl

theorem cancelFree_map_toOp (lops : List NOp) : CancelFree (lops.map LOp.toOp) := by
  intro op h
  obtain ⟨o, _, rfl⟩ := List.mem_map.mp h
  exact o.toOp_not_cancel

/-- cancel-free sequences are exactly the images of `LOp` sequences -/
theorem map_toOp_filterMap (ops : List Op) (h : CancelFree ops) :
    (ops.filterMap Op.toL?).map LOp.toOp = ops := by
  induction ops with
  | nil => rfl
  | cons op ops ih =>
    have h1 : Op.isCancel op = false := h op (List.mem_cons_self ..)
    have h2 : CancelFree ops := fun o ho => h o (List.mem_cons_of_mem _ ho)
    cases e : Op.toL? op with
    | none => rw [(Op.toL?_eq_none op).mp e] at h1; cases h1
    | some o =>
      rw [List.filterMap_cons_some e, List.map_cons, ih h2, Op.toOp_of_toL? op o e]

/-! ## (D) one-step simulation -/

theorem view_ovSet (o : Ov) (t : Map) (k k' : Key) (v : Val) :
    view (Spec.ovSet o k v) t k' = if k = k' then some v else view o t k' := by
  unfold view Spec.ovSet
  simp only [ExtTreeMap.getElem?_insert, cmp_eq_iff]
  by_cases e : k = k' <;> simp [e]

theorem ovDel_out (o : Ov) (t : Map) (k : Key) : (Spec.ovDel o t k).2 = view o t k := by
  unfold Spec.ovDel; cases view o t k <;> rfl

theorem view_ovDel (o : Ov) (t : Map) (k k' : Key) :
    view (Spec.ovDel o t k).1 t k' = if k = k' then none else view o t k' := by
  unfold Spec.ovDel
  cases hv : view o t k with
  | none =>
    by_cases e : k = k'
    · subst e; simp [hv]
    · simp [e]
  | some v =>
    unfold view
    simp only [ExtTreeMap.getElem?_erase, cmp_eq_iff, List.mem_append, List.mem_singleton]
    by_cases e : k = k'
    · subst e; simp
    · have e' : ¬ k' = k := fun c => e c.symm
      simp [e, e']

theorem sim_set (s : Spec) (k : Key) (v : Val) : absLed (s.set k v) = (absLed s).set false k v := by
  refine LedG.ext' (by rfl) (fun k' => ?_) (fun k' => ?_) <;>
    simp [absLed, LedG.set, Spec.set, Spec.last, viewMap_get, view_ovSet,
      ExtTreeMap.getElem?_insert]

theorem sim_setF (s : Spec) (k : Key) (v : Val) : absLed (s.setF k v) = (absLed s).set true k v := by
  refine LedG.ext' (by rfl) (fun k' => ?_) (fun k' => ?_) <;>
    simp [absLed, LedG.set, Spec.setF, Spec.last, viewMap_get, view_ovSet,
      ExtTreeMap.getElem?_insert]

theorem sim_del (s : Spec) (k : Key) : absLed (s.del k).1 = (absLed s).del false k := by
  refine LedG.ext' (by rfl) (fun k' => ?_) (fun k' => ?_) <;>
    simp [absLed, LedG.del, Spec.del, Spec.last, viewMap_get, view_ovDel,
      ExtTreeMap.getElem?_erase]

theorem sim_del_out (s : Spec) (k : Key) : (s.del k).2 = (absLed s).get false k := by
  simp [Spec.del, ovDel_out, LedG.get, absLed_chk]

theorem sim_delF (s : Spec) (k : Key) : absLed (s.delF k).1 = (absLed s).del true k := by
  refine LedG.ext' (by rfl) (fun k' => ?_) (fun k' => ?_) <;>
    simp [absLed, LedG.del, Spec.delF, Spec.del, Spec.last, viewMap_get, view_ovDel,
      ExtTreeMap.getElem?_erase]

theorem sim_delF_out (s : Spec) (k : Key) : (s.delF k).2 = (absLed s).get true k := by
  simp [Spec.delF, Spec.del, ovDel_out, LedG.get, absLed_fin, Spec.last]

theorem sim_commit (s : Spec) : absLed s.commit = (absLed s).commit := by
  have hl : s.commit.last = viewMap s.fin s.last := by
    simp [Spec.commit, Spec.last, viewMap]
  apply LedG.ext'
  · rfl
  · intro k; simp only [absLed, LedG.commit, hl]; rw [viewMap_get]; simp [Spec.commit, view]
  · intro k; simp only [absLed, LedG.commit, hl]; rw [viewMap_get]; simp [Spec.commit, view]

theorem sim_reopen (s : Spec) : absLed s.reopen = (absLed s).reopen := by
  refine LedG.ext' (by rfl) (fun k => ?_) (fun k => ?_) <;>
    simp [absLed, LedG.reopen, LedG.committed, Spec.reopen, Spec.last, viewMap_get, view]

/-- **One-step simulation.**  For every `Spec` state and every cancel-free operation, the output of
    `Spec.step` is the output of the corresponding `Led` operation on the abstract state, and the
    abstraction of the new `Spec` state is the new `Led` state. -/
theorem sim_step (s : Spec) (o : NOp) :
    absLed (s.step o.toOp).1 = ((absLed s).step o).1 ∧
    (s.step o.toOp).2 = ((absLed s).step o).2.toOut := by
  cases o with
  | set k v => exact ⟨sim_set s k v, rfl⟩
  | get k => exact ⟨rfl, by simp [Spec.step, LOp.toOp, LedG.step, LOut.toOut, Spec.get, LedG.get, absLed_chk]⟩
  | del k => exact ⟨sim_del s k, by simp [Spec.step, LOp.toOp, LedG.step, LOut.toOut, sim_del_out]⟩
  | setF k v => exact ⟨sim_setF s k v, rfl⟩
  | getF k => exact ⟨rfl, by simp [Spec.step, LOp.toOp, LedG.step, LOut.toOut, Spec.getF, LedG.get, absLed_fin]⟩
  | delF k => exact ⟨sim_delF s k, by simp [Spec.step, LOp.toOp, LedG.step, LOut.toOut, sim_delF_out]⟩
  | read k => exact ⟨rfl, rfl⟩
  | iterAll => exact ⟨rfl, rfl⟩
  | commit =>
    refine ⟨sim_commit s, ?_⟩
    simp [Spec.step, LOp.toOp, LedG.step, LOut.toOut, Spec.commit, Spec.version, LedG.commit,
      LedG.version, absLed_hist]
  | readAt n k =>
    refine ⟨rfl, ?_⟩
    simp only [Spec.step, LOp.toOp, LedG.step, Spec.readAt, LedG.at?, absLed_committed, absLed_hist]
    by_cases h : n ≤ 0
    · simp only [h, if_true]; rfl
    · simp only [h, if_false]
      cases s.committed[n.toNat - 1]? <;> rfl
  | reopen => exact ⟨sim_reopen s, rfl⟩
  | version => exact ⟨rfl, rfl⟩

/-! ## (E) operation sequences, and composition with the C18 refinement `Impl ⊑ Spec` -/

/-- **Simulation of runs.**  From any `Spec` state, a sequence of cancel-free operations produces
    the same outputs on `Spec` and on its `Led` abstraction, and the final states correspond. -/
theorem sim_run (s : Spec) (lops : List NOp) :
    absLed (s.run (lops.map LOp.toOp)).1 = ((absLed s).run lops).1 ∧
    (s.run (lops.map LOp.toOp)).2 = ((absLed s).run lops).2.map LOut.toOut := by
  induction lops generalizing s with
  | nil => exact ⟨rfl, rfl⟩
  | cons o lops ih =>
    obtain ⟨a, b⟩ := sim_step s o
    obtain ⟨c, d⟩ := ih (s.step o.toOp).1
    simp only [List.map_cons, Spec.run, LedG.run, List.map_cons]
    rw [a] at c d
    exact ⟨c, by rw [b, d]⟩

/-- `Spec ⊑ Led` from the empty ledger. -/
theorem spec_refines_led (lops : List NOp) :
    (({} : Spec).run (lops.map LOp.toOp)).2 = (({} : LedN).run lops).2.map LOut.toOut := by
  have := (sim_run {} lops).2
  rwa [absLed_empty] at this

/-- **End-to-end: `Impl ⊑ Led`.**  On every sequence of cancel-free operations (mempool
    get/set/del, consensus get/set/del, read, iterate, commit, historical read, reopen, version, in
    any order, any keys), the model of the real three-cache ledger returns exactly what the `Led`
    abstraction used by the application model returns. -/
theorem impl_refines_led (lops : List NOp) :
    (({} : Impl).run (lops.map LOp.toOp)).2 = (({} : LedN).run lops).2.map LOut.toOut := by
  rw [← spec_refines_led]
  exact (run_refines {} Inv_init _).1.symm

/-- the same, quantifying over `Rigo.Ledger.Op` sequences: for every cancel-free `ops`, the outputs
    of `Impl.run` are the outputs of the `Led` run of the translated sequence (`Op.toL?` is the
    identity translation on cancel-free operations: `map_toOp_filterMap`). -/
theorem impl_refines_led' (ops : List Op) (h : CancelFree ops) :
    (({} : Impl).run ops).2 = (({} : LedN).run (ops.filterMap Op.toL?)).2.map LOut.toOut := by
  have := impl_refines_led (ops.filterMap Op.toL?)
  rwa [map_toOp_filterMap ops h] at this

theorem spec_refines_led' (s : Spec) (ops : List Op) (h : CancelFree ops) :
    (s.run ops).2 = ((absLed s).run (ops.filterMap Op.toL?)).2.map LOut.toOut ∧
    absLed (s.run ops).1 = ((absLed s).run (ops.filterMap Op.toL?)).1 := by
  have := sim_run s (ops.filterMap Op.toL?)
  rw [map_toOp_filterMap ops h] at this
  exact ⟨this.2, this.1⟩

/-- from any coherent implementation state (`Inv`: every reachable one, `run_refines`), with the
    composed abstraction `absLed ∘ abs : Impl → Led` -/
theorem impl_sim_run (l : Impl) (hl : Inv l) (lops : List NOp) :
    absLed (abs (l.run (lops.map LOp.toOp)).1) = ((absLed (abs l)).run lops).1 ∧
    (l.run (lops.map LOp.toOp)).2 = ((absLed (abs l)).run lops).2.map LOut.toOut := by
  obtain ⟨a, b, _⟩ := run_refines l hl (lops.map LOp.toOp)
  obtain ⟨c, d⟩ := sim_run (abs l) lops
  exact ⟨by rw [b, c], by rw [← a, d]⟩

/-! ## (F) the `cancel*` operations have no counterpart on `Led` -/

set_option linter.unusedSimpArgs false

/-- `CancelSet` is not a function of the `Led` state: two `Spec` states (both reachable: one is
    `setF 1 7; commit; set 1 5`, the other `setF 1 7; commit; del 1; set 1 5`) have the same
    abstraction, but after `cancelSet 1` one mempool view holds the committed 7, the other nothing. -/
theorem cancelSet_not_abstractable :
    ∃ s₁ s₂ : Spec, absLed s₁ = absLed s₂ ∧ absLed (s₁.cancelSet 1) ≠ absLed (s₂.cancelSet 1) := by
  refine ⟨(({} : Spec).run [.setF 1 7, .commit, .set 1 5]).1,
    (({} : Spec).run [.setF 1 7, .commit, .del 1, .set 1 5]).1, ?_, ?_⟩
  · refine LedG.ext' (by rfl) (fun k => ?_) (fun k => ?_)
    · rw [absLed_fin, absLed_fin]; rfl
    · rw [absLed_chk, absLed_chk]
      by_cases e : k = 1
      · subst e; decide
      · simp [Spec.run, Spec.step, Spec.setF, Spec.commit, Spec.set, Spec.del, Spec.ovSet,
          Spec.ovDel, Spec.last, view, Ne.symm e, e]
  · intro h
    have := congrArg (fun l => l.chk[(1 : Key)]?) h
    simp only [absLed_chk] at this
    revert this; decide

/-- `CancelDel` likewise: after `del 1` the deleted list is `[1]`, after `del 1; set 1 5; del 1` it
    is `[1, 1]`; same views, but `cancelDel 1` resurrects the committed value only in the first. -/
theorem cancelDel_not_abstractable :
    ∃ s₁ s₂ : Spec, absLed s₁ = absLed s₂ ∧ absLed (s₁.cancelDel 1) ≠ absLed (s₂.cancelDel 1) := by
  refine ⟨(({} : Spec).run [.setF 1 7, .commit, .del 1]).1,
    (({} : Spec).run [.setF 1 7, .commit, .del 1, .set 1 5, .del 1]).1, ?_, ?_⟩
  · refine LedG.ext' (by rfl) (fun k => ?_) (fun k => ?_)
    · rw [absLed_fin, absLed_fin]; rfl
    · rw [absLed_chk, absLed_chk]
      by_cases e : k = 1
      · subst e; decide
      · simp [Spec.run, Spec.step, Spec.setF, Spec.commit, Spec.set, Spec.del, Spec.ovSet,
          Spec.ovDel, Spec.last, view, Ne.symm e, e]
  · intro h
    have := congrArg (fun l => l.chk[(1 : Key)]?) h
    simp only [absLed_chk] at this
    revert this; decide

/-- `CancelSetFinality`, same witness on the consensus overlay. -/
theorem cancelSetF_not_abstractable :
    ∃ s₁ s₂ : Spec, absLed s₁ = absLed s₂ ∧ absLed (s₁.cancelSetF 1) ≠ absLed (s₂.cancelSetF 1) := by
  refine ⟨(({} : Spec).run [.setF 1 7, .commit, .setF 1 5, .set 1 5]).1,
    (({} : Spec).run [.setF 1 7, .commit, .delF 1, .setF 1 5, .set 1 5]).1, ?_, ?_⟩
  · refine LedG.ext' (by rfl) (fun k => ?_) (fun k => ?_)
    · rw [absLed_fin, absLed_fin]
      by_cases e : k = 1
      · subst e; decide
      · simp [Spec.run, Spec.step, Spec.setF, Spec.commit, Spec.set, Spec.del, Spec.delF, Spec.ovSet,
          Spec.ovDel, Spec.last, view, Ne.symm e, e]
    · rw [absLed_chk, absLed_chk]
      by_cases e : k = 1
      · subst e; decide
      · simp [Spec.run, Spec.step, Spec.setF, Spec.commit, Spec.set, Spec.del, Spec.delF, Spec.ovSet,
          Spec.ovDel, Spec.last, view, Ne.symm e, e]
  · intro h
    have := congrArg (fun l => l.fin[(1 : Key)]?) h
    simp only [absLed_fin] at this
    revert this; decide

/-- `CancelDelFinality`, same witness on the consensus overlay. -/
theorem cancelDelF_not_abstractable :
    ∃ s₁ s₂ : Spec, absLed s₁ = absLed s₂ ∧ absLed (s₁.cancelDelF 1) ≠ absLed (s₂.cancelDelF 1) := by
  refine ⟨(({} : Spec).run [.setF 1 7, .commit, .delF 1]).1,
    (({} : Spec).run [.setF 1 7, .commit, .delF 1, .setF 1 5, .delF 1]).1, ?_, ?_⟩
  · refine LedG.ext' (by rfl) (fun k => ?_) (fun k => ?_)
    · rw [absLed_fin, absLed_fin]
      by_cases e : k = 1
      · subst e; decide
      · simp [Spec.run, Spec.step, Spec.setF, Spec.commit, Spec.set, Spec.del, Spec.delF, Spec.ovSet,
          Spec.ovDel, Spec.last, view, Ne.symm e, e]
    · rw [absLed_chk, absLed_chk]
      by_cases e : k = 1
      · subst e; decide
      · simp [Spec.run, Spec.step, Spec.setF, Spec.commit, Spec.set, Spec.del, Spec.delF, Spec.ovSet,
          Spec.ovDel, Spec.last, view, Ne.symm e, e]
  · intro h
    have := congrArg (fun l => l.fin[(1 : Key)]?) h
    simp only [absLed_fin] at this
    revert this; decide

set_option linter.unusedSimpArgs true

/-! ## Non-vacuity -/

/-- a concrete run on the three sides: same outputs (the expected list is spelled out) -/
def demoOps : List NOp :=
  [.set 1 10, .get 1, .getF 1, .setF 1 11, .setF 2 20, .get 2, .commit, .get 1, .read 2,
   .delF 1, .getF 1, .get 1, .set 3 30, .del 2, .get 2, .getF 2, .commit, .get 3, .iterAll,
   .readAt 1 1, .readAt 2 1, .readAt 0 2, .readAt 3 1, .setF 4 40, .reopen, .getF 4, .version]

def demoOuts : List Out :=
  [.unit, .val (some 10), .val none, .unit, .unit, .val none, .ver 1, .val (some 11), .val (some 20),
   .val (some 11), .val none, .val none, .unit, .val (some 20), .val none, .val (some 20), .ver 2,
   .val none, .items [(2, 20)], .val (some 11), .val none, .val (some 20), .err, .unit, .unit,
   .val none, .ver 2]

example : (({} : Impl).run (demoOps.map LOp.toOp)).2 = demoOuts := by decide
example : (({} : Spec).run (demoOps.map LOp.toOp)).2 = demoOuts := by decide
example : (({} : LedN).run demoOps).2.map LOut.toOut = demoOuts := by decide
example : CancelFree (demoOps.map LOp.toOp) := by decide

/-- the same scenario on the application model's own `Rigo.Led` (String keys) -/
example :
    (Led.run ({} : Led Nat) [.set "a" 10, .setF "a" 11, .get "a", .commit, .get "a", .delF "a",
      .get "a", .commit, .readAt 1 "a", .readAt 2 "a", .readAt 3 "a", .setF "b" 1, .reopen,
      .getF "b", .version]).2 =
    [.unit, .unit, .val (some 10), .ver 1, .val (some 11), .val (some 11), .val none, .ver 2,
      .val (some 11), .val none, .err, .unit, .unit, .val none, .ver 2] := by decide

end Rigo.LedBridge
