/-
  Round 4: the ledger package itself, second part.  `SimpleLedger` (ledger/simple_ledger.go) and
  `FinalityLedger` (ledger/finality_ledger.go): every generated function equals the corresponding
  operation of the hand model `Rigo.Ledger.Impl` (Rigo/Ledger/Impl.lean), which RigoProps/C18.lean
  proves to refine the overlay-map specification and RigoProofs/LedBridge*.lean the application
  model's `Led`.  This closes the chain  Go source -> generated Lean -> Impl ⊑ Spec ⊑ Led  by proof.

  `finOf l` is the Go ledger object of the model ledger `l` (tree, mempool overlay `cachedItems`,
  consensus overlay `finalityItems`); an item is a value `v : Val` with `Key() = K v` for an arbitrary
  function `K`; the model's `set k v` is met at `k = K v`.  Hypothesis `KeyOK K t k`: the item stored in
  the tree under `k` has the key `k` (the Go `read` reports "the key is compromised" otherwise; the model
  has no such error) -- an invariant of the tree, since `Commit` stores every item under its own key.
-/
import RigoProofs.GenFuncsLedgerMem

set_option linter.unusedSimpArgs false
set_option linter.unusedVariables false

namespace Rigo.GenEq
open Rigo Rigo.Gen Rigo.Ledger

/-- the Go `SimpleLedger` part of a model ledger -/
def simpOf (l : Impl) : SimpleLedger := { tree := l.tree, cachedItems := l.chk }
/-- the Go ledger object of a model ledger (`versions` has no counterpart: `SaveVersion` is an oracle) -/
def finOf (l : Impl) : FinalityLedger := { simple := simpOf l, finalityItems := l.fin }

/-- the error of a read -/
def lerrOf (o : Option Val) : Option String := if o.isSome then none else some "ErrNotFoundResult"

/-- the item stored under `k` carries the key `k` -/
def KeyOK (K : Val → Key) (t : Map) (k : Key) : Prop := ∀ v, t[k]? = some v → K v = k

instance (K : Val → Key) (t : Map) (k : Key) : Decidable (KeyOK K t k) := by
  unfold KeyOK
  cases h : t[k]? with
  | none => exact isTrue (by intro v hv; cases hv)
  | some w =>
    by_cases c : K w = k
    · exact isTrue (by intro v hv; cases hv; exact c)
    · exact isFalse (fun hh => c (hh w rfl))

/-- every entry of a map is stored under its own key (invariant of the `updated` overlay) -/
def KeysOK (K : Val → Key) (m : Map) : Prop := ∀ k, KeyOK K m k

/-! ### SimpleLedger -/

/-- `read(k)`: the tree only -/
theorem SimpleLedger_read_eq (s : SimpleLedger) (k : Key) (K : Val → Key) (hk : KeyOK K s.tree k) :
    SimpleLedger_read s k K = .ok (s.tree[k]?, lerrOf s.tree[k]?) := by
  unfold SimpleLedger_read
  dsimp only
  cases h : s.tree[k]? with
  | none => simp [pure, Except.pure, lerrOf]
  | some v =>
    have := hk v h
    simp [pure, Except.pure, bind, Except.bind, gderef, lerrOf, this]

/-- `Read(k)` = `Impl.read` -/
theorem SimpleLedger_Read_eq (l : Impl) (k : Key) (K : Val → Key) (hk : KeyOK K l.tree k) :
    SimpleLedger_Read (simpOf l) k K = .ok (l.read k, lerrOf (l.read k)) := by
  unfold SimpleLedger_Read
  dsimp only
  rw [SimpleLedger_read_eq _ _ _ hk]
  simp only [bind, Except.bind, pure, Except.pure, simpOf, Impl.read, lerrOf]
  obtain h | ⟨v, h⟩ := Option.eq_none_or_eq_some (l.tree[k]?) <;> simp [h]

/-- `Set(item)` = `Impl.set` at the item's key -/
theorem SimpleLedger_Set_eq (l : Impl) (v : Val) (K : Val → Key) :
    SimpleLedger_Set (simpOf l) (some v) K = .ok (simpOf (l.set (K v) v), none) := rfl

/-- `CancelSet(k)` = `Impl.cancelSet` -/
theorem SimpleLedger_CancelSet_eq (l : Impl) (k : Key) :
    SimpleLedger_CancelSet (simpOf l) k = .ok (simpOf (l.cancelSet k), none) := by
  unfold SimpleLedger_CancelSet
  dsimp only
  rw [memItems_delUpdatedItem_eq]
  simp only [bind, Except.bind]
  rw [memItems_delGotItem_eq]
  rfl

/-- the generic read through one overlay (`get` / `getFinality`): cache, removed list, tree -/
theorem getIn_steps (m : MemItems) (t : Map) (k : Key) (K : Val → Key) (hk : KeyOK K t k) :
    (Impl.getIn m t k) =
      match m.got[k]? with
      | some v => (m, some v)
      | none => if k ∈ m.removed then (m, none) else
          match t[k]? with
          | some v => ({ m with got := m.got.insert (K v) v }, some v)
          | none => (m, none) := by
  unfold Impl.getIn
  cases m.got[k]? with
  | some v => rfl
  | none =>
    by_cases c : k ∈ m.removed
    · simp [c]
    · simp only [c, if_false]
      cases h : t[k]? with
      | none => rfl
      | some v => simp [hk v h]

/-- `get(k)` = `Impl.get`: the cache is consulted BEFORE the removed list -/
theorem SimpleLedger_get_eq (l : Impl) (k : Key) (K : Val → Key) (hk : KeyOK K l.tree k) :
    SimpleLedger_get (simpOf l) k K = .ok (simpOf (l.get k).1, (l.get k).2, lerrOf (l.get k).2) := by
  unfold SimpleLedger_get
  dsimp only
  rw [memItems_getGotItem_eq, memItems_isRemovedKey_eq, SimpleLedger_read_eq _ _ _ hk]
  simp only [Impl.get, getIn_steps _ _ _ K hk, simpOf, bind, Except.bind, pure, Except.pure]
  obtain h1 | ⟨v, h1⟩ := Option.eq_none_or_eq_some (l.chk.got[k]?)
  · by_cases c : k ∈ l.chk.removed
    · simp [h1, c, lerrOf]
    · obtain h2 | ⟨v, h2⟩ := Option.eq_none_or_eq_some (l.tree[k]?)
      · simp [h1, h2, c, lerrOf]
      · simp [h1, h2, c, lerrOf, memItems_setGotItem_eq]
  · simp [h1, lerrOf]

/-- `Get(k)` -/
theorem SimpleLedger_Get_eq (l : Impl) (k : Key) (K : Val → Key) (hk : KeyOK K l.tree k) :
    SimpleLedger_Get (simpOf l) k K = .ok (simpOf (l.get k).1, (l.get k).2, lerrOf (l.get k).2) := by
  unfold SimpleLedger_Get
  dsimp only
  rw [SimpleLedger_get_eq _ _ _ hk]
  rfl

/-- `del(k)` = `Impl.del` -/
theorem SimpleLedger_del_eq (l : Impl) (k : Key) (K : Val → Key) (hk : KeyOK K l.tree k) :
    SimpleLedger_del (simpOf l) k K = .ok (simpOf (l.del k).1, (l.del k).2, lerrOf (l.del k).2) := by
  unfold SimpleLedger_del
  dsimp only
  rw [SimpleLedger_get_eq _ _ _ hk]
  simp only [bind, Except.bind, pure, Except.pure, Impl.del, Impl.delIn, Impl.get, getIn_steps _ _ _ K hk]
  obtain h1 | ⟨v, h1⟩ := Option.eq_none_or_eq_some (l.chk.got[k]?)
  · by_cases c : k ∈ l.chk.removed
    · simp [h1, c, lerrOf, simpOf]
    · obtain h2 | ⟨v, h2⟩ := Option.eq_none_or_eq_some (l.tree[k]?)
      · simp [h1, h2, c, lerrOf, simpOf]
      · simp [h1, h2, c, lerrOf, simpOf, memItems_delGotItem_eq, memItems_delUpdatedItem_eq, memItems_appendRemovedKey_eq]
  · simp [h1, lerrOf, simpOf, memItems_delGotItem_eq, memItems_delUpdatedItem_eq, memItems_appendRemovedKey_eq]

/-- `Del(k)` -/
theorem SimpleLedger_Del_eq (l : Impl) (k : Key) (K : Val → Key) (hk : KeyOK K l.tree k) :
    SimpleLedger_Del (simpOf l) k K = .ok (simpOf (l.del k).1, (l.del k).2, lerrOf (l.del k).2) := by
  unfold SimpleLedger_Del
  dsimp only
  rw [SimpleLedger_del_eq _ _ _ hk]
  rfl

/-- `CancelDel(k)` = `Impl.cancelDel`: the first occurrence in the removed list is dropped -/
theorem SimpleLedger_CancelDel_eq (l : Impl) (k : Key) :
    SimpleLedger_CancelDel (simpOf l) k = .ok (simpOf (l.cancelDel k), none) := by
  unfold SimpleLedger_CancelDel
  dsimp only
  rw [memItems_delRemovedKey_eq]
  rfl

/-! ### FinalityLedger -/

/-- `SetFinality(item)` = `Impl.setF` at the item's key -/
theorem FinalityLedger_SetFinality_eq (l : Impl) (v : Val) (K : Val → Key) :
    FinalityLedger_SetFinality (finOf l) (some v) K = .ok (finOf (l.setF (K v) v), none) := rfl

/-- `CancelSetFinality(k)` = `Impl.cancelSetF` -/
theorem FinalityLedger_CancelSetFinality_eq (l : Impl) (k : Key) :
    FinalityLedger_CancelSetFinality (finOf l) k = .ok (finOf (l.cancelSetF k), none) := by
  unfold FinalityLedger_CancelSetFinality
  dsimp only
  rw [memItems_delUpdatedItem_eq]
  simp only [bind, Except.bind]
  rw [memItems_delGotItem_eq]
  rfl

/-- `getFinality(k)` = `Impl.getF`: the cache is consulted BEFORE the removed list -/
theorem FinalityLedger_getFinality_eq (l : Impl) (k : Key) (K : Val → Key) (hk : KeyOK K l.tree k) :
    FinalityLedger_getFinality (finOf l) k K = .ok (finOf (l.getF k).1, (l.getF k).2, lerrOf (l.getF k).2) := by
  unfold FinalityLedger_getFinality
  dsimp only
  rw [memItems_getGotItem_eq, memItems_isRemovedKey_eq, SimpleLedger_read_eq _ _ _ hk]
  simp only [Impl.getF, getIn_steps _ _ _ K hk, finOf, simpOf, bind, Except.bind, pure, Except.pure]
  obtain h1 | ⟨v, h1⟩ := Option.eq_none_or_eq_some (l.fin.got[k]?)
  · by_cases c : k ∈ l.fin.removed
    · simp [h1, c, lerrOf]
    · obtain h2 | ⟨v, h2⟩ := Option.eq_none_or_eq_some (l.tree[k]?)
      · simp [h1, h2, c, lerrOf]
      · simp [h1, h2, c, lerrOf, memItems_setGotItem_eq]
  · simp [h1, lerrOf]

/-- `GetFinality(k)` -/
theorem FinalityLedger_GetFinality_eq (l : Impl) (k : Key) (K : Val → Key) (hk : KeyOK K l.tree k) :
    FinalityLedger_GetFinality (finOf l) k K = .ok (finOf (l.getF k).1, (l.getF k).2, lerrOf (l.getF k).2) := by
  unfold FinalityLedger_GetFinality
  dsimp only
  rw [FinalityLedger_getFinality_eq _ _ _ hk]
  rfl

theorem del_tree (l : Impl) (k : Key) : (l.del k).1.tree = l.tree := by
  unfold Impl.del; rfl

/-- `DelFinality(k)` = `Impl.delF`: first the mempool delete (result ignored), then the consensus one -/
theorem FinalityLedger_DelFinality_eq (l : Impl) (k : Key) (K : Val → Key) (hk : KeyOK K l.tree k) :
    FinalityLedger_DelFinality (finOf l) k K = .ok (finOf (l.delF k).1, (l.delF k).2, lerrOf (l.delF k).2) := by
  unfold FinalityLedger_DelFinality
  dsimp only
  have e0 : (finOf l).simple = simpOf l := rfl
  rw [e0, SimpleLedger_del_eq _ _ _ hk]
  simp only [bind, Except.bind, pure, Except.pure]
  have e1 : ({ simple := simpOf (l.del k).1, finalityItems := (finOf l).finalityItems } : FinalityLedger) = finOf (l.del k).1 := by
    unfold finOf Impl.del; rfl
  rw [e1]
  have hk' : KeyOK K (l.del k).1.tree k := by rw [del_tree]; exact hk
  rw [FinalityLedger_getFinality_eq _ _ _ hk']
  have ef : (l.del k).1.fin = l.fin := by unfold Impl.del; rfl
  simp only [Impl.delF, Impl.delIn, Impl.getF, del_tree, ef, getIn_steps _ _ _ K hk]
  obtain h1 | ⟨v, h1⟩ := Option.eq_none_or_eq_some (l.fin.got[k]?)
  · by_cases c : k ∈ l.fin.removed
    · simp [h1, c, lerrOf, finOf, simpOf]
    · obtain h2 | ⟨v, h2⟩ := Option.eq_none_or_eq_some (l.tree[k]?)
      · simp [h1, h2, c, lerrOf, finOf, simpOf]
      · simp [h1, h2, c, lerrOf, finOf, simpOf, memItems_delGotItem_eq, memItems_delUpdatedItem_eq, memItems_appendRemovedKey_eq]
  · simp [h1, lerrOf, finOf, simpOf, memItems_delGotItem_eq, memItems_delUpdatedItem_eq, memItems_appendRemovedKey_eq]

/-- `CancelDelFinality(k)` = `Impl.cancelDelF` -/
theorem FinalityLedger_CancelDelFinality_eq (l : Impl) (k : Key) :
    FinalityLedger_CancelDelFinality (finOf l) k = .ok (finOf (l.cancelDelF k), none) := by
  unfold FinalityLedger_CancelDelFinality
  dsimp only
  rw [memItems_delRemovedKey_eq]
  rfl

/-! ### `Commit` -/

/-- mirror of the first loop: the removed keys leave the tree -/
def commitL1 {ρ : Type} (ks : List Key) (s : Option ρ × FinalityLedger) : Option ρ × FinalityLedger :=
  ks.foldl (fun s k => (none, { simple := { tree := s.2.simple.tree.erase k, cachedItems := s.2.simple.cachedItems },
                                finalityItems := s.2.finalityItems })) s

theorem commitL1_none {ρ : Type} (ks : List Key) (f : FinalityLedger) :
    commitL1 ks ((none : Option ρ), f) =
      (none, { simple := { tree := eraseAll f.simple.tree ks, cachedItems := f.simple.cachedItems },
               finalityItems := f.finalityItems }) := by
  induction ks generalizing f with
  | nil => rfl
  | cons k ks ih =>
    simp only [commitL1, List.foldl_cons, eraseAll] at ih ⊢
    rw [ih]

/-- mirror of the third loop: the updated items enter the tree under their own keys, in the given order -/
def commitL3 {ρ : Type} (K : Val → Key) : List Key → Option ρ × FinalityLedger → G (Option ρ × FinalityLedger)
  | [], s => pure s
  | k :: ks, s =>
    match s.2.finalityItems.updated[k]? with
    | none => throw "nil pointer dereference"
    | some v => commitL3 K ks (none, { simple := { tree := s.2.simple.tree.insert (K v) v, cachedItems := s.2.simple.cachedItems },
                                       finalityItems := s.2.finalityItems })

/-- the tree after the third loop -/
def treeIns (u : Map) (ks : List Key) (t : Map) : Map :=
  ks.foldl (fun t k => match u[k]? with | some v => t.insert k v | none => t) t

theorem treeIns_get (u : Map) (ks : List Key) (t : Map) (a : Key) :
    (treeIns u ks t)[a]? = if a ∈ ks then (u[a]?).or t[a]? else t[a]? := by
  induction ks generalizing t with
  | nil => simp [treeIns]
  | cons k ks ih =>
    simp only [treeIns, List.foldl_cons] at ih ⊢
    rw [ih]
    by_cases c : a = k
    · subst c
      obtain h | ⟨v, h⟩ := Option.eq_none_or_eq_some (u[a]?)
      · simp [h]
      · by_cases c2 : a ∈ ks <;> simp [h, c2]
    · have c' : ¬ k = a := fun e => c e.symm
      by_cases c2 : a ∈ ks
      · simp only [c2, if_true, List.mem_cons, or_true]
        congr 1
        obtain h | ⟨v, h⟩ := Option.eq_none_or_eq_some (u[k]?)
        · simp [h]
        · simp only [h]; grind
      · simp only [c2, if_false, List.mem_cons, c, false_or]
        obtain h | ⟨v, h⟩ := Option.eq_none_or_eq_some (u[k]?)
        · simp [h]
        · simp only [h]; grind

theorem commitL3_ok {ρ : Type} (K : Val → Key) (ks : List Key) (f : FinalityLedger)
    (hu : KeysOK K f.finalityItems.updated) (hin : ∀ k ∈ ks, (f.finalityItems.updated[k]?).isSome) :
    commitL3 K ks ((none : Option ρ), f) =
      pure (none, { simple := { tree := treeIns f.finalityItems.updated ks f.simple.tree, cachedItems := f.simple.cachedItems },
                    finalityItems := f.finalityItems }) := by
  induction ks generalizing f with
  | nil => rfl
  | cons k ks ih =>
    have h1 := hin k (by simp)
    obtain h | ⟨v, h⟩ := Option.eq_none_or_eq_some (f.finalityItems.updated[k]?)
    · rw [h] at h1; cases h1
    · have hk : K v = k := hu k v h
      simp only [commitL3, h, hk]
      have e := ih { simple := { tree := f.simple.tree.insert k v, cachedItems := f.simple.cachedItems },
                     finalityItems := f.finalityItems } hu (fun k' hk' => hin k' (by simp [hk']))
      exact e.trans (by simp only [treeIns, List.foldl_cons, h])

/-- the keys collected by the second loop and sorted: exactly the keys of the updated items -/
theorem mem_sorted_keys (u : Map) (ord : MapOrder) (srt : SortOf LedgerKeyList_Less) (a : Key) :
    a ∈ srt.sort ((ord.order u.toList).map (·.1)) ↔ (u[a]?).isSome := by
  rw [(srt.perm _).mem_iff, List.mem_map]
  constructor
  · rintro ⟨⟨k, v⟩, hm, rfl⟩
    rw [(ord.perm _).mem_iff, Std.ExtTreeMap.mem_toList_iff_getElem?_eq_some] at hm
    simp [hm]
  · intro h
    obtain ⟨v, hv⟩ := Option.isSome_iff_exists.mp h
    refine ⟨(a, v), ?_, rfl⟩
    rw [(ord.perm _).mem_iff, Std.ExtTreeMap.mem_toList_iff_getElem?_eq_some]
    exact hv

theorem eraseAll_def (t : Map) (ks : List Key) : eraseAll t ks = ks.foldl (fun acc k => acc.erase k) t := rfl

/-- `Commit()` = `Impl.commit` (tree, both overlays), for every iteration order of the map, every
    admissible sort and every successful `SaveVersion`, whose results are handed back -/
theorem FinalityLedger_Commit_eq (l : Impl) (ord : MapOrder) (srt : SortOf LedgerKeyList_Less) (K : Val → Key)
    (h : Hex) (ver : Int) (hu : KeysOK K l.fin.updated) :
    FinalityLedger_Commit (finOf l) ord srt K (h, ver, none) = .ok (finOf l.commit, h, ver, none) := by
  unfold FinalityLedger_Commit
  dsimp only
  rw [forIn_eq_pure _ commitL1 (by intro s; rfl)
    (by intro x xs s; simp [commitL1, pure, Except.pure, bind, Except.bind])]
  simp only [finOf, simpOf, commitL1_none, bind, Except.bind, pure, Except.pure]
  rw [forIn_eq_pure _ (fun (es : List (Key × Val)) (acc : List Key) => acc ++ es.map (·.1)) (by intro s; simp)
    (by intro x xs s; simp [pure, Except.pure, bind, Except.bind])]
  simp only [bind, Except.bind, pure, Except.pure, List.nil_append]
  rw [forIn_eq _ (commitL3 K) (by intro s; rfl)
    (by
      intro x xs s
      obtain hx | ⟨v, hx⟩ := Option.eq_none_or_eq_some (s.2.finalityItems.updated[x]?)
      · simp [commitL3, hx, gderef, bind, Except.bind, throw, throwThe, MonadExceptOf.throw]
      · simp [commitL3, hx, gderef, bind, Except.bind, pure, Except.pure])]
  have e := commitL3_ok (ρ := FinalityLedger × Hex × Int × Option String) K
    (srt.sort (List.map (fun x => x.fst) (ord.order (Std.ExtTreeMap.toList l.fin.updated))))
    { simple := { tree := eraseAll l.tree l.fin.removed, cachedItems := l.chk }, finalityItems := l.fin } hu
    (fun k hk => (mem_sorted_keys _ ord srt k).mp hk)
  rw [e]
  simp only [bind, Except.bind, pure, Except.pure, memItems_reset_eq, memItems_refresh_eq, Impl.commit, finOf, simpOf]
  have ht : treeIns l.fin.updated
      (srt.sort (List.map (fun x => x.fst) (ord.order (Std.ExtTreeMap.toList l.fin.updated))))
      (eraseAll l.tree l.fin.removed) = eraseAll l.tree l.fin.removed ∪ l.fin.updated := by
    apply Std.ExtTreeMap.ext_getElem?
    intro a
    rw [treeIns_get, Std.ExtTreeMap.getElem?_union]
    by_cases c : (l.fin.updated[a]?).isSome
    · rw [if_pos ((mem_sorted_keys _ ord srt a).mpr c)]
    · rw [if_neg (fun hh => c ((mem_sorted_keys _ ord srt a).mp hh))]
      have : l.fin.updated[a]? = none := by simpa using c
      simp [this]
  simp [ht, MemItems.empty]

/-- a failing `SaveVersion`: the tree has changed but both overlays are kept and the error is returned
    (the model has no failing commit: `SaveVersion` errors are outside the model) -/
theorem FinalityLedger_Commit_saveError (l : Impl) (ord : MapOrder) (srt : SortOf LedgerKeyList_Less) (K : Val → Key)
    (h : Hex) (ver : Int) (e : String) (hu : KeysOK K l.fin.updated) :
    FinalityLedger_Commit (finOf l) ord srt K (h, ver, some e) =
      .ok (finOf { l with tree := l.commit.tree }, h, ver, some "xerrors.From") := by
  unfold FinalityLedger_Commit
  dsimp only
  rw [forIn_eq_pure _ commitL1 (by intro s; rfl)
    (by intro x xs s; simp [commitL1, pure, Except.pure, bind, Except.bind])]
  simp only [finOf, simpOf, commitL1_none, bind, Except.bind, pure, Except.pure]
  rw [forIn_eq_pure _ (fun (es : List (Key × Val)) (acc : List Key) => acc ++ es.map (·.1)) (by intro s; simp)
    (by intro x xs s; simp [pure, Except.pure, bind, Except.bind])]
  simp only [bind, Except.bind, pure, Except.pure, List.nil_append]
  rw [forIn_eq _ (commitL3 K) (by intro s; rfl)
    (by
      intro x xs s
      obtain hx | ⟨v, hx⟩ := Option.eq_none_or_eq_some (s.2.finalityItems.updated[x]?)
      · simp [commitL3, hx, gderef, bind, Except.bind, throw, throwThe, MonadExceptOf.throw]
      · simp [commitL3, hx, gderef, bind, Except.bind, pure, Except.pure])]
  have e := commitL3_ok (ρ := FinalityLedger × Hex × Int × Option String) K
    (srt.sort (List.map (fun x => x.fst) (ord.order (Std.ExtTreeMap.toList l.fin.updated))))
    { simple := { tree := eraseAll l.tree l.fin.removed, cachedItems := l.chk }, finalityItems := l.fin } hu
    (fun k hk => (mem_sorted_keys _ ord srt k).mp hk)
  rw [e]
  simp only [bind, Except.bind, pure, Except.pure, Impl.commit, finOf, simpOf]
  have ht : treeIns l.fin.updated
      (srt.sort (List.map (fun x => x.fst) (ord.order (Std.ExtTreeMap.toList l.fin.updated))))
      (eraseAll l.tree l.fin.removed) = eraseAll l.tree l.fin.removed ∪ l.fin.updated := by
    apply Std.ExtTreeMap.ext_getElem?
    intro a
    rw [treeIns_get, Std.ExtTreeMap.getElem?_union]
    by_cases c : (l.fin.updated[a]?).isSome
    · rw [if_pos ((mem_sorted_keys _ ord srt a).mpr c)]
    · rw [if_neg (fun hh => c ((mem_sorted_keys _ ord srt a).mp hh))]
      have : l.fin.updated[a]? = none := by simpa using c
      simp [this]
  simp [ht]

/-! ### the hypotheses are invariants, and satisfiable -/

/-- `Set` / `SetFinality` keep "every updated item sits under its own key" -/
theorem KeysOK_setIn (K : Val → Key) (m : MemItems) (v : Val) (h : KeysOK K m.updated) :
    KeysOK K (Impl.setIn m (K v) v).updated := by
  intro k w hw
  simp only [Impl.setIn] at hw
  by_cases c : K v = k
  · subst c
    have : w = v := by
      have := hw; rw [Std.ExtTreeMap.getElem?_insert_self] at this; cases this; rfl
    rw [this]
  · rw [Std.ExtTreeMap.getElem?_insert] at hw
    have c' : compare (K v) k ≠ .eq := by
      intro e; exact c (Std.LawfulEqCmp.eq_of_compare e)
    simp [c'] at hw
    exact h k w hw

theorem KeysOK_empty (K : Val → Key) : KeysOK K ({} : Map) := by
  intro k v h; simp at h

/-- `Commit` keeps "every stored item sits under its own key" -/
theorem KeysOK_commit (K : Val → Key) (l : Impl) (ht : KeysOK K l.tree) (hu : KeysOK K l.fin.updated) :
    KeysOK K l.commit.tree := by
  intro k v h
  simp only [Impl.commit, Std.ExtTreeMap.getElem?_union] at h
  obtain hx | ⟨w, hx⟩ := Option.eq_none_or_eq_some (l.fin.updated[k]?)
  · rw [hx] at h
    simp only [Option.none_or] at h
    have hsub : ∀ (ks : List Key) (t : Map), KeysOK K t → KeysOK K (eraseAll t ks) := by
      intro ks
      induction ks with
      | nil => intro t ht; exact ht
      | cons a ks ih =>
        intro t ht
        apply ih
        intro k' v' h'
        by_cases c : a = k'
        · subst c; simp at h'
        · apply ht k' v'
          rw [← h']; grind
    exact hsub _ _ ht k v h
  · rw [hx] at h
    simp only [Option.some_or] at h
    cases h
    exact hu k v hx

/-- satisfiable on a non-trivial state: items `v` with key `v % 100`, one committed, one pending -/
example : KeysOK (fun v => v % 100) (({} : Map).insert 7 107) ∧ KeyOK (fun v => v % 100) (({} : Map).insert 7 107) 7 := by
  constructor
  · have := KeysOK_setIn (fun v => v % 100) {} 107 (KeysOK_empty _)
    simpa [Impl.setIn] using this
  · decide

end Rigo.GenEq
