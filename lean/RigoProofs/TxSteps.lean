/-
  Effect of every operation of the model on the account ledger (used by C04 / C05 / C16):
  BeginBlock never touches it, CheckTx touches only the mempool view, EndBlock only credits balances,
  Commit / restart move whole views.  `AddrOK` (records live under the key of their own address) is an
  invariant of all reachable states.
-/
import RigoProofs.TxCommon
open Std

namespace Rigo

theorem foldl_inv {α β : Type} (P : β → Prop) (f : β → α → β) (hf : ∀ b a, P b → P (f b a))
    (l : List α) (b : β) (hb : P b) : P (l.foldl f b) := by
  induction l generalizing b with
  | nil => exact hb
  | cons a l ih => exact ih _ (hf b a hb)

/-! ### BeginBlock -/

theorem govPunish_accts (s : St) (a : Hex) : (govPunish s a).1.accts = s.accts := by
  unfold govPunish
  apply foldl_inv (fun p : St × Int => p.1.accts = s.accts)
  · intro b k hb
    split
    split
    · exact hb
    · exact hb
  · rfl

theorem stakePunish_accts (s : St) (a : Hex) : (stakePunish s a).1.accts = s.accts := by
  unfold stakePunish
  split <;> rfl

theorem rewardTo_accts (s : St) (d : Delegatee) (ht : Int) :
    ∀ p, rewardTo s d ht = .ok p → p.1.accts = s.accts := by
  unfold rewardTo
  apply foldl_inv (fun r : Res (St × Nat) => ∀ p, r = .ok p → p.1.accts = s.accts)
  · intro b st hb p hp
    cases b with
    | panic e => simp at hp
    | ok q =>
      obtain ⟨s', issued⟩ := q
      have := hb _ rfl
      simp only at hp this
      split at hp
      · simp at hp
      · simp at hp; rw [← hp]; exact this
  · intro p hp; simp at hp; rw [← hp]

theorem processVote_accts (s : St) (ht : Int) (rl : KMap Delegatee) (v : VoteIn) (i : Nat) :
    ∀ p, processVote s ht rl v i = .ok p → p.1.accts = s.accts := by
  intro p hp
  unfold processVote at hp
  split at hp
  · split at hp
    · simp at hp; rw [← hp]
    · split at hp
      · simp at hp; rw [← hp]
      · split at hp
        · simp at hp
        · rename_i s' i' hr
          simp at hp; rw [← hp]
          exact rewardTo_accts s _ ht (s', i') hr
  · split at hp
    · simp at hp; rw [← hp]
    · simp only at hp
      repeat' split at hp
      all_goals (simp at hp; rw [← hp])


/-! `beginBlock` cut into named stages (definitionally the same function) -/

def bbGov (s : St) (ev : List Hex) : St × List Int :=
  ev.foldl (fun (acc, l) a => let (acc', sl) := govPunish acc a; (acc', l ++ [sl])) (s, [])

def bbStake (s : St) (ev : List Hex) : St × List Int :=
  ev.foldl (fun (acc, l) a =>
    match stakePunish acc a with
    | (acc', some sl) => (acc', l ++ [sl])
    | (acc', none) => (acc', l)) (s, [])

def bbVotes (s : St) (ht : Int) (rl : KMap Delegatee) (votes : List VoteIn) : Res (St × Nat) :=
  votes.foldl (fun acc v =>
    match acc with
    | .panic p => .panic p
    | .ok (s, issued) => processVote s ht rl v issued) (Res.ok (s, 0))

def bbAfterStake (s : St) (punishS punishG : List Int) (h : Header) : St × Out :=
  if h.votes.isEmpty then (s, { punishG := punishG }) else
  let hop : Int := if h.height - 4 < 0 then 1 else h.height - 4
  match s.delegs.at? hop with
  | none => (s, { panic := "BeginBlock: reward ledger version does not exist" })
  | some rl =>
    match bbVotes s h.height rl h.votes with
    | .panic p => (s, { panic := p })
    | .ok (s', issued) => (s', { issued := some issued, punishS := punishS, punishG := punishG })

def bbAfterGov (s : St) (punishG : List Int) (h : Header) : St × Out :=
  match amountToPower s.active.minValidatorStake with
  | .panic p => (s, { panic := p })
  | .ok minPower =>
  let all := sortByPower ((s.delegs.committed.toList.map (·.2)).filter fun d => d.self ≥ minPower)
  let s := { s with allDelegs := all,
                    limiter := Limiter.reset all s.active.maxValidatorCnt s.active.maxIndividualStakeRatio s.active.maxUpdatableStakeRatio }
  bbAfterStake (bbStake s h.evidence).1 (bbStake s h.evidence).2 punishG h

theorem beginBlock_eq (s : St) (h : Header) :
    beginBlock s h =
      if h.height ≠ s.lastHeight + 1 then (s, { panic := "BeginBlock: error block height" }) else
      bbAfterGov (bbGov { s with blk := some { height := h.height, time := h.time, proposer := h.proposer } } h.evidence).1
        (bbGov { s with blk := some { height := h.height, time := h.time, proposer := h.proposer } } h.evidence).2 h := by
  rfl


theorem bbGov_accts (s : St) (ev : List Hex) : (bbGov s ev).1.accts = s.accts := by
  unfold bbGov
  apply foldl_inv (fun p : St × List Int => p.1.accts = s.accts)
  · intro b a hb
    obtain ⟨acc, l⟩ := b
    simp only at hb ⊢
    rw [govPunish_accts]; exact hb
  · rfl

theorem bbStake_accts (s : St) (ev : List Hex) : (bbStake s ev).1.accts = s.accts := by
  unfold bbStake
  apply foldl_inv (fun p : St × List Int => p.1.accts = s.accts)
  · intro b a hb
    obtain ⟨acc, l⟩ := b
    simp only at hb ⊢
    have := stakePunish_accts acc a
    split <;> (rename_i heq; rw [heq] at this; simp only at this ⊢; rw [this]; exact hb)
  · rfl

theorem bbVotes_accts (s : St) (ht : Int) (rl : KMap Delegatee) (votes : List VoteIn) :
    ∀ p, bbVotes s ht rl votes = .ok p → p.1.accts = s.accts := by
  unfold bbVotes
  apply foldl_inv (fun r : Res (St × Nat) => ∀ p, r = .ok p → p.1.accts = s.accts)
  · intro b v hb p hp
    cases b with
    | panic e => simp at hp
    | ok q =>
      obtain ⟨s', issued⟩ := q
      have h1 := hb _ rfl
      simp only at hp h1
      rw [processVote_accts s' ht rl v issued p hp]; exact h1
  · intro p hp; simp at hp; rw [← hp]

theorem bbAfterStake_accts (s : St) (ps pg : List Int) (h : Header) : (bbAfterStake s ps pg h).1.accts = s.accts := by
  unfold bbAfterStake
  split
  · rfl
  simp only
  split
  · rfl
  split
  · rfl
  · rename_i s' issued hv
    exact bbVotes_accts s _ _ _ (s', issued) hv

theorem bbAfterGov_accts (s : St) (pg : List Int) (h : Header) : (bbAfterGov s pg h).1.accts = s.accts := by
  unfold bbAfterGov
  split
  · rfl
  simp only
  rw [bbAfterStake_accts, bbStake_accts]

/-- BeginBlock does not touch the account ledger -/
theorem beginBlock_accts (s : St) (h : Header) : (beginBlock s h).1.accts = s.accts := by
  rw [beginBlock_eq]
  split
  · rfl
  rw [bbAfterGov_accts, bbGov_accts]


/-! ### EndBlock -/

/-- `s'` keeps the account history, keeps records under their own keys and keeps every nonce -/
def AcctsKeep (s s' : St) : Prop :=
  s'.accts.hist = s.accts.hist ∧ s'.blk = s.blk ∧
  (AddrOK s.accts.fin → AddrOK s'.accts.fin ∧ ∀ k : String, nonceOpt s'.accts.fin[k]? = nonceOpt s.accts.fin[k]?)

theorem AcctsKeep.refl (s : St) : AcctsKeep s s := ⟨rfl, rfl, fun h => ⟨h, fun _ => rfl⟩⟩

theorem AcctsKeep.trans {a b c : St} (h1 : AcctsKeep a b) (h2 : AcctsKeep b c) : AcctsKeep a c :=
  ⟨h2.1.trans h1.1, h2.2.1.trans h1.2.1,
    fun h => ⟨(h2.2.2 (h1.2.2 h).1).1, fun k => ((h2.2.2 (h1.2.2 h).1).2 k).trans ((h1.2.2 h).2 k)⟩⟩

theorem AcctsKeep_of_eq {s s' : St} (h : s'.accts = s.accts ∧ s'.blk = s.blk) : AcctsKeep s s' := by
  unfold AcctsKeep; rw [h.1, h.2]; exact ⟨rfl, rfl, fun h => ⟨h, fun _ => rfl⟩⟩

theorem freezeProposals_accts (s : St) (ht : Int) :
    ∀ s1, freezeProposals s ht = .ok s1 → s1.accts = s.accts ∧ s1.blk = s.blk := by
  unfold freezeProposals
  apply foldl_inv (fun r : Res St => ∀ s1, r = .ok s1 → s1.accts = s.accts ∧ s1.blk = s.blk)
  · intro b kp hb s1 h1
    cases b with
    | panic e => simp at h1
    | ok q =>
      have h0 := hb _ rfl
      simp only at h1
      repeat' split at h1
      all_goals first | (simp at h1; done) | (simp at h1; rw [← h1]; exact h0)
  · intro s1 h1; simp at h1; rw [← h1]; exact ⟨rfl, rfl⟩

theorem applyProposals_accts (s : St) (ht : Int) :
    ∀ s1, applyProposals s ht = .ok s1 → s1.accts = s.accts ∧ s1.blk = s.blk := by
  unfold applyProposals
  apply foldl_inv (fun r : Res St => ∀ s1, r = .ok s1 → s1.accts = s.accts ∧ s1.blk = s.blk)
  · intro b kp hb s1 h1
    cases b with
    | panic e => simp at h1
    | ok q =>
      have h0 := hb _ rfl
      simp only at h1
      repeat' split at h1
      all_goals first | (simp at h1; done) | (simp at h1; rw [← h1]; exact h0)
  · intro s1 h1; simp at h1; rw [← h1]; exact ⟨rfl, rfl⟩

/-- crediting a balance (of an existing record, or of a fresh one) keeps nonces and keys -/
theorem AcctsKeep_credit (s : St) (x : Hex) (amt : Nat) :
    AcctsKeep s (s.setAcct true { (s.accts.fin[ledgerKey x]?).getD { addr := x } with
                    bal := wadd ((s.accts.fin[ledgerKey x]?).getD { addr := x }).bal amt }) := by
  refine ⟨by rw [setAcct_true], by rw [setAcct_true], fun hA => ⟨AddrOK_setAcct hA _, fun k => ?_⟩⟩
  cases hx : s.accts.fin[ledgerKey x]? with
  | some a =>
    simp only [Option.getD_some]
    exact nonceOpt_setAcct_same (a' := { a with bal := wadd a.bal amt }) hA hx rfl rfl k
  | none =>
    simp only [Option.getD_none]
    rw [setAcct_fin_get]
    split
    · next e => rw [← e, hx]; rfl
    · rfl

theorem feeHandover_keep (s : St) (b : BlockCtx) : ∀ s1, feeHandover s b = .ok s1 → AcctsKeep s s1 := by
  intro s1 h
  unfold feeHandover at h
  split at h
  · simp only [findAcct_true] at h
    split at h
    · simp at h
    · rename_i a' ha
      obtain ⟨_, rfl⟩ := addBalance_some ha
      simp at h; rw [← h]
      exact AcctsKeep_credit s b.proposer b.feeSum
  · simp at h; rw [← h]; exact AcctsKeep_of_eq ⟨rfl, rfl⟩

theorem unfreeze_keep (s : St) (ht : Int) : ∀ s1, unfreeze s ht = .ok s1 → AcctsKeep s s1 := by
  unfold unfreeze
  apply foldl_inv (fun r : Res St => ∀ s1, r = .ok s1 → AcctsKeep s s1)
  · intro b kp hb s1 h1
    cases b with
    | panic e => simp at h1
    | ok q =>
      have h0 := hb _ rfl
      simp only at h1
      split at h1
      · split at h1
        · simp at h1
        · rename_i s2 hr
          obtain ⟨_, a, ha, rfl⟩ := reward_some hr
          simp at h1; rw [← h1]
          refine h0.trans ?_
          have := AcctsKeep_credit q kp.2.owner (powerToAmount kp.2.power)
          rw [ha] at this
          simp only [Option.getD_some] at this
          exact ⟨this.1, this.2.1, this.2.2⟩
      · simp at h1; rw [← h1]; exact h0
  · intro s1 h1; simp at h1; rw [← h1]; exact AcctsKeep.refl s

theorem updateValidators_accts (s : St) :
    ∀ p, updateValidators s = .ok p → p.1.accts = s.accts ∧ p.1.blk = s.blk := by
  intro p h
  unfold updateValidators at h
  split at h
  · simp at h
  · simp at h; rw [← h]; exact ⟨rfl, rfl⟩

/-- EndBlock only credits balances: nonces, keys and the history stay -/
theorem endBlock_keep (s : St) : AcctsKeep s (endBlock s).1 := by
  unfold endBlock
  split
  · exact AcctsKeep.refl s
  split
  · exact AcctsKeep.refl s
  rename_i s1 h1
  have k1 := AcctsKeep_of_eq (freezeProposals_accts s _ s1 h1)
  split
  · exact k1
  rename_i s2 h2
  have k2 := k1.trans (AcctsKeep_of_eq (applyProposals_accts s1 _ s2 h2))
  split
  · exact k2
  rename_i s3 h3
  have k3 := k2.trans (feeHandover_keep s2 _ s3 h3)
  split
  · exact k3
  rename_i s4 h4
  have k4 := k3.trans (unfreeze_keep s3 _ s4 h4)
  split
  · exact k4
  rename_i s5 ups h5
  exact k4.trans (AcctsKeep_of_eq (updateValidators_accts s4 _ h5))


/-! ### CheckTx: only the mempool view of the account ledger can change -/

def FinHistSame (s s' : St) : Prop :=
  s'.accts.fin = s.accts.fin ∧ s'.accts.hist = s.accts.hist ∧ s'.blk = s.blk

theorem FinHistSame.refl (s : St) : FinHistSame s s := ⟨rfl, rfl, rfl⟩
theorem FinHistSame.trans {a b c : St} (h1 : FinHistSame a b) (h2 : FinHistSame b c) : FinHistSame a c :=
  ⟨h2.1.trans h1.1, h2.2.1.trans h1.2.1, h2.2.2.trans h1.2.2⟩

theorem FinHistSame_setAcct_false (s : St) (a : Account) : FinHistSame s (s.setAcct false a) := by
  rw [setAcct_false]; exact ⟨rfl, rfl, rfl⟩

theorem FinHistSame_findOrNew_false (s : St) (a : Hex) : FinHistSame s (s.findOrNewAcct false a).1 := by
  unfold St.findOrNewAcct
  split
  · exact FinHistSame.refl s
  · exact FinHistSame_setAcct_false s _

theorem reward_false {s s' : St} {to : Hex} {amt : Nat} (h : s.reward false to amt = some s') : FinHistSame s s' := by
  unfold St.reward at h
  split at h; · simp at h
  split at h; · simp at h
  simp at h; rw [← h]; exact FinHistSame_setAcct_false s _

theorem execNative_false {s : St} {ht : Int} {tx : TxIn} {r : RunOut} (h : execNative s false ht tx = .ok r) :
    FinHistSame s r.st ∧ r.fail = none := by
  unfold execNative at h
  split at h
  · unfold execProposal at h; step_cases h
    all_goals (simp at h; subst h; exact ⟨⟨rfl, rfl, rfl⟩, rfl⟩)
  split at h
  · unfold execVoting at h; step_cases h
    all_goals (simp at h; subst h; exact ⟨⟨rfl, rfl, rfl⟩, rfl⟩)
  split at h
  · unfold execTransfer at h; step_cases h
    all_goals (simp at h; subst h)
    · exact ⟨FinHistSame_setAcct_false s _, rfl⟩
    · exact ⟨(FinHistSame_setAcct_false s _).trans (FinHistSame_setAcct_false _ _), rfl⟩
  split at h
  · unfold execSetDoc at h; step_cases h
    all_goals (simp at h; subst h; exact ⟨FinHistSame_setAcct_false s _, rfl⟩)
  split at h
  · unfold execStaking at h; step_cases h
    all_goals (simp at h; subst h; exact ⟨FinHistSame_setAcct_false s _, rfl⟩)
  split at h
  · unfold execUnstaking at h; step_cases h
    all_goals (simp at h; subst h; exact ⟨⟨rfl, rfl, rfl⟩, rfl⟩)
  split at h
  · unfold execWithdraw at h; step_cases h
    all_goals
      have := reward_false ‹St.reward _ false tx.from_ _ = some _›
      simp at h
      first
        | (subst h; exact ⟨this, rfl⟩)
        | skip
  · simp [throw, throwThe, MonadExceptOf.throw] at h


theorem execEvm_false (s : St) (tx : TxIn) : execEvm s false tx = .ok { st := s } := by
  unfold execEvm; rfl

theorem runTrx_false {s : St} {ht : Int} {tx : TxIn} {recv : Account} {s2 : St} {g : Nat} {fk : Option String}
    (h : runTrx s false ht tx recv = .ok (s2, g, fk)) : FinHistSame s s2 := by
  by_cases hv : viaEvm tx recv
  · rw [runTrx_evm hv, execEvm_false] at h
    simp [Except.bind] at h
    rw [← h.1]; exact FinHistSame.refl s
  · rw [runTrx_native hv] at h
    cases hr : execNative s false ht tx with
    | error e => rw [hr] at h; simp [Except.bind] at h
    | ok r =>
      rw [hr] at h
      obtain ⟨f1, f2⟩ := execNative_false hr
      simp only [Except.bind, f2] at h
      simp only [Option.isSome_none, Bool.false_eq_true, if_false] at h
      unfold feeStep at h
      step_cases h
      simp at h
      rw [← h.1]
      exact f1.trans (FinHistSame_setAcct_false _ _)

/-- CheckTx leaves the consensus view and the history of the account ledger alone -/
theorem handleTx_check (s : St) (ht : Int) (tx : TxIn) : FinHistSame s (handleTx s false ht tx).1 := by
  have f0 := FinHistSame_findOrNew_false s tx.to
  have fv : ∀ {sender s1}, validateTrx (s.findOrNewAcct false tx.to).1 false ht tx sender (s.findOrNewAcct false tx.to).2 = .ok s1 →
      FinHistSame s s1 := by
    intro sender s1 hv
    obtain ⟨_, _, htv⟩ := validateTrx_ok hv
    obtain ⟨⟨l, hl⟩, _⟩ := typeValidate_state htv
    rw [hl]; exact f0
  by_cases hc : (handleTx s false ht tx).2.code = 0
  · obtain ⟨_, sender, s1, s2, g, _, hv, hr, e⟩ := handleTx_ok_inv hc
    rw [e]; exact (fv hv).trans (runTrx_false hr)
  · rcases handleTx_fail_inv hc with e | e | ⟨sender, s1, _, hv, hrun⟩
    · rw [e]; exact FinHistSame.refl s
    · rw [e]; exact f0
    · rcases hrun with ⟨_, _, es⟩ | ⟨s2, g, k, hr, es⟩
      · rw [es]; exact fv hv
      · rw [es]; exact (fv hv).trans (runTrx_false hr)

theorem checkTx_accts (s : St) (tx : TxIn) : FinHistSame s (checkTx s tx).1 := by
  unfold checkTx; exact handleTx_check s _ tx


/-! ### DeliverTx wrapper, Commit, restart, InitChain -/

theorem handleTx_ok_panic {s : St} {exec : Bool} {h : Int} {tx : TxIn} (hc : (handleTx s exec h tx).2.code = 0) :
    (handleTx s exec h tx).2.panic = "" := by
  obtain ⟨_, _, _, _, _, _, _, _, e⟩ := handleTx_ok_inv hc
  rw [e]

theorem deliverTx_noblk {s : St} (tx : TxIn) (hb : s.blk = none) : (deliverTx s tx).1 = s := by
  unfold deliverTx; rw [hb]

/-- the account ledger after `deliverTx` is the one after `handleTx` -/
theorem deliverTx_accts {s : St} {b : BlockCtx} (tx : TxIn) (hb : s.blk = some b) :
    (deliverTx s tx).1.accts = (handleTx s true b.height tx).1.accts := by
  unfold deliverTx; rw [hb]
  simp only
  split
  · rfl
  · split <;> rfl

/-- the invariant: in the consensus view and in the last committed version every account record
    sits under the ledger key of its own address -/
def AcctInv (s : St) : Prop := AddrOK s.accts.fin ∧ AddrOK s.accts.committed

theorem initChain_accts (g : Genesis) :
    AddrOK (initChain g).accts.fin ∧ (∀ k : String, nonceOpt (initChain g).accts.fin[k]? = 0) ∧
    (initChain g).accts.hist = [] := by
  unfold initChain
  simp only
  apply foldl_inv (fun acc : St => AddrOK acc.accts.fin ∧ (∀ k : String, nonceOpt acc.accts.fin[k]? = 0) ∧ acc.accts.hist = [])
  · intro b v hb
    obtain ⟨pub, addr, power⟩ := v
    simp only
    have f := FinFrame_findOrNew b addr
    have e := EmptyExt_findOrNew b addr
    refine ⟨EmptyExt_AddrOK e hb.1, fun k => (EmptyExt_nonce e k).trans (hb.2.1 k), ?_⟩
    unfold FinFrame at f; rw [f]; exact hb.2.2
  · apply foldl_inv (fun acc : St => AddrOK acc.accts.fin ∧ (∀ k : String, nonceOpt acc.accts.fin[k]? = 0) ∧ acc.accts.hist = [])
    · intro b v hb
      obtain ⟨a, bal⟩ := v
      simp only
      refine ⟨AddrOK_setAcct hb.1 _, fun k => ?_, by rw [setAcct_true]; exact hb.2.2⟩
      rw [setAcct_fin_get]
      split
      · rfl
      · exact hb.2.1 k
    · refine ⟨?_, ?_, rfl⟩
      · exact AddrOK_empty
      · intro k; simp [nonceOpt]

theorem Led.committed_commit {α : Type} (l : Led α) : l.commit.committed = l.fin := by
  simp [Led.commit, Led.committed]

theorem committed_of_hist {a b : Led Account} (h : a.hist = b.hist) : a.committed = b.committed := by
  unfold Led.committed; rw [h]

/-- every non-init operation preserves `AcctInv` -/
theorem AcctInv_step {s : St} (hI : AcctInv s) (op : Op) (hop : op.isInit = false) : AcctInv (step s op).1 := by
  cases op with
  | init g => simp [Op.isInit] at hop
  | begin_ h => unfold step AcctInv; simp only; rw [beginBlock_accts]; exact hI
  | deliver tx =>
    unfold step AcctInv; simp only
    cases hb : s.blk with
    | none => rw [deliverTx_noblk tx hb]; exact hI
    | some b =>
      rw [deliverTx_accts tx hb]
      obtain ⟨h1, h2⟩ := handleTx_deliver_inv (h := b.height) (tx := tx) hI.1
      exact ⟨h1, by rw [committed_of_hist h2]; exact hI.2⟩
  | check tx =>
    unfold step AcctInv; simp only
    obtain ⟨h1, h2, _⟩ := checkTx_accts s tx
    rw [h1, committed_of_hist h2]; exact hI
  | end_ =>
    unfold step AcctInv; simp only
    obtain ⟨h1, _, h2⟩ := endBlock_keep s
    exact ⟨(h2 hI.1).1, by rw [committed_of_hist h1]; exact hI.2⟩
  | commit =>
    unfold step commit AcctInv; simp only
    split
    · exact hI
    · simp only [Led.committed_commit]; exact ⟨hI.1, hI.1⟩
  | restart =>
    unfold step restart AcctInv; simp only
    exact ⟨hI.2, hI.2⟩

theorem AcctInv_init (g : Genesis) : AcctInv (initChain g) := by
  obtain ⟨h1, _, h3⟩ := initChain_accts g
  refine ⟨h1, ?_⟩
  unfold Led.committed; rw [h3]; exact AddrOK_empty

/-- `AcctInv` holds in every reachable state -/
theorem AcctInv_reachable {g : Genesis} {s : St} (h : Reachable g s) : AcctInv s :=
  Reachable.induction AcctInv (AcctInv_init g) (fun _ op _ hI hop => AcctInv_step hI op hop) h

end Rigo
