import RigoProps.C18
