import Rigo.Ledger.Step
import RigoDriver.Util
open Rigo.Ledger

namespace RigoDriver.Ledger

def parseOp : List String → Option Op
  | ["set", k, v] => do pure (.set (← k.toNat?) (← v.toNat?))
  | ["cancelSet", k] => do pure (.cancelSet (← k.toNat?))
  | ["get", k] => do pure (.get (← k.toNat?))
  | ["del", k] => do pure (.del (← k.toNat?))
  | ["cancelDel", k] => do pure (.cancelDel (← k.toNat?))
  | ["setF", k, v] => do pure (.setF (← k.toNat?) (← v.toNat?))
  | ["cancelSetF", k] => do pure (.cancelSetF (← k.toNat?))
  | ["getF", k] => do pure (.getF (← k.toNat?))
  | ["delF", k] => do pure (.delF (← k.toNat?))
  | ["cancelDelF", k] => do pure (.cancelDelF (← k.toNat?))
  | ["read", k] => do pure (.read (← k.toNat?))
  | ["iterAll"] => some .iterAll
  | ["commit"] => some .commit
  | ["readAt", n, k] => do pure (.readAt (← n.toInt?) (← k.toNat?))
  | ["reopen"] => some .reopen
  | ["version"] => some .version
  | _ => none

def showOut : Out → String
  | .unit => "unit"
  | .val none => "val none"
  | .val (some v) => s!"val {v}"
  | .ver n => s!"ver {n}"
  | .items l => "items " ++ ",".intercalate (l.map fun (k, v) => s!"{k}:{v}")
  | .err => "err"

def stepLine (st : Impl × Spec) (ws : List String) : (Impl × Spec) × Option String :=
  match ws with
  | ["reset"] => (({}, {}), some "reset")
  | _ =>
    match parseOp ws with
    | none => (st, some "bad-op")
    | some op =>
      let (l', o) := st.1.step op
      let (s', o') := st.2.step op
      ((l', s'), some (showOut o ++ (if o = o' then "" else " SPECDIFF " ++ showOut o')))

def run : IO Unit := do
  RigoDriver.loop (← IO.getStdin) (← IO.getStdout) (({}, {}) : Impl × Spec) stepLine

end RigoDriver.Ledger
