import RigoDriver.Util
namespace RigoDriver.Rlp
/-- stub: replaced by the component's line-protocol driver -/
def run : IO Unit := pure ()
end RigoDriver.Rlp
