/-
  Line-protocol driver of the C03 model (`rigodriver rlp`).

    pre <chainHex> <tx>             -> hex of `preimage chainId tx`       (PreImageToSignTrxRLP)
    enc <chainHex> <tx>             -> hex of `rlpTrx tx`                 (rlp.EncodeToBytes(tx), Sig included)
    mon <label..> / <chainHex> <tx> / <chainHex> <tx>
                                    -> `pre=<same|diff> fields=<same|diff> chain=<same|diff>`
    reset                           -> `reset`

    <tx> = <version> <time> <nonce> <fromHex> <toHex> <amount> <gas> <gasPrice> <type> <sigHex> <payload>
    <payload> = none | unstaking <hex> | voting <hex> <choice> | contract <hex> | setdoc <hex> <hex>
              | withdraw <dec> | proposal <msgHex> <start> <period> <applying> <optType> <k> <hex>*k
  Byte strings are lower-case hex, the empty string is `-`; numbers are decimal.  A value outside the
  range of its Go type, or a malformed line, gives `bad-op`.
-/
import Rigo.Preimage
import RigoDriver.Util
open Rigo.RLP Rigo.Preimage

namespace RigoDriver.Rlp

def hexVal (c : Char) : Option Nat :=
  if '0' ≤ c ∧ c ≤ '9' then some (c.toNat - 48)
  else if 'a' ≤ c ∧ c ≤ 'f' then some (c.toNat - 87)
  else if 'A' ≤ c ∧ c ≤ 'F' then some (c.toNat - 55)
  else none

def parseHexChars : List Char → Option Bytes
  | [] => some []
  | [_] => none
  | a :: b :: rest => do
    let x ← hexVal a
    let y ← hexVal b
    let r ← parseHexChars rest
    pure ((x * 16 + y) :: r)

def parseHex (s : String) : Option Bytes :=
  if s = "-" then some [] else parseHexChars s.toList

def hexDigit (n : Nat) : Char := if n < 10 then Char.ofNat (48 + n) else Char.ofNat (87 + n)

def toHex (b : Bytes) : String :=
  if b.isEmpty then "-" else
  String.ofList (b.foldr (fun x acc => hexDigit (x / 16) :: hexDigit (x % 16) :: acc) [])

def natIn (s : String) (bound : Nat) : Option Nat := do
  let n ← s.toNat?
  if n < bound then pure n else none

def intIn (s : String) (lo hi : Int) : Option Int := do
  let n ← s.toInt?
  if lo ≤ n ∧ n < hi then pure n else none

def i64? (s : String) : Option Int := intIn s (-9223372036854775808) 9223372036854775808
def i32? (s : String) : Option Int := intIn s (-2147483648) 2147483648
def u64? (s : String) : Option Nat := natIn s 18446744073709551616
def u32? (s : String) : Option Nat := natIn s 4294967296
def u256? (s : String) : Option Nat :=
  natIn s 115792089237316195423570985008687907853269984665640564039457584007913129639936

def parsePayload : List String → Option Payload
  | ["none"] => some .none
  | ["unstaking", h] => do pure (.unstaking (← parseHex h))
  | ["voting", h, c] => do pure (.voting (← parseHex h) (← i32? c))
  | ["contract", d] => do pure (.contract (← parseHex d))
  | ["setdoc", n, u] => do pure (.setdoc (← parseHex n) (← parseHex u))
  | ["withdraw", r] => do pure (.withdraw (← u256? r))
  | "proposal" :: m :: s :: p :: a :: o :: k :: opts => do
    let k ← k.toNat?
    if opts.length ≠ k then none else
    let os ← opts.mapM parseHex
    pure (.proposal (← parseHex m) (← i64? s) (← i64? p) (← i64? a) (← i32? o) os)
  | _ => none

/-- `<chainHex> <tx>` -/
def parseChainTx : List String → Option (Bytes × Trx)
  | c :: v :: t :: n :: f :: to :: amt :: g :: gp :: ty :: sg :: pl => do
    let payload ← parsePayload pl
    pure (← parseHex c,
      { version := ← u32? v, time := ← i64? t, nonce := ← u64? n, sender := ← parseHex f,
        receiver := ← parseHex to, amount := ← u256? amt, gas := ← u64? g, gasPrice := ← u256? gp,
        type := ← i32? ty, payload := payload, sig := ← parseHex sg })
  | _ => none

def splitSlash (ws : List String) : List (List String) :=
  ws.foldr (fun w acc =>
    if w = "/" then [] :: acc else
    match acc with
    | [] => [[w]]
    | x :: xs => (w :: x) :: xs) [[]]

def sd (b : Bool) : String := if b then "same" else "diff"

def stepLine (_ : Unit) (ws : List String) : Unit × Option String :=
  match ws with
  | ["reset"] => ((), some "reset")
  | "pre" :: rest =>
    match parseChainTx rest with
    | some (c, t) => ((), some (toHex (preimage c t)))
    | none => ((), some "bad-op")
  | "enc" :: rest =>
    match parseChainTx rest with
    | some (_, t) => ((), some (toHex (rlpTrx t)))
    | none => ((), some "bad-op")
  | "mon" :: rest =>
    match splitSlash rest with
    | [_, a, b] =>
      match parseChainTx a, parseChainTx b with
      | some (c₁, t₁), some (c₂, t₂) =>
        ((), some s!"pre={sd (preimage c₁ t₁ == preimage c₂ t₂)} fields={sd (decide (signedFields t₁ = signedFields t₂))} chain={sd (c₁ == c₂)}")
      | _, _ => ((), some "bad-op")
    | _ => ((), some "bad-op")
  | _ => ((), some "bad-op")

def run : IO Unit := do
  RigoDriver.loop (← IO.getStdin) (← IO.getStdout) () stepLine

end RigoDriver.Rlp
