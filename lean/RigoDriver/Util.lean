namespace RigoDriver

def words (line : String) : List String :=
  (line.splitOn " ").filter (· ≠ "") |>.map (fun s => (s.replace "\n" "").replace "\r" "")
  |>.filter (· ≠ "")

/-- read stdin line by line, threading a state; `f` returns the new state and an optional output line -/
partial def loop {σ : Type} (h : IO.FS.Stream) (out : IO.FS.Stream) (s : σ)
    (f : σ → List String → σ × Option String) : IO Unit := do
  let line ← h.getLine
  if line.isEmpty then
    out.flush
    return ()
  let ws := words line
  if ws.isEmpty then loop h out s f else
  let (s', o) := f s ws
  match o with
  | some l => out.putStrLn l
  | none => pure ()
  loop h out s' f

end RigoDriver
