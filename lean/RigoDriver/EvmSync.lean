import Rigo.EvmSync
import RigoDriver.Util
open Rigo.EvmSync

/-
  Line protocol of the C17 sync-protocol model (one output line per input line).  The input is the
  event sequence of the real `StateDBWrapper` (verifhook.Trace), one wrapper lifetime per `reset`:

    reset                      new wrapper (BeginBlock / after Commit)
    snapshot <n>               `Snapshot()` (n = the id the real code got; informational)
    access <addr>              `addAccessedObjAddr` on an address that the real code synced in
    revert <id>                `RevertToSnapshot(id)`
    finish                     `Finish()`
    finalise                   go-ethereum `Finalise(true)` (success path of ExecuteTrx)
    write <addr> <bal> <nonce> an EVM balance / nonce change (not produced by the stream: the
                               interpreter's writes are not traced)
    native <addr> <bal> <nonce> a native-ledger change between transactions (likewise)

  Output: the model's reaction followed by the discipline phase reached:
    `snap <id>` | `tag <n>` | `noop` | `unsync <a,b,c|->` | `panic <a,b,c|->` | `syncout <a,b,c|->` | `ok`
    then ` idle` | ` tx:<snap>` | ` failed` | ` done` | ` undisciplined` (sticky until `reset`).
-/
namespace RigoDriver.EvmSync

structure DSt where
  st : St := {}
  phase : Option Phase := some .idle

def showList (l : List String) : String := if l.isEmpty then "-" else ",".intercalate l

def showOut : Out → String
  | .snap id => s!"snap {id}"
  | .tag n => s!"tag {n}"
  | .noop => "noop"
  | .unsync l => "unsync " ++ showList l
  | .panic l => "panic " ++ showList l
  | .syncout l => "syncout " ++ showList l
  | .ok => "ok"

def showPhase : Option Phase → String
  | some .idle => "idle"
  | some (.tx n) => s!"tx:{n}"
  | some .failed => "failed"
  | some .done => "done"
  | none => "undisciplined"

def parseOp : List String → Option Op
  | ["snapshot", n] => n.toNat?.map (fun _ => .snapshot)
  | ["snapshot"] => some .snapshot
  | ["access", a] => some (.access a)
  | ["revert", id] => id.toNat?.map .revert
  | ["finish"] => some .finish
  | ["finalise"] => some .finalise
  | ["write", a, b, n] => do pure (.write a (← b.toNat?, ← n.toNat?))
  | ["native", a, b, n] => do pure (.native a (← b.toNat?, ← n.toNat?))
  | _ => none

def stepLine (d : DSt) (ws : List String) : DSt × Option String :=
  match ws with
  | ["reset"] => ({}, some "reset")
  | _ =>
    match parseOp ws with
    | none => (d, some "bad-op")
    | some op =>
      let ph := d.phase.bind (fun p => discStep p d.st op)
      let (st', o) := step d.st op
      ({ st := st', phase := ph }, some (showOut o ++ " " ++ showPhase ph))

def run : IO Unit := do
  RigoDriver.loop (← IO.getStdin) (← IO.getStdout) ({} : DSt) stepLine

end RigoDriver.EvmSync
