import RigoDriver.Util
namespace RigoDriver.EvmSync
/-- stub: replaced by the component's line-protocol driver -/
def run : IO Unit := pure ()
end RigoDriver.EvmSync
