/-
  Line-protocol driver of the application model (`rigodriver app`). See DESIGN.md §2.1 and
  harness/internal/appdrv for the format. One operation per line, one output line per operation.
-/
import Rigo.Query
import RigoDriver.Util
open Rigo Rigo.Render

namespace RigoDriver.App

def unhx (s : String) : String := if s == "-" then "" else s

def kv (ws : List String) (key : String) : Option String :=
  let pre := key ++ "="
  match ws.find? (fun w => w.startsWith pre) with
  | some w => some (String.ofList (w.toList.drop pre.length))
  | none => none

def listOf (s : String) (sep : String) : List String := if s == "-" ∨ s == "" then [] else s.splitOn sep

def parseParams (s : String) (sep : String) : Option Params := do
  match s.splitOn sep with
  | [a, b, c, d, e, f, g, h, i, j, k, l, m, n, o, p, q, r, v] =>
    pure { maxValidatorCnt := ← a.toInt?, minValidatorStake := ← b.toNat?, minDelegatorStake := ← c.toNat?,
           rewardPerPower := ← d.toNat?, lazyRewardBlocks := ← e.toInt?, lazyApplyingBlocks := ← f.toInt?,
           gasPrice := ← g.toNat?, minTrxGas := ← h.toNat?, maxTrxGas := ← i.toNat?, maxBlockGas := ← j.toNat?,
           minVotingPeriodBlocks := ← k.toInt?, maxVotingPeriodBlocks := ← l.toInt?, minSelfStakeRatio := ← m.toInt?,
           maxUpdatableStakeRatio := ← n.toInt?, maxIndividualStakeRatio := ← o.toInt?, slashRatio := ← p.toInt?,
           signedBlocksWindow := ← q.toInt?, minSignedBlocks := ← r.toInt?, version := ← v.toInt? }
  | _ => none

def optNat (s : String) : Option (Option Nat) := if s == "nil" then some none else s.toNat?.map some

def parsePOpt (s : String) : Option POpt := do
  match s.splitOn "_" with
  | [a, b, c, d, e, f, g, h, i, j, k, l, m, n, o, p, q, r, v] =>
    pure { maxValidatorCnt := ← a.toInt?, minValidatorStake := ← optNat b, minDelegatorStake := ← optNat c,
           rewardPerPower := ← optNat d, lazyRewardBlocks := ← e.toInt?, lazyApplyingBlocks := ← f.toInt?,
           gasPrice := ← optNat g, minTrxGas := ← h.toNat?, maxTrxGas := ← i.toNat?, maxBlockGas := ← j.toNat?,
           minVotingPeriodBlocks := ← k.toInt?, maxVotingPeriodBlocks := ← l.toInt?, minSelfStakeRatio := ← m.toInt?,
           maxUpdatableStakeRatio := ← n.toInt?, maxIndividualStakeRatio := ← o.toInt?, slashRatio := ← p.toInt?,
           signedBlocksWindow := ← q.toInt?, minSignedBlocks := ← r.toInt?, version := ← v.toInt? }
  | _ => none

def parseVoteOpt (s : String) : Option VoteOpt :=
  match s.splitOn "~" with
  | [raw, pv, pa] => some { raw := unhx raw, parsedV := if pv == "bad" then none else parsePOpt pv,
                            parsedA := if pa == "bad" then none else parsePOpt pa }
  | _ => none

def parsePayload (s : String) : Option Payload :=
  match s.splitOn ":" with
  | ["none"] => some .none
  | ["unstk", h] => some (.unstaking (unhx h))
  | ["wd", a] => a.toNat?.map .withdraw
  | ["prop", msg, st, pe, ap, ot, opts] => do
    let os ← (listOf opts ";").mapM parseVoteOpt
    pure (.proposal (unhx msg) (← st.toInt?) (← pe.toInt?) (← ap.toInt?) (← ot.toInt?) os)
  | ["vote", h, c] => c.toInt?.map (.voting (unhx h))
  | ["contract", d] => some (.contract (unhx d))
  | ["setdoc", n, u, nl, ul] => do pure (.setdoc (unhx n) (unhx u) (← nl.toNat?) (← ul.toNat?))
  | _ => none

def parseEvm (s : String) : Option (Option EvmOracle) :=
  if s == "-" then some none else
  match s.splitOn ":" with
  | [st, fk, gu, acc, syn, cr] => do
    let synced ← (listOf syn ";").mapM fun e =>
      match e.splitOn "/" with
      | [a, b, n] => do pure (a, ← b.toNat?, ← n.toNat?)
      | _ => none
    pure (some { ok := st == "ok", failKind := unhx fk, gasUsed := ← gu.toNat?, accessed := listOf acc ";",
                 synced := synced, created := unhx cr })
  | _ => none

def parseTx (ws : List String) : Option TxIn := do
  if (← kv ws "dec") == "0" then return { decodable := false }
  pure { decodable := true, hash := unhx (← kv ws "hash"), sigOk := (← kv ws "sig") == "ok", pub := unhx (← kv ws "pub"),
         version := ← (← kv ws "ver").toNat?, time := ← (← kv ws "time").toInt?, nonce := ← (← kv ws "nonce").toNat?,
         from_ := unhx (← kv ws "from"), to := unhx (← kv ws "to"), amount := ← (← kv ws "amt").toNat?,
         gas := ← (← kv ws "gas").toNat?, price := ← (← kv ws "price").toNat?, type := ← (← kv ws "type").toInt?,
         payload := ← parsePayload (← kv ws "pl"), evm := ← parseEvm ((kv ws "evm").getD "-") }

def parseGenesis (ws : List String) : Option Genesis := do
  let holders ← (listOf (← kv ws "holders") ",").mapM fun e =>
    match e.splitOn ":" with
    | [a, b] => do pure (a, ← b.toNat?)
    | _ => none
  let vals ← (listOf (← kv ws "vals") ",").mapM fun e =>
    match e.splitOn ":" with
    | [p, a, w] => do pure (p, a, ← w.toInt?)
    | _ => none
  pure { chainId := unhx (← kv ws "chain"), params := ← parseParams (← kv ws "params") ",", holders := holders, vals := vals }

def parseHeader (ws : List String) : Option Header := do
  let votes ← (listOf (← kv ws "votes") ",").mapM fun e =>
    match e.splitOn ":" with
    | [a, p, sg] => do pure ({ addr := a, power := ← p.toInt?, signed := sg == "1" } : VoteIn)
    | _ => none
  pure { height := ← (← kv ws "h").toInt?, time := ← (← kv ws "t").toInt?, proposer := unhx (← kv ws "prop"),
         votes := votes, evidence := listOf (← kv ws "evid") "," }

def showLimiter (l : Limiter) : String :=
  s!"base={l.base} updated={l.updated} max={l.maxCnt} indi={l.indi} upd={l.upd} objs={",".intercalate (l.objs.map fun o => s!"{o.1}:{o.2}")}"

def showOut (kind : String) (o : Out) : String :=
  if o.panic ≠ "" then "panic" else
  match kind with
  | "begin" =>
    let rwd := match o.issued with | some n => toString n | none => "-"
    s!"rwd={rwd} ps={joinOr (o.punishS.map toString) ","} pg={joinOr (o.punishG.map toString) ","}"
  | "tx" =>
    match o.tx with
    | some t => s!"code={t.code} kind={t.kind} gu={t.gasUsed} gw={t.gasWanted}"
    | none => "bad"
  | "end" =>
    let l := (o.valUpdates.map fun (p, w) => s!"{hx p}:{w}").mergeSort (fun a b => a ≤ b)
    "vu=" ++ joinOr l ","
  | _ => "ok"

def stepLine (s : St) (ws : List String) : St × Option String :=
  match ws with
  | "reset" :: _ => ({}, some "reset")
  | "init" :: rest =>
    match parseGenesis rest with
    | some g => let (s', o) := step s (.init g); (s', some (showOut "init" o))
    | none => (s, some "bad-op")
  | "begin" :: rest =>
    match parseHeader rest with
    | some h => let (s', o) := step s (.begin_ h); (s', some (showOut "begin" o))
    | none => (s, some "bad-op")
  | "tx" :: rest =>
    match parseTx rest, kv rest "mode" with
    | some tx, some "d" => let (s', o) := step s (.deliver tx); (s', some (showOut "tx" o))
    | some tx, some "c" => let (s', o) := step s (.check tx); (s', some (showOut "tx" o))
    | _, _ => (s, some "bad-op")
  | ["end"] => let (s', o) := step s .end_; (s', some (showOut "end" o))
  | ["commit"] => let (s', o) := step s .commit; (s', some (showOut "commit" o))
  | ["restart"] => let (s', o) := step s .restart; (s', some (showOut "restart" o))
  | "query" :: rest =>
    match kv rest "path", kv rest "data", (kv rest "h").bind String.toInt? with
    | some path, some data, some h =>
      let q := query s path (unhx data) h
      (s, some s!"code={q.code} val={hx q.value}")
    | _, _, _ => (s, some "bad-op")
  | ["dump"] => (s, some (dump s))
  | ["limiter"] => (s, some (showLimiter s.limiter))
  | _ => (s, some "bad-op")

def run : IO Unit := do
  RigoDriver.loop (← IO.getStdin) (← IO.getStdout) ({} : St) stepLine

end RigoDriver.App
