import RigoDriver.Util
namespace RigoDriver.App
/-- stub: replaced by the component's line-protocol driver -/
def run : IO Unit := pure ()
end RigoDriver.App
