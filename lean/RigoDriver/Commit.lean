import RigoDriver.Util
namespace RigoDriver.Commit
/-- stub: replaced by the component's line-protocol driver -/
def run : IO Unit := pure ()
end RigoDriver.Commit
