import Rigo.CommitLog
import RigoDriver.Util
open Rigo.CommitLog

namespace RigoDriver.Commit

def kvOf (ws : List String) (key : String) : Option String :=
  let pre := key ++ "="
  (ws.find? (·.startsWith pre)).map fun w => String.ofList (w.toList.drop pre.length)

/-- `crash labels=<l1,l2,...> k=<n>` -> predicted recovery outcome -/
def stepLine (_ : Unit) (ws : List String) : Unit × Option String :=
  match ws with
  | ["reset"] => ((), some "reset")
  | "crash" :: rest =>
    match kvOf rest "labels", (kvOf rest "k").bind String.toNat? with
    | some ls, some k => ((), some (outcomeOfLabels (ls.splitOn ",") k))
    | _, _ => ((), some "bad-op")
  | _ => ((), some "bad-op")

def run : IO Unit := do
  RigoDriver.loop (← IO.getStdin) (← IO.getStdout) () stepLine

end RigoDriver.Commit
