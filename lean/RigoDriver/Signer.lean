import Rigo.Signer
import RigoDriver.Util
open Rigo.Signer

/-
  Line protocol of the C20 signer model (one output line per input line):

    reset
    vote <h> <r> <prevote|precommit|unknown> <content> <ts>
    proposal <h> <r> <content> <ts>
    crashBeforeSave <vote …|proposal …>      process dies before the atomic state-file write
    crashAfterSave  <vote …|proposal …>      process dies after it, before the reply is released
    reload                                    LoadSFilePV (memory := disk)
    inject <h> <r> <s> <none|content:ts> <sig|nosig>
        hand-made state file + reload (NOT an operation of the property's quantifier; used only to
        compare the defensive CheckHRS branches with the real code)

  Output: `ok fresh|same sig=<i>` / `ok ts-same ts=<t> sig=<i>` / `err <kind>` / `panic <kind>` /
  `crashed <before|after> <what had been computed>` / `reloaded` / `injected`, each followed by
  ` mem=<h>/<r>/<s>:<bs> disk=<h>/<r>/<s>:<bs>` (b = sign bytes present, s = signature present).
  `sig=<i>` is the 0-based line index (since `reset`) of the first request whose sign bytes the
  returned signature verifies against.
-/
namespace RigoDriver.Signer

structure DSt where
  st : St := {}
  n : Nat := 0                            -- lines since reset
  reqs : List (Nat × SignBytes) := []     -- (line index, sign bytes) of every request so far

def parseVT : String → Option VoteType
  | "prevote" => some .prevote
  | "precommit" => some .precommit
  | "unknown" => some .unknown
  | _ => none

def parseReq : List String → Option Req
  | ["vote", h, r, t, c, ts] => do
    pure (.vote (← h.toInt?) (← r.toInt?) (← parseVT t) (← c.toNat?) (← ts.toNat?))
  | ["proposal", h, r, c, ts] => do
    pure (.proposal (← h.toInt?) (← r.toInt?) (← c.toNat?) (← ts.toNat?))
  | _ => none

def parseOp : List String → Option Op
  | ["reload"] => some .reload
  | "crashBeforeSave" :: rest => (parseReq rest).map .crashBeforeSave
  | "crashAfterSave" :: rest => (parseReq rest).map .crashAfterSave
  | ws => (parseReq ws).map .sign

def showLSS (l : LSS) : String :=
  s!"{l.height}/{l.round}/{l.step}:" ++ (if l.signBytes.isSome then "b" else "-") ++
    (if l.signature.isSome then "s" else "-")

def showSt (s : St) : String := s!" mem={showLSS s.mem} disk={showLSS s.disk}"

def showErr : Err → String
  | .heightRegression => "height-regression"
  | .roundRegression => "round-regression"
  | .stepRegression => "step-regression"
  | .noSignBytes => "no-signbytes"
  | .conflict => "conflict"

def showPanic : PanicKind → String
  | .unknownVoteType => "unknown-vote-type"
  | .signatureNil => "signature-nil"

/-- first request whose sign bytes the signature verifies against -/
def sigIndex (reqs : List (Nat × SignBytes)) (sig : Sig) : String :=
  match reqs.find? (fun p => verify sig p.2) with
  | some p => s!"{p.1}"
  | none => "none"

def showRes (reqs : List (Nat × SignBytes)) (withSig : Bool) : Res → String
  | .fresh sig => "fresh" ++ (if withSig then s!" sig={sigIndex reqs sig}" else "")
  | .same sig => "same" ++ (if withSig then s!" sig={sigIndex reqs sig}" else "")
  | .tsSame sig ts => s!"ts-same ts={ts}" ++ (if withSig then s!" sig={sigIndex reqs sig}" else "")
  | .err e => "err " ++ showErr e
  | .panic p => "panic " ++ showPanic p

def showOut (reqs : List (Nat × SignBytes)) : Out → String
  | .reply (.err e) => "err " ++ showErr e
  | .reply (.panic p) => "panic " ++ showPanic p
  | .reply r => "ok " ++ showRes reqs true r
  | .crashed .beforeSave r => "crashed before " ++ showRes reqs false r
  | .crashed .afterSave r => "crashed after " ++ showRes reqs false r
  | .reloaded => "reloaded"

def parseInject : List String → Option LSS
  | [h, r, s, sb, sg] => do
    let h ← h.toInt?
    let r ← r.toInt?
    let s ← s.toInt?
    let sb? : Option SignBytes ←
      if sb = "none" then pure none else
        match sb.splitOn ":" with
        | [c, ts] => do
          -- sign bytes exist only for steps 1..3
          if s < 1 ∨ s > 3 then none else
          pure (some ⟨h, r, s, ← c.toNat?, ← ts.toNat?⟩)
        | _ => none
    let sig? : Option Sig ←
      match sg, sb? with
      | "nosig", _ => pure none
      | "sig", some b => pure (some (sign b))
      | _, _ => none
    pure ⟨h, r, s, sb?, sig?⟩
  | _ => none

def stepLine (d : DSt) (ws : List String) : DSt × Option String :=
  match ws with
  | ["reset"] => ({}, some "reset")
  | "inject" :: rest =>
    match parseInject rest with
    | none => ({ d with n := d.n + 1 }, some "bad-op")
    | some l =>
      let st : St := ⟨l, l⟩
      let reqs := match l.signBytes with
        | some sb => d.reqs ++ [(d.n, sb)]
        | none => d.reqs
      ({ st := st, n := d.n + 1, reqs := reqs }, some ("injected" ++ showSt st))
  | _ =>
    match parseOp ws with
    | none => ({ d with n := d.n + 1 }, some "bad-op")
    | some op =>
      let reqs := match op.req?.bind Req.signBytes? with
        | some sb => d.reqs ++ [(d.n, sb)]
        | none => d.reqs
      let (st', o) := step d.st op
      ({ st := st', n := d.n + 1, reqs := reqs }, some (showOut reqs o ++ showSt st'))

def run : IO Unit := do
  RigoDriver.loop (← IO.getStdin) (← IO.getStdout) ({} : DSt) stepLine

end RigoDriver.Signer
