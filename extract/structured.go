package main

// Structured fact groups: rlp_fields (C03), tx_dispatch (C03/C05), merge_fields (C15),
// commit_order (C08), constants.

import (
	"fmt"
	"go/ast"
	"go/constant"
	"go/token"
	"go/types"
	"sort"
	"strconv"
	"strings"
)

type M = map[string]interface{}

const (
	relCtypes = "ctrlers/types"
	relNode   = "node"
)

func (pr *Prog) structFields(st *types.Struct, skip func(*types.Var) bool) []interface{} {
	out := []interface{}{}
	for i := 0; i < st.NumFields(); i++ {
		f := st.Field(i)
		if skip != nil && skip(f) {
			continue
		}
		e := M{"name": f.Name(), "type": pr.typeStr(f.Type())}
		if tag := st.Tag(i); tag != "" && strings.Contains(tag, "rlp:") {
			e["rlp_tag"] = tag
		}
		out = append(out, e)
	}
	return out
}

func (pr *Prog) lookupStruct(rel, name string) (*types.Struct, *types.TypeName) {
	p := pr.ByRel[rel]
	if p == nil {
		return nil, nil
	}
	tn, _ := p.Types.Scope().Lookup(name).(*types.TypeName)
	if tn == nil {
		return nil, nil
	}
	st, _ := tn.Type().Underlying().(*types.Struct)
	return st, tn
}

func basicBits(t types.Type) (bits int, signed bool, ok bool) {
	b, isB := t.Underlying().(*types.Basic)
	if !isB || b.Info()&types.IsInteger == 0 {
		return 0, false, false
	}
	switch b.Kind() {
	case types.Int8, types.Uint8:
		bits = 8
	case types.Int16, types.Uint16:
		bits = 16
	case types.Int32, types.Uint32:
		bits = 32
	case types.Int64, types.Uint64, types.Int, types.Uint, types.Uintptr:
		bits = 64
	default:
		return 0, false, false
	}
	return bits, b.Info()&types.IsUnsigned == 0, true
}

// conversion describes how a source expression is turned into the encoded value.
func (pr *Prog) conversion(fn *FuncNode, e ast.Expr, problems *[]string, where string) M {
	info := fn.Pkg.TypesInfo
	r := pr.renderer(fn)
	out := M{"expr": r.expr(e), "type": pr.typeStr(info.TypeOf(e))}
	e = unparen(e)
	if call, ok := e.(*ast.CallExpr); ok {
		if tv, ok := info.Types[call.Fun]; ok && tv.IsType() && len(call.Args) == 1 {
			from := info.TypeOf(call.Args[0])
			out["conv"] = "convert:" + pr.typeStr(from) + "->" + pr.typeStr(tv.Type)
			out["source"] = r.expr(call.Args[0])
			fb, _, ok1 := basicBits(from)
			tb, _, ok2 := basicBits(tv.Type)
			if ok1 && ok2 && tb < fb {
				*problems = append(*problems, fmt.Sprintf("%s: narrowing conversion %s (%d -> %d bits): not injective", where, out["expr"], fb, tb))
			}
			return out
		}
		if callee := calleeOf(info, call); callee != nil {
			out["conv"] = "call:" + pr.calleeLabel(callee)
			if sel, ok := unparen(call.Fun).(*ast.SelectorExpr); ok {
				out["source"] = r.expr(sel.X)
			}
			return out
		}
		out["conv"] = "call:?"
		return out
	}
	switch x := e.(type) {
	case *ast.SelectorExpr:
		out["conv"] = "identity"
		out["source"] = r.expr(x)
	case *ast.Ident:
		out["conv"] = "local"
		out["source"] = x.Name
	default:
		out["conv"] = "expr"
	}
	return out
}

// compositeFields lists (field name, value expr) of a struct composite literal in field order
// of the literal (keyed or positional).
func compositeFields(st *types.Struct, lit *ast.CompositeLit) [][2]interface{} {
	var out [][2]interface{}
	for i, el := range lit.Elts {
		if kv, ok := el.(*ast.KeyValueExpr); ok {
			if id, ok := kv.Key.(*ast.Ident); ok {
				out = append(out, [2]interface{}{id.Name, kv.Value})
			}
		} else if i < st.NumFields() {
			out = append(out, [2]interface{}{st.Field(i).Name(), el})
		}
	}
	return out
}

func findCompositeOf(info *types.Info, root ast.Node, match func(types.Type) bool) *ast.CompositeLit {
	var found *ast.CompositeLit
	ast.Inspect(root, func(n ast.Node) bool {
		if found != nil {
			return false
		}
		if cl, ok := n.(*ast.CompositeLit); ok {
			if t := info.TypeOf(cl); t != nil && match(t) {
				found = cl
				return false
			}
		}
		return true
	})
	return found
}

func isPkgFunc(callee *types.Func, pkgSuffix, name string) bool {
	return callee != nil && callee.Name() == name && strings.HasSuffix(pkgPathOf(callee), pkgSuffix)
}

// ---------------------------------------------------------------------------------------------
// rlp_fields

func (pr *Prog) factsRLP() (M, []string) {
	var problems []string
	facts := M{}
	p := pr.ByRel[relCtypes]
	if p == nil {
		return facts, []string{"package ctrlers/types not loaded"}
	}
	info := p.TypesInfo

	rplSt, rplTN := pr.lookupStruct(relCtypes, "trxRPL")
	if rplSt == nil {
		problems = append(problems, "struct ctrlers/types.trxRPL not found")
	} else {
		facts["trxRPL"] = pr.structFields(rplSt, nil)
	}
	if st, _ := pr.lookupStruct(relCtypes, "Trx"); st != nil {
		facts["Trx"] = pr.structFields(st, nil)
	} else {
		problems = append(problems, "struct ctrlers/types.Trx not found")
	}

	// (*Trx).EncodeRLP
	if fn := pr.Func(relCtypes, "(*Trx).EncodeRLP"); fn == nil {
		problems = append(problems, "(*Trx).EncodeRLP not found")
	} else if rplSt != nil {
		r := pr.renderer(fn)
		enc := M{}
		lit := findCompositeOf(info, fn.Decl.Body, func(t types.Type) bool {
			n, ok := t.(*types.Named)
			return ok && n.Obj() == rplTN
		})
		if lit == nil {
			problems = append(problems, "(*Trx).EncodeRLP: no trxRPL composite literal")
		} else {
			var fields []interface{}
			seen := map[string]bool{}
			for _, kv := range compositeFields(rplSt, lit) {
				name := kv[0].(string)
				c := pr.conversion(fn, kv[1].(ast.Expr), &problems, "(*Trx).EncodeRLP field "+name)
				c["field"] = name
				fields = append(fields, c)
				seen[name] = true
			}
			enc["fields"] = fields
			for i := 0; i < rplSt.NumFields(); i++ {
				if !seen[rplSt.Field(i).Name()] {
					problems = append(problems, "(*Trx).EncodeRLP does not set trxRPL."+rplSt.Field(i).Name())
				}
			}
		}
		var encodeCalls, payloadCalls []interface{}
		ast.Inspect(fn.Decl.Body, func(n ast.Node) bool {
			if c, ok := n.(*ast.CallExpr); ok {
				callee := calleeOf(info, c)
				if isPkgFunc(callee, "go-ethereum/rlp", "Encode") {
					encodeCalls = append(encodeCalls, r.expr(c))
				}
				if isPkgFunc(callee, "go-ethereum/rlp", "EncodeToBytes") {
					payloadCalls = append(payloadCalls, r.expr(c))
				}
			}
			return true
		})
		enc["encode_calls"] = encodeCalls
		enc["payload_encoding"] = payloadCalls
		facts["Trx.EncodeRLP"] = enc
	}

	// PreImageToSignTrxRLP
	if fn := pr.Func(relCtypes, "PreImageToSignTrxRLP"); fn == nil {
		problems = append(problems, "PreImageToSignTrxRLP not found")
	} else {
		r := pr.renderer(fn)
		pre := M{"params": paramNames(fn)}
		var sigNilPos, encPos token.Pos
		var encCall, format string
		var fmtArgs []interface{}
		restored := false
		for _, st := range fn.Decl.Body.List {
			switch s := st.(type) {
			case *ast.AssignStmt:
				if len(s.Lhs) == 1 && len(s.Rhs) == 1 && strings.HasSuffix(r.expr(s.Lhs[0]), ".Sig") {
					if id, ok := unparen(s.Rhs[0]).(*ast.Ident); ok && id.Name == "nil" && sigNilPos == token.NoPos {
						sigNilPos = s.Pos()
						pre["sig_cleared"] = r.expr(s.Lhs[0]) + " = nil"
					}
				}
			case *ast.DeferStmt:
				if fl, ok := s.Call.Fun.(*ast.FuncLit); ok {
					for _, b := range fl.Body.List {
						if as, ok := b.(*ast.AssignStmt); ok && len(as.Lhs) == 1 && strings.HasSuffix(r.expr(as.Lhs[0]), ".Sig") {
							restored = true
						}
					}
				}
			}
		}
		ast.Inspect(fn.Decl.Body, func(n ast.Node) bool {
			if c, ok := n.(*ast.CallExpr); ok {
				callee := calleeOf(info, c)
				if isPkgFunc(callee, "go-ethereum/rlp", "EncodeToBytes") && encPos == token.NoPos {
					encPos = c.Pos()
					encCall = r.expr(c)
				}
				if isPkgFunc(callee, "fmt", "Sprintf") && len(c.Args) > 0 && format == "" {
					if tv, ok := info.Types[c.Args[0]]; ok && tv.Value != nil && tv.Value.Kind() == constant.String {
						format = constant.StringVal(tv.Value)
					}
					for _, a := range c.Args[1:] {
						fmtArgs = append(fmtArgs, r.expr(a))
					}
				}
			}
			if ret, ok := n.(*ast.ReturnStmt); ok && len(ret.Results) == 2 {
				if id, ok := unparen(ret.Results[1]).(*ast.Ident); ok && id.Name == "nil" {
					pre["result"] = r.expr(ret.Results[0])
				}
			}
			return true
		})
		pre["encode_call"] = encCall
		pre["sig_nil_before_encode"] = sigNilPos != token.NoPos && encPos != token.NoPos && sigNilPos < encPos
		pre["sig_restored_by_defer"] = restored
		pre["prefix_format"] = format
		pre["prefix_args"] = fmtArgs
		if !(sigNilPos != token.NoPos && encPos != token.NoPos && sigNilPos < encPos) {
			problems = append(problems, "PreImageToSignTrxRLP: tx.Sig is not set to nil before rlp.EncodeToBytes")
		}
		facts["PreImageToSignTrxRLP"] = pre
	}

	// payload types: every type with EncodeRLP in ctrlers/types other than Trx
	payloads := M{}
	var names []string
	for _, fn := range pr.Funcs {
		if fn.Rel != relCtypes || fn.Obj == nil || fn.Obj.Name() != "EncodeRLP" || fn.Recv == nil {
			continue
		}
		_, tname := recvTypeName(fn.Recv.Type())
		if tname == "Trx" {
			continue
		}
		names = append(names, tname)
		e := M{}
		if st, _ := pr.lookupStruct(relCtypes, tname); st != nil {
			e["struct"] = pr.structFields(st, nil)
		}
		if mt := pr.Func(relCtypes, "(*"+tname+").Type"); mt != nil {
			ast.Inspect(mt.Decl.Body, func(n ast.Node) bool {
				if ret, ok := n.(*ast.ReturnStmt); ok && len(ret.Results) == 1 {
					e["trx_type"] = pr.renderer(mt).expr(ret.Results[0])
				}
				return true
			})
		}
		e["encode"] = pr.payloadEncode(fn, &problems, tname)
		payloads[tname] = e
	}
	sort.Strings(names)
	facts["payload_types"] = toIface(names)
	facts["payloads"] = payloads
	return facts, problems
}

func toIface(ss []string) []interface{} {
	out := make([]interface{}, 0, len(ss))
	for _, s := range ss {
		out = append(out, s)
	}
	return out
}

func paramNames(fn *FuncNode) []interface{} {
	var out []interface{}
	if fn.Decl.Type.Params != nil {
		for _, f := range fn.Decl.Type.Params.List {
			for _, n := range f.Names {
				out = append(out, n.Name)
			}
		}
	}
	return out
}

func (pr *Prog) payloadEncode(fn *FuncNode, problems *[]string, tname string) M {
	info := fn.Pkg.TypesInfo
	r := pr.renderer(fn)
	where := "(*" + tname + ").EncodeRLP"
	var encCall *ast.CallExpr
	nEnc := 0
	ast.Inspect(fn.Decl.Body, func(n ast.Node) bool {
		if c, ok := n.(*ast.CallExpr); ok && isPkgFunc(calleeOf(info, c), "go-ethereum/rlp", "Encode") {
			encCall = c
			nEnc++
		}
		return true
	})
	if encCall == nil {
		// must be a bare `return nil`
		if len(fn.Decl.Body.List) == 1 {
			if ret, ok := fn.Decl.Body.List[0].(*ast.ReturnStmt); ok && len(ret.Results) == 1 && r.expr(ret.Results[0]) == "nil" {
				return M{"kind": "empty"}
			}
		}
		*problems = append(*problems, where+": neither rlp.Encode nor a bare `return nil`")
		return M{"kind": "unknown"}
	}
	if nEnc != 1 || len(encCall.Args) != 2 {
		*problems = append(*problems, where+": expected exactly one rlp.Encode(w, v) call")
		return M{"kind": "unknown"}
	}
	arg := unparen(encCall.Args[1])
	// local variable initialised with a composite literal?
	if id, ok := arg.(*ast.Ident); ok {
		obj := info.Uses[id]
		var init ast.Expr
		ast.Inspect(fn.Decl.Body, func(n ast.Node) bool {
			if as, ok := n.(*ast.AssignStmt); ok && as.Tok == token.DEFINE {
				for i, l := range as.Lhs {
					if lid, ok := l.(*ast.Ident); ok && info.Defs[lid] == obj && i < len(as.Rhs) {
						init = as.Rhs[i]
					}
				}
			}
			return true
		})
		if init != nil {
			arg = unparen(init)
		}
	}
	if u, ok := arg.(*ast.UnaryExpr); ok && u.Op == token.AND {
		arg = unparen(u.X)
	}
	if cl, ok := arg.(*ast.CompositeLit); ok {
		t := info.TypeOf(cl)
		switch u := t.Underlying().(type) {
		case *types.Struct:
			var fields []interface{}
			seen := map[string]bool{}
			for _, kv := range compositeFields(u, cl) {
				name := kv[0].(string)
				c := pr.conversion(fn, kv[1].(ast.Expr), problems, where+" field "+name)
				c["field"] = name
				fields = append(fields, c)
				seen[name] = true
			}
			for i := 0; i < u.NumFields(); i++ {
				if !seen[u.Field(i).Name()] {
					*problems = append(*problems, where+" does not set field "+u.Field(i).Name())
				}
			}
			return M{"kind": "struct", "rlp_struct": pr.structFields(u, nil), "fields": fields}
		case *types.Slice:
			var elems []interface{}
			for i, el := range cl.Elts {
				elems = append(elems, pr.conversion(fn, el, problems, where+" element "+strconv.Itoa(i)))
			}
			return M{"kind": "list", "list_type": pr.typeStr(t), "elements": elems}
		}
	}
	return M{"kind": "single", "value": pr.conversion(fn, encCall.Args[1], problems, where)}
}

// ---------------------------------------------------------------------------------------------
// tx_dispatch

func (pr *Prog) constName(info *types.Info, e ast.Expr) string {
	switch x := unparen(e).(type) {
	case *ast.Ident:
		if c, ok := info.Uses[x].(*types.Const); ok {
			return c.Name()
		}
	case *ast.SelectorExpr:
		if c, ok := info.Uses[x.Sel].(*types.Const); ok {
			return c.Name()
		}
	}
	return "?" + types.ExprString(e)
}

// handlerCalls lists the calls `ctx.<Handler>.<Method>(…)` in a case clause with the chain of
// enclosing conditions.
func (pr *Prog) handlerCalls(fn *FuncNode, stmts []ast.Stmt) []interface{} {
	r := pr.renderer(fn)
	var out []interface{}
	var walk func(n ast.Node, guards []string)
	walkIf := func(s *ast.IfStmt, guards []string) {}
	_ = walkIf
	walk = func(n ast.Node, guards []string) {
		switch s := n.(type) {
		case nil:
			return
		case *ast.IfStmt:
			g := append(append([]string{}, guards...), "")
			cond := r.expr(s.Cond)
			if s.Init != nil {
				// calls in the init statement are guarded by the outer guards only; the
				// condition (usually an error filter) is recorded on the call
				pr.collectHandlerCalls(fn, s.Init, guards, cond, &out)
			}
			g[len(g)-1] = cond
			if s.Init != nil {
				// the body of `if xerr := h(); xerr != nil {…}` is error handling of the call
				g[len(g)-1] = "after:" + cond
			}
			walk(s.Body, g)
			if s.Else != nil {
				e := append(append([]string{}, guards...), "else-of:"+cond)
				if s.Init != nil {
					// else branch of an if with init still sees the init's effects
					e[len(e)-1] = "else-of:" + clip(r.stmtInitExpr(s.Init), 60) + "; " + cond
				}
				walk(s.Else, e)
			}
		case *ast.BlockStmt:
			for _, st := range s.List {
				walk(st, guards)
			}
		default:
			if st, ok := n.(ast.Stmt); ok {
				pr.collectHandlerCalls(fn, st, guards, "", &out)
			}
		}
	}
	for _, st := range stmts {
		walk(st, nil)
	}
	return out
}

func (r *renderer) stmtInitExpr(s ast.Stmt) string {
	if as, ok := s.(*ast.AssignStmt); ok && len(as.Rhs) == 1 {
		return r.expr(as.Rhs[0])
	}
	return ""
}

func (pr *Prog) collectHandlerCalls(fn *FuncNode, st ast.Stmt, guards []string, errCond string, out *[]interface{}) {
	info := fn.Pkg.TypesInfo
	r := pr.renderer(fn)
	ast.Inspect(st, func(n ast.Node) bool {
		if _, ok := n.(*ast.FuncLit); ok {
			return false
		}
		c, ok := n.(*ast.CallExpr)
		if !ok {
			return true
		}
		sel, ok := unparen(c.Fun).(*ast.SelectorExpr)
		if !ok {
			return true
		}
		inner, ok := unparen(sel.X).(*ast.SelectorExpr)
		if !ok {
			return true
		}
		if s := info.Selections[inner]; s == nil || s.Kind() != types.FieldVal {
			return true
		}
		if !strings.HasSuffix(inner.Sel.Name, "Handler") {
			return true
		}
		e := M{"call": inner.Sel.Name + "." + sel.Sel.Name, "args": r.list(c.Args)}
		if len(guards) > 0 {
			e["when"] = toIface(guards)
		}
		if errCond != "" {
			e["error_if"] = errCond
		}
		*out = append(*out, e)
		return true
	})
}

func (pr *Prog) dispatchOf(fn *FuncNode, problems *[]string) M {
	info := fn.Pkg.TypesInfo
	r := pr.renderer(fn)
	out := M{}
	var sw *ast.SwitchStmt
	var pre, post []interface{}
	for _, st := range fn.Decl.Body.List {
		if s, ok := st.(*ast.SwitchStmt); ok && sw == nil {
			if c, ok := unparen(s.Tag).(*ast.CallExpr); ok {
				if callee := calleeOf(info, c); callee != nil && callee.Name() == "GetType" {
					sw = s
					out["switch_on"] = r.expr(s.Tag)
					continue
				}
			}
		}
		// module function calls before / after the switch
		ast.Inspect(st, func(n ast.Node) bool {
			if c, ok := n.(*ast.CallExpr); ok {
				if callee := calleeOf(info, c); callee != nil && pr.nodeOf(callee) != nil && callee.Type().(*types.Signature).Recv() == nil {
					if sw == nil {
						pre = append(pre, callee.Name())
					} else {
						post = append(post, callee.Name())
					}
				}
			}
			return true
		})
	}
	out["before_switch"] = pre
	out["after_switch"] = post
	if sw == nil {
		*problems = append(*problems, fn.Name+": no top-level `switch ctx.Tx.GetType()`")
		return out
	}
	var cases []interface{}
	for _, cc := range sw.Body.List {
		cl := cc.(*ast.CaseClause)
		e := M{}
		if cl.List == nil {
			e["types"] = []interface{}{"default"}
			var rets []interface{}
			for _, st := range cl.Body {
				if ret, ok := st.(*ast.ReturnStmt); ok {
					rets = append(rets, "return "+r.list(ret.Results))
				}
			}
			e["body"] = rets
		} else {
			var tys []interface{}
			for _, x := range cl.List {
				tys = append(tys, pr.constName(info, x))
			}
			e["types"] = tys
		}
		e["handlers"] = pr.handlerCalls(fn, cl.Body)
		cases = append(cases, e)
	}
	out["cases"] = cases
	return out
}

func (pr *Prog) topLevelChecks(fn *FuncNode) []interface{} {
	r := pr.renderer(fn)
	var out []interface{}
	for _, st := range fn.Decl.Body.List {
		ifs, ok := st.(*ast.IfStmt)
		if !ok {
			continue
		}
		e := M{"if": r.expr(ifs.Cond)}
		if ifs.Init != nil {
			e["init"] = clip(r.stmtInitExpr(ifs.Init), 100)
		}
		for _, b := range ifs.Body.List {
			if ret, ok := b.(*ast.ReturnStmt); ok {
				e["return"] = clip(r.list(ret.Results), 100)
			}
		}
		if _, has := e["return"]; has {
			out = append(out, e)
		}
	}
	return out
}

func (pr *Prog) factsDispatch() (M, []string) {
	var problems []string
	facts := M{}
	p := pr.ByRel[relCtypes]
	if p == nil {
		return facts, []string{"package ctrlers/types not loaded"}
	}
	// constants
	var consts []interface{}
	sc := p.Types.Scope()
	type cv struct {
		name string
		v    int64
		t    string
	}
	var cs []cv
	for _, nm := range sc.Names() {
		if c, ok := sc.Lookup(nm).(*types.Const); ok && strings.HasPrefix(nm, "TRX_") {
			if v, ok := constant.Int64Val(constant.ToInt(c.Val())); ok {
				cs = append(cs, cv{nm, v, pr.typeStr(c.Type())})
			}
		}
	}
	sort.Slice(cs, func(i, j int) bool {
		if cs[i].v != cs[j].v {
			return cs[i].v < cs[j].v
		}
		return cs[i].name < cs[j].name
	})
	seenV := map[int64]string{}
	for _, c := range cs {
		consts = append(consts, M{"name": c.name, "value": c.v, "type": c.t})
		if o, dup := seenV[c.v]; dup {
			problems = append(problems, fmt.Sprintf("transaction type constants %s and %s share the value %d", o, c.name, c.v))
		}
		seenV[c.v] = c.name
	}
	facts["trx_types"] = consts

	for _, name := range []string{"validateTrx", "runTrx"} {
		fn := pr.Func(relNode, name)
		if fn == nil {
			problems = append(problems, "node."+name+" not found")
			continue
		}
		d := pr.dispatchOf(fn, &problems)
		facts[name] = d
		// every TRX_* constant must be dispatched exactly once
		cnt := map[string]int{}
		if cases, ok := d["cases"].([]interface{}); ok {
			for _, c := range cases {
				for _, t := range c.(M)["types"].([]interface{}) {
					cnt[t.(string)]++
				}
			}
		}
		for _, c := range cs {
			if cnt[c.name] != 1 {
				problems = append(problems, fmt.Sprintf("%s: transaction type %s appears in %d case clauses (expected 1)", name, c.name, cnt[c.name]))
			}
		}
	}
	for _, name := range []string{"commonValidation0", "commonValidation1"} {
		if fn := pr.Func(relNode, name); fn != nil {
			facts[name+"_checks"] = pr.topLevelChecks(fn)
		}
	}
	// ExecuteSync: validate then run
	if fn := pr.Func(relNode, "(*TrxExecutor).ExecuteSync"); fn != nil {
		var seq []interface{}
		info := fn.Pkg.TypesInfo
		ast.Inspect(fn.Decl.Body, func(n ast.Node) bool {
			if c, ok := n.(*ast.CallExpr); ok {
				if callee := calleeOf(info, c); callee != nil && pr.nodeOf(callee) != nil {
					seq = append(seq, callee.Name())
				}
			}
			return true
		})
		facts["ExecuteSync_calls"] = seq
	} else {
		problems = append(problems, "node.(*TrxExecutor).ExecuteSync not found")
	}

	// commonValidation0: VerifyTrxRLP under ctx.Exec
	if fn := pr.Func(relNode, "commonValidation0"); fn == nil {
		problems = append(problems, "node.commonValidation0 not found")
	} else {
		info := fn.Pkg.TypesInfo
		r := pr.renderer(fn)
		var found M
		walkWithStack(fn.Decl.Body, func(n ast.Node, stack []ast.Node) bool {
			c, ok := n.(*ast.CallExpr)
			if !ok {
				return true
			}
			callee := calleeOf(info, c)
			if callee == nil || callee.Name() != "VerifyTrxRLP" {
				return true
			}
			var guards []interface{}
			var assign *ast.AssignStmt
			var block *ast.BlockStmt
			for i := 0; i < len(stack); i++ {
				switch s := stack[i].(type) {
				case *ast.IfStmt:
					if n.Pos() >= s.Body.Pos() && n.End() <= s.Body.End() {
						guards = append(guards, r.expr(s.Cond))
					} else if s.Else != nil && n.Pos() >= s.Else.Pos() {
						guards = append(guards, "else-of:"+r.expr(s.Cond))
					}
				case *ast.AssignStmt:
					assign = s
				case *ast.BlockStmt:
					block = s
				}
			}
			found = M{"callee": pr.calleeLabel(callee), "args": r.list(c.Args), "guards": guards}
			// error propagated?
			checked := false
			if assign != nil && block != nil {
				var errObj types.Object
				for _, l := range assign.Lhs {
					if id, ok := l.(*ast.Ident); ok && id.Name != "_" {
						o := info.Defs[id]
						if o == nil {
							o = info.Uses[id]
						}
						if o != nil && isErrorLike(o.Type()) {
							errObj = o
						}
					}
				}
				for i, st := range block.List {
					if st == ast.Stmt(assign) && i+1 < len(block.List) && errObj != nil {
						if ifs, ok := block.List[i+1].(*ast.IfStmt); ok && mentionsNonNil(info, ifs.Cond, errObj) {
							for _, b := range ifs.Body.List {
								if ret, ok := b.(*ast.ReturnStmt); ok && len(ret.Results) == 1 {
									if id, ok := unparen(ret.Results[0]).(*ast.Ident); ok && info.Uses[id] == errObj {
										checked = true
									}
								}
							}
						}
					}
				}
			}
			found["error_returned"] = checked
			return true
		})
		if found == nil {
			problems = append(problems, "commonValidation0 does not call VerifyTrxRLP")
		} else {
			facts["signature_check"] = found
			g, _ := found["guards"].([]interface{})
			if len(g) != 1 || g[0] != "ctx.Exec" {
				problems = append(problems, fmt.Sprintf("commonValidation0: VerifyTrxRLP is not guarded by exactly `ctx.Exec` (guards: %v)", g))
			}
			if found["error_returned"] != true {
				problems = append(problems, "commonValidation0: the error of VerifyTrxRLP is not returned")
			}
		}
		// validateTrx must call commonValidation0 first
		if v, ok := facts["validateTrx"].(M); ok {
			b, _ := v["before_switch"].([]interface{})
			if len(b) == 0 || b[0] != "commonValidation0" {
				problems = append(problems, "validateTrx does not start with commonValidation0")
			}
		}
	}
	return facts, problems
}

// ---------------------------------------------------------------------------------------------
// merge_fields

func (pr *Prog) fieldsUsed(fn *FuncNode, e ast.Node, recvObj types.Object, st *types.TypeName) []string {
	info := fn.Pkg.TypesInfo
	var out []string
	ast.Inspect(e, func(n ast.Node) bool {
		if sel, ok := n.(*ast.SelectorExpr); ok {
			if id, ok := unparen(sel.X).(*ast.Ident); ok && info.Uses[id] == recvObj {
				if s := info.Selections[sel]; s != nil && s.Kind() == types.FieldVal {
					out = append(out, sel.Sel.Name)
				}
			}
		}
		return true
	})
	return out
}

func (pr *Prog) factsMerge() (M, []string) {
	var problems []string
	facts := M{}
	st, _ := pr.lookupStruct(relCtypes, "GovParams")
	if st == nil {
		return facts, []string{"struct ctrlers/types.GovParams not found"}
	}
	isMutex := func(v *types.Var) bool { return strings.HasPrefix(pr.typeStr(v.Type()), "sync.") }
	fields := pr.structFields(st, isMutex)
	facts["GovParams"] = fields
	var fnames []string
	ftype := map[string]string{}
	for _, f := range fields {
		n := f.(M)["name"].(string)
		fnames = append(fnames, n)
		ftype[n] = f.(M)["type"].(string)
	}
	cover := func(what string, got []string) {
		seen := map[string]bool{}
		for _, g := range got {
			seen[g] = true
		}
		for _, f := range fnames {
			if !seen[f] {
				problems = append(problems, what+" does not handle GovParams."+f)
			}
		}
	}

	// MergeGovParams(old, new)
	if fn := pr.Func(relCtypes, "MergeGovParams"); fn == nil {
		problems = append(problems, "MergeGovParams not found")
	} else {
		info := fn.Pkg.TypesInfo
		r := pr.renderer(fn)
		ps := paramNames(fn)
		facts["MergeGovParams_params"] = ps
		var oldObj, newObj types.Object
		if len(ps) == 2 {
			ids := []*ast.Ident{}
			for _, f := range fn.Decl.Type.Params.List {
				ids = append(ids, f.Names...)
			}
			oldObj, newObj = info.Defs[ids[0]], info.Defs[ids[1]]
		} else {
			problems = append(problems, "MergeGovParams: expected two parameters (old, new)")
		}
		var merged []interface{}
		var got []string
		for _, st := range fn.Decl.Body.List {
			ifs, ok := st.(*ast.IfStmt)
			if !ok {
				problems = append(problems, "MergeGovParams: unexpected top-level statement "+clip(fmt.Sprintf("%T", st), 40))
				continue
			}
			condFields := uniq(pr.fieldsUsed(fn, ifs.Cond, newObj, nil))
			if len(condFields) != 1 {
				problems = append(problems, "MergeGovParams: condition `"+r.expr(ifs.Cond)+"` does not test exactly one field of the new params")
				continue
			}
			f := condFields[0]
			test := strings.ReplaceAll(r.expr(ifs.Cond), r.objName(newObj)+"."+f, "_")
			e := M{"field": f, "test": test}
			okAssign := false
			if len(ifs.Body.List) == 1 && ifs.Else == nil {
				if as, ok := ifs.Body.List[0].(*ast.AssignStmt); ok && len(as.Lhs) == 1 && len(as.Rhs) == 1 && as.Tok == token.ASSIGN {
					l := pr.fieldsUsed(fn, as.Lhs[0], newObj, nil)
					rr := pr.fieldsUsed(fn, as.Rhs[0], oldObj, nil)
					if len(l) == 1 && len(rr) == 1 && l[0] == f && rr[0] == f &&
						r.expr(as.Lhs[0]) == r.objName(newObj)+"."+f && r.expr(as.Rhs[0]) == r.objName(oldObj)+"."+f {
						okAssign = true
					}
					e["then"] = strings.ReplaceAll(strings.ReplaceAll(r.expr(as.Lhs[0])+" = "+r.expr(as.Rhs[0]), r.objName(newObj)+".", "new."), r.objName(oldObj)+".", "old.")
				}
			}
			if !okAssign {
				problems = append(problems, "MergeGovParams: the branch for "+f+" is not `new."+f+" = old."+f+"`")
			}
			merged = append(merged, e)
			got = append(got, f)
		}
		facts["MergeGovParams"] = merged
		cover("MergeGovParams", got)
		if d := dups(got); len(d) > 0 {
			problems = append(problems, "MergeGovParams handles twice: "+strings.Join(d, ","))
		}
	}

	recvObjOf := func(fn *FuncNode) types.Object {
		if fn.Decl.Recv != nil && len(fn.Decl.Recv.List) == 1 && len(fn.Decl.Recv.List[0].Names) == 1 {
			return fn.Pkg.TypesInfo.Defs[fn.Decl.Recv.List[0].Names[0]]
		}
		return nil
	}
	// toProto / MarshalJSON: composite literal whose values read r.<field>
	for _, spec := range []struct{ fn, key string }{{"(*GovParams).toProto", "toProto"}, {"(*GovParams).MarshalJSON", "MarshalJSON"}} {
		fn := pr.Func(relCtypes, spec.fn)
		if fn == nil {
			problems = append(problems, spec.fn+" not found")
			continue
		}
		info := fn.Pkg.TypesInfo
		r := pr.renderer(fn)
		recv := recvObjOf(fn)
		var best *ast.CompositeLit
		ast.Inspect(fn.Decl.Body, func(n ast.Node) bool {
			if cl, ok := n.(*ast.CompositeLit); ok {
				if _, ok := info.TypeOf(cl).Underlying().(*types.Struct); ok && (best == nil || len(cl.Elts) > len(best.Elts)) {
					best = cl
				}
			}
			return true
		})
		if best == nil {
			problems = append(problems, spec.fn+": no struct literal")
			continue
		}
		stt := info.TypeOf(best).Underlying().(*types.Struct)
		var list []interface{}
		var got []string
		for _, kv := range compositeFields(stt, best) {
			used := uniq(pr.fieldsUsed(fn, kv[1].(ast.Expr), recv, nil))
			e := M{"to": kv[0].(string), "from": toIface(used), "expr": r.expr(kv[1].(ast.Expr))}
			if tag := tagOf(stt, kv[0].(string)); tag != "" {
				e["tag"] = tag
			}
			list = append(list, e)
			got = append(got, used...)
		}
		facts[spec.key] = list
		cover(spec.fn, got)
	}
	// fromProto / UnmarshalJSON: assignments to r.<field>
	for _, spec := range []struct{ fn, key string }{{"(*GovParams).fromProto", "fromProto"}, {"(*GovParams).UnmarshalJSON", "UnmarshalJSON"}} {
		fn := pr.Func(relCtypes, spec.fn)
		if fn == nil {
			problems = append(problems, spec.fn+" not found")
			continue
		}
		r := pr.renderer(fn)
		recv := recvObjOf(fn)
		var list []interface{}
		var got []string
		seen := map[string]bool{}
		ast.Inspect(fn.Decl.Body, func(n ast.Node) bool {
			as, ok := n.(*ast.AssignStmt)
			if !ok {
				return true
			}
			for i, l := range as.Lhs {
				fs := pr.fieldsUsed(fn, l, recv, nil)
				if len(fs) != 1 || r.expr(l) != "self."+fs[0] {
					continue
				}
				rhs := ""
				if len(as.Rhs) == len(as.Lhs) {
					rhs = r.expr(as.Rhs[i])
				} else if len(as.Rhs) == 1 {
					rhs = r.expr(as.Rhs[0])
				}
				got = append(got, fs[0])
				if !seen[fs[0]] { // first assignment is the decoding one; later ones are defaults
					list = append(list, M{"field": fs[0], "from": rhs})
				} else {
					list = append(list, M{"field": fs[0], "from": rhs, "again": true})
				}
				seen[fs[0]] = true
			}
			return true
		})
		facts[spec.key] = list
		cover(spec.fn, got)
	}
	// JSON struct tags of UnmarshalJSON's temp struct
	if fn := pr.Func(relCtypes, "(*GovParams).UnmarshalJSON"); fn != nil {
		info := fn.Pkg.TypesInfo
		var best *ast.CompositeLit
		ast.Inspect(fn.Decl.Body, func(n ast.Node) bool {
			if cl, ok := n.(*ast.CompositeLit); ok {
				if _, ok := info.TypeOf(cl).Underlying().(*types.Struct); ok && best == nil {
					best = cl
				}
			}
			return true
		})
		if best != nil {
			stt := info.TypeOf(best).Underlying().(*types.Struct)
			var l []interface{}
			for i := 0; i < stt.NumFields(); i++ {
				l = append(l, M{"name": stt.Field(i).Name(), "type": pr.typeStr(stt.Field(i).Type()), "tag": stt.Tag(i)})
			}
			facts["UnmarshalJSON_struct"] = l
		}
	}
	return facts, problems
}

func tagOf(st *types.Struct, name string) string {
	for i := 0; i < st.NumFields(); i++ {
		if st.Field(i).Name() == name {
			return st.Tag(i)
		}
	}
	return ""
}

func (r *renderer) objName(o types.Object) string {
	if o == nil {
		return "?"
	}
	if r.self != nil && o == r.self {
		return "self"
	}
	return o.Name()
}

func uniq(ss []string) []string {
	seen := map[string]bool{}
	var out []string
	for _, s := range ss {
		if !seen[s] {
			seen[s] = true
			out = append(out, s)
		}
	}
	return out
}

func dups(ss []string) []string {
	seen := map[string]int{}
	var out []string
	for _, s := range ss {
		seen[s]++
		if seen[s] == 2 {
			out = append(out, s)
		}
	}
	return out
}

// ---------------------------------------------------------------------------------------------
// commit_order

// commitEvents lists, in evaluation order, the calls of fn that matter for the durable
// write order: Commit methods, durable APIs, batch/tree mutations and the verif hook labels.
func (pr *Prog) commitEvents(fn *FuncNode) []interface{} {
	info := fn.Pkg.TypesInfo
	r := pr.renderer(fn)
	type ev struct {
		end token.Pos
		m   M
	}
	var evs []ev
	walkWithStack(fn.Decl.Body, func(n ast.Node, stack []ast.Node) bool {
		c, ok := n.(*ast.CallExpr)
		if !ok {
			return true
		}
		callee := calleeOf(info, c)
		if callee == nil {
			return true
		}
		name := callee.Name()
		pp := pkgPathOf(callee)
		_, rn := recvNamed(callee)
		kind := ""
		switch {
		case pr.durableAPI(callee) != "":
			kind = "durable"
		case name == "Commit":
			kind = "commit"
		case strings.Contains(pp, "tendermint/tm-db") && rn == "Batch" && (name == "Set" || name == "Delete"):
			kind = "batch"
		case strings.Contains(pp, "cosmos/iavl") && (name == "Set" || name == "Remove"):
			kind = "tree"
		case pp == pr.ModPath+"/libs/verifhook" && name == "DurableWritten":
			kind = "hook"
		}
		if kind == "" {
			return true
		}
		m := M{"kind": kind, "call": r.expr(c.Fun), "callee": pr.calleeLabel(callee)}
		if kind == "hook" || kind == "batch" {
			m["args"] = clip(r.list(c.Args), 100)
		}
		var guards []interface{}
		for _, s := range stack {
			switch g := s.(type) {
			case *ast.IfStmt:
				if n.Pos() >= g.Body.Pos() && n.End() <= g.Body.End() {
					guards = append(guards, r.expr(g.Cond))
				} else if g.Else != nil && n.Pos() >= g.Else.Pos() {
					guards = append(guards, "else-of:"+r.expr(g.Cond))
				}
			case *ast.RangeStmt:
				if n.Pos() >= g.Body.Pos() {
					guards = append(guards, "range "+r.expr(g.X))
				}
			case *ast.ForStmt:
				if n.Pos() >= g.Body.Pos() {
					guards = append(guards, "for")
				}
			}
		}
		if len(guards) > 0 {
			m["within"] = guards
		}
		evs = append(evs, ev{c.End(), m})
		return true
	})
	// evaluation order: a call completes after its receiver chain and arguments, i.e. ordered by
	// the position of its closing parenthesis
	sort.SliceStable(evs, func(i, j int) bool { return evs[i].end < evs[j].end })
	out := make([]interface{}, 0, len(evs))
	for _, e := range evs {
		out = append(out, e.m)
	}
	return out
}

type commitSpec struct{ rel, fn, label string }

var commitFuncs = []commitSpec{
	{"node", "(*RigoApp).Commit", "RigoApp.Commit"},
	{"ctrlers/gov", "(*GovCtrler).Commit", "GovCtrler.Commit"},
	{"ctrlers/account", "(*AcctCtrler).Commit", "AcctCtrler.Commit"},
	{"ctrlers/stake", "(*StakeCtrler).Commit", "StakeCtrler.Commit"},
	{"ctrlers/vm/evm", "(*EVMCtrler).Commit", "EVMCtrler.Commit"},
	{"ledger", "(*FinalityLedger).Commit", "FinalityLedger.Commit"},
	{"ctrlers/types", "(*MetaDB).put", "MetaDB.put"},
}

func (pr *Prog) factsCommit() (M, []string, []string) {
	var problems []string
	facts := M{}
	for _, cs := range commitFuncs {
		fn := pr.Func(cs.rel, cs.fn)
		if fn == nil {
			problems = append(problems, cs.rel+"."+cs.fn+" not found")
			continue
		}
		facts[cs.label] = pr.commitEvents(fn)
	}
	// flattened order for the Lean model
	var flat, cond []string
	shortField := func(call string) string {
		call = strings.TrimPrefix(call, "self.")
		return call
	}
	ctrlOf := map[string]string{}
	for _, cs := range commitFuncs {
		ctrlOf["("+cs.rel+"."+strings.TrimSuffix(cs.label, ".Commit")+").Commit"] = cs.label
	}
	if app, ok := facts["RigoApp.Commit"].([]interface{}); ok {
		for _, e := range app {
			m := e.(M)
			if m["kind"] == "hook" {
				continue
			}
			call := shortField(m["call"].(string))
			if sub, ok := ctrlOf[m["callee"].(string)]; ok && m["kind"] == "commit" {
				prefix := strings.TrimSuffix(call, ".Commit")
				for _, se := range facts[sub].([]interface{}) {
					sm := se.(M)
					if sm["kind"] == "hook" || sm["kind"] == "batch" {
						continue
					}
					name := prefix + "/" + shortField(sm["call"].(string))
					flat = append(flat, name)
					if _, g := sm["within"]; g {
						cond = append(cond, name)
					}
				}
				continue
			}
			flat = append(flat, call)
			if _, g := m["within"]; g {
				cond = append(cond, call)
			}
		}
	}
	facts["flattened"] = toIface(flat)
	facts["flattened_conditional"] = toIface(cond)
	return facts, problems, flat
}

// ---------------------------------------------------------------------------------------------
// constants

func (pr *Prog) constOf(rel, name string) (string, bool) {
	p := pr.ByRel[rel]
	if p == nil {
		return "", false
	}
	if c, ok := p.Types.Scope().Lookup(name).(*types.Const); ok {
		return constant.ToInt(c.Val()).ExactString(), true
	}
	return "", false
}

// varInitConst: the constant in the initialiser of a package-level variable: either the
// initialiser itself (uint64(25_000_000)) or the single constant argument of a call
// (uint256.NewInt(1_000…)).
func (pr *Prog) varInitConst(rel, name string) (string, string, bool) {
	p := pr.ByRel[rel]
	if p == nil {
		return "", "", false
	}
	info := p.TypesInfo
	for _, f := range p.Syntax {
		for _, d := range f.Decls {
			gd, ok := d.(*ast.GenDecl)
			if !ok || gd.Tok != token.VAR {
				continue
			}
			for _, s := range gd.Specs {
				vs := s.(*ast.ValueSpec)
				for i, n := range vs.Names {
					if n.Name != name || i >= len(vs.Values) {
						continue
					}
					v := vs.Values[i]
					r := &renderer{pr: pr, info: info}
					if tv, ok := info.Types[v]; ok && tv.Value != nil {
						return constant.ToInt(tv.Value).ExactString(), r.expr(v), true
					}
					if c, ok := unparen(v).(*ast.CallExpr); ok && len(c.Args) == 1 {
						if tv, ok := info.Types[c.Args[0]]; ok && tv.Value != nil {
							return constant.ToInt(tv.Value).ExactString(), r.expr(v), true
						}
					}
					return "", r.expr(v), false
				}
			}
		}
	}
	return "", "", false
}

func (pr *Prog) factsConstants() (M, []string) {
	var problems []string
	facts := M{}
	put := func(key, val, src string, ok bool) {
		if !ok {
			problems = append(problems, "constant "+key+" could not be extracted ("+src+")")
			return
		}
		facts[key] = M{"value": val, "source": src}
	}
	v, ok := pr.constOf("types", "AddrSize")
	put("addrSize", v, "const types.AddrSize", ok)
	v, ok = pr.constOf(relCtypes, "MAX_ACCT_NAME")
	put("maxAcctName", v, "const ctrlers/types.MAX_ACCT_NAME", ok)
	v, ok = pr.constOf(relCtypes, "MAX_ACCT_DOCURL")
	put("maxAcctDocUrl", v, "const ctrlers/types.MAX_ACCT_DOCURL", ok)
	v, ok = pr.constOf("ledger", "LEDGERKEYSIZE")
	put("ledgerKeySize", v, "const ledger.LEDGERKEYSIZE", ok)
	v, src, ok := pr.varInitConst(relCtypes, "amountPerPower")
	put("amountPerPower", v, "var ctrlers/types.amountPerPower = "+src, ok)
	v, src, ok = pr.varInitConst("ctrlers/vm/evm", "gasLimit")
	put("evmBlockGasLimit", v, "var ctrlers/vm/evm.gasLimit = "+src, ok)

	// rwdLedgUpInterval: StakeCtrler literal in NewStakeCtrler
	if fn := pr.Func("ctrlers/stake", "NewStakeCtrler"); fn == nil {
		problems = append(problems, "ctrlers/stake.NewStakeCtrler not found")
	} else {
		info := fn.Pkg.TypesInfo
		found := false
		ast.Inspect(fn.Decl.Body, func(n ast.Node) bool {
			if kv, ok := n.(*ast.KeyValueExpr); ok {
				if id, ok := kv.Key.(*ast.Ident); ok && id.Name == "rwdLedgUpInterval" {
					if tv, ok := info.Types[kv.Value]; ok && tv.Value != nil {
						put("rwdLedgUpInterval", constant.ToInt(tv.Value).ExactString(), "StakeCtrler{rwdLedgUpInterval: "+pr.renderer(fn).expr(kv.Value)+"} in NewStakeCtrler", true)
						found = true
					}
				}
			}
			return true
		})
		if !found {
			put("rwdLedgUpInterval", "", "StakeCtrler{rwdLedgUpInterval: <const>} in NewStakeCtrler", false)
		}
	}
	// and its use in Commit: `v0 % ctrler.rwdLedgUpInterval == 0`
	if fn := pr.Func("ctrlers/stake", "(*StakeCtrler).Commit"); fn != nil {
		r := pr.renderer(fn)
		ast.Inspect(fn.Decl.Body, func(n ast.Node) bool {
			if ifs, ok := n.(*ast.IfStmt); ok && strings.Contains(r.expr(ifs.Cond), "rwdLedgUpInterval") {
				facts["rwdHashCondition"] = M{"value": r.expr(ifs.Cond), "source": "(*StakeCtrler).Commit"}
			}
			return true
		})
	}

	// rewardLedgerLag: first argument of ImmutableLedgerAt in (*StakeCtrler).BeginBlock is a
	// variable defined as `<x>.Height() - C`
	if fn := pr.Func("ctrlers/stake", "(*StakeCtrler).BeginBlock"); fn == nil {
		problems = append(problems, "(*StakeCtrler).BeginBlock not found")
	} else {
		info := fn.Pkg.TypesInfo
		r := pr.renderer(fn)
		var argObj types.Object
		ast.Inspect(fn.Decl.Body, func(n ast.Node) bool {
			if c, ok := n.(*ast.CallExpr); ok && len(c.Args) >= 1 {
				if callee := calleeOf(info, c); callee != nil && callee.Name() == "ImmutableLedgerAt" {
					if id, ok := unparen(c.Args[0]).(*ast.Ident); ok && argObj == nil {
						argObj = info.Uses[id]
					}
				}
			}
			return true
		})
		found := false
		var clamp []interface{}
		if argObj != nil {
			ast.Inspect(fn.Decl.Body, func(n ast.Node) bool {
				switch x := n.(type) {
				case *ast.AssignStmt:
					for i, l := range x.Lhs {
						id, ok := l.(*ast.Ident)
						if !ok || i >= len(x.Rhs) {
							continue
						}
						if info.Defs[id] == argObj {
							if b, ok := unparen(x.Rhs[i]).(*ast.BinaryExpr); ok && b.Op == token.SUB {
								if tv, ok := info.Types[b.Y]; ok && tv.Value != nil {
									if c, ok := unparen(b.X).(*ast.CallExpr); ok {
										if callee := calleeOf(info, c); callee != nil && callee.Name() == "Height" {
											put("rewardLedgerLag", constant.ToInt(tv.Value).ExactString(), argObj.Name()+" := "+r.expr(x.Rhs[i])+" in (*StakeCtrler).BeginBlock", true)
											found = true
										}
									}
								}
							}
						} else if info.Uses[id] == argObj {
							clamp = append(clamp, r.expr(l)+" "+x.Tok.String()+" "+r.expr(x.Rhs[i]))
						}
					}
				case *ast.IfStmt:
					if strings.Contains(r.expr(x.Cond), argObj.Name()) {
						clamp = append(clamp, "if "+r.expr(x.Cond))
					}
				}
				return true
			})
		}
		if !found {
			put("rewardLedgerLag", "", "ImmutableLedgerAt(<v>, …) with <v> := Height() - C in (*StakeCtrler).BeginBlock", false)
		} else {
			facts["rewardLedgerLagClamp"] = M{"value": clamp, "source": "(*StakeCtrler).BeginBlock"}
		}
	}
	return facts, problems
}
