package main

// Reachability-scoped inventories: nondeterminism (C01), panic sites (C09), durable writes
// outside Commit (C08). A site is keyed by (package, function, kind, detail) — never by line.

import (
	"go/ast"
	"go/constant"
	"go/token"
	"go/types"
	"sort"
	"strconv"
	"strings"
)

type Site struct {
	Pkg    string `json:"pkg"`
	Func   string `json:"func"`
	Kind   string `json:"kind"`
	Detail string `json:"detail"`
	Count  int    `json:"count"`
	Pos    string `json:"pos,omitempty"` // informational only (file:line of the first occurrence)
}

func (s Site) Key() string { return s.Pkg + " | " + s.Func + " | " + s.Kind + " | " + s.Detail }

type siteSet struct {
	pr    *Prog
	m     map[string]*Site
	order []string
}

func newSiteSet(pr *Prog) *siteSet { return &siteSet{pr: pr, m: map[string]*Site{}} }

func (ss *siteSet) add(fn *FuncNode, kind, detail string, pos token.Pos) {
	s := Site{Pkg: fn.Rel, Func: fn.Name, Kind: kind, Detail: detail, Count: 1}
	k := s.Key()
	if old, ok := ss.m[k]; ok {
		old.Count++
		return
	}
	p := ss.pr.Fset.Position(pos)
	file := p.Filename
	if i := strings.Index(file, "/"+fn.Rel+"/"); i >= 0 {
		file = file[i+1:]
	}
	s.Pos = file + ":" + strconv.Itoa(p.Line)
	ss.m[k] = &s
	ss.order = append(ss.order, k)
}

func (ss *siteSet) sorted() []Site {
	keys := append([]string{}, ss.order...)
	sort.Strings(keys)
	out := make([]Site, 0, len(keys))
	for _, k := range keys {
		out = append(out, *ss.m[k])
	}
	return out
}

func (pr *Prog) roots(names ...string) ([]*FuncNode, []string) {
	var out []*FuncNode
	var missing []string
	for _, n := range names {
		f := pr.Func("node", "(*RigoApp)."+n)
		if f == nil {
			missing = append(missing, "node:(*RigoApp)."+n)
			continue
		}
		out = append(out, f)
	}
	return out, missing
}

func pkgPathOf(fn *types.Func) string {
	if fn == nil || fn.Pkg() == nil {
		return ""
	}
	return fn.Pkg().Path()
}

func recvNamed(fn *types.Func) (pkg, name string) {
	sig, _ := fn.Type().(*types.Signature)
	if sig == nil || sig.Recv() == nil {
		return "", ""
	}
	t := sig.Recv().Type()
	if p, ok := t.(*types.Pointer); ok {
		t = p.Elem()
	}
	if n, ok := t.(*types.Named); ok {
		if n.Obj().Pkg() != nil {
			return n.Obj().Pkg().Path(), n.Obj().Name()
		}
		return "", n.Obj().Name()
	}
	return "", ""
}

// calleeLabel: "time.Now", "(github.com/cosmos/iavl.MutableTree).SaveVersion"
func (pr *Prog) calleeLabel(fn *types.Func) string {
	rp, rn := recvNamed(fn)
	if rn != "" {
		q := rp
		if strings.HasPrefix(rp, pr.ModPath) {
			q = pr.rel(rp)
		}
		return "(" + q + "." + rn + ")." + fn.Name()
	}
	return pr.qual(fn.Pkg()) + "." + fn.Name()
}

// ---------------------------------------------------------------------------------------------
// nondeterminism

func isMapType(t types.Type) bool {
	if t == nil {
		return false
	}
	switch u := t.Underlying().(type) {
	case *types.Map:
		return true
	case *types.Interface:
		// type parameter: all types of the type set must be maps
		if tp, ok := t.(*types.TypeParam); ok {
			_ = tp
			if u.NumEmbeddeds() == 0 {
				return false
			}
			all := true
			for i := 0; i < u.NumEmbeddeds(); i++ {
				if un, ok := u.EmbeddedType(i).(*types.Union); ok {
					for j := 0; j < un.Len(); j++ {
						if _, ok := un.Term(j).Type().Underlying().(*types.Map); !ok {
							all = false
						}
					}
				} else if _, ok := u.EmbeddedType(i).Underlying().(*types.Map); !ok {
					all = false
				}
			}
			return all
		}
	}
	return false
}

var nondetFuncs = map[string]map[string]bool{
	"time": {"Now": true, "Since": true, "Until": true},
	"os": {"Getenv": true, "LookupEnv": true, "Environ": true, "Hostname": true, "Getpid": true, "Getppid": true,
		"Getwd": true, "Getuid": true, "TempDir": true, "UserHomeDir": true},
	"github.com/tendermint/tendermint/types/time": {"Now": true},
}
var nondetPkgs = map[string]bool{"math/rand": true, "math/rand/v2": true, "crypto/rand": true, "runtime": true,
	"github.com/tendermint/tendermint/libs/rand": true, "runtime/debug": true}
var sortFuncs = map[string]bool{"Sort": true, "Stable": true, "Slice": true, "SliceStable": true, "Strings": true,
	"Ints": true, "Float64s": true}

func (pr *Prog) scanNondet(fns []*FuncNode) []Site {
	ss := newSiteSet(pr)
	for _, fn := range fns {
		if fn.Gen {
			continue
		}
		info := fn.Pkg.TypesInfo
		r := pr.renderer(fn)
		for _, body := range fn.Body {
			ast.Inspect(body, func(n ast.Node) bool {
				switch x := n.(type) {
				case *ast.RangeStmt:
					t := info.TypeOf(x.X)
					if isMapType(t) {
						ss.add(fn, "map-range", r.expr(x.X)+" : "+pr.typeStr(t), x.Pos())
					}
				case *ast.GoStmt:
					ss.add(fn, "go-stmt", clip(r.expr(x.Call.Fun), 80), x.Pos())
				case *ast.SelectStmt:
					ss.add(fn, "select-stmt", strconv.Itoa(len(x.Body.List))+" cases", x.Pos())
				case *ast.BasicLit:
					if x.Kind == token.STRING && strings.Contains(x.Value, "%p") {
						ss.add(fn, "fmt-%p", clip(x.Value, 80), x.Pos())
					}
				case *ast.CallExpr:
					callee := calleeOf(info, x)
					if callee == nil {
						return true
					}
					pp := pkgPathOf(callee)
					rp, rn := recvNamed(callee)
					switch {
					case pp == "sort" && rn == "" && sortFuncs[callee.Name()]:
						d := "sort." + callee.Name()
						if len(x.Args) > 0 {
							d += "(" + pr.typeStr(info.TypeOf(x.Args[0])) + ")"
						}
						ss.add(fn, "sort", d, x.Pos())
					case pp == "slices" && strings.HasPrefix(callee.Name(), "Sort"):
						ss.add(fn, "sort", "slices."+callee.Name(), x.Pos())
					case (pp == "maps" || pp == "golang.org/x/exp/maps") && (callee.Name() == "Keys" || callee.Name() == "Values"):
						ss.add(fn, "map-keys", pp+"."+callee.Name(), x.Pos())
					case rp == "reflect" && rn == "Value" && (callee.Name() == "MapKeys" || callee.Name() == "MapRange"):
						ss.add(fn, "map-keys", "reflect.Value."+callee.Name(), x.Pos())
					case rp == "sync" && rn == "Map" && callee.Name() == "Range":
						ss.add(fn, "map-range", "sync.Map.Range", x.Pos())
					case rn == "" && nondetFuncs[pp][callee.Name()]:
						ss.add(fn, "call", pp+"."+callee.Name(), x.Pos())
					case nondetPkgs[pp]:
						ss.add(fn, "call", pr.calleeLabel(callee), x.Pos())
					}
				}
				return true
			})
		}
	}
	return ss.sorted()
}

// ---------------------------------------------------------------------------------------------
// durable writes

func (pr *Prog) durableAPI(callee *types.Func) string {
	if callee == nil {
		return ""
	}
	pp := pkgPathOf(callee)
	rp, rn := recvNamed(callee)
	name := callee.Name()
	has := func(s, sub string) bool { return strings.Contains(s, sub) }
	switch {
	case name == "SaveVersion":
		return pr.calleeLabel(callee)
	case has(pp, "tendermint/tm-db") && (name == "SetSync" || name == "DeleteSync" || name == "WriteSync" || name == "Write"):
		return pr.calleeLabel(callee)
	case has(pp, "tendermint/tm-db") && rn != "Batch" && (name == "Set" || name == "Delete"):
		return pr.calleeLabel(callee)
	case has(pp, "go-ethereum/ethdb") && (name == "Put" || name == "Delete" || name == "Write"):
		return pr.calleeLabel(callee)
	case has(pp, "syndtr/goleveldb") && (name == "Put" || name == "Delete" || name == "Write"):
		return pr.calleeLabel(callee)
	case has(rp, "go-ethereum/trie") && rn == "Database" && (name == "Commit" || name == "Cap"):
		return pr.calleeLabel(callee)
	case has(rp, "go-ethereum/core/state") && rn == "StateDB" && name == "Commit":
		return pr.calleeLabel(callee)
	case has(pp, "go-ethereum/core/rawdb") && strings.HasPrefix(name, "Write"):
		return pr.calleeLabel(callee)
	case pr.inModule(callee.Pkg()) && rn == "MetaDB" && (name == "put" || strings.HasPrefix(name, "Put")):
		return pr.calleeLabel(callee)
	case rn == "" && (pp == "os" || pp == "io/ioutil") && (name == "WriteFile" || name == "Create" || name == "OpenFile" ||
		name == "Rename" || name == "Remove" || name == "RemoveAll" || name == "Truncate"):
		return pp + "." + name
	case has(pp, "tendermint/libs/tempfile") && name == "WriteFileAtomic":
		return pr.calleeLabel(callee)
	}
	return ""
}

func (pr *Prog) scanDurable(fns []*FuncNode) []Site {
	ss := newSiteSet(pr)
	for _, fn := range fns {
		if fn.Gen {
			continue
		}
		if fn.Obj != nil {
			if _, rn := recvNamed(fn.Obj); rn == "MetaDB" {
				continue // the sink itself
			}
		}
		info := fn.Pkg.TypesInfo
		for _, body := range fn.Body {
			ast.Inspect(body, func(n ast.Node) bool {
				if x, ok := n.(*ast.CallExpr); ok {
					if l := pr.durableAPI(calleeOf(info, x)); l != "" {
						ss.add(fn, "durable-write", l, x.Pos())
					}
				}
				return true
			})
		}
	}
	return ss.sorted()
}

// ---------------------------------------------------------------------------------------------
// panic sites

func isConst(info *types.Info, e ast.Expr) bool {
	if e == nil {
		return true
	}
	tv, ok := info.Types[e]
	return ok && tv.Value != nil
}

func constInt(info *types.Info, e ast.Expr) (int64, bool) {
	tv, ok := info.Types[e]
	if !ok || tv.Value == nil {
		return 0, false
	}
	v, ok := constant.Int64Val(constant.ToInt(tv.Value))
	return v, ok
}

type seqKind int

const (
	seqNone seqKind = iota
	seqSlice
	seqString
	seqArray
)

func seqKindOf(t types.Type) seqKind {
	if t == nil {
		return seqNone
	}
	switch u := t.Underlying().(type) {
	case *types.Slice:
		return seqSlice
	case *types.Array:
		return seqArray
	case *types.Pointer:
		if _, ok := u.Elem().Underlying().(*types.Array); ok {
			return seqArray
		}
	case *types.Basic:
		if u.Info()&types.IsString != 0 {
			return seqString
		}
	}
	return seqNone
}

func isIntegerType(t types.Type) bool {
	if t == nil {
		return false
	}
	b, ok := t.Underlying().(*types.Basic)
	return ok && b.Info()&types.IsInteger != 0
}

func isErrorLike(t types.Type) bool {
	if t == nil {
		return false
	}
	obj, _, _ := types.LookupFieldOrMethod(t, true, nil, "Error")
	f, ok := obj.(*types.Func)
	if !ok {
		return false
	}
	sig := f.Type().(*types.Signature)
	return sig.Params().Len() == 0 && sig.Results().Len() == 1 && isInterfaceLike(t)
}

func isPointerish(t types.Type) bool {
	if t == nil {
		return false
	}
	_, ok := t.Underlying().(*types.Pointer)
	return ok
}

// loopGuarded: x[i] where i is the key of an enclosing `for i := range x` over the same
// expression, or the variable of an enclosing `for …; i < len(x); …` loop.
func loopGuarded(r *renderer, info *types.Info, seq ast.Expr, idx ast.Expr, stack []ast.Node) bool {
	id, ok := unparen(idx).(*ast.Ident)
	if !ok {
		return false
	}
	obj := info.Uses[id]
	if obj == nil {
		return false
	}
	seqS := r.expr(seq)
	for i := len(stack) - 1; i >= 0; i-- {
		switch l := stack[i].(type) {
		case *ast.RangeStmt:
			if k, ok := l.Key.(*ast.Ident); ok && (info.Defs[k] == obj || info.Uses[k] == obj) && r.expr(l.X) == seqS {
				return true
			}
		case *ast.ForStmt:
			if b, ok := l.Cond.(*ast.BinaryExpr); ok && b.Op == token.LSS {
				if li, ok := b.X.(*ast.Ident); ok && info.Uses[li] == obj {
					if c, ok := b.Y.(*ast.CallExpr); ok && len(c.Args) == 1 {
						if f, ok := c.Fun.(*ast.Ident); ok && f.Name == "len" && r.expr(c.Args[0]) == seqS {
							return true
						}
					}
				}
			}
		}
	}
	return false
}

// lenChecked: the function compares len(<seq>) with something before pos. Recorded in the
// site's detail so that deleting the only length check in front of an index/slice expression
// changes the site key (the "guarded" claim of the expectation would no longer be backed).
func lenChecked(r *renderer, body ast.Node, seq ast.Expr, pos token.Pos) bool {
	want := r.expr(seq)
	found := false
	ast.Inspect(body, func(n ast.Node) bool {
		if found || n == nil {
			return false
		}
		b, ok := n.(*ast.BinaryExpr)
		if !ok || b.Pos() >= pos {
			return true
		}
		switch b.Op {
		case token.LSS, token.LEQ, token.GTR, token.GEQ, token.EQL, token.NEQ:
		default:
			return true
		}
		for _, side := range []ast.Expr{b.X, b.Y} {
			ast.Inspect(side, func(m ast.Node) bool {
				if c, ok := m.(*ast.CallExpr); ok && len(c.Args) == 1 {
					if f, ok := c.Fun.(*ast.Ident); ok && f.Name == "len" && r.expr(c.Args[0]) == want {
						found = true
					}
				}
				return !found
			})
		}
		return true
	})
	return found
}

func (pr *Prog) scanPanics(fns []*FuncNode) (sites []Site, autoGuarded int) {
	ss := newSiteSet(pr)
	for _, fn := range fns {
		if fn.Gen || fn.Obj == nil {
			continue // generated code; package initialisers run at process start, not on an input
		}
		info := fn.Pkg.TypesInfo
		r := pr.renderer(fn)
		for _, body := range fn.Body {
			body := body
			seqDetail := func(seq ast.Expr, whole ast.Expr) string {
				d := clip(r.expr(whole), 80)
				if lenChecked(r, body, seq, whole.Pos()) {
					d += "  [after a len check]"
				}
				return d
			}
			walkWithStack(body, func(n ast.Node, stack []ast.Node) bool {
				switch x := n.(type) {
				case *ast.CallExpr:
					if id, ok := unparen(x.Fun).(*ast.Ident); ok && id.Name == "panic" {
						if _, isB := info.Uses[id].(*types.Builtin); isB {
							ss.add(fn, "panic", clip(r.list(x.Args), 70), x.Pos())
						}
					}
					if callee := calleeOf(info, x); callee != nil {
						if strings.HasPrefix(callee.Name(), "Must") && len(callee.Name()) > 4 {
							ss.add(fn, "must-call", pr.calleeLabel(callee), x.Pos())
						}
						if rp, rn := recvNamed(callee); rp == "math/big" && rn == "Int" {
							switch callee.Name() {
							case "Div", "Mod", "Quo", "Rem", "DivMod", "QuoRem":
								ss.add(fn, "div", "big.Int."+callee.Name()+" "+clip(r.list(x.Args), 60), x.Pos())
							}
						}
					}
				case *ast.TypeAssertExpr:
					if x.Type == nil {
						return true // type switch
					}
					commaOk := false
					if len(stack) > 0 {
						switch p := stack[len(stack)-1].(type) {
						case *ast.AssignStmt:
							commaOk = len(p.Lhs) == 2 && len(p.Rhs) == 1 && p.Rhs[0] == ast.Expr(x)
						case *ast.ValueSpec:
							commaOk = len(p.Names) == 2 && len(p.Values) == 1 && p.Values[0] == ast.Expr(x)
						}
					}
					if !commaOk {
						ss.add(fn, "type-assert", clip(r.expr(x), 90), x.Pos())
					}
				case *ast.IndexExpr:
					tv, ok := info.Types[x.X]
					if !ok || tv.IsType() {
						return true
					}
					if _, isSig := tv.Type.Underlying().(*types.Signature); isSig {
						return true // generic instantiation
					}
					k := seqKindOf(tv.Type)
					if k == seqNone {
						return true
					}
					if isConst(info, x.Index) {
						if k == seqArray {
							return true // checked at compile time
						}
						ss.add(fn, "index-const", seqDetail(x.X, x), x.Pos())
						return true
					}
					if loopGuarded(r, info, x.X, x.Index, stack) {
						autoGuarded++
						return true
					}
					ss.add(fn, "index", seqDetail(x.X, x), x.Pos())
				case *ast.SliceExpr:
					if x.Low == nil && x.High == nil && x.Max == nil {
						return true
					}
					k := seqKindOf(info.TypeOf(x.X))
					if k == seqNone {
						return true
					}
					allConst := isConst(info, x.Low) && isConst(info, x.High) && isConst(info, x.Max)
					if allConst && k == seqArray {
						return true
					}
					if allConst && x.High == nil && x.Max == nil {
						if v, ok := constInt(info, x.Low); ok && v == 0 {
							return true // x[0:]
						}
					}
					kind := "slice"
					if allConst {
						kind = "slice-const"
					}
					ss.add(fn, kind, seqDetail(x.X, x), x.Pos())
				case *ast.BinaryExpr:
					if (x.Op == token.QUO || x.Op == token.REM) && isIntegerType(info.TypeOf(x.X)) && !isConst(info, x.Y) {
						ss.add(fn, "div", clip(r.expr(x), 80), x.Pos())
					}
				case *ast.AssignStmt:
					if (x.Tok == token.QUO_ASSIGN || x.Tok == token.REM_ASSIGN) && len(x.Lhs) == 1 &&
						isIntegerType(info.TypeOf(x.Lhs[0])) && !isConst(info, x.Rhs[0]) {
						ss.add(fn, "div", clip(r.expr(x.Lhs[0])+" "+x.Tok.String()+" "+r.expr(x.Rhs[0]), 80), x.Pos())
					}
				}
				return true
			})
			pr.scanErrDeref(fn, body, ss)
			pr.scanMaybeNil(fn, body, ss)
		}
	}
	return ss.sorted(), autoGuarded
}

// mentionsNilCheck: does cond contain `v != nil`?
func mentionsNonNil(info *types.Info, cond ast.Expr, v types.Object) bool {
	found := false
	ast.Inspect(cond, func(n ast.Node) bool {
		if b, ok := n.(*ast.BinaryExpr); ok && b.Op == token.NEQ {
			if id, ok := unparen(b.X).(*ast.Ident); ok && info.Uses[id] == v {
				if y, ok := unparen(b.Y).(*ast.Ident); ok && y.Name == "nil" {
					found = true
				}
			}
		}
		return !found
	})
	return found
}

func mentionsNilCmp(info *types.Info, root ast.Node, v types.Object, before token.Pos) bool {
	found := false
	ast.Inspect(root, func(n ast.Node) bool {
		if n == nil || found {
			return false
		}
		if b, ok := n.(*ast.BinaryExpr); ok && (b.Op == token.NEQ || b.Op == token.EQL) && b.Pos() < before {
			if id, ok := unparen(b.X).(*ast.Ident); ok && info.Uses[id] == v {
				if y, ok := unparen(b.Y).(*ast.Ident); ok && y.Name == "nil" {
					found = true
				}
			}
		}
		return true
	})
	return found
}

// derefUses: selector / star / index uses of v inside root that are not protected by an
// enclosing `v != nil` (if-condition or left operand of &&).
func derefUses(info *types.Info, root ast.Node, v types.Object) []token.Pos {
	var out []token.Pos
	walkWithStack(root, func(n ast.Node, stack []ast.Node) bool {
		var id *ast.Ident
		switch x := n.(type) {
		case *ast.SelectorExpr:
			id, _ = unparen(x.X).(*ast.Ident)
		case *ast.StarExpr:
			id, _ = unparen(x.X).(*ast.Ident)
		}
		if id == nil || info.Uses[id] != v {
			return true
		}
		for i := len(stack) - 1; i >= 0; i-- {
			switch p := stack[i].(type) {
			case *ast.IfStmt:
				// protected when we are inside the body (not the else branch) of `if v != nil`
				if p.Cond != nil && mentionsNonNil(info, p.Cond, v) && n.Pos() >= p.Body.Pos() && n.End() <= p.Body.End() {
					return true
				}
			case *ast.BinaryExpr:
				if p.Op == token.LAND && n.Pos() >= p.Y.Pos() && mentionsNonNil(info, p.X, v) {
					return true
				}
			}
		}
		out = append(out, n.Pos())
		return true
	})
	return out
}

// scanErrDeref flags `x, err := f(); if err != nil { … x.f … }`.
func (pr *Prog) scanErrDeref(fn *FuncNode, body ast.Node, ss *siteSet) {
	info := fn.Pkg.TypesInfo
	r := pr.renderer(fn)
	check := func(as *ast.AssignStmt, ifs *ast.IfStmt) {
		if as == nil || ifs == nil || len(as.Rhs) != 1 || len(as.Lhs) < 2 {
			return
		}
		call, ok := unparen(as.Rhs[0]).(*ast.CallExpr)
		if !ok {
			return
		}
		var errObj types.Object
		var ptrs []types.Object
		for _, l := range as.Lhs {
			id, ok := l.(*ast.Ident)
			if !ok || id.Name == "_" {
				continue
			}
			obj := info.Defs[id]
			if obj == nil {
				obj = info.Uses[id]
			}
			if obj == nil {
				continue
			}
			if isErrorLike(obj.Type()) {
				errObj = obj
			} else if isPointerish(obj.Type()) {
				ptrs = append(ptrs, obj)
			}
		}
		if errObj == nil || len(ptrs) == 0 {
			return
		}
		// condition must be exactly / contain `err != nil`
		if !mentionsNonNil(info, ifs.Cond, errObj) {
			return
		}
		for _, p := range ptrs {
			uses := derefUses(info, ifs.Body, p)
			// uses inside the condition itself (`err != nil && x.f`)
			uses = append(uses, derefUses(info, ifs.Cond, p)...)
			for _, u := range uses {
				ss.add(fn, "deref-after-error", p.Name()+" after "+clip(r.expr(call.Fun), 60)+" returned an error", u)
			}
		}
	}
	ast.Inspect(body, func(n ast.Node) bool {
		switch x := n.(type) {
		case *ast.IfStmt:
			if as, ok := x.Init.(*ast.AssignStmt); ok {
				check(as, x)
			}
		case *ast.BlockStmt:
			for i := 0; i+1 < len(x.List); i++ {
				if as, ok := x.List[i].(*ast.AssignStmt); ok {
					if ifs, ok := x.List[i+1].(*ast.IfStmt); ok && ifs.Init == nil {
						check(as, ifs)
					}
				}
			}
		case *ast.CaseClause:
			for i := 0; i+1 < len(x.Body); i++ {
				if as, ok := x.Body[i].(*ast.AssignStmt); ok {
					if ifs, ok := x.Body[i+1].(*ast.IfStmt); ok && ifs.Init == nil {
						check(as, ifs)
					}
				}
			}
		}
		return true
	})
}

// mayReturnNil: some module implementation of the callee has `return nil` in result position i
// and the callee has no error-like result (whose check conventionally implies non-nil).
func (pr *Prog) mayReturnNil(info *types.Info, call *ast.CallExpr, i int) bool {
	var targets []*FuncNode
	if callee := calleeOf(info, call); callee != nil {
		sig := callee.Type().(*types.Signature)
		for k := 0; k < sig.Results().Len(); k++ {
			if isErrorLike(sig.Results().At(k).Type()) {
				return false
			}
		}
		if sel, ok := unparen(call.Fun).(*ast.SelectorExpr); ok {
			if s := info.Selections[sel]; s != nil && isInterfaceLike(s.Recv()) {
				for _, tn := range pr.implementers(ifaceMethodNames(s.Recv())) {
					if t := pr.methodOn(tn, callee.Name()); t != nil {
						targets = append(targets, t)
					}
				}
			}
		}
		if t := pr.nodeOf(callee); t != nil {
			targets = append(targets, t)
		}
	}
	for _, t := range targets {
		if t.Decl == nil {
			continue
		}
		found := false
		ast.Inspect(t.Decl.Body, func(n ast.Node) bool {
			if _, ok := n.(*ast.FuncLit); ok {
				return false
			}
			if ret, ok := n.(*ast.ReturnStmt); ok && i < len(ret.Results) {
				if id, ok := unparen(ret.Results[i]).(*ast.Ident); ok && id.Name == "nil" {
					found = true
				}
			}
			return !found
		})
		if found {
			return true
		}
	}
	return false
}

// scanMaybeNil flags `x := f()` (f a module function that can return nil, no error result)
// followed by a dereference of x with no nil comparison of x earlier in the function.
func (pr *Prog) scanMaybeNil(fn *FuncNode, body ast.Node, ss *siteSet) {
	info := fn.Pkg.TypesInfo
	r := pr.renderer(fn)
	ast.Inspect(body, func(n ast.Node) bool {
		as, ok := n.(*ast.AssignStmt)
		if !ok || len(as.Rhs) != 1 {
			return true
		}
		call, ok := unparen(as.Rhs[0]).(*ast.CallExpr)
		if !ok {
			return true
		}
		for i, l := range as.Lhs {
			id, ok := l.(*ast.Ident)
			if !ok || id.Name == "_" {
				continue
			}
			obj := info.Defs[id]
			if obj == nil {
				obj = info.Uses[id]
			}
			if obj == nil || !isPointerish(obj.Type()) {
				continue
			}
			if !pr.mayReturnNil(info, call, i) {
				continue
			}
			for _, u := range derefUses(info, body, obj) {
				if u < as.End() {
					continue
				}
				if mentionsNilCmp(info, body, obj, u) {
					continue
				}
				ss.add(fn, "maybe-nil-deref", obj.Name()+" := "+clip(r.expr(call.Fun), 60)+"(…) may be nil", u)
				break
			}
		}
		return true
	})
}
