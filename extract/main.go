// rigoextract re-derives from the working tree of rigo-go the facts the Lean proofs of /verif
// rely on (DESIGN.md §4.2), compares them with the reviewed expectations in /verif/expect and
// writes them as Lean definitions.
//
//	rigoextract -repo /repo -json out.json -lean /verif/lean/Rigo/Generated/Facts.lean
//	rigoextract -repo /repo -v                  print the verdict of every fact group
//	rigoextract -repo /repo -update-expect      after a REVIEWED code change: rewrites expect/*.json from
//	                                            the tree, keeps notes/classes of surviving entries, marks
//	                                            new inventory sites UNREVIEWED (which fails the check
//	                                            until a class is written next to them)
//	rigoextract -repo /repo -why 'stake:(*StakeCtrler).Commit'
//	                                            call path from each entry-point set to matching functions
//	rigoextract -repo /repo -json out.json -funcs /verif/lean/Rigo/Generated/Funcs.lean [-funcscheck <file>]
//	                                            additionally translates the whitelisted pure functions of
//	                                            expect/funcs.json to Lean (translate*.go, docs/TRANSLATOR.md) and
//	                                            adds the check groups `funcs` and `funcs_<owner>`
//
// Groups: rlp_fields, tx_dispatch, merge_fields, commit_order (+durable_outside_commit),
// nondeterminism, panic_sites, constants, ledger_views (views.go), persist_sites (persist.go). Sites are keyed by (package, function, kind, detail) and
// expressions are rendered independently of import aliases and of the receiver's name ("self"),
// so moving code, renaming a receiver or an import alias is harmless; renaming a function is not.
package main

import (
	"flag"
	"fmt"
	"os"
	"path/filepath"
	"sort"
	"strings"
	"time"
)

func defaultExpectDir() string {
	if wd, err := os.Getwd(); err == nil {
		d := filepath.Join(filepath.Dir(wd), "expect")
		if st, err := os.Stat(d); err == nil && st.IsDir() && filepath.Base(wd) == "extract" {
			return d
		}
	}
	if exe, err := os.Executable(); err == nil {
		d := filepath.Join(filepath.Dir(filepath.Dir(exe)), "expect") // <verif>/.build/rigoextract
		if st, err := os.Stat(d); err == nil && st.IsDir() {
			return d
		}
	}
	return "/verif/expect"
}

func countKinds(sites []Site) map[string]int {
	m := map[string]int{}
	for _, s := range sites {
		m[s.Kind] += s.Count
	}
	return m
}

func kindSummary(m map[string]int, order []string) string {
	var parts []string
	seen := map[string]bool{}
	for _, k := range order {
		parts = append(parts, fmt.Sprintf("%d %s", m[k], k))
		seen[k] = true
	}
	var rest []string
	for k := range m {
		if !seen[k] {
			rest = append(rest, k)
		}
	}
	sort.Strings(rest)
	for _, k := range rest {
		parts = append(parts, fmt.Sprintf("%d %s", m[k], k))
	}
	return strings.Join(parts, ", ")
}

func verdict(problems []string) string {
	if len(problems) == 0 {
		return "all matched"
	}
	return fmt.Sprintf("%d PROBLEM(S)", len(problems))
}

func main() {
	repo := flag.String("repo", "/repo", "working tree of rigo-go")
	jsonOut := flag.String("json", "", "write checks+facts as JSON to this file")
	leanOut := flag.String("lean", "", "write Lean definitions to this file (only when changed)")
	funcsCheckOut := flag.String("funcscheck", "", "with -funcs: write a Lean file that #checks the equality theorem of every whitelisted function (only when changed)")
	funcsOut := flag.String("funcs", "", "translate the whitelisted functions of expect/funcs.json to this Lean file (only when changed); adds the `funcs` check group")
	expectDir := flag.String("expect", "", "directory of expectation files (default <verif>/expect)")
	update := flag.Bool("update-expect", false, "regenerate the expectation files from the current tree (keeps notes/classes)")
	verbose := flag.Bool("v", false, "print the checks to stderr")
	dumpViews := flag.Bool("dump-views", false, "debug: print the ledger_views inventory to stdout")
	why := flag.String("why", "", "debug: print a call path from each entry-point set to the functions whose pkg:name contains this string")
	flag.Parse()
	if *expectDir == "" {
		*expectDir = defaultExpectDir()
	}
	t0 := time.Now()
	pr, err := loadProg(*repo)
	if err != nil {
		fmt.Fprintln(os.Stderr, "rigoextract:", err)
		os.Exit(1)
	}
	tLoad := time.Since(t0)

	if *why != "" {
		for _, set := range [][]string{{"InitChain", "BeginBlock", "DeliverTx", "EndBlock", "Commit"}, {"CheckTx", "DeliverTx", "Query"},
			{"BeginBlock", "DeliverTx", "EndBlock", "CheckTx", "Query"}} {
			roots, _ := pr.roots(set...)
			fmt.Println("from", set)
			for _, l := range pr.why(roots, *why) {
				fmt.Println("   ", l)
			}
		}
		return
	}
	checks := map[string]Check{}
	facts := M{}

	// 1. rlp_fields
	rlp, hard := pr.factsRLP()
	facts["rlp_fields"] = rlp
	c := checkStructured(*expectDir, "rlp_fields", rlp, hard, *update,
		"C03: field list/order/types of trxRPL, the conversion applied to every field in (*Trx).EncodeRLP, the pre-image framing and every payload's RLP form. preimage_injective / payload_injective / cast_injective_* are proved over exactly these lists.")
	nPayload := 0
	if l, ok := rlp["payload_types"].([]interface{}); ok {
		nPayload = len(l)
	}
	nFields := 0
	if l, ok := rlp["trxRPL"].([]interface{}); ok {
		nFields = len(l)
	}
	c.Summary = fmt.Sprintf("%d trxRPL fields, %d payload encoders; %s", nFields, nPayload, verdict(c.Problems))
	checks["rlp_fields"] = c

	// 2. tx_dispatch
	disp, hard := pr.factsDispatch()
	facts["tx_dispatch"] = disp
	c = checkStructured(*expectDir, "tx_dispatch", disp, hard, *update,
		"C03/C05: transaction type codes, the validateTrx/runTrx dispatch tables, the validation order and the signature check under ctx.Exec.")
	nT := 0
	if l, ok := disp["trx_types"].([]interface{}); ok {
		nT = len(l)
	}
	c.Summary = fmt.Sprintf("%d transaction types, validateTrx/runTrx tables, VerifyTrxRLP under ctx.Exec; %s", nT, verdict(c.Problems))
	checks["tx_dispatch"] = c

	// 3. merge_fields
	merge, hard := pr.factsMerge()
	facts["merge_fields"] = merge
	c = checkStructured(*expectDir, "merge_fields", merge, hard, *update,
		"C15: fields of GovParams, the zero-test MergeGovParams applies to each, and field coverage of toProto/fromProto/MarshalJSON/UnmarshalJSON. merge_unset_keeps is proved over this list.")
	nG := 0
	if l, ok := merge["GovParams"].([]interface{}); ok {
		nG = len(l)
	}
	nM := 0
	if l, ok := merge["MergeGovParams"].([]interface{}); ok {
		nM = len(l)
	}
	c.Summary = fmt.Sprintf("%d GovParams fields, %d merged, codecs cover all; %s", nG, nM, verdict(c.Problems))
	checks["merge_fields"] = c

	// 4. commit_order (+ durable writes outside Commit)
	commit, hard, flat := pr.factsCommit()
	roots, missing := pr.roots("BeginBlock", "DeliverTx", "EndBlock", "CheckTx", "Query")
	for _, m := range missing {
		hard = append(hard, "entry point not found: "+m)
	}
	reachNC := pr.reachable(roots)
	durable := pr.scanDurable(reachNC)
	commit["durable_outside_commit"] = durable
	facts["commit_order"] = commit
	commitNoInv := M{}
	for k, v := range commit {
		if k != "durable_outside_commit" {
			commitNoInv[k] = v
		}
	}
	c = checkStructured(*expectDir, "commit_order", commitNoInv, hard, *update,
		"C08: the ordered durable writes of RigoApp.Commit and of each controller's Commit (CommitLog.lean's w1..wn), incl. the verif hook labels; crash_safe_* are stated over this order.")
	dp, _ := checkSites(*expectDir, "durable_outside_commit", durable, *update,
		"C08: durable-write call sites reachable from BeginBlock/DeliverTx/EndBlock/CheckTx/Query. Expected: none (no_durable_write_outside_commit).")
	for _, p := range dp {
		c.Problems = append(c.Problems, "durable_outside_commit: "+p)
	}
	c.OK = len(c.Problems) == 0
	c.Summary = fmt.Sprintf("%d durable writes in commit order, %d durable-write sites outside Commit (%d functions scanned); %s",
		len(flat), len(durable), len(reachNC), verdict(c.Problems))
	checks["commit_order"] = c

	// 5. nondeterminism
	roots, missing = pr.roots("InitChain", "BeginBlock", "DeliverTx", "EndBlock", "Commit")
	reachCons := pr.reachable(roots)
	nondet := pr.scanNondet(reachCons)
	facts["nondeterminism"] = M{"sites": nondet, "functions_scanned": len(reachCons)}
	np, ncl := checkSites(*expectDir, "nondeterminism", nondet, *update,
		"C01: every source of nondeterminism in module functions reachable from InitChain/BeginBlock/DeliverTx/EndBlock/Commit. class = order-irrelevant:<lemma or reason> | deterministic:<reason> | non-consensus:<reason>.")
	for _, m := range missing {
		np = append(np, "entry point not found: "+m)
	}
	k := countKinds(nondet)
	checks["nondeterminism"] = Check{OK: len(np) == 0, Problems: nonNil(np),
		Summary: fmt.Sprintf("%s in %d functions [%s]; %s", kindSummary(k, []string{"map-range", "call", "sort", "go-stmt", "select-stmt", "fmt-%p"}),
			len(reachCons), classSummary(ncl), verdict(np))}

	// 6. panic_sites
	roots, missing = pr.roots("CheckTx", "DeliverTx", "Query")
	reachIn := pr.reachable(roots)
	panics, auto := pr.scanPanics(reachIn)
	facts["panic_sites"] = M{"sites": panics, "functions_scanned": len(reachIn), "loop_guarded_index_sites_skipped": auto}
	pp, pcl := checkSites(*expectDir, "panic_sites", panics, *update,
		"C09: partial operations in module functions reachable from CheckTx/DeliverTx/Query. class = guarded:<by what> | unreachable:<why> | known:<finding> | assumed:<hypothesis>.")
	for _, m := range missing {
		pp = append(pp, "entry point not found: "+m)
	}
	k = countKinds(panics)
	checks["panic_sites"] = Check{OK: len(pp) == 0, Problems: nonNil(pp),
		Summary: fmt.Sprintf("%s (+%d loop-bounded index sites skipped) in %d functions [%s]; %s",
			kindSummary(k, []string{"panic", "type-assert", "index", "index-const", "slice", "slice-const", "div", "must-call", "deref-after-error", "maybe-nil-deref"}),
			auto, len(reachIn), classSummary(pcl), verdict(pp))}

	// 7. constants
	consts, hard := pr.factsConstants()
	facts["constants"] = consts
	c = checkStructured(*expectDir, "constants", consts, hard, *update,
		"Constants the Lean models use (Generated/Facts.lean).")
	c.Summary = fmt.Sprintf("%d constants; %s", len(consts), verdict(c.Problems))
	checks["constants"] = c

	// 7b. ledger_views: which overlay of a ledger every call site uses, and in which execution context
	views, vmissing := pr.scanViews()
	var vhard []string
	for _, m := range vmissing {
		vhard = append(vhard, "entry point not found: "+m)
	}
	c = checkViews(*expectDir, views, vhard, *update)
	vsum, vstats := viewsSummary(views)
	c.Summary = vsum + "; " + verdict(c.Problems)
	checks["ledger_views"] = c
	facts["ledger_views"] = M{"sites": views, "summary": vstats}
	if *dumpViews {
		for _, s := range views {
			fmt.Printf("%-52s %-34s %-28s %-20s %-44s %-18s x%d  %s\n", s.Func, s.Recv, s.Method, s.View, s.Context, s.Var, s.Count, s.Rule)
		}
	}

	// 7c. persist_sites: writes to durable meta stores outside the ledgers' Commit, with guard and value
	persist := pr.scanPersist()
	c = checkPersist(*expectDir, persist, *update)
	{
		guarded := 0
		for _, s := range persist {
			if s.Guard != "" {
				guarded += s.Count
			}
		}
		c.Summary = fmt.Sprintf("%d durable meta-store write sites (%d guarded); %s", len(persist), guarded, verdict(c.Problems))
	}
	checks["persist_sites"] = c
	facts["persist_sites"] = M{"sites": persist}
	if *dumpViews {
		for _, s := range persist {
			fmt.Printf("PERSIST %s | %s | %s | [%s] | (%s) | {%s}\n", s.Func, s.Call, s.API, s.Guard, s.Value, strings.Join(s.Defs, "; "))
		}
	}

	// 8. funcs (only with -funcs): Go -> Lean translation of the whitelisted pure functions
	funcsText, funcsCheckText := "", ""
	if *funcsOut != "" {
		text, ff, fp, byOwner, checkText := pr.translateFuncsFull(*expectDir)
		funcsText = text
		funcsCheckText = checkText
		facts["funcs"] = ff
		checks["funcs"] = Check{OK: len(fp) == 0, Problems: nonNil(fp),
			Summary: fmt.Sprintf("%v of %v whitelisted functions translated to Lean; %s", ff["translated"], ff["whitelisted"], verdict(fp))}
		for owner, ps := range byOwner { // one group per owning property: funcs_C11, ...
			checks["funcs_"+owner] = Check{OK: len(ps) == 0, Problems: nonNil(ps),
				Summary: fmt.Sprintf("whitelisted functions owned by %s; %s", owner, verdict(ps))}
		}
	}

	for g, c := range checks {
		c.Problems = nonNil(c.Problems)
		checks[g] = c
	}
	facts["_meta"] = M{"module": pr.ModPath, "packages": len(pr.Pkgs), "functions": len(pr.Funcs),
		"reachable_consensus": len(reachCons), "reachable_input": len(reachIn), "reachable_noncommit": len(reachNC)}

	if *jsonOut != "" {
		if err := writeJSON(*jsonOut, M{"checks": checks, "facts": normalize(facts)}); err != nil {
			fmt.Fprintln(os.Stderr, "rigoextract:", err)
			os.Exit(1)
		}
	}
	if *leanOut != "" {
		if err := writeIfChanged(*leanOut, []byte(leanFile(pr, facts, flat, nondet, panics, views, persist))); err != nil {
			fmt.Fprintln(os.Stderr, "rigoextract:", err)
			os.Exit(1)
		}
	}
	if *funcsOut != "" {
		if err := writeIfChanged(*funcsOut, []byte(funcsText)); err != nil {
			fmt.Fprintln(os.Stderr, "rigoextract:", err)
			os.Exit(1)
		}
		if *funcsCheckOut != "" {
			if err := writeIfChanged(*funcsCheckOut, []byte(funcsCheckText)); err != nil {
				fmt.Fprintln(os.Stderr, "rigoextract:", err)
				os.Exit(1)
			}
		}
	}
	if *verbose || *jsonOut == "" {
		var gs []string
		for g := range checks {
			gs = append(gs, g)
		}
		sort.Strings(gs)
		for _, g := range gs {
			c := checks[g]
			st := "ok  "
			if !c.OK {
				st = "FAIL"
			}
			fmt.Fprintf(os.Stderr, "%s %-15s %s\n", st, g, c.Summary)
			for _, p := range c.Problems {
				fmt.Fprintf(os.Stderr, "       - %s\n", p)
			}
		}
		fmt.Fprintf(os.Stderr, "load %.1fs, total %.1fs\n", tLoad.Seconds(), time.Since(t0).Seconds())
	}
}

func nonNil(s []string) []string {
	if s == nil {
		return []string{}
	}
	return s
}
