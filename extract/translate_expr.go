package main

// Expression translation (Go expressions -> Lean terms; partial operations as nested actions `(← …)`).

import (
	"fmt"
	"go/ast"
	"go/constant"
	"go/token"
	"go/types"
	"strings"
)

var uint256Setter = map[string]bool{"Add": true, "Sub": true, "Mul": true, "Div": true, "Mod": true, "Set": true, "SetUint64": true}
var uint256Pure = map[string]bool{"Cmp": true, "Lt": true, "Gt": true, "Eq": true, "IsZero": true, "Sign": true, "Uint64": true, "IsUint64": true, "Clone": true}

func monadic(s string) bool { return strings.Contains(s, "←") }

// coerce e to an Option (wantOpt) or to a plain value
func (f *trFunc) coerce(e ast.Expr, wantOpt bool) string { return f.coerceT(e, wantOpt, nil) }

func (f *trFunc) coerceT(e ast.Expr, wantOpt bool, want types.Type) string {
	if f.isNil(e) {
		t := want
		if t == nil {
			t = f.typeOf(e)
		}
		if t == nil {
			f.problem(e, "untyped nil")
			return "none"
		}
		if isStructPtr(t) && !wantOpt {
			f.problem(e, "nil for a pointer that is treated as never nil")
			return "none"
		}
		z, err := f.tr.zeroValue(t)
		if err != nil {
			f.problem(e, "%v", err)
			return "none"
		}
		return z
	}
	s := f.expr(e)
	t := f.typeOf(e)
	if t != nil && isUint256(t) {
		isOpt := false
		if sel, ok := ast.Unparen(e).(*ast.SelectorExpr); ok {
			isOpt = f.isOptionalField(sel)
		}
		if wantOpt && !isOpt {
			return "(some " + s + ")"
		}
		if !wantOpt && isOpt {
			return "(← gderef " + s + ")"
		}
		return s
	}
	if t != nil && isStructPtr(t) {
		isOpt := f.isOptExpr(e)
		if wantOpt && !isOpt {
			return "(some " + s + ")"
		}
		if !wantOpt && isOpt {
			return "(← gderef " + s + ")"
		}
	}
	return s
}

func (f *trFunc) constExpr(e ast.Expr, tv types.TypeAndValue) (string, bool) {
	if tv.Value == nil {
		return "", false
	}
	switch tv.Value.Kind() {
	case constant.Int:
		v := tv.Value.ExactString()
		k := intKindOf(tv.Type)
		if k == notInt {
			return "", false
		}
		if k == sInt {
			return "(" + v + " : Int)", true
		}
		return "(" + v + " : Nat)", true
	case constant.Bool:
		if constant.BoolVal(tv.Value) {
			return "true", true
		}
		return "false", true
	case constant.String:
		return leanStr(constant.StringVal(tv.Value)), true
	}
	return "", false
}

func (f *trFunc) fieldName(sel *ast.SelectorExpr, at ast.Node) string {
	if s := f.info.Selections[sel]; s != nil && len(s.Index()) > 1 {
		// promoted field of embedded structs: the path of mapped field names
		n := structOf(f.typeOf(sel.X))
		var path []string
		for _, idx := range s.Index() {
			if n == nil {
				f.problem(at, "promoted field `%s`", f.src(sel))
				return "unsupported"
			}
			k := f.tr.typeKey(n)
			ts, ok := f.tr.exp.Types[k]
			if !ok {
				f.problem(at, "struct type %s has no entry in funcs.json/types", k)
				return "unsupported"
			}
			f.tr.usedTy[k] = true
			fld := n.Underlying().(*types.Struct).Field(idx)
			fl, ok := ts.Fields[fld.Name()]
			if !ok {
				f.problem(at, "field %s.%s is not mapped in funcs.json/types", k, fld.Name())
				return "unsupported"
			}
			path = append(path, fl)
			n = structOf(fld.Type())
		}
		return strings.Join(path, ".")
	}
	if structOf(f.typeOf(sel.X)) == nil {
		f.problem(at, "field `%s` of a non-struct", f.src(sel))
		return "unsupported"
	}
	k, ts, ok := f.specOfStruct(sel.X)
	if !ok {
		f.problem(at, "struct type %s has no entry in funcs.json/types", k)
		return "unsupported"
	}
	fl, ok := ts.Fields[sel.Sel.Name]
	if !ok {
		f.problem(at, "field %s.%s is not mapped in funcs.json/types", k, sel.Sel.Name)
		return "unsupported"
	}
	return fl
}

// wrapOf: sel selects a pointer field held as one component of the pointed-to structure
func (f *trFunc) wrapOf(sel *ast.SelectorExpr) *wrapSpec {
	if s := f.info.Selections[sel]; s == nil || s.Kind() != types.FieldVal || len(s.Index()) != 1 {
		return nil
	}
	_, ts, ok := f.specOfStruct(sel.X)
	if !ok {
		return nil
	}
	if w, ok := ts.Wrap[sel.Sel.Name]; ok {
		return &w
	}
	return nil
}

func (f *trFunc) expr(e ast.Expr) string {
	if tv, ok := f.info.Types[e]; ok {
		if s, ok := f.constExpr(e, tv); ok {
			return s
		}
	}
	switch x := e.(type) {
	case *ast.ParenExpr:
		return f.expr(x.X)
	case *ast.Ident:
		if f.isNil(x) {
			return f.coerceT(x, true, nil)
		}
		o := f.info.Uses[x]
		if o == nil {
			o = f.info.Defs[x]
		}
		switch v := o.(type) {
		case *types.Var:
			if v.Pkg() != nil && v.Parent() == v.Pkg().Scope() {
				return f.globalRef(v, x)
			}
			if f.tr.isOpaqueIface(v.Type()) {
				f.problem(x, "`%s` has the interface type %s, which has no Lean counterpart (only calls listed as oracles may use it)", x.Name, f.tr.pr.typeStr(v.Type()))
				return "unsupported"
			}
			if f.funcLocals[v] != nil {
				f.problem(x, "function variable `%s` is used as a value", x.Name)
				return "unsupported"
			}
			return f.nameOf(v)
		}
		f.problem(x, "identifier `%s`", x.Name)
		return "unsupported"
	case *ast.BasicLit:
		f.problem(x, "literal `%s`", x.Value)
		return "unsupported"
	case *ast.SelectorExpr:
		if _, isPkg := f.info.Uses[identOf(x.X)].(*types.PkgName); isPkg {
			if v, ok := f.info.Uses[x.Sel].(*types.Var); ok {
				return f.globalRef(v, x)
			}
			f.problem(x, "`%s`", f.src(x))
			return "unsupported"
		}
		if s := f.info.Selections[x]; !f.synth[x] && (s == nil || s.Kind() != types.FieldVal) {
			f.problem(x, "method value `%s`", f.src(x))
			return "unsupported"
		}
		fl := f.fieldName(x, x)
		base := f.coerce(x.X, false)
		r := "(" + base + ")." + fl
		if isSimple(base) {
			r = base + "." + fl
		}
		if !f.synth[x] {
			if w := f.wrapOf(x); w != nil {
				return "(" + w.Mk + " " + r + ")"
			}
		}
		return r
	case *ast.UnaryExpr:
		switch x.Op {
		case token.SUB:
			if intKindOf(f.typeOf(x)) == sInt {
				f.arith++
				return "(-" + f.expr(x.X) + ")"
			}
		case token.ADD:
			return f.expr(x.X)
		case token.NOT:
			return "(!" + f.expr(x.X) + ")"
		case token.AND:
			if cl, ok := ast.Unparen(x.X).(*ast.CompositeLit); ok {
				return f.composite(cl)
			}
		}
		f.problem(x, "unary `%s`", f.src(x))
		return "unsupported"
	case *ast.BinaryExpr:
		switch x.Op {
		case token.LAND, token.LOR, token.EQL, token.NEQ, token.LSS, token.LEQ, token.GTR, token.GEQ:
			return "(decide " + f.cond(x) + ")"
		case token.ADD, token.SUB, token.MUL, token.QUO, token.REM:
			return f.arithOp(x.Op, f.typeOf(x), f.expr(x.X), f.expr(x.Y), x)
		}
		f.problem(x, "operator %s", x.Op)
		return "unsupported"
	case *ast.CompositeLit:
		return f.composite(x)
	case *ast.IndexExpr:
		t := f.typeOf(x.X)
		if f.inLedger() && isLedgerMap(t) {
			return "(" + f.arg(x.X) + "[" + f.expr(x.Index) + "]?)"
		}
		if m := mapOf(t); m != nil {
			if !isStringType(m.Key()) {
				f.problem(x, "index into %s", f.tr.pr.typeStr(t))
				return "unsupported"
			}
			g := "(mapGet " + f.arg(x.X) + " " + f.arg(x.Index) + ")"
			if isStructPtr(m.Elem()) {
				return g // an Option: nil when the key is missing
			}
			z, err := f.tr.zeroValue(m.Elem())
			if err != nil {
				f.problem(x, "%v", err)
				z = "default"
			}
			return "(" + g + ".getD " + z + ")"
		}
		if _, ok := t.Underlying().(*types.Slice); !ok || isByteSlice(t) {
			f.problem(x, "index into %s", f.tr.pr.typeStr(t))
			return "unsupported"
		}
		return "(← gidx " + f.arg(x.X) + " " + f.intArg(x.Index) + ")"
	case *ast.SliceExpr:
		t := f.typeOf(x.X)
		if f.inLedger() && isKeyArray(t) && x.Low == nil && x.High == nil && !x.Slice3 {
			return f.expr(x.X) // k[:] of a 32-byte key: the key
		}
		if _, ok := t.Underlying().(*types.Slice); !ok || isByteSlice(t) || x.Slice3 {
			f.problem(x, "slice expression on %s", f.tr.pr.typeStr(t))
			return "unsupported"
		}
		xs := f.arg(x.X)
		lo, hi := "(0 : Int)", "("+xs+".length : Int)"
		if x.Low != nil {
			lo = f.intArg(x.Low)
		}
		if x.High != nil {
			hi = f.intArg(x.High)
		}
		return "(← gslice " + xs + " " + lo + " " + hi + ")"
	case *ast.CallExpr:
		return f.call(x)
	case *ast.TypeAssertExpr:
		return "(← gassert " + f.typeAssert(x) + ")"
	}
	f.problem(e, "expression `%s` (%T)", f.src(e), e)
	return "unsupported"
}

func identOf(e ast.Expr) *ast.Ident {
	id, _ := ast.Unparen(e).(*ast.Ident)
	return id
}

func isSimple(s string) bool {
	for _, c := range s {
		if !(c == '_' || c == '.' || c >= '0' && c <= '9' || c >= 'a' && c <= 'z' || c >= 'A' && c <= 'Z') {
			return false
		}
	}
	return s != ""
}

// arg: an expression in argument position (parenthesised unless atomic)
func (f *trFunc) arg(e ast.Expr) string {
	s := f.expr(e)
	if isSimple(s) || strings.HasPrefix(s, "(") && balanced(s) || strings.HasPrefix(s, "\"") || strings.HasPrefix(s, "[") {
		return s
	}
	return "(" + s + ")"
}

func paren(s string) string {
	if isSimple(s) || strings.HasPrefix(s, "(") && balanced(s) || strings.HasPrefix(s, "\"") || strings.HasPrefix(s, "[") {
		return s
	}
	return "(" + s + ")"
}

// balanced: s starts with "(" and that parenthesis closes at the very end
func balanced(s string) bool {
	d := 0
	for i, c := range s {
		switch c {
		case '(':
			d++
		case ')':
			d--
			if d == 0 && i != len(s)-1 {
				return false
			}
		}
	}
	return d == 0
}

// intArg: an index / bound expression as an Int
func (f *trFunc) intArg(e ast.Expr) string {
	s := f.arg(e)
	switch intKindOf(f.typeOf(e)) {
	case sInt:
		return s
	case uInt64, uIntSmall:
		return "(Int.ofNat " + s + ")"
	}
	f.problem(e, "non-integer index")
	return s
}

func (f *trFunc) globalRef(v *types.Var, at ast.Node) string {
	if isErrorType(v.Type()) {
		return "(some " + leanStr(v.Name()) + ")"
	}
	n, err := f.tr.global(f, v)
	if err != nil {
		f.problem(at, "%v", err)
		return "unsupported"
	}
	return n
}

// arithOp: + - * / % at Go type t
func (f *trFunc) arithOp(op token.Token, t types.Type, a, b string, at ast.Node) string {
	a, b = paren(a), paren(b)
	switch intKindOf(t) {
	case sInt:
		if f.spec != nil && f.spec.WrapArith && (op == token.ADD || op == token.SUB || op == token.MUL) {
			w := ""
			switch sizeOf(t) {
			case 8:
				w = "wrapI64"
			case 4:
				w = "wrapI32"
			}
			if w != "" {
				sym := map[token.Token]string{token.ADD: "+", token.SUB: "-", token.MUL: "*"}[op]
				return "(" + w + " (" + a + " " + sym + " " + b + "))"
			}
		}
		switch op {
		case token.ADD:
			f.arith++
			return "(" + a + " + " + b + ")"
		case token.SUB:
			f.arith++
			return "(" + a + " - " + b + ")"
		case token.MUL:
			f.arith++
			return "(" + a + " * " + b + ")"
		case token.QUO:
			return "(← gdiv " + a + " " + b + ")"
		case token.REM:
			return "(← gmod " + a + " " + b + ")"
		}
	case uInt64:
		switch op {
		case token.ADD:
			return "((" + a + " + " + b + ") % two64)"
		case token.SUB:
			return "((" + a + " + two64 - " + b + " % two64) % two64)"
		case token.MUL:
			return "((" + a + " * " + b + ") % two64)"
		case token.QUO:
			return "(← gdivN " + a + " " + b + ")"
		case token.REM:
			return "(← gmodN " + a + " " + b + ")"
		}
	}
	f.problem(at, "arithmetic %s at type %s", op, f.tr.pr.typeStr(t))
	return "unsupported"
}

// cond: a boolean expression as a decidable Prop
func (f *trFunc) cond(e ast.Expr) string {
	e = ast.Unparen(e)
	if tv, ok := f.info.Types[e]; ok && tv.Value != nil && tv.Value.Kind() == constant.Bool {
		if constant.BoolVal(tv.Value) {
			return "True"
		}
		return "False"
	}
	switch x := e.(type) {
	case *ast.UnaryExpr:
		if x.Op == token.NOT {
			return "(¬ " + f.cond(x.X) + ")"
		}
	case *ast.BinaryExpr:
		switch x.Op {
		case token.LAND, token.LOR:
			a := f.cond(x.X)
			npre := len(f.pre)
			f.inShort++
			b := f.cond(x.Y)
			f.inShort--
			if len(f.pre) > npre {
				f.problem(x, "call with threaded state in a short-circuit operand")
			}
			if monadic(b) {
				if x.Op == token.LAND {
					return "((← (if " + a + " then (do pure (decide " + b + ")) else pure false)) = true)"
				}
				return "((← (if " + a + " then pure true else (do pure (decide " + b + ")))) = true)"
			}
			if x.Op == token.LAND {
				return "(" + a + " ∧ " + b + ")"
			}
			return "(" + a + " ∨ " + b + ")"
		case token.EQL, token.NEQ:
			if f.isNil(x.Y) || f.isNil(x.X) {
				o := x.X
				if f.isNil(x.X) {
					o = x.Y
				}
				return f.nilTest(o, x.Op == token.EQL, x)
			}
			lt := f.typeOf(x.X)
			if lt != nil {
				switch lt.Underlying().(type) {
				case *types.Basic:
				default:
					if !isErrorType(lt) && !(f.inLedger() && isKeyArray(lt)) { // errors: comparison of the labels
						f.problem(x, "comparison of %s values", f.tr.pr.typeStr(lt))
					}
				}
			}
			a, b := paren(f.expr(x.X)), paren(f.expr(x.Y))
			if x.Op == token.EQL {
				return "(" + a + " = " + b + ")"
			}
			return "(" + a + " ≠ " + b + ")"
		case token.LSS, token.LEQ, token.GTR, token.GEQ:
			lt := f.typeOf(x.X)
			if lt != nil && intKindOf(lt) == notInt {
				if b, ok := lt.Underlying().(*types.Basic); !ok || b.Info()&types.IsString == 0 {
					f.problem(x, "ordering of %s values", f.tr.pr.typeStr(lt))
				}
			}
			op := map[token.Token]string{token.LSS: "<", token.LEQ: "≤", token.GTR: ">", token.GEQ: "≥"}[x.Op]
			return "(" + paren(f.expr(x.X)) + " " + op + " " + paren(f.expr(x.Y)) + ")"
		}
	}
	return "(" + paren(f.expr(e)) + " = true)"
}

func (f *trFunc) nilTest(e ast.Expr, isNil bool, at ast.Node) string {
	t := f.typeOf(e)
	s := paren(f.expr(e))
	switch {
	case t == nil:
	case isUint256(t):
		if sel, ok := ast.Unparen(e).(*ast.SelectorExpr); ok && f.isOptionalField(sel) {
			if isNil {
				return "(" + s + ".isNone = true)"
			}
			return "(" + s + ".isSome = true)"
		}
		f.problem(at, "nil test of a *uint256.Int")
	case isErrorType(t), isStructPtr(t):
		if isStructPtr(t) && !f.isOptExpr(e) {
			if sel, ok := ast.Unparen(e).(*ast.SelectorExpr); ok && f.isPtrField(sel) {
				// a pointer field that funcs.json does not list as optional: never nil by convention
				f.neverNil++
				if isNil {
					return "False"
				}
				return "True"
			}
			f.problem(at, "nil test of `%s`, which is treated as never nil", f.src(e))
		}
		if isNil {
			return "(" + s + ".isNone = true)"
		}
		return "(" + s + ".isSome = true)"
	case isByteSlice(t) && f.lbytes[f.objOf(e)]:
		if isNil {
			return "(" + s + ".isNone = true)"
		}
		return "(" + s + ".isSome = true)"
	case isByteSlice(t):
		if isNil {
			return "(" + s + " = \"\")"
		}
		return "(" + s + " ≠ \"\")"
	default:
		if _, ok := t.Underlying().(*types.Slice); ok {
			if isNil {
				return "(" + s + ".isEmpty = true)"
			}
			return "(" + s + ".isEmpty = false)"
		}
	}
	f.problem(at, "nil test of `%s`", f.src(e))
	return "False"
}

func (f *trFunc) composite(cl *ast.CompositeLit) string {
	t := f.typeOf(cl)
	if t == nil {
		f.problem(cl, "composite literal")
		return "unsupported"
	}
	if sl, ok := t.Underlying().(*types.Slice); ok && !isByteSlice(t) {
		var es []string
		for _, e := range cl.Elts {
			if _, ok := e.(*ast.KeyValueExpr); ok {
				f.problem(cl, "keyed slice literal")
			}
			es = append(es, f.coerceT(e, false, sl.Elem()))
		}
		return "[" + strings.Join(es, ", ") + "]"
	}
	n := structOf(t)
	if n == nil {
		f.problem(cl, "composite literal of %s", f.tr.pr.typeStr(t))
		return "unsupported"
	}
	k := f.tr.typeKey(n)
	ts, ok := f.tr.exp.Types[k]
	if !ok {
		f.problem(cl, "struct type %s has no entry in funcs.json/types", k)
		return "unsupported"
	}
	f.tr.usedTy[k] = true
	st := n.Underlying().(*types.Struct)
	given := map[string]ast.Expr{}
	for i, e := range cl.Elts {
		if kv, ok := e.(*ast.KeyValueExpr); ok {
			given[kv.Key.(*ast.Ident).Name] = kv.Value
		} else if i < st.NumFields() {
			given[st.Field(i).Name()] = e
		}
	}
	var fs []string
	for i := 0; i < st.NumFields(); i++ {
		fld := st.Field(i)
		ln, mapped := ts.Fields[fld.Name()]
		v, has := given[fld.Name()]
		if !mapped {
			if has {
				f.problem(cl, "field %s.%s is not mapped in funcs.json/types", k, fld.Name())
			}
			continue
		}
		var val string
		optF := ts.isOptional(fld.Name())
		if has {
			if isUint256(fld.Type()) {
				if _, isCall := ast.Unparen(v).(*ast.CallExpr); !isCall && !f.freeU256 {
					f.problem(cl, "*uint256.Int field %s bound without a copy (aliasing)", fld.Name())
				}
			}
			val = f.coerceT(v, optF, fld.Type())
			if w, ok := ts.Wrap[fld.Name()]; ok {
				val = "(" + val + ")." + w.Proj
			}
		} else {
			z, err := f.tr.zeroValue(fld.Type())
			if w, isWrap := ts.Wrap[fld.Name()]; isWrap && !optF {
				// a nil pointer held as one component: the zero component, provided the object only
				// reaches code that never touches the field
				if zw, ok := f.nilWrapZero(cl, fld, w); ok {
					fs = append(fs, ln+" := "+zw)
					continue
				}
			}
			if optF {
				z, err = "none", nil
			} else if st := structOf(fld.Type()); st != nil && !isStructPtr(fld.Type()) {
				err = fmt.Errorf("no zero value") // a nested struct value left out
			}
			if err != nil || (isStructPtr(fld.Type()) && !optF) {
				f.problem(cl, "field %s: no zero value", fld.Name())
				z = "default"
			}
			val = z
		}
		fs = append(fs, ln+" := "+val)
	}
	return "({ " + strings.Join(fs, ", ") + " } : " + ts.Lean + ")"
}

// isFreshU256: new(uint256.Int) or the result of a call
func (f *trFunc) isFreshU256(e ast.Expr) bool {
	_, ok := ast.Unparen(e).(*ast.CallExpr)
	return ok
}

func isNewU256(f *trFunc, e ast.Expr) bool {
	c, ok := ast.Unparen(e).(*ast.CallExpr)
	if !ok || len(c.Args) != 1 {
		return false
	}
	id, ok := c.Fun.(*ast.Ident)
	if !ok || id.Name != "new" {
		return false
	}
	_, isB := f.info.Uses[id].(*types.Builtin)
	return isB
}

// uint256Call: z.Op(args); stmtLevel = the in-place form on a variable / field
func (f *trFunc) uint256Call(c *ast.CallExpr, sel *ast.SelectorExpr, stmtLevel bool) string {
	m := sel.Sel.Name
	a := func(i int) string {
		if i < len(c.Args) {
			return paren(f.coerceT(c.Args[i], false, nil))
		}
		f.problem(c, "uint256 %s: argument count", m)
		return "0"
	}
	if uint256Setter[m] {
		if !stmtLevel && !f.isFreshU256(sel.X) {
			f.problem(c, "in-place `%s` on `%s` inside an expression", m, f.src(sel.X))
		}
		if !isNewU256(f, sel.X) && f.isFreshU256(sel.X) {
			_ = f.expr(sel.X) // the receiver's old value is irrelevant for setters, but must be translatable
		}
		switch m {
		case "Add":
			return "(wadd " + a(0) + " " + a(1) + ")"
		case "Sub":
			return "(wsub " + a(0) + " " + a(1) + ")"
		case "Mul":
			return "(wmul " + a(0) + " " + a(1) + ")"
		case "Div":
			return "(" + a(0) + " / " + a(1) + ")"
		case "Mod":
			return "(" + a(0) + " % " + a(1) + ")"
		case "Set":
			return a(0)
		case "SetUint64":
			return a(0)
		}
	}
	r := paren(f.coerceT(sel.X, false, nil))
	switch m {
	case "Cmp":
		return "(cmp256 " + r + " " + a(0) + ")"
	case "Lt":
		return "(decide (" + r + " < " + a(0) + "))"
	case "Gt":
		return "(decide (" + r + " > " + a(0) + "))"
	case "Eq":
		return "(decide (" + r + " = " + a(0) + "))"
	case "IsZero":
		return "(decide (" + r + " = 0))"
	case "Sign":
		return "(sign256 " + r + ")"
	case "Uint64":
		return "(" + r + " % two64)"
	case "IsUint64":
		return "(decide (" + r + " < two64))"
	case "Clone":
		return r
	}
	f.problem(c, "uint256 method %s", m)
	return "unsupported"
}

func (f *trFunc) errorLabel(c *ast.CallExpr) string {
	label := ""
	ast.Inspect(c, func(n ast.Node) bool {
		if label != "" {
			return false
		}
		if bl, ok := n.(*ast.BasicLit); ok && bl.Kind == token.STRING {
			if tv, ok := f.info.Types[bl]; ok && tv.Value != nil {
				label = constant.StringVal(tv.Value)
			}
		}
		return true
	})
	if label == "" {
		label = f.src(c.Fun)
	}
	return label
}

func (f *trFunc) call(c *ast.CallExpr) string {
	// conversions
	if tv, ok := f.info.Types[c.Fun]; ok && tv.IsType() {
		if len(c.Args) != 1 {
			f.problem(c, "conversion")
			return "unsupported"
		}
		from, to := f.typeOf(c.Args[0]), tv.Type
		s := f.expr(c.Args[0])
		fk, tk := intKindOf(from), intKindOf(to)
		switch {
		case fk == notInt && tk == notInt:
			lf, e1 := f.tr.leanType(from)
			lt, e2 := f.tr.leanType(to)
			if e1 == nil && e2 == nil && lf == lt {
				return s
			}
			f.problem(c, "conversion %s -> %s", f.tr.pr.typeStr(from), f.tr.pr.typeStr(to))
			return "unsupported"
		case fk == sInt && tk == sInt:
			if sizeOf(to) < sizeOf(from) {
				if sizeOf(to) == 4 {
					return "(wrapI32 " + paren(s) + ")"
				}
				f.problem(c, "narrowing conversion %s -> %s", f.tr.pr.typeStr(from), f.tr.pr.typeStr(to))
			}
			return s
		case fk == uInt64 && tk == sInt && sizeOf(to) == 8:
			return "(wrapI64 (Int.ofNat " + paren(s) + "))"
		case fk == sInt && tk == uInt64:
			return "(wrapU64 " + paren(s) + ")"
		case fk == uInt64 && tk == uInt64:
			return s
		}
		f.problem(c, "conversion %s -> %s", f.tr.pr.typeStr(from), f.tr.pr.typeStr(to))
		return "unsupported"
	}
	// builtins
	if id, ok := ast.Unparen(c.Fun).(*ast.Ident); ok {
		if _, isB := f.info.Uses[id].(*types.Builtin); isB {
			switch id.Name {
			case "len":
				t := f.typeOf(c.Args[0])
				if isByteSlice(t) {
					return "(hexLen " + f.arg(c.Args[0]) + ")"
				}
				if isStringType(t) {
					return "(strLen " + f.arg(c.Args[0]) + ")"
				}
				if _, ok := t.Underlying().(*types.Slice); ok {
					return "(" + f.arg(c.Args[0]) + ".length : Int)"
				}
				if mapOf(t) != nil {
					return "(" + f.arg(c.Args[0]) + ".length : Int)"
				}
			case "append":
				t := f.typeOf(c.Args[0])
				sl, ok := t.Underlying().(*types.Slice)
				if ok && !isByteSlice(t) {
					xs := f.arg(c.Args[0])
					if f.isNil(c.Args[0]) {
						xs = "[]"
					}
					if c.Ellipsis.IsValid() {
						return "(" + xs + " ++ " + f.arg(c.Args[1]) + ")"
					}
					var es []string
					for _, a := range c.Args[1:] {
						es = append(es, f.coerceT(a, false, sl.Elem()))
					}
					return "(" + xs + " ++ [" + strings.Join(es, ", ") + "])"
				}
			case "make":
				t := f.typeOf(c)
				if f.inLedger() && isLedgerMap(t) && len(c.Args) == 1 {
					return "({} : LMap)"
				}
				if m := mapOf(t); m != nil && isStringType(m.Key()) {
					return "[]"
				}
				if _, ok := t.Underlying().(*types.Slice); ok && !isByteSlice(t) && len(c.Args) >= 2 {
					if tv, ok := f.info.Types[c.Args[1]]; ok && tv.Value != nil && tv.Value.ExactString() == "0" {
						return "[]"
					}
				}
			}
			f.problem(c, "builtin `%s`", f.src(c))
			return "unsupported"
		}
	}
	sel, isSel := ast.Unparen(c.Fun).(*ast.SelectorExpr)
	// a call replaced by an explicit parameter (funcs.json "oracles")
	if name := f.oracleFor(c); name != "" {
		return name
	}
	if v, ok := f.oracleFnFor(c); ok {
		return v
	}
	if vals, ok := f.ledgerCall(c); ok {
		if len(vals) == 1 {
			return vals[0]
		}
		return "(" + strings.Join(vals, ", ") + ")"
	}
	if vals, ok := f.specialCall(c); ok {
		if len(vals) == 1 {
			return vals[0]
		}
		return "(" + strings.Join(vals, ", ") + ")"
	}
	if fl := f.flOf(c); fl != nil {
		f.problem(c, "call through the function variable `%s` inside an expression", fl.obj.Name())
		return "unsupported"
	}
	// uint256
	if isSel && isUint256(f.typeOf(sel.X)) && (uint256Setter[sel.Sel.Name] || uint256Pure[sel.Sel.Name]) {
		return f.uint256Call(c, sel, false)
	}
	g, obj := f.callee(c)
	if obj != nil && obj.Pkg() != nil {
		full := obj.Pkg().Path() + "." + obj.Name()
		if r := obj.Type().(*types.Signature).Recv(); r != nil {
			_, rn := recvTypeName(r.Type())
			full = obj.Pkg().Path() + "." + rn + "." + obj.Name()
		}
		switch full {
		case "github.com/holiman/uint256.NewInt":
			return f.arg(c.Args[0])
		case "bytes.Equal":
			if f.round4() && len(c.Args) == 2 {
				return "(decide (" + f.arg(c.Args[0]) + " = " + f.arg(c.Args[1]) + "))"
			}
		case "bytes.Compare":
			if f.inLedger() {
				if a, ok := ast.Unparen(c.Args[0]).(*ast.SliceExpr); ok && isKeyArray(f.typeOf(a.X)) {
					return "(cmpKey " + f.arg(c.Args[0]) + " " + f.arg(c.Args[1]) + ")"
				}
			}
			return "(cmpBytes " + f.arg(c.Args[0]) + " " + f.arg(c.Args[1]) + ")"
		}
		if ex, ok := f.tr.exp.Externs[full]; ok {
			f.tr.externs[full] = true
			var as []string
			for _, a := range f.callArgs(c) {
				as = append(as, f.arg(a))
			}
			return "(" + ex.Lean + " " + strings.Join(as, " ") + ")"
		}
	}
	// error constructors and wrappers
	if t := f.typeOf(c); t != nil && isErrorType(t) && g == nil {
		if isSel && (sel.Sel.Name == "Wrap" || sel.Sel.Name == "Wrapf") && isErrorType(f.typeOf(sel.X)) {
			return f.expr(sel.X)
		}
		return "(some " + leanStr(f.errorLabel(c)) + ")"
	}
	if g == nil {
		if obj != nil {
			if gg, ok := f.tr.done[obj]; ok && gg.inProgress {
				f.problem(c, "recursive call of %s", obj.Name())
			} else {
				f.problem(c, "call of %s, which is not whitelisted", funcDisplayNameQ(f.tr.pr, obj))
			}
		} else {
			f.problem(c, "call `%s`", f.src(c.Fun))
		}
		return "unsupported"
	}
	if len(g.problems) > 0 {
		f.problem(c, "call of %s, which is not translated", g.spec.Lean)
		return "unsupported"
	}
	if g.hasWriteBack && f.hasEscape {
		f.problem(c, "call of %s (updates slice elements in place) in a function that keeps copies of element pointers", g.spec.Lean)
	}
	args := f.callArgs(c)
	variadic := g.node.Obj.Type().(*types.Signature).Variadic()
	if c.Ellipsis.IsValid() && !variadic {
		f.problem(c, "call with ... of a non-variadic function")
	}
	f.checkAliasArgs(c, g, args)
	var as []string
	for i, a := range args {
		if variadic && !c.Ellipsis.IsValid() && i >= len(g.params)-1 {
			break
		}
		if i < len(g.params) {
			if isSyncType(g.params[i].Type()) || f.tr.isOpaqueIface(g.params[i].Type()) {
				continue
			}
			if i == 0 && isSel {
				if r, ok := f.promotedRecv(sel, c); ok {
					for _, mp := range g.mutParams {
						if mp == g.params[0] {
							f.problem(c, "promoted method `%s` updates its receiver", f.src(sel))
						}
					}
					as = append(as, r)
					continue
				}
			}
			as = append(as, paren(f.coerceT(a, g.opt[g.params[i]], g.params[i].Type())))
		}
	}
	if variadic && !c.Ellipsis.IsValid() {
		// the trailing arguments form the slice
		var es []string
		last := g.params[len(g.params)-1]
		var et types.Type
		if sl, ok := last.Type().Underlying().(*types.Slice); ok {
			et = sl.Elem()
		}
		for i := len(g.params) - 1; i < len(args); i++ {
			es = append(es, f.coerceT(args[i], false, et))
		}
		as = append(as, "["+strings.Join(es, ", ")+"]")
	}
	for _, e := range g.extras {
		f.addExtra(e)
		as = append(as, e.name)
	}
	app := g.spec.Lean
	if len(as) > 0 {
		app += " " + strings.Join(as, " ")
	}
	if len(g.mutParams) == 0 {
		return "(← " + app + ")"
	}
	// threaded call: bind the tuple, write the updated parameters back, return the results
	if f.inShort > 0 {
		f.problem(c, "call with threaded state in a short-circuit operand")
	}
	t := f.tmp("__r")
	f.pre = append(f.pre, fmt.Sprintf("let %s ← %s", t, app))
	n := len(g.mutParams) + len(g.resOpt)
	var wbs []types.Object
	for k, mp := range g.mutParams {
		for i, p := range g.params {
			if p == mp && i < len(args) {
				val := proj(t, k, n)
				if f.lhsOpt(args[i]) && !g.opt[p] {
					val = "(some " + val + ")"
				}
				lines := f.assignToNoWB(args[i], val, c)
				f.pre = append(f.pre, lines...)
				if o := f.objOf(args[i]); o != nil && f.alias[o] != nil {
					wbs = append(wbs, o)
				}
			}
		}
	}
	for _, o := range wbs {
		f.pre = append(f.pre, f.aliasWriteBack(o, c)...)
	}
	var rs []string
	for i := range g.resOpt {
		rs = append(rs, proj(t, len(g.mutParams)+i, n))
	}
	switch len(rs) {
	case 0:
		return "()"
	case 1:
		return rs[0]
	}
	return "(" + strings.Join(rs, ", ") + ")"
}

func sizeOf(t types.Type) int {
	b, ok := t.Underlying().(*types.Basic)
	if !ok {
		return 0
	}
	switch b.Kind() {
	case types.Int8, types.Uint8:
		return 1
	case types.Int16, types.Uint16:
		return 2
	case types.Int32, types.Uint32:
		return 4
	}
	return 8
}

func funcDisplayNameQ(pr *Prog, fn *types.Func) string {
	return pr.qual(fn.Pkg()) + ":" + funcDisplayName(fn)
}
