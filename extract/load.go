package main

// Loading of the rigo-go working tree (go/packages, typed syntax) and the module-level
// function index + call graph used by the reachability-scoped inventories.
//
// The call graph is a class-hierarchy style over-approximation built on go/types:
//   - every *reference* to a module function/method inside a body is an edge (covers calls,
//     method values such as `fn := ledger.Get`, and function values stored in structs);
//   - a call/reference through an interface (or a type parameter) resolves to every module
//     type whose method set covers the interface's method names;
//   - a module value handed to non-module code as an interface (json/rlp/fmt/sort/EVM StateDB, ...)
//     makes the methods that code can call back reachable (interface method names + a list of
//     reflective callbacks: EncodeRLP, MarshalJSON, String, ...);
//   - function literals belong to the enclosing declared function (stable site names);
//   - package `init` functions and package-level initialisers are roots of every path set.
//
// Excluded everywhere: package libs/verifhook and functions whose name starts with `Verif`
// (verification accessors compiled only with the build tag `verif`).

import (
	"fmt"
	"go/ast"
	"go/token"
	"go/types"
	"os"
	"sort"
	"strings"

	"golang.org/x/tools/go/packages"
)

type FuncNode struct {
	Obj  *types.Func // origin object (nil for the per-package initialiser pseudo node)
	Decl *ast.FuncDecl
	Body []ast.Node // nodes analysed as this function's body
	Pkg  *packages.Package
	Rel  string // package path relative to the module ("node", "ctrlers/stake")
	Name string // "(*RigoApp).Commit", "validateTrx", "<pkginit>"
	Recv *types.Var
	Gen  bool // declared in a generated file (*.pb.go): kept in the graph, left out of the inventories

	edges map[*FuncNode]bool
}

func (f *FuncNode) Key() string { return f.Rel + ":" + f.Name }

type Prog struct {
	Fset           *token.FileSet
	ModPath        string
	Pkgs           []*packages.Package
	ByRel          map[string]*packages.Package
	Funcs          []*FuncNode
	byObj          map[*types.Func]*FuncNode
	byKey          map[string]*FuncNode
	inits          []*FuncNode
	named          []*types.TypeName        // all module named (non-interface) types with methods
	live           map[*types.TypeName]bool // RTA: types mentioned in code reachable from start-up + ABCI entry points (nil = all)
	LiveIterations int
}

var basePatterns = []string{"./node", "./ledger", "./ctrlers/...", "./types/..."}

// loadProg loads the working tree read-only (-mod=readonly: the go command must not touch the
// repository's go.mod/go.sum); if that fails for module-bookkeeping reasons the load is retried
// with the inherited environment.
func loadProg(repo string) (*Prog, error) {
	env := append(os.Environ(), "GOFLAGS=-mod=readonly")
	pr, err := loadProgEnv(repo, env)
	if err != nil && (strings.Contains(err.Error(), "go.mod") || strings.Contains(err.Error(), "go.sum") || strings.Contains(err.Error(), "-mod=")) {
		if pr2, err2 := loadProgEnv(repo, nil); err2 == nil {
			return pr2, nil
		}
	}
	return pr, err
}

func loadProgEnv(repo string, env []string) (*Prog, error) {
	cfg := &packages.Config{Dir: repo, Tests: false, BuildFlags: []string{"-tags=verif"}, Env: env,
		Mode: packages.NeedName | packages.NeedImports | packages.NeedDeps | packages.NeedModule}
	first, err := packages.Load(cfg, basePatterns...)
	if err != nil {
		return nil, fmt.Errorf("go/packages (import graph): %v", err)
	}
	modPath := ""
	for _, p := range first {
		if p.Module != nil && p.Module.Main {
			modPath = p.Module.Path
			break
		}
	}
	if modPath == "" {
		for _, p := range first {
			if p.Module != nil {
				modPath = p.Module.Path
				break
			}
		}
	}
	if modPath == "" {
		var msgs []string
		for _, p := range first {
			for _, e := range p.Errors {
				msgs = append(msgs, e.Error())
			}
		}
		return nil, fmt.Errorf("cannot determine the module of %s: %s", repo, strings.Join(msgs, "; "))
	}
	set := map[string]bool{}
	packages.Visit(first, nil, func(p *packages.Package) {
		if p.Module != nil && p.Module.Path == modPath {
			set[p.PkgPath] = true
		}
	})
	var pats []string
	for k := range set {
		pats = append(pats, k)
	}
	sort.Strings(pats)
	cfg.Mode = packages.NeedName | packages.NeedFiles | packages.NeedCompiledGoFiles | packages.NeedImports |
		packages.NeedTypes | packages.NeedTypesSizes | packages.NeedSyntax | packages.NeedTypesInfo | packages.NeedModule
	pkgs, err := packages.Load(cfg, pats...)
	if err != nil {
		return nil, fmt.Errorf("go/packages (typed syntax): %v", err)
	}
	var errs []string
	for _, p := range pkgs {
		for _, e := range p.Errors {
			errs = append(errs, e.Error())
		}
	}
	if len(errs) > 0 {
		if len(errs) > 12 {
			errs = errs[:12]
		}
		return nil, fmt.Errorf("the working tree does not type-check:\n  %s", strings.Join(errs, "\n  "))
	}
	sort.Slice(pkgs, func(i, j int) bool { return pkgs[i].PkgPath < pkgs[j].PkgPath })
	pr := &Prog{ModPath: modPath, Pkgs: pkgs, ByRel: map[string]*packages.Package{},
		byObj: map[*types.Func]*FuncNode{}, byKey: map[string]*FuncNode{}}
	if len(pkgs) > 0 {
		pr.Fset = pkgs[0].Fset
	}
	for _, p := range pkgs {
		pr.ByRel[pr.rel(p.PkgPath)] = p
	}
	pr.index()
	pr.buildGraph()
	pr.refineLive()
	return pr, nil
}

func (pr *Prog) rel(pkgPath string) string {
	if pkgPath == pr.ModPath {
		return "."
	}
	return strings.TrimPrefix(pkgPath, pr.ModPath+"/")
}

func (pr *Prog) inModule(p *types.Package) bool {
	return p != nil && (p.Path() == pr.ModPath || strings.HasPrefix(p.Path(), pr.ModPath+"/"))
}

func excludedPkg(rel string) bool { return rel == "libs/verifhook" }

// verification accessors: `Verif` followed by an upper-case letter (VerifAcct, VerifView, ...);
// VerifyTrxRLP, VerifySig are production code.
func excludedFunc(name string) bool {
	return strings.HasPrefix(name, "Verif") && len(name) > 5 && name[5] >= 'A' && name[5] <= 'Z'
}

// verifTagged: the file carries `//go:build verif` (hooks compiled only for verification).
func verifTagged(f *ast.File) bool {
	for _, cg := range f.Comments {
		if cg.Pos() > f.Package {
			break
		}
		for _, c := range cg.List {
			t := strings.TrimSpace(c.Text)
			if strings.HasPrefix(t, "//go:build ") && strings.Contains(" "+strings.TrimPrefix(t, "//go:build ")+" ", " verif ") {
				return true
			}
		}
	}
	return false
}

// qualifier used for all type strings: module packages by relative path, others by full path.
func (pr *Prog) qual(p *types.Package) string {
	if p == nil {
		return ""
	}
	if pr.inModule(p) {
		return pr.rel(p.Path())
	}
	return p.Path()
}

func (pr *Prog) typeStr(t types.Type) string {
	if t == nil {
		return "?"
	}
	return types.TypeString(t, pr.qual)
}

func recvTypeName(t types.Type) (ptr bool, name string) {
	if p, ok := t.(*types.Pointer); ok {
		ptr = true
		t = p.Elem()
	}
	if n, ok := t.(*types.Named); ok {
		return ptr, n.Obj().Name()
	}
	return ptr, t.String()
}

func funcDisplayName(fn *types.Func) string {
	sig := fn.Type().(*types.Signature)
	if r := sig.Recv(); r != nil {
		ptr, n := recvTypeName(r.Type())
		if ptr {
			return "(*" + n + ")." + fn.Name()
		}
		return n + "." + fn.Name()
	}
	return fn.Name()
}

func (pr *Prog) index() {
	for _, p := range pr.Pkgs {
		rel := pr.rel(p.PkgPath)
		if excludedPkg(rel) {
			continue
		}
		initNode := &FuncNode{Pkg: p, Rel: rel, Name: "<pkginit>", edges: map[*FuncNode]bool{}}
		for _, f := range p.Syntax {
			gen := isGenerated(f)
			if verifTagged(f) {
				continue
			}
			for _, d := range f.Decls {
				switch d := d.(type) {
				case *ast.FuncDecl:
					obj, _ := p.TypesInfo.Defs[d.Name].(*types.Func)
					if obj == nil || d.Body == nil {
						continue
					}
					if excludedFunc(obj.Name()) {
						continue
					}
					if d.Recv == nil && obj.Name() == "init" {
						initNode.Body = append(initNode.Body, d.Body)
						continue
					}
					if gen && d.Recv == nil && obj.Name() == "init" {
						continue // protobuf registration
					}
					n := &FuncNode{Obj: obj, Decl: d, Body: []ast.Node{d.Body}, Pkg: p, Rel: rel, Gen: gen,
						Name: funcDisplayName(obj), edges: map[*FuncNode]bool{}}
					n.Recv = obj.Type().(*types.Signature).Recv()
					pr.Funcs = append(pr.Funcs, n)
					pr.byObj[obj] = n
					pr.byKey[n.Key()] = n
				case *ast.GenDecl:
					if d.Tok == token.VAR && !gen {
						for _, s := range d.Specs {
							vs := s.(*ast.ValueSpec)
							if allBlank(vs.Names) {
								continue // `var _ I = (*T)(nil)`: a compile-time assertion, no live value
							}
							for _, v := range vs.Values {
								initNode.Body = append(initNode.Body, v)
							}
							if len(vs.Values) > 0 {
								initNode.Body = append(initNode.Body, vs) // for interface-escape of `var _ I = (*T)(nil)`
							}
						}
					}
				}
			}
		}
		pr.Funcs = append(pr.Funcs, initNode)
		pr.inits = append(pr.inits, initNode)
		pr.byKey[initNode.Key()] = initNode
		// named types with methods
		sc := p.Types.Scope()
		for _, nm := range sc.Names() {
			if tn, ok := sc.Lookup(nm).(*types.TypeName); ok && !tn.IsAlias() {
				if _, isIface := tn.Type().Underlying().(*types.Interface); isIface {
					continue
				}
				pr.named = append(pr.named, tn)
			}
		}
	}
	sort.Slice(pr.Funcs, func(i, j int) bool { return pr.Funcs[i].Key() < pr.Funcs[j].Key() })
	sort.Slice(pr.named, func(i, j int) bool {
		a, b := pr.named[i], pr.named[j]
		if a.Pkg().Path() != b.Pkg().Path() {
			return a.Pkg().Path() < b.Pkg().Path()
		}
		return a.Name() < b.Name()
	})
}

func allBlank(ids []*ast.Ident) bool {
	for _, id := range ids {
		if id.Name != "_" {
			return false
		}
	}
	return true
}

func isGenerated(f *ast.File) bool {
	for _, cg := range f.Comments {
		if cg.Pos() > f.Package {
			break
		}
		for _, c := range cg.List {
			if strings.HasPrefix(c.Text, "// Code generated ") && strings.HasSuffix(c.Text, " DO NOT EDIT.") {
				return true
			}
		}
	}
	return false
}

func (pr *Prog) Func(rel, name string) *FuncNode { return pr.byKey[rel+":"+name] }

func (pr *Prog) nodeOf(fn *types.Func) *FuncNode {
	if fn == nil {
		return nil
	}
	return pr.byObj[fn.Origin()]
}

// methodNames returns the method names of an interface type (nil if t is not an interface
// or a type parameter).
func ifaceMethodNames(t types.Type) []string {
	if t == nil {
		return nil
	}
	u, ok := t.Underlying().(*types.Interface)
	if !ok {
		return nil
	}
	var out []string
	for i := 0; i < u.NumMethods(); i++ {
		out = append(out, u.Method(i).Name())
	}
	sort.Strings(out)
	return out
}

func isInterfaceLike(t types.Type) bool {
	if t == nil {
		return false
	}
	_, ok := t.Underlying().(*types.Interface)
	return ok
}

// methodOn looks the method `name` up in the method set of *T (T a module named type) and
// returns the module FuncNode declaring it (nil when promoted from non-module code).
func (pr *Prog) methodOn(tn *types.TypeName, name string) *FuncNode {
	obj, _, _ := types.LookupFieldOrMethod(types.NewPointer(tn.Type()), true, tn.Pkg(), name)
	fn, _ := obj.(*types.Func)
	if fn == nil {
		return nil
	}
	return pr.nodeOf(fn)
}

func (pr *Prog) hasMethods(tn *types.TypeName, names []string) bool {
	for _, n := range names {
		obj, _, _ := types.LookupFieldOrMethod(types.NewPointer(tn.Type()), true, tn.Pkg(), n)
		if _, ok := obj.(*types.Func); !ok {
			return false
		}
	}
	return true
}

// implementers: module named types whose method set covers all names (over-approximation of
// types.Implements that also works for generic types).
func (pr *Prog) implementers(names []string) []*types.TypeName {
	if len(names) == 0 {
		return nil
	}
	var out []*types.TypeName
	for _, tn := range pr.named {
		if pr.live != nil && !pr.live[tn] {
			continue
		}
		if pr.hasMethods(tn, names) {
			out = append(out, tn)
		}
	}
	return out
}

var reflectiveCallbacks = []string{"EncodeRLP", "DecodeRLP", "MarshalJSON", "UnmarshalJSON", "MarshalText",
	"UnmarshalText", "String", "Error", "Format", "GoString", "Marshal", "Unmarshal", "Size", "MarshalTo"}

// moduleNamedIn collects module named types occurring in t (through pointers, slices, arrays,
// maps, and the fields of module structs).
func (pr *Prog) moduleNamedIn(t types.Type, deep bool, seen map[types.Type]bool, out *[]*types.TypeName) {
	if t == nil || seen[t] {
		return
	}
	seen[t] = true
	switch tt := t.(type) {
	case *types.Pointer:
		pr.moduleNamedIn(tt.Elem(), deep, seen, out)
	case *types.Slice:
		pr.moduleNamedIn(tt.Elem(), deep, seen, out)
	case *types.Array:
		pr.moduleNamedIn(tt.Elem(), deep, seen, out)
	case *types.Map:
		pr.moduleNamedIn(tt.Key(), deep, seen, out)
		pr.moduleNamedIn(tt.Elem(), deep, seen, out)
	case *types.Named:
		if !pr.inModule(tt.Obj().Pkg()) {
			return
		}
		if isInterfaceLike(tt) {
			for _, tn := range pr.implementers(ifaceMethodNames(tt)) {
				pr.moduleNamedIn(tn.Type(), deep, seen, out)
			}
			return
		}
		*out = append(*out, tt.Origin().Obj())
		if deep {
			if st, ok := tt.Underlying().(*types.Struct); ok {
				for i := 0; i < st.NumFields(); i++ {
					pr.moduleNamedIn(st.Field(i).Type(), deep, seen, out)
				}
			} else {
				pr.moduleNamedIn(tt.Underlying(), deep, seen, out)
			}
		}
	case *types.Struct:
		if deep {
			for i := 0; i < tt.NumFields(); i++ {
				pr.moduleNamedIn(tt.Field(i).Type(), deep, seen, out)
			}
		}
	case *types.TypeParam:
		for _, tn := range pr.implementers(ifaceMethodNames(tt)) {
			pr.moduleNamedIn(tn.Type(), deep, seen, out)
		}
	}
}

// escape: a value of static type `arg` is converted to interface type `iface` owned by
// non-module code; add edges to the methods that code may call.
func (pr *Prog) escape(from *FuncNode, arg types.Type, iface types.Type) {
	names := ifaceMethodNames(iface)
	deep := len(names) == 0
	var tns []*types.TypeName
	pr.moduleNamedIn(arg, deep, map[types.Type]bool{}, &tns)
	if len(tns) == 0 {
		return
	}
	want := append([]string{}, names...)
	if deep {
		want = append(want, reflectiveCallbacks...)
	}
	for _, tn := range tns {
		for _, m := range want {
			if n := pr.methodOn(tn, m); n != nil {
				from.edges[n] = true
			}
		}
	}
}

// startupRoots: everything the running node can execute: construction of the application and
// every exported method of RigoApp. Used only to decide which types are ever instantiated.
func (pr *Prog) startupRoots() []*FuncNode {
	var out []*FuncNode
	for _, fn := range pr.Funcs {
		if fn.Rel != "node" || fn.Obj == nil {
			continue
		}
		if fn.Name == "NewRigoApp" || (strings.HasPrefix(fn.Name, "(*RigoApp).") && fn.Obj.Exported()) {
			out = append(out, fn)
		}
	}
	return out
}

// mentioned: module named types referred to by the declaration (signature + body) of fn.
func (pr *Prog) mentioned(fn *FuncNode, into map[*types.TypeName]bool) {
	info := fn.Pkg.TypesInfo
	visit := func(n ast.Node) {
		ast.Inspect(n, func(n ast.Node) bool {
			if id, ok := n.(*ast.Ident); ok {
				if tn, ok := info.Uses[id].(*types.TypeName); ok && pr.inModule(tn.Pkg()) {
					if nt, ok := tn.Type().(*types.Named); ok {
						into[nt.Origin().Obj()] = true
					}
				}
			}
			return true
		})
	}
	if fn.Decl != nil {
		// not the receiver: a reachable method does not instantiate its own type
		visit(fn.Decl.Type)
		visit(fn.Decl.Body)
	} else {
		for _, b := range fn.Body {
			visit(b)
		}
	}
}

// refineLive: rapid-type-analysis style pruning of interface dispatch: an interface call only
// resolves to types that are mentioned (literal, conversion, new, declaration, signature)
// somewhere in code reachable from start-up or an ABCI entry point. Least fixpoint: the live
// set starts empty and grows until the reachable set no longer mentions new types.
func (pr *Prog) refineLive() {
	roots := pr.startupRoots()
	if len(roots) == 0 {
		return
	}
	// least fixpoint: start without any interface dispatch and grow
	pr.live = map[*types.TypeName]bool{}
	for _, fn := range pr.Funcs {
		fn.edges = map[*FuncNode]bool{}
	}
	pr.buildGraph()
	prev := -1
	for it := 0; it < 20; it++ {
		live := map[*types.TypeName]bool{}
		for _, fn := range pr.reachable(roots) {
			pr.mentioned(fn, live)
		}
		// a live struct makes its module-typed value fields live too (embedded SimpleLedger, ...)
		changed := true
		for changed {
			changed = false
			for tn := range live {
				if st, ok := tn.Type().Underlying().(*types.Struct); ok {
					for i := 0; i < st.NumFields(); i++ {
						ft := st.Field(i).Type()
						if p, ok := ft.(*types.Pointer); ok {
							ft = p.Elem()
						}
						if nt, ok := ft.(*types.Named); ok && pr.inModule(nt.Obj().Pkg()) && !isInterfaceLike(nt) {
							if o := nt.Origin().Obj(); !live[o] {
								live[o] = true
								changed = true
							}
						}
					}
				}
			}
		}
		pr.live = live
		pr.LiveIterations = it + 1
		for _, fn := range pr.Funcs {
			fn.edges = map[*FuncNode]bool{}
		}
		pr.buildGraph()
		if len(live) == prev {
			break
		}
		prev = len(live)
	}
}

func (pr *Prog) buildGraph() {
	for _, fn := range pr.Funcs {
		info := fn.Pkg.TypesInfo
		for _, body := range fn.Body {
			ast.Inspect(body, func(n ast.Node) bool {
				switch x := n.(type) {
				case *ast.Ident:
					if f, ok := info.Uses[x].(*types.Func); ok {
						if t := pr.nodeOf(f); t != nil {
							fn.edges[t] = true
						}
					}
				case *ast.SelectorExpr:
					sel := info.Selections[x]
					if sel != nil && (sel.Kind() == types.MethodVal || sel.Kind() == types.MethodExpr) && isInterfaceLike(sel.Recv()) {
						// interface / type-parameter dispatch
						names := ifaceMethodNames(sel.Recv())
						for _, tn := range pr.implementers(names) {
							if t := pr.methodOn(tn, x.Sel.Name); t != nil {
								fn.edges[t] = true
							}
						}
					}
				case *ast.CallExpr:
					pr.callEscapes(fn, info, x)
				case *ast.AssignStmt:
					if len(x.Lhs) == len(x.Rhs) {
						for i := range x.Lhs {
							pr.assignEscape(fn, info, info.TypeOf(x.Lhs[i]), x.Rhs[i])
						}
					}
				case *ast.ValueSpec:
					if x.Type != nil {
						for _, v := range x.Values {
							pr.assignEscape(fn, info, info.TypeOf(x.Type), v)
						}
					}
				}
				return true
			})
		}
	}
}

func (pr *Prog) externalIface(t types.Type) bool {
	if !isInterfaceLike(t) {
		return false
	}
	if n, ok := t.(*types.Named); ok {
		return !pr.inModule(n.Obj().Pkg())
	}
	return true // unnamed interface (interface{}, any)
}

func (pr *Prog) assignEscape(fn *FuncNode, info *types.Info, lhs types.Type, rhs ast.Expr) {
	if lhs == nil || !pr.externalIface(lhs) || len(ifaceMethodNames(lhs)) == 0 {
		return
	}
	rt := info.TypeOf(rhs)
	if rt == nil || isInterfaceLike(rt) {
		return
	}
	pr.escape(fn, rt, lhs)
}

func unparen(e ast.Expr) ast.Expr {
	for {
		p, ok := e.(*ast.ParenExpr)
		if !ok {
			return e
		}
		e = p.X
	}
}

// calleeOf resolves the statically known callee object of a call (nil for dynamic calls,
// conversions and builtins).
func calleeOf(info *types.Info, call *ast.CallExpr) *types.Func {
	fun := unparen(call.Fun)
	switch f := fun.(type) {
	case *ast.IndexExpr:
		fun = f.X
	case *ast.IndexListExpr:
		fun = f.X
	}
	switch f := fun.(type) {
	case *ast.Ident:
		fn, _ := info.Uses[f].(*types.Func)
		return fn
	case *ast.SelectorExpr:
		fn, _ := info.Uses[f.Sel].(*types.Func)
		return fn
	}
	return nil
}

func (pr *Prog) callEscapes(fn *FuncNode, info *types.Info, call *ast.CallExpr) {
	tv, ok := info.Types[call.Fun]
	if !ok || tv.IsType() {
		return
	}
	sig, _ := tv.Type.Underlying().(*types.Signature)
	if sig == nil {
		return
	}
	callee := calleeOf(info, call)
	if callee != nil && pr.inModule(callee.Pkg()) {
		return // module code: handled by ordinary edges / interface dispatch
	}
	if callee == nil {
		// dynamic call through a function value: only interesting when the function type
		// takes interfaces and we pass module values; treat like external.
	}
	params := sig.Params()
	for i, a := range call.Args {
		var pt types.Type
		if sig.Variadic() && i >= params.Len()-1 {
			pt = params.At(params.Len() - 1).Type()
			if s, ok := pt.(*types.Slice); ok && call.Ellipsis == token.NoPos {
				pt = s.Elem()
			}
		} else if i < params.Len() {
			pt = params.At(i).Type()
		}
		if pt == nil || !isInterfaceLike(pt) {
			continue
		}
		if _, isTP := pt.(*types.TypeParam); isTP {
			continue
		}
		at := info.TypeOf(a)
		if at == nil {
			continue
		}
		pr.escape(fn, at, pt)
	}
}

// reachable returns the set of module functions reachable from the given roots (plus the
// package initialisers, which are roots of every path set), sorted by key.
func (pr *Prog) reachable(roots []*FuncNode) []*FuncNode {
	out, _ := pr.reachableWithParents(roots)
	return out
}

func (pr *Prog) reachableWithParents(roots []*FuncNode) ([]*FuncNode, map[*FuncNode]*FuncNode) {
	parent := map[*FuncNode]*FuncNode{}
	seen := map[*FuncNode]bool{}
	var queue []*FuncNode
	push := func(n, from *FuncNode) {
		if n != nil && !seen[n] {
			seen[n] = true
			parent[n] = from
			queue = append(queue, n)
		}
	}
	for _, r := range roots {
		push(r, nil)
	}
	for _, i := range pr.inits {
		push(i, nil)
	}
	for len(queue) > 0 {
		n := queue[0]
		queue = queue[1:]
		var es []*FuncNode
		for e := range n.edges {
			es = append(es, e)
		}
		sort.Slice(es, func(i, j int) bool { return es[i].Key() < es[j].Key() })
		for _, e := range es {
			push(e, n)
		}
	}
	var out []*FuncNode
	for n := range seen {
		out = append(out, n)
	}
	sort.Slice(out, func(i, j int) bool { return out[i].Key() < out[j].Key() })
	return out, parent
}

// why prints a call path from the roots to every function whose key contains `needle`.
func (pr *Prog) why(roots []*FuncNode, needle string) []string {
	fns, parent := pr.reachableWithParents(roots)
	var out []string
	for _, f := range fns {
		if !strings.Contains(f.Key(), needle) {
			continue
		}
		var path []string
		for n := f; n != nil; n = parent[n] {
			path = append([]string{n.Key()}, path...)
		}
		out = append(out, strings.Join(path, "  ->  "))
	}
	return out
}

// ---------------------------------------------------------------------------------------------
// expression rendering, independent of import aliases and of the receiver's variable name

type renderer struct {
	pr   *Prog
	info *types.Info
	self types.Object // receiver variable, printed as "self"
}

func (pr *Prog) renderer(fn *FuncNode) *renderer {
	r := &renderer{pr: pr, info: fn.Pkg.TypesInfo}
	if fn.Recv != nil {
		r.self = fn.Recv
	}
	return r
}

func (r *renderer) list(es []ast.Expr) string {
	var s []string
	for _, e := range es {
		s = append(s, r.expr(e))
	}
	return strings.Join(s, ", ")
}

func (r *renderer) expr(e ast.Expr) string {
	switch x := e.(type) {
	case nil:
		return ""
	case *ast.Ident:
		if obj := r.info.Uses[x]; obj != nil {
			if pn, ok := obj.(*types.PkgName); ok {
				if r.pr.inModule(pn.Imported()) {
					return r.pr.rel(pn.Imported().Path())
				}
				return pn.Imported().Path()
			}
			if r.self != nil && obj == r.self {
				return "self"
			}
		}
		return x.Name
	case *ast.BasicLit:
		return x.Value
	case *ast.SelectorExpr:
		return r.expr(x.X) + "." + x.Sel.Name
	case *ast.CallExpr:
		s := r.expr(x.Fun) + "(" + r.list(x.Args)
		if x.Ellipsis != token.NoPos {
			s += "..."
		}
		return s + ")"
	case *ast.BinaryExpr:
		return r.expr(x.X) + " " + x.Op.String() + " " + r.expr(x.Y)
	case *ast.UnaryExpr:
		return x.Op.String() + r.expr(x.X)
	case *ast.ParenExpr:
		return "(" + r.expr(x.X) + ")"
	case *ast.StarExpr:
		return "*" + r.expr(x.X)
	case *ast.IndexExpr:
		return r.expr(x.X) + "[" + r.expr(x.Index) + "]"
	case *ast.IndexListExpr:
		return r.expr(x.X) + "[" + r.list(x.Indices) + "]"
	case *ast.SliceExpr:
		s := r.expr(x.X) + "[" + r.expr(x.Low) + ":" + r.expr(x.High)
		if x.Slice3 {
			s += ":" + r.expr(x.Max)
		}
		return s + "]"
	case *ast.TypeAssertExpr:
		if x.Type == nil {
			return r.expr(x.X) + ".(type)"
		}
		return r.expr(x.X) + ".(" + r.expr(x.Type) + ")"
	case *ast.KeyValueExpr:
		return r.expr(x.Key) + ": " + r.expr(x.Value)
	case *ast.CompositeLit:
		return r.expr(x.Type) + "{" + r.list(x.Elts) + "}"
	case *ast.ArrayType:
		return "[" + r.expr(x.Len) + "]" + r.expr(x.Elt)
	case *ast.MapType:
		return "map[" + r.expr(x.Key) + "]" + r.expr(x.Value)
	case *ast.FuncLit:
		return "func{...}"
	case *ast.InterfaceType:
		if x.Methods == nil || len(x.Methods.List) == 0 {
			return "interface{}"
		}
		return "interface{...}"
	case *ast.StructType:
		return "struct{...}"
	case *ast.Ellipsis:
		return "..." + r.expr(x.Elt)
	}
	return types.ExprString(e)
}

func clip(s string, n int) string {
	s = strings.Join(strings.Fields(s), " ")
	if len(s) > n {
		return s[:n] + "…"
	}
	return s
}

// walkWithStack is ast.Inspect with the stack of ancestors handed to the callback.
func walkWithStack(root ast.Node, f func(n ast.Node, stack []ast.Node) bool) {
	var stack []ast.Node
	ast.Inspect(root, func(n ast.Node) bool {
		if n == nil {
			stack = stack[:len(stack)-1]
			return true
		}
		ok := f(n, stack)
		if ok {
			stack = append(stack, n)
		}
		return ok
	})
}
