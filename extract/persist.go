package main

// Fact group `persist_sites`: every write to a durable META store outside the ledgers' own Commit
// (ctrlers/types.MetaDB.Put… / put, the stake controller's reward-hash and validator-set records, the EVM
// controller's height→root batch, any direct tm-db Set/Delete/Write in node/… and ctrlers/…) with
//
//	func    enclosing function
//	call    rendered call target                       self.rwdHashDB.PutLastRewardHash
//	guard   the conditions the call sits under, outermost first, joined by " && ":
//	        enclosing if-conditions (else-branches negated), `after-exit(c)` for a preceding
//	        `if c { return/continue/… }` in an enclosing block, `loop(…)`, `case(…)`      v0 % self.rwdLedgUpInterval == 0
//	value   rendered argument list                     h2
//	defs    for every local variable in the arguments: the right-hand sides assigned to it in the function
//	        ("h2 := self.rewardLedger.Commit() #0"), so that persisting a differently computed value
//	        under the same name shows
//
// so that "persist the reward hash every block", "persist self.lastRwdHash instead of h2", "persist a
// slimmed copy", "persist only when dirty" each change a site. Matched as a multiset against
// expect/persist_sites.json.

import (
	"encoding/json"
	"fmt"
	"go/ast"
	"go/types"
	"os"
	"path/filepath"
	"sort"
	"strings"
)

type PersistSite struct {
	Func  string   `json:"func"`
	Call  string   `json:"call"`
	API   string   `json:"api"`
	Guard string   `json:"guard"`
	Value string   `json:"value"`
	Defs  []string `json:"defs"`
	Count int      `json:"count"`
	Note  string   `json:"note,omitempty"` // expectation only
	Pos   string   `json:"pos,omitempty"`  // informational
}

func (s PersistSite) Key() string {
	return s.Func + " | " + s.Call + " | " + s.API + " | [" + s.Guard + "] | (" + s.Value + ") | {" + strings.Join(s.Defs, "; ") + "}"
}

func (pr *Prog) persistAPI(callee *types.Func) string {
	if callee == nil {
		return ""
	}
	pp := pkgPathOf(callee)
	_, rn := recvNamed(callee)
	name := callee.Name()
	switch {
	case pr.inModule(callee.Pkg()) && rn == "MetaDB" && (name == "put" || strings.HasPrefix(name, "Put")):
		return pr.calleeLabel(callee)
	case strings.Contains(pp, "tendermint/tm-db"):
		switch name {
		case "Set", "SetSync", "Delete", "DeleteSync", "Write", "WriteSync":
			return pr.calleeLabel(callee)
		}
	}
	return ""
}

func (w *gwalker) guardText(info *types.Info) string {
	var parts []string
	for _, fr := range w.frames {
		switch fr.kind {
		case "if":
			c := w.r.expr(fr.cond)
			if fr.neg {
				c = "!(" + c + ")"
			}
			parts = append(parts, c)
		case "exit":
			parts = append(parts, "after-exit("+w.r.expr(fr.cond)+")")
		case "loop":
			parts = append(parts, "loop("+fr.text+")")
		case "case":
			parts = append(parts, "case("+fr.text+")")
		}
	}
	// identical conditions (a chain of `if xerr != nil { return … }`) are listed once
	seen := map[string]bool{}
	var uniq []string
	for _, p := range parts {
		if !seen[p] {
			seen[p] = true
			uniq = append(uniq, p)
		}
	}
	return strings.Join(uniq, " && ")
}

// localDefs: right-hand sides assigned to the local variables occurring in args.
func localDefs(fn *FuncNode, r *renderer, self *ast.CallExpr, args []ast.Expr) []string {
	info := fn.Pkg.TypesInfo
	want := map[types.Object]bool{}
	wantSel := map[string]bool{} // fields of the receiver occurring in the arguments ("self.lastRootHash")
	for _, a := range args {
		ast.Inspect(a, func(n ast.Node) bool {
			if sel, ok := n.(*ast.SelectorExpr); ok {
				if t := r.expr(sel); strings.HasPrefix(t, "self.") && info.Selections[sel] != nil && info.Selections[sel].Kind() == types.FieldVal {
					wantSel[t] = true
				}
			}
			if id, ok := n.(*ast.Ident); ok {
				if v, ok := info.Uses[id].(*types.Var); ok && !v.IsField() && v.Parent() != nil && v.Pkg() != nil && v.Parent() != v.Pkg().Scope() {
					want[v] = true
				}
			}
			return true
		})
	}
	if len(want) == 0 && len(wantSel) == 0 {
		return []string{}
	}
	set := map[string]bool{}
	mutable := func(o types.Object) bool {
		switch o.Type().Underlying().(type) {
		case *types.Slice, *types.Pointer, *types.Map:
			return true
		}
		return false
	}
	objOf := func(e ast.Expr) types.Object {
		id, ok := e.(*ast.Ident)
		if !ok {
			return nil
		}
		if o := info.Defs[id]; o != nil {
			return o
		}
		return info.Uses[id]
	}
	for _, b := range fn.Body {
		ast.Inspect(b, func(n ast.Node) bool {
			switch x := n.(type) {
			case *ast.AssignStmt:
				for i, l := range x.Lhs {
					name := ""
					if o := objOf(l); o != nil && want[o] {
						name = o.Name()
					} else if _, isSel := l.(*ast.SelectorExpr); isSel && wantSel[r.expr(l)] {
						name = r.expr(l)
					}
					if name == "" {
						continue
					}
					switch {
					case len(x.Lhs) == len(x.Rhs):
						set[name+" "+x.Tok.String()+" "+r.expr(x.Rhs[i])] = true
					case len(x.Rhs) == 1:
						set[fmt.Sprintf("%s %s %s #%d", name, x.Tok.String(), r.expr(x.Rhs[0]), i)] = true
					}
				}
			case *ast.CallExpr:
				// a buffer filled through a call: `binary.BigEndian.PutUint64(v, …)`
				if x == self {
					return true
				}
				for _, a := range x.Args {
					if o := objOf(unparen(a)); o != nil && want[o] && mutable(o) {
						set[o.Name()+" <- "+r.expr(x)] = true
					}
				}
			case *ast.ValueSpec:
				for i, id := range x.Names {
					o := info.Defs[id]
					if o == nil || !want[o] {
						continue
					}
					switch {
					case len(x.Values) == len(x.Names):
						set[o.Name()+" := "+r.expr(x.Values[i])] = true
					case len(x.Values) == 1:
						set[fmt.Sprintf("%s := %s #%d", o.Name(), r.expr(x.Values[0]), i)] = true
					default:
						set[o.Name()+" := <zero "+r.expr(x.Type)+">"] = true
					}
				}
			case *ast.RangeStmt:
				for _, e := range []ast.Expr{x.Key, x.Value} {
					if e == nil {
						continue
					}
					if o := objOf(e); o != nil && want[o] {
						set[o.Name()+" := range "+r.expr(x.X)] = true
					}
				}
			case *ast.IncDecStmt:
				if o := objOf(x.X); o != nil && want[o] {
					set[o.Name()+x.Tok.String()] = true
				} else if _, isSel := x.X.(*ast.SelectorExpr); isSel && wantSel[r.expr(x.X)] {
					set[r.expr(x.X)+x.Tok.String()] = true
				}
			}
			return true
		})
	}
	// parameters / receiver
	if fn.Obj != nil {
		sig := fn.Obj.Type().(*types.Signature)
		for i := 0; i < sig.Params().Len(); i++ {
			if p := sig.Params().At(i); want[p] {
				set[p.Name()+" : parameter"] = true
			}
		}
	}
	out := make([]string, 0, len(set))
	for k := range set {
		out = append(out, clip(k, 200))
	}
	sort.Strings(out)
	return out
}

func (pr *Prog) scanPersist() []PersistSite {
	merged := map[string]*PersistSite{}
	for _, fn := range pr.Funcs {
		if fn.Gen || !(fn.Rel == "node" || strings.HasPrefix(fn.Rel, "ctrlers/")) {
			continue
		}
		info := fn.Pkg.TypesInfo
		r := pr.renderer(fn)
		w := &gwalker{r: r}
		w.f = func(n ast.Node, frames []gframe) {
			x, ok := n.(*ast.CallExpr)
			if !ok {
				return
			}
			api := pr.persistAPI(calleeOf(info, x))
			if api == "" {
				return
			}
			s := PersistSite{Func: fn.Rel + "." + fn.Name, Call: pr.recvText(fn, r, x.Fun), API: api, Guard: w.guardText(info),
				Value: clip(r.list(x.Args), 300), Defs: localDefs(fn, r, x, x.Args), Count: 1, Pos: pr.posStr(fn, x.Pos())}
			if o, ok := merged[s.Key()]; ok {
				o.Count++
				return
			}
			merged[s.Key()] = &s
		}
		for _, b := range fn.Body {
			w.frames = nil
			w.node(b)
		}
	}
	var keys []string
	for k := range merged {
		keys = append(keys, k)
	}
	sort.Strings(keys)
	out := make([]PersistSite, 0, len(keys))
	for _, k := range keys {
		out = append(out, *merged[k])
	}
	return out
}

type expPersist struct {
	About string        `json:"_about"`
	Sites []PersistSite `json:"sites"`
}

func checkPersist(dir string, sites []PersistSite, update bool) Check {
	path := filepath.Join(dir, "persist_sites.json")
	var problems []string
	var old expPersist
	bz, err := os.ReadFile(path)
	if err == nil {
		err = json.Unmarshal(bz, &old)
	}
	if update {
		out := expPersist{About: "C07/C08: every write to a durable meta store outside the ledgers' Commit (MetaDB.Put…, reward-hash and validator-set records, EVM height→root batch) with its guard, value expression and the definitions of the local variables in it (extract/persist.go). Matched as a multiset of (func, call, api, guard, value, defs)."}
		notes := map[string]string{}
		if err == nil {
			if old.About != "" {
				out.About = old.About
			}
			for _, s := range old.Sites {
				notes[s.Key()] = s.Note
			}
		}
		for _, s := range sites {
			s.Note = notes[s.Key()]
			s.Pos = ""
			out.Sites = append(out.Sites, s)
		}
		if out.Sites == nil {
			out.Sites = []PersistSite{}
		}
		if werr := writeJSON(path, out); werr != nil {
			problems = append(problems, "cannot write "+path+": "+werr.Error())
		}
		old = out
	} else if err != nil {
		return Check{OK: false, Problems: []string{"no expectation: " + err.Error() + " (run rigoextract -update-expect and review)"}}
	}
	exp := map[string]PersistSite{}
	for _, s := range old.Sites {
		exp[s.Key()] = s
	}
	act := map[string]PersistSite{}
	for _, s := range sites {
		act[s.Key()] = s
	}
	// pair surplus and missing entries of the same (func, call)
	type pk struct{ f, c string }
	added, gone := map[pk][]PersistSite{}, map[pk][]PersistSite{}
	keys := map[pk]bool{}
	for k, s := range act {
		if e, ok := exp[k]; !ok || e.Count != s.Count {
			if ok {
				problems = append(problems, fmt.Sprintf("%s: %s(%s) occurs x%d, expected x%d (%s)", s.Func, s.Call, s.Value, s.Count, e.Count, s.Pos))
				continue
			}
			added[pk{s.Func, s.Call}] = append(added[pk{s.Func, s.Call}], s)
			keys[pk{s.Func, s.Call}] = true
		}
	}
	for k, e := range exp {
		if _, ok := act[k]; !ok {
			gone[pk{e.Func, e.Call}] = append(gone[pk{e.Func, e.Call}], e)
			keys[pk{e.Func, e.Call}] = true
		}
	}
	var kl []pk
	for k := range keys {
		kl = append(kl, k)
	}
	sort.Slice(kl, func(i, j int) bool { return kl[i].f+kl[i].c < kl[j].f+kl[j].c })
	g := func(s string) string {
		if s == "" {
			return "unconditionally"
		}
		return "under [" + s + "]"
	}
	for _, k := range kl {
		a, e := added[k], gone[k]
		sort.Slice(a, func(i, j int) bool { return a[i].Key() < a[j].Key() })
		sort.Slice(e, func(i, j int) bool { return e[i].Key() < e[j].Key() })
		n := len(a)
		if len(e) < n {
			n = len(e)
		}
		for i := 0; i < n; i++ {
			var diffs []string
			if a[i].Guard != e[i].Guard {
				diffs = append(diffs, "now "+g(a[i].Guard)+", expected "+g(e[i].Guard))
			}
			if a[i].Value != e[i].Value {
				diffs = append(diffs, "value now ("+a[i].Value+"), expected ("+e[i].Value+")")
			}
			if strings.Join(a[i].Defs, "; ") != strings.Join(e[i].Defs, "; ") {
				diffs = append(diffs, "the persisted value is computed differently: now {"+strings.Join(a[i].Defs, "; ")+"}, expected {"+strings.Join(e[i].Defs, "; ")+"}")
			}
			if a[i].API != e[i].API {
				diffs = append(diffs, "store API now "+a[i].API+", expected "+e[i].API)
			}
			problems = append(problems, fmt.Sprintf("%s: durable write %s: %s (%s)", k.f, k.c, strings.Join(diffs, "; "), a[i].Pos))
		}
		for _, s := range a[n:] {
			problems = append(problems, fmt.Sprintf("%s: NEW durable write %s(%s) %s (%s)", k.f, k.c, s.Value, g(s.Guard), s.Pos))
		}
		for _, s := range e[n:] {
			problems = append(problems, fmt.Sprintf("%s: expected durable write vanished: %s(%s) %s", k.f, k.c, s.Value, g(s.Guard)))
		}
	}
	sort.Strings(problems)
	return Check{OK: len(problems) == 0, Problems: problems}
}
