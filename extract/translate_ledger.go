package main

// Round 4: the ledger package itself (generic memItems / SimpleLedger / FinalityLedger) and the
// signer's decision logic.
//
// Ledger mode (functions and struct types of package `ledger`):
//   type parameter T (ILedgerItem) -> (Option LVal): an item or nil; LVal = Rigo.Ledger.Val is abstract,
//                                    `x.Key()` is the explicit parameter T_Key applied to the (non-nil) item
//   [32]byte (LedgerKey)           -> LKey = Rigo.Ledger.Key (the 32 bytes as a big-endian number);
//                                    `k[:]` is k, `copy(a[:], b[:])` is `a := b`, bytes.Compare -> cmpKey
//   map[LedgerKey]T                -> LMap = Rigo.Ledger.Map (extensional finite map): m[k] -> m[k]?,
//                                    m[k] = v -> insert, delete -> erase, make -> {}; `for k, v := range m`
//                                    visits `ord.order m.toList` for an explicit parameter ord : MapOrder
//                                    (any permutation: the theorems hold for every iteration order)
//   *iavl.MutableTree              -> LMap of the stored items: Get / Set / Remove -> lookup / insert / erase;
//                                    the stored bytes of an item are identified with the item (LBytes);
//                                    Encode / Decode are the identity and never fail, IAVL errors are `none`
//   x.getNewItem()                 -> nil (the fresh item is only used as the target of Decode)
//   verifhook calls                -> dropped
//   nested fields (embedded struct values) are assigned through `{ x with a.b := v }`
//   `return g(..)` of a multi-value call that threads state; a ranged slice that is modified right
//   before a `return`.
//
// defer: only Lock / Unlock of a sync mutex is dropped; every other deferred call is refused.

import (
	"fmt"
	"go/ast"
	"go/token"
	"go/types"
	"strings"
)

const ledgerPrelude = `
/-- Round 4, package 'ledger' itself (translate_ledger.go).  Trusted reading: the mutexes are dropped
    ('Lock' / 'defer Unlock': single-threaded semantics); an item (type parameter T) is a nil-able reference
    to an abstract value 'LVal' whose 'Key()' is the explicit parameter 'T_Key' (calling it on nil panics);
    the stored bytes of an item are identified with the item ('Encode' / 'Decode' are mutually inverse and
    do not fail), errors of the IAVL tree / its database are not modelled ('none'); 'SaveVersion' is an
    oracle; a Go map is an extensional finite map and a 'range' over it visits the entries in the order
    given by the explicit parameter 'MapOrder' (any permutation); 'verifhook' calls are dropped. -/
abbrev LKey := Rigo.Ledger.Key
abbrev LVal := Rigo.Ledger.Val
abbrev LMap := Rigo.Ledger.Map
/-- the stored bytes of an item: nil, or the encoding of exactly that item -/
abbrev LBytes := Option LVal
/-- 'bytes.Compare' on two 32-byte keys (big-endian numbers) -/
def cmpKey (a b : LKey) : Int := if a < b then -1 else if a = b then 0 else 1
/-- the order in which 'for k, v := range m' visits a map: unspecified in Go, so an explicit parameter -/
structure MapOrder where
  order : List (LKey × LVal) → List (LKey × LVal)
  perm : ∀ xs, (order xs).Perm xs
`

func (tr *translator) inLedger() bool { return tr.ledgerCtx > 0 }

func isLedgerItemParam(t types.Type) bool {
	if t == nil {
		return false
	}
	tp, ok := types.Unalias(t).(*types.TypeParam)
	if !ok {
		return false
	}
	c, ok := tp.Constraint().(*types.Named)
	return ok && c.Obj().Name() == "ILedgerItem"
}

func isKeyArray(t types.Type) bool {
	if t == nil {
		return false
	}
	a, ok := t.Underlying().(*types.Array)
	if !ok || a.Len() != 32 {
		return false
	}
	b, ok := a.Elem().Underlying().(*types.Basic)
	return ok && b.Kind() == types.Uint8
}

func isLedgerMap(t types.Type) bool {
	m := mapOf(t)
	return m != nil && isKeyArray(m.Key()) && isLedgerItemParam(m.Elem())
}

func isIavlTree(t types.Type) bool {
	if t == nil {
		return false
	}
	if p, ok := t.(*types.Pointer); ok {
		t = p.Elem()
	}
	n, ok := types.Unalias(t).(*types.Named)
	return ok && n.Obj().Pkg() != nil && n.Obj().Pkg().Path() == "github.com/cosmos/iavl" && n.Obj().Name() == "MutableTree"
}

// ledgerLeanType: the ledger-mode type map (ok=false: fall through to the general rules)
func (tr *translator) ledgerLeanType(t types.Type) (string, bool) {
	if !tr.inLedger() || t == nil {
		return "", false
	}
	switch {
	case isLedgerItemParam(t):
		return "(Option LVal)", true
	case isKeyArray(t):
		return "LKey", true
	case isLedgerMap(t):
		return "LMap", true
	case isIavlTree(t):
		return "LMap", true
	}
	return "", false
}

func (tr *translator) ledgerZero(t types.Type) (string, bool) {
	if !tr.inLedger() || t == nil {
		return "", false
	}
	switch {
	case isLedgerItemParam(t):
		return "none", true
	case isKeyArray(t):
		return "(0 : LKey)", true
	case isLedgerMap(t):
		return "({} : LMap)", true
	}
	return "", false
}

func (f *trFunc) inLedger() bool { return f.tr.inLedger() }

// round4: the constructs added in round 4 that are not specific to the ledger types (nested field
// assignment, threaded multi-value return, persist calls): functions of ledger and types/crypto
func (f *trFunc) round4() bool {
	return f.tr.inLedger() || (f.spec != nil && f.spec.Pkg == "types/crypto")
}

// fieldPath: l = x.a.b.c with x a variable and a, b, c fields -> (x, "a.b.c")
func (f *trFunc) fieldPath(l *ast.SelectorExpr, at ast.Node) (types.Object, string) {
	var parts []string
	cur := l
	for {
		if s := f.info.Selections[cur]; s == nil || s.Kind() != types.FieldVal {
			return nil, ""
		}
		parts = append([]string{f.fieldName(cur, at)}, parts...)
		if o := f.objOf(cur.X); o != nil {
			return o, strings.Join(parts, ".")
		}
		nx, ok := ast.Unparen(cur.X).(*ast.SelectorExpr)
		if !ok {
			return nil, ""
		}
		cur = nx
	}
}

// fieldRoot: the variable at the root of a chain of field selections (nil otherwise)
func (f *trFunc) fieldRoot(e ast.Expr) types.Object {
	for {
		e = ast.Unparen(e)
		if o := f.objOf(e); o != nil {
			if _, ok := o.(*types.Var); ok {
				return o
			}
			return nil
		}
		sel, ok := e.(*ast.SelectorExpr)
		if !ok {
			return nil
		}
		if s := f.info.Selections[sel]; s == nil || s.Kind() != types.FieldVal {
			return nil
		}
		e = sel.X
	}
}

func (f *trFunc) tKey() string {
	f.addExtra(extraParam{name: "T_Key", typ: "(LVal → LKey)", origin: "the `Key()` method of the item type T"})
	return "T_Key"
}

func (f *trFunc) mapOrd() string {
	f.addExtra(extraParam{name: "ord", typ: "MapOrder", origin: "the iteration order of `range` over a map"})
	return "ord"
}

// ledgerCall: the calls with a ledger-mode reading; returns the result components (statements go to f.pre)
func (f *trFunc) ledgerCall(c *ast.CallExpr) ([]string, bool) {
	if !f.inLedger() {
		return nil, false
	}
	sel, ok := ast.Unparen(c.Fun).(*ast.SelectorExpr)
	if !ok {
		return nil, false
	}
	xt := f.typeOf(sel.X)
	// methods of the item
	if isLedgerItemParam(xt) {
		switch sel.Sel.Name {
		case "Key":
			if len(c.Args) == 0 {
				return []string{"(" + f.tKey() + " (← gderef " + f.arg(sel.X) + "))"}, true
			}
		case "Encode":
			if len(c.Args) == 0 {
				return []string{"(some (← gderef " + f.arg(sel.X) + "))", "none"}, true
			}
		case "Decode":
			if len(c.Args) == 1 {
				if o := f.objOf(sel.X); o != nil {
					if f.inShort > 0 {
						f.problem(c, "Decode in a short-circuit operand")
					}
					v := f.arg(c.Args[0])
					f.pre = append(f.pre, f.assignToNoWB(sel.X, v, c)...)
					return []string{"none"}, true
				}
			}
		}
		f.problem(c, "method `%s` of the item type", sel.Sel.Name)
		return []string{"unsupported"}, true
	}
	// x.getNewItem(): a function-typed field that produces a fresh item
	if s := f.info.Selections[sel]; s != nil && s.Kind() == types.FieldVal {
		if sig, ok := f.typeOf(sel).Underlying().(*types.Signature); ok && sig.Params().Len() == 0 && sig.Results().Len() == 1 &&
			isLedgerItemParam(sig.Results().At(0).Type()) && len(c.Args) == 0 {
			return []string{"none"}, true
		}
	}
	// the IAVL tree
	if isIavlTree(xt) {
		if name := f.oracleFor(c); name != "" {
			return nil, false // handled as an oracle by the caller
		}
		if f.spec != nil && f.spec.Oracles != nil {
			if _, isOracle := f.spec.Oracles[f.src(c)]; isOracle {
				return nil, false
			}
		}
		T := f.arg(sel.X)
		switch sel.Sel.Name {
		case "Get":
			if len(c.Args) == 1 {
				return []string{"(" + T + "[" + f.expr(c.Args[0]) + "]?)", "none"}, true
			}
		case "Has":
			if len(c.Args) == 1 {
				return []string{"(" + T + "[" + f.expr(c.Args[0]) + "]?).isSome", "none"}, true
			}
		case "Set":
			if len(c.Args) == 2 {
				if f.inShort > 0 {
					f.problem(c, "tree update in a short-circuit operand")
				}
				k := f.tmp("__k")
				f.pre = append(f.pre, fmt.Sprintf("let %s : LKey := %s", k, f.expr(c.Args[0])))
				u := f.tmp("__u")
				f.pre = append(f.pre, fmt.Sprintf("let %s : Bool := (%s[%s]?).isSome", u, T, k))
				f.pre = append(f.pre, f.assignToNoWB(sel.X, fmt.Sprintf("(%s.insert %s (← gderef %s))", T, k, f.arg(c.Args[1])), c)...)
				return []string{u, "none"}, true
			}
		case "Remove":
			if len(c.Args) == 1 {
				if f.inShort > 0 {
					f.problem(c, "tree update in a short-circuit operand")
				}
				k := f.tmp("__k")
				f.pre = append(f.pre, fmt.Sprintf("let %s : LKey := %s", k, f.expr(c.Args[0])))
				o := f.tmp("__o")
				f.pre = append(f.pre, fmt.Sprintf("let %s : LBytes := (%s[%s]?)", o, T, k))
				f.pre = append(f.pre, f.assignToNoWB(sel.X, fmt.Sprintf("(%s.erase %s)", T, k), c)...)
				return []string{o, o + ".isSome", "none"}, true
			}
		}
		f.problem(c, "IAVL tree method `%s` (only Get / Has / Set / Remove; others must be oracles)", sel.Sel.Name)
		return []string{"unsupported"}, true
	}
	return nil, false
}

// isLBytesCall: a call whose first result is the stored form of an item
func (f *trFunc) isLBytesCall(c *ast.CallExpr) bool {
	sel, ok := ast.Unparen(c.Fun).(*ast.SelectorExpr)
	if !ok {
		return false
	}
	xt := f.typeOf(sel.X)
	if isLedgerItemParam(xt) && sel.Sel.Name == "Encode" {
		return true
	}
	return isIavlTree(xt) && (sel.Sel.Name == "Get" || sel.Sel.Name == "Remove")
}

// ledgerAssign: `a, b := <ledger-mode call>`
func (f *trFunc) ledgerAssign(s *ast.AssignStmt, define bool, ind string) ([]string, bool) {
	if !f.inLedger() || len(s.Rhs) != 1 || len(s.Lhs) < 2 {
		return nil, false
	}
	c, ok := ast.Unparen(s.Rhs[0]).(*ast.CallExpr)
	if !ok {
		return nil, false
	}
	vals, ok := f.ledgerCall(c)
	if !ok {
		return nil, false
	}
	var out []string
	out = append(out, f.flush(ind, &f.pre)...)
	if len(vals) != len(s.Lhs) {
		f.problem(s, "assignment arity of `%s`", f.src(c))
		return out, true
	}
	if f.isLBytesCall(c) {
		if o := f.objOf(s.Lhs[0]); o != nil {
			if f.lbytes == nil {
				f.lbytes = map[types.Object]bool{}
			}
			f.lbytes[o] = true
		}
	}
	for i, l := range s.Lhs {
		if id, ok := l.(*ast.Ident); ok && id.Name == "_" {
			continue
		}
		out = append(out, f.assignTo(l, vals[i], define, s, ind)...)
	}
	return out, true
}

// ledgerStmt: call statements with a ledger-mode reading
func (f *trFunc) ledgerStmt(c *ast.CallExpr, at ast.Stmt, ind string) ([]string, bool) {
	if !f.inLedger() {
		return nil, false
	}
	// copy(a[:], b[:]) on two keys
	if id, ok := ast.Unparen(c.Fun).(*ast.Ident); ok && id.Name == "copy" && len(c.Args) == 2 {
		if _, isB := f.info.Uses[id].(*types.Builtin); isB {
			a, ok1 := ast.Unparen(c.Args[0]).(*ast.SliceExpr)
			b, ok2 := ast.Unparen(c.Args[1]).(*ast.SliceExpr)
			if ok1 && ok2 && a.Low == nil && a.High == nil && b.Low == nil && b.High == nil &&
				isKeyArray(f.typeOf(a.X)) && isKeyArray(f.typeOf(b.X)) {
				v := f.expr(b.X)
				out := f.flush(ind, &f.pre)
				return append(out, f.assignTo(a.X, v, false, at, ind)...), true
			}
		}
	}
	// verifhook.X(..): test instrumentation
	if sel, ok := ast.Unparen(c.Fun).(*ast.SelectorExpr); ok {
		if id := identOf(sel.X); id != nil {
			if pn, ok := f.info.Uses[id].(*types.PkgName); ok && strings.HasSuffix(pn.Imported().Path(), "/libs/verifhook") {
				return nil, true
			}
		}
	}
	if vals, ok := f.ledgerCall(c); ok {
		_ = vals
		return f.flush(ind, &f.pre), true
	}
	return nil, false
}

// rangeLMap: `for k, v := range m` over a map[LedgerKey]T
func (f *trFunc) rangeLMap(s *ast.RangeStmt, ind string) []string {
	var out []string
	if s.Tok == token.ASSIGN {
		f.problem(s, "range with assignment to existing variables")
		return nil
	}
	// the ranged map itself must not change inside the loop (another map of the same object may)
	src := f.src(s.X)
	ast.Inspect(s.Body, func(n ast.Node) bool {
		switch x := n.(type) {
		case *ast.AssignStmt:
			for _, l := range x.Lhs {
				if ix, ok := ast.Unparen(l).(*ast.IndexExpr); ok && f.src(ix.X) == src {
					f.problem(x, "the ranged map `%s` is modified inside the loop", src)
				}
				if f.src(l) == src {
					f.problem(x, "the ranged map `%s` is replaced inside the loop", src)
				}
			}
		case *ast.CallExpr:
			if id, ok := ast.Unparen(x.Fun).(*ast.Ident); ok && id.Name == "delete" && len(x.Args) == 2 && f.src(x.Args[0]) == src {
				f.problem(x, "the ranged map `%s` is modified inside the loop", src)
			}
			if g, _ := f.callee(x); g != nil && len(g.mutParams) > 0 {
				f.problem(x, "call `%s` updates its arguments inside a range over a map", f.src(x))
			}
		case *ast.FuncLit:
			f.problem(x, "function literal inside a range over a map")
		}
		return true
	})
	xs := f.arg(s.X)
	out = append(out, f.flush(ind, &f.pre)...)
	l := f.tmp("__l")
	out = append(out, fmt.Sprintf("%slet %s := (%s.order %s.toList)", ind, l, f.mapOrd(), xs))
	e := f.tmp("__e")
	out = append(out, fmt.Sprintf("%sfor %s in %s do", ind, e, l))
	if id, ok := s.Key.(*ast.Ident); ok && id.Name != "_" {
		o := f.info.Defs[id]
		f.rangeVal[o] = true
		out = append(out, fmt.Sprintf("%s  let %s : LKey := %s.1", ind, f.nameOf(o), e))
	}
	if s.Value != nil {
		if id, ok := s.Value.(*ast.Ident); ok && id.Name != "_" {
			o := f.info.Defs[id]
			f.rangeVal[o] = true
			out = append(out, fmt.Sprintf("%s  let %s : (Option LVal) := some %s.2", ind, f.nameOf(o), e))
		}
	}
	root := f.rootObj(s.X)
	before := f.assigned[root]
	f.loopDepth++
	f.fuelFlag = append(f.fuelFlag, "")
	f.fuelPost = append(f.fuelPost, false)
	f.wbStack = append(f.wbStack, "")
	body := f.block(s.Body.List, ind+"  ")
	f.wbStack = f.wbStack[:len(f.wbStack)-1]
	f.fuelFlag = f.fuelFlag[:len(f.fuelFlag)-1]
	f.fuelPost = f.fuelPost[:len(f.fuelPost)-1]
	f.loopDepth--
	f.assigned[root] = before || f.assigned[root]
	return append(out, body...)
}

// modifiedThenReturn: every assignment inside the body of the range statement that touches the ranged
// slice is a statement of a block that ends with `return` (the loop is left before the next iteration)
func (f *trFunc) modifiedThenReturn(s *ast.RangeStmt) bool {
	root := f.rootObj(s.X)
	ok := true
	var visit func(list []ast.Stmt)
	visit = func(list []ast.Stmt) {
		endsInReturn := false
		if n := len(list); n > 0 {
			_, endsInReturn = list[n-1].(*ast.ReturnStmt)
		}
		for _, st := range list {
			switch x := st.(type) {
			case *ast.AssignStmt:
				for _, l := range x.Lhs {
					if f.rootObj(l) == root && !endsInReturn {
						ok = false
					}
				}
			case *ast.IfStmt:
				if x.Init != nil {
					visit([]ast.Stmt{x.Init})
				}
				visit(x.Body.List)
				switch e := x.Else.(type) {
				case *ast.BlockStmt:
					visit(e.List)
				case *ast.IfStmt:
					visit([]ast.Stmt{e})
				}
			case *ast.ReturnStmt, *ast.BranchStmt, *ast.EmptyStmt:
			case *ast.ExprStmt:
				if c, isCall := x.X.(*ast.CallExpr); isCall {
					if g, _ := f.callee(c); g != nil && len(g.mutParams) > 0 && !endsInReturn {
						ok = false
					}
				}
			default:
				ok = false
			}
		}
	}
	visit(s.Body.List)
	return ok
}

// sortArgType: sort.Sort(x) with x of a named slice type (no conversion) -> x
func (f *trFunc) sortArgDirect(c *ast.CallExpr) ast.Expr {
	sel, ok := ast.Unparen(c.Fun).(*ast.SelectorExpr)
	if !ok || sel.Sel.Name != "Sort" || len(c.Args) != 1 {
		return nil
	}
	id := identOf(sel.X)
	if id == nil {
		return nil
	}
	pn, ok := f.info.Uses[id].(*types.PkgName)
	if !ok || pn.Imported().Path() != "sort" {
		return nil
	}
	if f.objOf(c.Args[0]) == nil {
		return nil
	}
	t := f.typeOf(c.Args[0])
	if t == nil {
		return nil
	}
	if _, ok := types.Unalias(t).(*types.Named); !ok {
		return nil
	}
	if _, ok := t.Underlying().(*types.Slice); !ok {
		return nil
	}
	return c.Args[0]
}

// rangedUntouched: no statement of the loop body assigns the ranged expression, a prefix of it or a
// part of it (by field path), directly, through a threaded call or through a tree update
func (f *trFunc) rangedUntouched(s *ast.RangeStmt) bool {
	src := f.src(s.X)
	overlap := func(a string) bool {
		return a == src || strings.HasPrefix(a, src+".") || strings.HasPrefix(a, src+"[") || strings.HasPrefix(src, a+".") || strings.HasPrefix(src, a+"[")
	}
	ok := true
	ast.Inspect(s.Body, func(n ast.Node) bool {
		switch x := n.(type) {
		case *ast.AssignStmt:
			for _, l := range x.Lhs {
				if overlap(f.src(l)) {
					ok = false
				}
			}
		case *ast.IncDecStmt:
			if overlap(f.src(x.X)) {
				ok = false
			}
		case *ast.CallExpr:
			if g, _ := f.callee(x); g != nil {
				args := f.callArgs(x)
				for _, mp := range g.mutParams {
					for i, p := range g.params {
						if p == mp && i < len(args) && overlap(f.src(args[i])) {
							ok = false
						}
					}
				}
			} else if sel, isSel := ast.Unparen(x.Fun).(*ast.SelectorExpr); isSel {
				if isIavlTree(f.typeOf(sel.X)) && overlap(f.src(sel.X)) {
					ok = false
				}
				if id, isId := ast.Unparen(x.Fun).(*ast.Ident); isId && id.Name == "delete" {
					ok = false
				}
			}
			if id, isId := ast.Unparen(x.Fun).(*ast.Ident); isId && (id.Name == "delete" || id.Name == "copy") {
				for _, a := range x.Args {
					if overlap(f.src(a)) {
						ok = false
					}
				}
			}
		case *ast.FuncLit:
			ok = false
		}
		return true
	})
	return ok
}

// persistStmt: a call listed under "persist" in funcs.json (`pv.LastSignState.Save()`): the receiver's
// current value becomes the durable copy, held in a ghost field of the root variable
func (f *trFunc) persistStmt(c *ast.CallExpr, at ast.Stmt, ind string) ([]string, bool) {
	if f.spec == nil || f.spec.Persist == nil {
		return nil, false
	}
	ghost, ok := f.spec.Persist[f.src(c)]
	if !ok {
		return nil, false
	}
	f.oracleUsed["persist:"+f.src(c)] = true
	sel, ok := ast.Unparen(c.Fun).(*ast.SelectorExpr)
	if !ok || len(c.Args) != 0 {
		f.problem(at, "persist call `%s`: not a method call without arguments", f.src(c))
		return nil, true
	}
	root := f.fieldRoot(sel.X)
	if root == nil || f.opt[root] {
		f.problem(at, "persist call `%s`: the receiver is not a field of a variable", f.src(c))
		return nil, true
	}
	if f.loopDepth > 0 || len(f.closure) > 0 {
		f.problem(at, "persist call inside a loop / closure")
	}
	v := f.expr(sel.X)
	out := f.flush(ind, &f.pre)
	n := f.nameOf(root)
	f.assigned[root] = true
	return append(out, fmt.Sprintf("%s%s := { %s with %s := %s }", ind, n, n, ghost, v)), true
}
