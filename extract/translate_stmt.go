package main

// Statement translation (Go statements -> lines of a Lean `do` block).

import (
	"fmt"
	"go/ast"
	"go/token"
	"go/types"
	"strings"
)

// pre-statements produced while translating an expression (calls that thread a mutated parameter)
var _ = fmt.Sprint

func (f *trFunc) flush(ind string, pre *[]string) []string {
	var out []string
	for _, l := range *pre {
		out = append(out, ind+l)
	}
	*pre = nil
	return out
}

func (f *trFunc) block(list []ast.Stmt, ind string) []string {
	var out []string
	for _, s := range list {
		out = append(out, f.stmt(s, ind)...)
	}
	if len(out) == 0 {
		out = append(out, ind+"pure ()")
	}
	return out
}

func isMutexCall(f *trFunc, e ast.Expr) bool {
	c, ok := ast.Unparen(e).(*ast.CallExpr)
	if !ok {
		return false
	}
	sel, ok := ast.Unparen(c.Fun).(*ast.SelectorExpr)
	if !ok {
		return false
	}
	t := f.typeOf(sel.X)
	return t != nil && isSyncType(t)
}

func isPanicCall(e ast.Expr) bool {
	c, ok := ast.Unparen(e).(*ast.CallExpr)
	if !ok {
		return false
	}
	id, ok := c.Fun.(*ast.Ident)
	return ok && id.Name == "panic"
}

func (f *trFunc) stmt(s ast.Stmt, ind string) []string {
	out := f.stmt0(s, ind)
	switch s.(type) {
	case *ast.ExprStmt, *ast.AssignStmt:
		out = append(out, f.detachAfter(s, ind)...)
	}
	return out
}

func (f *trFunc) stmt0(s ast.Stmt, ind string) []string {
	var out []string
	switch s := s.(type) {
	case *ast.EmptyStmt:
		return nil
	case *ast.BlockStmt:
		return f.block(s.List, ind)
	case *ast.DeferStmt:
		if isMutexCall(f, s.Call) {
			return nil
		}
		f.problem(s, "defer of `%s`", f.src(s.Call))
		return nil
	case *ast.ExprStmt:
		return f.exprStmt(s.X, s, ind)
	case *ast.DeclStmt:
		gd, ok := s.Decl.(*ast.GenDecl)
		if !ok || gd.Tok != token.VAR {
			f.problem(s, "declaration statement")
			return nil
		}
		for _, sp := range gd.Specs {
			vs := sp.(*ast.ValueSpec)
			for i, nm := range vs.Names {
				o := f.info.Defs[nm]
				if o == nil {
					continue
				}
				var val string
				if len(vs.Values) == 0 {
					z, err := f.tr.zeroValue(o.Type())
					if err != nil {
						f.problem(s, "%v", err)
						z = "default"
					}
					val = z
				} else if len(vs.Values) == len(vs.Names) {
					val = f.coerce(vs.Values[i], f.opt[o])
				} else {
					f.problem(s, "multi-value var declaration")
					continue
				}
				out = append(out, f.flush(ind, &f.pre)...)
				out = append(out, fmt.Sprintf("%slet mut %s : %s := %s", ind, f.nameOf(o), f.varType(o), val))
			}
		}
		return out
	case *ast.IncDecStmt:
		op := token.ADD
		if s.Tok == token.DEC {
			op = token.SUB
		}
		t := f.typeOf(s.X)
		one := "(1 : Int)"
		if intKindOf(t) != sInt {
			one = "(1 : Nat)"
		}
		val := f.arithOp(op, t, f.expr(s.X), one, s)
		out = append(out, f.flush(ind, &f.pre)...)
		return append(out, f.assignTo(s.X, val, false, s, ind)...)
	case *ast.AssignStmt:
		return f.assignStmt(s, ind)
	case *ast.ReturnStmt:
		if len(f.closure) > 0 {
			return f.closureReturn(s, ind)
		}
		sig := f.node.Obj.Type().(*types.Signature)
		var rs []string
		if len(s.Results) == sig.Results().Len() {
			for i, r := range s.Results {
				rs = append(rs, f.coerceT(r, f.resOpt[i], sig.Results().At(i).Type()))
			}
		} else if len(s.Results) == 1 && sig.Results().Len() > 1 {
			c, ok := ast.Unparen(s.Results[0]).(*ast.CallExpr)
			g, _ := f.callee(c)
			if ok && g != nil && f.inLedger() && len(g.resOpt) == sig.Results().Len() {
				v := f.expr(c)
				out = append(out, f.flush(ind, &f.pre)...)
				q := f.tmp("__q")
				out = append(out, fmt.Sprintf("%slet %s := %s", ind, q, v))
				for i := range g.resOpt {
					rs = append(rs, proj(q, i, len(g.resOpt)))
				}
				return append(out, ind+f.returnLine(s, rs))
			}
			if !ok || g == nil || len(g.mutParams) > 0 || len(f.mutParams) > 0 {
				f.problem(s, "return of a multi-value call")
			} else {
				for i := range g.resOpt {
					if g.resOpt[i] != f.resOpt[i] {
						f.problem(s, "return of a multi-value call with different nil-ability")
					}
				}
				v := f.expr(c)
				out = append(out, f.flush(ind, &f.pre)...)
				return append(out, ind+"return "+v)
			}
		} else if len(s.Results) != 0 {
			f.problem(s, "return arity")
		}
		out = append(out, f.flush(ind, &f.pre)...)
		return append(out, ind+f.returnLine(s, rs))
	case *ast.IfStmt:
		if s.Init != nil {
			out = append(out, f.stmt(s.Init, ind)...)
		}
		c := f.cond(s.Cond)
		out = append(out, f.flush(ind, &f.pre)...)
		if f.spec != nil && f.spec.CondAssign && s.Init == nil && s.Else == nil && len(s.Body.List) == 1 {
			if as, ok := s.Body.List[0].(*ast.AssignStmt); ok && as.Tok == token.ASSIGN && len(as.Lhs) == 1 && len(as.Rhs) == 1 {
				if sel, ok := ast.Unparen(as.Lhs[0]).(*ast.SelectorExpr); ok {
					if o := f.objOf(sel.X); o != nil && !f.opt[o] && f.alias[o] == nil && f.wrapOf(sel) == nil {
						npre := len(f.pre)
						val := f.coerceT(as.Rhs[0], f.lhsOpt(as.Lhs[0]), f.typeOf(as.Lhs[0]))
						if len(f.pre) == npre && !monadic(val) {
							n := f.nameOf(o)
							f.assigned[o] = true
							fld := f.fieldName(sel, s)
							return append(out, fmt.Sprintf("%s%s := { %s with %s := if %s then %s else %s.%s }", ind, n, n, fld, c, val, n, fld))
						}
						f.pre = f.pre[:npre]
					}
				}
			}
		}
		out = append(out, ind+"if "+c+" then")
		out = append(out, f.block(s.Body.List, ind+"  ")...)
		if s.Else != nil {
			out = append(out, ind+"else")
			switch e := s.Else.(type) {
			case *ast.BlockStmt:
				out = append(out, f.block(e.List, ind+"  ")...)
			default:
				out = append(out, f.stmt(e, ind+"  ")...)
			}
		}
		return out
	case *ast.BranchStmt:
		if s.Label != nil {
			f.problem(s, "labelled %s", s.Tok)
			return nil
		}
		switch s.Tok {
		case token.BREAK:
			if f.loopDepth == 0 {
				f.problem(s, "break outside a loop (switch)")
				return nil
			}
			if n := len(f.fuelFlag); n > 0 && f.fuelFlag[n-1] != "" {
				out = append(out, ind+f.fuelFlag[n-1]+" := true")
			}
			return append(out, ind+"break")
		case token.CONTINUE:
			if n := len(f.fuelPost); n > 0 && f.fuelPost[n-1] {
				f.problem(s, "continue in a loop with a post statement")
			}
			if n := len(f.wbStack); n > 0 && f.wbStack[n-1] != "" {
				out = append(out, ind+f.wbStack[n-1])
			}
			return append(out, ind+"continue")
		}
		f.problem(s, "%s statement", s.Tok)
		return nil
	case *ast.RangeStmt:
		return f.rangeStmt(s, ind)
	case *ast.ForStmt:
		return f.forStmt(s, ind)
	case *ast.SwitchStmt:
		return f.switchStmt(s, ind)
	}
	f.problem(s, "statement %T", s)
	return nil
}

func (f *trFunc) exprStmt(x ast.Expr, at ast.Stmt, ind string) []string {
	var out []string
	x = ast.Unparen(x)
	if isMutexCall(f, x) || isLoggerCall(f, x) {
		return nil
	}
	if isPanicCall(x) {
		return []string{ind + "throw \"panic\""}
	}
	c, ok := x.(*ast.CallExpr)
	if !ok {
		f.problem(at, "expression statement `%s`", f.src(x))
		return nil
	}
	if lines, ok := f.ledgerStmt(c, at, ind); ok {
		return lines
	}
	if lines, ok := f.persistStmt(c, at, ind); ok {
		return lines
	}
	// delete(m, k)
	if id, ok := ast.Unparen(c.Fun).(*ast.Ident); ok && id.Name == "delete" && len(c.Args) == 2 {
		if _, isB := f.info.Uses[id].(*types.Builtin); isB {
			m := mapOf(f.typeOf(c.Args[0]))
			if f.inLedger() && isLedgerMap(f.typeOf(c.Args[0])) {
				key := f.arg(c.Args[1])
				cont := f.arg(c.Args[0])
				out = append(out, f.flush(ind, &f.pre)...)
				return append(out, f.assignTo0(c.Args[0], fmt.Sprintf("(%s.erase %s)", cont, key), false, at, ind)...)
			}
			if m == nil || !isStringType(m.Key()) {
				f.problem(at, "delete on %s", f.tr.pr.typeStr(f.typeOf(c.Args[0])))
				return nil
			}
			if root := f.rootObj(c.Args[0]); root != nil {
				for _, p := range f.params {
					if p == root && mapOf(p.Type()) != nil {
						f.problem(at, "delete from the map parameter `%s` (the caller's map would change)", p.Name())
					}
				}
			}
			key := f.arg(c.Args[1])
			cont := f.arg(c.Args[0])
			out = append(out, f.flush(ind, &f.pre)...)
			out = append(out, f.assignTo0(c.Args[0], fmt.Sprintf("(mapDel %s %s)", cont, key), false, at, ind)...)
			for _, k := range f.aliasKill(c.Args[0], key) {
				out = append(out, ind+k)
			}
			return out
		}
	}
	// sort.Sort(T(x)): an abstract sort for T's translated Less, passed as an explicit parameter
	xsSort := f.sortedExpr(c)
	var sortT types.Type
	if xsSort != nil {
		sortT = f.info.Types[ast.Unparen(c.Args[0]).(*ast.CallExpr).Fun].Type
	} else if f.inLedger() {
		if xsSort = f.sortArgDirect(c); xsSort != nil {
			sortT = f.typeOf(xsSort)
		}
	}
	if xs := xsSort; xs != nil {
		tv := struct{ Type types.Type }{sortT}
		var less *types.Func
		ms := types.NewMethodSet(tv.Type)
		for i := 0; i < ms.Len(); i++ {
			if fn, ok := ms.At(i).Obj().(*types.Func); ok && fn.Name() == "Less" {
				less = fn
			}
		}
		var g *trFunc
		if less != nil && f.tr.pr.inModule(less.Pkg()) {
			g = f.tr.get(less.Origin())
		}
		if g == nil || len(g.problems) > 0 || len(g.extras) > 0 || len(g.mutParams) > 0 {
			f.problem(at, "sort.Sort(%s): the Less method of the order is not a translated whitelisted function", f.tr.pr.typeStr(sortT))
			return nil
		}
		_, tn := recvTypeName(tv.Type)
		name := "srt_" + tn
		f.addExtra(extraParam{name: name, typ: "(SortOf " + g.spec.Lean + ")", origin: "the sort used by `" + f.src(c) + "`"})
		val := "(" + name + ".sort " + f.arg(xs) + ")"
		out = append(out, f.flush(ind, &f.pre)...)
		if root := f.rootObj(xs); root != nil {
			for _, p := range f.params {
				if p == root && p.Type().Underlying() != nil {
					if _, isSl := p.Type().Underlying().(*types.Slice); isSl {
						f.problem(at, "sort.Sort of the slice parameter `%s` (the caller's slice would change)", p.Name())
					}
				}
			}
		}
		return append(out, f.assignTo0(xs, val, false, at, ind)...)
	}
	// in-place uint256 setter: z.Op(args)  ==>  z := op args
	if sel, ok := ast.Unparen(c.Fun).(*ast.SelectorExpr); ok && isUint256(f.typeOf(sel.X)) && uint256Setter[sel.Sel.Name] {
		if !f.isFreshU256(sel.X) {
			val := f.uint256Call(c, sel, true)
			out = append(out, f.flush(ind, &f.pre)...)
			if o := f.objOf(sel.X); o != nil {
				for _, p := range f.params {
					if p == o {
						f.problem(at, "in-place update of the *uint256.Int parameter `%s`", o.Name())
					}
				}
			}
			return append(out, f.assignTo(sel.X, val, false, at, ind)...)
		}
	}
	if g, _ := f.callee(c); g != nil {
		v := f.expr(c)
		out = append(out, f.flush(ind, &f.pre)...)
		if v != "()" {
			out = append(out, ind+"let _ := "+v)
		}
		return out
	}
	if name := f.oracleFor(c); name != "" {
		return append(out, f.flush(ind, &f.pre)...)
	}
	if _, ok := f.specialCall(c); ok {
		return append(out, f.flush(ind, &f.pre)...)
	}
	if fl := f.flOf(c); fl != nil {
		return f.flAlt(fl, ind, func(alt *ast.SelectorExpr, in2 string) []string {
			return f.exprStmt(f.altCall(c, alt), at, in2)
		})
	}
	if _, ok := f.oracleFnFor(c); ok {
		return append(out, f.flush(ind, &f.pre)...)
	}
	f.problem(at, "call statement `%s`", f.src(x))
	return nil
}

// assignTo: `l = val` (define = the := form for new variables); a write through a pointer to a
// slice / map element is followed by the write-back into the container
func (f *trFunc) assignTo(l ast.Expr, val string, define bool, at ast.Node, ind string) []string {
	out := f.assignTo0(l, val, define, at, ind)
	if sel, ok := ast.Unparen(l).(*ast.SelectorExpr); ok {
		if o := f.objOf(sel.X); o != nil && f.alias[o] != nil {
			for _, w := range f.aliasWriteBack(o, at) {
				out = append(out, ind+w)
			}
		}
	}
	return out
}

// assignToNoWB: assignment of a whole value to a variable / field, without indentation
func (f *trFunc) assignToNoWB(l ast.Expr, val string, at ast.Node) []string {
	return f.assignTo0(l, val, false, at, "")
}

func (f *trFunc) assignTo0(l ast.Expr, val string, define bool, at ast.Node, ind string) []string {
	l = ast.Unparen(l)
	switch l := l.(type) {
	case *ast.Ident:
		if l.Name == "_" {
			return []string{ind + "let _ := " + val}
		}
		if o := f.info.Defs[l]; o != nil && define {
			return []string{fmt.Sprintf("%slet mut %s : %s := %s", ind, f.nameOf(o), f.varType(o), val)}
		}
		o := f.useOf(l)
		if v, ok := o.(*types.Var); ok && !v.IsField() && v.Pkg() != nil && v.Parent() != v.Pkg().Scope() {
			if f.rangeVal[o] {
				f.problem(at, "assignment to the range variable `%s`", l.Name)
			}
			f.assigned[o] = true
			return []string{fmt.Sprintf("%s%s := %s", ind, f.nameOf(o), val)}
		}
		f.problem(at, "assignment to `%s`", l.Name)
		return nil
	case *ast.SelectorExpr:
		o := f.objOf(l.X)
		if o == nil && f.round4() {
			if ro, path := f.fieldPath(l, at); ro != nil && !f.opt[ro] {
				n := f.nameOf(ro)
				f.assigned[ro] = true
				return []string{fmt.Sprintf("%s%s := { %s with %s := %s }", ind, n, n, path, val)}
			}
		}
		if o == nil {
			f.problem(at, "assignment to `%s` (nested field)", f.src(l))
			return nil
		}
		fld := f.fieldName(l, at)
		n := f.nameOf(o)
		f.assigned[o] = true
		if !f.synth[l] {
			if w := f.wrapOf(l); w != nil {
				val = "(" + val + ")." + w.Proj
			}
		}
		if f.opt[o] {
			return []string{fmt.Sprintf("%s%s := some { (← gderef %s) with %s := %s }", ind, n, n, fld, val)}
		}
		return []string{fmt.Sprintf("%s%s := { %s with %s := %s }", ind, n, n, fld, val)}
	case *ast.IndexExpr:
		if f.inLedger() && isLedgerMap(f.typeOf(l.X)) {
			key := f.arg(l.Index)
			cont := f.arg(l.X)
			return f.assignTo0(l.X, fmt.Sprintf("(%s.insert %s (← gderef %s))", cont, key, paren(val)), false, at, ind)
		}
		if m := mapOf(f.typeOf(l.X)); m != nil && isStringType(m.Key()) {
			key := f.arg(l.Index)
			cont := f.arg(l.X)
			var out []string
			if root := f.rootObj(l.X); root != nil {
				for _, p := range f.params {
					if p == root && mapOf(p.Type()) != nil {
						f.problem(at, "assignment into the map parameter `%s` (the caller's map would change)", p.Name())
					}
				}
			}
			out = append(out, f.assignTo0(l.X, fmt.Sprintf("(mapSet %s %s %s)", cont, key, paren(val)), false, at, ind)...)
			for _, k := range f.aliasKill(l.X, key) {
				out = append(out, ind+k)
			}
			return out
		}
	}
	f.problem(at, "assignment to `%s`", f.src(l))
	return nil
}

func (f *trFunc) lhsOpt(l ast.Expr) bool {
	if o := f.objOf(l); o != nil {
		return f.opt[o]
	}
	if sel, ok := ast.Unparen(l).(*ast.SelectorExpr); ok {
		return f.isOptionalField(sel)
	}
	return false
}

func (f *trFunc) assignStmt(s *ast.AssignStmt, ind string) []string {
	var out []string
	define := s.Tok == token.DEFINE
	if s.Tok != token.ASSIGN && s.Tok != token.DEFINE {
		// op-assign
		var op token.Token
		switch s.Tok {
		case token.ADD_ASSIGN:
			op = token.ADD
		case token.SUB_ASSIGN:
			op = token.SUB
		case token.MUL_ASSIGN:
			op = token.MUL
		case token.QUO_ASSIGN:
			op = token.QUO
		case token.REM_ASSIGN:
			op = token.REM
		default:
			f.problem(s, "operator %s", s.Tok)
			return nil
		}
		val := f.arithOp(op, f.typeOf(s.Lhs[0]), f.expr(s.Lhs[0]), f.expr(s.Rhs[0]), s)
		out = append(out, f.flush(ind, &f.pre)...)
		return append(out, f.assignTo(s.Lhs[0], val, false, s, ind)...)
	}
	if a := f.aliasBind[s]; a != nil {
		return f.aliasBinding(s, a, ind)
	}
	if lines, ok := f.ctrlAssign(s, define, ind); ok {
		return lines
	}
	if lines, ok := f.ledgerAssign(s, define, ind); ok {
		return lines
	}
	// v, ok := m[k]
	if len(s.Lhs) == 2 && len(s.Rhs) == 1 {
		if ix, ok := ast.Unparen(s.Rhs[0]).(*ast.IndexExpr); ok && f.inLedger() && isLedgerMap(f.typeOf(ix.X)) {
			raw := "(" + f.arg(ix.X) + "[" + f.expr(ix.Index) + "]?)"
			out = append(out, f.flush(ind, &f.pre)...)
			t := f.tmp("__m")
			out = append(out, fmt.Sprintf("%slet %s : (Option LVal) := %s", ind, t, raw))
			if id, ok := s.Lhs[0].(*ast.Ident); !ok || id.Name != "_" {
				out = append(out, f.assignTo(s.Lhs[0], t, define, s, ind)...)
			}
			if id, ok := s.Lhs[1].(*ast.Ident); !ok || id.Name != "_" {
				out = append(out, f.assignTo(s.Lhs[1], t+".isSome", define, s, ind)...)
			}
			return out
		}
		if ix, ok := ast.Unparen(s.Rhs[0]).(*ast.IndexExpr); ok && mapOf(f.typeOf(ix.X)) != nil {
			m := mapOf(f.typeOf(ix.X))
			g := f.expr(ix) // (mapGet ..) or ((mapGet ..).getD z)
			raw := "(mapGet " + f.arg(ix.X) + " " + f.arg(ix.Index) + ")"
			out = append(out, f.flush(ind, &f.pre)...)
			t := f.tmp("__m")
			out = append(out, fmt.Sprintf("%slet %s := %s", ind, t, raw))
			v := t
			if !isStructPtr(m.Elem()) {
				_ = g
				z, err := f.tr.zeroValue(m.Elem())
				if err != nil {
					f.problem(s, "%v", err)
					z = "default"
				}
				v = "(" + t + ".getD " + z + ")"
			}
			if id, ok := s.Lhs[0].(*ast.Ident); !ok || id.Name != "_" {
				out = append(out, f.assignTo(s.Lhs[0], v, define, s, ind)...)
			}
			if id, ok := s.Lhs[1].(*ast.Ident); !ok || id.Name != "_" {
				out = append(out, f.assignTo(s.Lhs[1], t+".isSome", define, s, ind)...)
			}
			return out
		}
	}
	// results of an oracle call
	if len(s.Lhs) > 1 && len(s.Rhs) == 1 {
		if c, ok := ast.Unparen(s.Rhs[0]).(*ast.CallExpr); ok {
			if name := f.oracleFor(c); name != "" {
				for i, l := range s.Lhs {
					if id, ok := l.(*ast.Ident); ok && id.Name == "_" {
						continue
					}
					val := proj(name, i, len(s.Lhs))
					if tup, ok := f.typeOf(c).(*types.Tuple); ok && i < tup.Len() && isStructPtr(tup.At(i).Type()) && !f.lhsOpt(l) {
						val = "(← gderef " + val + ")"
					}
					out = append(out, f.assignTo(l, val, define, s, ind)...)
				}
				return out
			}
		}
	}
	if len(s.Lhs) == len(s.Rhs) {
		if len(s.Lhs) == 1 {
			if id, ok := s.Lhs[0].(*ast.Ident); ok && id.Name == "_" {
				if _, isCall := ast.Unparen(s.Rhs[0]).(*ast.CallExpr); isCall {
					return f.exprStmt(s.Rhs[0], s, ind)
				}
			}
			val := f.coerceT(s.Rhs[0], f.lhsOpt(s.Lhs[0]), f.typeOf(s.Lhs[0]))
			out = append(out, f.flush(ind, &f.pre)...)
			out = append(out, f.assignTo(s.Lhs[0], val, define, s, ind)...)
			if o := f.objOf(s.Lhs[0]); o != nil && f.alias[o] != nil && f.alias[o].flag != "" {
				out = append(out, ind+f.alias[o].flag+" := false") // re-bound to a fresh object / nil: detached
			}
			return out
		}
		// parallel assignment: evaluate all right-hand sides first
		var tmps []string
		for i, r := range s.Rhs {
			val := f.coerceT(r, f.lhsOpt(s.Lhs[i]), f.typeOf(s.Lhs[i]))
			out = append(out, f.flush(ind, &f.pre)...)
			t := f.tmp("__v")
			out = append(out, fmt.Sprintf("%slet %s := %s", ind, t, val))
			tmps = append(tmps, t)
		}
		for i, l := range s.Lhs {
			out = append(out, f.assignTo(l, tmps[i], define, s, ind)...)
		}
		return out
	}
	if len(s.Rhs) == 1 {
		c, ok := ast.Unparen(s.Rhs[0]).(*ast.CallExpr)
		if ok {
			if g, _ := f.callee(c); g != nil {
				if len(g.resOpt) != len(s.Lhs) {
					f.problem(s, "assignment arity")
					return nil
				}
				v := f.expr(c)
				out = append(out, f.flush(ind, &f.pre)...)
				t := f.tmp("__t")
				out = append(out, fmt.Sprintf("%slet %s := %s", ind, t, v))
				for i, l := range s.Lhs {
					if id, ok := l.(*ast.Ident); ok && id.Name == "_" {
						continue
					}
					val := proj(t, i, len(s.Lhs))
					if f.lhsOpt(l) && !g.resOpt[i] {
						val = "(some " + val + ")"
					}
					out = append(out, f.assignTo(l, val, define, s, ind)...)
				}
				return out
			}
		}
	}
	f.problem(s, "assignment `%s`", f.src(s.Rhs[0]))
	return nil
}

// proj: component i of an n-tuple value t
func proj(t string, i, n int) string {
	if n == 1 {
		return t
	}
	s := t
	for k := 0; k < i; k++ {
		s += ".2"
	}
	if i < n-1 {
		s += ".1"
	}
	return s
}

func (f *trFunc) rootObj(e ast.Expr) types.Object {
	for {
		e = ast.Unparen(e)
		switch x := e.(type) {
		case *ast.SelectorExpr:
			e = x.X
		case *ast.IndexExpr:
			e = x.X
		case *ast.SliceExpr:
			e = x.X
		case *ast.CallExpr:
			if tv, ok := f.info.Types[x.Fun]; ok && tv.IsType() && len(x.Args) == 1 {
				e = x.Args[0]
			} else {
				return nil
			}
		default:
			return f.objOf(e)
		}
	}
}

func (f *trFunc) rangeStmt(s *ast.RangeStmt, ind string) []string {
	var out []string
	t := f.typeOf(s.X)
	if t == nil {
		f.problem(s, "range")
		return nil
	}
	if f.inLedger() && isLedgerMap(t) {
		return f.rangeLMap(s, ind)
	}
	if m := mapOf(t); m != nil && isStringType(m.Key()) {
		return f.rangeMap(s, m, ind)
	}
	if _, ok := t.Underlying().(*types.Slice); !ok || isByteSlice(t) {
		f.problem(s, "range over %s", f.tr.pr.typeStr(t))
		return nil
	}
	if s.Tok == token.ASSIGN {
		f.problem(s, "range with assignment to existing variables")
		return nil
	}
	xs := f.expr(s.X)
	out = append(out, f.flush(ind, &f.pre)...)
	key := ""
	if s.Key != nil {
		if id, ok := s.Key.(*ast.Ident); ok && id.Name != "_" {
			o := f.info.Defs[id]
			key = f.nameOf(o)
			f.rangeVal[o] = true
			out = append(out, fmt.Sprintf("%slet mut %s : Int := -1", ind, key))
		}
	}
	val := "_"
	wb, isWB := f.writeBack[s]
	wbLine := ""
	if s.Value != nil {
		if id, ok := s.Value.(*ast.Ident); ok && id.Name != "_" {
			o := f.info.Defs[id]
			val = f.nameOf(o)
			f.rangeVal[o] = true
		}
	}
	if isWB {
		et := f.varTypeOf(f.typeOf(s.X))
		out = append(out, fmt.Sprintf("%slet mut %s : %s := []", ind, wb, et))
		out = append(out, fmt.Sprintf("%sfor %s__e in %s do", ind, val, xs))
		out = append(out, fmt.Sprintf("%s  let mut %s := %s__e", ind, val, val))
		wbLine = fmt.Sprintf("%s := %s ++ [%s]", wb, wb, val)
	} else {
		out = append(out, fmt.Sprintf("%sfor %s in %s do", ind, val, xs))
	}
	if key != "" {
		out = append(out, fmt.Sprintf("%s  %s := %s + 1", ind, key, key))
	}
	root := f.rootObj(s.X)
	before := f.assigned[root]
	f.assigned[root] = false
	f.loopDepth++
	f.fuelFlag = append(f.fuelFlag, "")
	f.fuelPost = append(f.fuelPost, false)
	f.wbStack = append(f.wbStack, wbLine)
	body := f.block(s.Body.List, ind+"  ")
	f.wbStack = f.wbStack[:len(f.wbStack)-1]
	f.fuelFlag = f.fuelFlag[:len(f.fuelFlag)-1]
	f.fuelPost = f.fuelPost[:len(f.fuelPost)-1]
	f.loopDepth--
	if root != nil && f.assigned[root] && !(f.inLedger() && (f.rangedUntouched(s) || f.modifiedThenReturn(s))) {
		f.problem(s, "the ranged slice `%s` is modified inside the loop", f.src(s.X))
	}
	f.assigned[root] = before || f.assigned[root]
	out = append(out, body...)
	if isWB {
		endsInContinue := false
		if n := len(s.Body.List); n > 0 {
			if b, ok := s.Body.List[n-1].(*ast.BranchStmt); ok && b.Tok == token.CONTINUE {
				endsInContinue = true
			}
		}
		if !endsInContinue {
			out = append(out, ind+"  "+wbLine)
		}
		out = append(out, f.assignTo(s.X, wb, false, s, ind)...)
	}
	return out
}

func (f *trFunc) forStmt(s *ast.ForStmt, ind string) []string {
	var out []string
	f.loopN++
	name := fmt.Sprintf("loop%d", f.loopN)
	fuel, ok := f.spec.Fuel[name]
	if !ok {
		f.problem(s, "`for` loop %s needs an iteration bound (\"fuel\" in funcs.json)", name)
		fuel = "0"
	}
	if s.Init != nil {
		out = append(out, f.stmt(s.Init, ind)...)
	}
	flag := f.tmp("__done")
	out = append(out, fmt.Sprintf("%slet mut %s : Bool := false", ind, flag))
	out = append(out, fmt.Sprintf("%sfor _ in List.range (%s).toNat do", ind, fuel))
	in2 := ind + "  "
	if s.Cond != nil {
		c := f.cond(s.Cond)
		out = append(out, f.flush(in2, &f.pre)...)
		out = append(out, in2+"if ¬ "+c+" then")
		out = append(out, in2+"  "+flag+" := true")
		out = append(out, in2+"  break")
	}
	f.loopDepth++
	f.fuelFlag = append(f.fuelFlag, flag)
	f.fuelPost = append(f.fuelPost, s.Post != nil)
	f.wbStack = append(f.wbStack, "")
	body := f.block(s.Body.List, in2)
	f.wbStack = f.wbStack[:len(f.wbStack)-1]
	f.fuelFlag = f.fuelFlag[:len(f.fuelFlag)-1]
	f.fuelPost = f.fuelPost[:len(f.fuelPost)-1]
	f.loopDepth--
	if !(len(body) == 1 && strings.TrimSpace(body[0]) == "pure ()" && (s.Cond != nil || s.Post != nil)) {
		out = append(out, body...)
	}
	if s.Post != nil {
		out = append(out, f.stmt(s.Post, in2)...)
	}
	out = append(out, fmt.Sprintf("%sif ¬ %s then", ind, flag))
	out = append(out, fmt.Sprintf("%s  throw \"iteration bound of %s exceeded\"", ind, name))
	return out
}

func (f *trFunc) switchStmt(s *ast.SwitchStmt, ind string) []string {
	var out []string
	if s.Init != nil {
		out = append(out, f.stmt(s.Init, ind)...)
	}
	hasBreak := false
	ast.Inspect(s.Body, func(n ast.Node) bool {
		switch b := n.(type) {
		case *ast.BranchStmt:
			if b.Tok == token.BREAK || b.Tok == token.FALLTHROUGH {
				hasBreak = true
			}
		case *ast.ForStmt, *ast.RangeStmt:
			return false
		}
		return true
	})
	if hasBreak {
		f.problem(s, "break / fallthrough inside switch")
		return nil
	}
	tag := ""
	if s.Tag != nil {
		tv := f.expr(s.Tag)
		out = append(out, f.flush(ind, &f.pre)...)
		tag = f.tmp("__tag")
		out = append(out, fmt.Sprintf("%slet %s := %s", ind, tag, tv))
	}
	var deflt *ast.CaseClause
	var clauses []*ast.CaseClause
	for _, c := range s.Body.List {
		cc := c.(*ast.CaseClause)
		if cc.List == nil {
			deflt = cc
		} else {
			clauses = append(clauses, cc)
		}
	}
	cur := ind
	for _, cc := range clauses {
		var cs []string
		for _, e := range cc.List {
			if tag != "" {
				cs = append(cs, "("+tag+" = "+f.expr(e)+")")
			} else {
				cs = append(cs, f.cond(e))
			}
		}
		if len(f.pre) > 0 {
			f.problem(cc, "call with threaded state in a case expression")
			f.pre = nil
		}
		out = append(out, cur+"if "+strings.Join(cs, " ∨ ")+" then")
		out = append(out, f.block(cc.Body, cur+"  ")...)
		out = append(out, cur+"else")
		cur += "  "
	}
	if deflt != nil {
		out = append(out, f.block(deflt.Body, cur)...)
	} else {
		out = append(out, cur+"pure ()")
	}
	return out
}

// aliasBinding: the binding statement of a pointer to a slice / map element that is written through
func (f *trFunc) aliasBinding(s *ast.AssignStmt, a *aliasInfo, ind string) []string {
	var out []string
	rhs := ast.Unparen(s.Rhs[0])
	p := a.obj
	wrapOpt := func(v string) string {
		if f.opt[p] {
			return "(some " + v + ")"
		}
		return v
	}
	switch r := rhs.(type) {
	case *ast.IndexExpr:
		cont := f.arg(r.X)
		if a.isMap {
			key := f.expr(r.Index)
			out = append(out, f.flush(ind, &f.pre)...)
			out = append(out, fmt.Sprintf("%slet %s : String := %s", ind, a.capture, key))
			t := f.tmp("__m")
			out = append(out, fmt.Sprintf("%slet %s := (mapGet %s %s)", ind, t, cont, a.capture))
			if !f.opt[p] {
				f.problem(s, "`%s` is bound to a map element but treated as never nil", p.Name())
			}
			out = append(out, f.assignTo0(s.Lhs[0], t, true, s, ind)...)
			if len(s.Lhs) == 2 {
				if id, ok := s.Lhs[1].(*ast.Ident); !ok || id.Name != "_" {
					out = append(out, f.assignTo0(s.Lhs[1], t+".isSome", true, s, ind)...)
				}
			}
		} else {
			idx := f.intArg(r.Index)
			out = append(out, f.flush(ind, &f.pre)...)
			out = append(out, fmt.Sprintf("%slet %s : Int := %s", ind, a.capture, idx))
			out = append(out, f.assignTo0(s.Lhs[0], wrapOpt(fmt.Sprintf("(← gidx %s %s)", cont, a.capture)), true, s, ind)...)
		}
	case *ast.CallExpr:
		g, _ := f.callee(r)
		if g == nil || g.finder == nil || len(g.mutParams) > 0 {
			f.problem(s, "binding of `%s`", p.Name())
			return nil
		}
		v := f.expr(r)
		out = append(out, f.flush(ind, &f.pre)...)
		t := f.tmp("__t")
		out = append(out, fmt.Sprintf("%slet %s := %s", ind, t, v))
		out = append(out, fmt.Sprintf("%slet %s : Int := %s.1", ind, a.capture, t))
		if id, ok := s.Lhs[0].(*ast.Ident); !ok || id.Name != "_" {
			out = append(out, f.assignTo0(s.Lhs[0], t+".1", true, s, ind)...)
		}
		val := t + ".2"
		if g.resOpt[1] && !f.opt[p] {
			val = "(← gderef " + val + ")"
		} else if !g.resOpt[1] && f.opt[p] {
			val = "(some " + val + ")"
		}
		out = append(out, f.assignTo0(s.Lhs[1], val, true, s, ind)...)
	default:
		f.problem(s, "binding of `%s`", p.Name())
		return nil
	}
	if a.flag != "" {
		out = append(out, fmt.Sprintf("%slet mut %s : Bool := true", ind, a.flag))
	}
	return out
}

// rangeMap: `for k, v := range m` over a map[string]V.  Go's iteration order is unspecified, so only
// loops whose effect does not depend on it are translated: the body may only add to / subtract from
// integer accumulators declared outside the loop (possibly under conditions that do not read them).
func (f *trFunc) rangeMap(s *ast.RangeStmt, m *types.Map, ind string) []string {
	var out []string
	if s.Tok == token.ASSIGN {
		f.problem(s, "range with assignment to existing variables")
		return nil
	}
	var keyObj, valObj types.Object
	if id, ok := s.Key.(*ast.Ident); ok && id.Name != "_" {
		keyObj = f.info.Defs[id]
	}
	if s.Value != nil {
		if id, ok := s.Value.(*ast.Ident); ok && id.Name != "_" {
			valObj = f.info.Defs[id]
		}
	}
	if why := f.orderDependent(s.Body, keyObj, valObj); why != "" && !f.existsLoop(s.Body, keyObj, valObj) {
		f.problem(s, "range over a map whose body depends on the iteration order (%s)", why)
		return nil
	}
	xs := f.expr(s.X)
	out = append(out, f.flush(ind, &f.pre)...)
	e := f.tmp("__e")
	out = append(out, fmt.Sprintf("%sfor %s in %s do", ind, e, xs))
	if keyObj != nil {
		f.rangeVal[keyObj] = true
		out = append(out, fmt.Sprintf("%s  let %s : String := %s.1", ind, f.nameOf(keyObj), e))
	}
	if valObj != nil {
		f.rangeVal[valObj] = true
		out = append(out, fmt.Sprintf("%s  let %s := %s.2", ind, f.nameOf(valObj), e))
	}
	root := f.rootObj(s.X)
	before := f.assigned[root]
	f.assigned[root] = false
	f.loopDepth++
	f.fuelFlag = append(f.fuelFlag, "")
	f.fuelPost = append(f.fuelPost, false)
	f.wbStack = append(f.wbStack, "")
	body := f.block(s.Body.List, ind+"  ")
	f.wbStack = f.wbStack[:len(f.wbStack)-1]
	f.fuelFlag = f.fuelFlag[:len(f.fuelFlag)-1]
	f.fuelPost = f.fuelPost[:len(f.fuelPost)-1]
	f.loopDepth--
	if root != nil && f.assigned[root] {
		f.problem(s, "the ranged map `%s` is modified inside the loop", f.src(s.X))
	}
	f.assigned[root] = before || f.assigned[root]
	return append(out, body...)
}

// orderDependent: "" when the loop body is a commutative accumulation, otherwise the reason
func (f *trFunc) orderDependent(body *ast.BlockStmt, keyObj, valObj types.Object) string {
	accs := map[types.Object]bool{}
	why := ""
	var stmts func(list []ast.Stmt)
	pure := []ast.Expr{}
	stmts = func(list []ast.Stmt) {
		for _, st := range list {
			switch s := st.(type) {
			case *ast.AssignStmt:
				if (s.Tok != token.ADD_ASSIGN && s.Tok != token.SUB_ASSIGN) || len(s.Lhs) != 1 {
					why = "statement `" + f.srcStmt(s) + "`"
					return
				}
				o := f.objOf(s.Lhs[0])
				if o == nil || intKindOf(o.Type()) == notInt || (o.Pos() >= body.Pos() && o.Pos() < body.End()) {
					why = "`" + f.src(s.Lhs[0]) + "` is not an integer accumulator declared outside the loop"
					return
				}
				accs[o] = true
				pure = append(pure, s.Rhs[0])
			case *ast.IncDecStmt:
				o := f.objOf(s.X)
				if o == nil || intKindOf(o.Type()) == notInt || (o.Pos() >= body.Pos() && o.Pos() < body.End()) {
					why = "`" + f.src(s.X) + "` is not an integer accumulator declared outside the loop"
					return
				}
				accs[o] = true
			case *ast.IfStmt:
				if s.Init != nil {
					why = "if with an init statement"
					return
				}
				pure = append(pure, s.Cond)
				stmts(s.Body.List)
				switch e := s.Else.(type) {
				case nil:
				case *ast.BlockStmt:
					stmts(e.List)
				case *ast.IfStmt:
					stmts([]ast.Stmt{e})
				}
			case *ast.EmptyStmt:
			default:
				why = fmt.Sprintf("statement %T", st)
				return
			}
			if why != "" {
				return
			}
		}
	}
	stmts(body.List)
	if why != "" {
		return why
	}
	for _, e := range pure {
		ast.Inspect(e, func(n ast.Node) bool {
			switch x := n.(type) {
			case *ast.Ident:
				if o := f.info.Uses[x]; o != nil && accs[o] {
					why = "`" + f.src(e) + "` reads the accumulator `" + x.Name + "`"
				}
			case *ast.CallExpr:
				if g, _ := f.callee(x); g != nil && len(g.mutParams) > 0 {
					why = "call `" + f.src(x) + "` updates its arguments"
				}
			case *ast.FuncLit:
				why = "function literal"
			}
			return true
		})
	}
	return why
}

func (f *trFunc) srcStmt(s *ast.AssignStmt) string {
	return f.src(s.Lhs[0]) + " " + s.Tok.String() + " " + f.src(s.Rhs[0])
}
