package main

// Round 3: the controllers' stateful functions (ValidateTrx / ExecuteTrx / block hooks).
//
//   ledger.IFinalityLedger[T] / ILedger[T] (a controller field)
//                          -> GLedger T (prelude of the generated file): the two views of a finality ledger
//                             as its callers see them (view = true: the *Finality methods, the consensus
//                             view; view = false: the plain methods, the mempool view) and the items of the
//                             last committed version in key order.  Get/GetFinality -> GLedger.get (a missing
//                             key is the error ErrNotFoundResult), Set/SetFinality(v) -> GLedger.set under the
//                             translated v.Key(), Del/DelFinality -> GLedger.del (DelFinality removes from
//                             both views), CancelSet/CancelSetFinality -> GLedger.cancelSet,
//                             IterateReadAll(Finality)Items(func(x) XError {..}) -> a `for` over GLedger.items
//                             with the callback body inlined (return nil = continue, return err = stop)
//   f := X.L.Get; if c { f = X.L.GetFinality }; f(k)
//                          -> f is a Bool (the view) and f(k) the ledger operation at that view; for two
//                             whitelisted methods (limiter.EvaluateLimit / CheckLimit) the call becomes an
//                             `if f then .. else ..` over the two translated calls
//   x.(*T), v, ok := x.(*T) for an interface listed under "sums" in funcs.json
//                          -> a generated inductive (nil, one constructor per listed dynamic type, other)
//                             and its partial projections; the one-result form panics (throw) on a mismatch
//   err == / != <error variable>
//                          -> comparison of the error labels
//   "oracleFuncs" of funcs.json: calls of a function the translator cannot follow (json.Unmarshal) with
//                             varying arguments -> an explicit *function* parameter applied to the listed
//                             arguments; a local that is only handed to such calls is dropped
//   [N]byte (ledger keys)  -> String (the 64-digit rendering of the model); ToLedgerKey / Array32 are
//                             reviewed stand-ins (externs)
//   promoted methods of an embedded struct, int32(len(..)) (wrapI32), len(string), uint256 DivMod
//
// Trusted for the ledger part (header of the generated file): a value handed out by Get is a private
// copy whose changes reach the ledger through Set only (the translator refuses a change of a value
// after it was handed to Set); reads fail with ErrNotFoundResult only; Set / CancelSet never fail.

import (
	"fmt"
	"go/ast"
	"go/token"
	"go/types"
	"sort"
	"strings"
)

type sumSpec struct {
	Lean     string            `json:"lean"`
	Variants map[string]string `json:"variants"` // struct type key -> constructor name
}

type oracleFn struct {
	Name string `json:"name"`
	Args []int  `json:"args"`
}

const ctrlPrelude = `
/-- 'int32(i)' -/
def wrapI32 (x : Int) : Int := if x % 4294967296 < 2147483648 then x % 4294967296 else x % 4294967296 - 4294967296
/-- 'len' of a Go string (bytes) -/
def strLen (s : String) : Int := (s.utf8ByteSize : Int)
/-- 'x.(*T)' (one-result form): a dynamic type other than T panics -/
def gassert {α : Type} (p : Option α) : G α :=
  match p with
  | some x => pure x
  | none => throw "type assertion"

/-- A finality ledger ('ledger.IFinalityLedger[V]') as the controllers see it: 'get true' is the consensus
    view read by the '*Finality' methods, 'get false' the mempool view read by the plain methods (both are
    total maps: the last committed version overlaid with the pending changes of that view), 'uncached v k'
    is what view 'v' reads for 'k' once its cached entry is dropped ('CancelSet'), 'items' are the items of
    the last committed version in ascending key order (what 'IterateReadAll(Finality)Items' hands out, as
    fresh copies).  Trusted: a value handed out by a read is a private copy (changes reach the ledger
    through 'Set' only), a read fails with 'ErrNotFoundResult' only, 'Set' / 'CancelSet' never fail. -/
structure GLedger (V : Type) where
  get : Bool → String → Option V
  uncached : Bool → String → Option V
  items : List V
/-- 'Set(v)' (view = false) / 'SetFinality(v)' (view = true) under the key 'k = v.Key()' -/
def GLedger.set {V : Type} (l : GLedger V) (view : Bool) (k : String) (v : V) : GLedger V :=
  { l with get := fun e k' => if e = view ∧ k' = k then some v else l.get e k' }
/-- 'Del(k)' removes from the mempool view, 'DelFinality(k)' from both views -/
def GLedger.del {V : Type} (l : GLedger V) (view : Bool) (k : String) : GLedger V :=
  { l with get := fun e k' => if k' = k ∧ (view = true ∨ e = false) then none else l.get e k' }
/-- 'CancelSet(k)' / 'CancelSetFinality(k)': the cached entry of the view is dropped -/
def GLedger.cancelSet {V : Type} (l : GLedger V) (view : Bool) (k : String) : GLedger V :=
  { l with get := fun e k' => if e = view ∧ k' = k then l.uncached view k else l.get e k' }
/-- the error of a ledger read -/
def gnotFound {α : Type} (o : Option α) : Option String := if o.isSome then none else some "ErrNotFoundResult"
`

// ---------------------------------------------------------------------------------------------
// types

// ledgerElem: t = ledger.IFinalityLedger[T] / ledger.ILedger[T] of the module -> T
func (tr *translator) ledgerElem(t types.Type) types.Type {
	if t == nil {
		return nil
	}
	n, ok := types.Unalias(t).(*types.Named)
	if !ok {
		return nil
	}
	o := n.Obj()
	if o.Pkg() == nil || !tr.pr.inModule(o.Pkg()) || tr.pr.qual(o.Pkg()) != "ledger" {
		return nil
	}
	if o.Name() != "IFinalityLedger" && o.Name() != "ILedger" {
		return nil
	}
	if n.TypeArgs() == nil || n.TypeArgs().Len() != 1 {
		return nil
	}
	return n.TypeArgs().At(0)
}

// sumKey: t is a named interface listed under "sums" -> its key
func (tr *translator) sumKey(t types.Type) string {
	if t == nil {
		return ""
	}
	n, ok := types.Unalias(t).(*types.Named)
	if !ok {
		return ""
	}
	if _, ok := n.Underlying().(*types.Interface); !ok {
		return ""
	}
	k := tr.typeKey(n)
	if _, ok := tr.exp.Sums[k]; ok {
		return k
	}
	return ""
}

func isByteArray(t types.Type) bool {
	a, ok := t.Underlying().(*types.Array)
	if !ok {
		return false
	}
	b, ok := a.Elem().Underlying().(*types.Basic)
	return ok && b.Kind() == types.Uint8
}

// isOpaqueIface: an interface that has no Lean counterpart (handlers, loggers): such parameters are
// left out of the signature and may only occur inside oracle calls
func (tr *translator) isOpaqueIface(t types.Type) bool {
	if t == nil || isErrorType(t) || isLedgerItemParam(t) {
		return false
	}
	if _, ok := t.Underlying().(*types.Interface); !ok {
		return false
	}
	return tr.sumKey(t) == "" && tr.ledgerElem(t) == nil
}

func ctorProj(ctor string) string {
	if ctor == "" {
		return "as"
	}
	return "as" + strings.ToUpper(ctor[:1]) + ctor[1:]
}

// genSum emits the inductive of a "sums" interface and its projections
func (tr *translator) genSum(key string, ss sumSpec) (string, []string) {
	var probs []string
	var b strings.Builder
	b.WriteString(fmt.Sprintf("/-- Go interface `%s`: nil, the dynamic types the whitelisted functions test for, anything else -/\ninductive %s where\n  | nil\n", key, ss.Lean))
	var ks []string
	for k := range ss.Variants {
		ks = append(ks, k)
	}
	sort.Strings(ks)
	for _, k := range ks {
		ts, ok := tr.exp.Types[k]
		if !ok {
			probs = append(probs, "variant "+k+" has no entry in funcs.json/types")
			continue
		}
		b.WriteString(fmt.Sprintf("  | %s (p : %s)\n", ss.Variants[k], ts.Lean))
	}
	b.WriteString("  | other\n  deriving Repr, DecidableEq\n")
	for _, k := range ks {
		ts, ok := tr.exp.Types[k]
		if !ok {
			continue
		}
		c := ss.Variants[k]
		b.WriteString(fmt.Sprintf("/-- `x.(*%s)` -/\ndef %s.%s (x : %s) : Option %s := match x with | .%s p => some p | _ => none\n",
			k[strings.LastIndex(k, ".")+1:], ss.Lean, ctorProj(c), ss.Lean, ts.Lean, c))
	}
	return b.String(), probs
}

// ---------------------------------------------------------------------------------------------
// side tables for synthetic nodes (the shared types.Info is never written)

func (f *trFunc) useOf(id *ast.Ident) types.Object {
	if o, ok := f.xUses[id]; ok {
		return o
	}
	return f.info.Uses[id]
}

// ---------------------------------------------------------------------------------------------
// ledger operations

type ledgerOp struct {
	led  ast.Expr   // the ledger expression (X.F)
	elem types.Type // item type
	op   string     // get, set, del, cancelSet, iter
	fin  bool
}

var ledgerMethods = map[string]struct {
	op  string
	fin bool
}{
	"Get": {"get", false}, "GetFinality": {"get", true},
	"Set": {"set", false}, "SetFinality": {"set", true},
	"Del": {"del", false}, "DelFinality": {"del", true},
	"CancelSet": {"cancelSet", false}, "CancelSetFinality": {"cancelSet", true},
	"IterateReadAllItems": {"iter", false}, "IterateReadAllFinalityItems": {"iter", true},
}

// ledgerOpOf: sel = X.F.M with X.F a ledger and M one of the supported methods
func (f *trFunc) ledgerOpOf(sel *ast.SelectorExpr) *ledgerOp {
	if sel == nil {
		return nil
	}
	e := f.tr.ledgerElem(f.typeOf(sel.X))
	if e == nil {
		return nil
	}
	m, ok := ledgerMethods[sel.Sel.Name]
	if !ok {
		return &ledgerOp{led: sel.X, elem: e, op: "?" + sel.Sel.Name}
	}
	return &ledgerOp{led: sel.X, elem: e, op: m.op, fin: m.fin}
}

// funcLocal: a local variable of function type bound to method values:
//
//	v := X.M0          (alts[0], value false)
//	if c { v = X.M1 }  (alts[1], value true)
type funcLocal struct {
	obj  types.Object
	alts []*ast.SelectorExpr
	bind map[*ast.AssignStmt]int // binding statement -> alternative
}

func (f *trFunc) isFuncVar(o types.Object) bool {
	v, ok := o.(*types.Var)
	if !ok || v.IsField() {
		return false
	}
	_, isSig := v.Type().Underlying().(*types.Signature)
	return isSig
}

// findFuncLocals runs at the start of analyse
func (f *trFunc) findFuncLocals() {
	body := f.node.Decl.Body
	ast.Inspect(body, func(n ast.Node) bool {
		s, ok := n.(*ast.AssignStmt)
		if !ok {
			return true
		}
		for i, l := range s.Lhs {
			o := f.objOf(l)
			if o == nil || !f.isFuncVar(o) {
				continue
			}
			if len(s.Lhs) != 1 || len(s.Rhs) != 1 || (s.Tok != token.DEFINE && s.Tok != token.ASSIGN) {
				f.problem(s, "function variable `%s` in a multiple assignment", o.Name())
				continue
			}
			sel, ok := ast.Unparen(s.Rhs[i]).(*ast.SelectorExpr)
			var selKind types.SelectionKind = -1
			if ok {
				if sl := f.info.Selections[sel]; sl != nil {
					selKind = sl.Kind()
				}
			}
			if !ok || selKind != types.MethodVal {
				f.problem(s, "function variable `%s` is bound to `%s` (only method values)", o.Name(), f.src(s.Rhs[i]))
				continue
			}
			fl := f.funcLocals[o]
			if fl == nil {
				if s.Tok != token.DEFINE {
					f.problem(s, "function variable `%s` is assigned before its definition", o.Name())
					continue
				}
				fl = &funcLocal{obj: o, bind: map[*ast.AssignStmt]int{}}
				f.funcLocals[o] = fl
			} else if s.Tok == token.DEFINE {
				f.problem(s, "function variable `%s` is defined twice", o.Name())
				continue
			}
			idx := -1
			for j, a := range fl.alts {
				if f.src(a) == f.src(sel) {
					idx = j
				}
			}
			if idx < 0 {
				if len(fl.alts) >= 2 {
					f.problem(s, "function variable `%s` has more than two values", o.Name())
					continue
				}
				fl.alts = append(fl.alts, sel)
				idx = len(fl.alts) - 1
			}
			fl.bind[s] = idx
		}
		return true
	})
	// a function variable may only be called
	var stack []ast.Node
	ast.Inspect(body, func(n ast.Node) bool {
		if n == nil {
			stack = stack[:len(stack)-1]
			return true
		}
		stack = append(stack, n)
		id, ok := n.(*ast.Ident)
		if !ok || len(stack) < 2 {
			return true
		}
		o := f.info.Uses[id]
		if o == nil || f.funcLocals[o] == nil {
			return true
		}
		switch p := stack[len(stack)-2].(type) {
		case *ast.CallExpr:
			if ast.Unparen(p.Fun) == ast.Expr(id) {
				return true
			}
		case *ast.AssignStmt:
			for _, l := range p.Lhs {
				if l == ast.Expr(id) {
					return true
				}
			}
		}
		f.problem(id, "function variable `%s` is used as a value", id.Name)
		return true
	})
}

// flLedger: the function variable stands for one ledger operation at a view given by the variable
func (f *trFunc) flLedger(fl *funcLocal) (*ledgerOp, string) {
	if len(fl.alts) == 0 {
		return nil, ""
	}
	op0 := f.ledgerOpOf(fl.alts[0])
	if op0 == nil {
		return nil, ""
	}
	if len(fl.alts) == 1 {
		if op0.fin {
			return op0, "true"
		}
		return op0, "false"
	}
	op1 := f.ledgerOpOf(fl.alts[1])
	if op1 == nil || op1.op != op0.op || f.src(op1.led) != f.src(op0.led) || op0.fin == op1.fin {
		return nil, ""
	}
	if op0.fin {
		return op0, "(!" + f.nameOf(fl.obj) + ")"
	}
	return op0, f.nameOf(fl.obj)
}

// flOf: the function variable called by c (nil otherwise)
func (f *trFunc) flOf(c *ast.CallExpr) *funcLocal {
	id := identOf(c.Fun)
	if id == nil {
		return nil
	}
	o := f.info.Uses[id]
	if o == nil {
		return nil
	}
	return f.funcLocals[o]
}

// ledgerCallOp: the ledger operation performed by the call c (directly or through a function variable)
func (f *trFunc) ledgerCallOp(c *ast.CallExpr) (*ledgerOp, string) {
	if sel, ok := ast.Unparen(c.Fun).(*ast.SelectorExpr); ok {
		if op := f.ledgerOpOf(sel); op != nil {
			if op.fin {
				return op, "true"
			}
			return op, "false"
		}
		return nil, ""
	}
	if fl := f.flOf(c); fl != nil {
		return f.flLedger(fl)
	}
	return nil, ""
}

// keyMethod: the translated `Key` method of the item type
func (f *trFunc) keyMethod(elem types.Type, at ast.Node) *trFunc {
	ms := types.NewMethodSet(elem)
	for i := 0; i < ms.Len(); i++ {
		if fn, ok := ms.At(i).Obj().(*types.Func); ok && fn.Name() == "Key" {
			g := f.tr.get(fn.Origin())
			if g == nil || len(g.problems) > 0 || len(g.mutParams) > 0 || len(g.extras) > 0 {
				f.problem(at, "the Key method of %s is not a translated whitelisted function", f.tr.pr.typeStr(elem))
				return nil
			}
			return g
		}
	}
	f.problem(at, "%s has no Key method", f.tr.pr.typeStr(elem))
	return nil
}

type closureCtx struct {
	res   string
	depth int
}

// specialCall: ledger operations; returns the result components (statements are pushed on f.pre)
func (f *trFunc) specialCall(c *ast.CallExpr) ([]string, bool) {
	op, view := f.ledgerCallOp(c)
	if op == nil {
		return nil, false
	}
	if strings.HasPrefix(op.op, "?") {
		f.problem(c, "ledger method %s is outside the supported subset", op.op[1:])
		return []string{"unsupported"}, true
	}
	if f.inShort > 0 {
		f.problem(c, "ledger call in a short-circuit operand")
	}
	nargs := 1
	if len(c.Args) != nargs {
		f.problem(c, "ledger call `%s`: argument count", f.src(c))
		return []string{"unsupported"}, true
	}
	L := f.arg(op.led)
	switch op.op {
	case "get":
		k := f.arg(c.Args[0])
		t := f.tmp("__g")
		f.pre = append(f.pre, fmt.Sprintf("let %s := (GLedger.get %s %s %s)", t, L, view, k))
		return []string{t, "(gnotFound " + t + ")"}, true
	case "del":
		k := f.arg(c.Args[0])
		t := f.tmp("__g")
		f.pre = append(f.pre, fmt.Sprintf("let %s := (GLedger.get %s %s %s)", t, L, view, k))
		f.pre = append(f.pre, f.assignToNoWB(op.led, fmt.Sprintf("(GLedger.del %s %s %s)", L, view, k), c)...)
		return []string{t, "(gnotFound " + t + ")"}, true
	case "cancelSet":
		k := f.arg(c.Args[0])
		f.pre = append(f.pre, f.assignToNoWB(op.led, fmt.Sprintf("(GLedger.cancelSet %s %s %s)", L, view, k), c)...)
		return []string{"none"}, true
	case "set":
		g := f.keyMethod(op.elem, c)
		if g == nil {
			return []string{"unsupported"}, true
		}
		v := f.coerceT(c.Args[0], false, op.elem)
		t := f.tmp("__v")
		f.pre = append(f.pre, fmt.Sprintf("let %s := %s", t, v))
		f.pre = append(f.pre, f.assignToNoWB(op.led, fmt.Sprintf("(GLedger.set %s %s (← %s %s) %s)", L, view, g.spec.Lean, t, t), c)...)
		return []string{"none"}, true
	case "iter":
		fl, ok := ast.Unparen(c.Args[0]).(*ast.FuncLit)
		if !ok || fl.Type.Params == nil || len(fl.Type.Params.List) != 1 || len(fl.Type.Params.List[0].Names) != 1 {
			f.problem(c, "ledger iteration with a callback that is not a function literal of one parameter")
			return []string{"unsupported"}, true
		}
		p := f.info.Defs[fl.Type.Params.List[0].Names[0]]
		if p == nil {
			f.problem(c, "ledger iteration: callback parameter")
			return []string{"unsupported"}, true
		}
		res := f.tmp("__it")
		x := f.nameOf(p)
		var lines []string
		lines = append(lines, fmt.Sprintf("let mut %s : (Option String) := none", res))
		if f.mutated[p] {
			lines = append(lines, fmt.Sprintf("for %s__e in (GLedger.items %s) do", x, L))
			lines = append(lines, fmt.Sprintf("  let mut %s := %s__e", x, x))
		} else {
			lines = append(lines, fmt.Sprintf("for %s in (GLedger.items %s) do", x, L))
		}
		saved := f.pre
		f.pre = nil
		f.loopDepth++
		f.closure = append(f.closure, closureCtx{res: res, depth: f.loopDepth})
		f.fuelFlag = append(f.fuelFlag, "")
		f.fuelPost = append(f.fuelPost, false)
		f.wbStack = append(f.wbStack, "")
		body := f.block(fl.Body.List, "  ")
		f.wbStack = f.wbStack[:len(f.wbStack)-1]
		f.fuelFlag = f.fuelFlag[:len(f.fuelFlag)-1]
		f.fuelPost = f.fuelPost[:len(f.fuelPost)-1]
		f.closure = f.closure[:len(f.closure)-1]
		f.loopDepth--
		f.pre = append(saved, lines...)
		f.pre = append(f.pre, body...)
		return []string{res}, true
	}
	f.problem(c, "ledger call `%s`", f.src(c))
	return []string{"unsupported"}, true
}

// closureReturn: `return e` inside an inlined iteration callback
func (f *trFunc) closureReturn(s *ast.ReturnStmt, ind string) []string {
	cl := f.closure[len(f.closure)-1]
	if f.loopDepth != cl.depth {
		f.problem(s, "return from an iteration callback inside a nested loop")
		return nil
	}
	if len(s.Results) != 1 {
		f.problem(s, "return arity in an iteration callback")
		return nil
	}
	if f.isNil(s.Results[0]) {
		return []string{ind + "continue"}
	}
	val := f.expr(s.Results[0])
	out := f.flush(ind, &f.pre)
	out = append(out, ind+cl.res+" := "+val)
	out = append(out, ind+"if ("+cl.res+".isSome = true) then", ind+"  break", ind+"continue")
	return out
}

// isLedgerWrite: c is a ledger operation that changes the ledger
func (f *trFunc) isLedgerWrite(c *ast.CallExpr) *ledgerOp {
	op, _ := f.ledgerCallOp(c)
	if op == nil {
		// a function variable whose alternatives are ledger operations that do not pair up is reported at the call
		return nil
	}
	switch op.op {
	case "set", "del", "cancelSet":
		return op
	}
	return nil
}

// markCtrlMutations (analyse): ledgers written, receivers of the alternatives of a function variable
func (f *trFunc) markCtrlMutations(markMut func(e ast.Expr, at ast.Node)) {
	ast.Inspect(f.node.Decl.Body, func(n ast.Node) bool {
		c, ok := n.(*ast.CallExpr)
		if !ok {
			return true
		}
		if op := f.isLedgerWrite(c); op != nil {
			if sel, ok := ast.Unparen(op.led).(*ast.SelectorExpr); ok {
				markMut(sel.X, c)
			} else {
				f.problem(c, "ledger `%s` is not a field of a variable", f.src(op.led))
			}
			return true
		}
		if fl := f.flOf(c); fl != nil {
			if op, _ := f.flLedger(fl); op != nil {
				return true
			}
			for _, a := range fl.alts {
				g := f.calleeOfSel(a)
				if g == nil {
					continue
				}
				args := append([]ast.Expr{a.X}, c.Args...)
				for _, mp := range g.mutParams {
					for i, p := range g.params {
						if p == mp && i < len(args) {
							if i == 0 {
								if rs, ok := ast.Unparen(args[0]).(*ast.SelectorExpr); ok && (f.wrapOf(rs) != nil || f.isPtrField(rs)) {
									markMut(rs, c)
									continue
								}
							}
							markMut(args[i], c)
						}
					}
				}
			}
		}
		return true
	})
}

// calleeOfSel: the whitelisted method named by a method value
func (f *trFunc) calleeOfSel(sel *ast.SelectorExpr) *trFunc {
	obj, _ := f.info.Uses[sel.Sel].(*types.Func)
	if obj == nil {
		return nil
	}
	obj = obj.Origin()
	if !f.tr.pr.inModule(obj.Pkg()) {
		return nil
	}
	if g, ok := f.tr.done[obj]; ok && g.inProgress {
		return nil
	}
	return f.tr.get(obj)
}

// mutatedAfter: is a field of o assigned (or o handed to a callee that updates it) at a position that
// may be executed after pos?
func (f *trFunc) mutatedAfter(o types.Object, pos token.Pos) bool {
	// a loop carries the object over to its next iteration only when the variable lives outside the loop
	var loops []loopSpan
	for _, l := range f.loopSpans() {
		if !(l.pos <= o.Pos() && o.Pos() < l.end) {
			loops = append(loops, l)
		}
	}
	ast.Inspect(f.node.Decl.Body, func(n ast.Node) bool {
		if fl, ok := n.(*ast.FuncLit); ok { // an iteration callback is a loop body
			if !(fl.Pos() <= o.Pos() && o.Pos() < fl.End()) {
				loops = append(loops, loopSpan{fl.Pos(), fl.End()})
			}
		}
		return true
	})
	found := false
	ast.Inspect(f.node.Decl.Body, func(n ast.Node) bool {
		switch s := n.(type) {
		case *ast.AssignStmt:
			for _, l := range s.Lhs {
				if sel, ok := ast.Unparen(l).(*ast.SelectorExpr); ok && f.objOf(sel.X) == o && after(loops, pos, s.Pos()) {
					found = true
				}
			}
		case *ast.IncDecStmt:
			if sel, ok := ast.Unparen(s.X).(*ast.SelectorExpr); ok && f.objOf(sel.X) == o && after(loops, pos, s.Pos()) {
				found = true
			}
		case *ast.CallExpr:
			if g, _ := f.callee(s); g != nil {
				args := f.callArgs(s)
				for _, mp := range g.mutParams {
					for i, q := range g.params {
						if q == mp && i < len(args) && f.objOf(args[i]) == o && after(loops, pos, s.Pos()) {
							found = true
						}
					}
				}
			}
		}
		return true
	})
	return found
}

// ---------------------------------------------------------------------------------------------
// type assertions

// typeAssert: x.(*T) as an Option of T's structure
func (f *trFunc) typeAssert(x *ast.TypeAssertExpr) string {
	if x.Type == nil {
		f.problem(x, "type switch")
		return "none"
	}
	k := f.tr.sumKey(f.typeOf(x.X))
	if k == "" {
		f.problem(x, "type assertion on %s (not listed under sums in funcs.json)", f.tr.pr.typeStr(f.typeOf(x.X)))
		return "none"
	}
	ss := f.tr.exp.Sums[k]
	var to types.Type
	if tv, ok := f.info.Types[x.Type]; ok {
		to = tv.Type
	}
	n := structOf(to)
	if n == nil || !isStructPtr(to) {
		f.problem(x, "type assertion to %s", f.tr.pr.typeStr(to))
		return "none"
	}
	ctor, ok := ss.Variants[f.tr.typeKey(n)]
	if !ok {
		f.problem(x, "type assertion to %s, which is not a variant of %s in funcs.json", f.tr.typeKey(n), k)
		return "none"
	}
	f.tr.usedTy[f.tr.typeKey(n)] = true
	return "(" + ss.Lean + "." + ctorProj(ctor) + " " + f.arg(x.X) + ")"
}

// ---------------------------------------------------------------------------------------------
// oracle functions and the locals that only feed them

func (f *trFunc) oracleFnFor(c *ast.CallExpr) (string, bool) {
	if f.spec == nil || f.spec.OracleFuncs == nil {
		return "", false
	}
	of, ok := f.spec.OracleFuncs[f.src(c.Fun)]
	if !ok {
		return "", false
	}
	f.oracleUsed["fn:"+f.src(c.Fun)] = true
	var ats, as []string
	for _, i := range of.Args {
		if i < 0 || i >= len(c.Args) {
			f.problem(c, "oracle function `%s`: argument %d does not exist", f.src(c.Fun), i)
			return "unsupported", true
		}
		lt, err := f.tr.leanType(f.typeOf(c.Args[i]))
		if err != nil {
			f.problem(c, "oracle function `%s`: %v", f.src(c.Fun), err)
			lt = "Unsupported"
		}
		ats = append(ats, lt)
		as = append(as, f.arg(c.Args[i]))
	}
	var rts []string
	addT := func(t types.Type) {
		lt, err := f.tr.leanType(t)
		if err != nil {
			f.problem(c, "oracle function `%s`: %v", f.src(c.Fun), err)
			lt = "Unsupported"
		}
		if isStructPtr(t) {
			lt = "(Option " + lt + ")"
		}
		rts = append(rts, lt)
	}
	switch t := f.typeOf(c).(type) {
	case *types.Tuple:
		for i := 0; i < t.Len(); i++ {
			addT(t.At(i).Type())
		}
	default:
		if t == nil {
			f.problem(c, "oracle function `%s` has no type", f.src(c.Fun))
			return "unsupported", true
		}
		addT(t)
	}
	rt := strings.Join(rts, " × ")
	if len(rts) > 1 {
		rt = "(" + rt + ")"
	}
	typ := "(" + strings.Join(append(ats, rt), " → ") + ")"
	var which []string
	for _, i := range of.Args {
		which = append(which, fmt.Sprint(i))
	}
	f.addExtra(extraParam{name: of.Name, typ: typ, origin: "the result of `" + f.src(c.Fun) + "` as a function of its argument(s) " + strings.Join(which, ", ")})
	return "(" + of.Name + " " + strings.Join(as, " ") + ")", true
}

// findOracleOnly: locals whose only uses lie inside calls that are replaced by oracles: arguments of an
// oracle-function call that the oracle does not depend on (json.Unmarshal(option, checkGovParams):
// checkGovParams) or any part of a value-oracle call (header.GetProposerAddress(): header).  Their
// definitions are dropped.
func (f *trFunc) findOracleOnly() {
	if f.spec == nil || (f.spec.OracleFuncs == nil && f.spec.Oracles == nil) {
		return
	}
	uses := map[types.Object]int{}
	dropped := map[types.Object]int{}
	var stack []ast.Node
	ast.Inspect(f.node.Decl.Body, func(n ast.Node) bool {
		if n == nil {
			stack = stack[:len(stack)-1]
			return true
		}
		stack = append(stack, n)
		id, ok := n.(*ast.Ident)
		if !ok {
			return true
		}
		o := f.info.Uses[id]
		if o == nil {
			return true
		}
		uses[o]++
		// is the use inside an oracle call (and not one of the arguments an oracle function depends on)?
		for i := len(stack) - 2; i >= 0; i-- {
			c, ok := stack[i].(*ast.CallExpr)
			if !ok {
				continue
			}
			if _, isOr := f.spec.Oracles[f.src(c)]; isOr {
				dropped[o]++
				return true
			}
			if of, isOf := f.spec.OracleFuncs[f.src(c.Fun)]; isOf {
				sel := map[int]bool{}
				for _, k := range of.Args {
					sel[k] = true
				}
				inSelected := false
				for k, a := range c.Args {
					if sel[k] && i+1 < len(stack) && stack[i+1] == ast.Node(a) {
						inSelected = true
					}
				}
				if !inSelected && i+1 < len(stack) && stack[i+1] != ast.Node(c.Fun) {
					dropped[o]++
					return true
				}
			}
		}
		return true
	})
	for o, n := range dropped {
		if v, ok := o.(*types.Var); ok && !v.IsField() && uses[o] == n {
			isParam := false
			for _, p := range f.params {
				if p == o {
					isParam = true
				}
			}
			if !isParam {
				f.oracleOnly[o] = true
			}
		}
	}
}

// ---------------------------------------------------------------------------------------------
// promoted methods: the receiver expression of X.m() with m a method of an embedded struct of X

func (f *trFunc) promotedRecv(sel *ast.SelectorExpr, at ast.Node) (string, bool) {
	s := f.info.Selections[sel]
	if s == nil || s.Kind() != types.MethodVal || len(s.Index()) < 2 {
		return "", false
	}
	n := structOf(f.typeOf(sel.X))
	base := f.coerce(sel.X, false)
	var path []string
	for _, idx := range s.Index()[:len(s.Index())-1] {
		if n == nil {
			f.problem(at, "promoted method `%s`", f.src(sel))
			return "unsupported", true
		}
		k := f.tr.typeKey(n)
		ts, ok := f.tr.exp.Types[k]
		if !ok {
			f.problem(at, "struct type %s has no entry in funcs.json/types", k)
			return "unsupported", true
		}
		f.tr.usedTy[k] = true
		fld := n.Underlying().(*types.Struct).Field(idx)
		fl, ok := ts.Fields[fld.Name()]
		if !ok {
			f.problem(at, "field %s.%s is not mapped in funcs.json/types", k, fld.Name())
			return "unsupported", true
		}
		path = append(path, fl)
		n = structOf(fld.Type())
	}
	if isSimple(base) {
		return base + "." + strings.Join(path, "."), true
	}
	return "(" + base + ")." + strings.Join(path, "."), true
}

// returnsFresh: every result of the (translated) function is a new object
func (f *trFunc) computeReturnsFresh() {
	sig := f.node.Obj.Type().(*types.Signature)
	if sig.Results().Len() == 0 || !isStructPtr(sig.Results().At(0).Type()) {
		return
	}
	ok, some := true, false
	ast.Inspect(f.node.Decl.Body, func(n ast.Node) bool {
		switch s := n.(type) {
		case *ast.FuncLit:
			return false
		case *ast.ReturnStmt:
			if len(s.Results) == 0 {
				ok = false
				return true
			}
			r := s.Results[0]
			switch {
			case f.isNil(r):
			case isFreshExpr(r):
				some = true
			default:
				if o := f.objOf(r); o != nil && f.freshLocal(o) {
					some = true
				} else if c, isCall := ast.Unparen(r).(*ast.CallExpr); isCall && f.isFreshCall(c) {
					some = true
				} else {
					ok = false
				}
			}
		}
		return true
	})
	f.returnsFresh = ok && some
}

// freshLocal: a local bound only to fresh expressions
func (f *trFunc) freshLocal(o types.Object) bool {
	for _, p := range f.params {
		if p == o {
			return false
		}
	}
	ok, some := true, false
	ast.Inspect(f.node.Decl.Body, func(n ast.Node) bool {
		s, isA := n.(*ast.AssignStmt)
		if !isA {
			return true
		}
		for i, l := range s.Lhs {
			if f.objOf(l) != o {
				continue
			}
			if len(s.Lhs) != len(s.Rhs) {
				if c, isCall := ast.Unparen(s.Rhs[0]).(*ast.CallExpr); isCall && len(s.Rhs) == 1 && i == 0 {
					if op, _ := f.ledgerCallOp(c); op != nil && (op.op == "get" || op.op == "del") {
						some = true // a private copy handed out by the ledger
						continue
					}
				}
				ok = false
				continue
			}
			r := s.Rhs[i]
			if isFreshExpr(r) {
				some = true
			} else if c, isCall := ast.Unparen(r).(*ast.CallExpr); isCall && f.isFreshCall(c) {
				some = true
			} else {
				ok = false
			}
		}
		return true
	})
	return ok && some
}

func (f *trFunc) isFreshCall(c *ast.CallExpr) bool {
	g, _ := f.callee(c)
	return g != nil && g.returnsFresh
}

// ---------------------------------------------------------------------------------------------
// statements

// altCall: the call c with the function variable replaced by one of its method values
func (f *trFunc) altCall(c *ast.CallExpr, alt *ast.SelectorExpr) *ast.CallExpr {
	nc := &ast.CallExpr{Fun: alt, Lparen: c.Lparen, Args: c.Args, Ellipsis: c.Ellipsis, Rparen: c.Rparen}
	f.xTypes[nc] = f.typeOf(c)
	return nc
}

// flAlt: `if v then <alternative 1> else <alternative 0>`
func (f *trFunc) flAlt(fl *funcLocal, ind string, mk func(alt *ast.SelectorExpr, ind string) []string) []string {
	for _, a := range fl.alts {
		if f.calleeOfSel(a) == nil {
			f.problem(a, "function variable `%s`: `%s` is neither a ledger operation nor a whitelisted method", fl.obj.Name(), f.src(a))
			return nil
		}
	}
	if len(fl.alts) == 0 {
		return nil
	}
	if len(fl.alts) == 1 {
		return mk(fl.alts[0], ind)
	}
	out := []string{ind + "if " + f.nameOf(fl.obj) + " then"}
	out = append(out, mk(fl.alts[1], ind+"  ")...)
	out = append(out, ind+"else")
	out = append(out, mk(fl.alts[0], ind+"  ")...)
	return out
}

// ctrlAssign: the assignment forms of round 3
func (f *trFunc) ctrlAssign(s *ast.AssignStmt, define bool, ind string) ([]string, bool) {
	var out []string
	// binding of a function variable
	if len(s.Lhs) == 1 && len(s.Rhs) == 1 {
		if o := f.objOf(s.Lhs[0]); o != nil {
			if fl := f.funcLocals[o]; fl != nil {
				idx, ok := fl.bind[s]
				if !ok {
					return nil, true // reported by findFuncLocals
				}
				val := "false"
				if idx == 1 {
					val = "true"
				}
				if define {
					return []string{fmt.Sprintf("%slet mut %s : Bool := %s", ind, f.nameOf(o), val)}, true
				}
				f.assigned[o] = true
				return []string{fmt.Sprintf("%s%s := %s", ind, f.nameOf(o), val)}, true
			}
			// a local that only feeds oracle functions
			if f.oracleOnly[o] {
				return nil, true
			}
		}
	}
	if len(s.Rhs) != 1 {
		return nil, false
	}
	rhs := ast.Unparen(s.Rhs[0])
	// v, ok := x.(*T)
	if ta, ok := rhs.(*ast.TypeAssertExpr); ok && len(s.Lhs) == 2 {
		v := f.typeAssert(ta)
		out = append(out, f.flush(ind, &f.pre)...)
		t := f.tmp("__a")
		out = append(out, fmt.Sprintf("%slet %s := %s", ind, t, v))
		if id, ok := s.Lhs[0].(*ast.Ident); !ok || id.Name != "_" {
			if !f.lhsOpt(s.Lhs[0]) {
				f.problem(s, "result of a type assertion treated as never nil")
			}
			out = append(out, f.assignTo(s.Lhs[0], t, define, s, ind)...)
		}
		if id, ok := s.Lhs[1].(*ast.Ident); !ok || id.Name != "_" {
			out = append(out, f.assignTo(s.Lhs[1], t+".isSome", define, s, ind)...)
		}
		return out, true
	}
	c, ok := rhs.(*ast.CallExpr)
	if !ok {
		return nil, false
	}
	// q, r := new(uint256.Int).DivMod(a, b, new(uint256.Int))
	if sel, ok := ast.Unparen(c.Fun).(*ast.SelectorExpr); ok && isUint256(f.typeOf(sel.X)) && sel.Sel.Name == "DivMod" && len(s.Lhs) == 2 && len(c.Args) == 3 {
		if !isNewU256(f, sel.X) || !isNewU256(f, c.Args[2]) {
			f.problem(s, "DivMod into existing *uint256.Int objects")
			return nil, true
		}
		a := paren(f.coerceT(c.Args[0], false, nil))
		b := paren(f.coerceT(c.Args[1], false, nil))
		out = append(out, f.flush(ind, &f.pre)...)
		if monadic(a) {
			t := f.tmp("__n")
			out = append(out, fmt.Sprintf("%slet %s : Nat := %s", ind, t, a))
			a = t
		}
		if monadic(b) {
			t := f.tmp("__n")
			out = append(out, fmt.Sprintf("%slet %s : Nat := %s", ind, t, b))
			b = t
		}
		if id, ok := s.Lhs[0].(*ast.Ident); !ok || id.Name != "_" {
			out = append(out, f.assignTo(s.Lhs[0], "("+a+" / "+b+")", define, s, ind)...)
		}
		if id, ok := s.Lhs[1].(*ast.Ident); !ok || id.Name != "_" {
			out = append(out, f.assignTo(s.Lhs[1], "(if "+b+" = 0 then 0 else "+a+" % "+b+")", define, s, ind)...)
		}
		return out, true
	}
	// ledger operations
	if op, _ := f.ledgerCallOp(c); op != nil {
		vals, _ := f.specialCall(c)
		out = append(out, f.flush(ind, &f.pre)...)
		if len(vals) != len(s.Lhs) {
			if len(s.Lhs) == 1 && len(vals) >= 1 {
				if id, ok := s.Lhs[0].(*ast.Ident); ok && id.Name == "_" {
					return out, true
				}
			}
			f.problem(s, "assignment arity of the ledger call `%s`", f.src(c))
			return out, true
		}
		for i, l := range s.Lhs {
			if id, ok := l.(*ast.Ident); ok && id.Name == "_" {
				continue
			}
			val := vals[i]
			if i == 0 && (op.op == "get" || op.op == "del") && !f.lhsOpt(l) {
				val = "(← gderef " + val + ")"
			}
			out = append(out, f.assignTo(l, val, define, s, ind)...)
		}
		return out, true
	}
	// a call through a function variable over two whitelisted methods
	if fl := f.flOf(c); fl != nil {
		if define {
			for _, l := range s.Lhs {
				id, ok := l.(*ast.Ident)
				if !ok || id.Name == "_" {
					continue
				}
				o := f.info.Defs[id]
				if o == nil {
					continue
				}
				z := "none"
				if !f.opt[o] {
					var err error
					z, err = f.tr.zeroValue(o.Type())
					if err != nil {
						f.problem(s, "%v", err)
						z = "default"
					}
				}
				out = append(out, fmt.Sprintf("%slet mut %s : %s := %s", ind, f.nameOf(o), f.varType(o), z))
				f.xUses[id] = o
			}
		}
		out = append(out, f.flAlt(fl, ind, func(alt *ast.SelectorExpr, in2 string) []string {
			ns := &ast.AssignStmt{Lhs: s.Lhs, TokPos: s.TokPos, Tok: token.ASSIGN, Rhs: []ast.Expr{f.altCall(c, alt)}}
			return f.assignStmt(ns, in2)
		})...)
		return out, true
	}
	// results of an oracle function
	if len(s.Lhs) > 1 {
		if v, ok := f.oracleFnFor(c); ok {
			out = append(out, f.flush(ind, &f.pre)...)
			t := f.tmp("__o")
			out = append(out, fmt.Sprintf("%slet %s := %s", ind, t, v))
			for i, l := range s.Lhs {
				if id, ok := l.(*ast.Ident); ok && id.Name == "_" {
					continue
				}
				out = append(out, f.assignTo(l, proj(t, i, len(s.Lhs)), define, s, ind)...)
			}
			return out, true
		}
	}
	return nil, false
}

// nilWrapZero: the composite literal cl leaves out the pointer field fld, which the Lean structure holds
// as one component of the pointed-to structure.  The nil pointer is represented by the zero component;
// this is only done when the literal is bound to a local variable all of whose uses are field reads of
// other fields, nil tests, or arguments of whitelisted callees that never touch the field.
func (f *trFunc) nilWrapZero(cl *ast.CompositeLit, fld *types.Var, w wrapSpec) (string, bool) {
	target := structOf(fld.Type())
	if target == nil {
		return "", false
	}
	tts, ok := f.tr.exp.Types[f.tr.typeKey(target)]
	if !ok {
		return "", false
	}
	zero := ""
	st := target.Underlying().(*types.Struct)
	for i := 0; i < st.NumFields(); i++ {
		if tts.Fields[st.Field(i).Name()] == w.Proj {
			z, err := f.tr.zeroValue(st.Field(i).Type())
			if err != nil {
				return "", false
			}
			zero = z
		}
	}
	if zero == "" {
		return "", false
	}
	// the variable the literal is bound to
	var v types.Object
	ast.Inspect(f.node.Decl.Body, func(n ast.Node) bool {
		s, ok := n.(*ast.AssignStmt)
		if !ok || len(s.Lhs) != len(s.Rhs) {
			return true
		}
		for i, r := range s.Rhs {
			r = ast.Unparen(r)
			if u, ok := r.(*ast.UnaryExpr); ok && u.Op == token.AND {
				r = ast.Unparen(u.X)
			}
			if r == ast.Expr(cl) {
				v = f.objOf(s.Lhs[i])
			}
		}
		return true
	})
	if v == nil {
		f.problem(cl, "field %s (a nil pointer) is left out of a literal that is not bound to a local variable", fld.Name())
		return zero, true
	}
	var stack []ast.Node
	ast.Inspect(f.node.Decl.Body, func(n ast.Node) bool {
		if n == nil {
			stack = stack[:len(stack)-1]
			return true
		}
		stack = append(stack, n)
		id, ok := n.(*ast.Ident)
		if !ok || f.info.Uses[id] != v || len(stack) < 2 {
			return true
		}
		bad := func() {
			f.problem(id, "`%s` may hold an object whose field %s is nil and is used where that field could be touched", v.Name(), fld.Name())
		}
		untouched := func(g *trFunc, i int) bool {
			return g != nil && i < len(g.params) && !g.touchesField(g.params[i], fld.Name())
		}
		switch p := stack[len(stack)-2].(type) {
		case *ast.SelectorExpr:
			if p.X == ast.Expr(id) {
				if s := f.info.Selections[p]; s != nil && s.Kind() == types.FieldVal {
					if f.firstName(p) == fld.Name() {
						bad()
					}
					return true
				}
				// method call on v
				if len(stack) >= 3 {
					if c, ok := stack[len(stack)-3].(*ast.CallExpr); ok && c.Fun == ast.Expr(p) {
						if g, _ := f.callee(c); untouched(g, 0) {
							return true
						}
					}
				}
				bad()
			}
		case *ast.BinaryExpr:
			if !(f.isNil(p.X) || f.isNil(p.Y)) {
				bad()
			}
		case *ast.AssignStmt:
			for _, l := range p.Lhs {
				if l == ast.Expr(id) {
					return true
				}
			}
			bad()
		case *ast.CallExpr:
			idx := -1
			for i, a := range p.Args {
				if a == ast.Expr(id) {
					idx = i
				}
			}
			if idx < 0 {
				bad()
				return true
			}
			if g, _ := f.callee(p); g != nil {
				off := len(f.callArgs(p)) - len(p.Args)
				if !untouched(g, idx+off) {
					bad()
				}
				return true
			}
			if fl := f.flOf(p); fl != nil && len(fl.alts) > 0 {
				for _, a := range fl.alts {
					if !untouched(f.calleeOfSel(a), idx+1) {
						bad()
					}
				}
				return true
			}
			bad()
		default:
			bad()
		}
		return true
	})
	return zero, true
}

// isLoggerCall: a call of a method of a tendermint logger (dropped together with the evaluation of its
// arguments; reviewed: logging does not touch the translated state)
func isLoggerCall(f *trFunc, e ast.Expr) bool {
	c, ok := ast.Unparen(e).(*ast.CallExpr)
	if !ok {
		return false
	}
	sel, ok := ast.Unparen(c.Fun).(*ast.SelectorExpr)
	if !ok {
		return false
	}
	t := f.typeOf(sel.X)
	if t == nil {
		return false
	}
	if p, ok := t.(*types.Pointer); ok {
		t = p.Elem()
	}
	n, ok := types.Unalias(t).(*types.Named)
	return ok && n.Obj().Pkg() != nil && n.Obj().Pkg().Path() == "github.com/tendermint/tendermint/libs/log" && n.Obj().Name() == "Logger"
}

// typesPkg: the package of a type key of funcs.json: module relative ("ctrlers/stake") or an import path
// of a package the module imports
func (tr *translator) typesPkg(path string) *types.Package {
	if p := tr.pr.ByRel[path]; p != nil {
		return p.Types
	}
	if tr.extPkgs == nil {
		tr.extPkgs = map[string]*types.Package{}
		var walk func(p *types.Package)
		walk = func(p *types.Package) {
			if p == nil || tr.extPkgs[p.Path()] != nil {
				return
			}
			tr.extPkgs[p.Path()] = p
			for _, q := range p.Imports() {
				walk(q)
			}
		}
		for _, p := range tr.pr.Pkgs {
			walk(p.Types)
		}
	}
	return tr.extPkgs[path]
}

// existsLoop: the body of a range over a map is `if C { S..; break }` where C and S.. do not depend on
// the order: C reads no variable assigned in S.., S.. does not mention the key / value variables.
// The loop then performs S.. once iff some entry satisfies C: the iteration order is irrelevant.
func (f *trFunc) existsLoop(body *ast.BlockStmt, keyObj, valObj types.Object) bool {
	if len(body.List) != 1 {
		return false
	}
	is, ok := body.List[0].(*ast.IfStmt)
	if !ok || is.Init != nil || is.Else != nil || len(is.Body.List) == 0 {
		return false
	}
	br, ok := is.Body.List[len(is.Body.List)-1].(*ast.BranchStmt)
	if !ok || br.Tok != token.BREAK || br.Label != nil {
		return false
	}
	assigned := map[types.Object]bool{}
	ok = true
	for _, st := range is.Body.List[:len(is.Body.List)-1] {
		as, isA := st.(*ast.AssignStmt)
		if !isA {
			return false
		}
		for _, l := range as.Lhs {
			o := f.objOf(l)
			if o == nil {
				return false
			}
			assigned[o] = true
		}
		ast.Inspect(st, func(n ast.Node) bool {
			switch x := n.(type) {
			case *ast.Ident:
				if o := f.info.Uses[x]; o != nil && (o == keyObj || o == valObj) {
					ok = false
				}
			case *ast.CallExpr:
				if g, _ := f.callee(x); g != nil && len(g.mutParams) > 0 {
					ok = false
				}
				if op := f.isLedgerWrite(x); op != nil {
					ok = false
				}
			case *ast.FuncLit, *ast.BranchStmt:
				ok = false
			}
			return true
		})
	}
	ast.Inspect(is.Cond, func(n ast.Node) bool {
		switch x := n.(type) {
		case *ast.Ident:
			if o := f.info.Uses[x]; o != nil && assigned[o] {
				ok = false
			}
		case *ast.CallExpr:
			if g, _ := f.callee(x); g != nil && len(g.mutParams) > 0 {
				ok = false
			}
		case *ast.FuncLit:
			ok = false
		}
		return true
	})
	return ok
}

// detachAfter: after a statement containing the call named under "detach" for an alias variable the
// variable is a detached copy (its live flag is cleared)
func (f *trFunc) detachAfter(s ast.Stmt, ind string) []string {
	if f.spec == nil || len(f.spec.Detach) == 0 || len(f.detached) == 0 {
		return nil
	}
	var out []string
	for _, a := range f.sortedAliases() {
		if !f.detached[a.obj] || a.flag == "" || a.bind == s {
			continue
		}
		want := f.spec.Detach[a.obj.Name()]
		hit := false
		ast.Inspect(s, func(n ast.Node) bool {
			if c, ok := n.(*ast.CallExpr); ok && f.src(c) == want {
				hit = true
			}
			return true
		})
		if hit {
			out = append(out, ind+a.flag+" := false")
		}
	}
	return out
}
