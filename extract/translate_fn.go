package main

// Per-function part of the Go -> Lean translation: pre-analysis (Option-ness of pointer variables,
// mutated parameters, aliasing checks), signature and the statement translation.

import (
	"fmt"
	"go/ast"
	"go/token"
	"go/types"
	"sort"
	"strings"
)

type trFunc struct {
	tr         *translator
	node       *FuncNode
	spec       *funcSpec
	info       *types.Info
	problems   []string
	names      map[types.Object]string
	used       map[string]bool
	opt        map[types.Object]bool // pointer-to-struct variables that may be nil -> Option
	mutated    map[types.Object]bool // variables whose fields are assigned
	fresh      map[types.Object]bool
	mutParams  []*types.Var // receiver / parameters threaded through the result
	resOpt     []bool
	resTypes   []string
	retType    string
	params     []*types.Var // receiver first
	arith      int
	text       string
	sigText    string
	inProgress bool
	loopN      int
	tmpN       int
	loopDepth  int
	pre        []string
	fuelFlag   []string
	fuelPost   []bool
	assigned   map[types.Object]bool
	rangeVal   map[types.Object]bool
	inShort    int
	// write-back loops: `for _, s := range x.F { s.G = … }` over a slice of pointers updates the
	// elements in place; translated by collecting the updated elements into a new list
	writeBack    map[*ast.RangeStmt]string
	wbStack      []string
	hasWriteBack bool
	hasEscape    bool
	// round 2 (translate_alias.go)
	extras      []extraParam
	alias       map[types.Object]*aliasInfo
	aliasBind   map[ast.Stmt]*aliasInfo
	synth       map[*ast.SelectorExpr]bool
	touch       map[types.Object]map[string]bool
	writes      map[types.Object]map[string]bool
	finder      *finderInfo
	oracleUsed  map[string]bool
	keyOverride map[types.Object]string // parameter -> key of funcs.json/types (funcSpec.ParamTypes)
	freeU256    bool                    // no in-place uint256 operation on a variable / field: pointer copies are harmless
	// round 3 (translate_ctrl.go)
	funcLocals   map[types.Object]*funcLocal
	xUses        map[*ast.Ident]types.Object
	xTypes       map[ast.Expr]types.Type
	closure      []closureCtx
	oracleOnly   map[types.Object]bool
	returnsFresh bool
	detached     map[types.Object]bool
	neverNil     int
	lbytes       map[types.Object]bool // round 4: []byte variables that hold the stored form of a ledger item
}

func newTrFunc(tr *translator, node *FuncNode, spec *funcSpec, info *types.Info) *trFunc {
	return &trFunc{tr: tr, node: node, spec: spec, info: info,
		names: map[types.Object]string{}, used: map[string]bool{}, opt: map[types.Object]bool{},
		mutated: map[types.Object]bool{}, fresh: map[types.Object]bool{},
		assigned: map[types.Object]bool{}, rangeVal: map[types.Object]bool{}, writeBack: map[*ast.RangeStmt]string{},
		alias: map[types.Object]*aliasInfo{}, aliasBind: map[ast.Stmt]*aliasInfo{}, synth: map[*ast.SelectorExpr]bool{},
		touch: map[types.Object]map[string]bool{}, writes: map[types.Object]map[string]bool{}, oracleUsed: map[string]bool{},
		keyOverride: map[types.Object]string{},
		funcLocals:  map[types.Object]*funcLocal{}, xUses: map[*ast.Ident]types.Object{}, xTypes: map[ast.Expr]types.Type{},
		oracleOnly: map[types.Object]bool{}, detached: map[types.Object]bool{}}
}

func (f *trFunc) problem(n ast.Node, format string, args ...interface{}) {
	msg := fmt.Sprintf(format, args...)
	if n != nil && f.node != nil && f.node.Decl != nil {
		// position independent: line offset inside the function
		l0 := f.tr.pr.Fset.Position(f.node.Decl.Pos()).Line
		l := f.tr.pr.Fset.Position(n.Pos()).Line
		msg = fmt.Sprintf("%s (line +%d)", msg, l-l0)
	}
	for _, p := range f.problems {
		if p == msg {
			return
		}
	}
	f.problems = append(f.problems, msg)
}

var leanKeywords = map[string]bool{"end": true, "from": true, "at": true, "fun": true, "then": true, "do": true, "in": true,
	"open": true, "show": true, "have": true, "by": true, "let": true, "if": true, "else": true, "match": true, "with": true,
	"where": true, "def": true, "theorem": true, "instance": true, "structure": true, "class": true, "import": true,
	"namespace": true, "section": true, "variable": true, "return": true, "for": true, "unless": true, "mut": true,
	"try": true, "catch": true, "finally": true, "break": true, "continue": true, "true": true, "false": true,
	"Type": true, "Prop": true, "Sort": true, "some": true, "none": true, "pure": true, "throw": true, "this": true,
	"using": true, "calc": true, "nomatch": true, "nofun": true, "forall": true, "exists": true, "deriving": true,
	"extends": true, "abbrev": true, "example": true, "axiom": true, "macro": true, "syntax": true, "notation": true,
	"private": true, "protected": true, "partial": true, "unsafe": true, "noncomputable": true, "mutual": true,
	"universe": true, "export": true, "attribute": true, "local": true, "scoped": true, "set_option": true, "suffices": true,
	"obtain": true, "G": true, "Hex": true, "Nat": true, "Int": true, "List": true, "Option": true, "Bool": true, "String": true}

func (f *trFunc) nameOf(o types.Object) string {
	if n, ok := f.names[o]; ok {
		return n
	}
	base := o.Name()
	if leanKeywords[base] || base == "_" {
		base = base + "_"
	}
	base = strings.TrimLeft(base, "") // (Lean accepts leading underscores)
	n := base
	for i := 1; f.used[n]; i++ {
		n = fmt.Sprintf("%s_%d", base, i)
	}
	f.used[n] = true
	f.names[o] = n
	return n
}

func (f *trFunc) tmp(prefix string) string {
	for {
		f.tmpN++
		n := fmt.Sprintf("%s%d", prefix, f.tmpN)
		if !f.used[n] {
			f.used[n] = true
			return n
		}
	}
}

func (f *trFunc) objOf(e ast.Expr) types.Object {
	e = ast.Unparen(e)
	if id, ok := e.(*ast.Ident); ok {
		if o, ok := f.xUses[id]; ok {
			return o
		}
		if o := f.info.Uses[id]; o != nil {
			return o
		}
		return f.info.Defs[id]
	}
	return nil
}

func (f *trFunc) isNil(e ast.Expr) bool {
	e = ast.Unparen(e)
	id, ok := e.(*ast.Ident)
	if !ok {
		return false
	}
	_, isNil := f.info.Uses[id].(*types.Nil)
	return isNil
}

func (f *trFunc) typeOf(e ast.Expr) types.Type {
	if t, ok := f.xTypes[e]; ok {
		return t
	}
	if tv, ok := f.info.Types[e]; ok {
		return tv.Type
	}
	if id, ok := e.(*ast.Ident); ok {
		if o := f.info.ObjectOf(id); o != nil {
			return o.Type()
		}
	}
	return nil
}

// callee returns the whitelisted function called by c (nil otherwise) and the static *types.Func
func (f *trFunc) callee(c *ast.CallExpr) (*trFunc, *types.Func) {
	var id *ast.Ident
	switch fn := ast.Unparen(c.Fun).(type) {
	case *ast.Ident:
		id = fn
	case *ast.SelectorExpr:
		id = fn.Sel
	}
	if id == nil {
		return nil, nil
	}
	obj, _ := f.info.Uses[id].(*types.Func)
	if obj == nil {
		return nil, nil
	}
	obj = obj.Origin()
	if !f.tr.pr.inModule(obj.Pkg()) {
		return nil, obj
	}
	if g, ok := f.tr.done[obj]; ok && g.inProgress {
		return nil, obj // recursion: reported by the caller as unsupported
	}
	return f.tr.get(obj), obj
}

// isOptExpr: does e denote a possibly-nil pointer to a struct (an Option on the Lean side)?
func (f *trFunc) isOptExpr(e ast.Expr) bool {
	e = ast.Unparen(e)
	if f.isNil(e) {
		return true
	}
	if o := f.objOf(e); o != nil {
		return f.opt[o]
	}
	if c, ok := e.(*ast.CallExpr); ok {
		if g, _ := f.callee(c); g != nil && len(g.resOpt) == 1 {
			return g.resOpt[0]
		}
	}
	if ix, ok := e.(*ast.IndexExpr); ok {
		if m := mapOf(f.typeOf(ix.X)); m != nil && isStructPtr(m.Elem()) {
			return true // a missing key yields nil
		}
	}
	if sel, ok := e.(*ast.SelectorExpr); ok {
		return f.isOptionalField(sel)
	}
	return false
}

// specOfStruct: the funcs.json entry for the struct type of expression x (a parameter may carry
// an override, funcSpec.ParamTypes)
func (f *trFunc) specOfStruct(x ast.Expr) (string, typeSpec, bool) {
	n := structOf(f.typeOf(x))
	if n == nil {
		return "", typeSpec{}, false
	}
	k := f.tr.typeKey(n)
	if o := f.objOf(x); o != nil {
		if ko, ok := f.keyOverride[o]; ok {
			k = ko
		}
	}
	ts, ok := f.tr.exp.Types[k]
	if ok {
		f.tr.usedTy[k] = true
	}
	return k, ts, ok
}

// isPtrField: sel = X.F with F a (non-optional) pointer-to-struct field
func (f *trFunc) isPtrField(sel *ast.SelectorExpr) bool {
	s := f.info.Selections[sel]
	if s == nil || s.Kind() != types.FieldVal || len(s.Index()) != 1 {
		return false
	}
	return isStructPtr(f.typeOf(sel)) && !f.isOptionalField(sel)
}

// isOptionalField: sel selects a pointer field declared "optional" in funcs.json/types
func (f *trFunc) isOptionalField(sel *ast.SelectorExpr) bool {
	if !f.synth[sel] {
		if s := f.info.Selections[sel]; s == nil || s.Kind() != types.FieldVal {
			return false
		}
	}
	x := sel.X
	if s := f.info.Selections[sel]; s != nil && len(s.Index()) > 1 {
		// promoted: the optional-ness is that of the last step
		n := structOf(f.typeOf(x))
		for _, idx := range s.Index()[:len(s.Index())-1] {
			if n == nil {
				return false
			}
			n = structOf(n.Underlying().(*types.Struct).Field(idx).Type())
		}
		if n == nil {
			return false
		}
		ts, ok := f.tr.exp.Types[f.tr.typeKey(n)]
		return ok && ts.isOptional(sel.Sel.Name)
	}
	_, ts, ok := f.specOfStruct(x)
	return ok && ts.isOptional(sel.Sel.Name)
}

// analyse: Option-ness fixpoint, mutated variables, result shapes
func (f *trFunc) analyse() {
	body := f.node.Decl.Body
	sig := f.node.Obj.Type().(*types.Signature)
	nres := sig.Results().Len()
	f.resOpt = make([]bool, nres)
	f.findFuncLocals()
	markOpt := func(o types.Object) bool {
		if o == nil || f.opt[o] || !isStructPtr(o.Type()) {
			return false
		}
		f.opt[o] = true
		return true
	}
	for changed := true; changed; {
		changed = false
		ast.Inspect(body, func(n ast.Node) bool {
			switch s := n.(type) {
			case *ast.DeclStmt:
				if gd, ok := s.Decl.(*ast.GenDecl); ok {
					for _, sp := range gd.Specs {
						if vs, ok := sp.(*ast.ValueSpec); ok {
							for i, nm := range vs.Names {
								if len(vs.Values) == 0 {
									changed = markOpt(f.info.Defs[nm]) || changed
								} else if i < len(vs.Values) && f.isOptExpr(vs.Values[i]) {
									changed = markOpt(f.info.Defs[nm]) || changed
								}
							}
						}
					}
				}
			case *ast.AssignStmt:
				if len(s.Lhs) == len(s.Rhs) {
					for i, l := range s.Lhs {
						if f.isOptExpr(s.Rhs[i]) {
							changed = markOpt(f.objOf(l)) || changed
						}
					}
				} else if len(s.Rhs) == 1 {
					if len(s.Lhs) == 2 && f.isOptExpr(s.Rhs[0]) {
						if _, isIx := ast.Unparen(s.Rhs[0]).(*ast.IndexExpr); isIx {
							changed = markOpt(f.objOf(s.Lhs[0])) || changed
						}
					}
					if c, ok := ast.Unparen(s.Rhs[0]).(*ast.CallExpr); ok {
						if op, _ := f.ledgerCallOp(c); op != nil && (op.op == "get" || op.op == "del") && len(s.Lhs) == 2 {
							changed = markOpt(f.objOf(s.Lhs[0])) || changed
						} else if g, _ := f.callee(c); g != nil && len(g.resOpt) == len(s.Lhs) {
							for i, l := range s.Lhs {
								if g.resOpt[i] {
									changed = markOpt(f.objOf(l)) || changed
								}
							}
						}
					}
					if _, ok := ast.Unparen(s.Rhs[0]).(*ast.TypeAssertExpr); ok && len(s.Lhs) == 2 {
						changed = markOpt(f.objOf(s.Lhs[0])) || changed
					}
				}
			case *ast.BinaryExpr:
				if s.Op == token.EQL || s.Op == token.NEQ {
					if f.isNil(s.Y) {
						changed = markOpt(f.objOf(s.X)) || changed
					}
					if f.isNil(s.X) {
						changed = markOpt(f.objOf(s.Y)) || changed
					}
				}
			case *ast.ReturnStmt:
				if len(s.Results) == nres {
					for i, r := range s.Results {
						if isStructPtr(sig.Results().At(i).Type()) && f.isOptExpr(r) && !f.resOpt[i] {
							f.resOpt[i] = true
							changed = true
						}
					}
				} else if len(s.Results) == 1 && nres > 1 {
					if c, ok := ast.Unparen(s.Results[0]).(*ast.CallExpr); ok {
						if g, _ := f.callee(c); g != nil && len(g.resOpt) == nres {
							for i := range g.resOpt {
								if g.resOpt[i] && !f.resOpt[i] {
									f.resOpt[i] = true
									changed = true
								}
							}
						}
					}
				}
			}
			return true
		})
	}
	// mutated variables: x.f = e, x.f op= e, x.f++, in-place uint256 setters on x.f, calls of
	// whitelisted methods that thread their receiver / parameters
	markMut := func(e ast.Expr, at ast.Node) {
		e = ast.Unparen(e)
		if o := f.objOf(e); o != nil {
			if _, ok := o.(*types.Var); ok {
				f.mutated[o] = true
			}
			return
		}
		if sel, ok := e.(*ast.SelectorExpr); ok && (f.wrapOf(sel) != nil || f.isPtrField(sel)) {
			// the object behind a pointer field of a variable (trusted: not shared with another field)
			if o := f.objOf(sel.X); o != nil {
				f.mutated[o] = true
				return
			}
		}
		if f.round4() {
			// a nested field (embedded struct value / pointer field of it) of a variable
			if o := f.fieldRoot(e); o != nil {
				f.mutated[o] = true
				return
			}
		}
		f.problem(at, "assignment through `%s` (only fields of a variable can be assigned)", f.src(e))
	}
	ast.Inspect(body, func(n ast.Node) bool {
		switch s := n.(type) {
		case *ast.AssignStmt:
			for _, l := range s.Lhs {
				if sel, ok := ast.Unparen(l).(*ast.SelectorExpr); ok {
					markMut(sel.X, s)
				}
			}
		case *ast.IncDecStmt:
			if sel, ok := ast.Unparen(s.X).(*ast.SelectorExpr); ok {
				markMut(sel.X, s)
			}
		case *ast.CallExpr:
			if sel, ok := ast.Unparen(s.Fun).(*ast.SelectorExpr); ok && isUint256(f.typeOf(sel.X)) && uint256Setter[sel.Sel.Name] {
				if fs, ok := ast.Unparen(sel.X).(*ast.SelectorExpr); ok {
					markMut(fs.X, s)
				}
			}
			if g, _ := f.callee(s); g != nil {
				args := f.callArgs(s)
				for _, mp := range g.mutParams {
					for i, p := range g.params {
						if p == mp && i < len(args) {
							markMut(args[i], s)
						}
					}
				}
			}
		}
		return true
	})
	f.markCtrlMutations(markMut)
	if f.spec != nil && f.spec.Persist != nil {
		ast.Inspect(body, func(n ast.Node) bool {
			if c, ok := n.(*ast.CallExpr); ok {
				if _, isP := f.spec.Persist[f.src(c)]; isP {
					if sel, ok := ast.Unparen(c.Fun).(*ast.SelectorExpr); ok {
						if o := f.fieldRoot(sel.X); o != nil {
							f.mutated[o] = true
						}
					}
				}
			}
			return true
		})
	}
	if f.inLedger() {
		// updates of the IAVL tree behind a field
		ast.Inspect(body, func(n ast.Node) bool {
			if as, ok := n.(*ast.AssignStmt); ok {
				for _, l := range as.Lhs {
					if ix, ok := ast.Unparen(l).(*ast.IndexExpr); ok && isLedgerMap(f.typeOf(ix.X)) {
						if sel, ok := ast.Unparen(ix.X).(*ast.SelectorExpr); ok {
							markMut(sel.X, as)
						}
					}
				}
			}
			if c, ok := n.(*ast.CallExpr); ok {
				if sel, ok := ast.Unparen(c.Fun).(*ast.SelectorExpr); ok && isIavlTree(f.typeOf(sel.X)) && (sel.Sel.Name == "Set" || sel.Sel.Name == "Remove") {
					markMut(sel.X, c)
				}
				if id, ok := ast.Unparen(c.Fun).(*ast.Ident); ok && id.Name == "delete" && len(c.Args) == 2 && isLedgerMap(f.typeOf(c.Args[0])) {
					if sel, ok := ast.Unparen(c.Args[0]).(*ast.SelectorExpr); ok {
						markMut(sel.X, c)
					}
				}
			}
			return true
		})
	}
	// write-back loops: the range value variable is mutated
	ast.Inspect(body, func(n ast.Node) bool {
		r, ok := n.(*ast.RangeStmt)
		if !ok || r.Value == nil {
			return true
		}
		o := f.objOf(r.Value)
		if o == nil || !f.mutated[o] {
			return true
		}
		if !isStructPtr(o.Type()) {
			return true // a struct value copy: mutation is local to the iteration (reported below)
		}
		okShape := false
		switch x := ast.Unparen(r.X).(type) {
		case *ast.Ident:
			okShape = f.objOf(x) != nil
		case *ast.SelectorExpr:
			okShape = f.objOf(x.X) != nil
		}
		if !okShape {
			f.problem(r, "in-place update of the elements of `%s` (only a variable or a field of a variable)", f.src(r.X))
			return true
		}
		bad := false
		var walk func(n ast.Node, depth int)
		walk = func(n ast.Node, depth int) {
			ast.Inspect(n, func(m ast.Node) bool {
				switch b := m.(type) {
				case *ast.ReturnStmt:
					bad = true
				case *ast.BranchStmt:
					if b.Tok == token.BREAK || b.Tok == token.GOTO || b.Label != nil {
						bad = true
					}
				case *ast.ForStmt, *ast.RangeStmt, *ast.SwitchStmt, *ast.FuncLit:
					if m != n {
						// a nested loop: its own break is fine, a return is not
						ast.Inspect(m, func(k ast.Node) bool {
							if _, ok := k.(*ast.ReturnStmt); ok {
								bad = true
							}
							if c, ok := k.(*ast.BranchStmt); ok && c.Tok == token.CONTINUE {
								bad = true // (would need the write-back of the outer loop)
							}
							return true
						})
						return false
					}
				}
				return true
			})
		}
		walk(r.Body, 0)
		if bad {
			f.problem(r, "in-place update of the elements of `%s` in a loop with break / return", f.src(r.X))
			return true
		}
		f.writeBack[r] = f.tmp("__wb")
		f.hasWriteBack = true
		if root := f.rootObj(r.X); root != nil {
			f.mutated[root] = true
		}
		return true
	})
	// parameters (receiver first)
	if r := sig.Recv(); r != nil {
		f.params = append(f.params, r)
	}
	for i := 0; i < sig.Params().Len(); i++ {
		f.params = append(f.params, sig.Params().At(i))
	}
	if f.spec != nil {
		for _, p := range f.params {
			if k, ok := f.spec.ParamTypes[p.Name()]; ok {
				f.keyOverride[p] = k
			}
		}
	}
	f.freeU256 = true
	ast.Inspect(body, func(n ast.Node) bool {
		if c, ok := n.(*ast.CallExpr); ok {
			if sel, ok := ast.Unparen(c.Fun).(*ast.SelectorExpr); ok && isUint256(f.typeOf(sel.X)) && uint256Setter[sel.Sel.Name] && !f.isFreshU256(sel.X) {
				f.freeU256 = false
			}
		}
		return true
	})
	f.findOracleOnly()
	f.computeReturnsFresh()
	f.findAliases()
	for _, p := range f.params {
		if f.mutated[p] {
			if _, isPtr := p.Type().(*types.Pointer); isPtr {
				f.mutParams = append(f.mutParams, p)
			}
		}
	}
	f.checkAliasing()
	f.computeFootprint()
	f.detectFinder()
}

// callArgs: receiver expression (if a method call) followed by the arguments
func (f *trFunc) callArgs(c *ast.CallExpr) []ast.Expr {
	var args []ast.Expr
	if sel, ok := ast.Unparen(c.Fun).(*ast.SelectorExpr); ok {
		if s := f.info.Selections[sel]; s != nil && s.Kind() == types.MethodVal {
			args = append(args, sel.X)
		}
	}
	return append(args, c.Args...)
}

func isFreshExpr(e ast.Expr) bool {
	e = ast.Unparen(e)
	switch x := e.(type) {
	case *ast.UnaryExpr:
		if x.Op == token.AND {
			_, ok := ast.Unparen(x.X).(*ast.CompositeLit)
			return ok
		}
	case *ast.CompositeLit:
		return true
	}
	return false
}

// checkAliasing enforces the conditions under which value semantics agrees with Go's pointers:
//   - a local pointer-to-struct variable whose fields are assigned is only ever bound to fresh
//     composite literals, and is used as a whole value only in return statements;
//   - range variables and elements reached through indexing are never mutated;
//   - a *uint256.Int is only bound to the result of a call (fresh value), never to another
//     variable / field / parameter (which would alias an object mutated in place).
func (f *trFunc) checkAliasing() {
	body := f.node.Decl.Body
	isParam := map[types.Object]bool{}
	for _, p := range f.params {
		isParam[p] = true
	}
	rangeVars := map[types.Object]bool{}
	ast.Inspect(body, func(n ast.Node) bool {
		if r, ok := n.(*ast.RangeStmt); ok {
			for _, e := range []ast.Expr{r.Key, r.Value} {
				if e != nil {
					if o := f.objOf(e); o != nil {
						rangeVars[o] = true
					}
				}
			}
		}
		return true
	})
	wbVar := map[types.Object]*ast.RangeStmt{}
	for r := range f.writeBack {
		wbVar[f.objOf(r.Value)] = r
	}
	for o := range f.mutated {
		if rangeVars[o] && wbVar[o] == nil {
			f.problem(nil, "the range variable `%s` is mutated (only the element variable of a range over a variable's slice of pointers can be)", o.Name())
		}
	}
	// escapeOK: a whole-value use of a write-back variable (e.g. append(list, s)) is sound when no
	// mutation of it can follow in the same iteration: the use is a statement directly in a block
	// that ends with `continue`, and no later statement of that block assigns a field of it
	escapeOK := func(o types.Object, stack []ast.Node) bool {
		for i := len(stack) - 1; i > 0; i-- {
			st, ok := stack[i].(ast.Stmt)
			if !ok {
				continue
			}
			blk, ok := stack[i-1].(*ast.BlockStmt)
			if !ok {
				return false
			}
			n := len(blk.List)
			if n == 0 {
				return false
			}
			last, ok := blk.List[n-1].(*ast.BranchStmt)
			if !ok || last.Tok != token.CONTINUE || last.Label != nil {
				return false
			}
			after := false
			mut := false
			for _, b := range blk.List {
				if b == st {
					after = true
					continue
				}
				if !after {
					continue
				}
				ast.Inspect(b, func(m ast.Node) bool {
					switch a := m.(type) {
					case *ast.AssignStmt:
						for _, l := range a.Lhs {
							if sel, ok := ast.Unparen(l).(*ast.SelectorExpr); ok && f.objOf(sel.X) == o {
								mut = true
							}
						}
					case *ast.IncDecStmt:
						if sel, ok := ast.Unparen(a.X).(*ast.SelectorExpr); ok && f.objOf(sel.X) == o {
							mut = true
						}
					case *ast.CallExpr:
						for _, x := range f.callArgs(a) {
							if f.objOf(x) == o {
								mut = true
							}
						}
					}
					return true
				})
			}
			return !mut
		}
		return false
	}
	checkBind := func(l ast.Expr, r ast.Expr, at ast.Node) {
		lt := f.typeOf(l)
		if lt == nil {
			return
		}
		if isUint256(lt) {
			// (a pointer copy is harmless in a function without in-place uint256 operations on
			// variables / fields; the sharing it creates between the results is the caller's concern)
			if _, ok := ast.Unparen(r).(*ast.CallExpr); !ok && !f.freeU256 && !f.isNil(r) {
				f.problem(at, "*uint256.Int `%s` is bound to `%s` without a copy (aliasing)", f.src(l), f.src(r))
			}
			return
		}
		if o := f.objOf(l); o != nil && f.mutated[o] && !isParam[o] && isStructPtr(o.Type()) {
			if st, ok := at.(ast.Stmt); ok && f.aliasBind[st] != nil && f.aliasBind[st].obj == o {
				return // a pointer to an element, written back after every write (translate_alias.go)
			}
			if c, isCall := ast.Unparen(r).(*ast.CallExpr); isCall && f.isFreshCall(c) {
				return
			}
			if !isFreshExpr(r) && !f.isNil(r) {
				f.problem(at, "`%s` is mutated but bound to `%s`, which may alias another object", o.Name(), f.src(r))
			}
		}
	}
	ast.Inspect(body, func(n ast.Node) bool {
		switch s := n.(type) {
		case *ast.AssignStmt:
			if len(s.Lhs) == len(s.Rhs) {
				for i := range s.Lhs {
					checkBind(s.Lhs[i], s.Rhs[i], s)
				}
			} else {
				for _, l := range s.Lhs {
					if o := f.objOf(l); o != nil && f.mutated[o] && !isParam[o] && isStructPtr(o.Type()) {
						if a := f.aliasBind[s]; a != nil && a.obj == o {
							continue
						}
						if c, isCall := ast.Unparen(s.Rhs[0]).(*ast.CallExpr); isCall && len(s.Rhs) == 1 {
							if op, _ := f.ledgerCallOp(c); op != nil && (op.op == "get" || op.op == "del") {
								continue // a private copy (header of the generated file): written back by Set only
							}
						}
						f.problem(s, "`%s` is mutated but bound to a call result, which may alias another object", o.Name())
					}
					if lt := f.typeOf(l); lt != nil && isUint256(lt) {
						// results of calls are fresh by the rule above only for whitelisted callees; accept
					}
				}
			}
		case *ast.ValueSpec:
			for i, nm := range s.Names {
				if i < len(s.Values) {
					checkBind(nm, s.Values[i], s)
				}
			}
		}
		return true
	})
	// whole-value uses of mutated pointer variables
	var stack []ast.Node
	ast.Inspect(body, func(n ast.Node) bool {
		if n == nil {
			stack = stack[:len(stack)-1]
			return true
		}
		stack = append(stack, n)
		id, ok := n.(*ast.Ident)
		if !ok {
			return true
		}
		o := f.info.Uses[id]
		if o == nil || !f.mutated[o] || !isStructPtr(o.Type()) {
			return true
		}
		if len(stack) < 2 {
			return true
		}
		switch p := stack[len(stack)-2].(type) {
		case *ast.SelectorExpr:
			if p.X == id {
				return true // field access / method call
			}
		case *ast.ReturnStmt:
			return true
		case *ast.BinaryExpr:
			if f.isNil(p.X) || f.isNil(p.Y) {
				return true
			}
		case *ast.AssignStmt:
			for _, l := range p.Lhs {
				if l == id {
					return true
				}
			}
		case *ast.CallExpr:
			if f.round4() && f.spec != nil && f.spec.Oracles != nil {
				if _, isOracle := f.spec.Oracles[f.src(p)]; isOracle {
					return true // read by a reviewed, side-effect free oracle call
				}
			}
			if g, _ := f.callee(p); g != nil {
				return true // passed to a whitelisted callee (threaded when it mutates)
			}
			if op := f.isLedgerWrite(p); op != nil && op.op == "set" {
				// the ledger keeps the pointer: no change of the object may follow
				if f.mutatedAfter(o, p.End()) {
					f.problem(id, "`%s` is changed after it was handed to the ledger by `%s` (the ledger would see the change)", o.Name(), f.src(p))
				}
				return true
			}
			if fl := f.flOf(p); fl != nil {
				allOK := len(fl.alts) > 0
				for _, a := range fl.alts {
					if f.calleeOfSel(a) == nil {
						allOK = false
					}
				}
				if allOK {
					return true
				}
			}
		}
		if wbVar[o] != nil && escapeOK(o, stack[:len(stack)-1]) {
			f.hasEscape = true
			return true
		}
		f.problem(id, "`%s` is mutated in place and also used as a whole value (would be shared in Go)", o.Name())
		return true
	})
}

func (f *trFunc) src(e ast.Expr) string { return types.ExprString(e) }

// varType: Lean type of a variable (Option for possibly-nil pointers)
func (f *trFunc) varType(o types.Object) string {
	if f.lbytes[o] {
		return "LBytes"
	}
	if k, ok := f.keyOverride[o]; ok {
		ts, ok := f.tr.exp.Types[k]
		if !ok {
			f.problem(nil, "%s: no entry %s in funcs.json/types", o.Name(), k)
			return "Unsupported"
		}
		f.tr.usedTy[k] = true
		return ts.Lean
	}
	t, err := f.tr.leanType(o.Type())
	if err != nil {
		f.problem(nil, "%s: %v", o.Name(), err)
		return "Unsupported"
	}
	if f.opt[o] {
		return "(Option " + t + ")"
	}
	return t
}

func (f *trFunc) translate() {
	d := f.node.Decl
	sig := f.node.Obj.Type().(*types.Signature)
	if (sig.TypeParams() != nil || sig.RecvTypeParams() != nil) && !f.inLedger() {
		f.problem(nil, "generic function")
	}
	f.used[f.spec.Lean] = true
	f.analyse()
	// signature
	var ps []string
	for _, p := range f.params {
		if isSyncType(p.Type()) || f.tr.isOpaqueIface(p.Type()) {
			continue
		}
		n := f.nameOf(p)
		var t string
		if sig.Variadic() && p == sig.Params().At(sig.Params().Len()-1) {
			t = f.varTypeOf(p.Type())
		} else {
			t = f.varType(p)
		}
		ps = append(ps, fmt.Sprintf("(%s : %s)", n, t))
	}
	var rts []string
	for _, mp := range f.mutParams {
		rts = append(rts, f.varType(mp))
	}
	for i := 0; i < sig.Results().Len(); i++ {
		r := sig.Results().At(i)
		if r.Name() != "" && r.Name() != "_" {
			f.problem(nil, "named results")
		}
		t, err := f.tr.leanType(r.Type())
		if err != nil {
			f.problem(nil, "result %d: %v", i, err)
			t = "Unsupported"
		}
		if f.resOpt[i] {
			t = "(Option " + t + ")"
		}
		rts = append(rts, t)
		f.resTypes = append(f.resTypes, t)
	}
	switch len(rts) {
	case 0:
		f.retType = "Unit"
	case 1:
		f.retType = rts[0]
	default:
		f.retType = "(" + strings.Join(rts, " × ") + ")"
	}
	var lines []string
	for _, p := range f.params {
		if f.mutated[p] {
			lines = append(lines, fmt.Sprintf("  let mut %s := %s", f.nameOf(p), f.nameOf(p)))
		}
	}
	lines = append(lines, f.block(d.Body.List, "  ")...)
	if !terminates(d.Body.List) {
		lines = append(lines, "  "+f.returnLine(nil, nil))
	}
	for _, e := range f.extras {
		ps = append(ps, fmt.Sprintf("(%s : %s)", e.name, e.typ))
	}
	if f.spec.Oracles != nil {
		var ks []string
		for k := range f.spec.Oracles {
			ks = append(ks, k)
		}
		sort.Strings(ks)
		for _, k := range ks {
			if !f.oracleUsed[k] {
				f.problem(nil, "oracle call `%s` of funcs.json does not occur in the function", k)
			}
		}
	}
	for k := range f.spec.Persist {
		if !f.oracleUsed["persist:"+k] {
			f.problem(nil, "persist call `%s` of funcs.json does not occur as a statement of the function", k)
		}
	}
	if f.spec.OracleFuncs != nil {
		var ks []string
		for k := range f.spec.OracleFuncs {
			ks = append(ks, k)
		}
		sort.Strings(ks)
		for _, k := range ks {
			if !f.oracleUsed["fn:"+k] {
				f.problem(nil, "oracle function `%s` of funcs.json is not called in the function", k)
			}
		}
	}
	f.sigText = fmt.Sprintf("%s %s : G %s", f.spec.Lean, strings.Join(ps, " "), f.retType)
	var doc strings.Builder
	doc.WriteString(fmt.Sprintf("/-- `%s` of rigo-go", f.spec.key()))
	if len(f.mutParams) > 0 {
		var ns []string
		for _, mp := range f.mutParams {
			ns = append(ns, f.nameOf(mp))
		}
		doc.WriteString(fmt.Sprintf("; returns (updated %s, results)", strings.Join(ns, ", ")))
	}
	if f.arith > 0 {
		doc.WriteString(fmt.Sprintf("; %d signed + - * site(s) taken without int64 overflow", f.arith))
	}
	if f.neverNil > 0 {
		doc.WriteString(fmt.Sprintf("; %d nil test(s) of a pointer field taken as never nil", f.neverNil))
	}
	for _, e := range f.extras {
		doc.WriteString(fmt.Sprintf("; parameter %s = %s", e.name, e.origin))
	}
	doc.WriteString(" -/\n")
	if len(f.problems) > 0 {
		sort.Strings(f.problems)
		var qs []string
		for _, p := range f.problems {
			qs = append(qs, leanStr(p))
		}
		f.text = fmt.Sprintf("/-- `%s` of rigo-go: NOT TRANSLATED -/\ndef %s : Unsupported := unsupported [\n  %s]\n",
			f.spec.key(), f.spec.Lean, strings.Join(qs, ",\n  "))
		return
	}
	f.text = doc.String() + "def " + f.sigText + " := do\n" + strings.Join(lines, "\n") + "\n"
}

func (f *trFunc) varTypeOf(t types.Type) string {
	s, err := f.tr.leanType(t)
	if err != nil {
		f.problem(nil, "%v", err)
		return "Unsupported"
	}
	return s
}

// terminates: does the statement list end in a terminating statement (Go spec, simplified)?
func terminates(list []ast.Stmt) bool {
	if len(list) == 0 {
		return false
	}
	switch s := list[len(list)-1].(type) {
	case *ast.ReturnStmt:
		return true
	case *ast.ExprStmt:
		if c, ok := s.X.(*ast.CallExpr); ok {
			if id, ok := c.Fun.(*ast.Ident); ok && id.Name == "panic" {
				return true
			}
		}
	case *ast.BlockStmt:
		return terminates(s.List)
	case *ast.SwitchStmt:
		// every clause terminates and there is a default clause (no break: refused elsewhere)
		hasDefault := false
		for _, c := range s.Body.List {
			cc, ok := c.(*ast.CaseClause)
			if !ok || !terminates(cc.Body) {
				return false
			}
			if cc.List == nil {
				hasDefault = true
			}
		}
		return hasDefault
	case *ast.IfStmt:
		if s.Else == nil {
			return false
		}
		var el bool
		switch e := s.Else.(type) {
		case *ast.BlockStmt:
			el = terminates(e.List)
		case *ast.IfStmt:
			el = terminates([]ast.Stmt{e})
		}
		return terminates(s.Body.List) && el
	}
	return false
}

// returnLine: `return (mutated params..., results...)`
func (f *trFunc) returnLine(s *ast.ReturnStmt, results []string) string {
	var parts []string
	for _, mp := range f.mutParams {
		parts = append(parts, f.nameOf(mp))
	}
	parts = append(parts, results...)
	switch len(parts) {
	case 0:
		return "return ()"
	case 1:
		return "return " + parts[0]
	}
	return "return (" + strings.Join(parts, ", ") + ")"
}
