package main

// Fact group `ledger_views`: which overlay of a ledger every call site uses, and in which
// execution context.
//
// Every ledger of rigo-go (ledger.FinalityLedger) has two overlays on top of the committed tree:
// the consensus view (GetFinality/SetFinality/DelFinality/Cancel…Finality, IterateReadAllFinalityItems)
// used by block execution (ctx.Exec == true) and the mempool view (Get/Set/Del/CancelSet/CancelDel)
// used by CheckTx; queries read committed versions (ImmutableLedgerAt(h) + Read/IterateReadAllItems).
// A defect of the form "one call site uses the wrong view" is only visible to differential testing
// under a particular CheckTx/block interleaving; this inventory makes it break a fact group.
//
// A site is (function, receiver, method, view, context, variable):
//   receiver  rendered expression, the method receiver's own name printed as `self`
//   view      consensus | mempool | committed-read | historical | iteration-consensus |
//             iteration-committed | iteration-mempool | commit | other |
//             by-exec-arg | consensus(literal) | mempool(literal)     (callee takes an `exec bool`)
//   context   <reach>[/<branch>][ exec=<rendered argument>]
//     reach   which ABCI entry-point groups reach the enclosing function in the extractor's call graph:
//             init (NewRigoApp, Info, InitChain), block (BeginBlock, DeliverTx, EndBlock), check (CheckTx),
//             query (Query), commit (Commit): "block-only", "block+check", "query-only", "unreachable", …
//     branch  computed syntactically from the enclosing `if <exec>` statements (an <exec> expression is a
//             bool identifier `exec` or a selector `….Exec` / `….exec`; `!e`, `e == false`, `e && …` understood;
//             `if !e { return … }` makes the rest of the block exec-only):
//             exec-only | check-only                         call inside such a branch
//             check-default | exec-override                  method VALUE assigned to a variable outside the
//             exec-default  | check-override                 branch / inside it (`get := l.Get; if ctx.Exec { get = l.GetFinality }`)
//             unswitched                                     method value assigned to a variable that no exec branch overrides
//   variable  the switch variable of a method value (else empty)
//
// The group is ok iff the regenerated inventory equals expect/ledger_views.json as a multiset, and every
// site that deviates from the rule (ruleCheck) is listed under "reviewed_exceptions" with a justification.

import (
	"encoding/json"
	"fmt"
	"go/ast"
	"go/token"
	"go/types"
	"os"
	"path/filepath"
	"sort"
	"strconv"
	"strings"
)

// ---------------------------------------------------------------------------------------------
// structured walk with guard frames (shared with persist_sites)

type gframe struct {
	kind string   // "if" | "exit" | "loop" | "case"
	cond ast.Expr // if / exit
	neg  bool     // else-branch of an if; always true for exit
	text string   // loop / case: rendered description
}

type gwalker struct {
	r      *renderer
	frames []gframe
	f      func(n ast.Node, frames []gframe)
}

func blockExits(b *ast.BlockStmt) bool {
	if b == nil || len(b.List) == 0 {
		return false
	}
	switch s := b.List[len(b.List)-1].(type) {
	case *ast.ReturnStmt:
		return true
	case *ast.BranchStmt:
		return s.Tok == token.CONTINUE || s.Tok == token.BREAK || s.Tok == token.GOTO
	case *ast.ExprStmt:
		if c, ok := s.X.(*ast.CallExpr); ok {
			switch f := unparen(c.Fun).(type) {
			case *ast.Ident:
				return f.Name == "panic"
			case *ast.SelectorExpr:
				if x, ok := f.X.(*ast.Ident); ok && x.Name == "os" && f.Sel.Name == "Exit" {
					return true
				}
			}
		}
	}
	return false
}

func (w *gwalker) push(fr gframe) { w.frames = append(w.frames, fr) }
func (w *gwalker) pop()           { w.frames = w.frames[:len(w.frames)-1] }

func (w *gwalker) list(l []ast.Stmt) {
	saved := len(w.frames)
	for _, s := range l {
		w.node(s)
		if ifs, ok := s.(*ast.IfStmt); ok && ifs.Else == nil && blockExits(ifs.Body) {
			w.push(gframe{kind: "exit", cond: ifs.Cond, neg: true})
		}
	}
	w.frames = w.frames[:saved]
}

func isNilNode(n ast.Node) bool {
	if n == nil {
		return true
	}
	switch x := n.(type) {
	case ast.Expr:
		return x == nil
	case ast.Stmt:
		return x == nil
	}
	return false
}

func (w *gwalker) node(n ast.Node) {
	if isNilNode(n) {
		return
	}
	switch x := n.(type) {
	case *ast.BlockStmt:
		if x == nil {
			return
		}
		w.list(x.List)
		return
	case *ast.IfStmt:
		w.f(x, w.frames)
		if x.Init != nil {
			w.node(x.Init)
		}
		w.node(x.Cond)
		w.push(gframe{kind: "if", cond: x.Cond})
		w.list(x.Body.List)
		w.pop()
		if x.Else != nil {
			w.push(gframe{kind: "if", cond: x.Cond, neg: true})
			w.node(x.Else)
			w.pop()
		}
		return
	case *ast.SwitchStmt:
		w.f(x, w.frames)
		if x.Init != nil {
			w.node(x.Init)
		}
		tag := ""
		if x.Tag != nil {
			w.node(x.Tag)
			tag = w.r.expr(x.Tag)
		}
		for _, c := range x.Body.List {
			cc := c.(*ast.CaseClause)
			for _, e := range cc.List {
				w.node(e)
			}
			t := "default"
			if cc.List != nil {
				t = "case " + w.r.list(cc.List)
			}
			if tag != "" {
				t = "switch " + tag + ": " + t
			}
			w.push(gframe{kind: "case", text: t})
			w.list(cc.Body)
			w.pop()
		}
		return
	case *ast.TypeSwitchStmt:
		w.f(x, w.frames)
		if x.Init != nil {
			w.node(x.Init)
		}
		w.node(x.Assign)
		for _, c := range x.Body.List {
			cc := c.(*ast.CaseClause)
			t := "type default"
			if cc.List != nil {
				t = "type case " + w.r.list(cc.List)
			}
			w.push(gframe{kind: "case", text: t})
			w.list(cc.Body)
			w.pop()
		}
		return
	case *ast.SelectStmt:
		w.f(x, w.frames)
		for _, c := range x.Body.List {
			cc := c.(*ast.CommClause)
			if cc.Comm != nil {
				w.node(cc.Comm)
			}
			w.push(gframe{kind: "case", text: "select"})
			w.list(cc.Body)
			w.pop()
		}
		return
	case *ast.ForStmt:
		w.f(x, w.frames)
		if x.Init != nil {
			w.node(x.Init)
		}
		if x.Cond != nil {
			w.node(x.Cond)
		}
		if x.Post != nil {
			w.node(x.Post)
		}
		t := "for"
		if x.Cond != nil {
			t = "for " + w.r.expr(x.Cond)
		}
		w.push(gframe{kind: "loop", text: t})
		w.list(x.Body.List)
		w.pop()
		return
	case *ast.RangeStmt:
		w.f(x, w.frames)
		w.node(x.X)
		w.push(gframe{kind: "loop", text: "range " + w.r.expr(x.X)})
		w.list(x.Body.List)
		w.pop()
		return
	case *ast.FuncLit:
		w.f(x, w.frames)
		w.list(x.Body.List)
		return
	case *ast.LabeledStmt:
		w.node(x.Stmt)
		return
	}
	ast.Inspect(n, func(m ast.Node) bool {
		if m == nil {
			return false
		}
		if m != n {
			switch m.(type) {
			case *ast.BlockStmt, *ast.IfStmt, *ast.SwitchStmt, *ast.TypeSwitchStmt, *ast.SelectStmt,
				*ast.ForStmt, *ast.RangeStmt, *ast.FuncLit, *ast.LabeledStmt:
				w.node(m)
				return false
			}
		}
		w.f(m, w.frames)
		return true
	})
}

// ---------------------------------------------------------------------------------------------
// exec conditions

func isBool(t types.Type) bool {
	if t == nil {
		return false
	}
	b, ok := t.Underlying().(*types.Basic)
	return ok && b.Info()&types.IsBoolean != 0
}

func isExecExpr(info *types.Info, e ast.Expr) bool {
	e = unparen(e)
	if !isBool(info.TypeOf(e)) {
		return false
	}
	switch x := e.(type) {
	case *ast.Ident:
		return strings.EqualFold(x.Name, "exec")
	case *ast.SelectorExpr:
		return strings.EqualFold(x.Sel.Name, "exec")
	}
	return false
}

func boolLit(info *types.Info, e ast.Expr) (val, ok bool) {
	tv, has := info.Types[e]
	if !has || tv.Value == nil || !isBool(tv.Type) {
		return false, false
	}
	return tv.Value.String() == "true", true
}

// execPolarity: +1 the condition being true implies exec, -1 implies not exec, 0 unknown.
// pure: the condition is equivalent to exec (or its negation), so that its else-branch is the other case.
func execPolarity(info *types.Info, cond ast.Expr) (pol int, pure bool) {
	cond = unparen(cond)
	if isExecExpr(info, cond) {
		return 1, true
	}
	switch x := cond.(type) {
	case *ast.UnaryExpr:
		if x.Op == token.NOT {
			p, pu := execPolarity(info, x.X)
			if pu {
				return -p, true
			}
			return 0, false // !(exec && a) says nothing
		}
	case *ast.BinaryExpr:
		switch x.Op {
		case token.EQL, token.NEQ:
			for _, pr := range [][2]ast.Expr{{x.X, x.Y}, {x.Y, x.X}} {
				if v, ok := boolLit(info, pr[1]); ok {
					p, pu := execPolarity(info, pr[0])
					if !pu {
						return 0, false
					}
					if (x.Op == token.EQL) != v {
						p = -p
					}
					return p, true
				}
			}
		case token.LAND:
			for _, s := range []ast.Expr{x.X, x.Y} {
				if p, _ := execPolarity(info, s); p != 0 {
					return p, false
				}
			}
		}
	}
	return 0, false
}

// regionOf: "exec", "check" or "" from the innermost guard frame that decides it.
func regionOf(info *types.Info, frames []gframe) string {
	for i := len(frames) - 1; i >= 0; i-- {
		fr := frames[i]
		if fr.kind != "if" && fr.kind != "exit" {
			continue
		}
		pol, pure := execPolarity(info, fr.cond)
		if pol == 0 {
			continue
		}
		if fr.neg {
			if !pure {
				continue
			}
			pol = -pol
		}
		if pol > 0 {
			return "exec"
		}
		return "check"
	}
	return ""
}

// ---------------------------------------------------------------------------------------------
// classification of receivers / methods

// ledgerKind: "finality" (both overlays), "handle" (plain ILedger / SimpleLedger / MemLedger: outside
// package ledger these are the historical handles returned by ImmutableLedgerAt), "overlay" (memItems), "".
func (pr *Prog) ledgerKind(t types.Type) string {
	if t == nil {
		return ""
	}
	if p, ok := t.Underlying().(*types.Pointer); ok {
		t = p.Elem()
	} else if p, ok := t.(*types.Pointer); ok {
		t = p.Elem()
	}
	n, ok := t.(*types.Named)
	if !ok {
		return ""
	}
	obj := n.Origin().Obj()
	if obj.Pkg() == nil || !pr.inModule(obj.Pkg()) || pr.rel(obj.Pkg().Path()) != "ledger" {
		return ""
	}
	switch obj.Name() {
	case "FinalityLedger", "IFinalityLedger":
		return "finality"
	case "SimpleLedger", "ILedger", "MemLedger":
		return "handle"
	case "memItems":
		return "overlay"
	}
	return ""
}

var viewOfMethod = map[string]string{
	"GetFinality": "consensus", "SetFinality": "consensus", "DelFinality": "consensus",
	"CancelSetFinality": "consensus", "CancelDelFinality": "consensus", "getFinality": "consensus",
	"IterateReadAllFinalityItems": "iteration-consensus", "IterateFinalityGotItems": "iteration-consensus",
	"IterateFinalityUpdatedItems": "iteration-consensus",
	"Get":                         "mempool", "Set": "mempool", "Del": "mempool", "CancelSet": "mempool", "CancelDel": "mempool",
	"get": "mempool", "del": "mempool",
	"IterateGotItems": "iteration-mempool", "IterateUpdatedItems": "iteration-mempool",
	"Read": "committed-read", "read": "committed-read",
	"IterateReadAllItems": "iteration-committed",
	"ImmutableLedgerAt":   "historical",
	"Commit":              "commit",
}

// consensusOf: the consensus-view method of the same kind as a mempool-view method.
var consensusOf = map[string]string{"Get": "GetFinality", "Set": "SetFinality", "Del": "DelFinality",
	"CancelSet": "CancelSetFinality", "CancelDel": "CancelDelFinality", "get": "getFinality"}

func (pr *Prog) viewOf(kind, method, recv string, inLedgerPkg bool) string {
	if kind == "overlay" {
		switch {
		case strings.Contains(recv, "finalityItems"):
			return "consensus"
		case strings.Contains(recv, "cachedItems"):
			return "mempool"
		}
		return "other"
	}
	v, ok := viewOfMethod[method]
	if !ok {
		return "other"
	}
	if kind == "handle" && !inLedgerPkg && v == "mempool" {
		return "historical" // scratch overlay of a historical handle
	}
	return v
}

// execParamIndex: index of the `exec bool` parameter of the callee (looked up on the implementers for
// interface methods, whose parameters are usually unnamed), or -1.
func (pr *Prog) execParamIndex(callee *types.Func, cache map[*types.Func]int) int {
	if callee == nil || !pr.inModule(callee.Pkg()) {
		return -1
	}
	if v, ok := cache[callee]; ok {
		return v
	}
	find := func(sig *types.Signature) int {
		for i := 0; i < sig.Params().Len(); i++ {
			p := sig.Params().At(i)
			if strings.EqualFold(p.Name(), "exec") && isBool(p.Type()) {
				return i
			}
		}
		return -1
	}
	sig := callee.Type().(*types.Signature)
	idx := find(sig)
	if idx < 0 && sig.Recv() != nil && isInterfaceLike(sig.Recv().Type()) {
		for _, tn := range pr.implementersAll(ifaceMethodNames(sig.Recv().Type())) {
			obj, _, _ := types.LookupFieldOrMethod(types.NewPointer(tn.Type()), true, tn.Pkg(), callee.Name())
			if m, ok := obj.(*types.Func); ok {
				ms := m.Type().(*types.Signature)
				if ms.Params().Len() != sig.Params().Len() {
					continue
				}
				if i := find(ms); i >= 0 && isBool(sig.Params().At(i).Type()) {
					idx = i
					break
				}
			}
		}
	}
	cache[callee] = idx
	return idx
}

// implementersAll: like implementers, but independent of the liveness refinement.
func (pr *Prog) implementersAll(names []string) []*types.TypeName {
	if len(names) == 0 {
		return nil
	}
	var out []*types.TypeName
	for _, tn := range pr.named {
		if pr.hasMethods(tn, names) {
			out = append(out, tn)
		}
	}
	return out
}

// recvText renders a receiver expression; a LOCAL variable at its root is replaced by where it comes from
// (`atledger.Read` -> `self.delegateeLedger.ImmutableLedgerAt(…).Read`, a parameter -> `param:<type>`), so
// that renaming a local does not change the site and a historical handle names its ledger.
func (pr *Prog) recvText(fn *FuncNode, r *renderer, e ast.Expr) string {
	info := fn.Pkg.TypesInfo
	root := e
	for {
		switch x := unparen(root).(type) {
		case *ast.SelectorExpr:
			root = x.X
			continue
		case *ast.CallExpr:
			root = x.Fun
			continue
		case *ast.IndexExpr:
			root = x.X
			continue
		case *ast.StarExpr:
			root = x.X
			continue
		}
		break
	}
	id, ok := unparen(root).(*ast.Ident)
	full := r.expr(e)
	if !ok {
		return full
	}
	v, ok := info.Uses[id].(*types.Var)
	if !ok || v.IsField() || v.Pkg() == nil || v.Parent() == nil || v.Parent() == v.Pkg().Scope() || (r.self != nil && types.Object(v) == r.self) {
		return full
	}
	origin := pr.localOrigin(fn, r, v)
	rest := strings.TrimPrefix(full, id.Name)
	return origin + rest
}

func (pr *Prog) localOrigin(fn *FuncNode, r *renderer, v *types.Var) string {
	info := fn.Pkg.TypesInfo
	if fn.Obj != nil {
		sig := fn.Obj.Type().(*types.Signature)
		for i := 0; i < sig.Params().Len(); i++ {
			if sig.Params().At(i) == v {
				return "param:" + pr.typeStr(v.Type())
			}
		}
	}
	var defs []string
	for _, b := range fn.Body {
		ast.Inspect(b, func(n ast.Node) bool {
			as, ok := n.(*ast.AssignStmt)
			if !ok {
				return true
			}
			for i, l := range as.Lhs {
				id, ok := l.(*ast.Ident)
				if !ok {
					continue
				}
				o := info.Defs[id]
				if o == nil {
					o = info.Uses[id]
				}
				if o != types.Object(v) {
					continue
				}
				var rhs ast.Expr
				if len(as.Lhs) == len(as.Rhs) {
					rhs = as.Rhs[i]
				} else if len(as.Rhs) == 1 {
					rhs = as.Rhs[0]
				}
				if c, ok := unparen(rhs).(*ast.CallExpr); ok {
					d := pr.recvText(fn, r, c.Fun) + "(…)"
					dup := false
					for _, o := range defs {
						dup = dup || o == d
					}
					if !dup {
						defs = append(defs, d)
					}
				} else if id, ok := unparen(rhs).(*ast.Ident); ok && id.Name == "nil" {
					// `x = nil` (release) does not change where x comes from
				} else {
					defs = append(defs, "?")
				}
			}
			return true
		})
	}
	if len(defs) == 1 && defs[0] != "?" {
		return defs[0]
	}
	return "local:" + pr.typeStr(v.Type())
}

// ---------------------------------------------------------------------------------------------
// the inventory

type ViewSite struct {
	Func    string `json:"func"`   // "ctrlers/gov.(*GovCtrler).doPunish"
	Recv    string `json:"recv"`   // "self.proposalLedger"
	Method  string `json:"method"` // "GetFinality"
	View    string `json:"view"`
	Context string `json:"context"`
	Var     string `json:"var,omitempty"`
	Count   int    `json:"count"`
	Rule    string `json:"rule"`          // "ok" | "n/a: …" | "deviation: …"
	Pos     string `json:"pos,omitempty"` // informational only

	reach, branch, arg string
	use                string // "call" | "value" | "field"
	varObj             types.Object
	region             string
	fn                 *FuncNode
}

func (s *ViewSite) Key() string {
	return s.Func + " | " + s.Recv + " | " + s.Method + " | " + s.View + " | " + s.Context + " | " + s.Var
}

var reachGroups = []struct {
	name  string
	roots []string // RigoApp methods; "NewRigoApp" is the constructor
}{
	{"init", []string{"NewRigoApp", "Info", "InitChain"}},
	{"block", []string{"BeginBlock", "DeliverTx", "EndBlock"}},
	{"check", []string{"CheckTx"}},
	{"query", []string{"Query"}},
	{"commit", []string{"Commit"}},
}

func (pr *Prog) reachClasses() (map[*FuncNode]string, []string) {
	sets := map[*FuncNode][]string{}
	var missing []string
	for _, g := range reachGroups {
		var roots []*FuncNode
		for _, n := range g.roots {
			var f *FuncNode
			if n == "NewRigoApp" {
				f = pr.Func("node", n)
			} else {
				f = pr.Func("node", "(*RigoApp)."+n)
			}
			if f == nil {
				missing = append(missing, "node:"+n)
				continue
			}
			roots = append(roots, f)
		}
		if len(roots) == 0 {
			continue
		}
		for f := range pr.reachableFrom(roots) {
			sets[f] = append(sets[f], g.name)
		}
	}
	out := map[*FuncNode]string{}
	for _, f := range pr.Funcs {
		gs := sets[f]
		switch {
		case len(gs) == 0:
			out[f] = "unreachable"
		case len(gs) == 1:
			out[f] = gs[0] + "-only"
		default:
			out[f] = strings.Join(gs, "+")
		}
	}
	return out, missing
}

// reachableFrom: like reachable, but WITHOUT the package initialisers as additional roots (the reach
// class of a function must say which entry points lead to it).
func (pr *Prog) reachableFrom(roots []*FuncNode) map[*FuncNode]bool {
	seen := map[*FuncNode]bool{}
	queue := append([]*FuncNode{}, roots...)
	for _, r := range roots {
		seen[r] = true
	}
	for len(queue) > 0 {
		n := queue[0]
		queue = queue[1:]
		for e := range n.edges {
			if !seen[e] {
				seen[e] = true
				queue = append(queue, e)
			}
		}
	}
	return seen
}

func inViewScope(fn *FuncNode, pr *Prog) bool {
	if fn.Gen {
		return false
	}
	switch {
	case fn.Rel == "node", strings.HasPrefix(fn.Rel, "ctrlers/"):
		return true
	case fn.Rel == "ledger":
		pos := token.NoPos
		if fn.Decl != nil {
			pos = fn.Decl.Pos()
		} else if len(fn.Body) > 0 {
			pos = fn.Body[0].Pos()
		}
		return pos != token.NoPos && filepath.Base(pr.Fset.Position(pos).Filename) == "finality_ledger.go"
	}
	return false
}

func (pr *Prog) posStr(fn *FuncNode, pos token.Pos) string {
	p := pr.Fset.Position(pos)
	file := p.Filename
	if i := strings.Index(file, "/"+fn.Rel+"/"); i >= 0 {
		file = file[i+1:]
	}
	return file + ":" + strconv.Itoa(p.Line)
}

func (pr *Prog) scanViews() ([]*ViewSite, []string) {
	reach, missing := pr.reachClasses()
	execIdx := map[*types.Func]int{}
	var raw []*ViewSite
	for _, fn := range pr.Funcs {
		if !inViewScope(fn, pr) {
			continue
		}
		info := fn.Pkg.TypesInfo
		r := pr.renderer(fn)
		inLedger := fn.Rel == "ledger"
		called := map[*ast.SelectorExpr]bool{}
		assigned := map[*ast.SelectorExpr]*ast.Ident{}
		add := func(s *ViewSite, pos token.Pos, frames []gframe) {
			s.Func = fn.Rel + "." + fn.Name
			s.fn = fn
			s.reach = reach[fn]
			s.region = regionOf(info, frames)
			s.Count = 1
			s.Pos = pr.posStr(fn, pos)
			raw = append(raw, s)
		}
		noteAssign := func(lhs []ast.Expr, rhs []ast.Expr) {
			if len(lhs) != len(rhs) {
				return
			}
			for i := range rhs {
				if sel, ok := unparen(rhs[i]).(*ast.SelectorExpr); ok {
					if id, ok := lhs[i].(*ast.Ident); ok && id.Name != "_" {
						assigned[sel] = id
					}
				}
			}
		}
		w := &gwalker{r: r}
		w.f = func(n ast.Node, frames []gframe) {
			switch x := n.(type) {
			case *ast.AssignStmt:
				noteAssign(x.Lhs, x.Rhs)
				if len(x.Lhs) == len(x.Rhs) {
					for i, l := range x.Lhs {
						if sel, ok := unparen(l).(*ast.SelectorExpr); ok && isExecExpr(info, sel) {
							add(execStore(info, r, pr.recvText(fn, r, sel.X), sel.Sel.Name, x.Rhs[i]), x.Pos(), frames)
						}
					}
				}
			case *ast.KeyValueExpr:
				if id, ok := x.Key.(*ast.Ident); ok && strings.EqualFold(id.Name, "exec") && isBool(info.TypeOf(x.Value)) {
					if _, isField := info.Uses[id].(*types.Var); isField {
						add(execStore(info, r, "{…}", id.Name, x.Value), x.Pos(), frames)
					}
				}
			case *ast.ValueSpec:
				var lhs []ast.Expr
				for _, id := range x.Names {
					lhs = append(lhs, id)
				}
				noteAssign(lhs, x.Values)
			case *ast.CallExpr:
				fun := unparen(x.Fun)
				if sel, ok := fun.(*ast.SelectorExpr); ok {
					called[sel] = true
				}
				callee := calleeOf(info, x)
				if callee == nil {
					return
				}
				// (1) method of a ledger value
				if sel, ok := fun.(*ast.SelectorExpr); ok {
					if s := info.Selections[sel]; s != nil && s.Kind() == types.MethodVal {
						if k := pr.ledgerKind(s.Recv()); k != "" {
							recv := pr.recvText(fn, r, sel.X)
							add(&ViewSite{Recv: recv, Method: sel.Sel.Name, View: pr.viewOf(k, sel.Sel.Name, recv, inLedger), use: "call"}, x.Pos(), frames)
							return
						}
					}
				}
				// (2) callee takes an `exec bool`
				if idx := pr.execParamIndex(callee, execIdx); idx >= 0 && idx < len(x.Args) {
					recv := ""
					switch f := fun.(type) {
					case *ast.SelectorExpr:
						recv = pr.recvText(fn, r, f.X)
					}
					arg := x.Args[idx]
					view := "by-exec-arg"
					if v, ok := boolLit(info, arg); ok {
						if v {
							view = "consensus(literal)"
						} else {
							view = "mempool(literal)"
						}
					}
					add(&ViewSite{Recv: recv, Method: callee.Name(), View: view, arg: r.expr(arg), use: "call"}, x.Pos(), frames)
				}
			case *ast.SelectorExpr:
				s := info.Selections[x]
				if s == nil {
					return
				}
				switch s.Kind() {
				case types.MethodVal:
					if called[x] {
						return
					}
					k := pr.ledgerKind(s.Recv())
					fnObj, _ := s.Obj().(*types.Func)
					isExec := k == "" && pr.execParamIndex(fnObj, execIdx) >= 0
					if k == "" && !isExec {
						return
					}
					recv := pr.recvText(fn, r, x.X)
					vs := &ViewSite{Recv: recv, Method: x.Sel.Name, use: "value"}
					if k != "" {
						vs.View = pr.viewOf(k, x.Sel.Name, recv, inLedger)
					} else {
						vs.View = "by-exec-arg"
						vs.arg = "(method value)"
					}
					if id := assigned[x]; id != nil {
						vs.Var = id.Name
						vs.varObj = info.Defs[id]
						if vs.varObj == nil {
							vs.varObj = info.Uses[id]
						}
					}
					add(vs, x.Pos(), frames)
				case types.FieldVal:
					// direct access to the maps of an overlay (ledger/finality_ledger.go only)
					if inLedger && pr.ledgerKind(s.Recv()) == "overlay" {
						recv := r.expr(x.X)
						add(&ViewSite{Recv: recv, Method: "." + x.Sel.Name, View: pr.viewOf("overlay", "", recv, true), use: "field"}, x.Pos(), frames)
					}
				}
			}
		}
		for _, b := range fn.Body {
			w.frames = nil
			w.node(b)
		}
	}
	// branch classes of method values held in switch variables
	regionsOfVar := map[types.Object]map[string]bool{}
	for _, s := range raw {
		if s.varObj != nil {
			if regionsOfVar[s.varObj] == nil {
				regionsOfVar[s.varObj] = map[string]bool{}
			}
			regionsOfVar[s.varObj][s.region] = true
		}
	}
	for _, s := range raw {
		switch {
		case s.varObj != nil && s.region == "exec":
			s.branch = "exec-override"
		case s.varObj != nil && s.region == "check":
			s.branch = "check-override"
		case s.varObj != nil:
			switch rs := regionsOfVar[s.varObj]; {
			case rs["exec"]:
				s.branch = "check-default"
			case rs["check"]:
				s.branch = "exec-default"
			default:
				s.branch = "unswitched"
			}
		case s.region == "exec":
			s.branch = "exec-only"
		case s.region == "check":
			s.branch = "check-only"
		}
		s.Context = s.reach
		if s.fn.Rel == "ledger" {
			// inside the ledger the call graph says nothing (generic dispatch): the context is the view the
			// enclosing method itself belongs to
			s.Context = "api:" + ownView(s.fn)
		}
		if s.branch != "" {
			s.Context += "/" + s.branch
		}
		if s.arg != "" {
			s.Context += " exec=" + s.arg
		}
	}
	// rule
	byFunc := map[string][]*ViewSite{}
	for _, s := range raw {
		byFunc[s.Func] = append(byFunc[s.Func], s)
	}
	for _, s := range raw {
		s.Rule = ruleCheck(s, byFunc[s.Func])
	}
	// merge equal sites
	merged := map[string]*ViewSite{}
	var keys []string
	for _, s := range raw {
		k := s.Key()
		if o, ok := merged[k]; ok {
			o.Count++
			continue
		}
		merged[k] = s
		keys = append(keys, k)
	}
	sort.Strings(keys)
	out := make([]*ViewSite, 0, len(keys))
	for _, k := range keys {
		out = append(out, merged[k])
	}
	return out, missing
}

// execStore: `x.exec = <value>` / `T{Exec: <value>}`: where the exec mode of a context object comes from.
func execStore(info *types.Info, r *renderer, recv, field string, val ast.Expr) *ViewSite {
	view := "by-exec-arg"
	if v, ok := boolLit(info, val); ok {
		if v {
			view = "consensus(literal)"
		} else {
			view = "mempool(literal)"
		}
	}
	return &ViewSite{Recv: recv, Method: field + "=", View: view, arg: r.expr(val), use: "store"}
}

// ---------------------------------------------------------------------------------------------
// the rule the reviewed inventory is held against

func hasGroup(reach, g string) bool {
	for _, x := range strings.Split(strings.TrimSuffix(reach, "-only"), "+") {
		if x == g {
			return true
		}
	}
	return false
}

func consensusSide(reach string) bool { // only init / block / commit
	if reach == "unreachable" {
		return false
	}
	return !hasGroup(reach, "check") && !hasGroup(reach, "query")
}

func isLiteralView(v string) bool { return strings.HasSuffix(v, "(literal)") }

// ruleCheck: "ok", "n/a: …" or "deviation: …".
//
//	block-only / exec-only / exec-override   consensus methods (or exec passed through / literal true)
//	check-default                            mempool method with an exec override to the consensus method of the same kind
//	check-only                               mempool methods (or exec passed through / literal false)
//	query-only                               committed reads of a (historical) version; literals allowed
//	shared (block+check…), no exec branch    only exec passed through (never a literal, never a fixed view)
//	ledger/finality_ledger.go                a method of one view touches that view (reads of the committed tree allowed)
func ruleCheck(s *ViewSite, siblings []*ViewSite) string {
	if s.fn != nil && s.fn.Rel == "ledger" {
		return ruleLedgerPkg(s)
	}
	if s.View == "commit" {
		if s.reach == "commit-only" {
			return "ok"
		}
		return "deviation: ledger Commit outside the Commit path (" + s.reach + ")"
	}
	if s.View == "other" {
		return "ok"
	}
	execArgOK := func(wantLiteral string) string {
		switch s.View {
		case "by-exec-arg":
			return "ok"
		case wantLiteral:
			return "ok"
		}
		return "deviation: literal " + s.arg + " passed as exec in " + s.Context
	}
	isExecCallee := s.View == "by-exec-arg" || isLiteralView(s.View)
	switch s.branch {
	case "exec-only", "exec-override", "exec-default":
		if isExecCallee {
			return execArgOK("consensus(literal)")
		}
		if s.branch == "exec-override" {
			def := ""
			for _, o := range siblings {
				if o.varObj == s.varObj && o.branch == "check-default" {
					def = o.Method
					if consensusOf[o.Method] == s.Method {
						if s.View == "consensus" {
							return "ok"
						}
					}
				}
			}
			if def == "" {
				return "deviation: exec override of " + s.Var + " without a check default"
			}
			return "deviation: exec override " + s.Method + " (" + s.View + ") does not pair with the default " + def
		}
		if s.View == "consensus" || s.View == "iteration-consensus" {
			return "ok"
		}
		return "deviation: " + s.View + " in an exec-only branch"
	case "check-default":
		if s.View != "mempool" {
			return "deviation: default (CheckTx) value of " + s.Var + " is " + s.Method + " (" + s.View + "), expected a mempool method"
		}
		for _, o := range siblings {
			if o.varObj == s.varObj && o.branch == "exec-override" && o.Method == consensusOf[s.Method] && o.Recv == s.Recv {
				return "ok"
			}
		}
		return "deviation: no exec override of " + s.Var + " to " + consensusOf[s.Method]
	case "check-only", "check-override":
		if isExecCallee {
			return execArgOK("mempool(literal)")
		}
		if s.View == "mempool" || s.View == "iteration-mempool" {
			return "ok"
		}
		return "deviation: " + s.View + " in a check-only branch"
	case "unswitched":
		if consensusSide(s.reach) && (s.View == "consensus" || s.View == "iteration-consensus") {
			return "ok"
		}
		return "deviation: method value " + s.Method + " held in " + s.Var + " is never switched on exec (" + s.reach + ")"
	}
	// no exec branch: decided by the reachability of the enclosing function
	switch {
	case s.reach == "unreachable":
		return "n/a: not reachable from an ABCI entry point"
	case s.reach == "query-only":
		if isExecCallee {
			// fine on a historical wrapper (`self.ImmutableStateAt(…).Prepare(…, false)`); on a live controller the
			// wrapper reads an overlay, not a committed version
			if strings.Contains(s.Recv, "Immutable") {
				return "ok"
			}
			return "deviation: " + s.Method + "(…, " + s.arg + ") on a live controller in a query reads an overlay, not a committed version"
		}
		switch s.View {
		case "committed-read", "iteration-committed":
			return "ok"
		case "historical":
			if s.Method == "ImmutableLedgerAt" {
				return "ok"
			}
		}
		return "deviation: " + s.View + " (" + s.Method + ") in a query"
	case s.reach == "check-only":
		if isExecCallee {
			return execArgOK("mempool(literal)")
		}
		if s.View == "mempool" {
			return "ok"
		}
		return "deviation: " + s.View + " in a CheckTx-only function"
	case consensusSide(s.reach):
		if isExecCallee {
			return execArgOK("consensus(literal)")
		}
		if s.View == "consensus" || s.View == "iteration-consensus" {
			return "ok"
		}
		return "deviation: " + s.View + " (" + s.Method + ") in a " + s.reach + " function"
	}
	// shared between block execution and CheckTx and/or Query
	if s.View == "by-exec-arg" {
		return "ok"
	}
	if isLiteralView(s.View) {
		return "deviation: literal " + s.arg + " passed as exec in a function reachable from " + s.reach
	}
	return "deviation: " + s.View + " (" + s.Method + ") regardless of exec in a function reachable from " + s.reach
}

func ownView(fn *FuncNode) string {
	name := fn.Name
	if i := strings.LastIndex(name, "."); i >= 0 {
		name = name[i+1:]
	}
	if v, ok := viewOfMethod[name]; ok {
		return v
	}
	return "none"
}

func ruleLedgerPkg(s *ViewSite) string {
	name := s.fn.Name
	if i := strings.LastIndex(name, "."); i >= 0 {
		name = name[i+1:]
	}
	own := ownView(s.fn)
	if own == "none" {
		return "ok" // constructor etc.
	}
	if s.use == "field" || s.View == "consensus" || s.View == "mempool" {
		// the overlay behind an iteration method is the overlay of its view
		own = strings.TrimPrefix(own, "iteration-")
	}
	switch {
	case own == "commit", own == "historical":
		return "ok"
	case s.View == own:
		return "ok"
	case s.View == "committed-read" && (own == "consensus" || own == "mempool"):
		return "ok" // a miss of the overlay falls through to the committed tree
	case s.View == "other":
		return "ok"
	}
	return "deviation: " + name + " (" + own + ") touches the " + s.View + " layer (" + strings.TrimPrefix(s.Recv, "self.") + s.methodSep() + s.Method + ")"
}

func (s *ViewSite) methodSep() string {
	if strings.HasPrefix(s.Method, ".") {
		return ""
	}
	return "."
}

// ---------------------------------------------------------------------------------------------
// expectation

type expView struct {
	Func    string `json:"func"`
	Recv    string `json:"recv"`
	Method  string `json:"method"`
	View    string `json:"view"`
	Context string `json:"context"`
	Var     string `json:"var,omitempty"`
	Count   int    `json:"count"`
	Rule    string `json:"rule,omitempty"` // informational copy of the rule verdict at review time
}

func (s expView) Key() string {
	return s.Func + " | " + s.Recv + " | " + s.Method + " | " + s.View + " | " + s.Context + " | " + s.Var
}

type expViewException struct {
	Func          string `json:"func"`
	Recv          string `json:"recv"`
	Method        string `json:"method"`
	Context       string `json:"context"`
	Var           string `json:"var,omitempty"`
	Deviation     string `json:"deviation"`
	Justification string `json:"justification"`
}

func (e expViewException) Key() string {
	return e.Func + " | " + e.Recv + " | " + e.Method + " | " + e.Context + " | " + e.Var
}

type expViews struct {
	About      string             `json:"_about"`
	Rule       []string           `json:"rule"`
	Sites      []expView          `json:"sites"`
	Exceptions []expViewException `json:"reviewed_exceptions"`
}

var viewsRuleText = []string{
	"block-only (init / block / commit) functions, exec-only branches and exec overrides use consensus methods (…Finality, IterateReadAllFinalityItems); exec arguments there are passed through or literal true",
	"a check-default method value is a mempool method (Get/Set/Del/CancelSet/CancelDel) and has an exec override to the consensus method of the same kind on the same ledger",
	"check-only branches / CheckTx-only functions use mempool methods; exec arguments are passed through or literal false",
	"query-only functions read committed versions: ImmutableLedgerAt(h) + Read / IterateReadAllItems (or Read on the ledger); exec wrappers only on a historical (Immutable…At) object, where literals are allowed",
	"functions shared by block execution and CheckTx/Query touch a ledger only under an exec branch or by passing exec through (ctx.Exec / exec / self.exec): never a literal, never a fixed view",
	"ledger/finality_ledger.go: a method belonging to one view only touches that view's overlay (falling through to the committed tree is allowed)",
	"every deviation must be listed under reviewed_exceptions with a justification",
}

func shortFunc(f string) string { return f }

func viewPhrase(view string) string {
	switch view {
	case "consensus", "mempool":
		return view + " view"
	}
	return view
}

func describe(recv, method, view string) string {
	sep := "."
	if strings.HasPrefix(method, ".") || recv == "" {
		sep = ""
	}
	return strings.TrimPrefix(recv, "self.") + sep + method + " (" + viewPhrase(view) + ")"
}

func ctxPhrase(context, v string) string {
	s := "in " + context + " context"
	if v != "" {
		s += " (variable " + v + ")"
	}
	return s
}

// checkViews compares the inventory with expect/ledger_views.json.
func checkViews(dir string, sites []*ViewSite, hard []string, update bool) Check {
	path := filepath.Join(dir, "ledger_views.json")
	problems := append([]string{}, hard...)
	var old expViews
	bz, err := os.ReadFile(path)
	if err == nil {
		err = json.Unmarshal(bz, &old)
	}
	if update {
		out := expViews{About: "C06/C19/C01: which overlay of a ledger (consensus / mempool / committed / historical) every call site in ctrlers/..., node/... and ledger/finality_ledger.go uses, and in which execution context (see extract/views.go). Matched as a multiset of (func, recv, method, view, context, var).",
			Rule: viewsRuleText}
		oldEx := map[string]expViewException{}
		if err == nil {
			if old.About != "" {
				out.About = old.About
			}
			for _, e := range old.Exceptions {
				oldEx[e.Key()] = e
			}
		}
		for _, s := range sites {
			out.Sites = append(out.Sites, expView{Func: s.Func, Recv: s.Recv, Method: s.Method, View: s.View, Context: s.Context, Var: s.Var, Count: s.Count, Rule: s.Rule})
			if strings.HasPrefix(s.Rule, "deviation") {
				e := expViewException{Func: s.Func, Recv: s.Recv, Method: s.Method, Context: s.Context, Var: s.Var, Deviation: strings.TrimPrefix(s.Rule, "deviation: "), Justification: "UNREVIEWED"}
				if o, ok := oldEx[e.Key()]; ok {
					e.Justification = o.Justification
				}
				out.Exceptions = append(out.Exceptions, e)
			}
		}
		if out.Sites == nil {
			out.Sites = []expView{}
		}
		if out.Exceptions == nil {
			out.Exceptions = []expViewException{}
		}
		if werr := writeJSON(path, out); werr != nil {
			problems = append(problems, "cannot write "+path+": "+werr.Error())
		}
		old = out
	} else if err != nil {
		problems = append(problems, "no expectation: "+err.Error()+" (run rigoextract -update-expect and review)")
		return Check{OK: false, Problems: problems}
	}

	exp := map[string]expView{}
	for _, e := range old.Sites {
		if _, dup := exp[e.Key()]; dup {
			problems = append(problems, "expectation lists the site twice: "+e.Key())
		}
		exp[e.Key()] = e
	}
	act := map[string]*ViewSite{}
	for _, s := range sites {
		act[s.Key()] = s
	}
	// per function: surplus actual entries and missing expected entries (with multiplicities)
	type ent struct {
		recv, method, view, context, v, rule string
		n                                    int
		pos                                  string
	}
	added := map[string][]ent{}
	gone := map[string][]ent{}
	funcs := map[string]bool{}
	for k, s := range act {
		n := s.Count
		if e, ok := exp[k]; ok {
			n -= e.Count
		}
		if n > 0 {
			added[s.Func] = append(added[s.Func], ent{s.Recv, s.Method, s.View, s.Context, s.Var, s.Rule, n, s.Pos})
			funcs[s.Func] = true
		}
	}
	for k, e := range exp {
		n := e.Count
		if s, ok := act[k]; ok {
			n -= s.Count
		}
		if n > 0 {
			gone[e.Func] = append(gone[e.Func], ent{e.Recv, e.Method, e.View, e.Context, e.Var, e.Rule, n, ""})
			funcs[e.Func] = true
		}
	}
	var fl []string
	for f := range funcs {
		fl = append(fl, f)
	}
	sort.Strings(fl)
	times := func(n int) string {
		if n > 1 {
			return fmt.Sprintf(" x%d", n)
		}
		return ""
	}
	for _, f := range fl {
		a, g := added[f], gone[f]
		less := func(l []ent) func(i, j int) bool {
			return func(i, j int) bool {
				return l[i].recv+l[i].method+l[i].context+l[i].v < l[j].recv+l[j].method+l[j].context+l[j].v
			}
		}
		sort.Slice(a, less(a))
		sort.Slice(g, less(g))
		usedG := make([]bool, len(g))
		pair := func(match func(x, y ent) bool, msg func(x, y ent) string) {
			for i := range a {
				if a[i].n == 0 {
					continue
				}
				for j := range g {
					if usedG[j] || g[j].n == 0 || !match(a[i], g[j]) {
						continue
					}
					problems = append(problems, f+": "+msg(a[i], g[j]))
					m := a[i].n
					if g[j].n < m {
						m = g[j].n
					}
					a[i].n -= m
					g[j].n -= m
					if g[j].n == 0 {
						usedG[j] = true
					}
					if a[i].n == 0 {
						break
					}
				}
			}
		}
		why := func(x ent) string {
			if strings.HasPrefix(x.rule, "deviation") {
				return " [" + x.rule + "]"
			}
			return ""
		}
		// same place, other method (Get <-> GetFinality, read -> get, …)
		pair(func(x, y ent) bool { return x.recv == y.recv && x.context == y.context && x.v == y.v && x.method != y.method },
			func(x, y ent) string {
				return describe(x.recv, x.method, x.view) + " " + ctxPhrase(x.context, x.v) + "; expected " + describe(y.recv, y.method, y.view) + why(x) + " (" + x.pos + ")"
			})
		// same ledger method, other ledger
		pair(func(x, y ent) bool { return x.method == y.method && x.context == y.context && x.v == y.v && x.recv != y.recv },
			func(x, y ent) string {
				return describe(x.recv, x.method, x.view) + " " + ctxPhrase(x.context, x.v) + "; expected it on " + strings.TrimPrefix(y.recv, "self.") + why(x) + " (" + x.pos + ")"
			})
		// same call, other context (moved into / out of the exec branch, other exec argument, other reachability)
		pair(func(x, y ent) bool { return x.recv == y.recv && x.method == y.method },
			func(x, y ent) string {
				return describe(x.recv, x.method, x.view) + " now " + ctxPhrase(x.context, x.v) + "; expected " + ctxPhrase(y.context, y.v) + why(x) + " (" + x.pos + ")"
			})
		// exactly one surplus and one missing access left in the function: the one replaced the other
		{
			ra, rg := -1, -1
			na, ng := 0, 0
			for i := range a {
				if a[i].n > 0 {
					ra, na = i, na+1
				}
			}
			for j := range g {
				if g[j].n > 0 {
					rg, ng = j, ng+1
				}
			}
			if na == 1 && ng == 1 && a[ra].n == g[rg].n {
				x, y := a[ra], g[rg]
				problems = append(problems, f+": "+describe(x.recv, x.method, x.view)+" "+ctxPhrase(x.context, x.v)+"; expected "+describe(y.recv, y.method, y.view)+" "+ctxPhrase(y.context, y.v)+why(x)+" ("+x.pos+")")
				a[ra].n, g[rg].n = 0, 0
			}
		}
		for _, x := range a {
			if x.n > 0 {
				problems = append(problems, f+": NEW ledger access "+describe(x.recv, x.method, x.view)+" "+ctxPhrase(x.context, x.v)+times(x.n)+why(x)+" ("+x.pos+")")
			}
		}
		for _, y := range g {
			if y.n > 0 {
				problems = append(problems, f+": expected ledger access vanished: "+describe(y.recv, y.method, y.view)+" "+ctxPhrase(y.context, y.v)+times(y.n))
			}
		}
	}
	// deviations must be reviewed
	ex := map[string]expViewException{}
	for _, e := range old.Exceptions {
		ex[e.Key()] = e
	}
	seenEx := map[string]bool{}
	for _, s := range sites {
		if !strings.HasPrefix(s.Rule, "deviation") {
			continue
		}
		k := expViewException{Func: s.Func, Recv: s.Recv, Method: s.Method, Context: s.Context, Var: s.Var}.Key()
		seenEx[k] = true
		e, ok := ex[k]
		if _, listed := exp[s.Key()]; !listed {
			continue // already reported as a new / changed site
		}
		j := strings.TrimSpace(e.Justification)
		if !ok {
			problems = append(problems, s.Func+": "+describe(s.Recv, s.Method, s.View)+" "+ctxPhrase(s.Context, s.Var)+" deviates from the rule ("+strings.TrimPrefix(s.Rule, "deviation: ")+") and is not a reviewed exception")
		} else if j == "" || strings.HasPrefix(j, "UNREVIEWED") {
			problems = append(problems, s.Func+": exception not reviewed yet: "+describe(s.Recv, s.Method, s.View)+" "+ctxPhrase(s.Context, s.Var))
		}
	}
	var stale []string
	for k := range ex {
		if !seenEx[k] {
			stale = append(stale, k)
		}
	}
	sort.Strings(stale)
	for _, k := range stale {
		problems = append(problems, "reviewed exception no longer corresponds to a deviating site: "+k)
	}
	// rule violations first
	sort.SliceStable(problems, func(i, j int) bool {
		return strings.Contains(problems[i], "[deviation") && !strings.Contains(problems[j], "[deviation")
	})
	if len(problems) > 60 {
		n := len(problems) - 60
		problems = append(problems[:60], fmt.Sprintf("… and %d more", n))
	}
	return Check{OK: len(problems) == 0, Problems: problems}
}

func viewsSummary(sites []*ViewSite) (string, M) {
	byView, byBranch, byReach := map[string]int{}, map[string]int{}, map[string]int{}
	total, dev := 0, 0
	funcs := map[string]bool{}
	for _, s := range sites {
		total += s.Count
		byView[s.View] += s.Count
		b := s.branch
		if b == "" {
			b = "unconditional"
		}
		byBranch[b] += s.Count
		byReach[s.reach] += s.Count
		funcs[s.Func] = true
		if strings.HasPrefix(s.Rule, "deviation") {
			dev += s.Count
		}
	}
	join := func(m map[string]int) string {
		var ks []string
		for k := range m {
			ks = append(ks, k)
		}
		sort.Strings(ks)
		var ps []string
		for _, k := range ks {
			ps = append(ps, fmt.Sprintf("%d %s", m[k], k))
		}
		return strings.Join(ps, ", ")
	}
	sum := fmt.Sprintf("%d ledger accesses in %d functions; views [%s]; branches [%s]; reach [%s]; %d reviewed deviations",
		total, len(funcs), join(byView), join(byBranch), join(byReach), dev)
	return sum, M{"total": total, "functions": len(funcs), "by_view": byView, "by_branch": byBranch, "by_reach": byReach, "deviations": dev}
}
