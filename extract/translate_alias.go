package main

// Pointers to slice / map elements that are written through ("alias variables"), the field
// footprint of a function (which fields of a struct parameter it touches / writes), the "finder"
// shape of a function (returns an index and the element pointer at that index), and the explicit
// extra parameters of generated functions (abstract sorts, oracles for calls the translator
// cannot follow).
//
// An alias variable `p` is a local pointer-to-struct variable bound ONCE (with :=) to an element
// of `X.F`, X a struct variable / parameter, F a slice of pointers or a map[string]*T:
//
//	p := X.F[i]          p := X.F[k]          p, ok := X.F[k]          i, p := X.finder(..)
//
// whose fields are assigned afterwards (directly or by a whitelisted callee).  Value semantics is
// restored by capturing the index / key at the binding and writing the updated copy back into
// X.F after every write through p (gset / mapSet).  This is sound when
//   - X.F is not rebuilt (assigned, sorted, passed to a callee that writes F) before a later write
//     through p (for maps: `delete(X.F, k)` / `X.F[k] = v` detach p when the key is p's key: a
//     run-time flag `__live_p` guards the write-back; rebinding p to a fresh object clears it too);
//   - no other variable bound to an element of X.F is read after the first write through p
//     (it could be the same element);
//   - a callee that receives both p (to write it) and X does not touch X.F.
// Everything else is refused.

import (
	"fmt"
	"go/ast"
	"go/token"
	"go/types"
	"sort"
	"strings"
)

type extraParam struct {
	name, typ, origin string
}

type aliasInfo struct {
	obj      types.Object
	root     types.Object
	rootExpr ast.Expr // X.F
	field    string   // Go name of F
	isMap    bool
	bind     ast.Stmt
	capture  string // Lean name of the captured index / key
	flag     string // "" = always attached
	finder   bool
}

type finderInfo struct {
	param int    // index in params of the struct whose field is searched
	field string // Go field name
}

func (f *trFunc) addExtra(e extraParam) {
	for _, x := range f.extras {
		if x.name == e.name {
			if x.typ != e.typ {
				f.problem(nil, "two different extra parameters named %s", e.name)
			}
			return
		}
	}
	f.extras = append(f.extras, e)
	f.used[e.name] = true
}

// elemBase: e = X.F with X a local variable / parameter and F a field -> (X, F)
func (f *trFunc) elemBase(e ast.Expr) (types.Object, *ast.SelectorExpr) {
	sel, ok := ast.Unparen(e).(*ast.SelectorExpr)
	if !ok {
		return nil, nil
	}
	o := f.objOf(sel.X)
	v, isVar := o.(*types.Var)
	if !isVar || v.IsField() || v.Pkg() == nil || v.Parent() == v.Pkg().Scope() {
		return nil, nil
	}
	if !f.synth[sel] {
		if s := f.info.Selections[sel]; s == nil || s.Kind() != types.FieldVal {
			return nil, nil
		}
	}
	return o, sel
}

// ptrContainer: a slice of pointers to structs or a map[string]*Struct
func ptrContainer(t types.Type) (isMap bool, ok bool) {
	if t == nil {
		return false, false
	}
	switch u := t.Underlying().(type) {
	case *types.Slice:
		return false, isStructPtr(u.Elem())
	case *types.Map:
		return true, isStructPtr(u.Elem())
	}
	return false, false
}

type loopSpan struct{ pos, end token.Pos }

func (f *trFunc) loopSpans() []loopSpan {
	var out []loopSpan
	ast.Inspect(f.node.Decl.Body, func(n ast.Node) bool {
		switch n.(type) {
		case *ast.ForStmt, *ast.RangeStmt:
			out = append(out, loopSpan{n.Pos(), n.End()})
		}
		return true
	})
	return out
}

func after(loops []loopSpan, a, b token.Pos) bool { // may b be executed after a?
	if b > a {
		return true
	}
	for _, l := range loops {
		if l.pos <= a && a < l.end && l.pos <= b && b < l.end {
			return true
		}
	}
	return false
}

// findAliases runs inside analyse (after the mutated set is known, before the parameters are split)
func (f *trFunc) findAliases() {
	body := f.node.Decl.Body
	type binding struct {
		obj      types.Object
		root     types.Object
		rootExpr ast.Expr
		field    string
		isMap    bool
		stmt     *ast.AssignStmt
		finder   bool
	}
	var binds []binding
	ast.Inspect(body, func(n ast.Node) bool {
		s, ok := n.(*ast.AssignStmt)
		if !ok || (s.Tok != token.DEFINE && s.Tok != token.ASSIGN) || len(s.Rhs) != 1 {
			return true
		}
		rhs := ast.Unparen(s.Rhs[0])
		switch {
		case len(s.Lhs) <= 2:
			if ix, ok := rhs.(*ast.IndexExpr); ok {
				isMap, okc := ptrContainer(f.typeOf(ix.X))
				if !okc || (len(s.Lhs) == 2 && !isMap) {
					return true
				}
				p := f.objOf(s.Lhs[0])
				if p == nil {
					return true
				}
				root, sel := f.elemBase(ix.X)
				if root == nil {
					if f.mutated[p] {
						f.problem(s, "`%s` is written through but bound to an element of `%s` (only of a field of a variable)", p.Name(), f.src(ix.X))
					}
					return true
				}
				binds = append(binds, binding{p, root, sel, sel.Sel.Name, isMap, s, false})
				return true
			}
			if c, ok := rhs.(*ast.CallExpr); ok && len(s.Lhs) == 2 {
				g, _ := f.callee(c)
				if g == nil || g.finder == nil {
					return true
				}
				p := f.objOf(s.Lhs[1])
				if p == nil {
					return true
				}
				args := f.callArgs(c)
				if g.finder.param >= len(args) {
					return true
				}
				root := f.objOf(args[g.finder.param])
				id := identOf(args[g.finder.param])
				if root == nil || id == nil {
					if f.mutated[p] {
						f.problem(s, "`%s` is written through but points into `%s`", p.Name(), f.src(args[g.finder.param]))
					}
					return true
				}
				sel := &ast.SelectorExpr{X: id, Sel: ast.NewIdent(g.finder.field)}
				f.synth[sel] = true
				binds = append(binds, binding{p, root, sel, g.finder.field, false, s, true})
			}
		}
		return true
	})
	if len(binds) == 0 {
		return
	}
	loops := f.loopSpans()
	// mutation events of a variable: positions
	mutPos := func(p types.Object) []token.Pos {
		var out []token.Pos
		ast.Inspect(body, func(n ast.Node) bool {
			switch s := n.(type) {
			case *ast.AssignStmt:
				for _, l := range s.Lhs {
					if sel, ok := ast.Unparen(l).(*ast.SelectorExpr); ok && f.objOf(sel.X) == p {
						out = append(out, s.Pos())
					}
				}
			case *ast.IncDecStmt:
				if sel, ok := ast.Unparen(s.X).(*ast.SelectorExpr); ok && f.objOf(sel.X) == p {
					out = append(out, s.Pos())
				}
			case *ast.CallExpr:
				if g, _ := f.callee(s); g != nil {
					args := f.callArgs(s)
					for _, mp := range g.mutParams {
						for i, q := range g.params {
							if q == mp && i < len(args) && f.objOf(args[i]) == p {
								out = append(out, s.Pos())
							}
						}
					}
				}
			}
			return true
		})
		return out
	}
	byField := map[string][]binding{}
	for _, b := range binds {
		k := fmt.Sprintf("%p.%s", b.root, b.field)
		byField[k] = append(byField[k], b)
	}
	var keys []string
	for k := range byField {
		keys = append(keys, k)
	}
	sort.Strings(keys)
	for _, k := range keys {
		bs := byField[k]
		var mutating []binding
		for _, b := range bs {
			if f.mutated[b.obj] {
				mutating = append(mutating, b)
			}
		}
		if len(mutating) == 0 {
			continue // read-only copies of elements: plain values
		}
		b := mutating[0]
		for _, o := range mutating[1:] {
			if o.obj != b.obj {
				f.problem(o.stmt, "`%s` and `%s` are both written through and may point to the same element of `%s`", b.obj.Name(), o.obj.Name(), f.src(b.rootExpr))
			} else {
				f.problem(o.stmt, "`%s` is bound to an element of `%s` more than once", b.obj.Name(), f.src(b.rootExpr))
			}
		}
		if b.stmt.Tok != token.DEFINE {
			f.problem(b.stmt, "`%s` is written through but bound to an element by `=` (only by `:=`)", b.obj.Name())
		}
		a := &aliasInfo{obj: b.obj, root: b.root, rootExpr: b.rootExpr, field: b.field, isMap: b.isMap, bind: b.stmt, finder: b.finder}
		muts := mutPos(b.obj)
		first := token.Pos(0)
		for _, m := range muts {
			if first == 0 || m < first {
				first = m
			}
		}
		// other variables bound to elements of the same container must not be read after the first write
		others := map[types.Object]bool{}
		for _, o := range bs {
			if o.obj != b.obj {
				others[o.obj] = true
			}
		}
		ast.Inspect(body, func(n ast.Node) bool {
			if r, ok := n.(*ast.RangeStmt); ok && r.Value != nil {
				if root, sel := f.elemBase(r.X); root == b.root && sel != nil && sel.Sel.Name == b.field {
					if o := f.objOf(r.Value); o != nil {
						others[o] = true
					}
				}
			}
			return true
		})
		ast.Inspect(body, func(n ast.Node) bool {
			if id, ok := n.(*ast.Ident); ok {
				if o := f.info.Uses[id]; o != nil && others[o] && first != 0 && after(loops, first, id.Pos()) {
					f.problem(id, "`%s` (an element of `%s`) is read after a write through `%s`, which may be the same element", o.Name(), f.src(b.rootExpr), b.obj.Name())
				}
			}
			return true
		})
		// rebinding of the alias variable, kills of the container
		needFlag := false
		detachUsed := false
		var kills []token.Pos
		ast.Inspect(body, func(n ast.Node) bool {
			switch s := n.(type) {
			case *ast.AssignStmt:
				for i, l := range s.Lhs {
					if s != b.stmt && f.objOf(l) == b.obj {
						if len(s.Lhs) == len(s.Rhs) && (isFreshExpr(s.Rhs[i]) || f.isNil(s.Rhs[i])) {
							needFlag = true
						} else {
							f.problem(s, "`%s` (a pointer into `%s` that is written through) is re-bound to `%s`", b.obj.Name(), f.src(b.rootExpr), f.src(s.Rhs[0]))
						}
					}
					if root, sel := f.elemBase(l); root == b.root && sel != nil && sel.Sel.Name == b.field {
						kills = append(kills, s.Pos())
					}
					if ix, ok := ast.Unparen(l).(*ast.IndexExpr); ok {
						if root, sel := f.elemBase(ix.X); root == b.root && sel != nil && sel.Sel.Name == b.field {
							if b.isMap {
								needFlag = true
							} else {
								kills = append(kills, s.Pos())
							}
						}
					}
				}
			case *ast.CallExpr:
				if id, ok := ast.Unparen(s.Fun).(*ast.Ident); ok && id.Name == "delete" && len(s.Args) == 2 {
					if _, isB := f.info.Uses[id].(*types.Builtin); isB {
						if root, sel := f.elemBase(s.Args[0]); root == b.root && sel != nil && sel.Sel.Name == b.field {
							needFlag = true
						}
					}
				}
				if x := f.sortedExpr(s); x != nil {
					if root, sel := f.elemBase(x); root == b.root && sel != nil && sel.Sel.Name == b.field {
						kills = append(kills, s.Pos())
					}
				}
				if g, _ := f.callee(s); g != nil && s != ast.Unparen(b.stmt.Rhs[0]) {
					args := f.callArgs(s)
					for i, a := range args {
						if i < len(g.params) && f.objOf(a) == b.root && g.writesField(g.params[i], b.field) {
							if f.spec != nil && f.spec.Detach[b.obj.Name()] == f.src(s) {
								needFlag = true // reviewed: the element leaves the container here; no write-back afterwards
								detachUsed = true
								continue
							}
							kills = append(kills, s.Pos())
						}
					}
				}
			}
			return true
		})
		for _, kpos := range kills {
			for _, m := range muts {
				if after(loops, kpos, m) {
					f.problem(nil, "`%s` is written through after `%s` was rebuilt (the captured index would be stale)", b.obj.Name(), f.src(b.rootExpr))
				}
			}
		}
		a.capture = f.tmp("__at")
		if needFlag {
			a.flag = "__live_" + b.obj.Name()
			f.used[a.flag] = true
		}
		if detachUsed {
			f.detached[b.obj] = true
		}
		f.alias[b.obj] = a
		f.aliasBind[b.stmt] = a
		f.mutated[b.root] = true
	}
}

// sortedExpr: c = sort.Sort(T(x)) -> x
func (f *trFunc) sortedExpr(c *ast.CallExpr) ast.Expr {
	sel, ok := ast.Unparen(c.Fun).(*ast.SelectorExpr)
	if !ok || sel.Sel.Name != "Sort" || len(c.Args) != 1 {
		return nil
	}
	id := identOf(sel.X)
	if id == nil {
		return nil
	}
	pn, ok := f.info.Uses[id].(*types.PkgName)
	if !ok || pn.Imported().Path() != "sort" {
		return nil
	}
	conv, ok := ast.Unparen(c.Args[0]).(*ast.CallExpr)
	if !ok || len(conv.Args) != 1 {
		return nil
	}
	if tv, ok := f.info.Types[conv.Fun]; !ok || !tv.IsType() {
		return nil
	}
	return conv.Args[0]
}

// aliasWriteBack: the statements that store the current value of the alias variable into its
// container (emitted after every write through it)
func (f *trFunc) aliasWriteBack(o types.Object, at ast.Node) []string {
	a := f.alias[o]
	if a == nil {
		return nil
	}
	val := f.nameOf(o)
	if f.opt[o] {
		val = "(← gderef " + val + ")"
	}
	cont := f.expr(a.rootExpr)
	var v string
	if a.isMap {
		v = fmt.Sprintf("(mapSet %s %s %s)", paren(cont), a.capture, val)
	} else {
		v = fmt.Sprintf("(← gset %s %s %s)", paren(cont), a.capture, val)
	}
	lines := f.assignTo(a.rootExpr, v, false, at, "")
	if a.flag == "" {
		return lines
	}
	out := []string{"if " + a.flag + " then"}
	for _, l := range lines {
		out = append(out, "  "+l)
	}
	return out
}

// aliasKill: statements clearing the attachment flag of aliases into the map `m` after
// `delete(m, k)` / `m[k] = v`
func (f *trFunc) aliasKill(m ast.Expr, key string) []string {
	root, sel := f.elemBase(m)
	if root == nil {
		return nil
	}
	var out []string
	for _, a := range f.sortedAliases() {
		if a.root == root && a.field == sel.Sel.Name && a.flag != "" {
			out = append(out, fmt.Sprintf("if (%s = %s) then", key, a.capture), "  "+a.flag+" := false")
		}
	}
	return out
}

func (f *trFunc) sortedAliases() []*aliasInfo {
	var as []*aliasInfo
	for _, a := range f.alias {
		as = append(as, a)
	}
	sort.Slice(as, func(i, j int) bool { return as[i].capture < as[j].capture })
	return as
}

// --- field footprint -----------------------------------------------------------------------

func (f *trFunc) touchSet(m map[types.Object]map[string]bool, p types.Object) map[string]bool {
	if m[p] == nil {
		m[p] = map[string]bool{}
	}
	return m[p]
}

func (f *trFunc) touchesField(p types.Object, field string) bool {
	return f.touch[p]["*"] || f.touch[p][field]
}

func (f *trFunc) writesField(p types.Object, field string) bool {
	return f.writes[p]["*"] || f.writes[p][field]
}

// firstField: the parameter and first-level field an lvalue-like expression goes through
func (f *trFunc) firstField(e ast.Expr) (types.Object, string) {
	var last *ast.SelectorExpr
	for {
		e = ast.Unparen(e)
		switch x := e.(type) {
		case *ast.SelectorExpr:
			last = x
			e = x.X
		case *ast.IndexExpr:
			e = x.X
		case *ast.SliceExpr:
			e = x.X
		case *ast.StarExpr:
			e = x.X
		case *ast.Ident:
			if last == nil || ast.Unparen(last.X) != ast.Expr(x) {
				return nil, ""
			}
			return f.objOf(x), f.firstName(last)
		default:
			return nil, ""
		}
	}
}

// firstName: Go name of the first-level field a selector on a variable goes through (the embedded
// field for a promoted one)
func (f *trFunc) firstName(sel *ast.SelectorExpr) string {
	if s := f.info.Selections[sel]; s != nil && len(s.Index()) > 1 {
		if n := structOf(f.typeOf(sel.X)); n != nil {
			return n.Underlying().(*types.Struct).Field(s.Index()[0]).Name()
		}
	}
	return sel.Sel.Name
}

func (f *trFunc) computeFootprint() {
	body := f.node.Decl.Body
	isParam := map[types.Object]bool{}
	for _, p := range f.params {
		if structOf(p.Type()) != nil {
			isParam[p] = true
		}
	}
	var stack []ast.Node
	ast.Inspect(body, func(n ast.Node) bool {
		if n == nil {
			stack = stack[:len(stack)-1]
			return true
		}
		stack = append(stack, n)
		id, ok := n.(*ast.Ident)
		if !ok {
			return true
		}
		p := f.info.Uses[id]
		if p == nil || !isParam[p] || len(stack) < 2 {
			return true
		}
		t := f.touchSet(f.touch, p)
		w := f.touchSet(f.writes, p)
		switch par := stack[len(stack)-2].(type) {
		case *ast.SelectorExpr:
			if par.X != id {
				return true
			}
			if s := f.info.Selections[par]; s != nil && s.Kind() == types.FieldVal {
				t[f.firstName(par)] = true
				// promoted field of an embedded struct: also a touch of the embedded field's name
				return true
			}
			// method call on the parameter
			if len(stack) >= 3 {
				if c, ok := stack[len(stack)-3].(*ast.CallExpr); ok && c.Fun == ast.Expr(par) {
					if isSyncType(f.typeOf(par.X)) {
						return true
					}
					if g, _ := f.callee(c); g != nil && len(g.params) > 0 {
						emb := ""
						if s := f.info.Selections[par]; s != nil && len(s.Index()) > 1 {
							emb = f.firstName(par) // method of an embedded struct: everything under that field
						}
						if emb != "" {
							t[emb] = true
							if len(g.writes[g.params[0]]) > 0 {
								w[emb] = true
							}
							return true
						}
						for k := range g.touch[g.params[0]] {
							t[k] = true
						}
						for k := range g.writes[g.params[0]] {
							w[k] = true
						}
						return true
					}
				}
			}
			t["*"] = true
			w["*"] = true
		case *ast.CallExpr:
			if g, _ := f.callee(par); g != nil {
				args := f.callArgs(par)
				for i, a := range args {
					if a == ast.Expr(id) && i < len(g.params) {
						for k := range g.touch[g.params[i]] {
							t[k] = true
						}
						for k := range g.writes[g.params[i]] {
							w[k] = true
						}
					}
				}
				return true
			}
			t["*"] = true
			w["*"] = true
		case *ast.BinaryExpr:
			if f.isNil(par.X) || f.isNil(par.Y) {
				return true
			}
			t["*"] = true
		default:
			t["*"] = true
			w["*"] = true
		}
		return true
	})
	// writes: assignments through the parameter
	note := func(e ast.Expr) {
		if p, fld := f.firstField(e); p != nil && isParam[p] {
			f.touchSet(f.writes, p)[fld] = true
		}
	}
	ast.Inspect(body, func(n ast.Node) bool {
		switch s := n.(type) {
		case *ast.AssignStmt:
			for _, l := range s.Lhs {
				note(l)
			}
		case *ast.IncDecStmt:
			note(s.X)
		case *ast.CallExpr:
			if sel, ok := ast.Unparen(s.Fun).(*ast.SelectorExpr); ok && isUint256(f.typeOf(sel.X)) && uint256Setter[sel.Sel.Name] {
				note(sel.X)
			}
			if id, ok := ast.Unparen(s.Fun).(*ast.Ident); ok && id.Name == "delete" && len(s.Args) == 2 {
				note(s.Args[0])
			}
			if x := f.sortedExpr(s); x != nil {
				note(x)
			}
		}
		return true
	})
	for _, a := range f.alias {
		if isParam[a.root] {
			f.touchSet(f.writes, a.root)[a.field] = true
		}
	}
	for r := range f.writeBack {
		note(r.X)
	}
}

// detectFinder: every two-result return is `return i, x` directly inside `for i, x := range P.F`
// (P a parameter) or `return <int>, nil`
func (f *trFunc) detectFinder() {
	sig := f.node.Obj.Type().(*types.Signature)
	if sig.Results().Len() != 2 || !isStructPtr(sig.Results().At(1).Type()) || intKindOf(sig.Results().At(0).Type()) != sInt {
		return
	}
	var fi *finderInfo
	okAll, some := true, false
	var walk func(n ast.Node, cur *ast.RangeStmt)
	walk = func(n ast.Node, cur *ast.RangeStmt) {
		ast.Inspect(n, func(m ast.Node) bool {
			switch s := m.(type) {
			case *ast.FuncLit:
				okAll = false
				return false
			case *ast.RangeStmt:
				if m != n {
					walk(s.Body, s)
					return false
				}
			case *ast.ForStmt:
				if m != n {
					walk(s.Body, nil)
					return false
				}
			case *ast.ReturnStmt:
				if len(s.Results) == 1 {
					// return P.finder(..) with P a parameter: the same finder
					if c, ok := ast.Unparen(s.Results[0]).(*ast.CallExpr); ok {
						if g, _ := f.callee(c); g != nil && g.finder != nil && len(g.mutParams) == 0 {
							args := f.callArgs(c)
							if g.finder.param < len(args) {
								root := f.objOf(args[g.finder.param])
								pi := -1
								for i, p := range f.params {
									if p == root {
										pi = i
									}
								}
								if pi >= 0 && (fi == nil || (fi.param == pi && fi.field == g.finder.field)) {
									fi = &finderInfo{param: pi, field: g.finder.field}
									some = true
									return true
								}
							}
						}
					}
				}
				if len(s.Results) != 2 {
					okAll = false
					return true
				}
				if f.isNil(s.Results[1]) {
					return true
				}
				if cur == nil || cur.Key == nil || cur.Value == nil || cur.Tok != token.DEFINE {
					okAll = false
					return true
				}
				if f.objOf(s.Results[0]) == nil || f.objOf(s.Results[0]) != f.objOf(cur.Key) ||
					f.objOf(s.Results[1]) == nil || f.objOf(s.Results[1]) != f.objOf(cur.Value) {
					okAll = false
					return true
				}
				root, sel := f.elemBase(cur.X)
				pi := -1
				for i, p := range f.params {
					if p == root {
						pi = i
					}
				}
				if pi < 0 || sel == nil {
					okAll = false
					return true
				}
				if s := f.info.Selections[sel]; s == nil || len(s.Index()) != 1 {
					okAll = false
					return true
				}
				if fi != nil && (fi.param != pi || fi.field != sel.Sel.Name) {
					okAll = false
					return true
				}
				fi = &finderInfo{param: pi, field: sel.Sel.Name}
				some = true
			}
			return true
		})
	}
	walk(f.node.Decl.Body, nil)
	if okAll && some && fi != nil && !f.writesField(f.params[fi.param], fi.field) {
		f.finder = fi
	}
}

// oracleFor: the explicit parameter standing for the call c (funcs.json "oracles"), or ""
func (f *trFunc) oracleFor(c *ast.CallExpr) string {
	if f.spec == nil || f.spec.Oracles == nil {
		return ""
	}
	name, ok := f.spec.Oracles[f.src(c)]
	if !ok {
		return ""
	}
	f.oracleUsed[f.src(c)] = true
	// type: the result type(s) of the call
	var ts []string
	addT := func(t types.Type) {
		lt, err := f.tr.leanType(t)
		if err != nil {
			f.problem(c, "oracle `%s`: %v", f.src(c), err)
			lt = "Unsupported"
		}
		if isStructPtr(t) {
			lt = "(Option " + lt + ")"
		}
		ts = append(ts, lt)
	}
	switch t := f.typeOf(c).(type) {
	case *types.Tuple:
		for i := 0; i < t.Len(); i++ {
			addT(t.At(i).Type())
		}
	default:
		if t == nil {
			f.problem(c, "oracle `%s` has no type", f.src(c))
			return name
		}
		addT(t)
	}
	typ := strings.Join(ts, " × ")
	if len(ts) > 1 {
		typ = "(" + typ + ")"
	}
	f.addExtra(extraParam{name: name, typ: typ, origin: "result of `" + f.src(c) + "`"})
	return name
}

// checkAliasArgs: a callee that writes through the alias variable p of X.F and also receives X must
// not touch X.F; a callee that receives X and writes X.F while p is in use would leave p stale
func (f *trFunc) checkAliasArgs(c *ast.CallExpr, g *trFunc, args []ast.Expr) {
	for i, a := range args {
		o := f.objOf(a)
		if o == nil || i >= len(g.params) {
			continue
		}
		al := f.alias[o]
		if al == nil {
			continue
		}
		for j, b := range args {
			if j == i || j >= len(g.params) || f.objOf(b) != al.root {
				continue
			}
			if g.touchesField(g.params[j], al.field) && (g.mutated[g.params[i]] || g.writesField(g.params[j], al.field)) {
				f.problem(c, "`%s` receives both `%s` and the pointer `%s` into `%s.%s`, and touches that field", g.spec.Lean, f.src(b), o.Name(), f.src(b), al.field)
			}
		}
	}
}
