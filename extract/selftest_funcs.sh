#!/bin/bash
# Self-test of the Go -> Lean function translation (docs/TRANSLATOR.md §5).
#
#   extract/selftest_funcs.sh [clean-source-dir]
#
# (i)   regenerates Rigo/Generated/Funcs.lean from a clean copy of rigo-go and compiles the equality
#       proofs RigoProofs/GenFuncs*.lean against it (must pass);
# (ii)  applies small semantic mutations of whitelisted functions in scratch copies and shows that the
#       regenerated definitions break the proofs (or the `funcs` check of the extractor);
# (iii) applies harmless rewrites and reports whether the proofs survive.
#
# Nothing under /verif/lean or /repo is written: the generated file and all .olean files of the
# test go to a scratch directory; the other model modules are read from /verif/lean/.lake (they
# must have been built: `cd /verif/lean && flock /verif/.build/lake.lock lake build Rigo.App Rigo.Signer`).
set -u
export GOFLAGS=-mod=mod GOPROXY=off GOSUMDB=off GOTOOLCHAIN=local
VERIF=${VERIF:-/verif}
HERE=$(cd "$(dirname "$0")" && pwd)
EXPECT=${EXPECT:-$VERIF/expect}
W=${W:-$VERIF/.work/translator/selftest}
MAIN=$VERIF/lean/.lake/build/lib/lean
PROOFS=${PROOFS:-"GenFuncsBase GenFuncsSimple GenFuncsLoops GenFuncsLimiter GenFuncsSigner GenFuncsSlash GenFuncsValUpd GenFuncs"}
rm -rf "$W"; mkdir -p "$W"
OWN_WT=""
if [ $# -ge 1 ]; then SRC=$1; else
  SRC=$W/src; git -C /repo worktree add --detach "$SRC" HEAD >/dev/null 2>&1 || { echo "cannot create a worktree of /repo"; exit 2; }
  OWN_WT=1
fi
cleanup() { [ -n "$OWN_WT" ] && git -C /repo worktree remove --force "$SRC" >/dev/null 2>&1; rm -rf "$W"/m_* "$W"/h_*; }
trap cleanup EXIT

mkdir -p "$VERIF/.build"
( flock 9; cp "$SRC/go.sum" "$HERE/go.sum" 2>/dev/null; cd "$HERE" && go build -o "$W/rigoextract" . ) 9>"$VERIF/.build/go.lock" \
  || { echo "extractor does not build"; exit 2; }
for m in Rigo/Types Rigo/StakeLogic Rigo/App Rigo/Signer; do
  [ -f "$MAIN/$m.olean" ] || { echo "missing $MAIN/$m.olean: build the model first"; exit 2; }
done

# check <dir-with-source> <label>: regenerate + compile; prints "<extract verdict>|<proof verdict>"
check() {
  local src=$1 d=$W/$2
  mkdir -p "$d/Rigo/Generated" "$d/RigoProofs" "$d/out/RigoProofs"
  cp -rs "$MAIN/Rigo" "$d/out/Rigo"; rm -f "$d"/out/Rigo/Generated/Funcs.*
  "$W/rigoextract" -repo "$src" -expect "$EXPECT" -json "$d/facts.json" -funcs "$d/Rigo/Generated/Funcs.lean" >"$d/extract.log" 2>&1 \
    || { echo "extractor failed|-"; return; }
  local fv
  fv=$(python3 -c "import json,sys; c=json.load(open('$d/facts.json'))['checks']['funcs']; print('ok' if c['ok'] else 'FAIL: '+'; '.join(c['problems'])[:160])")
  cp "$VERIF"/lean/RigoProofs/GenFuncs*.lean "$d/RigoProofs/"
  ( cd "$d" && LEAN_PATH=$MAIN lean -o out/Rigo/Generated/Funcs.olean Rigo/Generated/Funcs.lean >funcs.log 2>&1 ) \
    || { echo "$fv|generated file does not compile"; return; }
  for p in $PROOFS; do
    [ -f "$d/RigoProofs/$p.lean" ] || continue
    if ! ( cd "$d" && LEAN_PATH=$d/out:$MAIN lean -o out/RigoProofs/$p.olean RigoProofs/$p.lean >"$p.log" 2>&1 ); then
      local first
      first=$(grep -m1 "error" "$d/$p.log" | sed 's/: error.*//')
      # name of the theorem around the first error
      local line thm
      line=$(echo "$first" | cut -d: -f2)
      thm=$(head -n "${line:-1}" "$d/RigoProofs/$p.lean" | grep -E "^(theorem|example|def|abbrev) " | tail -1 | awk '{print $2}')
      echo "$fv|FAILS in $p.lean (${thm:-?})"
      return
    fi
  done
  echo "$fv|passes"
}

# mutate <label> <file> <nth> <old> <new>
mutate() {
  local label=$1 file=$2 nth=$3 old=$4 new=$5
  local d=$W/$label.src
  mkdir -p "$d"; (cd "$SRC" && tar cf - --exclude=.git .) | (cd "$d" && tar xf -)
  python3 - "$d/$file" "$nth" "$old" "$new" <<'EOF' || { echo "MUTATION DID NOT APPLY"; return 1; }
import sys
p, nth, old, new = sys.argv[1], int(sys.argv[2]), sys.argv[3], sys.argv[4]
s = open(p).read()
parts = s.split(old)
if len(parts) - 1 < nth:
    sys.exit(1)
s = old.join(parts[:nth]) + new + old.join(parts[nth:])
open(p, "w").write(s)
EOF
  echo "$d"
}

printf "%-4s %-58s %-26s %s\n" "id" "change" "funcs check" "proofs"
echo "---- (i) clean source"
r=$(check "$SRC" base)
printf "%-4s %-58s %-26s %s\n" "B" "none (clean HEAD)" "${r%%|*}" "${r##*|}"
BASE_OK=0; [ "${r##*|}" = "passes" ] && [ "${r%%|*}" = "ok" ] && BASE_OK=1

run() { # id label file nth old new description
  local d
  d=$(mutate "$2" "$3" "$4" "$5" "$6") || { printf "%-4s %-58s %s\n" "$1" "$7" "MUTATION DID NOT APPLY"; return; }
  local r
  r=$(check "$d" "$2")
  printf "%-4s %-58s %-26s %s\n" "$1" "$7" "$(echo "${r%%|*}" | cut -c1-26)" "${r##*|}"
  rm -rf "$d"
  echo "$1|${r%%|*}|${r##*|}" >>"$W/results.txt"
}

echo "---- (ii) semantic mutations (every one must break the check)"
run M1 m_1 ctrlers/types/gov_params.go 1 'if vp < 0 {' 'if vp <= 0 {' "AmountToPower: vp < 0 -> vp <= 0"
run M2 m_2 ctrlers/stake/ctrler.go 1 'if ret < 0 {' 'if ret <= 0 {' "validatorUpdates merge-diff: ret < 0 -> ret <= 0"
run M3 m_3 ctrlers/stake/delegatee.go 1 '(s0.Power * ratio) / int64(100)' '(s0.Power*ratio + 99) / int64(100)' "doSlashAll: slashed power rounded up"
run M4 m_4 ctrlers/stake/block_marker.go 1 'bm.BlockHeights[preIdx+1:]' 'bm.BlockHeights[preIdx:]' "CountInWindow: dropped +1 when pruning the window"
run M5 m_5 ctrlers/stake/block_marker.go 1 'bm.BlockHeights[lastIdx] >= height' 'bm.BlockHeights[lastIdx] > height' "Mark: >= -> > (same height marked twice)"
run M6 m_6 ctrlers/types/account.go 1 'amt.Cmp(acct.Balance) > 0' 'amt.Cmp(acct.Balance) >= 0' "SubBalance: cannot spend the whole balance"
run M7 m_7 ctrlers/stake/reward.go 1 '_ = rwd.cumulated.Sub(rwd.cumulated, r)' '_ = rwd.cumulated.Add(rwd.cumulated, r)' "Reward.Withdraw: cumulated grows on withdrawal"
run M8 m_8 ctrlers/stake/delegatee.go 1 'return vs[i].TotalPower > vs[j].TotalPower' 'return vs[i].TotalPower < vs[j].TotalPower' "PowerOrderDelegatees.Less: ascending by power"
run M9 m_9 types/crypto/sfile_pv.go 1 'if lss.Round > round {' 'if lss.Round >= round {' "CheckHRS: same round is a regression"
run M10 m_10 ctrlers/stake/limiter.go 1 'if individualRatio > sl.individualLimitRatio {' 'if individualRatio >= sl.individualLimitRatio {' "limiter: individual ratio > -> >="
run M11 m_11 ctrlers/stake/limiter.go 1 'if int64(i) < maxValCnt {' 'if int64(i) <= maxValCnt {' "limiter reset: base power counts one more validator"
run M12 m_12 ctrlers/stake/delegatee.go 1 'delegatee.TotalPower -= s.Power
		return s' 'delegatee.TotalPower -= s.Power + 1
		return s' "DelStake: total power off by one"
run M13 m_13 ctrlers/stake/block_marker.go 1 'lastIdx := len(bm.BlockHeights) - 1' 'go func() {}()
	lastIdx := len(bm.BlockHeights) - 1' "Mark: unsupported construct (go statement)"

echo "---- (iii) harmless rewrites (either outcome is acceptable)"
run H1 h_1 ctrlers/types/gov_params.go 1 '_vp := new(uint256.Int).Div(amt, amountPerPower)
	vp := int64(_vp.Uint64())' 'quot := new(uint256.Int).Div(amt, amountPerPower)
	vp := int64(quot.Uint64())' "AmountToPower: local _vp renamed"
run H2 h_2 ctrlers/stake/limiter.go 1 'sl.powerObjs = pobjs
	sl.baseTotalPower = _base' 'sl.baseTotalPower = _base
	sl.powerObjs = pobjs' "limiter reset: two independent assignments swapped"
run H3 h_3 ctrlers/stake/block_marker.go 1 'count++' 'count += 1' "CountInWindow: count++ -> count += 1"
run H4 h_4 ctrlers/stake/delegatee.go 1 'for _, s := range delegatee.Stakes {
		if addr == nil || bytes.Compare(addr, s.From) == 0 {
			power += s.Power' 'for _, st := range delegatee.Stakes {
		if addr == nil || bytes.Compare(addr, st.From) == 0 {
			power += st.Power' "sumPowerOf: loop variable renamed"

echo
bad=0
[ $BASE_OK = 1 ] || { echo "SELFTEST FAILED: the clean source does not pass"; bad=1; }
while IFS='|' read -r id fv pv; do
  case $id in M*) if [ "$fv" = "ok" ] && [ "$pv" = "passes" ]; then echo "SELFTEST FAILED: mutation $id was not detected"; bad=1; fi;; esac
done <"$W/results.txt"
[ $bad = 0 ] && echo "SELFTEST OK: clean source passes, every semantic mutation is detected"
exit $bad
