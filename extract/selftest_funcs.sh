#!/bin/bash
# Self-test of the Go -> Lean function translation (docs/TRANSLATOR.md §5).
#
#   extract/selftest_funcs.sh [clean-source-dir]
#   JOBS=6 extract/selftest_funcs.sh      (rows in parallel; ~130 rows, about 3 min each)
#   ONLY="M64 M65 H9" ...                  (selected rows)   GENONLY=1 ... (regeneration only, no proofs)
#
# (i)   regenerates Rigo/Generated/Funcs.lean from a clean copy of rigo-go and compiles the equality
#       proofs RigoProofs/GenFuncs*.lean against it (must pass);
# (ii)  applies small semantic mutations of whitelisted functions in scratch copies and shows that the
#       regenerated definitions break the proofs (or the `funcs` check of the extractor);
# (iii) applies harmless rewrites and reports whether the proofs survive.
#
# Nothing under /verif/lean or /repo is written: the generated file and all .olean files of the
# test go to a scratch directory; the other model modules are read from /verif/lean/.lake (they
# must have been built: `cd /verif/lean && flock /verif/.build/lake.lock lake build Rigo.App Rigo.Signer`).
set -u
export GOFLAGS=-mod=mod GOPROXY=off GOSUMDB=off GOTOOLCHAIN=local
VERIF=${VERIF:-/verif}
HERE=$(cd "$(dirname "$0")" && pwd)
EXPECT=${EXPECT:-$VERIF/expect}
W=${W:-$VERIF/.work/translator/selftest}
LEANSRC=${LEANSRC:-$VERIF/lean}   # where RigoProofs/GenFuncs*.lean are taken from
MAIN=$VERIF/lean/.lake/build/lib/lean
PROOFS=${PROOFS-"GenFuncsBase GenFuncsSimple GenFuncsLoops GenFuncsLimiter GenFuncsSigner GenFuncsSignerSign GenFuncsSlash GenFuncsValUpd GenFuncsStake2 GenFuncsTx GenFuncsMerge GenFuncsLimiter2 GenFuncsGovBase GenFuncsGovMisc GenFuncsGov GenFuncsGovPunish GenFuncsCtrlBase GenFuncsCtrlGovV GenFuncsCtrlStakeV1 GenFuncsCtrlStakeV2 GenFuncsCtrlStakeV GenFuncsCtrlAcct GenFuncsCtrlStakeX GenFuncsCtrlUnstake GenFuncsCtrlGovX GenFuncsCtrlGovBlk1 GenFuncsCtrlGovBlk2 GenFuncsCtrlGovBlk GenFuncsCtrlStakeBlk GenFuncsLedgerMem GenFuncsLedger GenFuncs"}
ONLY=${ONLY:-}   # e.g. ONLY="M14 M15 H5": run only these rows (besides the clean base)
rm -rf "$W"; mkdir -p "$W"
OWN_WT=""
if [ $# -ge 1 ]; then SRC=$1; else
  SRC=$W/src; git -C /repo worktree add --detach "$SRC" HEAD >/dev/null 2>&1 || { echo "cannot create a worktree of /repo"; exit 2; }
  OWN_WT=1
fi
cleanup() { [ -n "$OWN_WT" ] && git -C /repo worktree remove --force "$SRC" >/dev/null 2>&1; rm -rf "$W"/m_* "$W"/h_*; }
trap cleanup EXIT

mkdir -p "$VERIF/.build"
( flock 9; cp "$SRC/go.sum" "$HERE/go.sum" 2>/dev/null; cd "$HERE" && go build -o "$W/rigoextract" . ) 9>"$VERIF/.build/go.lock" \
  || { echo "extractor does not build"; exit 2; }
for m in Rigo/Ledger/Impl Rigo/Types Rigo/StakeLogic Rigo/App Rigo/Block Rigo/Signer Rigo/Determinism RigoProofs/C01Sort RigoProofs/TxCommon; do
  [ -f "$MAIN/$m.olean" ] || { echo "missing $MAIN/$m.olean: build the model first"; exit 2; }
done

# check <dir-with-source> <label>: regenerate + compile; prints "<extract verdict>|<proof verdict>"
check() {
  local src=$1 d=$W/$2
  mkdir -p "$d/Rigo/Generated" "$d/RigoProofs" "$d/out/RigoProofs"
  cp -rs "$MAIN/Rigo" "$d/out/Rigo"; rm -f "$d"/out/Rigo/Generated/Funcs.*
  # the other (non-generated) proof modules the equality proofs import (C01Sort, TxCommon, ...)
  for o in "$MAIN"/RigoProofs/*.olean; do
    case "$(basename "$o")" in GenFuncs*) ;; *) ln -s "$o" "$d/out/RigoProofs/$(basename "$o")";; esac
  done
  "$W/rigoextract" -repo "$src" -expect "$EXPECT" -json "$d/facts.json" -funcs "$d/Rigo/Generated/Funcs.lean" >"$d/extract.log" 2>&1 \
    || { echo "extractor failed|-"; return; }
  local fv
  fv=$(python3 -c "import json,sys; c=json.load(open('$d/facts.json'))['checks']['funcs']; print('ok' if c['ok'] else 'FAIL: '+'; '.join(c['problems'])[:160])")
  if [ "$2" != base ] && [ "$fv" = ok ] && cmp -s "$d/Rigo/Generated/Funcs.lean" "$W/base/Rigo/Generated/Funcs.lean"; then
    echo "$fv|passes (generated file unchanged)"; return
  fi
  [ -n "${GENONLY:-}" ] && { echo "$fv|generated file differs (proofs not run: GENONLY)"; return; }
  cp "$LEANSRC"/RigoProofs/GenFuncs*.lean "$d/RigoProofs/"
  ( cd "$d" && LEAN_PATH=$MAIN lean -o out/Rigo/Generated/Funcs.olean Rigo/Generated/Funcs.lean >funcs.log 2>&1 ) \
    || { echo "$fv|generated file does not compile"; return; }
  for p in $PROOFS; do
    [ -f "$d/RigoProofs/$p.lean" ] || continue
    if ! ( cd "$d" && LEAN_PATH=$d/out:$MAIN lean -o out/RigoProofs/$p.olean RigoProofs/$p.lean >"$p.log" 2>&1 ); then
      local first
      first=$(grep -m1 "error" "$d/$p.log" | sed 's/: error.*//')
      # name of the theorem around the first error
      local line thm
      line=$(echo "$first" | cut -d: -f2)
      # an error of a whole declaration is reported at its doc comment: look forward then
      if sed -n "${line:-1}p" "$d/RigoProofs/$p.lean" | grep -q '^/--'; then
        thm=$(tail -n "+${line:-1}" "$d/RigoProofs/$p.lean" | grep -m1 -E "^(theorem|example|def|abbrev) " | awk '{print $2}')
      else
        thm=$(head -n "${line:-1}" "$d/RigoProofs/$p.lean" | grep -E "^(theorem|example|def|abbrev) " | tail -1 | awk '{print $2}')
      fi
      echo "$fv|FAILS in $p.lean (${thm:-?})"
      return
    fi
  done
  echo "$fv|passes"
}

# mutate <label> <file> <nth> <old> <new>
mutate() {
  local label=$1 file=$2 nth=$3 old=$4 new=$5
  local d=$W/$label.src
  mkdir -p "$d"; (cd "$SRC" && tar cf - --exclude=.git .) | (cd "$d" && tar xf -)
  python3 - "$d/$file" "$nth" "$old" "$new" <<'EOF' || { echo "MUTATION DID NOT APPLY"; return 1; }
import sys
p, nth, old, new = sys.argv[1], int(sys.argv[2]), sys.argv[3], sys.argv[4]
s = open(p).read()
parts = s.split(old)
if len(parts) - 1 < nth:
    sys.exit(1)
s = old.join(parts[:nth]) + new + old.join(parts[nth:])
open(p, "w").write(s)
EOF
  echo "$d"
}

printf "%-4s %-58s %-26s %s\n" "id" "change" "funcs check" "proofs"
echo "---- (i) clean source"
r=$(check "$SRC" base)
printf "%-4s %-58s %-26s %s\n" "B" "none (clean HEAD)" "${r%%|*}" "${r##*|}"
BASE_OK=0; [ "${r##*|}" = "passes" ] && [ "${r%%|*}" = "ok" ] && BASE_OK=1

JOBS=${JOBS:-1}   # rows run in parallel (each row has its own scratch directory)
ORDER=""
run() { # id label file nth old new description
  if [ -n "$ONLY" ]; then case " $ONLY " in *" $1 "*) ;; *) return;; esac; fi
  if [ "$JOBS" -gt 1 ]; then
    while [ "$(jobs -rp | wc -l)" -ge "$JOBS" ]; do sleep 0.3; done
    ORDER="$ORDER $1"
    run1 "$@" >"$W/row_$1.txt" 2>&1 &
  else
    run1 "$@"
  fi
}
flush_rows() { # print the rows of the parallel mode in the order they were started
  [ "$JOBS" -gt 1 ] || return 0
  wait
  for id in $ORDER; do cat "$W/row_$id.txt"; done
  ORDER=""
}
run1() {
  local d
  d=$(mutate "$2" "$3" "$4" "$5" "$6") || { printf "%-4s %-58s %s\n" "$1" "$7" "MUTATION DID NOT APPLY"; return; }
  local r
  r=$(check "$d" "$2")
  printf "%-4s %-58s %-26s %s\n" "$1" "$7" "$(echo "${r%%|*}" | cut -c1-26)" "${r##*|}"
  rm -rf "$d" "$W/$2/out"
  echo "$1|${r%%|*}|${r##*|}" >>"$W/results.txt"
}

echo "---- (ii) semantic mutations (every one must break the check)"
run M1 m_1 ctrlers/types/gov_params.go 1 'if vp < 0 {' 'if vp <= 0 {' "AmountToPower: vp < 0 -> vp <= 0"
run M2 m_2 ctrlers/stake/ctrler.go 1 'if ret < 0 {' 'if ret <= 0 {' "validatorUpdates merge-diff: ret < 0 -> ret <= 0"
run M3 m_3 ctrlers/stake/delegatee.go 1 '(s0.Power * ratio) / int64(100)' '(s0.Power*ratio + 99) / int64(100)' "doSlashAll: slashed power rounded up"
run M4 m_4 ctrlers/stake/block_marker.go 1 'bm.BlockHeights[preIdx+1:]' 'bm.BlockHeights[preIdx:]' "CountInWindow: dropped +1 when pruning the window"
run M5 m_5 ctrlers/stake/block_marker.go 1 'bm.BlockHeights[lastIdx] >= height' 'bm.BlockHeights[lastIdx] > height' "Mark: >= -> > (same height marked twice)"
run M6 m_6 ctrlers/types/account.go 1 'amt.Cmp(acct.Balance) > 0' 'amt.Cmp(acct.Balance) >= 0' "SubBalance: cannot spend the whole balance"
run M7 m_7 ctrlers/stake/reward.go 1 '_ = rwd.cumulated.Sub(rwd.cumulated, r)' '_ = rwd.cumulated.Add(rwd.cumulated, r)' "Reward.Withdraw: cumulated grows on withdrawal"
run M8 m_8 ctrlers/stake/delegatee.go 1 'return vs[i].TotalPower > vs[j].TotalPower' 'return vs[i].TotalPower < vs[j].TotalPower' "PowerOrderDelegatees.Less: ascending by power"
run M9 m_9 types/crypto/sfile_pv.go 1 'if lss.Round > round {' 'if lss.Round >= round {' "CheckHRS: same round is a regression"
run M10 m_10 ctrlers/stake/limiter.go 1 'if individualRatio > sl.individualLimitRatio {' 'if individualRatio >= sl.individualLimitRatio {' "limiter: individual ratio > -> >="
run M11 m_11 ctrlers/stake/limiter.go 1 'if int64(i) < maxValCnt {' 'if int64(i) <= maxValCnt {' "limiter reset: base power counts one more validator"
run M12 m_12 ctrlers/stake/delegatee.go 1 'delegatee.TotalPower -= s.Power
		return s' 'delegatee.TotalPower -= s.Power + 1
		return s' "DelStake: total power off by one"
run M13 m_13 ctrlers/stake/block_marker.go 1 'lastIdx := len(bm.BlockHeights) - 1' 'go func() {}()
	lastIdx := len(bm.BlockHeights) - 1' "Mark: unsupported construct (go statement)"

# ---- round 2: governance, limiter (updatable limit), stakes, transaction validation / fees
G=ctrlers/gov/proposal
run M14 m_14 $G/proposal.go 1 '(totalVotingPower * 2) / 3' '(totalVotingPower * 2) / 4' "NewGovProposal: majority 2/3 -> 2/4"
run M15 m_15 $G/proposal.go 1 '(prop.TotalVotingPower * 2) / 3' '(prop.TotalVotingPower * 2) / 2' "DoPunish: majority recomputed as total"
run M16 m_16 $G/proposal.go 1 'if voter.Power <= 0 {' 'if voter.Power < 0 {' "DoPunish: voter with power 0 kept"
run M17 m_17 $G/proposal.go 1 'uint256.NewInt(uint64(100))' 'uint256.NewInt(uint64(1000))' "DoPunish: ratio taken per mille"
run M18 m_18 $G/proposal.go 1 'voter.Choice = -1' 'voter.Choice = 0' "cancelVote: choice reset to option 0"
run M19 m_19 $G/proposal.go 1 'opt.DoVote(voter.Power)' 'opt.DoVote(1)' "doVote: one vote per voter instead of its power"
run M20 m_20 $G/option.go 1 'opt.votes -= power' 'opt.votes += power' "voteOption.CancelVote adds the power"
run M21 m_21 $G/proposal.go 1 'if prop.Options[0].Votes() >= prop.MajorityPower {' 'if prop.Options[0].Votes() > prop.MajorityPower {' "updateMajorOption: >= majority -> >"
run M22 m_22 $G/proposal.go 1 'return opts[i].votes > opts[j].votes' 'return opts[i].votes < opts[j].votes' "powerOrderVoteOptions.Less: ascending"
run M23 m_23 $G/proposal.go 1 '_, ok := prop.Voters[addr.String()]
	return ok' '_, ok := prop.Voters[addr.String()]
	return !ok' "GovProposal.IsVoter negated"
run M24 m_24 $G/header.go 1 'sum += v.Power' 'sum = v.Power' "SumVotingPowers: order-dependent map range (must be refused)"
run M25 m_25 $G/option.go 1 'option: opt,' 'option: opt, votes: 1,' "NewVoteOptions: options start with one vote"
run M26 m_26 ctrlers/types/gov_params.go 1 'newParams.gasPrice = oldParams.gasPrice' 'newParams.gasPrice = oldParams.rewardPerPower' "MergeGovParams: gas price defaults to rewardPerPower"
run M27 m_27 ctrlers/stake/limiter.go 1 'powObj.Power+diffPower < candidate.Power' 'powObj.Power+diffPower <= candidate.Power' "limiter: leaving validator compared with <="
run M28 m_28 ctrlers/stake/limiter.go 1 'updatedPower += lastVal.Power' 'updatedPower += diffPower' "limiter: entering validator counts its own change"
run M29 m_29 ctrlers/stake/limiter.go 1 'if sl.baseTotalPower > 0 {' 'if sl.baseTotalPower >= 0 {' "limiter: zero base power divides again"
run M30 m_30 ctrlers/stake/limiter.go 1 'powObj.Power += diffPower
	sl.updatedPower = updatedPower
	sort.Sort(orderedPowerObj(sl.powerObjs)) // sort by power' 'sort.Sort(orderedPowerObj(sl.powerObjs)) // sort by power
	powObj.Power += diffPower
	sl.updatedPower = updatedPower' "limiter: sort before the write through the element pointer (must be refused)"
run M31 m_31 ctrlers/stake/limiter.go 1 'return sl.checkLimit(delg, changePower, false)' 'return sl.checkLimit(delg, changePower, true)' "EvaluateLimit records the change"
run M32 m_32 ctrlers/stake/delegatee.go 1 'delegatee.TotalPower += s.Power' 'delegatee.TotalPower += 1' "addStake: total power +1 per stake"
run M33 m_33 ctrlers/stake/delegatee.go 1 'CountInWindow(h0, h1, true)' 'CountInWindow(h0, h1, false)' "GetNotSignedBlockCount: window not pruned"
run M34 m_34 ctrlers/stake/stake.go 1 'RefundHeight: 0,' 'RefundHeight: startHeight,' "NewStakeWithPower: refund height preset"
run M35 m_35 node/trx_executor.go 1 'tx.Gas > math.MaxInt64' 'tx.Gas >= math.MaxInt64' "commonValidation0: gas bound off by one"
run M36 m_36 node/trx_executor.go 1 'feeAmt.Cmp(ctx.GovHandler.MinTrxFee()) < 0' 'feeAmt.Cmp(ctx.GovHandler.MinTrxFee()) <= 0' "commonValidation0: fee must exceed the minimum"
run M37 m_37 node/trx_executor.go 1 'if ctx.Exec {
		_, pubKeyBytes, xerr' 'if false {
		_, pubKeyBytes, xerr' "commonValidation0: signature check disabled"
run M38 m_38 node/trx_executor.go 1 'tx.GasPrice.Cmp(ctx.GovHandler.GasPrice()) != 0' 'tx.GasPrice.Cmp(ctx.GovHandler.MinTrxFee()) != 0' "commonValidation0: oracle call GasPrice() vanished"
run M39 m_39 node/trx_executor.go 1 'ctx.GasUsed = ctx.Tx.Gas' 'ctx.GasUsed = 0' "postRunTrx: no gas used"
run M40 m_40 node/trx_executor.go 1 'fee := new(uint256.Int).Mul(ctx.Tx.GasPrice, uint256.NewInt(uint64(ctx.Tx.Gas)))' 'fee := new(uint256.Int).Add(ctx.Tx.GasPrice, uint256.NewInt(uint64(ctx.Tx.Gas)))' "postRunTrx: fee = price + gas"
run M41 m_41 ctrlers/types/account.go 1 'acct.Nonce++' 'acct.Nonce += 2' "AddNonce: +2"
run M42 m_42 ctrlers/types/gov_params.go 1 'return new(uint256.Int).Mul(uint256.NewInt(gas), price)' 'return new(uint256.Int).Mul(uint256.NewInt(gas+1), price)' "GasToFee: gas+1"
run M43 m_43 ctrlers/stake/limiter.go 1 'return sl.checkLimit(delg, changePower, true)' 'return sl.checkLimit(delg, changePower, false)' "CheckLimit does not record the change"
run M44 m_44 ctrlers/stake/delegatee.go 1 'return delegatee.addStake(stakes...)' 'return nil' "AddStake does nothing"
run M45 m_45 ctrlers/stake/delegatee.go 1 'return delegatee.doSlashAll(ratio)' 'return delegatee.doSlashAll(ratio + 1)' "DoSlash: ratio + 1"
run M46 m_46 $G/proposal.go 1 'return prop.updateMajorOption()' 'prop.updateMajorOption()
	return nil' "UpdateMajorOption always returns nil"
run M47 m_47 ctrlers/stake/delegatee.go 1 'return delegatee.NotSignedHeights.Mark(height)' 'return delegatee.NotSignedHeights.Mark(height + 1)' "ProcessNotSignedBlock marks the next height"
run M48 m_48 ctrlers/stake/stake.go 1 'return NewStakeWithPower(owner, to, power, startHeight, txhash)' 'return NewStakeWithPower(to, owner, power, startHeight, txhash)' "NewStakeWithAmount: owner and delegatee swapped"
run M49 m_49 ctrlers/stake/delegatee.go 1 'SelfPower:        0,' 'SelfPower:        1,' "NewDelegatee: self power 1"
run M50 m_50 ctrlers/stake/delegatee.go 2 'delegatee.TotalPower -= s.Power
		return s' 'delegatee.TotalPower += s.Power
		return s' "DelStakeByIdx: total power grows"
run M51 m_51 node/trx_executor.go 1 'needAmt := new(uint256.Int).Add(feeAmt, tx.Amount)' 'needAmt := new(uint256.Int).Sub(feeAmt, tx.Amount)' "commonValidation1: needed amount = fee - amount"
run M52 m_52 $G/header.go 1 'return h.Voters[addr.String()]' 'return nil' "GetVoter never finds the voter"
run M53 m_53 $G/header.go 1 '_, ok := h.Voters[addr.String()]
	return ok' '_, ok := h.Voters[addr.String()]
	return !ok' "GovProposalHeader.IsVoter negated"
run M54 m_54 $G/proposal.go 1 'return opt.Votes() >= prop.MajorityPower' 'return opt.Votes() > prop.MajorityPower' "isMajor: >= -> >"
run M55 m_55 $G/option.go 1 'opt.votes += power' 'opt.votes += 1' "voteOption.DoVote: +1"
run M56 m_56 $G/option.go 3 'return opt.votes' 'return opt.votes + 1' "voteOption.Votes: +1"
run M57 m_57 $G/proposal.go 1 'prop.cancelVote(voter)
	prop.doVote(voter, choice)' 'prop.doVote(voter, choice)' "DoVote: previous vote not cancelled"
run M58 m_58 ctrlers/types/account.go 1 'Nonce:   0,' 'Nonce:   1,' "NewAccount: nonce 1"
run M59 m_59 ctrlers/types/gov_params.go 1 'gas := new(uint256.Int).Div(fee, price)' 'gas := new(uint256.Int).Mod(fee, price)' "FeeToGas: remainder"
run M60 m_60 ctrlers/types/trx.go 1 'return tx.Type
}' 'return tx.Type + 1
}' "Trx.GetType: +1"
run M61 m_61 ctrlers/stake/delegatee.go 1 'return delegatee.sumPowerOf(nil)' 'return delegatee.sumPowerOf(delegatee.Addr)' "SumPower: self power only"
run M62 m_62 ctrlers/stake/delegatee.go 1 'return delegatee.sumPowerOf(addr)' 'return delegatee.sumPowerOf(nil)' "SumPowerOf: every owner"
run M63 m_63 ctrlers/stake/limiter.go 1 'if sl.powerObjs == nil {
		return nil
	}' 'if sl.powerObjs == nil && changePower > 0 {
		return nil
	}' "checkLimit: nil limiter only passes positive changes"


# ---- round 3: the controllers' stateful functions (ledger access as GLedger operations, interface calls as oracles)
GC=ctrlers/gov/ctrler.go
SC=ctrlers/stake/ctrler.go
AC=ctrlers/account/ctrler.go
run M64 m_64 $GC 1 'txpayload.StartVotingHeight <= ctx.Height' 'txpayload.StartVotingHeight < ctx.Height' "gov ValidateTrx: voting may start at the current height"
run M65 m_65 $GC 1 'txpayload.VotingPeriodBlocks > ctrler.MaxVotingPeriodBlocks()' 'txpayload.VotingPeriodBlocks >= ctrler.MaxVotingPeriodBlocks()' "gov ValidateTrx: maximal period rejected"
run M66 m_66 $GC 1 'json.Unmarshal(hotfixOption(option), checkGovParams)' 'json.Unmarshal(option, checkGovParams)' "gov ValidateTrx: hot-fixed form no longer checked (oracle function vanishes)"
run M67 m_67 $GC 1 'ctx.Height > prop.EndVotingHeight ||' 'ctx.Height >= prop.EndVotingHeight ||' "gov ValidateTrx: no vote at the end height"
run M68 m_68 $GC 1 'txpayload.Choice >= int32(len(prop.Options))' 'txpayload.Choice > int32(len(prop.Options))' "gov ValidateTrx: choice = #options accepted"
run M69 m_69 $GC 1 'ctx.StakeHandler.IsValidator(ctx.Tx.From) == false' 'ctx.StakeHandler.IsValidator(ctx.Tx.To) == false' "gov ValidateTrx: right checked for the receiver (oracle call vanishes)"
run M70 m_70 $GC 1 'getProposal = ctrler.proposalLedger.GetFinality
	}

	// validation by tx type' 'getProposal = ctrler.frozenLedger.GetFinality
	}

	// validation by tx type' "gov ValidateTrx: exec path reads the frozen ledger"
run M71 m_71 $GC 1 'if txpayload.ApplyingHeight < minApplyingHeight || endVotingHeight > txpayload.ApplyingHeight {' 'if txpayload.ApplyingHeight <= minApplyingHeight || endVotingHeight > txpayload.ApplyingHeight {' "gov ValidateTrx: applying height must exceed the minimum"
run M72 m_72 $SC 1 'if selfPower < minPower {' 'if selfPower <= minPower {' "stake ValidateTrx: self stake must exceed the minimum"
run M73 m_73 $SC 1 'minDelegatorPower > 0 && minDelegatorPower > txPower' 'minDelegatorPower > 0 && minDelegatorPower >= txPower' "stake ValidateTrx: delegation must exceed the minimum"
run M74 m_74 $SC 1 'if len(ctrler.lastValidators) >= 3 {
			if xerr := checkLimit(_delg, txPower); xerr != nil {' 'if len(ctrler.lastValidators) > 3 {
			if xerr := checkLimit(_delg, txPower); xerr != nil {' "stake ValidateTrx: limiter only with more than 3 validators"
run M75 m_75 $SC 1 'checkLimit(delegatee, -1*s0.Power)' 'checkLimit(delegatee, s0.Power)' "stake ValidateTrx: unstaking counted as staking by the limiter"
run M76 m_76 $SC 1 'txpayload.ReqAmt.Cmp(rwd.cumulated) > 0' 'txpayload.ReqAmt.Cmp(rwd.cumulated) >= 0' "stake ValidateTrx: cannot withdraw the whole reward"
run M77 m_77 $SC 1 'if txhash == nil || len(txhash) != 32 {
			return xerrors.ErrInvalidTrxPayloadParams
		}

		_, s0 := delegatee.FindStake(txhash)
		if s0 == nil {
			return xerrors.ErrNotFoundStake
		}

		if ctx.Tx.From.Compare(s0.From) != 0 {
			return xerrors.ErrNotFoundStake.Wrapf("you not stake owner")
		}

		if len(ctrler.lastValidators) >= 3 {' 'if txhash == nil || len(txhash) != 20 {
			return xerrors.ErrInvalidTrxPayloadParams
		}

		_, s0 := delegatee.FindStake(txhash)
		if s0 == nil {
			return xerrors.ErrNotFoundStake
		}

		if ctx.Tx.From.Compare(s0.From) != 0 {
			return xerrors.ErrNotFoundStake.Wrapf("you not stake owner")
		}

		if len(ctrler.lastValidators) >= 3 {' "stake ValidateTrx: stake hash of 20 bytes"
run M78 m_78 $SC 1 'checkLimit = ctrler.stakeLimiter.CheckLimit' 'checkLimit = ctrler.stakeLimiter.EvaluateLimit' "stake ValidateTrx: DeliverTx only evaluates the limiter"
run M79 m_79 $SC 1 'if (totalPower + txPower) <= 0 {' 'if (totalPower + txPower) < 0 {' "stake ValidateTrx: overflow test < 0"
run M80 m_80 $AC 1 'if len(name) > atypes.MAX_ACCT_NAME {' 'if len(name) >= atypes.MAX_ACCT_NAME {' "account ValidateTrx: name of the maximal length rejected"
run M81 m_81 $AC 1 '_ = from.AddBalance(amt) // refund
		return err
	}
	return nil
}

func (ctrler *AcctCtrler) SetCode' '// no refund
		return err
	}
	return nil
}

func (ctrler *AcctCtrler) SetCode' "account transfer: no refund when the credit fails"
run M82 m_82 $AC 1 'ctx.SumFee().Sign() > 0' 'ctx.SumFee().Sign() >= 0' "account EndBlock: proposer credited with a zero fee sum"
run M83 m_83 $AC 1 'acct.SetDocURL(url)' 'acct.SetDocURL(name)' "account setDoc: url := name"
run M84 m_84 $AC 1 'fn := ctrler.acctLedger.Get
	if exec {
		fn = ctrler.acctLedger.GetFinality
	}' 'fn := ctrler.acctLedger.Get
	if !exec {
		fn = ctrler.acctLedger.GetFinality
	}' "account findAccount: views swapped"
run M85 m_85 $AC 1 '_ = ctrler.setAccountCommittable(ctx.Sender, ctx.Exec)
	if ctx.Receiver != nil {' 'if ctx.Receiver != nil {' "account ExecuteTrx: sender not handed to the ledger"
run M86 m_86 $AC 1 '} else if xerr := acct.AddBalance(amt); xerr != nil {
		return xerr
	} else if xerr := ctrler.setAccountCommittable(acct, exec); xerr != nil {' '} else if xerr := acct.SubBalance(amt); xerr != nil {
		return xerr
	} else if xerr := ctrler.setAccountCommittable(acct, exec); xerr != nil {' "account Reward debits"
run M87 m_87 $AC 1 'newAcct := atypes.NewAccountWithName(addr, "")
	ctrler.setAccountCommittable(newAcct, exec)' 'newAcct := atypes.NewAccountWithName(addr, "")' "account FindOrNewAccount: new account not stored"
run M88 m_88 $SC 1 'NewStakeWithPower(ctx.Tx.From, ctx.Tx.To, power, ctx.Height+1, ctx.TxHash)' 'NewStakeWithPower(ctx.Tx.From, ctx.Tx.To, power, ctx.Height, ctx.TxHash)' "exeStaking: start height = current height"
run M89 m_89 $SC 1 'delegatee = NewDelegatee(ctx.Tx.From, ctx.SenderPubKey)' 'delegatee = NewDelegatee(ctx.Tx.To, nil)' "exeStaking: new delegatee without public key"
run M90 m_90 $SC 1 's0.RefundHeight = ctx.Height + ctx.GovHandler.LazyRewardBlocks()
	_ = setUpdateFrozen(s0) // add s0 to frozen ledger' 's0.RefundHeight = ctx.Height
	_ = setUpdateFrozen(s0) // add s0 to frozen ledger' "exeUnstaking: refund at once"
run M91 m_91 $SC 1 'if delegatee.TotalPower == 0 {
		// this changed delegate will be committed at Commit()
		if _, xerr := delDelegatee(delegatee.Key()); xerr != nil {' 'if delegatee.SelfPower == 0 {
		// this changed delegate will be committed at Commit()
		if _, xerr := delDelegatee(delegatee.Key()); xerr != nil {' "exeUnstaking: delegatee deleted when the self power is 0"
run M92 m_92 $SC 1 'setUpdateFrozen = ctrler.frozenLedger.SetFinality' 'setUpdateFrozen = ctrler.frozenLedger.Set' "exeUnstaking: DeliverTx writes the mempool view of the frozen ledger"
run M93 m_93 $SC 1 'setReward = ctrler.rewardLedger.SetFinality' 'setReward = ctrler.rewardLedger.Set' "exeWithdraw: DeliverTx writes the mempool view of the reward ledger"
run M94 m_94 $SC 1 'slashed := delegatee.DoSlash(slashRatio)
	_ = ctrler.delegateeLedger.SetFinality(delegatee)' 'slashed := delegatee.DoSlash(slashRatio)' "stake doPunish: slashed delegatee not written back"
run M95 m_95 $SC 1 'rwd := new(uint256.Int).Mul(power, ctrler.govParams.RewardPerPower())' 'rwd := new(uint256.Int).Add(power, ctrler.govParams.RewardPerPower())' "doRewardTo: reward = power + rate"
run M96 m_96 $SC 1 'if s0.RefundHeight <= height {' 'if s0.RefundHeight < height {' "unfreezingStakes: refund one block later"
run M97 m_97 $SC 1 '_, _ = ctrler.frozenLedger.DelFinality(ledger.ToLedgerKey(s0.TxHash))' '_, _ = ctrler.frozenLedger.DelFinality(ledger.ToLedgerKey(s0.From))' "unfreezingStakes: wrong key deleted"
run M98 m_98 $SC 1 'for _, v := range ctrler.lastValidators {
		totalPower += v.TotalPower' 'for _, v := range ctrler.lastValidators {
		totalPower += v.SelfPower' "Validators: total of the self powers"
run M99 m_99 $SC 1 'for _, v := range ctrler.lastValidators {
		if bytes.Compare(v.Addr, addr) == 0 {
			return true' 'for _, v := range ctrler.lastValidators {
		if bytes.Compare(v.Addr, addr) != 0 {
			return true' "IsValidator: comparison negated"
run M100 m_100 $GC 1 'Choice: proposal.NOT_CHOICE, // -1' 'Choice: 0,' "execProposing: voters start with choice 0"
run M101 m_101 $GC 1 'prop.DoVote(ctx.Tx.From, txpayload.Choice)' 'prop.DoVote(ctx.Tx.To, txpayload.Choice)' "execVoting: the receiver votes"
run M102 m_102 $GC 1 'prop.DoPunish(targetAddr, ctrler.SlashRatio())' 'prop.DoPunish(targetAddr, ctrler.SlashRatio()+1)' "gov doPunish: ratio + 1"
run M103 m_103 $GC 1 'if prop.EndVotingHeight < height {' 'if prop.EndVotingHeight <= height {' "freezeProposals: frozen at the end height"
run M104 m_104 $GC 1 'if xerr := ctrler.frozenLedger.SetFinality(prop); xerr != nil {' 'if xerr := ctrler.proposalLedger.SetFinality(prop); xerr != nil {' "freezeProposals: frozen proposal written to the open ledger"
run M105 m_105 $SC 1 'rwdObj, xerr := ctrler.rewardLedger.GetFinality(ledger.ToLedgerKey(s0.From))' 'rwdObj, xerr := ctrler.rewardLedger.GetFinality(ledger.ToLedgerKey(s0.To))' "doRewardTo: reward object of the delegatee"
flush_rows
# ---- round 4: the ledger package itself (memItems, SimpleLedger, FinalityLedger)
LG=ledger
run M106 m_106 $LG/finality_ledger.go 1 'if item, ok := ledger.finalityItems.getGotItem(key); ok {
		return item, nil
	}

	// if the item is already removed, return xerrors.ErrNotFoundResult
	if ledger.finalityItems.isRemovedKey(key) {
		return emptyNil, xerrors.ErrNotFoundResult
	}' 'if ledger.finalityItems.isRemovedKey(key) {
		return emptyNil, xerrors.ErrNotFoundResult
	}
	if item, ok := ledger.finalityItems.getGotItem(key); ok {
		return item, nil
	}' "getFinality: removed list consulted before the cache"
run M107 m_107 $LG/finality_ledger.go 1 '		ledger.finalityItems.delUpdatedItem(key)   // delete(ledger.updatedItems, key)
' '' "DelFinality: delUpdatedItem dropped"
run M108 m_108 $LG/finality_ledger.go 1 'range ledger.finalityItems.removedKeys {' 'range ledger.SimpleLedger.cachedItems.removedKeys {' "Commit: removed keys of the mempool overlay applied"
run M109 m_109 $LG/mem_items.go 2 '	m.removedKeys = nil
' '' "refresh: removedKeys not cleared"
run M110 m_110 $LG/simple_ledger.go 1 '		ledger.cachedItems.setGotItem(item)
		return item, nil' '		return item, nil' "get: item read from the tree not cached"
run M111 m_111 $LG/simple_ledger.go 1 '	ledger.cachedItems.setUpdatedItem(item)
	ledger.cachedItems.setGotItem(item)' '	ledger.cachedItems.setUpdatedItem(item)' "Set: got cache not written"
run M112 m_112 $LG/finality_ledger.go 1 '		ledger.finalityItems.refresh()' '		ledger.finalityItems.reset()' "Commit: consensus overlay reset instead of refreshed"
run M113 m_113 $LG/mem_items.go 1 'm.removedKeys = append(m.removedKeys[:i], m.removedKeys[i+1:]...)
			return' 'm.removedKeys = append(m.removedKeys[:i], m.removedKeys[i+1:]...)' "delRemovedKey: loop goes on after the removal (refused)"
run M114 m_114 $LG/simple_ledger.go 1 '} else if key != item.Key() {' '} else if key == item.Key() {' "read: key check negated"
run M115 m_115 $LG/finality_ledger.go 1 '		ledger.SimpleLedger.cachedItems.reset()
' '' "Commit: mempool overlay survives the commit"
# ---- round 4: the signer's decision logic (signVote, signProposal, saveSigned)
SF=types/crypto/sfile_pv.go
run M116 m_116 $SF 1 'height, round, step := proposal.Height, proposal.Round, stepPropose' 'height, round, step := proposal.Height, proposal.PolRound, stepPropose' "signProposal: PolRound checked and saved instead of Round"
run M117 m_117 $SF 1 'if bytes.Equal(signBytes, lss.SignBytes) {' 'if len(lss.SignBytes) > 0 {' "signVote: stored signature reused without comparing the sign bytes"
run M118 m_118 $SF 1 '	pv.LastSignState.Signature = sig
	pv.LastSignState.SignBytes = signBytes
	pv.LastSignState.Save()' '	pv.LastSignState.Save()
	pv.LastSignState.Signature = sig
	pv.LastSignState.SignBytes = signBytes' "saveSigned: persisted before signature / sign bytes are set"
run M119 m_119 $SF 1 '	pv.LastSignState.SignBytes = signBytes
	pv.LastSignState.Save()' '	pv.LastSignState.SignBytes = signBytes
	defer pv.LastSignState.Save()' "saveSigned: Save deferred (refused)"
run M120 m_120 $SF 1 '	pv.LastSignState.Round = round
' '	pv.LastSignState.Round = 0
' "saveSigned: round not recorded"
run M121 m_121 $SF 1 '	case tmproto.PrevoteType:
		return stepPrevote' '	case tmproto.PrevoteType:
		return stepPrecommit' "voteToStep: prevote mapped to the precommit step"
run M122 m_122 $SF 1 '			err = xerrors.From(fmt.Errorf("conflicting data"))' '			err = nil' "signVote: conflicting data not reported"
run M123 m_123 $SF 2 '	pv.saveSigned(height, round, step, signBytes, sig)
' '' "signProposal: fresh signature handed out without saveSigned"
run M124 m_124 $SF 1 '			vote.Timestamp = timestamp
' '			_ = timestamp
' "signVote: stored timestamp not handed back"
flush_rows
echo "---- (iii) harmless rewrites (either outcome is acceptable)"
run H1 h_1 ctrlers/types/gov_params.go 1 '_vp := new(uint256.Int).Div(amt, amountPerPower)
	vp := int64(_vp.Uint64())' 'quot := new(uint256.Int).Div(amt, amountPerPower)
	vp := int64(quot.Uint64())' "AmountToPower: local _vp renamed"
run H2 h_2 ctrlers/stake/limiter.go 1 'sl.powerObjs = pobjs
	sl.baseTotalPower = _base' 'sl.baseTotalPower = _base
	sl.powerObjs = pobjs' "limiter reset: two independent assignments swapped"
run H3 h_3 ctrlers/stake/block_marker.go 1 'count++' 'count += 1' "CountInWindow: count++ -> count += 1"
run H4 h_4 ctrlers/stake/delegatee.go 1 'for _, s := range delegatee.Stakes {
		if addr == nil || bytes.Compare(addr, s.From) == 0 {
			power += s.Power' 'for _, st := range delegatee.Stakes {
		if addr == nil || bytes.Compare(addr, st.From) == 0 {
			power += st.Power' "sumPowerOf: loop variable renamed"

run H5 h_5 $G/proposal.go 1 'voter := prop.Voters[addr.String()]
	if voter == nil {
		return xerrors.NewOrdinary("not found voter")
	}

	prop.cancelVote(voter)
	prop.doVote(voter, choice)' 'vt := prop.Voters[addr.String()]
	if vt == nil {
		return xerrors.NewOrdinary("not found voter")
	}

	prop.cancelVote(vt)
	prop.doVote(vt, choice)' "DoVote: local voter renamed"
run H6 h_6 ctrlers/stake/limiter.go 1 'updatedPower += -1 * diffPower' 'updatedPower -= diffPower' "limiter: += -1*d  ->  -= d"
run H7 h_7 ctrlers/types/gov_params.go 1 'if newParams.version == 0 {
		newParams.version = oldParams.version
	}

	if newParams.maxValidatorCnt == 0 {
		newParams.maxValidatorCnt = oldParams.maxValidatorCnt
	}' 'if newParams.maxValidatorCnt == 0 {
		newParams.maxValidatorCnt = oldParams.maxValidatorCnt
	}

	if newParams.version == 0 {
		newParams.version = oldParams.version
	}' "MergeGovParams: two independent blocks swapped"
run H8 h_8 node/trx_executor.go 1 'feeAmt := new(uint256.Int).Mul(tx.GasPrice, uint256.NewInt(tx.Gas))
	if feeAmt.Cmp(ctx.GovHandler.MinTrxFee()) < 0 {' 'fee0 := new(uint256.Int).Mul(tx.GasPrice, uint256.NewInt(tx.Gas))
	if fee0.Cmp(ctx.GovHandler.MinTrxFee()) < 0 {' "commonValidation0: local feeAmt renamed"




run H9 h_9 ctrlers/gov/ctrler.go 1 'endVotingHeight := txpayload.StartVotingHeight + txpayload.VotingPeriodBlocks
		minApplyingHeight := endVotingHeight + ctrler.LazyApplyingBlocks()' 'endH := txpayload.StartVotingHeight + txpayload.VotingPeriodBlocks
		endVotingHeight := endH
		minApplyingHeight := endVotingHeight + ctrler.LazyApplyingBlocks()' "gov ValidateTrx: end height through an extra local"
run H10 h_10 ctrlers/stake/ctrler.go 1 'minPower := ctrlertypes.AmountToPower(ctrler.govParams.MinValidatorStake())
			if selfPower < minPower {' 'minP := ctrlertypes.AmountToPower(ctrler.govParams.MinValidatorStake())
			if selfPower < minP {' "stake ValidateTrx: local minPower renamed"
run H11 h_11 ctrlers/account/ctrler.go 1 'if err := from.SubBalance(amt); err != nil {
		return err
	}' 'if e0 := from.SubBalance(amt); e0 != nil {
		return e0
	}' "account transfer: error variable renamed"
run H12 h_12 ctrlers/stake/ctrler.go 1 'refundAmt := ctrlertypes.PowerToAmount(s0.Power)
			xerr := acctHandler.Reward(s0.From, refundAmt, true)' 'amt0 := ctrlertypes.PowerToAmount(s0.Power)
			xerr := acctHandler.Reward(s0.From, amt0, true)' "unfreezingStakes: local renamed"
run H13 h_13 ctrlers/gov/ctrler.go 1 'setProposal := ctrler.proposalLedger.Set
	if ctx.Exec {
		setProposal = ctrler.proposalLedger.SetFinality
	}

	txpayload, _ := ctx.Tx.Payload.(*ctrlertypes.TrxPayloadProposal)' 'put := ctrler.proposalLedger.Set
	if ctx.Exec {
		put = ctrler.proposalLedger.SetFinality
	}
	setProposal := put

	txpayload, _ := ctx.Tx.Payload.(*ctrlertypes.TrxPayloadProposal)' "execProposing: function variable copied (outside the subset: refused)"
run H14 h_14 ctrlers/stake/ctrler.go 1 'power := ctrlertypes.AmountToPower(ctx.Tx.Amount)
	s0 := NewStakeWithPower(ctx.Tx.From, ctx.Tx.To, power, ctx.Height+1, ctx.TxHash)' 'pw := ctrlertypes.AmountToPower(ctx.Tx.Amount)
	s0 := NewStakeWithPower(ctx.Tx.From, ctx.Tx.To, pw, ctx.Height+1, ctx.TxHash)' "exeStaking: local power renamed"
run H15 h_15 ledger/finality_ledger.go 1 'if item, ok := ledger.finalityItems.getGotItem(key); ok {
		return item, nil
	}' 'if it0, found := ledger.finalityItems.getGotItem(key); found {
		return it0, nil
	}' "getFinality: locals renamed"
run H16 h_16 ledger/finality_ledger.go 1 '		ledger.finalityItems.delGotItem(key)       // delete(ledger.gotItems, key)
		ledger.finalityItems.delUpdatedItem(key)   // delete(ledger.updatedItems, key)' '		ledger.finalityItems.delUpdatedItem(key)   // delete(ledger.updatedItems, key)
		ledger.finalityItems.delGotItem(key)       // delete(ledger.gotItems, key)' "DelFinality: two independent deletes swapped"
run H17 h_17 types/crypto/sfile_pv.go 1 '	sameHRS, err := lss.CheckHRS(height, round, step)
	if err != nil {
		return err
	}

	signBytes := tmtypes.VoteSignBytes(chainID, vote)' '	sameHRS, err := lss.CheckHRS(height, round, step)
	if err != nil {
		return err
	}

	signBytes := tmtypes.VoteSignBytes(chainID, vote)
	_ = sameHRS' "signVote: a blank use of a local added"
run H18 h_18 types/crypto/sfile_pv.go 1 '	pv.LastSignState.Height = height
	pv.LastSignState.Round = round' '	pv.LastSignState.Round = round
	pv.LastSignState.Height = height' "saveSigned: two independent assignments swapped"
run H19 h_19 types/crypto/sfile_pv.go 1 '	pv.saveSigned(height, round, step, signBytes, sig)
	vote.Signature = sig' '	vote.Signature = sig
	pv.saveSigned(height, round, step, signBytes, sig)' "signVote: signature set before saveSigned (no crash points in a sequential translation: NOT observable)"
flush_rows
echo
bad=0
[ $BASE_OK = 1 ] || { echo "SELFTEST FAILED: the clean source does not pass"; bad=1; }
while IFS='|' read -r id fv pv; do
  case $id in M*) if [ "$fv" = "ok" ] && [ "$pv" = "passes" ]; then echo "SELFTEST FAILED: mutation $id was not detected"; bad=1; fi;; esac
done <"$W/results.txt"
[ $bad = 0 ] && echo "SELFTEST OK: clean source passes, every semantic mutation is detected"
exit $bad
