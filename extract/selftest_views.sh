#!/bin/bash
# Self-test of the fact groups `ledger_views` (extract/views.go) and `persist_sites` (extract/persist.go).
#
#   extract/selftest_views.sh
#
# (i)   runs the extractor on a clean worktree of /repo's HEAD: both groups must be ok;
# (ii)  applies "one call site uses the wrong ledger view" mutations (and persistence mutations), one at a
#       time, in that private worktree: the owning group must NOT be ok, the other one must stay ok;
# (iii) applies harmless rewrites (renamed local, reordered independent statements, added log line):
#       both groups must stay ok.
# Every mutant must type-check (a mutant that does not compile is reported as an error of the self-test,
# not as a detection). Nothing under /repo's working tree or /verif is written except the scratch
# directory $W; the worktree is removed at the end.
set -u
export GOFLAGS=-mod=mod GOPROXY=off GOSUMDB=off GOTOOLCHAIN=local
VERIF=${VERIF:-/verif}
HERE=$(cd "$(dirname "$0")" && pwd)
EXPECT=${EXPECT:-$VERIF/expect}
W=${W:-$VERIF/.work/lviews/selftest}
ONLY=${ONLY:-}
rm -rf "$W"; mkdir -p "$W"
SRC=$W/src
git -C /repo worktree prune >/dev/null 2>&1
git -C /repo worktree add --detach "$SRC" HEAD >/dev/null 2>&1 || { echo "cannot create a worktree of /repo"; exit 2; }
cleanup() { git -C /repo worktree remove --force "$SRC" >/dev/null 2>&1; git -C /repo worktree prune >/dev/null 2>&1; }
trap cleanup EXIT

mkdir -p "$VERIF/.build"
( flock 9; [ -f "$HERE/go.sum" ] || cp "$SRC/go.sum" "$HERE/go.sum"; cd "$HERE" && go build -o "$W/rigoextract" . ) 9>"$VERIF/.build/go.lock" \
  || { echo "extractor does not build"; exit 2; }

# verdicts: prints "<ledger_views>|<persist_sites>|<first problem>"
verdicts() {
  "$W/rigoextract" -repo "$SRC" -expect "$EXPECT" -json "$W/out.json" >"$W/extract.log" 2>&1 || { echo "ERR|ERR|$(tail -n 3 "$W/extract.log" | tr '\n' ' ' | cut -c1-200)"; return; }
  python3 - "$W/out.json" <<'EOF'
import json, sys
c = json.load(open(sys.argv[1]))["checks"]
def v(g):
    return "ok" if c[g]["ok"] else "FAIL(%d)" % len(c[g]["problems"])
first = ""
for g in ("ledger_views", "persist_sites"):
    if not c[g]["ok"] and not first:
        first = c[g]["problems"][0]
print("%s|%s|%s" % (v("ledger_views"), v("persist_sites"), first))
EOF
}

# mutate <file> <nth> <old> <new>: replaces the nth occurrence of old
mutate() {
  python3 - "$SRC/$1" "$2" "$3" "$4" <<'EOF'
import sys
p, nth, old, new = sys.argv[1], int(sys.argv[2]), sys.argv[3], sys.argv[4]
s = open(p).read()
parts = s.split(old)
if len(parts) - 1 < nth:
    sys.exit(1)
s = old.join(parts[:nth]) + new + old.join(parts[nth:])
open(p, "w").write(s)
EOF
}
restore() { git -C "$SRC" checkout -q -- . ; }

PASS=0; FAILN=0
# run <id> <expect: V|P|H> <description> <file> <nth> <old> <new> [<file> <nth> <old> <new> ...]
#   V: ledger_views must fail, persist_sites stay ok;  P: persist_sites must fail, ledger_views stay ok;  H: both stay ok
run() {
  local id=$1 want=$2 desc=$3; shift 3
  if [ -n "$ONLY" ]; then case " $ONLY " in *" $id "*) ;; *) return;; esac; fi
  while [ $# -ge 4 ]; do
    mutate "$1" "$2" "$3" "$4" || { printf "%-4s %-66s %s\n" "$id" "$desc" "MUTATION DID NOT APPLY"; FAILN=$((FAILN+1)); restore; return; }
    shift 4
  done
  local r lv ps first res
  r=$(verdicts); lv=${r%%|*}; r=${r#*|}; ps=${r%%|*}; first=${r#*|}
  restore
  case "$want" in
    V) [ "${lv#FAIL}" != "$lv" ] && [ "$ps" = ok ] && res=detected || res="NOT AS EXPECTED";;
    P) [ "${ps#FAIL}" != "$ps" ] && [ "$lv" = ok ] && res=detected || res="NOT AS EXPECTED";;
    H) [ "$lv" = ok ] && [ "$ps" = ok ] && res="not flagged" || res="NOT AS EXPECTED";;
  esac
  [ "$lv" = ERR ] && res="MUTANT DOES NOT TYPE-CHECK"
  case "$res" in detected|"not flagged") PASS=$((PASS+1));; *) FAILN=$((FAILN+1));; esac
  printf "%-4s %-66s %-9s %-9s %s\n" "$id" "$desc" "$lv" "$ps" "$res"
  [ -n "$first" ] && printf "       %s\n" "$(echo "$first" | cut -c1-230)"
}

GOV=ctrlers/gov/ctrler.go; STK=ctrlers/stake/ctrler.go; ACC=ctrlers/account/ctrler.go
printf "%-4s %-66s %-9s %-9s %s\n" "id" "change" "views" "persist" "result"
echo "---- (i) clean HEAD"
r=$(verdicts); lv=${r%%|*}; r=${r#*|}; ps=${r%%|*}
printf "%-4s %-66s %-9s %-9s %s\n" "B" "none" "$lv" "$ps" "$( [ "$lv" = ok ] && [ "$ps" = ok ] && echo base-ok || echo BASE-NOT-OK )"
[ "$lv" = ok ] && [ "$ps" = ok ] || { echo "the clean tree does not match the expectation: $r"; exit 1; }

echo "---- (ii) wrong-view mutations (ledger_views must fail)"
run V1 V "gov doPunish: proposalLedger.GetFinality -> Get" $GOV 1 'prop, _ := ctrler.proposalLedger.GetFinality(k)' 'prop, _ := ctrler.proposalLedger.Get(k)'
run V2 V "gov execVoting: default reader Get -> GetFinality" $GOV 2 'getProposal := ctrler.proposalLedger.Get
' 'getProposal := ctrler.proposalLedger.GetFinality
'
run V3 V "stake doRewardTo: rewardLedger.GetFinality -> Get" $STK 1 'rwdObj, xerr := ctrler.rewardLedger.GetFinality(' 'rwdObj, xerr := ctrler.rewardLedger.Get('
run V4 V "stake exeWithdraw: exec override setReward = SetFinality dropped" $STK 1 '		setReward = ctrler.rewardLedger.SetFinality
' ''
run V5 V "account Query: fast path through FindAccount(addr, false)" ctrlers/account/query.go 1 '	acct, xerr := immuLedger.Read(types.Address(req.Data).Array32())
' '	acct, xerr := immuLedger.Read(types.Address(req.Data).Array32())
	if fast := ctrler.FindAccount(types.Address(req.Data), false); fast != nil && req.Height >= ctrler.acctLedger.Version() {
		acct, xerr = fast, nil
	}
'
run V6 V "stake doPunish: delegateeLedger.GetFinality -> Get" $STK 1 'delegatee, xerr := ctrler.delegateeLedger.GetFinality(ledger.ToLedgerKey(evi.Validator.Address))' 'delegatee, xerr := ctrler.delegateeLedger.Get(ledger.ToLedgerKey(evi.Validator.Address))'
run V7 V "finality_ledger getFinality: falls through to SimpleLedger.get" ledger/finality_ledger.go 1 'ledger.read(key)' 'ledger.SimpleLedger.get(key)'
run V8 V "NewTrxContext (CheckTx+DeliverTx): FindAccount(tx.From, true)" ctrlers/types/trx_ctx.go 1 'txctx.AcctHandler.FindAccount(tx.From, txctx.Exec)' 'txctx.AcctHandler.FindAccount(tx.From, true)'
run V9 V "stake exeUnstaking: frozen default writer Set -> SetFinality" $STK 1 'setUpdateFrozen := ctrler.frozenLedger.Set
' 'setUpdateFrozen := ctrler.frozenLedger.SetFinality
'
run V10 V "stake ValidateTrx(withdraw): reward reader switched on !ctx.Exec" $STK 1 '		getReward := ctrler.rewardLedger.Get
		if ctx.Exec {' '		getReward := ctrler.rewardLedger.Get
		if !ctx.Exec {'
run V11 V "postRunTrx: SetAccountCommittable(ctx.Sender, true)" node/trx_executor.go 1 'ctx.AcctHandler.SetAccountCommittable(ctx.Sender, ctx.Exec)' 'ctx.AcctHandler.SetAccountCommittable(ctx.Sender, true)'
run V12 V "account setAccountCommittable: if exec -> if !exec" $ACC 1 '	fn := ctrler.acctLedger.Set
	if exec {' '	fn := ctrler.acctLedger.Set
	if !exec {'
run V13 V "evm StateDBWrapper.Prepare: s.exec = true" ctrlers/vm/evm/statedb.go 1 's.exec = exec' 's.exec = true'
run V14 V "stake unfreezingStakes: refund with Reward(…, false)" $STK 1 'acctHandler.Reward(s0.From, refundAmt, true)' 'acctHandler.Reward(s0.From, refundAmt, false)'
run V15 V "gov ValidateTrx: additional frozenLedger.GetFinality read" $GOV 1 '	// validation by tx type
' '	_, _ = ctrler.frozenLedger.GetFinality(ctx.TxHash.Array32())
	// validation by tx type
'
run V16 V "stake exeStaking: delegatee written before the exec switch (Set)" $STK 1 '	if xerr := setUpdateDelegatee(delegatee); xerr != nil {
		return xerr
	}

	return nil
}

func (ctrler *StakeCtrler) exeUnstaking' '	if xerr := ctrler.delegateeLedger.Set(delegatee); xerr != nil {
		return xerr
	}
	_ = setUpdateDelegatee

	return nil
}

func (ctrler *StakeCtrler) exeUnstaking'
run V17 V "gov execProposing: SetFinality moved out of the exec branch" $GOV 1 '	setProposal := ctrler.proposalLedger.Set
	if ctx.Exec {
		setProposal = ctrler.proposalLedger.SetFinality
	}
' '	setProposal := ctrler.proposalLedger.Set
	setProposal = ctrler.proposalLedger.SetFinality
'
run V18 V "stake BeginBlock: missed-block bookkeeping through Get" $STK 1 'delegatee, xerr := ctrler.delegateeLedger.GetFinality(ledger.ToLedgerKey(vote.Validator.Address))' 'delegatee, xerr := ctrler.delegateeLedger.Get(ledger.ToLedgerKey(vote.Validator.Address))'
run V19 V "finality_ledger SetFinality: also writes the mempool overlay" ledger/finality_ledger.go 1 '	ledger.finalityItems.setGotItem(item)
	return nil' '	ledger.finalityItems.setGotItem(item)
	ledger.SimpleLedger.cachedItems.setGotItem(item)
	return nil'
run V20 V "deliverTxSync: NewTrxContext(…, false, …)" node/app.go 1 '		true,
		func(_txctx *rctypes.TrxContext) xerrors.XError {
			_txctx.TxIdx = ctrler.nextBlockCtx.TxsCnt()' '		false,
		func(_txctx *rctypes.TrxContext) xerrors.XError {
			_txctx.TxIdx = ctrler.nextBlockCtx.TxsCnt()'

echo "---- (ii-b) persistence mutations (persist_sites must fail)"
run P1 P "stake Commit: reward hash persisted every block" $STK 1 '	if v0%ctrler.rwdLedgUpInterval == 0 {' '	{'
run P2 P "stake Commit: persists ctrler.lastRwdHash instead of h2" $STK 1 'PutLastRewardHash(h2)' 'PutLastRewardHash(ctrler.lastRwdHash)'
run P3 P "stake Commit: persists a slimmed validator-set copy" $STK 1 'json.Marshal(ctrler.lastValidators)' 'json.Marshal(ctrler.lastValidators[:libs.MIN(len(ctrler.lastValidators), 1)])'
run P4 P "stake Commit: validator set persisted only when 'dirty'" $STK 1 '	} else if err := ctrler.rwdHashDB.PutLastValidators(bz); err != nil {' '	} else if len(bz) == 2 {
	} else if err := ctrler.rwdHashDB.PutLastValidators(bz); err != nil {'
run P5 P "RigoApp.Commit: block height persisted from ver1" node/app.go 1 'ctrler.metaDB.PutLastBlockHeight(ver0)' 'ctrler.metaDB.PutLastBlockHeight(ver1)'
run P6 P "MetaDB.PutLastBlockContext: early exit when unchanged (cache)" ctrlers/types/meta_db.go 1 '	return stdb.put(keyBlockContext, bz)' '	if string(stdb.getCache(keyBlockContext)) == string(bz) {
		return nil
	}
	return stdb.put(keyBlockContext, bz)'
run P7 P "EVM Commit: height->root record written for the previous height" ctrlers/vm/evm/ctrler.go 1 'batch.Set(blockKey(ctrler.lastBlockHeight), ctrler.lastRootHash)' 'batch.Set(blockKey(ctrler.lastBlockHeight-1), ctrler.lastRootHash)'

echo "---- (iii) harmless rewrites (nothing may be flagged)"
run H1 H "gov doPunish: local slashedPower renamed" $GOV 1 'slashedPower := int64(0)' 'slashedSum := int64(0)' $GOV 1 'slashedPower += slashed' 'slashedSum += slashed' $GOV 1 'return slashedPower, nil' 'return slashedSum, nil'
run H2 H "gov execVoting: the two default assignments swapped" $GOV 1 '	getProposal := ctrler.proposalLedger.Get
	setProposal := ctrler.proposalLedger.Set
' '	setProposal := ctrler.proposalLedger.Set
	getProposal := ctrler.proposalLedger.Get
'
run H3 H "stake doPunish: log line added" $STK 1 '	// Punish the delegators as well as validator. issue #51
' '	ctrler.logger.Debug("punish", "address", evi.Validator.Address)
	// Punish the delegators as well as validator. issue #51
'
run H4 H "stake Commit: log line before the reward-hash write; local renamed" $STK 1 '		_ = ctrler.rwdHashDB.PutLastRewardHash(h2)' '		ctrler.logger.Debug("reward hash", "version", v0)
		_ = ctrler.rwdHashDB.PutLastRewardHash(h2)' $STK 1 'h0, v0, xerr := ctrler.delegateeLedger.Commit()' 'hD, v0, xerr := ctrler.delegateeLedger.Commit()' $STK 1 'crypto.DefaultHash(h0, h1, ctrler.lastRwdHash)' 'crypto.DefaultHash(hD, h1, ctrler.lastRwdHash)'
run H5 H "stake exeUnstaking: exec overrides reordered inside the branch" $STK 1 '		getDelegatee = ctrler.delegateeLedger.GetFinality
		setUpdateDelegatee = ctrler.delegateeLedger.SetFinality
		delDelegatee = ctrler.delegateeLedger.DelFinality' '		delDelegatee = ctrler.delegateeLedger.DelFinality
		setUpdateDelegatee = ctrler.delegateeLedger.SetFinality
		getDelegatee = ctrler.delegateeLedger.GetFinality'
run H6 H "account receiver renamed in findAccount (ctrler -> ac)" $ACC 1 'func (ctrler *AcctCtrler) findAccount(addr types.Address, exec bool) *atypes.Account {
	k := ledger.ToLedgerKey(addr)

	fn := ctrler.acctLedger.Get
	if exec {
		fn = ctrler.acctLedger.GetFinality' 'func (ac *AcctCtrler) findAccount(addr types.Address, exec bool) *atypes.Account {
	k := ledger.ToLedgerKey(addr)

	fn := ac.acctLedger.Get
	if exec {
		fn = ac.acctLedger.GetFinality'
run H7 H "stake Query(reward): local handle atledger renamed" ctrlers/stake/query.go 1 '		atledger, xerr := ctrler.rewardLedger.ImmutableLedgerAt(req.Height, 0)' '		rwdAt, xerr := ctrler.rewardLedger.ImmutableLedgerAt(req.Height, 0)' ctrlers/stake/query.go 1 'rwd, xerr := atledger.Read(' 'rwd, xerr := rwdAt.Read('
run H8 H "stake BeginBlock: historical handle renamed (a reviewed exception)" $STK 1 'immuDelegateeLedger, xerr := ctrler.delegateeLedger.ImmutableLedgerAt(heightOfPower, 128)' 'oldDelegatees, xerr := ctrler.delegateeLedger.ImmutableLedgerAt(heightOfPower, 128)' $STK 1 'delegatee, xerr := immuDelegateeLedger.Get(ledger.ToLedgerKey(vote.Validator.Address))' 'delegatee, xerr := oldDelegatees.Get(ledger.ToLedgerKey(vote.Validator.Address))'
run H9 H "evm Commit: batch variable renamed" ctrlers/vm/evm/ctrler.go 1 '	batch := ctrler.metadb.NewBatch()
	batch.Set(lastBlockHeightKey, []byte(strconv.FormatInt(ctrler.lastBlockHeight, 10)))
	batch.Set(blockKey(ctrler.lastBlockHeight), ctrler.lastRootHash)
	batch.WriteSync()
	batch.Close()' '	b := ctrler.metadb.NewBatch()
	b.Set(lastBlockHeightKey, []byte(strconv.FormatInt(ctrler.lastBlockHeight, 10)))
	b.Set(blockKey(ctrler.lastBlockHeight), ctrler.lastRootHash)
	b.WriteSync()
	b.Close()'

echo "----"
echo "rows as expected: $PASS, not as expected: $FAILN"
[ "$FAILN" = 0 ]
