package main

// Expectation files /verif/expect/<group>.json.
//
// Structured groups:  {"_about": "...", "facts": <same shape as the extracted facts, any object
//                      may carry extra "note"/"class"/"lemma" keys that are ignored when comparing>}
// Inventory groups:   {"_about": "...", "sites": [{"pkg","func","kind","detail","count",
//                      "class": "...", "note": "..."}]}
// A site whose class is empty or UNREVIEWED is a problem: -update-expect records new sites that
// way so that a regenerated file cannot pass before a human classified the new entries.

import (
	"bytes"
	"encoding/json"
	"fmt"
	"os"
	"path/filepath"
	"sort"
	"strings"
)

var annotationKeys = map[string]bool{"note": true, "class": true, "lemma": true, "_about": true, "why": true}

func normalize(v interface{}) interface{} {
	bz, err := json.Marshal(v)
	if err != nil {
		panic(err)
	}
	var out interface{}
	dec := json.NewDecoder(bytes.NewReader(bz))
	dec.UseNumber()
	if err := dec.Decode(&out); err != nil {
		panic(err)
	}
	return nullsToLists(out)
}

// nil slices marshal as null; all nullable facts are lists.
func nullsToLists(v interface{}) interface{} {
	switch x := v.(type) {
	case nil:
		return []interface{}{}
	case map[string]interface{}:
		for k, e := range x {
			x[k] = nullsToLists(e)
		}
	case []interface{}:
		for i, e := range x {
			x[i] = nullsToLists(e)
		}
	}
	return v
}

func readJSON(path string) (map[string]interface{}, error) {
	bz, err := os.ReadFile(path)
	if err != nil {
		return nil, err
	}
	var out map[string]interface{}
	dec := json.NewDecoder(bytes.NewReader(bz))
	dec.UseNumber()
	if err := dec.Decode(&out); err != nil {
		return nil, fmt.Errorf("%s: %v", path, err)
	}
	return out, nil
}

func writeJSON(path string, v interface{}) error {
	var buf bytes.Buffer
	enc := json.NewEncoder(&buf)
	enc.SetEscapeHTML(false)
	enc.SetIndent("", " ")
	if err := enc.Encode(v); err != nil {
		return err
	}
	return writeIfChanged(path, buf.Bytes())
}

func writeIfChanged(path string, content []byte) error {
	if old, err := os.ReadFile(path); err == nil && bytes.Equal(old, content) {
		return nil
	}
	if err := os.MkdirAll(filepath.Dir(path), 0o755); err != nil {
		return err
	}
	tmp := fmt.Sprintf("%s.%d.tmp", path, os.Getpid())
	if err := os.WriteFile(tmp, content, 0o644); err != nil {
		return err
	}
	return os.Rename(tmp, path)
}

func short(v interface{}) string {
	var buf bytes.Buffer
	enc := json.NewEncoder(&buf)
	enc.SetEscapeHTML(false)
	_ = enc.Encode(v)
	s := strings.TrimSpace(buf.String())
	if len(s) > 160 {
		s = s[:160] + "…"
	}
	return s
}

// label of a list element for messages / note carrying
func elemLabel(v interface{}) string {
	if m, ok := v.(map[string]interface{}); ok {
		for _, k := range []string{"name", "field", "to", "call", "if"} {
			if s, ok := m[k].(string); ok {
				return s
			}
		}
		if t, ok := m["types"]; ok {
			return short(t)
		}
	}
	return ""
}

// diff compares expected (with annotations) against actual; problems are appended.
func diff(path string, exp, act interface{}, problems *[]string) {
	if len(*problems) > 40 {
		return
	}
	switch e := exp.(type) {
	case map[string]interface{}:
		a, ok := act.(map[string]interface{})
		if !ok {
			*problems = append(*problems, fmt.Sprintf("%s: expected an object, found %s", path, short(act)))
			return
		}
		var keys []string
		for k := range e {
			if !annotationKeys[k] {
				keys = append(keys, k)
			}
		}
		sort.Strings(keys)
		for _, k := range keys {
			av, ok := a[k]
			if !ok {
				*problems = append(*problems, fmt.Sprintf("%s.%s: expected %s, now missing", path, k, short(e[k])))
				continue
			}
			diff(path+"."+k, e[k], av, problems)
		}
		var extra []string
		for k := range a {
			if _, ok := e[k]; !ok && !annotationKeys[k] {
				extra = append(extra, k)
			}
		}
		sort.Strings(extra)
		for _, k := range extra {
			*problems = append(*problems, fmt.Sprintf("%s.%s: not in the expectation, now %s", path, k, short(a[k])))
		}
	case []interface{}:
		a, ok := act.([]interface{})
		if !ok {
			if act == nil && len(e) == 0 {
				return
			}
			*problems = append(*problems, fmt.Sprintf("%s: expected a list, found %s", path, short(act)))
			return
		}
		if len(a) != len(e) {
			var el, al []string
			for _, x := range e {
				el = append(el, elemLabelOr(x))
			}
			for _, x := range a {
				al = append(al, elemLabelOr(x))
			}
			*problems = append(*problems, fmt.Sprintf("%s: expected %d entries [%s], found %d [%s]", path, len(e),
				strings.Join(el, ", "), len(a), strings.Join(al, ", ")))
			return
		}
		for i := range e {
			l := elemLabel(e[i])
			p := fmt.Sprintf("%s[%d]", path, i)
			if l != "" {
				p += "(" + l + ")"
			}
			diff(p, e[i], a[i], problems)
		}
	default:
		if act == nil && exp == nil {
			return
		}
		if fmt.Sprint(exp) != fmt.Sprint(act) || fmt.Sprintf("%T", exp) != fmt.Sprintf("%T", act) {
			*problems = append(*problems, fmt.Sprintf("%s: expected %s, found %s", path, short(exp), short(act)))
		}
	}
}

func elemLabelOr(v interface{}) string {
	if l := elemLabel(v); l != "" {
		return l
	}
	return short(v)
}

// carry copies annotations from the old expectation tree into the freshly extracted one.
func carry(old, neu interface{}) {
	switch n := neu.(type) {
	case map[string]interface{}:
		o, ok := old.(map[string]interface{})
		if !ok {
			return
		}
		for k, v := range o {
			if annotationKeys[k] {
				n[k] = v
			} else if nv, ok := n[k]; ok {
				carry(v, nv)
			}
		}
	case []interface{}:
		o, ok := old.([]interface{})
		if !ok {
			return
		}
		byLabel := map[string]interface{}{}
		for _, x := range o {
			if l := elemLabel(x); l != "" {
				if _, dup := byLabel[l]; !dup {
					byLabel[l] = x
				}
			}
		}
		for i, x := range n {
			if l := elemLabel(x); l != "" {
				if ox, ok := byLabel[l]; ok {
					carry(ox, x)
					continue
				}
			}
			if i < len(o) && elemLabel(x) == "" {
				carry(o[i], x)
			}
		}
	}
}

type Check struct {
	OK       bool     `json:"ok"`
	Problems []string `json:"problems"`
	Summary  string   `json:"summary"`
}

// checkStructured compares facts with expect/<group>.json (or rewrites it with -update-expect).
func checkStructured(dir, group string, facts interface{}, hard []string, update bool, about string) Check {
	path := filepath.Join(dir, group+".json")
	act := normalize(facts)
	problems := append([]string{}, hard...)
	old, err := readJSON(path)
	if update {
		out := map[string]interface{}{"_about": about, "facts": act}
		if err == nil {
			if a, ok := old["_about"]; ok {
				out["_about"] = a
			}
			carry(old["facts"], act)
		}
		if err := writeJSON(path, out); err != nil {
			problems = append(problems, "cannot write "+path+": "+err.Error())
		}
		return Check{OK: len(problems) == 0, Problems: problems}
	}
	if err != nil {
		problems = append(problems, "no expectation: "+err.Error()+" (run rigoextract -update-expect and review)")
		return Check{OK: false, Problems: problems}
	}
	diff(group, old["facts"], act, &problems)
	return Check{OK: len(problems) == 0, Problems: problems}
}

type expSite struct {
	Pkg    string `json:"pkg"`
	Func   string `json:"func"`
	Kind   string `json:"kind"`
	Detail string `json:"detail"`
	Count  int    `json:"count"`
	Class  string `json:"class"`
	Note   string `json:"note,omitempty"`
}

func (s expSite) Key() string { return s.Pkg + " | " + s.Func + " | " + s.Kind + " | " + s.Detail }

type expSites struct {
	About string    `json:"_about"`
	Sites []expSite `json:"sites"`
}

func checkSites(dir, file string, sites []Site, update bool, about string) ([]string, map[string]int) {
	path := filepath.Join(dir, file+".json")
	var old expSites
	bz, err := os.ReadFile(path)
	if err == nil {
		err = json.Unmarshal(bz, &old)
	}
	var problems []string
	classes := map[string]int{}
	if update {
		byKey := map[string]expSite{}
		if err == nil {
			for _, s := range old.Sites {
				byKey[s.Key()] = s
			}
		}
		out := expSites{About: about}
		if old.About != "" {
			out.About = old.About
		}
		for _, s := range sites {
			e := expSite{Pkg: s.Pkg, Func: s.Func, Kind: s.Kind, Detail: s.Detail, Count: s.Count, Class: "UNREVIEWED"}
			if o, ok := byKey[e.Key()]; ok {
				e.Class, e.Note = o.Class, o.Note
			}
			out.Sites = append(out.Sites, e)
		}
		if out.Sites == nil {
			out.Sites = []expSite{}
		}
		if err := writeJSON(path, out); err != nil {
			problems = append(problems, "cannot write "+path+": "+err.Error())
		}
		old = out
	} else if err != nil {
		return []string{"no expectation: " + err.Error() + " (run rigoextract -update-expect and review)"}, classes
	}
	exp := map[string]expSite{}
	for _, s := range old.Sites {
		if _, dup := exp[s.Key()]; dup {
			problems = append(problems, "expectation lists the site twice: "+s.Key())
		}
		exp[s.Key()] = s
	}
	seen := map[string]bool{}
	for _, s := range sites {
		k := s.Key()
		seen[k] = true
		e, ok := exp[k]
		if !ok {
			problems = append(problems, fmt.Sprintf("NEW site without expectation: %s (x%d, first at %s)", k, s.Count, s.Pos))
			continue
		}
		if e.Count != s.Count {
			problems = append(problems, fmt.Sprintf("site count changed: %s expected x%d, found x%d (first at %s)", k, e.Count, s.Count, s.Pos))
		}
		c := strings.TrimSpace(e.Class)
		if c == "" || strings.HasPrefix(c, "UNREVIEWED") {
			problems = append(problems, "site is not classified yet: "+k)
		}
		cl := c
		if i := strings.Index(cl, ":"); i >= 0 {
			cl = cl[:i]
		}
		classes[cl]++
	}
	var gone []string
	for k := range exp {
		if !seen[k] {
			gone = append(gone, k)
		}
	}
	sort.Strings(gone)
	for _, k := range gone {
		problems = append(problems, "expected site vanished (the lemma covering it no longer has a counterpart): "+k)
	}
	return problems, classes
}

func classSummary(classes map[string]int) string {
	var ks []string
	for k := range classes {
		ks = append(ks, k)
	}
	sort.Strings(ks)
	var parts []string
	for _, k := range ks {
		parts = append(parts, fmt.Sprintf("%d %s", classes[k], k))
	}
	return strings.Join(parts, ", ")
}
