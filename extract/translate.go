package main

// Go -> Lean translation of a reviewed whitelist of pure functions (expect/funcs.json) into
// lean/Rigo/Generated/Funcs.lean (namespace Rigo.Gen).  docs/TRANSLATOR.md is the brief.
//
// Design: the translation is syntax directed and targets Lean's `do` notation in the monad
// `G α := Except String α`, so that Go's statement forms (mutable locals, early return, range loops
// with break/continue, nested ifs) map one-to-one and the trusted part is the expression semantics:
//
//   int, int8..int64        -> Int; + - * are the unbounded Int operations (int64 overflow is NOT
//                              modelled: the number of such sites is printed with every function);
//                              / and % are Go's truncated division as the partial operations
//                              gdiv / gmod (division by zero = Go panic = `throw`)
//   uint64                  -> Nat, + - * reduced mod 2^64
//   int64(u) / uint64(i)    -> wrapI64 / wrapU64 (two's complement reinterpretation)
//   *uint256.Int            -> Nat below 2^256; Add/Sub/Mul -> wadd/wsub/wmul of Rigo.Types, Div/Mod -> Nat / and %
//                              (uint256 defines x/0 = 0, as Lean does), Cmp/Sign/Lt/Gt/Eq/IsZero/Uint64/IsUint64
//   []byte, named byte slices -> Hex (lower-case hex string); bytes.Compare -> cmpBytes; nil = empty = ""
//   []T, []*T               -> List T (value semantics; nil = empty); xs[i], xs[a:b] are the partial
//                              operations gidx / gslice (out of range = Go panic = `throw`; cap = len)
//   *Struct                 -> the structure named in funcs.json (pointer parameters are non-nil values);
//                              a pointer variable / result that is assigned, returned or compared with
//                              nil is an `Option`, and reading a field of it is the partial operation gderef
//   error, XError           -> Option String (none = nil; the label is the first string literal of the
//                              constructing call or the name of the error variable)
//   panic(..)               -> throw "panic"
//   pointer receivers / parameters whose fields are assigned are threaded: the function returns
//   (updated parameters..., results...)
//
// Round 2 (translate_alias.go, docs in the generated file's header):
//   map[string]V            -> GMap V (association list; lookup mapGet, m[k] = v mapSet, delete mapDel,
//                              v, ok := m[k]); `for range` over a map only when the body is a commutative
//                              accumulation (orderDependent), otherwise refused
//   p := X.F[i] / X.F[k] / i, p := X.finder(..) with p written through afterwards
//                           -> captured index / key + write-back (gset / mapSet) after every write; refused
//                              when the container is rebuilt before a later write, when another element
//                              copy is read after the first write, or when a callee gets both p and X.F
//   sort.Sort(T(x))         -> x := srt_T.sort x with an explicit parameter srt_T : SortOf T_Less
//   calls listed under "oracles" (interface calls, signature check) -> explicit parameters
//   embedded structs        -> nested structures (promoted fields = field paths); "optional" pointer
//                              fields -> Option; "wrap" pointer fields held as one component;
//                              "paramTypes": a second Lean view of a Go struct for one parameter
//   variadic functions      -> the slice; f(xs...) passes it on
//   x.F.m() with F a pointer field and m updating its receiver -> x := { x with f := .. } (trusted:
//                              the object behind a pointer field is not shared with another field)
//
// Round 3 (translate_ctrl.go): the controllers' stateful functions: ledger fields -> GLedger, function
// variables over method values, type assertions on "sums" interfaces, error comparison, "oracleFuncs",
// iteration callbacks as loops, promoted methods, "detach" (see the header of translate_ctrl.go).
//
// Everything else is *unsupported*: the function is then emitted as `def f : Unsupported := ...`
// (so that the equality proofs in RigoProofs/GenFuncs*.lean do not compile) and reported in the
// `funcs` check.  Value semantics is only sound without aliasing, so the translator refuses
// pointer copies that could alias a mutated object (see checkAliasing).

import (
	"encoding/json"
	"fmt"
	"go/ast"
	"go/types"
	"os"
	"path/filepath"
	"sort"
	"strings"
)

type funcSpec struct {
	Pkg     string            `json:"pkg"`
	Recv    string            `json:"recv"`
	Name    string            `json:"name"`
	Lean    string            `json:"lean"`
	Model   string            `json:"model"`
	Theorem string            `json:"theorem"`
	Owner   string            `json:"owner,omitempty"`
	Fuel    map[string]string `json:"fuel,omitempty"` // "loop1" -> Lean expression (Int) bounding the iterations of the 1st non-range loop
	Note    string            `json:"note,omitempty"`
	// Oracles: source text of a call the translator cannot follow (an interface call, a signature
	// check ...) -> name of the explicit parameter of the generated function that stands for its
	// result.  Reviewed: the call must be free of side effects on the translated state.
	Oracles map[string]string `json:"oracles,omitempty"`
	// ParamTypes: parameter name -> key of funcs.json/types to use for it instead of the key of
	// its Go type (a second Lean view of the same Go struct, e.g. GovParams with nil-able fields)
	ParamTypes map[string]string `json:"paramTypes,omitempty"`
	// CondAssign: emit `if c { x.f = e }` (no else, one field assignment, e free of panics) as the
	// field-level conditional `x := { x with f := if c then e else x.f }` instead of a `do`-level if:
	// the same semantics without a join point per statement (keeps long sequences of such
	// statements, e.g. MergeGovParams, tractable for the proofs)
	CondAssign bool `json:"condAssign,omitempty"`
	// WrapArith: translate + - * on int / int64 (int32) of this function with Go's wrap-around
	// (wrapI64 / wrapI32 around every such operation) instead of the default unbounded Int
	WrapArith bool `json:"wrapArith,omitempty"`
	// OracleFuncs: source text of the *function* of a call the translator cannot follow (json.Unmarshal)
	// -> name of an explicit function parameter and the indices of the call's arguments it is applied to
	OracleFuncs map[string]oracleFn `json:"oracleFuncs,omitempty"`
	// Detach: local pointer variable -> source text of a call after which the object it points to is no
	// longer an element of the container it was taken from (reviewed; the write-back stops there)
	Detach map[string]string `json:"detach,omitempty"`
	// Persist (round 4): source text of a call that writes its receiver to durable storage (Save) -> ghost
	// field of the root variable that receives the value written (the durable copy)
	Persist map[string]string `json:"persist,omitempty"`
}

type typeSpec struct {
	Lean     string            `json:"lean"`
	Generate bool              `json:"generate,omitempty"`
	Fields   map[string]string `json:"fields"`
	// Optional: pointer fields that may be nil (Lean type `Option T`)
	Optional []string `json:"optional,omitempty"`
	// Wrap: pointer-to-struct fields whose Lean field holds the single component `proj` of the
	// pointed-to (generated) structure: read as `(mk x.f)`, written as `x.f := v.proj`
	Wrap map[string]wrapSpec `json:"wrap,omitempty"`
	// Ghost (round 4): extra fields of the generated structure that have no Go counterpart (name -> key of
	// funcs.json/types): the durable copy written by a "persist" call
	Ghost map[string]string `json:"ghost,omitempty"`
}

type wrapSpec struct {
	Mk   string `json:"mk"`
	Proj string `json:"proj"`
}

func (ts typeSpec) isOptional(goField string) bool {
	for _, o := range ts.Optional {
		if o == goField {
			return true
		}
	}
	return false
}

type externSpec struct {
	Lean string `json:"lean"` // Lean function applied to the translated arguments
	Def  string `json:"def"`  // its definition, copied into the generated file
}

type funcsExpect struct {
	About   string                `json:"_about"`
	Types   map[string]typeSpec   `json:"types"`
	Externs map[string]externSpec `json:"externs"`
	// Sums: Go interface -> generated inductive over the listed dynamic types (type assertions)
	Sums  map[string]sumSpec `json:"sums,omitempty"`
	Funcs []funcSpec         `json:"funcs"`
}

// owners: the owning properties ("C16" or "C16,C03")
func (s funcSpec) owners() []string {
	var out []string
	for _, o := range strings.Split(s.Owner, ",") {
		if o = strings.TrimSpace(o); o != "" {
			out = append(out, o)
		}
	}
	return out
}

func (s funcSpec) key() string {
	if s.Recv == "" {
		return s.Pkg + ":" + s.Name
	}
	if strings.HasPrefix(s.Recv, "*") {
		return s.Pkg + ":(" + s.Recv + ")." + s.Name
	}
	return s.Pkg + ":" + s.Recv + "." + s.Name
}

type translator struct {
	pr        *Prog
	exp       funcsExpect
	done      map[*types.Func]*trFunc
	order     []*trFunc
	globals   map[*types.Var]string // package-level values used by translated functions -> Lean name
	globDef   []string
	externs   map[string]bool
	usedTy    map[string]bool
	extPkgs   map[string]*types.Package
	ledgerCtx int // > 0 while a function / struct of package ledger is translated (translate_ledger.go)
}

const funcsPrelude = `/-
  GENERATED by /verif/extract (translate.go) from the working tree of rigo-go -- do not edit.
  Lean transcriptions of the whitelisted pure Go functions of expect/funcs.json.  The equality
  theorems with the hand-written model are in RigoProofs/GenFuncs*.lean (namespace Rigo.GenEq).

  Conventions (extract/translate.go): int/int64 -> Int (unbounded: int64 overflow of + - * is not
  modelled), uint64 -> Nat mod 2^64, *uint256.Int -> Nat < 2^256 with the wrapping operations of
  Rigo.Types, byte slices -> Hex (nil = empty = ""), slices -> List (nil = empty, cap = len),
  pointers to structs -> values (Option when nil is possible), errors -> Option String,
  Go panics (panic, x/0, out-of-range index or slice, nil dereference) -> throw in G.
  map[string]V -> GMap V (association list; only order-independent 'for range' loops over a map are
  translated), a pointer to a slice / map element that is written through -> index / key + write-back
  (gset / mapSet) after every write, sort.Sort(T(x)) -> an explicit parameter 'SortOf T.Less',
  calls listed under "oracles" in funcs.json (interface calls, signature check) -> explicit parameters.
  Trusted besides the reading of Go: distinct pointer fields / map entries / slice elements of the
  *inputs* of a function do not alias each other.
  Round 3 (controllers, translate_ctrl.go): a ledger field 'ledger.IFinalityLedger[T]' -> 'GLedger T'
  (below): Get/GetFinality, Set/SetFinality (under the translated 'Key()' of the item), Del/DelFinality,
  CancelSet(Finality) -> GLedger.get / set / del / cancelSet at the view false / true,
  IterateReadAll(Finality)Items(callback) -> a 'for' over GLedger.items with the callback inlined
  ('return nil' = continue, 'return err' = stop with that error); a function variable switched between
  two method values ('get := l.Get; if ctx.Exec { get = l.GetFinality }') -> a Bool (the view, or the
  choice between two translated methods); 'x.(*T)' on an interface listed under "sums" -> a generated
  inductive and its projections (the one-result form panics on a mismatch); 'err == ErrX' -> equality
  of the labels; calls under "oracleFuncs" -> explicit function parameters; logger calls are dropped
  (with the evaluation of their arguments); a nil test of a pointer field that funcs.json does not
  list as optional is taken as 'never nil' (counted in the doc comment of the function).
  Trusted for the ledger part: a value handed out by a ledger read is a private copy whose changes
  reach the ledger through Set only (the translator refuses a change of an object after it was handed
  to Set); reads fail with ErrNotFoundResult only; Set / CancelSet never fail; "detach" entries of
  funcs.json (reviewed): after the named call a pointer into a container is a detached copy.
-/
import Rigo.Types
import Rigo.Ledger.Impl

namespace Rigo.Gen

/-- result of a translated function: the value, or the Go panic -/
abbrev G (α : Type) := Except String α

/-- Go's ` + "`/`" + ` on signed integers (truncated); division by zero panics -/
def gdiv (a b : Int) : G Int := if b = 0 then throw "division by zero" else pure (Int.tdiv a b)
/-- Go's ` + "`%`" + ` on signed integers (truncated); division by zero panics -/
def gmod (a b : Int) : G Int := if b = 0 then throw "division by zero" else pure (Int.tmod a b)
/-- Go's ` + "`/`" + ` on unsigned integers; division by zero panics -/
def gdivN (a b : Nat) : G Nat := if b = 0 then throw "division by zero" else pure (a / b)
/-- Go's ` + "`%`" + ` on unsigned integers; division by zero panics -/
def gmodN (a b : Nat) : G Nat := if b = 0 then throw "division by zero" else pure (a % b)
/-- ` + "`xs[i]`" + `; an index outside ` + "`0 ≤ i < len xs`" + ` panics -/
def gidx {α : Type} (xs : List α) (i : Int) : G α :=
  if i < 0 then throw "index out of range" else
  match xs[i.toNat]? with
  | some x => pure x
  | none => throw "index out of range"
/-- ` + "`xs[a:b]`" + `; bounds outside ` + "`0 ≤ a ≤ b ≤ len xs`" + ` panic (capacity = length) -/
def gslice {α : Type} (xs : List α) (a b : Int) : G (List α) :=
  if a < 0 ∨ b < a ∨ (xs.length : Int) < b then throw "slice bounds out of range"
  else pure ((xs.take b.toNat).drop a.toNat)
/-- field access through a pointer that may be nil -/
def gderef {α : Type} (p : Option α) : G α :=
  match p with
  | some x => pure x
  | none => throw "nil pointer dereference"
/-- ` + "`bytes.Compare`" + ` on lower-case hex strings (lexicographic, as on the bytes) -/
def cmpBytes (a b : Hex) : Int := if a < b then -1 else if a = b then 0 else 1
/-- ` + "`uint256.Int.Cmp`" + ` -/
def cmp256 (a b : Nat) : Int := if a < b then -1 else if a = b then 0 else 1
/-- ` + "`uint256.Int.Sign`" + `: the value as a two's complement number -/
def sign256 (a : Nat) : Int := if a = 0 then 0 else if a ≥ two255 then -1 else 1
/-- ` + "`int64(u)`" + ` for an unsigned 64-bit value -/
def wrapI64 (x : Int) : Int := if x % (two64 : Int) < (two63 : Int) then x % (two64 : Int) else x % (two64 : Int) - (two64 : Int)
/-- ` + "`uint64(i)`" + ` for a signed value -/
def wrapU64 (x : Int) : Nat := (x % (two64 : Int)).toNat
/-- ` + "`len`" + ` of a byte slice held as hex digits -/
def hexLen (h : Hex) : Int := (byteLen h : Int)

/-- 'xs[i] = x' for a slice element reached through a pointer: an index outside '0 ≤ i < len xs' panics -/
def gset {α : Type} (xs : List α) (i : Int) (x : α) : G (List α) :=
  if i < 0 ∨ (xs.length : Int) ≤ i then throw "index out of range" else pure (xs.set i.toNat x)

/-- Go 'map[string]V': an association list (the keys are pairwise distinct in every map built by
    'mapSet' from the empty map; new keys are inserted in key order) -/
abbrev GMap (α : Type) := List (String × α)
/-- 'm[k]' (second component of 'v, ok := m[k]': 'isSome') -/
def mapGet {α : Type} (m : GMap α) (k : String) : Option α := (m.find? (fun e => e.1 == k)).map (·.2)
/-- insertion of a new key in key order -/
def mapIns {α : Type} : GMap α → String → α → GMap α
  | [], k, v => [(k, v)]
  | e :: m, k, v => if k < e.1 then (k, v) :: e :: m else e :: mapIns m k v
/-- 'm[k] = v': the entry is replaced where it is, a new key is inserted in key order -/
def mapSet {α : Type} (m : GMap α) (k : String) (v : α) : GMap α :=
  if m.any (fun e => e.1 == k) then m.map (fun e => if e.1 == k then (e.1, v) else e) else mapIns m k v
/-- 'delete(m, k)' -/
def mapDel {α : Type} (m : GMap α) (k : String) : GMap α := m.filter (fun e => !(e.1 == k))

/-- the contract of 'sort.Sort(x)' for the order 'less xs i j' (the translated 'Less' method, which
    reads 'xs[i]' and 'xs[j]'): the result is a permutation in which no later element is 'Less'
    than an earlier one.  Functions that sort take such a sort as an explicit parameter: Go's
    'sort.Sort' is not stable, so nothing else may be assumed about it. -/
structure SortOf {α : Type} (less : List α → Int → Int → G Bool) where
  sort : List α → List α
  perm : ∀ xs, (sort xs).Perm xs
  sorted : ∀ xs, (sort xs).Pairwise (fun a b => less [a, b] 1 0 ≠ .ok true)

/-- a whitelisted function that uses a construct outside the supported subset -/
structure Unsupported where
  why : List String
def unsupported (why : List String) : Unsupported := ⟨why⟩
`

func loadFuncsExpect(dir string) (funcsExpect, error) {
	var fe funcsExpect
	bz, err := os.ReadFile(filepath.Join(dir, "funcs.json"))
	if err != nil {
		return fe, err
	}
	if err := json.Unmarshal(bz, &fe); err != nil {
		return fe, fmt.Errorf("funcs.json: %v", err)
	}
	return fe, nil
}

// translateFuncs returns the generated Lean file, the facts (per function verdicts) and the problems.
func (pr *Prog) translateFuncs(expectDir string) (string, M, []string) {
	text, facts, problems, _, _ := pr.translateFuncsFull(expectDir)
	return text, facts, problems
}

// translateFuncsFull additionally returns the problems per owning property and the text of the
// theorem-presence check file (`#check` of every theorem named in funcs.json).
func (pr *Prog) translateFuncsFull(expectDir string) (string, M, []string, map[string][]string, string) {
	fe, err := loadFuncsExpect(expectDir)
	var problems []string
	byOwner := map[string][]string{}
	if err != nil {
		problems = append(problems, "no whitelist: "+err.Error())
	}
	for _, s := range fe.Funcs {
		for _, o := range s.owners() {
			if byOwner[o] == nil {
				byOwner[o] = []string{}
			}
		}
	}
	tr := &translator{pr: pr, exp: fe, done: map[*types.Func]*trFunc{}, globals: map[*types.Var]string{},
		externs: map[string]bool{}, usedTy: map[string]bool{}}
	var missing []funcSpec
	for _, s := range fe.Funcs {
		n := pr.byKey[s.key()]
		if n == nil || n.Obj == nil {
			problems = append(problems, "whitelisted function not found: "+s.key())
			for _, o := range s.owners() {
				byOwner[o] = append(byOwner[o], "whitelisted function not found: "+s.key())
			}
			missing = append(missing, s)
			continue
		}
		tr.get(n.Obj)
	}
	var b strings.Builder
	b.WriteString(funcsPrelude)
	b.WriteString(ctrlPrelude)
	b.WriteString(ledgerPrelude)

	// generated structures (in the order of the sorted Go type names)
	var tnames []string
	for k, ts := range fe.Types {
		if ts.Generate {
			tnames = append(tnames, k)
		}
	}
	for k := range fe.Sums {
		tnames = append(tnames, k)
	}
	sort.Strings(tnames)
	tnames = tr.depOrder(tnames)
	for _, k := range tnames {
		if ss, isSum := fe.Sums[k]; isSum {
			st, probs := tr.genSum(k, ss)
			for _, p := range probs {
				problems = append(problems, "sum "+k+": "+p)
			}
			b.WriteString("\n" + st)
			continue
		}
		ts := fe.Types[k]
		if strings.HasPrefix(k, "ledger.") {
			tr.ledgerCtx++
		}
		st, probs := tr.genStruct(k, ts)
		if strings.HasPrefix(k, "ledger.") {
			tr.ledgerCtx--
		}
		for _, p := range probs {
			problems = append(problems, "type "+k+": "+p)
		}
		b.WriteString("\n" + st)
	}
	if len(tr.globDef) > 0 || len(tr.externs) > 0 {
		b.WriteString("\n")
	}
	for _, d := range tr.globDef {
		b.WriteString(d + "\n")
	}
	var exs []string
	for k := range tr.externs {
		exs = append(exs, k)
	}
	sort.Strings(exs)
	for _, k := range exs {
		b.WriteString("/-- reviewed stand-in for `" + k + "` (expect/funcs.json) -/\n" + fe.Externs[k].Def + "\n")
	}
	var list []interface{}
	nOK := 0
	for _, f := range tr.order {
		b.WriteString("\n" + f.text)
		if f.spec == nil {
			continue
		}
		ok := len(f.problems) == 0
		if ok {
			nOK++
		}
		for _, p := range f.problems {
			problems = append(problems, f.spec.key()+": "+p)
			for _, o := range f.spec.owners() {
				byOwner[o] = append(byOwner[o], f.spec.key()+": "+p)
			}
		}
		list = append(list, M{"go": f.spec.key(), "lean": "Rigo.Gen." + f.spec.Lean, "model": f.spec.Model, "theorem": f.spec.Theorem, "owner": f.spec.Owner,
			"ok": ok, "problems": ifaceList(f.problems), "int_arith_sites": f.arith, "signature": f.sigText, "extra_params": extrasJSON(f)})
	}
	for _, s := range missing {
		b.WriteString(fmt.Sprintf("\n/-- `%s` is whitelisted but was not found in the working tree -/\ndef %s : Unsupported := unsupported [\"not found\"]\n", s.key(), s.Lean))
		list = append(list, M{"go": s.key(), "lean": "Rigo.Gen." + s.Lean, "model": s.Model, "theorem": s.Theorem, "owner": s.Owner, "ok": false,
			"problems": []interface{}{"not found"}, "int_arith_sites": 0, "signature": ""})
	}
	b.WriteString("\nend Rigo.Gen\n")
	facts := M{"functions": list, "translated": nOK, "whitelisted": len(fe.Funcs)}
	var cb strings.Builder
	cb.WriteString("/-\n  GENERATED by /verif/extract (translate.go) from expect/funcs.json -- do not edit.\n  Every whitelisted function must have its equality theorem.\n-/\nimport RigoProofs.GenFuncs\n\n")
	for _, s := range fe.Funcs {
		if s.Theorem != "" && s.Theorem != "-" {
			cb.WriteString("#check @" + s.Theorem + "\n")
		} else {
			cb.WriteString("#check (Rigo.Gen.unsupported [\"no theorem for " + s.Lean + "\"] : Nat)\n")
		}
	}
	return b.String(), facts, problems, byOwner, cb.String()
}

// extrasJSON: which call / sort became which explicit parameter of the generated function
func extrasJSON(f *trFunc) []interface{} {
	out := []interface{}{}
	for _, e := range f.extras {
		out = append(out, M{"param": e.name, "type": e.typ, "stands_for": e.origin})
	}
	return out
}

func ifaceList(ss []string) []interface{} {
	out := []interface{}{}
	for _, s := range ss {
		out = append(out, s)
	}
	return out
}

func (tr *translator) specOf(fn *types.Func) *funcSpec {
	n := tr.pr.byObj[fn]
	if n == nil {
		return nil
	}
	for i := range tr.exp.Funcs {
		if tr.exp.Funcs[i].key() == n.Key() {
			return &tr.exp.Funcs[i]
		}
	}
	return nil
}

// get translates fn (memoised); nil when fn is not whitelisted.
func (tr *translator) get(fn *types.Func) *trFunc {
	if f, ok := tr.done[fn]; ok {
		return f
	}
	spec := tr.specOf(fn)
	if spec == nil {
		return nil
	}
	f := newTrFunc(tr, tr.pr.byObj[fn], spec, tr.pr.byObj[fn].Pkg.TypesInfo)
	tr.done[fn] = f // (a recursive reference sees inProgress)
	f.inProgress = true
	saved := tr.ledgerCtx
	if spec.Pkg == "ledger" {
		tr.ledgerCtx = 1
	} else {
		tr.ledgerCtx = 0
	}
	f.translate()
	tr.ledgerCtx = saved
	f.inProgress = false
	tr.order = append(tr.order, f)
	return f
}

// typeKey: "ctrlers/stake.Stake"
func (tr *translator) typeKey(n *types.Named) string {
	o := n.Obj()
	if o.Pkg() == nil {
		return o.Name()
	}
	return tr.pr.qual(o.Pkg()) + "." + o.Name()
}

func isUint256(t types.Type) bool {
	if p, ok := t.(*types.Pointer); ok {
		t = p.Elem()
	}
	n, ok := t.(*types.Named)
	return ok && n.Obj().Name() == "Int" && n.Obj().Pkg() != nil && n.Obj().Pkg().Path() == "github.com/holiman/uint256"
}

func isByteSlice(t types.Type) bool {
	s, ok := t.Underlying().(*types.Slice)
	if !ok {
		return false
	}
	b, ok := s.Elem().Underlying().(*types.Basic)
	return ok && (b.Kind() == types.Uint8)
}

func isErrorType(t types.Type) bool {
	if _, ok := t.Underlying().(*types.Interface); !ok {
		return false
	}
	if n, ok := t.(*types.Named); ok {
		if n.Obj().Name() == "error" && n.Obj().Pkg() == nil {
			return true
		}
		if n.Obj().Name() == "XError" {
			return true
		}
	}
	return false
}

func isStringType(t types.Type) bool {
	b, ok := t.Underlying().(*types.Basic)
	return ok && b.Info()&types.IsString != 0
}

func mapOf(t types.Type) *types.Map {
	if t == nil {
		return nil
	}
	m, _ := t.Underlying().(*types.Map)
	return m
}

func isSyncType(t types.Type) bool {
	if p, ok := t.(*types.Pointer); ok {
		t = p.Elem()
	}
	n, ok := t.(*types.Named)
	return ok && n.Obj().Pkg() != nil && n.Obj().Pkg().Path() == "sync"
}

// structOf: the named struct behind t (through one pointer), or nil
func structOf(t types.Type) *types.Named {
	if p, ok := t.(*types.Pointer); ok {
		t = p.Elem()
	}
	n, ok := t.(*types.Named)
	if !ok {
		return nil
	}
	if _, ok := n.Underlying().(*types.Struct); !ok {
		return nil
	}
	if isUint256(n) || isSyncType(n) {
		return nil
	}
	return n
}

func isStructPtr(t types.Type) bool {
	_, ok := t.(*types.Pointer)
	return ok && structOf(t) != nil
}

type intKind int

const (
	notInt intKind = iota
	sInt
	uInt64
	uIntSmall
)

func intKindOf(t types.Type) intKind {
	b, ok := t.Underlying().(*types.Basic)
	if !ok {
		return notInt
	}
	switch b.Kind() {
	case types.Int, types.Int8, types.Int16, types.Int32, types.Int64, types.UntypedInt:
		return sInt
	case types.Uint64, types.Uint:
		return uInt64
	case types.Uint8, types.Uint16, types.Uint32:
		return uIntSmall
	}
	return notInt
}

// leanType of a Go type (pointers to structs as plain values; Option-ness is decided per variable)
func (tr *translator) leanType(t types.Type) (string, error) {
	if s, ok := tr.ledgerLeanType(t); ok {
		return s, nil
	}
	if isUint256(t) {
		return "Nat", nil
	}
	if isErrorType(t) {
		return "(Option String)", nil
	}
	if isByteSlice(t) {
		return "Hex", nil
	}
	if e := tr.ledgerElem(t); e != nil {
		et, err := tr.leanType(e)
		if err != nil {
			return "", err
		}
		return "(GLedger " + et + ")", nil
	}
	if k := tr.sumKey(t); k != "" {
		return tr.exp.Sums[k].Lean, nil
	}
	if isByteArray(t) {
		return "String", nil
	}
	if n := structOf(t); n != nil {
		k := tr.typeKey(n)
		ts, ok := tr.exp.Types[k]
		if !ok {
			return "", fmt.Errorf("struct type %s has no entry in funcs.json/types", k)
		}
		tr.usedTy[k] = true
		return ts.Lean, nil
	}
	switch u := t.Underlying().(type) {
	case *types.Basic:
		switch intKindOf(t) {
		case sInt:
			return "Int", nil
		case uInt64, uIntSmall:
			return "Nat", nil
		}
		switch u.Kind() {
		case types.Bool, types.UntypedBool:
			return "Bool", nil
		case types.String, types.UntypedString:
			return "String", nil
		}
	case *types.Slice:
		e, err := tr.leanType(u.Elem())
		if err != nil {
			return "", err
		}
		return "(List " + e + ")", nil
	case *types.Pointer:
		return tr.leanType(u.Elem())
	case *types.Map:
		if !isStringType(u.Key()) {
			return "", fmt.Errorf("map with key type %s (only string keys are supported)", tr.pr.typeStr(u.Key()))
		}
		e, err := tr.leanType(u.Elem())
		if err != nil {
			return "", err
		}
		return "(GMap " + e + ")", nil
	}
	return "", fmt.Errorf("type %s is outside the supported subset", tr.pr.typeStr(t))
}

func (tr *translator) zeroValue(t types.Type) (string, error) {
	if s, ok := tr.ledgerZero(t); ok {
		return s, nil
	}
	if isUint256(t) {
		return "", fmt.Errorf("nil *uint256.Int")
	}
	if isErrorType(t) {
		return "none", nil
	}
	if isByteSlice(t) {
		return "\"\"", nil
	}
	if isStructPtr(t) {
		return "none", nil
	}
	switch u := t.Underlying().(type) {
	case *types.Basic:
		switch intKindOf(t) {
		case sInt:
			return "(0 : Int)", nil
		case uInt64, uIntSmall:
			return "(0 : Nat)", nil
		}
		switch u.Kind() {
		case types.Bool:
			return "false", nil
		case types.String:
			return "\"\"", nil
		}
	case *types.Slice:
		return "[]", nil
	case *types.Map:
		return "[]", nil
	}
	return "", fmt.Errorf("no zero value for %s", tr.pr.typeStr(t))
}

// depOrder: the generated structures, each after the generated structures its mapped fields mention
func (tr *translator) depOrder(keys []string) []string {
	isGen := map[string]bool{}
	for _, k := range keys {
		isGen[k] = true
	}
	var out []string
	state := map[string]int{}
	var visit func(k string)
	var deps func(t types.Type, acc *[]string, depth int)
	deps = func(t types.Type, acc *[]string, depth int) {
		if depth > 6 || t == nil {
			return
		}
		if n := structOf(t); n != nil {
			*acc = append(*acc, tr.typeKey(n))
			return
		}
		if k := tr.sumKey(t); k != "" {
			*acc = append(*acc, k)
			return
		}
		if e := tr.ledgerElem(t); e != nil {
			deps(e, acc, depth+1)
			return
		}
		switch u := t.Underlying().(type) {
		case *types.Slice:
			deps(u.Elem(), acc, depth+1)
		case *types.Pointer:
			deps(u.Elem(), acc, depth+1)
		case *types.Map:
			deps(u.Elem(), acc, depth+1)
		}
	}
	visit = func(k string) {
		if state[k] != 0 {
			return
		}
		state[k] = 1
		if ss, isSum := tr.exp.Sums[k]; isSum {
			var vs []string
			for v := range ss.Variants {
				vs = append(vs, v)
			}
			sort.Strings(vs)
			for _, v := range vs {
				if isGen[v] {
					visit(v)
				}
			}
			state[k] = 2
			out = append(out, k)
			return
		}
		base := k
		if j := strings.Index(base, "@"); j >= 0 {
			base = base[:j]
		}
		if i := strings.LastIndex(base, "."); i >= 0 {
			if p := tr.typesPkg(base[:i]); p != nil {
				if obj := p.Scope().Lookup(base[i+1:]); obj != nil {
					if st, ok := obj.Type().Underlying().(*types.Struct); ok {
						for j := 0; j < st.NumFields(); j++ {
							if _, mapped := tr.exp.Types[k].Fields[st.Field(j).Name()]; !mapped {
								continue
							}
							var ds []string
							deps(st.Field(j).Type(), &ds, 0)
							for _, d := range ds {
								if isGen[d] {
									visit(d)
								}
							}
						}
					}
				}
			}
		}
		state[k] = 2
		out = append(out, k)
	}
	for _, k := range keys {
		visit(k)
	}
	return out
}

// genStruct emits a structure for a Go struct type marked "generate" (mapped fields only)
func (tr *translator) genStruct(key string, ts typeSpec) (string, []string) {
	var probs []string
	fullKey := key
	if j := strings.Index(key, "@"); j >= 0 {
		key = key[:j]
	}
	_ = fullKey
	i := strings.LastIndex(key, ".")
	if i < 0 {
		return "", []string{"bad type key"}
	}
	tp := tr.typesPkg(key[:i])
	if tp == nil {
		return fmt.Sprintf("/-- `%s`: package not loaded -/\nstructure %s where\n  missing : Unsupported\n", key, ts.Lean), []string{"package not loaded"}
	}
	obj := tp.Scope().Lookup(key[i+1:])
	if obj == nil {
		return fmt.Sprintf("/-- `%s`: type not found -/\nstructure %s where\n  missing : Unsupported\n", key, ts.Lean), []string{"type not found"}
	}
	st, ok := obj.Type().Underlying().(*types.Struct)
	if !ok {
		return "", []string{"not a struct"}
	}
	var b strings.Builder
	b.WriteString(fmt.Sprintf("/-- Go struct `%s` (the fields the whitelisted functions use) -/\nstructure %s where\n", key, ts.Lean))
	seen := map[string]bool{}
	for j := 0; j < st.NumFields(); j++ {
		f := st.Field(j)
		ln, ok := ts.Fields[f.Name()]
		if !ok {
			continue
		}
		seen[f.Name()] = true
		lt, err := tr.leanType(f.Type())
		if err != nil {
			probs = append(probs, "field "+f.Name()+": "+err.Error())
			lt = "Unsupported"
		}
		if ts.isOptional(f.Name()) {
			lt = "(Option " + lt + ")"
		}
		b.WriteString(fmt.Sprintf("  %s : %s\n", ln, lt))
	}
	var gks []string
	for g := range ts.Ghost {
		gks = append(gks, g)
	}
	sort.Strings(gks)
	for _, g := range gks {
		gt, ok := tr.exp.Types[ts.Ghost[g]]
		if !ok {
			gt, ok = tr.exp.Types[key[:i+1]+ts.Ghost[g]]
		}
		if !ok {
			for k2, t2 := range tr.exp.Types {
				if t2.Lean == ts.Ghost[g] {
					gt, ok = t2, true
					tr.usedTy[k2] = true
				}
			}
		}
		if !ok {
			probs = append(probs, "ghost field "+g+": no type "+ts.Ghost[g])
			b.WriteString(fmt.Sprintf("  %s : Unsupported\n", g))
			continue
		}
		b.WriteString(fmt.Sprintf("  %s : %s\n", g, gt.Lean))
	}
	var fs []string
	for k := range ts.Fields {
		if !seen[k] {
			fs = append(fs, k)
		}
	}
	sort.Strings(fs)
	for _, k := range fs {
		probs = append(probs, "field "+k+" of funcs.json does not exist")
		b.WriteString(fmt.Sprintf("  %s : Unsupported\n", ts.Fields[k]))
	}
	if !strings.Contains(b.String(), "GLedger") && !strings.Contains(b.String(), "LMap") && !strings.Contains(b.String(), "Rigo.Ledger.") && !strings.HasPrefix(key, "ledger.") {
		b.WriteString("  deriving Repr, DecidableEq\n")
	}
	return b.String(), probs
}

// global: a package-level variable read by a translated function (must have a constant-like
// initialiser and must never be written).
func (tr *translator) global(f *trFunc, v *types.Var) (string, error) {
	if n, ok := tr.globals[v]; ok {
		return n, nil
	}
	// find the declaration
	var init ast.Expr
	var info *types.Info
	for _, p := range tr.pr.Pkgs {
		if p.Types != v.Pkg() {
			continue
		}
		info = p.TypesInfo
		for _, file := range p.Syntax {
			for _, d := range file.Decls {
				gd, ok := d.(*ast.GenDecl)
				if !ok {
					continue
				}
				for _, sp := range gd.Specs {
					vs, ok := sp.(*ast.ValueSpec)
					if !ok {
						continue
					}
					for i, nm := range vs.Names {
						if p.TypesInfo.Defs[nm] == v && i < len(vs.Values) && len(vs.Values) == len(vs.Names) {
							init = vs.Values[i]
						}
					}
				}
			}
		}
		// written anywhere in its package?
		written := false
		for _, file := range p.Syntax {
			ast.Inspect(file, func(n ast.Node) bool {
				switch s := n.(type) {
				case *ast.AssignStmt:
					for _, l := range s.Lhs {
						if id, ok := l.(*ast.Ident); ok && p.TypesInfo.Uses[id] == v {
							written = true
						}
					}
				case *ast.CallExpr:
					if sel, ok := s.Fun.(*ast.SelectorExpr); ok {
						if id, ok := sel.X.(*ast.Ident); ok && p.TypesInfo.Uses[id] == v && isUint256(v.Type()) && uint256Setter[sel.Sel.Name] {
							written = true
						}
					}
				case *ast.UnaryExpr:
					if id, ok := s.X.(*ast.Ident); ok && s.Op.String() == "&" && p.TypesInfo.Uses[id] == v {
						written = true
					}
				}
				return true
			})
		}
		if written {
			return "", fmt.Errorf("package variable %s is written somewhere in its package", v.Name())
		}
	}
	if init == nil {
		return "", fmt.Errorf("package variable %s has no initialiser expression", v.Name())
	}
	lt, err := tr.leanType(v.Type())
	if err != nil {
		return "", err
	}
	// translate the initialiser with a scratch function context (constants / NewInt only)
	g := newTrFunc(tr, nil, nil, info)
	val := g.expr(init)
	if len(g.problems) > 0 || strings.Contains(val, "←") {
		return "", fmt.Errorf("initialiser of package variable %s is not a constant expression", v.Name())
	}
	name := strings.ReplaceAll(tr.pr.qual(v.Pkg()), "/", "_") + "_" + v.Name()
	tr.globals[v] = name
	tr.globDef = append(tr.globDef, fmt.Sprintf("/-- package variable `%s.%s` (never written) -/\ndef %s : %s := %s", tr.pr.qual(v.Pkg()), v.Name(), name, lt, val))
	return name, nil
}
