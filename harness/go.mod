module verifharness

go 1.19

require github.com/rigochain/rigo-go v0.0.0

require (
	github.com/btcsuite/btcd v0.22.1 // indirect
	github.com/confio/ics23/go v0.7.0 // indirect
	github.com/cosmos/iavl v0.19.1 // indirect
	github.com/gogo/protobuf v1.3.2 // indirect
	github.com/golang/protobuf v1.5.2 // indirect
	github.com/golang/snappy v0.0.4 // indirect
	github.com/google/btree v1.0.0 // indirect
	github.com/pkg/errors v0.9.1 // indirect
	github.com/syndtr/goleveldb v1.0.1-0.20210819022825-2ae1ddf74ef7 // indirect
	github.com/tendermint/tendermint v0.34.24 // indirect
	github.com/tendermint/tm-db v0.6.7 // indirect
	golang.org/x/crypto v0.1.0 // indirect
	golang.org/x/net v0.1.0 // indirect
	golang.org/x/sys v0.1.0 // indirect
	golang.org/x/text v0.4.0 // indirect
	google.golang.org/genproto v0.0.0-20221014213838-99cd37c6964a // indirect
	google.golang.org/grpc v1.50.1 // indirect
	google.golang.org/protobuf v1.28.2-0.20220831092852-f930b1dc76e8 // indirect
)

replace github.com/rigochain/rigo-go => /repo
