// rigoharness: correspondence streams and monitors of /verif.
package main

import (
	"flag"
	"fmt"
	"os"
	"path/filepath"
	"strings"

	"verifharness/internal/appstream"
	"verifharness/internal/commitstream"
	"verifharness/internal/common"
	"verifharness/internal/evmsyncstream"
	"verifharness/internal/inputstream"
	"verifharness/internal/ledgerstream"
	"verifharness/internal/rlpstream"
	"verifharness/internal/signerstream"
)

func readLines(path string) []string {
	bz, err := os.ReadFile(path)
	if err != nil {
		fmt.Fprintln(os.Stderr, err)
		os.Exit(2)
	}
	var out []string
	for _, l := range strings.Split(string(bz), "\n") {
		l = strings.TrimSpace(l)
		if l != "" && !strings.HasPrefix(l, "#") {
			out = append(out, l)
		}
	}
	return out
}

func main() {
	if len(os.Args) < 2 {
		fmt.Fprintln(os.Stderr, "usage: rigoharness <stream> [flags]")
		os.Exit(2)
	}
	stream := os.Args[1]
	fs := flag.NewFlagSet(stream, flag.ExitOnError)
	seed := fs.Uint64("seed", 1, "PRNG seed")
	tier := fs.String("tier", "quick", "quick|thorough")
	work := fs.String("work", "", "scratch directory")
	driver := fs.String("driver", "", "path to rigodriver")
	out := fs.String("out", "", "result json path")
	replay := fs.String("replay", "", "replay file (operation lines)")
	prop := fs.String("prop", "", "property whose monitors are reported (app stream)")
	restarts := fs.Bool("restarts", false, "app stream: restart the node at random block boundaries")
	checktx := fs.Bool("checktx", false, "app stream: interleave CheckTx calls")
	queries := fs.Bool("queries", false, "app stream: interleave Query calls")
	evm := fs.Bool("evm", false, "app stream: include contract transactions")
	replicas := fs.Bool("replicas", false, "app stream: run replica comparisons (C01/C06/C07)")
	known := fs.String("known", "/verif/known_findings.jsonl", "known findings file (read-only)")
	_ = fs.Parse(os.Args[2:])
	if *work == "" || *out == "" {
		fmt.Fprintln(os.Stderr, "need -work and -out")
		os.Exit(2)
	}
	wd, err := common.WorkDir(*work, stream)
	if err != nil {
		fmt.Fprintln(os.Stderr, err)
		os.Exit(2)
	}
	defer os.RemoveAll(wd)
	var rp []string
	if *replay != "" {
		rp = readLines(*replay)
	}
	var res *common.Result
	switch stream {
	case "ledger":
		res = ledgerstream.Run(*seed, *tier, wd, *driver, rp)
	case "app":
		res = appstream.Run(*seed, *tier, wd, *driver, rp, appstream.Config{Prop: *prop, Restarts: *restarts, CheckTx: *checktx, Queries: *queries, Known: *known, Replicas: *replicas, EVM: *evm})
	case "inputs":
		res = inputstream.Run(*seed, *tier, wd, *driver, rp)
	case "signer":
		res = signerstream.Run(*seed, *tier, wd, *driver, rp)
	case "rlp":
		res = rlpstream.Run(*seed, *tier, wd, *driver, rp)
	case "evmsync":
		res = evmsyncstream.Run(*seed, *tier, wd, *driver, rp)
	case "commit":
		if *prop != "" {
			commitstream.Prop = *prop
		}
		res = commitstream.Run(*seed, *tier, wd, *driver, rp)
	default:
		fmt.Fprintln(os.Stderr, "unknown stream", stream)
		os.Exit(2)
	}
	_ = os.MkdirAll(filepath.Dir(*out), 0755)
	if err := res.Write(*out); err != nil {
		fmt.Fprintln(os.Stderr, err)
		os.Exit(2)
	}
	if res.Error != "" {
		fmt.Fprintln(os.Stderr, "stream error:", res.Error)
		os.Exit(3)
	}
}
