// Package appstream: application-level correspondence (real RigoApp vs. Lean App model) and
// the implementation-level monitors of the application properties.
package appstream

import (
	"fmt"
	"os"
	"strings"

	"verifharness/internal/apphist"
	"verifharness/internal/appmon"
	"verifharness/internal/common"
	"verifharness/internal/rng"
)

type Config struct {
	Prop     string // property whose monitors are reported
	Restarts bool
	CheckTx  bool
	Queries  bool
	EVM      bool   // include contract deployments / calls
	Replicas bool   // run the replica comparisons (C01 / C06 / C07)
	Known    string // path of known_findings.jsonl: violations of listed kinds are not shrunk
}

// RunHistory generates and executes one history on a fresh primary node.
func RunHistory(seed uint64, r *rng.R, work string, opt apphist.Options, cfg Config, obs apphist.Observer) (*apphist.Sim, error) {
	s, err := apphist.NewSim(seed, r, work, opt)
	if err != nil {
		return nil, err
	}
	s.Obs = obs
	s.Init()
	nblocks := r.Range(opt.MaxBlocks/2, opt.MaxBlocks)
	planned := opt.PlanScenario
	for b := 0; b < nblocks && s.N.Dead == ""; b++ {
		if cfg.CheckTx && r.Chance(50) {
			s.Check(s.GenTx())
		}
		for len(s.PreBeginCheck) > 0 {
			f := s.PreBeginCheck[0]
			s.PreBeginCheck = s.PreBeginCheck[1:]
			s.Check(f())
		}
		if !s.Begin() {
			break
		}
		// scenario templates (shapes random generation reaches too rarely)
		quiet := s.Quiet(s.Height + 1)
		if cfg.Prop == "C17" && cfg.EVM && b == 1 && s.ForceScenario == 0 {
			s.ForceScenario = 22 // deploy the balance-view contract early: the vm_call probes need it
		}
		if planned > 0 && b >= 2 && !quiet && s.ForceScenario == 0 {
			s.ForceScenario = planned // every template is planned in some history of every run
		}
		if (s.ForceScenario > 0 || r.Chance(25)) && !quiet {
			wasPlanned := s.ForceScenario == planned
			if sc := s.Scenario(); sc != nil {
				if wasPlanned {
					planned = 0
				}
				for _, bz := range sc.Deliver() {
					o, _ := s.Deliver(bz)
					s.After(bz, o)
				}
				for _, bz := range sc.Replays() {
					o, _ := s.Deliver(bz)
					s.After(bz, o)
				}
			}
		}
		if s.VoteAll {
			for _, bz := range s.VoteRound() {
				o, _ := s.Deliver(bz)
				s.After(bz, o)
			}
		}
		for len(s.PendingCheck) > 0 {
			f := s.PendingCheck[0]
			s.PendingCheck = s.PendingCheck[1:]
			s.Check(f())
		}
		ntx := r.Intn(opt.TxPerBlock + 1)
		if quiet {
			ntx = 0
		}
		for i := 0; i < ntx; i++ {
			bz := s.GenTx()
			if cfg.CheckTx && r.Chance(30) {
				s.Check(bz)
				if cfg.Queries && r.Chance(50) {
					s.QueryTouched(bz)
				}
				if cfg.EVM && cfg.Prop == "C17" && r.Chance(60) {
					// a read-only contract call at the latest height must not see what only the mempool view holds
					if m, ok := obs.(*appmon.Monitor); ok && m != nil {
						k, d := s.VmCallProbe(apphist.SenderOf(bz))
						m.Report(s, "C17", k, d, "C17.vmcall-probe-pending")
					}
				}
			}
			if cfg.Queries && r.Chance(40) {
				s.RandomQuery()
			}
			o, _ := s.Deliver(bz)
			s.After(bz, o)
			if cfg.Queries && r.Chance(25) {
				s.QueryTouched(bz)
			}
			if r.Chance(6) { // replay the same bytes at once
				o2, _ := s.Deliver(bz)
				s.After(bz, o2)
			}
			if cfg.CheckTx && r.Chance(20) {
				cbz := s.GenTx()
				s.Check(cbz)
				if cfg.Queries && r.Chance(50) {
					s.QueryTouched(cbz)
				}
			}
		}
		if !s.End() {
			break
		}
		if !s.Commit() {
			break
		}
		if cfg.EVM && (cfg.Prop == "C17" || cfg.Prop == "") {
			if m, ok := obs.(*appmon.Monitor); ok && m != nil {
				k, d := s.VmCallProbe(nil)
				m.Report(s, "C17", k, d, "C17.vmcall-probe")
			}
		}
		if cfg.Queries {
			for q := r.Intn(4); q > 0; q-- {
				s.RandomQuery()
			}
			// follow the most recent proposal through its life cycle: by-hash queries at a height before it
			// existed and at the height right after its voting closed, asked again at every later block
			if n := len(s.Props); n > 0 {
				p := s.Props[n-1]
				for _, h := range []int64{p.Start - 2, p.End + 1} {
					if h >= 1 && h <= s.Height {
						s.Query("proposal", p.Hash, h)
					}
				}
			}
		}
		if cfg.Restarts && (s.RestartAfterCommit || r.Chance(15)) {
			s.RestartAfterCommit = false
			if err := s.Restart(); err != nil {
				return s, err
			}
		}
	}
	return s, nil
}

// ModelLines renders the recorded history as driver input.
func ModelLines(recs []*apphist.Rec) []string {
	lines := []string{"reset"}
	for _, r := range recs {
		lines = append(lines, r.Line)
	}
	return lines
}

func short(s string, n int) string {
	if len(s) > n {
		return s[:n] + "..."
	}
	return s
}

// firstDiff describes where two dump lines differ.
func firstDiff(a, b string) string {
	as, bs := strings.Fields(a), strings.Fields(b)
	am := map[string]bool{}
	for _, x := range as {
		am[x] = true
	}
	bm := map[string]bool{}
	for _, x := range bs {
		bm[x] = true
	}
	var onlyA, onlyB []string
	for _, x := range as {
		if !bm[x] {
			onlyA = append(onlyA, x)
		}
	}
	for _, x := range bs {
		if !am[x] {
			onlyB = append(onlyB, x)
		}
	}
	return fmt.Sprintf("impl-only=[%s] model-only=[%s]", short(strings.Join(onlyA, " "), 700), short(strings.Join(onlyB, " "), 700))
}

func Run(seed uint64, tier, work, driver string, replay []string, cfg Config) *common.Result {
	res := common.NewResult("app", seed, tier)
	res.Rule = "generated block histories (genesis, blocks with all native transaction types, valid and mutated, votes/absences/evidence, " +
		"optional restarts and CheckTx) executed on the real RigoApp and replayed on the Lean model; a case is one operation line; " +
		"distinct_nontrivial counts distinct (operation kind, tx type, result kind) triples observed"
	r := rng.New(seed)
	nh := 16
	opt := apphist.Options{MaxBlocks: 24, TxPerBlock: 5, InvalidPct: 25, WithEVM: cfg.EVM, WithRestarts: cfg.Restarts, WithCheckTx: cfg.CheckTx}
	if tier == "thorough" {
		nh = 150
		opt.MaxBlocks = 60
		opt.TxPerBlock = 7
	}
	distinct := common.Distinct{}
	if replay != nil {
		mon := appmon.New()
		hw := work + "/replay"
		_ = os.MkdirAll(hw, 0755)
		s, err := apphist.RunReplay(replay, hw, mon)
		if err != nil {
			res.Error = err.Error()
			return res
		}
		s.N.Close()
		res.Histories = 1
		if os.Getenv("VERIF_DEBUG") != "" {
			var sb strings.Builder
			for _, rec := range s.Recs {
				sb.WriteString(rec.Line + "\n    => " + rec.Out + "\n")
			}
			_ = os.WriteFile("/verif/.work/replay.recs", []byte(sb.String()), 0644)
		}
		compareModel(res, 0, s, driver)
		addViolations(res, mon, cfg, hw, s)
		_ = os.RemoveAll(hw)
		res.Samples = append(res.Samples, replay[:1]...)
		return res
	}
	for i := 0; i < nh; i++ {
		hr := r.Fork()
		hw := fmt.Sprintf("%s/h%d", work, i)
		_ = os.MkdirAll(hw, 0755)
		mon := appmon.New()
		opt.PlanScenario = (i+int(seed%uint64(apphist.NumScenarios)))%apphist.NumScenarios + 1
		// the templates that need the longest coordinated histories are planned in fixed slots of every worker as well:
		// the proposal life cycle with its quiet window (4), the validator whose own stake drops below the minimum (1),
		// power moving between validators (7)
		switch i % 8 {
		case 1:
			opt.PlanScenario = 2
		case 3:
			opt.PlanScenario = 8
		case 5:
			opt.PlanScenario = 5
		}
		s, err := RunHistory(seed*1000+uint64(i), hr, hw, opt, cfg, mon)
		if err != nil {
			res.Error = err.Error()
			_ = os.RemoveAll(hw)
			return res
		}
		res.Histories++
		s.N.Close()
		compareModel(res, i, s, driver)
		addViolations(res, mon, cfg, hw, s)
		if cfg.Replicas {
			replicaChecks(res, cfg, hw, s)
		}
		_ = os.RemoveAll(hw)
		if res.Error != "" {
			return res
		}
		for k, n := range mon.Checks {
			res.Distribution["monitor:"+k] += n
		}
		for _, rec := range s.Recs {
			key := recKey(rec)
			res.Count(key)
			distinct.Add(key)
		}
		if s.N.Dead != "" {
			res.Notes = append(res.Notes, fmt.Sprintf("history %d: node died: %s", i, short(s.N.Dead, 200)))
			if cfg.Prop == "" || cfg.Prop == "C09" {
				res.Violations = append(res.Violations, common.Violation{Property: "C09", Kind: "consensus-panic", Detail: short(s.N.Dead, 400), Ops: s.ReplayLines()})
			}
		}
		if i < 2 {
			for _, rec := range s.Recs {
				if rec.Kind == "tx" && len(res.Samples) < 6 {
					res.Samples = append(res.Samples, short(rec.Line, 400)+" => "+rec.Out)
				}
			}
		}
		fresh := 0
		for _, v := range res.Violations {
			if !knownKind(cfg.Known, v) {
				fresh++
			}
		}
		if len(res.Disagreements) >= 3 || fresh >= 4 {
			break
		}
	}
	res.DistinctNontrivial = len(distinct)
	return res
}

func recKey(rec *apphist.Rec) string {
	key := rec.Kind
	if rec.Kind == "tx" {
		typ, k := "?", "?"
		for _, w := range strings.Fields(rec.Line) {
			if strings.HasPrefix(w, "type=") {
				typ = w[5:]
			}
		}
		for _, w := range strings.Fields(rec.Out) {
			if strings.HasPrefix(w, "kind=") {
				k = w[5:]
			}
		}
		key = fmt.Sprintf("tx/%s/type%s/%s", rec.Mode, typ, k)
	} else if rec.Kind == "begin" || rec.Kind == "end" {
		if strings.Contains(rec.Out, "=-") && !strings.Contains(rec.Out, "rwd=0") && rec.Kind == "end" || rec.Out == "rwd=- ps=- pg=-" {
			key += "/quiet"
		} else {
			key += "/active"
		}
	} else if rec.Kind == "query" {
		f := strings.Fields(rec.Line)
		key = "query/" + strings.TrimPrefix(f[1], "path=") + "/" + strings.Fields(rec.Out)[0]
	}
	return key
}

// compareModel pipes the recorded history to the Lean model and records the first disagreement.
func compareModel(res *common.Result, i int, s *apphist.Sim, driver string) {
	lines := ModelLines(s.Recs)
	mout, err := common.RunDriver(driver, "app", lines)
	if err != nil {
		res.Error = err.Error()
		return
	}
	if len(mout) != len(lines) {
		res.Error = fmt.Sprintf("model produced %d lines for %d inputs", len(mout), len(lines))
		return
	}
	for j, rec := range s.Recs {
		res.Evaluations++
		mo := mout[j+1]
		if mo != rec.Out {
			d := common.Disagreement{History: i, Index: j, Op: short(rec.Line, 300), Impl: short(rec.Out, 300) + " note=" + short(rec.Note, 300), Model: short(mo, 300)}
			if rec.Kind == "dump" {
				d.Impl, d.Model = "dump", firstDiff(rec.Out, mo)
			}
			d.Ops = s.ReplayLines()
			res.Disagreements = append(res.Disagreements, d)
			break
		}
	}
}

// addViolations keeps the monitor hits of the requested property and shrinks their replays.
func addViolations(res *common.Result, mon *appmon.Monitor, cfg Config, work string, s *apphist.Sim) {
	for _, v := range mon.V {
		if cfg.Prop != "" && v.Property != cfg.Prop {
			continue
		}
		if !knownKind(cfg.Known, v) {
			v.Ops = shrinkReplay(v, work)
		}
		res.Violations = append(res.Violations, v)
	}
}

// shrinkReplay drops transactions / checks / queries one at a time while the same violation recurs.
func shrinkReplay(v common.Violation, work string) []string {
	cur := v.Ops
	same := func(lines []string, n int) bool {
		mon := appmon.New()
		hw := fmt.Sprintf("%s/shrink%d", work, n)
		_ = os.MkdirAll(hw, 0755)
		defer os.RemoveAll(hw)
		s, err := apphist.RunReplay(lines, hw, mon)
		if s != nil && s.N != nil {
			s.N.Close()
		}
		if err != nil {
			return false
		}
		for _, w := range mon.V {
			if w.Property == v.Property && w.Kind == v.Kind {
				return true
			}
		}
		return false
	}
	budget := 80
	for i := len(cur) - 1; i >= 0 && budget > 0; i-- {
		f := strings.Fields(cur[i])
		if len(f) == 0 || (f[0] != "deliver" && f[0] != "check" && f[0] != "query") {
			continue
		}
		cand := append(append([]string(nil), cur[:i]...), cur[i+1:]...)
		budget--
		if same(cand, budget) {
			cur = cand
		}
	}
	return cur
}

// knownKind reports whether known_findings.jsonl lists this (property, kind): such hits are reported
// by bin/check as KNOWN-FINDING lines and need no minimised replay.
func knownKind(path string, v common.Violation) bool {
	if path == "" {
		return false
	}
	bz, err := os.ReadFile(path)
	if err != nil {
		return false
	}
	for _, l := range strings.Split(string(bz), "\n") {
		if strings.Contains(l, `"property": "`+v.Property+`"`) && strings.Contains(l, `"kind": "`+v.Kind+`"`) && !strings.Contains(l, `"status": "fixed"`) {
			return true
		}
	}
	return false
}
