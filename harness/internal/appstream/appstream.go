// Package appstream: application-level correspondence (real RigoApp vs. Lean App model) and
// the implementation-level monitors of the application properties.
package appstream

import (
	"fmt"
	"os"
	"strings"

	"verifharness/internal/apphist"
	"verifharness/internal/common"
	"verifharness/internal/rng"
)

type Config struct {
	Prop     string // property whose monitors are reported
	Restarts bool
	CheckTx  bool
	Queries  bool
}

// RunHistory generates and executes one history on a fresh primary node.
func RunHistory(seed uint64, r *rng.R, work string, opt apphist.Options, cfg Config) (*apphist.Sim, error) {
	s, err := apphist.NewSim(seed, r, work, opt)
	if err != nil {
		return nil, err
	}
	s.Init()
	nblocks := r.Range(opt.MaxBlocks/2, opt.MaxBlocks)
	for b := 0; b < nblocks && s.N.Dead == ""; b++ {
		if cfg.CheckTx && r.Chance(50) {
			s.Check(s.GenTx())
		}
		if !s.Begin() {
			break
		}
		ntx := r.Intn(opt.TxPerBlock + 1)
		for i := 0; i < ntx; i++ {
			bz := s.GenTx()
			if cfg.CheckTx && r.Chance(30) {
				s.Check(bz)
			}
			if cfg.Queries && r.Chance(40) {
				s.RandomQuery()
			}
			o, _ := s.Deliver(bz)
			s.After(bz, o)
			if r.Chance(6) { // replay the same bytes at once
				o2, _ := s.Deliver(bz)
				s.After(bz, o2)
			}
			if cfg.CheckTx && r.Chance(20) {
				s.Check(s.GenTx())
			}
		}
		if !s.End() {
			break
		}
		if !s.Commit() {
			break
		}
		if cfg.Queries {
			for q := r.Intn(4); q > 0; q-- {
				s.RandomQuery()
			}
		}
		if cfg.Restarts && r.Chance(15) {
			if err := s.Restart(); err != nil {
				return s, err
			}
		}
	}
	return s, nil
}

// ModelLines renders the recorded history as driver input.
func ModelLines(recs []*apphist.Rec) []string {
	lines := []string{"reset"}
	for _, r := range recs {
		lines = append(lines, r.Line)
	}
	return lines
}

func short(s string, n int) string {
	if len(s) > n {
		return s[:n] + "..."
	}
	return s
}

// firstDiff describes where two dump lines differ.
func firstDiff(a, b string) string {
	as, bs := strings.Fields(a), strings.Fields(b)
	am := map[string]bool{}
	for _, x := range as {
		am[x] = true
	}
	bm := map[string]bool{}
	for _, x := range bs {
		bm[x] = true
	}
	var onlyA, onlyB []string
	for _, x := range as {
		if !bm[x] {
			onlyA = append(onlyA, x)
		}
	}
	for _, x := range bs {
		if !am[x] {
			onlyB = append(onlyB, x)
		}
	}
	return fmt.Sprintf("impl-only=[%s] model-only=[%s]", short(strings.Join(onlyA, " "), 700), short(strings.Join(onlyB, " "), 700))
}

func Run(seed uint64, tier, work, driver string, replay []string, cfg Config) *common.Result {
	res := common.NewResult("app", seed, tier)
	res.Rule = "generated block histories (genesis, blocks with all native transaction types, valid and mutated, votes/absences/evidence, " +
		"optional restarts and CheckTx) executed on the real RigoApp and replayed on the Lean model; a case is one operation line; " +
		"distinct_nontrivial counts distinct (operation kind, tx type, result kind) triples observed"
	r := rng.New(seed)
	nh := 12
	opt := apphist.Options{MaxBlocks: 24, TxPerBlock: 5, InvalidPct: 25}
	if tier == "thorough" {
		nh = 150
		opt.MaxBlocks = 60
		opt.TxPerBlock = 7
	}
	distinct := common.Distinct{}
	if replay != nil {
		// replay: model lines only (implementation outputs are part of the replay file as "#out" comments are stripped);
		// re-execution of raw histories is done by `-replay` of the seed instead, see bin/check.
		out, err := common.RunDriver(driver, "app", replay)
		if err != nil {
			res.Error = err.Error()
			return res
		}
		res.Samples = out
		res.Evaluations = len(out)
		return res
	}
	for i := 0; i < nh; i++ {
		hr := r.Fork()
		hw := fmt.Sprintf("%s/h%d", work, i)
		_ = os.MkdirAll(hw, 0755)
		s, err := RunHistory(seed*1000+uint64(i), hr, hw, opt, cfg)
		if err != nil {
			res.Error = err.Error()
			_ = os.RemoveAll(hw)
			return res
		}
		res.Histories++
		s.N.Close()
		lines := ModelLines(s.Recs)
		mout, err := common.RunDriver(driver, "app", lines)
		_ = os.RemoveAll(hw)
		if err != nil {
			res.Error = err.Error()
			return res
		}
		if len(mout) != len(lines) {
			res.Error = fmt.Sprintf("model produced %d lines for %d inputs", len(mout), len(lines))
			return res
		}
		for j, rec := range s.Recs {
			res.Evaluations++
			mo := mout[j+1]
			key := rec.Kind
			if rec.Kind == "tx" {
				f := strings.Fields(rec.Line)
				typ, k := "?", "?"
				for _, w := range f {
					if strings.HasPrefix(w, "type=") {
						typ = w[5:]
					}
				}
				for _, w := range strings.Fields(rec.Out) {
					if strings.HasPrefix(w, "kind=") {
						k = w[5:]
					}
				}
				key = fmt.Sprintf("tx/%s/type%s/%s", rec.Mode, typ, k)
			} else if rec.Kind == "begin" || rec.Kind == "end" {
				if strings.Contains(rec.Out, "=-") {
					key += "/quiet"
				} else {
					key += "/active"
				}
			}
			res.Count(key)
			distinct.Add(key)
			if mo != rec.Out {
				d := common.Disagreement{History: i, Index: j, Op: short(rec.Line, 300), Impl: short(rec.Out, 300) + " note=" + short(rec.Note, 300), Model: short(mo, 300)}
				if rec.Kind == "dump" {
					d.Impl, d.Model = "dump", firstDiff(rec.Out, mo)
				}
				d.Ops = lines[:j+2]
				res.Disagreements = append(res.Disagreements, d)
				break
			}
		}
		if s.N.Dead != "" {
			res.Notes = append(res.Notes, fmt.Sprintf("history %d: node died: %s", i, short(s.N.Dead, 200)))
		}
		if i < 2 {
			for _, rec := range s.Recs {
				if rec.Kind == "tx" && len(res.Samples) < 6 {
					res.Samples = append(res.Samples, short(rec.Line, 400)+" => "+rec.Out)
				}
			}
		}
		if len(res.Disagreements) >= 3 {
			break
		}
	}
	res.DistinctNontrivial = len(distinct)
	return res
}
