package appstream

import (
	"encoding/hex"
	"fmt"
	"os"
	"strings"

	"verifharness/internal/apphist"
	"verifharness/internal/common"
)

func stripV(dump string) string {
	var out []string
	for _, t := range strings.Fields(dump) {
		if strings.HasPrefix(t, "V:") {
			continue
		}
		out = append(out, t)
	}
	return strings.Join(out, " ")
}

func filterLines(lines []string, drop func(kind string) bool) []string {
	var out []string
	for _, l := range lines {
		f := strings.Fields(l)
		if len(f) > 0 && drop(f[0]) {
			continue
		}
		out = append(out, l)
	}
	return out
}

func consensusRecs(recs []*apphist.Rec, keep func(r *apphist.Rec) bool) []*apphist.Rec {
	var out []*apphist.Rec
	for _, r := range recs {
		if keep(r) {
			out = append(out, r)
		}
	}
	return out
}

// firstDivergence compares two record lists position by position.
func firstDivergence(a, b []*apphist.Rec, ignoreV bool) (int, string) {
	n := len(a)
	if len(b) < n {
		n = len(b)
	}
	for i := 0; i < n; i++ {
		oa, ob := a[i].Out, b[i].Out
		if a[i].Kind == "dump" && ignoreV {
			oa, ob = stripV(oa), stripV(ob)
		}
		if oa != ob {
			d := fmt.Sprintf("op %d `%s`: %s vs %s", i, short(a[i].Line, 160), short(oa, 200), short(ob, 200))
			if a[i].Kind == "dump" {
				d = fmt.Sprintf("op %d state dump: %s", i, firstDiff(oa, ob))
			}
			return i, d
		}
		if a[i].Kind == "commit" && hex.EncodeToString(a[i].Hash) != hex.EncodeToString(b[i].Hash) {
			return i, fmt.Sprintf("op %d commit: app hash %x vs %x", i, a[i].Hash, b[i].Hash)
		}
	}
	if len(a) != len(b) {
		return n, fmt.Sprintf("different number of operations executed: %d vs %d", len(a), len(b))
	}
	return -1, ""
}

// replicaChecks runs the replica comparisons of C01 (independent replica), C06 (replica without
// CheckTx/Query) and C07 (replica that never restarts) for one recorded history.
func replicaChecks(res *common.Result, cfg Config, work string, s *apphist.Sim) {
	lines := s.ReplayLines()
	isCons := func(r *apphist.Rec) bool { return r.Kind != "query" && !(r.Kind == "tx" && r.Mode == "c") }
	run := func(name string, ls []string) *apphist.Sim {
		hw := work + "/" + name
		_ = os.MkdirAll(hw, 0755)
		defer os.RemoveAll(hw)
		r, err := apphist.RunReplay(ls, hw, nil)
		if r != nil && r.N != nil {
			r.N.Close()
		}
		if err != nil {
			res.Notes = append(res.Notes, "replica "+name+": "+err.Error())
			return nil
		}
		return r
	}
	want := func(p string) bool { return cfg.Prop == "" || cfg.Prop == p }
	if want("C01") {
		if b := run("c01", lines); b != nil {
			if i, d := firstDivergence(s.Recs, b.Recs, false); i >= 0 {
				res.Violations = append(res.Violations, common.Violation{Property: "C01", Kind: "replica-divergence",
					Detail: "two replicas fed the same history differ at " + d, Ops: lines})
			}
			res.Count("monitor:C01.replica")
		}
	}
	if (want("C06") || want("C01")) && cfg.CheckTx {
		quiet := filterLines(lines, func(k string) bool { return k == "check" || k == "query" })
		if b := run("c06", quiet); b != nil {
			if i, d := firstDivergence(consensusRecs(s.Recs, isCons), consensusRecs(b.Recs, isCons), false); i >= 0 {
				if want("C06") {
					res.Violations = append(res.Violations, common.Violation{Property: "C06", Kind: "mempool-interference",
						Detail: "block execution differs between a node that served CheckTx/Query calls and one that did not: " + d, Ops: lines})
				}
				if want("C01") {
					res.Violations = append(res.Violations, common.Violation{Property: "C01", Kind: "replica-divergence-mempool",
						Detail: "two replicas fed the same blocks differ because one of them also served CheckTx/Query calls (node-local traffic): " + d, Ops: lines})
				}
			}
			res.Count("monitor:C06.quiet-replica")
		}
	}
	if want("C07") && s.EverRestarted {
		cont := filterLines(lines, func(k string) bool { return k == "restart" })
		if b := run("c07", cont); b != nil {
			// a restart adds a "restart" and a "dump" record on the primary: drop them for the comparison
			var prim []*apphist.Rec
			skip := false
			for _, r := range s.Recs {
				if r.Kind == "restart" {
					skip = true
					if r.Out != "ok" {
						res.Violations = append(res.Violations, common.Violation{Property: "C07", Kind: "restart-info",
							Detail: "restarted node reports " + r.Out, Ops: lines})
					}
					continue
				}
				if skip && r.Kind == "dump" {
					skip = false
					continue
				}
				skip = false
				prim = append(prim, r)
			}
			// CheckTx answers between a restart and the next BeginBlock may differ (the mempool view and the
			// limiter evaluation are not persisted); the property speaks of block results, updates and hashes
			notCheck := func(r *apphist.Rec) bool { return !(r.Kind == "tx" && r.Mode == "c") }
			if i, d := firstDivergence(consensusRecs(prim, notCheck), consensusRecs(b.Recs, notCheck), true); i >= 0 {
				kind := "restart-divergence"
				res.Violations = append(res.Violations, common.Violation{Property: "C07", Kind: kind,
					Detail: "a restarted node and a node that kept running differ at " + d, Ops: lines})
			}
			res.Count("monitor:C07.continuous-replica")
		}
	}
}

func min(a, b int) int {
	if a < b {
		return a
	}
	return b
}
