package appstream

import (
	"encoding/hex"
	"fmt"
	"os"
	"strings"

	"verifharness/internal/apphist"
	"verifharness/internal/appmon"
	"verifharness/internal/common"
)

func stripV(dump string) string {
	var out []string
	for _, t := range strings.Fields(dump) {
		if strings.HasPrefix(t, "V:") {
			continue
		}
		out = append(out, t)
	}
	return strings.Join(out, " ")
}

func filterLines(lines []string, drop func(kind string) bool) []string {
	var out []string
	for _, l := range lines {
		f := strings.Fields(l)
		if len(f) > 0 && drop(f[0]) {
			continue
		}
		out = append(out, l)
	}
	return out
}

func consensusRecs(recs []*apphist.Rec, keep func(r *apphist.Rec) bool) []*apphist.Rec {
	var out []*apphist.Rec
	for _, r := range recs {
		if keep(r) {
			out = append(out, r)
		}
	}
	return out
}

// firstDivergence compares two record lists position by position.
func firstDivergence(a, b []*apphist.Rec, ignoreV bool) (int, string) {
	n := len(a)
	if len(b) < n {
		n = len(b)
	}
	for i := 0; i < n; i++ {
		oa, ob := a[i].Out, b[i].Out
		if a[i].Kind == "dump" && ignoreV {
			oa, ob = stripV(oa), stripV(ob)
		}
		if oa != ob {
			d := fmt.Sprintf("op %d `%s`: %s vs %s", i, short(a[i].Line, 160), short(oa, 200), short(ob, 200))
			if a[i].Kind == "dump" {
				d = fmt.Sprintf("op %d state dump: %s", i, firstDiff(oa, ob))
			}
			return i, d
		}
		if a[i].Kind == "commit" && hex.EncodeToString(a[i].Hash) != hex.EncodeToString(b[i].Hash) {
			return i, fmt.Sprintf("op %d commit: app hash %x vs %x", i, a[i].Hash, b[i].Hash)
		}
	}
	if len(a) != len(b) {
		return n, fmt.Sprintf("different number of operations executed: %d vs %d", len(a), len(b))
	}
	return -1, ""
}

// replicaChecks runs the replica comparisons of C01 (independent replica), C06 (replica without
// CheckTx/Query) and C07 (replica that never restarts) for one recorded history.
func replicaChecks(res *common.Result, cfg Config, work string, s *apphist.Sim) {
	lines := s.ReplayLines()
	isCons := func(r *apphist.Rec) bool { return r.Kind != "query" && !(r.Kind == "tx" && r.Mode == "c") }
	run := func(name string, ls []string) *apphist.Sim {
		hw := work + "/" + name
		_ = os.MkdirAll(hw, 0755)
		defer os.RemoveAll(hw)
		r, err := apphist.RunReplay(ls, hw, nil)
		if r != nil && r.N != nil {
			r.N.Close()
		}
		if err != nil {
			res.Notes = append(res.Notes, "replica "+name+": "+err.Error())
			return nil
		}
		return r
	}
	want := func(p string) bool { return cfg.Prop == "" || cfg.Prop == p }
	if want("C01") {
		if b := run("c01", lines); b != nil {
			if i, d := firstDivergence(s.Recs, b.Recs, false); i >= 0 {
				res.Violations = append(res.Violations, common.Violation{Property: "C01", Kind: "replica-divergence",
					Detail: "two replicas fed the same history differ at " + d, Ops: lines})
			}
			res.Count("monitor:C01.replica")
		}
	}
	if (want("C06") || want("C01")) && cfg.CheckTx {
		quiet := filterLines(lines, func(k string) bool { return k == "check" || k == "query" })
		if b := run("c06", quiet); b != nil {
			if i, d := firstDivergence(consensusRecs(s.Recs, isCons), consensusRecs(b.Recs, isCons), false); i >= 0 {
				if want("C06") {
					res.Violations = append(res.Violations, common.Violation{Property: "C06", Kind: "mempool-interference",
						Detail: "block execution differs between a node that served CheckTx/Query calls and one that did not: " + d, Ops: lines})
				}
				if want("C01") {
					res.Violations = append(res.Violations, common.Violation{Property: "C01", Kind: "replica-divergence-mempool",
						Detail: "two replicas fed the same blocks differ because one of them also served CheckTx/Query calls (node-local traffic): " + d, Ops: lines})
				}
			}
			res.Count("monitor:C06.quiet-replica")
		}
	}
	if cfg.Prop == "C05" {
		failedOmittedCheck(res, lines, s, run)
	}
	if (want("C07") || cfg.Prop == "C01") && s.EverRestarted {
		cont := filterLines(lines, func(k string) bool { return k == "restart" })
		if b := run("c07", cont); b != nil {
			// a restart adds a "restart" and a "dump" record on the primary: drop them for the comparison
			var prim []*apphist.Rec
			skip := false
			for _, r := range s.Recs {
				if r.Kind == "restart" {
					skip = true
					if r.Out != "ok" && want("C07") {
						res.Violations = append(res.Violations, common.Violation{Property: "C07", Kind: "restart-info",
							Detail: "restarted node reports " + r.Out, Ops: lines})
					}
					continue
				}
				if skip && r.Kind == "dump" {
					skip = false
					continue
				}
				skip = false
				prim = append(prim, r)
			}
			// CheckTx answers between a restart and the next BeginBlock may differ (the mempool view and the
			// limiter evaluation are not persisted); the property speaks of block results, updates and hashes
			notCheck := func(r *apphist.Rec) bool { return !(r.Kind == "tx" && r.Mode == "c") }
			if i, d := firstDivergence(consensusRecs(prim, notCheck), consensusRecs(b.Recs, notCheck), true); i >= 0 {
				kind := "restart-divergence"
				if want("C07") {
					res.Violations = append(res.Violations, common.Violation{Property: "C07", Kind: kind,
						Detail: "a restarted node and a node that kept running differ at " + d, Ops: lines})
				}
				if cfg.Prop == "C01" {
					res.Violations = append(res.Violations, common.Violation{Property: "C01", Kind: "replica-divergence-restart",
						Detail: "two replicas fed the same blocks differ because one of them was restarted in between (process lifetime is node-local): " + d, Ops: lines})
				}
			}
			res.Count("monitor:C07.continuous-replica")
		}
	}
}

// failedOmittedCheck (C05, "later transactions observe the unchanged state"): a replica is fed the same history
// WITHOUT the deliveries that failed on the primary; every remaining consensus result and every state dump
// (empty account records identified with absent ones; app hashes not compared: an empty record created by a
// failed transaction is hashed) must be the same.
//
// Two replicas: one without ANY failed delivery, one without the FIRST failed delivery of every block (the other
// failed deliveries stay and must fail in the same way: a transaction that fails only because an earlier failed
// one left a trace is itself a failed delivery and would be dropped by the first replica).
func failedOmittedCheck(res *common.Result, lines []string, s *apphist.Sim, run func(string, []string) *apphist.Sim) {
	if failedOmitted(res, lines, s, run, false) {
		return
	}
	failedOmitted(res, lines, s, run, true)
}

func failedOmitted(res *common.Result, lines []string, s *apphist.Sim, run func(string, []string) *apphist.Sim, firstOnly bool) bool {
	var keptLines []string
	var prim []*apphist.Rec
	dropped := 0
	li := 0
	droppedInBlock := false
	for _, r := range s.Recs {
		hasLine := r.Kind != "dump"
		if r.Kind == "begin" {
			droppedInBlock = false
		}
		failed := r.Kind == "tx" && r.Mode == "d" && !strings.HasPrefix(r.Out, "code=0 ")
		if failed && firstOnly && droppedInBlock {
			failed = false
		}
		if failed {
			droppedInBlock = true
			dropped++
		} else {
			prim = append(prim, r)
			if hasLine && li < len(lines) {
				keptLines = append(keptLines, lines[li])
			}
		}
		if hasLine {
			li++
		}
	}
	if dropped == 0 || li != len(lines) {
		return false
	}
	b := run("c05", keptLines)
	if b == nil {
		return false
	}
	cons := func(r *apphist.Rec) bool { return r.Kind != "query" && !(r.Kind == "tx" && r.Mode == "c") }
	pa, pb := consensusRecs(prim, cons), consensusRecs(b.Recs, cons)
	res.Count("monitor:C05.failed-omitted-replica")
	n := min(len(pa), len(pb))
	for i := 0; i < n; i++ {
		oa, ob := pa[i].Out, pb[i].Out
		if pa[i].Kind == "dump" {
			oa, ob = appmon.NonEmptyDump(oa), appmon.NonEmptyDump(ob)
		}
		if oa != ob {
			// the EVM block gas pool is consumed by failed calls too: a later contract transaction may run out of
			// block gas only in the presence of the failed one (a block limit, not state)
			if strings.Contains(oa, "gas limit reached") || strings.Contains(ob, "gas limit reached") || strings.Contains(pa[i].Note, "gas limit reached") {
				return false
			}
			d := fmt.Sprintf("op %d `%s`: %s vs %s", i, short(pa[i].Line, 160), short(oa, 200), short(ob, 200))
			if pa[i].Kind == "dump" {
				d = fmt.Sprintf("op %d state dump: %s", i, firstDiff(oa, ob))
			}
			res.Violations = append(res.Violations, common.Violation{Property: "C05", Kind: "failed-tx-visible-later",
				Detail: fmt.Sprintf("a node that was fed the history without its %d failed deliveries differs at %s", dropped, d), Ops: lines})
			return true
		}
	}
	if len(pa) != len(pb) {
		res.Violations = append(res.Violations, common.Violation{Property: "C05", Kind: "failed-tx-visible-later",
			Detail: fmt.Sprintf("different number of operations executed without the failed deliveries: %d vs %d", len(pa), len(pb)), Ops: lines})
		return true
	}
	return false
}

func min(a, b int) int {
	if a < b {
		return a
	}
	return b
}
