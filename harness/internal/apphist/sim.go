// Package apphist generates block histories, executes them on the real application
// (primary node), records the model's operation lines together with the canonical
// implementation outputs, and simulates Tendermint's validator-set pipeline (tmsim).
package apphist

import (
	"fmt"
	"path/filepath"
	"sort"
	"strings"

	"github.com/holiman/uint256"
	rtypes "github.com/rigochain/rigo-go/types"
	"verifharness/internal/appdrv"
	"verifharness/internal/evmgen"
	"verifharness/internal/rng"
)

var E18 = uint256.MustFromDecimal("1000000000000000000")

func Rigo(n uint64) *uint256.Int { return new(uint256.Int).Mul(uint256.NewInt(n), E18) }

// ValInfo is one member of a Tendermint validator set.
type ValInfo struct {
	Pub   []byte
	Addr  rtypes.Address
	Power int64
}

// Rec is one recorded operation: the model line, the canonical implementation output,
// and what is needed to replay it on another node.
type Rec struct {
	Kind  string // init begin tx end commit restart dump
	Line  string // model input line
	Out   string // canonical implementation output
	Tx    []byte // raw bytes (tx)
	Mode  string // d | c
	Begin *BeginArgs
	Gen   *appdrv.Genesis
	Hash  []byte // app hash (commit)
	Note  string
}

type BeginArgs struct {
	H        int64
	T        int64
	Proposer rtypes.Address
	Votes    []appdrv.Vote
	Evid     []rtypes.Address
}

type StakeRef struct {
	Owner int // key index
	To    rtypes.Address
	Hash  []byte
	Power int64
}

type ContractRef struct {
	Addr rtypes.Address
	Prog evmgen.Program
}

type PropRef struct {
	Hash       []byte
	Start, End int64
	Applying   int64
	NOpts      int
}

type Sim struct {
	R                     *rng.R
	Seed                  uint64
	Work                  string
	Gen                   *appdrv.Genesis
	Keys                  []*appdrv.Key
	N                     *appdrv.Node
	Recs                  []*Rec
	Height                int64
	Time                  int64
	ValSets               map[int64][]ValInfo // validator set of block h
	Stakes                []StakeRef
	Props                 []PropRef
	TMError               string // first Tendermint rejection of a validator update list
	Violations            []string
	nodeSeq               int
	Contracts             []ContractRef
	Children              []rtypes.Address          // contracts created by inner CREATE (no native code marker)
	PendingProg           map[string]evmgen.Program // deploy tx hash -> program
	Opt                   Options
	absentIdx, absentLeft int
	Obs                   Observer
	GenesisEligible       bool             // genesis validators satisfy the governance limits (count, minimum stake)
	Cur                   *BeginArgs       // header of the block in execution
	PendingEvidence       []rtypes.Address // scenario: evidence to inject into the next block
	PendingCheck          []func() []byte  // scenario: transactions to CheckTx (never delivered)
	ForceScenario         int              // template number + 1 to run at the next scenario slot (0 = free choice)
	RestartAfterCommit    bool             // scenario: restart the primary after the next commit
	PreBeginCheck         []func() []byte  // scenario: transactions to CheckTx before the next BeginBlock
	scn15Tried            bool
	scnH                  int64
	scnBurns              int
	vmSeen                map[string]string
	scnHash               []byte
	scnA, scnB            *appdrv.Key
	QuietAll              bool // scenario: every proposal gets a quiet window around its applying height
	VoteAll               bool // scenario: every validator votes on the latest proposal when its window opens
	Restarted             bool // a restart happened since the last EndBlock
	EverRestarted         bool
}

// Observer receives the primary node's state around every call (monitors).
type Observer interface {
	OnInit(s *Sim, post string)
	OnBegin(s *Sim, a *BeginArgs, pre, post string, out appdrv.BeginOut)
	OnPreDeliver(s *Sim, bz []byte)
	OnDeliver(s *Sim, bz []byte, pre, post string, o appdrv.TxOut, tr *appdrv.EvmTrace)
	OnEnd(s *Sim, pre, post string, ups []appdrv.ValUp)
	OnCommit(s *Sim, post string, hash []byte)
	OnRestart(s *Sim, infoOK bool)
	OnQuery(s *Sim, path string, data []byte, h int64, canon string)
}

type Options struct {
	MaxBlocks    int
	TxPerBlock   int
	WithEVM      bool
	WithCheckTx  bool // interleave CheckTx on the primary
	InvalidPct   int
	WithRestarts bool // restarts of the primary are part of the schedule
	PlanScenario int  // template number + 1 that this history runs at its first applicable slot (0 = none)
}

// NumScenarios is the number of scenario templates (scenarios.go).
const NumScenarios = 22

func (s *Sim) add(r *Rec) *Rec { s.Recs = append(s.Recs, r); return r }

func hexOrDash(b []byte) string { return appdrv.Hex(b) }

// ---------------------------------------------------------------- genesis

func paramsLine(p *appdrv.Params) string {
	return fmt.Sprintf("%d,%s,%s,%s,%d,%d,%s,%d,%d,%d,%d,%d,%d,%d,%d,%d,%d,%d,%d", p.MaxValidatorCnt, p.MinValidatorStake,
		p.MinDelegatorStake, p.RewardPerPower, p.LazyRewardBlocks, p.LazyApplyingBlocks, p.GasPrice, p.MinTrxGas, p.MaxTrxGas,
		p.MaxBlockGas, p.MinVoting, p.MaxVoting, p.MinSelfStakeRatio, p.MaxUpdatableStakeRatio, p.MaxIndividualStakeRatio,
		p.SlashRatio, p.SignedBlocksWindow, p.MinSignedBlocks, p.Version)
}

// GenParams draws a governance parameter set with small windows so that every timed rule fires.
func GenParams(r *rng.R) *appdrv.Params {
	pick := func(xs ...int64) int64 { return xs[r.Intn(len(xs))] }
	minVoting := pick(1, 2, 3)
	p := &appdrv.Params{
		Version: 1, MaxValidatorCnt: pick(1, 2, 3, 5, 5, 10),
		MinValidatorStake: []string{"0", "1000000000000000000", "5000000000000000000"}[r.Intn(3)],
		MinDelegatorStake: []string{"0", "0", "2000000000000000000"}[r.Intn(3)],
		RewardPerPower:    []string{"2000000000", "1", "4756468797"}[r.Intn(3)],
		LazyRewardBlocks:  pick(1, 2, 3, 4), LazyApplyingBlocks: pick(0, 1, 2, 3),
		GasPrice: []string{"10", "1", "250000000000"}[r.Intn(3)], MinTrxGas: uint64(pick(10, 1, 4000)),
		MaxTrxGas: 25000000, MaxBlockGas: 18446744073709551615,
		MinVoting: minVoting, MaxVoting: minVoting + pick(0, 1, 2),
		MinSelfStakeRatio: pick(0, 30, 50), MaxUpdatableStakeRatio: pick(33, 50, 100), MaxIndividualStakeRatio: pick(33, 50, 100, 10000000),
		SlashRatio: pick(1, 33, 50, 99, 100), SignedBlocksWindow: pick(4, 5, 8), MinSignedBlocks: pick(1, 2, 3),
	}
	return p
}

func NewSim(seed uint64, r *rng.R, work string, opt Options) (*Sim, error) {
	s := &Sim{R: r, Seed: seed, Work: work, Opt: opt, ValSets: map[int64][]ValInfo{}, Time: 1700000000, PendingProg: map[string]evmgen.Program{}}
	nvals := []int{1, 2, 3, 3, 4, 5, 5, 6}[r.Intn(8)]
	nusers := r.Range(2, 5)
	for i := 0; i < nvals+nusers; i++ {
		s.Keys = append(s.Keys, appdrv.NewKey(seed, i))
	}
	g := &appdrv.Genesis{ChainID: []string{"rigo-verif", "c", "test-chain-9"}[r.Intn(3)], Params: GenParams(r)}
	powers := []int64{1, 5, 10, 10, 10, 20, 50}
	for i := 0; i < nvals; i++ {
		g.Vals = append(g.Vals, appdrv.GenVal{Key: s.Keys[i], Power: powers[r.Intn(len(powers))]})
	}
	for i, k := range s.Keys {
		bal := Rigo(uint64(r.Range(50, 2000)))
		if i >= nvals && r.Chance(20) {
			bal = uint256.NewInt(uint64(r.Range(0, 100000)))
		}
		if !(i < nvals && r.Chance(15)) { // some validators have no genesis balance record
			g.Holders = append(g.Holders, appdrv.Holder{Addr: k.Addr, Bal: bal})
		}
	}
	// the validator properties quantify over genesis sets that satisfy the limits: mostly generate those
	minP := int64(1 << 62)
	for _, v := range g.Vals {
		if v.Power < minP {
			minP = v.Power
		}
	}
	if r.Chance(85) {
		if g.Params.MaxValidatorCnt < int64(nvals) {
			g.Params.MaxValidatorCnt = int64(nvals) + int64(r.Intn(3))
		}
		if g.Params.MinValidatorStake == "5000000000000000000" && minP < 5 {
			g.Params.MinValidatorStake = "1000000000000000000"
		}
	}
	minStake := uint256.MustFromDecimal(g.Params.MinValidatorStake)
	s.GenesisEligible = g.Params.MaxValidatorCnt >= int64(nvals) && Rigo(uint64(minP)).Cmp(minStake) >= 0
	s.Gen = g
	n, err := appdrv.OpenNode(filepath.Join(work, s.nextDir()))
	if err != nil {
		return nil, err
	}
	s.N = n
	return s, nil
}

func (s *Sim) nextDir() string { s.nodeSeq++; return fmt.Sprintf("n%d", s.nodeSeq) }

func (s *Sim) GenesisLine() string {
	var hs, vs []string
	for _, h := range s.Gen.Holders {
		hs = append(hs, fmt.Sprintf("%s:%s", appdrv.Hex(h.Addr), h.Bal.Dec()))
	}
	for _, v := range s.Gen.Vals {
		vs = append(vs, fmt.Sprintf("%s:%s:%d", appdrv.Hex(v.Key.Pub), appdrv.Hex(v.Key.Addr), v.Power))
	}
	j := func(l []string) string {
		if len(l) == 0 {
			return "-"
		}
		return strings.Join(l, ",")
	}
	return fmt.Sprintf("init chain=%s params=%s holders=%s vals=%s", appdrv.Hex([]byte(s.Gen.ChainID)), paramsLine(s.Gen.Params), j(hs), j(vs))
}

func (s *Sim) Init() {
	p := s.N.InitChain(s.Gen)
	out := "ok"
	if p != "" {
		out = "panic"
		s.N.Dead = p
	}
	s.add(&Rec{Kind: "init", Line: s.GenesisLine(), Out: out, Gen: s.Gen})
	var vs []ValInfo
	for _, v := range s.Gen.Vals {
		vs = append(vs, ValInfo{Pub: v.Key.Pub, Addr: v.Key.Addr, Power: v.Power})
		s.Stakes = append(s.Stakes, StakeRef{Owner: s.keyIdx(v.Key.Addr), To: v.Key.Addr, Hash: make([]byte, 32), Power: v.Power})
	}
	s.ValSets[1] = vs
	s.ValSets[2] = vs
	s.Dump()
	if s.Obs != nil {
		s.Obs.OnInit(s, s.N.Dump())
	}
}

func (s *Sim) keyIdx(a rtypes.Address) int {
	for i, k := range s.Keys {
		if string(k.Addr) == string(a) {
			return i
		}
	}
	return -1
}

func (s *Sim) Dump() {
	s.add(&Rec{Kind: "dump", Line: "dump", Out: s.N.Dump()})
}

// ---------------------------------------------------------------- tmsim

// applyUpdates is Tendermint's ValidatorSet.UpdateWithChangeSet acceptance + effect (v0.34).
func applyUpdates(cur []ValInfo, ups []appdrv.ValUp, addrOf func(pub []byte) rtypes.Address) ([]ValInfo, string) {
	seen := map[string]bool{}
	m := map[string]ValInfo{}
	for _, v := range cur {
		m[string(v.Addr)] = v
	}
	for _, u := range ups {
		a := addrOf(u.Pub)
		if u.Power < 0 {
			return cur, fmt.Sprintf("negative power %d for %x", u.Power, a)
		}
		if seen[string(a)] {
			return cur, fmt.Sprintf("duplicate entry %x", a)
		}
		seen[string(a)] = true
	}
	for _, u := range ups {
		a := addrOf(u.Pub)
		if u.Power == 0 {
			if _, ok := m[string(a)]; !ok {
				return cur, fmt.Sprintf("failed to find validator %x to remove", a)
			}
			delete(m, string(a))
		} else {
			m[string(a)] = ValInfo{Pub: u.Pub, Addr: a, Power: u.Power}
		}
	}
	if len(m) == 0 {
		return cur, "applying the validator changes would result in empty set"
	}
	var out []ValInfo
	total := int64(0)
	for _, v := range m {
		out = append(out, v)
		total += v.Power
	}
	if total > (1<<63-1)/8 {
		return cur, "total voting power exceeds MaxTotalVotingPower"
	}
	sort.Slice(out, func(i, j int) bool { return string(out[i].Addr) < string(out[j].Addr) })
	return out, ""
}

func (s *Sim) valset(h int64) []ValInfo {
	if v, ok := s.ValSets[h]; ok {
		return v
	}
	// carry the latest known set forward
	for k := h; k >= 1; k-- {
		if v, ok := s.ValSets[k]; ok {
			return v
		}
	}
	return nil
}
