package apphist

import (
	"encoding/json"
	"fmt"
	"math/big"
	"time"

	ctrlertypes "github.com/rigochain/rigo-go/ctrlers/types"
	tmrpccore "github.com/tendermint/tendermint/rpc/core"
	sm "github.com/tendermint/tendermint/state"
	tmtypes "github.com/tendermint/tendermint/types"
	"verifharness/internal/appdrv"
	"verifharness/internal/evmgen"
)

// rpcStore answers tmrpccore.Block for the heights the application has committed (vm_call reads the
// block time through Tendermint's RPC environment).
type rpcStore struct {
	sm.BlockStore
	height func() int64
}

func (f *rpcStore) Base() int64   { return 1 }
func (f *rpcStore) Height() int64 { return f.height() }
func (f *rpcStore) Size() int64   { return f.height() }
func (f *rpcStore) LoadBlock(h int64) *tmtypes.Block {
	if h < 1 || h > f.height() {
		return nil
	}
	return &tmtypes.Block{Header: tmtypes.Header{Height: h, Time: time.Unix(1700000000+h, 0)}}
}
func (f *rpcStore) LoadBlockMeta(h int64) *tmtypes.BlockMeta {
	if h < 1 || h > f.height() {
		return nil
	}
	return &tmtypes.BlockMeta{Header: tmtypes.Header{Height: h, Time: time.Unix(1700000000+h, 0)}}
}

// VmCallProbe (C17, "vm_call executes on an immutable state at the requested height", "a read-only contract call
// never changes state", "native transfers made before are visible to later contract code"): calls the balance-view
// contract (returns BALANCE(arg)) through the `vm_call` query for a random account at the latest and at a past
// height; the answer must be the native balance the `account` query reports for that height, an answer for a past
// height must never change, and the call must leave the node's state untouched.
// Returns ("", "") when everything agrees or nothing could be probed.
func (s *Sim) VmCallProbe(target []byte) (kind, detail string) {
	var view *ContractRef
	for i := range s.Contracts {
		if s.Contracts[i].Prog.Name == "balanceview" {
			view = &s.Contracts[i]
		}
	}
	if view == nil || s.Height < 1 {
		return "", ""
	}
	tmrpccore.SetEnvironment(&tmrpccore.Environment{BlockStore: &rpcStore{height: func() int64 { return s.N.Height }}})
	r := s.R
	if s.vmSeen == nil {
		s.vmSeen = map[string]string{}
	}
	for try := 0; try < 2; try++ {
		who := s.Keys[r.Intn(len(s.Keys))].Addr
		if r.Chance(25) && len(s.Contracts) > 0 {
			who = s.Contracts[r.Intn(len(s.Contracts))].Addr
		}
		if try == 0 && len(target) == 20 {
			who = target // the account a pending CheckTx / the executing block just touched
		}
		h := int64(0)
		if try == 1 {
			h = int64(r.Range(1, int(s.Height)))
		}
		from := s.Keys[r.Intn(len(s.Keys))].Addr
		data := append(append(append([]byte(nil), from...), view.Addr...), evmgen.Word(who)...)
		pre := s.N.Dump()
		o := s.N.Query("vm_call", data, h)
		if o.Panic != "" {
			return "vmcall-panic", fmt.Sprintf("vm_call at height %d panicked: %s", h, o.Panic)
		}
		if post := s.N.Dump(); post != pre {
			return "vmcall-changes-state", fmt.Sprintf("a read-only vm_call (balance view of %s at height %d) changed the state", appdrv.Hex(who), h)
		}
		eff := h
		if eff == 0 {
			eff = s.Height
		}
		key := fmt.Sprintf("%d/%x", eff, who)
		if o.Code != 0 {
			// the contract may not exist yet at that height: nothing to compare, but the answer must be stable
			if old, ok := s.vmSeen[key]; ok && old != "err" {
				return "vmcall-answer-changed", fmt.Sprintf("vm_call balance view of %s at height %d answered %s earlier and an error now (%s)", appdrv.Hex(who), eff, old, o.Log)
			}
			s.vmSeen[key] = "err"
			continue
		}
		var res ctrlertypes.VMCallResult
		if err := json.Unmarshal(o.Value, &res); err != nil {
			continue
		}
		got := new(big.Int).SetBytes(res.ReturnData).String()
		if res.Err != "" || len(res.ReturnData) == 0 {
			got = "none:" + res.Err
		}
		if old, ok := s.vmSeen[key]; ok && old != got {
			return "vmcall-answer-changed", fmt.Sprintf("vm_call balance view of %s at height %d answered %s earlier and %s now", appdrv.Hex(who), eff, old, got)
		}
		s.vmSeen[key] = got
		if len(res.ReturnData) == 32 && res.Err == "" {
			// the contract exists at that height (code was executed): compare with the native ledger at that height
			a := s.N.Query("account", who, eff)
			if a.Code == 0 {
				var acct struct {
					Balance string `json:"balance"`
				}
				if json.Unmarshal(a.Value, &acct) == nil && acct.Balance != "" && acct.Balance != got {
					return "vmcall-balance", fmt.Sprintf("vm_call at height %d: BALANCE(%s) = %s inside the EVM, the native ledger committed %s at that height", eff, appdrv.Hex(who), got, acct.Balance)
				}
			}
		}
	}
	return "", ""
}
