package apphist

import (
	"github.com/holiman/uint256"
	ctrlertypes "github.com/rigochain/rigo-go/ctrlers/types"
	rtypes "github.com/rigochain/rigo-go/types"
	tmtypes "github.com/tendermint/tendermint/types"
	"verifharness/internal/appdrv"
	"verifharness/internal/evmgen"
)

// Scenario templates: shapes that purely random generation reaches too rarely (several operations on
// one delegatee / account inside a block, dust stakes under slashing, a validator dropping below the
// minimum while still holding delegations, mempool-only transactions that would restructure stakes,
// contract / native / contract interleavings on one account, full proposal life cycles with queries,
// proposals without options, contract transactions involving the block proposer).
// Each returns the transactions to deliver in the CURRENT block (in order) and optionally requests
// evidence against a validator in the NEXT block.

type ScenarioOut struct {
	deliver   [][]byte
	checkOnly [][]byte
	replay    []int // indices into deliver to be delivered again at the end of the block
}

func (s *Sim) userKeys(n int) []*appdrv.Key {
	var out []*appdrv.Key
	perm := s.R.Intn(len(s.Keys))
	for i := 0; i < len(s.Keys) && len(out) < n; i++ {
		k := s.Keys[(perm+i)%len(s.Keys)]
		if _, bal, ok := s.acct(k.Addr); ok && bal.Cmp(Rigo(30)) > 0 {
			out = append(out, k)
		}
	}
	return out
}

func (s *Sim) someValidator() *appdrv.Key {
	vs := s.lastValidatorKeys()
	if len(vs) == 0 {
		return nil
	}
	return vs[s.R.Intn(len(vs))]
}

// nextNonce builds successive transactions of one sender inside one block.
type nonceBook map[string]uint64

func (s *Sim) specN(nb nonceBook, k *appdrv.Key, typ int32, to rtypes.Address, amt *uint256.Int, pl ctrlertypes.ITrxPayload) *appdrv.TxSpec {
	sp := s.base(k, typ, to, amt, pl)
	if n, ok := nb[string(k.Addr)]; ok {
		sp.Nonce = n
	}
	nb[string(k.Addr)] = sp.Nonce + 1
	return sp
}

// Scenario picks one applicable template; nil if none applies.
func (s *Sim) Scenario() *ScenarioOut {
	r := s.R
	nb := nonceBook{}
	out := &ScenarioOut{}
	pick := r.Intn(25)
	forced := false
	if s.ForceScenario > 0 {
		pick = s.ForceScenario - 1
		s.ForceScenario = 0
		forced = true
	}
	if !forced && pick >= 22 {
		pick = 4 // the proposal life cycle is the longest template: give it more weight
	}
	switch pick {
	case 0: // dust stake in the middle of a validator's stake list, then evidence against it
		v := s.someValidator()
		us := s.userKeys(3)
		if v == nil || len(us) < 3 {
			return nil
		}
		amts := []uint64{uint64(r.Range(2, 6)), 1, uint64(r.Range(2, 6)), uint64(r.Range(2, 6))}
		for i, a := range amts {
			u := us[i%len(us)]
			out.deliver = append(out.deliver, s.specN(nb, u, ctrlertypes.TRX_STAKING, v.Addr, Rigo(a), nil).Build())
		}
		s.PendingEvidence = append(s.PendingEvidence, v.Addr)
	case 1: // validator keeps a small own stake, releases its big one (self below the minimum, delegations keep the total up)
		v := s.someValidator()
		us := s.userKeys(1)
		if v == nil || len(us) < 1 {
			return nil
		}
		out.deliver = append(out.deliver, s.specN(nb, v, ctrlertypes.TRX_STAKING, v.Addr, Rigo(uint64(r.Range(1, 3))), nil).Build())
		out.deliver = append(out.deliver, s.specN(nb, us[0], ctrlertypes.TRX_STAKING, v.Addr, Rigo(uint64(r.Range(3, 9))), nil).Build())
		out.deliver = append(out.deliver, s.specN(nb, v, ctrlertypes.TRX_UNSTAKING, v.Addr, nil, &ctrlertypes.TrxPayloadUnstaking{TxHash: make([]byte, 32)}).Build())
	case 2: // mempool-only: a validator with a delegator un-stakes its last own stake (CheckTx, never delivered)
		v := s.someValidator()
		us := s.userKeys(1)
		if v == nil || len(us) < 1 {
			return nil
		}
		out.deliver = append(out.deliver, s.specN(nb, us[0], ctrlertypes.TRX_STAKING, v.Addr, Rigo(uint64(r.Range(1, 4))), nil).Build())
		s.PendingCheck = append(s.PendingCheck, func() []byte {
			return s.base(v, ctrlertypes.TRX_UNSTAKING, v.Addr, nil, &ctrlertypes.TrxPayloadUnstaking{TxHash: make([]byte, 32)}).Build()
		})
	case 3: // contract touches B, B sends a native tx, another contract tx, B's tx replayed
		if !s.Opt.WithEVM {
			return nil
		}
		us := s.userKeys(3)
		if len(us) < 3 {
			return nil
		}
		a, b, c := us[0], us[1], us[2]
		var reader *ContractRef
		for i := range s.Contracts {
			if s.Contracts[i].Prog.Name == "balancereader" || s.Contracts[i].Prog.Name == "forwarder" {
				reader = &s.Contracts[i]
			}
		}
		if reader == nil {
			p := evmgen.Program{Name: "balancereader", Init: evmgen.BalanceReaderInit(), NeedsArg: true}
			s.PendingProg[string(p.Init)] = p
			out.deliver = append(out.deliver, s.specN(nb, a, ctrlertypes.TRX_CONTRACT, rtypes.ZeroAddress(), nil, &ctrlertypes.TrxPayloadContract{Data: p.Init}).Build())
			s.ForceScenario = 4 // come back in the next block, when the reader exists
			return out
		}
		out.deliver = append(out.deliver, s.specN(nb, a, ctrlertypes.TRX_CONTRACT, reader.Addr, nil, &ctrlertypes.TrxPayloadContract{Data: evmgen.Word(b.Addr)}).Build())
		out.deliver = append(out.deliver, s.specN(nb, b, ctrlertypes.TRX_TRANSFER, c.Addr, uint256.NewInt(uint64(r.Range(1, 1000))), nil).Build())
		if r.Bool() {
			out.deliver = append(out.deliver, s.specN(nb, a, ctrlertypes.TRX_CONTRACT, reader.Addr, nil, &ctrlertypes.TrxPayloadContract{Data: evmgen.Word(c.Addr)}).Build())
		} else {
			// … or a contract transaction that FAILS inside the EVM (invalid opcode as init code): whatever the block's
			// earlier EVM transactions touched and native transactions changed since must survive the revert
			out.deliver = append(out.deliver, s.specN(nb, a, ctrlertypes.TRX_CONTRACT, rtypes.ZeroAddress(), nil, &ctrlertypes.TrxPayloadContract{Data: []byte{0xfe}}).Build())
			out.deliver = append(out.deliver, s.specN(nb, c, ctrlertypes.TRX_TRANSFER, b.Addr, uint256.NewInt(uint64(r.Range(1, 1000))), nil).Build())
		}
		out.replay = []int{1}
	case 4: // proposal life cycle: a validator proposes, every validator votes option 0; queried by hash later
		v := s.someValidator()
		if v == nil {
			return nil
		}
		ap := s.N.App.VerifGov().VerifActiveParams()
		h := s.Height + 1
		start := h + 1
		period := ap.MinVotingPeriodBlocks()
		applying := start + period + ap.LazyApplyingBlocks() + int64(r.Intn(2))
		opts := [][]byte{[]byte(optionPool[r.Intn(len(optionPool))]), []byte(optionPool[r.Intn(len(optionPool))])}
		if forced || r.Chance(50) { // eligibility-changing parameters: validator membership changes without any stake change
			el := []string{`{"minValidatorStake":"3000000000000000000"}`, `{"minValidatorStake":"20000000000000000000"}`, `{"maxValidatorCnt":"1"}`, `{"maxValidatorCnt":"2"}`, `{"minValidatorStake":"6000000000000000000"}`}
			opts[0] = []byte(el[r.Intn(len(el))])
		}
		if r.Chance(15) {
			// options that are valid JSON as submitted but whose text the apply-time hot-fix (`""}` -> `"}`) rewrites:
			// whatever the validation admits must still parse when the proposal is applied
			hot := []string{`{"gasPrice":""}`, `{"minTrxGas":"20","gasPrice":""}`, `{"gasPrice":"20" ,"minTrxGas":""}`}
			opts[0] = []byte(hot[r.Intn(len(hot))])
		}
		optType := int32(257)
		if !forced && r.Chance(30) {
			optType = 512
		}
		if forced {
			s.QuietAll = true // nothing but the parameter change happens around the applying height
		}
		bz := s.specN(nb, v, ctrlertypes.TRX_PROPOSAL, rtypes.ZeroAddress(), nil, &ctrlertypes.TrxPayloadProposal{Message: "s", StartVotingHeight: start,
			VotingPeriodBlocks: period, ApplyingHeight: applying, OptType: optType, Options: opts}).Build()
		out.deliver = append(out.deliver, bz)
		s.VoteAll = true
	case 5: // a non-parameter proposal without options
		v := s.someValidator()
		if v == nil {
			return nil
		}
		ap := s.N.App.VerifGov().VerifActiveParams()
		start := s.Height + 2
		period := ap.MinVotingPeriodBlocks()
		out.deliver = append(out.deliver, s.specN(nb, v, ctrlertypes.TRX_PROPOSAL, rtypes.ZeroAddress(), nil, &ctrlertypes.TrxPayloadProposal{Message: "e", StartVotingHeight: start,
			VotingPeriodBlocks: period, ApplyingHeight: start + period + ap.LazyApplyingBlocks(), OptType: 512, Options: nil}).Build())
	case 8: // a nested call frame touches a funded bystander and reverts (failure swallowed), then the outer frame touches it again
		if !s.Opt.WithEVM {
			return nil
		}
		us := s.userKeys(2)
		if len(us) < 2 {
			return nil
		}
		var touch, retouch *ContractRef
		for i := range s.Contracts {
			switch s.Contracts[i].Prog.Name {
			case "touchreverter":
				touch = &s.Contracts[i]
			case "retoucher":
				retouch = &s.Contracts[i]
			}
		}
		if touch == nil || retouch == nil {
			for _, p := range []evmgen.Program{evmgen.TouchReverter(), evmgen.Retoucher()} {
				if (p.Name == "touchreverter" && touch != nil) || (p.Name == "retoucher" && retouch != nil) {
					continue
				}
				s.PendingProg[string(p.Init)] = p
				out.deliver = append(out.deliver, s.specN(nb, us[0], ctrlertypes.TRX_CONTRACT, rtypes.ZeroAddress(), nil, &ctrlertypes.TrxPayloadContract{Data: p.Init}).Build())
			}
			s.ForceScenario = 9 // call them in the next scenario slot
			return out
		}
		bystander := us[1].Addr
		if r.Chance(30) {
			bystander = r.Bytes(20)
		}
		data := append(evmgen.Word(touch.Addr), evmgen.Word(bystander)...)
		out.deliver = append(out.deliver, s.specN(nb, us[0], ctrlertypes.TRX_CONTRACT, retouch.Addr, uint256.NewInt(uint64(r.Range(0, 400))), &ctrlertypes.TrxPayloadContract{Data: data}).Build())
	case 7: // one delegator leaves and another joins a validator with the same power in the same block (total unchanged, stakes differ)
		var st *StakeRef
		for i := len(s.Stakes) - 1; i >= 0; i-- {
			c := s.Stakes[i]
			if c.Owner >= 0 && c.Power > 0 && string(s.Keys[c.Owner].Addr) != string(c.To) {
				st = &s.Stakes[i]
				break
			}
		}
		us := s.userKeys(2)
		if len(us) < 2 {
			return nil
		}
		if st == nil {
			// no delegated stake yet: create one and swap it in the next scenario slot
			v := s.someValidator()
			if v == nil {
				return nil
			}
			out.deliver = append(out.deliver, s.specN(nb, us[0], ctrlertypes.TRX_STAKING, v.Addr, Rigo(uint64(r.Range(1, 9))), nil).Build())
			s.ForceScenario = 8
			return out
		}
		joiner := us[0]
		if string(joiner.Addr) == string(s.Keys[st.Owner].Addr) {
			joiner = us[1]
		}
		out.deliver = append(out.deliver, s.specN(nb, s.Keys[st.Owner], ctrlertypes.TRX_UNSTAKING, st.To, nil, &ctrlertypes.TrxPayloadUnstaking{TxHash: st.Hash}).Build())
		target := st.To
		if w := s.someValidator(); w != nil && r.Bool() {
			target = w.Addr // the power MOVES to another validator: the number of validators and the power sum stay the same
		}
		out.deliver = append(out.deliver, s.specN(nb, joiner, ctrlertypes.TRX_STAKING, target, Rigo(uint64(st.Power)), nil).Build())
	case 9: // several pieces of evidence against one validator in ONE block while it is a voter of an open proposal
		var open bool
		for _, p := range s.Props {
			if p.Start <= s.Height+1 && p.End >= s.Height+2 {
				open = true
			}
		}
		v := s.someValidator()
		if v == nil {
			return nil
		}
		if !open {
			// no open proposal: start one (template 4) and come back
			ap := s.N.App.VerifGov().VerifActiveParams()
			start := s.Height + 2
			period := ap.MaxVotingPeriodBlocks()
			opts := [][]byte{[]byte(optionPool[r.Intn(len(optionPool))]), []byte(optionPool[r.Intn(len(optionPool))])}
			out.deliver = append(out.deliver, s.specN(nb, v, ctrlertypes.TRX_PROPOSAL, rtypes.ZeroAddress(), nil, &ctrlertypes.TrxPayloadProposal{Message: "d", StartVotingHeight: start,
				VotingPeriodBlocks: period, ApplyingHeight: start + period + ap.LazyApplyingBlocks(), OptType: 257, Options: opts}).Build())
			s.VoteAll = true
			s.ForceScenario = 10
			return out
		}
		n := r.Range(2, 3)
		for i := 0; i < n; i++ {
			s.PendingEvidence = append(s.PendingEvidence, v.Addr)
		}
		if w := s.someValidator(); w != nil && r.Bool() {
			s.PendingEvidence = append(s.PendingEvidence, w.Addr)
		}
	case 10: // (needs restarts + CheckTx) restart; a rejected CheckTx reads A and B in the mempool view; the next block
		// delivers A's transfer to B and, while the block is open, a follow-up of A reaches the mempool only
		if !s.Opt.WithRestarts || !s.Opt.WithCheckTx {
			return nil
		}
		us := s.userKeys(2)
		if len(us) < 2 {
			return nil
		}
		a, b := us[0], us[1]
		s.RestartAfterCommit = true
		s.PreBeginCheck = append(s.PreBeginCheck, func() []byte {
			sp := s.base(a, ctrlertypes.TRX_TRANSFER, b.Addr, uint256.NewInt(uint64(r.Range(1, 1000))), nil)
			sp.Nonce += 5 // rejected at the nonce check, after sender and receiver were read
			return sp.Build()
		})
		s.scnA, s.scnB = a, b
		s.ForceScenario = 12
	case 11: // second phase of 10
		a, b := s.scnA, s.scnB
		if a == nil || b == nil {
			return nil
		}
		sp := s.specN(nb, a, ctrlertypes.TRX_TRANSFER, b.Addr, uint256.NewInt(uint64(r.Range(1, 1000))), nil)
		out.deliver = append(out.deliver, sp.Build())
		next := sp.Nonce + 1
		s.PendingCheck = append(s.PendingCheck, func() []byte {
			f := s.base(a, ctrlertypes.TRX_TRANSFER, b.Addr, uint256.NewInt(uint64(r.Range(1, 1000))), nil)
			f.Nonce = next
			return f.Build()
		})
		s.scnA, s.scnB = nil, nil
	case 12: // somebody who does not own it tries to release a stake of a validator; in the same block the owner
		// side (a delegation to / a release from the same validator) follows: the rejected attempt must not count
		v := s.someValidator()
		us := s.userKeys(2)
		if v == nil || len(us) < 2 {
			return nil
		}
		hash := make([]byte, 32) // the genesis stake of a genesis validator
		for _, st := range s.Stakes {
			if string(st.To) == string(v.Addr) && st.Owner >= 0 && r.Bool() {
				hash = st.Hash
			}
		}
		thief := us[0]
		if string(thief.Addr) == string(v.Addr) {
			thief = us[1]
		}
		out.deliver = append(out.deliver, s.specN(nb, thief, ctrlertypes.TRX_UNSTAKING, v.Addr, nil, &ctrlertypes.TrxPayloadUnstaking{TxHash: hash}).Build())
		out.deliver = append(out.deliver, s.specN(nb, us[1], ctrlertypes.TRX_STAKING, v.Addr, Rigo(uint64(r.Range(1, 3))), nil).Build())
		if r.Bool() {
			out.deliver = append(out.deliver, s.specN(nb, us[0], ctrlertypes.TRX_STAKING, v.Addr, Rigo(1), nil).Build())
		}
	case 13: // a native transaction whose (unconstrained) receiver is a contract account, delivered twice
		if !s.Opt.WithEVM {
			return nil
		}
		us := s.userKeys(2)
		if len(us) < 1 {
			return nil
		}
		if len(s.Contracts) == 0 {
			p := evmgen.Program{Name: "balancereader", Init: evmgen.BalanceReaderInit(), NeedsArg: true}
			s.PendingProg[string(p.Init)] = p
			out.deliver = append(out.deliver, s.specN(nb, us[0], ctrlertypes.TRX_CONTRACT, rtypes.ZeroAddress(), nil, &ctrlertypes.TrxPayloadContract{Data: p.Init}).Build())
			s.ForceScenario = 14
			return out
		}
		c := s.Contracts[r.Intn(len(s.Contracts))]
		u := us[r.Intn(len(us))]
		switch r.Intn(3) {
		case 0:
			out.deliver = append(out.deliver, s.specN(nb, u, ctrlertypes.TRX_SETDOC, c.Addr, nil, &ctrlertypes.TrxPayloadSetDoc{Name: "c", URL: "https://c"}).Build())
		case 1:
			out.deliver = append(out.deliver, s.specN(nb, u, ctrlertypes.TRX_WITHDRAW, c.Addr, nil, &ctrlertypes.TrxPayloadWithdraw{ReqAmt: uint256.NewInt(0)}).Build())
		default:
			if v := s.someValidator(); v != nil {
				u = v
			}
			out.deliver = append(out.deliver, s.specN(nb, u, ctrlertypes.TRX_SETDOC, c.Addr, nil, &ctrlertypes.TrxPayloadSetDoc{Name: "v", URL: "https://v"}).Build())
		}
		out.replay = []int{0}
	case 14: // a rejected transaction names a receiver of a wrong length; a valid transfer to the 20-byte address that
		// shares its (zero-padded / truncated) 32-byte ledger key follows in the same block
		us := s.userKeys(2)
		if len(us) < 2 {
			return nil
		}
		y := r.Bytes(20)
		var x []byte
		switch r.Intn(3) {
		case 0:
			y[19] = 0
			x = append([]byte{}, y[:19]...)
		case 1:
			x = append(append([]byte{}, y...), 0)
		default:
			x = append(append(append([]byte{}, y...), make([]byte, 12)...), 0xff)
		}
		out.deliver = append(out.deliver, s.specN(nb, us[0], ctrlertypes.TRX_TRANSFER, x, uint256.NewInt(uint64(r.Range(1, 50))), nil).Build())
		out.deliver = append(out.deliver, s.specN(nb, us[1], ctrlertypes.TRX_TRANSFER, y, uint256.NewInt(uint64(r.Range(1, 50))), nil).Build())
	case 15: // (needs CheckTx) the mempool accepts a delegation to validator V (and a vote of V if a proposal is open)
		// that never reaches a block; the next block brings evidence against V: the slashing must read the consensus
		// view, not the mempool view that already holds the undelivered changes
		if !s.Opt.WithCheckTx {
			return nil
		}
		v := s.someValidator()
		us := s.userKeys(1)
		if v == nil || len(us) < 1 {
			return nil
		}
		u := us[0]
		var openProp *PropRef
		for i := range s.Props {
			if p := s.Props[i]; p.Start <= s.Height+1 && p.End >= s.Height+2 && p.NOpts > 0 {
				openProp = &s.Props[i]
			}
		}
		if openProp == nil && !s.scn15Tried && r.Chance(60) {
			// no open proposal: start one (everybody votes option 0) and come back
			s.scn15Tried = true
			ap := s.N.App.VerifGov().VerifActiveParams()
			start := s.Height + 2
			period := ap.MaxVotingPeriodBlocks()
			opts := [][]byte{[]byte(optionPool[r.Intn(len(optionPool))]), []byte(optionPool[r.Intn(len(optionPool))])}
			out.deliver = append(out.deliver, s.specN(nb, v, ctrlertypes.TRX_PROPOSAL, rtypes.ZeroAddress(), nil, &ctrlertypes.TrxPayloadProposal{Message: "m", StartVotingHeight: start,
				VotingPeriodBlocks: period, ApplyingHeight: start + period + ap.LazyApplyingBlocks(), OptType: 257, Options: opts}).Build())
			s.VoteAll = true
			s.ForceScenario = 16
			return out
		}
		amt := uint64(r.Range(1, 4))
		s.PreBeginCheck = append(s.PreBeginCheck, func() []byte {
			return s.base(u, ctrlertypes.TRX_STAKING, v.Addr, Rigo(amt), nil).Build()
		})
		if openProp != nil {
			ph, choice := openProp.Hash, int32(openProp.NOpts-1)
			s.PreBeginCheck = append(s.PreBeginCheck, func() []byte {
				return s.base(v, ctrlertypes.TRX_VOTING, rtypes.ZeroAddress(), nil, &ctrlertypes.TrxPayloadVoting{TxHash: ph, Choice: choice}).Build()
			})
		}
		s.PendingEvidence = append(s.PendingEvidence, v.Addr)
	case 16: // a validator stops signing; two blocks later (it earned nothing in that block) it withdraws a little of its
		// reward, and the node is restarted after the commit: the withdrawal must be in what was persisted
		v := s.someValidator()
		if v == nil {
			return nil
		}
		vs := s.valset(s.Height)
		for i := range vs {
			if string(vs[i].Addr) == string(v.Addr) {
				s.absentIdx, s.absentLeft = i, 4
			}
		}
		s.scnA, s.scnH = v, s.Height+2
		s.ForceScenario = 18
	case 17: // second phase of 16
		v := s.scnA
		if v == nil {
			return nil
		}
		if s.Height < s.scnH {
			s.ForceScenario = 18
			return nil
		}
		out.deliver = append(out.deliver, s.specN(nb, v, ctrlertypes.TRX_WITHDRAW, v.Addr, nil, &ctrlertypes.TrxPayloadWithdraw{ReqAmt: uint256.NewInt(uint64(r.Range(1, 1000)))}).Build())
		s.RestartAfterCommit = true
		s.scnA = nil
	case 18: // a contract that burns all its gas is called with a 6M gas limit once per block, five blocks in a row:
		// the 25M block gas pool must be refilled by every BeginBlock
		if !s.Opt.WithEVM {
			return nil
		}
		us := s.userKeys(1)
		if len(us) < 1 {
			return nil
		}
		var burner *ContractRef
		for i := range s.Contracts {
			if s.Contracts[i].Prog.Name == "gasburner" {
				burner = &s.Contracts[i]
			}
		}
		if burner == nil {
			p := evmgen.Program{Name: "gasburner", Init: evmgen.GasBurnerInit()}
			s.PendingProg[string(p.Init)] = p
			out.deliver = append(out.deliver, s.specN(nb, us[0], ctrlertypes.TRX_CONTRACT, rtypes.ZeroAddress(), nil, &ctrlertypes.TrxPayloadContract{Data: p.Init}).Build())
			s.ForceScenario = 19
			return out
		}
		sp := s.specN(nb, us[0], ctrlertypes.TRX_CONTRACT, burner.Addr, nil, &ctrlertypes.TrxPayloadContract{Data: nil})
		sp.Gas = 6000000
		out.deliver = append(out.deliver, sp.Build())
		s.scnBurns++
		if s.scnBurns < 5 {
			s.ForceScenario = 19
		} else {
			s.scnBurns = 0
			// a cheap ordinary call after the series must still find gas in the pool
			for i := range s.Contracts {
				if s.Contracts[i].Prog.Name == "counter" {
					out.deliver = append(out.deliver, s.specN(nb, us[0], ctrlertypes.TRX_CONTRACT, s.Contracts[i].Addr, nil, &ctrlertypes.TrxPayloadContract{Data: nil}).Build())
					break
				}
			}
		}
	case 19: // an account self-stakes; in a later block it releases that (only) stake — its delegatee record is deleted —
		// and self-stakes twice more in the SAME block: delete, re-create and update of one ledger key in one block
		us := s.userKeys(3)
		var u *appdrv.Key
		for _, k := range us {
			isVal := false
			for _, v := range s.lastValidatorKeys() {
				if string(v.Addr) == string(k.Addr) {
					isVal = true
				}
			}
			if !isVal {
				u = k
			}
		}
		if u == nil {
			return nil
		}
		sp := s.specN(nb, u, ctrlertypes.TRX_STAKING, u.Addr, Rigo(uint64(r.Range(6, 12))), nil)
		bz := sp.Build()
		out.deliver = append(out.deliver, bz)
		s.scnA, s.scnHash = u, tmtypes.Tx(bz).Hash()
		s.ForceScenario = 21
	case 20: // second phase of 19
		u := s.scnA
		if u == nil || s.scnHash == nil {
			return nil
		}
		out.deliver = append(out.deliver, s.specN(nb, u, ctrlertypes.TRX_UNSTAKING, u.Addr, nil, &ctrlertypes.TrxPayloadUnstaking{TxHash: s.scnHash}).Build())
		out.deliver = append(out.deliver, s.specN(nb, u, ctrlertypes.TRX_STAKING, u.Addr, Rigo(uint64(r.Range(6, 9))), nil).Build())
		out.deliver = append(out.deliver, s.specN(nb, u, ctrlertypes.TRX_STAKING, u.Addr, Rigo(uint64(r.Range(1, 5))), nil).Build())
		s.scnA, s.scnHash = nil, nil
	case 21: // deploy the balance-view contract (RETURNs BALANCE(arg)): the vm_call probes after every commit use it
		if !s.Opt.WithEVM {
			return nil
		}
		for i := range s.Contracts {
			if s.Contracts[i].Prog.Name == "balanceview" {
				return nil
			}
		}
		us := s.userKeys(1)
		if len(us) < 1 {
			return nil
		}
		p := evmgen.Program{Name: "balanceview", Init: evmgen.BalanceViewInit(), NeedsArg: true}
		s.PendingProg[string(p.Init)] = p
		out.deliver = append(out.deliver, s.specN(nb, us[0], ctrlertypes.TRX_CONTRACT, rtypes.ZeroAddress(), nil, &ctrlertypes.TrxPayloadContract{Data: p.Init}).Build())
	case 6: // a contract transaction sent by / sent to / touching the proposer of this block
		if !s.Opt.WithEVM || s.Cur == nil || len(s.Cur.Proposer) == 0 || len(s.Contracts) == 0 {
			return nil
		}
		pi := s.keyIdx(s.Cur.Proposer)
		if pi < 0 {
			return nil
		}
		pk := s.Keys[pi]
		c := s.Contracts[r.Intn(len(s.Contracts))]
		var data []byte
		if c.Prog.NeedsArg {
			data = evmgen.Word(pk.Addr)
		}
		sender := pk
		if r.Bool() {
			if us := s.userKeys(1); len(us) > 0 {
				sender = us[0]
				data = evmgen.Word(pk.Addr)
			}
		}
		out.deliver = append(out.deliver, s.specN(nb, sender, ctrlertypes.TRX_CONTRACT, c.Addr, uint256.NewInt(uint64(r.Range(0, 500))), &ctrlertypes.TrxPayloadContract{Data: data}).Build())
	}
	return out
}

func (o *ScenarioOut) Deliver() [][]byte { return o.deliver }
func (o *ScenarioOut) Replays() [][]byte {
	var out [][]byte
	for _, i := range o.replay {
		if i < len(o.deliver) {
			out = append(out, o.deliver[i])
		}
	}
	return out
}

// VoteRound: every current validator votes option 0 on the most recent proposal inside its window.
func (s *Sim) VoteRound() [][]byte {
	if len(s.Props) == 0 {
		return nil
	}
	p := s.Props[len(s.Props)-1]
	h := s.Height + 1
	if h < p.Start || h > p.End {
		return nil
	}
	var out [][]byte
	for _, v := range s.lastValidatorKeys() {
		out = append(out, s.base(v, ctrlertypes.TRX_VOTING, rtypes.ZeroAddress(), nil, &ctrlertypes.TrxPayloadVoting{TxHash: p.Hash, Choice: 0}).Build())
	}
	s.VoteAll = false
	return out
}
