package apphist

import (
	"encoding/json"
	"fmt"

	"github.com/holiman/uint256"
	ctrlertypes "github.com/rigochain/rigo-go/ctrlers/types"
	"github.com/rigochain/rigo-go/ledger"
	rtypes "github.com/rigochain/rigo-go/types"
	tmtypes "github.com/tendermint/tendermint/types"
	"verifharness/internal/appdrv"
	"verifharness/internal/evmgen"
)

func (s *Sim) govPrice() *uint256.Int { return s.N.App.VerifGov().VerifActiveParams().GasPrice() }
func (s *Sim) minGas() uint64         { return s.N.App.VerifGov().VerifActiveParams().MinTrxGas() }

func (s *Sim) acct(a rtypes.Address) (nonce uint64, bal *uint256.Int, ok bool) {
	ac := s.N.AccountView(a)
	if ac == nil {
		return 0, uint256.NewInt(0), false
	}
	return ac.Nonce, ac.Balance.Clone(), true
}

// base builds a well-formed spec of the given type from key k.
func (s *Sim) base(k *appdrv.Key, typ int32, to rtypes.Address, amt *uint256.Int, pl ctrlertypes.ITrxPayload) *appdrv.TxSpec {
	nonce, _, _ := s.acct(k.Addr)
	gas := s.minGas() + uint64(s.R.Intn(3))
	if typ == ctrlertypes.TRX_CONTRACT {
		gas = 3000000
	}
	return &appdrv.TxSpec{Version: 1, Time: s.Time*1000000000 + int64(s.R.Intn(1000)), Nonce: nonce, From: k.Addr, To: to, Amount: amt,
		Gas: gas, GasPrice: s.govPrice(), Type: typ, Payload: pl, Signer: k, SignChain: s.N.ChainID}
}

func (s *Sim) fundedKey() *appdrv.Key {
	for i := 0; i < 10; i++ {
		k := s.Keys[s.R.Intn(len(s.Keys))]
		if _, bal, ok := s.acct(k.Addr); ok && bal.Cmp(Rigo(2)) > 0 {
			return k
		}
	}
	return s.Keys[s.R.Intn(len(s.Keys))]
}

func (s *Sim) boundaryAmount() *uint256.Int {
	pool := []string{"0", "1", "999999999999999999", "1000000000000000000", "9223372036854775808000000000000000000",
		"57896044618658097711785492504343953926634992332820282019728792003956564819967",
		"57896044618658097711785492504343953926634992332820282019728792003956564819968",
		"115792089237316195423570985008687907853269984665640564039457584007913129639935"}
	return uint256.MustFromDecimal(pool[s.R.Intn(len(pool))])
}

func (s *Sim) delegateeAddrs() []rtypes.Address {
	dl := s.N.App.VerifStake().VerifDelegateeLedger()
	var out []rtypes.Address
	for _, k := range dl.VerifKeys(true) {
		if d, ok := dl.VerifView(k, true); ok {
			out = append(out, d.Addr)
		}
	}
	return out
}

func (s *Sim) lastValidatorKeys() []*appdrv.Key {
	var out []*appdrv.Key
	for _, d := range s.N.App.VerifStake().VerifLastValidators() {
		if i := s.keyIdx(d.Addr); i >= 0 {
			out = append(out, s.Keys[i])
		}
	}
	return out
}

var optionPool = []string{
	`{"gasPrice":"20"}`, `{"gasPrice":"1"}`, `{"lazyRewardBlocks":"1"}`, `{"lazyRewardBlocks":"6"}`,
	`{"maxValidatorCnt":"1"}`, `{"maxValidatorCnt":"2"}`, `{"maxValidatorCnt":"4"}`, `{"minValidatorStake":"3000000000000000000"}`,
	`{"minValidatorStake":"20000000000000000000"}`, `{"slashRatio":"10"}`, `{"signedBlocksWindow":"3","minSignedBlocks":"2"}`,
	`{"rewardPerPower":"7"}`, `{"minTrxGas":"20"}`, `{"lazyApplyingBlocks":"1"}`, `{"minVotingPeriodBlocks":"1","maxVotingPeriodBlocks":"4"}`,
	`{"minSelfStakeRatio":"10"}`, `{"maxUpdatableStakeRatio":"100","maxIndividualStakeRatio":"100"}`, `{"version":"2"}`,
	`{"minDelegatorStake":"1000000000000000000"}`, `{}`,
}

// GenTx returns the bytes of one generated transaction (valid with probability ~ 100-InvalidPct).
func (s *Sim) GenTx() []byte {
	h := s.Height + 1
	r := s.R
	k := s.fundedKey()
	var spec *appdrv.TxSpec
	wEvm := 0
	if s.Opt.WithEVM {
		wEvm = 18
	}
	switch r.Pick(22, 10, 10, 12, 8, 6, 8, 10, wEvm) {
	case 0: // transfer
		var to rtypes.Address
		switch r.Pick(6, 2, 1) {
		case 0:
			to = s.Keys[r.Intn(len(s.Keys))].Addr
		case 1:
			to = r.Bytes(20)
		default:
			to = k.Addr
		}
		_, bal, _ := s.acct(k.Addr)
		amt := new(uint256.Int).Div(bal, uint256.NewInt(uint64(r.Range(2, 50))))
		if r.Chance(10) {
			amt = s.boundaryAmount()
		}
		spec = s.base(k, ctrlertypes.TRX_TRANSFER, to, amt, nil)
		if r.Chance(7) { // spend the balance to the last unit: amount + fee == balance (and one more / one less)
			fee := new(uint256.Int).Mul(spec.GasPrice, uint256.NewInt(spec.Gas))
			if bal.Cmp(fee) > 0 {
				spec.Amount = new(uint256.Int).Sub(bal, fee)
				switch r.Intn(4) {
				case 0:
					spec.Amount = new(uint256.Int).Add(spec.Amount, uint256.NewInt(1))
				case 1:
					spec.Amount = new(uint256.Int).Sub(spec.Amount, uint256.NewInt(1))
				}
			}
		}
	case 1: // self staking
		spec = s.base(k, ctrlertypes.TRX_STAKING, k.Addr, Rigo(uint64(r.Range(1, 12))), nil)
	case 2: // delegating
		ds := s.delegateeAddrs()
		to := k.Addr
		if len(ds) > 0 {
			to = ds[r.Intn(len(ds))]
		}
		amt := Rigo(uint64(r.Range(1, 8)))
		if r.Chance(30) {
			amt = Rigo(1) // dust stakes: forfeited rather than reduced by small slash ratios
		}
		if r.Chance(12) {
			amt = new(uint256.Int).Add(amt, uint256.NewInt(uint64(r.Range(1, 3))))
		}
		spec = s.base(k, ctrlertypes.TRX_STAKING, to, amt, nil)
	case 3: // unstaking
		if len(s.Stakes) == 0 {
			spec = s.base(k, ctrlertypes.TRX_SETDOC, r.Bytes(20), nil, &ctrlertypes.TrxPayloadSetDoc{Name: "x", URL: "y"})
			break
		}
		st := s.Stakes[r.Intn(len(s.Stakes))]
		owner := s.Keys[st.Owner]
		spec = s.base(owner, ctrlertypes.TRX_UNSTAKING, st.To, nil, &ctrlertypes.TrxPayloadUnstaking{TxHash: st.Hash})
	case 4: // withdraw
		req := uint256.NewInt(0)
		rl := s.N.App.VerifStake().VerifRewardLedger()
		if rw, ok := rl.VerifView(ledger.ToLedgerKey(k.Addr), true); ok {
			c := rw.GetCumulated()
			switch r.Pick(2, 4, 3, 2) {
			case 1:
				req = new(uint256.Int).Div(c, uint256.NewInt(uint64(r.Range(2, 5))))
			case 2:
				req = c
			case 3:
				req = new(uint256.Int).Add(c, uint256.NewInt(1))
			}
		} else if r.Chance(50) {
			req = uint256.NewInt(uint64(r.Intn(100)))
		}
		spec = s.base(k, ctrlertypes.TRX_WITHDRAW, k.Addr, nil, &ctrlertypes.TrxPayloadWithdraw{ReqAmt: req})
	case 5: // setdoc
		spec = s.base(k, ctrlertypes.TRX_SETDOC, r.Bytes(20), nil, &ctrlertypes.TrxPayloadSetDoc{Name: fmt.Sprintf("n%d", r.Intn(100)), URL: fmt.Sprintf("https://u/%d", r.Intn(100))})
		if r.Chance(5) {
			spec.Payload = &ctrlertypes.TrxPayloadSetDoc{Name: string(make([]byte, 2049)), URL: "u"}
		}
	case 6: // proposal
		vals := s.lastValidatorKeys()
		pk := k
		if len(vals) > 0 && !r.Chance(10) {
			pk = vals[r.Intn(len(vals))]
		}
		ap := s.N.App.VerifGov().VerifActiveParams()
		start := h + int64(r.Range(1, 2))
		period := ap.MinVotingPeriodBlocks() + int64(r.Intn(int(ap.MaxVotingPeriodBlocks()-ap.MinVotingPeriodBlocks())+1))
		applying := start + period + ap.LazyApplyingBlocks() + int64(r.Range(0, 2))
		if r.Chance(12) {
			switch r.Intn(7) {
			case 0:
				start = h
			case 1:
				period = ap.MaxVotingPeriodBlocks() + 1
			case 2:
				applying = start + period + ap.LazyApplyingBlocks() - 1
			case 3:
				period = ap.MinVotingPeriodBlocks() - 1
			case 4: // int64 boundary: start + period overflows (issue #51 check)
				start = (1<<63 - 1) - period + int64(r.Range(1, 3))
				applying = 1<<63 - 1
			case 5: // int64 boundary: start + period fits, adding lazyApplyingBlocks overflows
				start = (1<<63 - 1) - period - int64(r.Intn(int(ap.LazyApplyingBlocks())+1))
				applying = 1<<63 - 1
			case 6: // everything just fits
				start = (1<<63 - 1) - period - ap.LazyApplyingBlocks() - int64(r.Range(0, 2))
				applying = 1<<63 - 1
			}
		}
		var opts [][]byte
		optType := int32(257)
		nopt := r.Range(1, 3)
		for i := 0; i < nopt; i++ {
			opts = append(opts, []byte(optionPool[r.Intn(len(optionPool))]))
		}
		if r.Chance(12) {
			optType = 512
			opts = [][]byte{r.Bytes(r.Range(1, 8)), []byte("no")}
		}
		if r.Chance(7) {
			opts = nil
		}
		if r.Chance(4) {
			opts = append(opts, []byte(`{"gasPrice":`))
		}
		spec = s.base(pk, ctrlertypes.TRX_PROPOSAL, rtypes.ZeroAddress(), nil, &ctrlertypes.TrxPayloadProposal{
			Message: "m", StartVotingHeight: start, VotingPeriodBlocks: period, ApplyingHeight: applying, OptType: optType, Options: opts})
	case 7: // voting
		if len(s.Props) == 0 {
			spec = s.base(k, ctrlertypes.TRX_VOTING, rtypes.ZeroAddress(), nil, &ctrlertypes.TrxPayloadVoting{TxHash: r.Bytes(32), Choice: 0})
			break
		}
		p := s.Props[len(s.Props)-1-r.Intn(min(len(s.Props), 3))]
		vals := s.lastValidatorKeys()
		vk := k
		if len(vals) > 0 && !r.Chance(10) {
			vk = vals[r.Intn(len(vals))]
		}
		choice := int32(0)
		if r.Chance(30) { // most validators back option 0, so that proposals do reach 2/3 and get frozen / applied
			choice = int32(r.Intn(p.NOpts + 1))
		}
		if r.Chance(8) {
			choice = int32(r.Range(-1, p.NOpts+1))
		}
		spec = s.base(vk, ctrlertypes.TRX_VOTING, rtypes.ZeroAddress(), nil, &ctrlertypes.TrxPayloadVoting{TxHash: p.Hash, Choice: choice})
	case 8: // contract deployment / call / plain transfer to a contract
		spec = s.genEvmTx(k)
	}
	// mutation stream
	if r.Chance(s.Opt.InvalidPct) {
		s.mutate(spec, k)
	}
	return spec.Build()
}

func min(a, b int) int {
	if a < b {
		return a
	}
	return b
}

func (s *Sim) mutate(spec *appdrv.TxSpec, k *appdrv.Key) {
	r := s.R
	switch r.Intn(16) {
	case 0:
		spec.Nonce++
	case 1:
		if spec.Nonce > 0 {
			spec.Nonce--
		}
	case 2:
		spec.GasPrice = new(uint256.Int).Add(spec.GasPrice, uint256.NewInt(1))
	case 3:
		spec.Gas = s.minGas() - 1
	case 4:
		spec.SignChain = spec.SignChain + "x"
	case 5:
		spec.SigFlip = 1 + r.Intn(520)
	case 6:
		spec.Mutate = func(tx *ctrlertypes.Trx) { tx.Amount = new(uint256.Int).Add(tx.Amount, uint256.NewInt(1)) }
	case 7:
		other := s.Keys[r.Intn(len(s.Keys))]
		spec.Mutate = func(tx *ctrlertypes.Trx) { tx.From = other.Addr }
	case 8:
		spec.Signer = s.Keys[r.Intn(len(s.Keys))]
	case 9:
		spec.To = r.Bytes([]int{0, 19, 21, 32, 33}[r.Intn(5)])
	case 10:
		spec.Amount = s.boundaryAmount()
	case 11:
		spec.Gas = []uint64{0, 1 << 63, 1<<64 - 1}[r.Intn(3)]
	case 12:
		spec.From = r.Bytes(20)
	case 13:
		spec.Mutate = func(tx *ctrlertypes.Trx) { tx.Nonce += 7 }
	case 14:
		spec.Signer = nil
	case 15:
		spec.Junk = []byte{0x78, 0x01} // unknown protobuf field 15 varint 1
	}
}

// After is called with the outcome of a delivered transaction to maintain the generator's shadow.
func (s *Sim) After(bz []byte, o appdrv.TxOut) {
	if o.Code != 0 || o.Panic != "" {
		return
	}
	tx := &ctrlertypes.Trx{}
	if tx.Decode(bz) != nil {
		return
	}
	hash := tmtypes.Tx(bz).Hash()
	switch tx.Type {
	case ctrlertypes.TRX_CONTRACT:
		if rtypes.IsZeroAddress(tx.To) && len(o.Data) == 20 {
			prog := s.PendingProg[string(tx.Payload.(*ctrlertypes.TrxPayloadContract).Data)]
			s.Contracts = append(s.Contracts, ContractRef{Addr: append([]byte(nil), o.Data...), Prog: prog})
		} else {
			// a factory call stores the child's address in slot 0
			for _, c := range s.Contracts {
				if c.Prog.Name == "factory" && string(c.Addr) == string(tx.To) {
					st := s.N.App.VerifEVM().VerifStateDB()
					var a20 [20]byte
					copy(a20[:], c.Addr)
					v := st.GetState(a20, [32]byte{})
					child := append([]byte(nil), v[12:]...)
					if !rtypes.IsZeroAddress(child) {
						s.Children = append(s.Children, child)
					}
				}
			}
		}
	case ctrlertypes.TRX_STAKING:
		s.Stakes = append(s.Stakes, StakeRef{Owner: s.keyIdx(tx.From), To: tx.To, Hash: hash, Power: new(uint256.Int).Div(tx.Amount, E18).ToBig().Int64()})
	case ctrlertypes.TRX_PROPOSAL:
		p := tx.Payload.(*ctrlertypes.TrxPayloadProposal)
		s.Props = append(s.Props, PropRef{Hash: hash, Start: p.StartVotingHeight, End: p.StartVotingHeight + p.VotingPeriodBlocks,
			Applying: p.ApplyingHeight, NOpts: len(p.Options)})
	}
	for i := len(s.Stakes) - 1; i >= 0; i-- {
		if s.Stakes[i].Owner < 0 {
			s.Stakes = append(s.Stakes[:i], s.Stakes[i+1:]...)
		}
	}
}

// genEvmTx builds a contract deployment, a contract call or a plain transfer to a contract.
func (s *Sim) genEvmTx(k *appdrv.Key) *appdrv.TxSpec {
	r := s.R
	val := func() *uint256.Int {
		switch r.Pick(4, 4, 1) {
		case 0:
			return uint256.NewInt(0)
		case 1:
			return uint256.NewInt(uint64(r.Range(1, 1000)))
		default:
			return Rigo(uint64(r.Range(1, 3)))
		}
	}
	target := func() rtypes.Address {
		switch r.Pick(3, 3, 2, 1, 1) {
		case 0:
			return s.Keys[r.Intn(len(s.Keys))].Addr
		case 1:
			if len(s.Contracts) > 0 {
				return s.Contracts[r.Intn(len(s.Contracts))].Addr
			}
			return r.Bytes(20)
		case 2:
			return r.Bytes(20)
		case 3:
			if len(s.Children) > 0 {
				return s.Children[r.Intn(len(s.Children))]
			}
			return r.Bytes(20)
		default:
			a := make([]byte, 20)
			a[19] = byte(r.Range(1, 9)) // precompile
			return a
		}
	}
	if len(s.Contracts) == 0 || r.Chance(30) {
		var code []byte
		if r.Chance(12) {
			code = evmgen.Garbage(r)
		} else {
			p := evmgen.Pick(r)
			code = p.Init
			s.PendingProg[string(code)] = p
		}
		v := uint256.NewInt(0)
		if r.Chance(25) {
			v = val()
		}
		dsp := s.base(k, ctrlertypes.TRX_CONTRACT, rtypes.ZeroAddress(), v, &ctrlertypes.TrxPayloadContract{Data: code})
		if r.Chance(15) {
			// gas around the intrinsic gas of a CREATION (53000 + data) and of a call (21000 + data): a deployment
			// is admitted only if it covers the former
			dataGas := uint64(0)
			for _, b := range code {
				if b == 0 {
					dataGas += 4
				} else {
					dataGas += 16
				}
			}
			dsp.Gas = []uint64{21000 + dataGas, 21000 + dataGas + uint64(r.Range(1, 31999)), 53000 + dataGas - 1, 53000 + dataGas, 53000 + dataGas + uint64(r.Range(1, 2000))}[r.Intn(5)]
		}
		return dsp
	}
	if r.Chance(25) && (len(s.Children) > 0 || len(s.Contracts) > 0) {
		// plain transfer to a contract address (top-level deployed: routed through the EVM; inner-created: not)
		var to rtypes.Address
		if len(s.Children) > 0 && r.Chance(50) {
			to = s.Children[r.Intn(len(s.Children))]
		} else {
			to = s.Contracts[r.Intn(len(s.Contracts))].Addr
		}
		spec := s.base(k, ctrlertypes.TRX_TRANSFER, to, val(), nil)
		spec.Gas = 200000
		if r.Chance(35) { // at / above the governance minimum but below the EVM's intrinsic gas
			spec.Gas = s.minGas() + uint64(r.Intn(21000))
		}
		return spec
	}
	c := s.Contracts[r.Intn(len(s.Contracts))]
	var data []byte
	if c.Prog.NeedsArg || (c.Prog.Name == "destructor" && r.Chance(60)) {
		data = evmgen.Word(target())
	}
	if r.Chance(5) {
		data = r.Bytes(r.Range(1, 40))
	}
	spec := s.base(k, ctrlertypes.TRX_CONTRACT, c.Addr, val(), &ctrlertypes.TrxPayloadContract{Data: data})
	if c.Prog.Name == "gasburner" {
		spec.Gas = 100000
	}
	if r.Chance(6) {
		spec.Gas = uint64(r.Range(21000, 60000))
	}
	return spec
}

var _ = json.Marshal

// AcctOf exposes the consensus view of an account (nonce, balance).
func (s *Sim) AcctOf(a rtypes.Address) (uint64, *uint256.Int, bool) { return s.acct(a) }

// TransferFrom builds a well-formed transfer.
func (s *Sim) TransferFrom(k *appdrv.Key, to rtypes.Address, amt *uint256.Int) []byte {
	return s.base(k, ctrlertypes.TRX_TRANSFER, to, amt, nil).Build()
}
