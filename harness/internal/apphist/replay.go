package apphist

import (
	"encoding/hex"
	"fmt"
	"path/filepath"
	"strconv"
	"strings"

	"github.com/holiman/uint256"
	"verifharness/internal/appdrv"
	"verifharness/internal/evmgen"
	"verifharness/internal/rng"
)

// ReplayLines renders the history executed so far as implementation-level operation lines
// (raw transaction bytes), replayable with RunReplay.
func (s *Sim) ReplayLines() []string {
	var out []string
	for _, r := range s.Recs {
		switch r.Kind {
		case "init":
			var hs, vs []string
			for _, h := range s.Gen.Holders {
				hs = append(hs, fmt.Sprintf("%s:%s", appdrv.Hex(h.Addr), h.Bal.Dec()))
			}
			for _, v := range s.Gen.Vals {
				vs = append(vs, fmt.Sprintf("%d:%d", s.keyIdx(v.Key.Addr), v.Power))
			}
			out = append(out, fmt.Sprintf("genesis keyseed=%d nkeys=%d chain=%s params=%s holders=%s vals=%s", s.Seed, len(s.Keys),
				appdrv.Hex([]byte(s.Gen.ChainID)), paramsLine(s.Gen.Params), strings.Join(hs, ","), strings.Join(vs, ",")))
		case "begin":
			out = append(out, r.Line)
		case "tx":
			if r.Mode == "d" {
				out = append(out, "deliver "+hex.EncodeToString(r.Tx))
			} else {
				out = append(out, "check "+hex.EncodeToString(r.Tx))
			}
		case "end", "commit", "restart", "query":
			out = append(out, r.Line)
		}
	}
	return out
}

func kvOf(ws []string, key string) string {
	for _, w := range ws {
		if strings.HasPrefix(w, key+"=") {
			return w[len(key)+1:]
		}
	}
	return ""
}

func unhex(s string) []byte {
	if s == "-" || s == "" {
		return nil
	}
	b, _ := hex.DecodeString(s)
	return b
}

func parseParamsLine(l string) *appdrv.Params {
	f := strings.Split(l, ",")
	i := func(k int) int64 { n, _ := strconv.ParseInt(f[k], 10, 64); return n }
	u := func(k int) uint64 { n, _ := strconv.ParseUint(f[k], 10, 64); return n }
	return &appdrv.Params{MaxValidatorCnt: i(0), MinValidatorStake: f[1], MinDelegatorStake: f[2], RewardPerPower: f[3],
		LazyRewardBlocks: i(4), LazyApplyingBlocks: i(5), GasPrice: f[6], MinTrxGas: u(7), MaxTrxGas: u(8), MaxBlockGas: u(9),
		MinVoting: i(10), MaxVoting: i(11), MinSelfStakeRatio: i(12), MaxUpdatableStakeRatio: i(13), MaxIndividualStakeRatio: i(14),
		SlashRatio: i(15), SignedBlocksWindow: i(16), MinSignedBlocks: i(17), Version: i(18)}
}

// RunReplay executes implementation-level operation lines on a fresh primary node.
func RunReplay(lines []string, work string, obs Observer) (*Sim, error) {
	var s *Sim
	for _, l := range lines {
		ws := strings.Fields(l)
		if len(ws) == 0 {
			continue
		}
		if ws[0] != "genesis" && s == nil {
			return nil, fmt.Errorf("replay does not start with a genesis line")
		}
		if s != nil && s.N.Dead != "" {
			break
		}
		switch ws[0] {
		case "genesis":
			seed, _ := strconv.ParseUint(kvOf(ws, "keyseed"), 10, 64)
			nkeys, _ := strconv.Atoi(kvOf(ws, "nkeys"))
			s = &Sim{R: rng.New(seed), Seed: seed, Work: work, ValSets: map[int64][]ValInfo{}, Time: 1700000000, Obs: obs, PendingProg: map[string]evmgen.Program{}}
			for i := 0; i < nkeys; i++ {
				s.Keys = append(s.Keys, appdrv.NewKey(seed, i))
			}
			g := &appdrv.Genesis{ChainID: string(unhex(kvOf(ws, "chain"))), Params: parseParamsLine(kvOf(ws, "params"))}
			for _, h := range strings.Split(kvOf(ws, "holders"), ",") {
				if h == "" {
					continue
				}
				x := strings.Split(h, ":")
				g.Holders = append(g.Holders, appdrv.Holder{Addr: unhex(x[0]), Bal: uint256.MustFromDecimal(x[1])})
			}
			for _, v := range strings.Split(kvOf(ws, "vals"), ",") {
				if v == "" {
					continue
				}
				x := strings.Split(v, ":")
				idx, _ := strconv.Atoi(x[0])
				pw, _ := strconv.ParseInt(x[1], 10, 64)
				g.Vals = append(g.Vals, appdrv.GenVal{Key: s.Keys[idx], Power: pw})
			}
			s.Gen = g
			minP := int64(1 << 62)
			for _, v := range g.Vals {
				if v.Power < minP {
					minP = v.Power
				}
			}
			s.GenesisEligible = g.Params.MaxValidatorCnt >= int64(len(g.Vals)) && Rigo(uint64(minP)).Cmp(uint256.MustFromDecimal(g.Params.MinValidatorStake)) >= 0
			n, err := appdrv.OpenNode(filepath.Join(work, s.nextDir()))
			if err != nil {
				return nil, err
			}
			s.N = n
			s.Init()
		case "begin":
			a := &BeginArgs{}
			a.H, _ = strconv.ParseInt(kvOf(ws, "h"), 10, 64)
			a.T, _ = strconv.ParseInt(kvOf(ws, "t"), 10, 64)
			a.Proposer = unhex(kvOf(ws, "prop"))
			if v := kvOf(ws, "votes"); v != "-" {
				for _, e := range strings.Split(v, ",") {
					x := strings.Split(e, ":")
					pw, _ := strconv.ParseInt(x[1], 10, 64)
					a.Votes = append(a.Votes, appdrv.Vote{Addr: unhex(x[0]), Power: pw, Signed: x[2] == "1"})
				}
			}
			if v := kvOf(ws, "evid"); v != "-" {
				for _, e := range strings.Split(v, ",") {
					a.Evid = append(a.Evid, unhex(e))
				}
			}
			s.Time = a.T
			s.BeginWith(a)
		case "deliver":
			var bz []byte
			if len(ws) > 1 {
				bz = unhex(ws[1])
			}
			o, _ := s.Deliver(bz)
			s.After(bz, o)
		case "check":
			var bz []byte
			if len(ws) > 1 {
				bz = unhex(ws[1])
			}
			s.Check(bz)
		case "end":
			s.End()
		case "commit":
			s.Commit()
		case "restart":
			if err := s.Restart(); err != nil {
				return s, err
			}
		case "query":
			h, _ := strconv.ParseInt(kvOf(ws, "h"), 10, 64)
			s.Query(kvOf(ws, "path"), unhex(kvOf(ws, "data")), h)
		}
	}
	if s == nil {
		return nil, fmt.Errorf("empty replay")
	}
	return s, nil
}
