package apphist

import (
	"fmt"
	"strings"

	rtypes "github.com/rigochain/rigo-go/types"
	"github.com/rigochain/rigo-go/types/crypto"
	"verifharness/internal/appdrv"
)

func addrOfPub(pub []byte) rtypes.Address {
	a, _ := crypto.PubBytes2Addr(pub)
	return a
}

// Begin starts block Height+1 with a Tendermint-faithful LastCommitInfo.
// Quiet reports whether block h lies in the "quiet window" around the applying height of a proposal:
// half of those windows are generated without absences, evidence and stake-changing transactions, so that
// a parameter change is the ONLY thing that happens (state derived from parameters must follow it).
func (s *Sim) Quiet(h int64) bool {
	for _, p := range s.Props {
		if h >= p.Applying && h <= p.Applying+2 && (s.QuietAll || (p.Applying+int64(len(p.Hash)))%2 == int64(p.Hash[0])%2) {
			return true
		}
	}
	return false
}

func (s *Sim) Begin() bool {
	h := s.Height + 1
	s.Time += int64(s.R.Range(1, 5))
	cur := s.valset(h)
	var proposer rtypes.Address
	if len(cur) > 0 && !s.R.Chance(4) {
		proposer = cur[s.R.Intn(len(cur))].Addr
	}
	var votes []appdrv.Vote
	if h >= 2 {
		prev := s.valset(h - 1)
		// absence pattern: mostly signing; sometimes one validator is absent in a burst
		for i, v := range prev {
			signed := true
			if s.R.Chance(12) || (s.absentIdx == i && s.absentLeft > 0) {
				signed = false
			}
			if s.Quiet(h) {
				signed = true
			}
			votes = append(votes, appdrv.Vote{Addr: v.Addr, Power: v.Power, Signed: signed})
		}
		if s.absentLeft > 0 {
			s.absentLeft--
		} else if s.R.Chance(10) && len(prev) > 0 {
			s.absentIdx = s.R.Intn(len(prev))
			s.absentLeft = s.R.Range(2, 7)
		}
	}
	var evid []rtypes.Address
	if h >= 2 && s.R.Chance(12) && !s.Quiet(h) {
		n := s.R.Pick(6, 2, 1) + 1
		for i := 0; i < n; i++ {
			switch s.R.Pick(6, 2, 1) {
			case 0:
				if len(cur) > 0 {
					evid = append(evid, cur[s.R.Intn(len(cur))].Addr)
				}
			case 1:
				evid = append(evid, s.Keys[s.R.Intn(len(s.Keys))].Addr)
			default:
				evid = append(evid, s.R.Bytes(20))
			}
		}
	}
	if h >= 2 && len(s.PendingEvidence) > 0 {
		evid = append(evid, s.PendingEvidence...)
		s.PendingEvidence = nil
	}
	return s.BeginWith(&BeginArgs{H: h, T: s.Time, Proposer: proposer, Votes: votes, Evid: evid})
}

func BeginLine(a *BeginArgs) string {
	var vs, es []string
	for _, v := range a.Votes {
		sg := 0
		if v.Signed {
			sg = 1
		}
		vs = append(vs, fmt.Sprintf("%s:%d:%d", appdrv.Hex(v.Addr), v.Power, sg))
	}
	for _, e := range a.Evid {
		es = append(es, appdrv.Hex(e))
	}
	j := func(l []string) string {
		if len(l) == 0 {
			return "-"
		}
		return strings.Join(l, ",")
	}
	return fmt.Sprintf("begin h=%d t=%d prop=%s votes=%s evid=%s", a.H, a.T, appdrv.Hex(a.Proposer), j(vs), j(es))
}

func BeginOutLine(o appdrv.BeginOut) string {
	if o.Panic != "" {
		return "panic"
	}
	j := func(l []string) string {
		if len(l) == 0 {
			return "-"
		}
		return strings.Join(l, ",")
	}
	return fmt.Sprintf("rwd=%s ps=%s pg=%s", o.Issued, j(o.PunishS), j(o.PunishG))
}

func (s *Sim) BeginWith(a *BeginArgs) bool {
	pre := ""
	if s.Obs != nil {
		pre = s.N.Dump()
	}
	o := s.N.BeginBlock(a.H, a.T, a.Proposer, a.Votes, a.Evid)
	s.add(&Rec{Kind: "begin", Line: BeginLine(a), Out: BeginOutLine(o), Begin: a, Note: o.Panic})
	s.Cur = a
	if s.Obs != nil && o.Panic == "" {
		s.Obs.OnBegin(s, a, pre, s.N.Dump(), o)
	}
	return o.Panic == ""
}

// TxOutLine renders a transaction response canonically. decodable=false forces kind "decode".
func TxOutLine(o appdrv.TxOut, decodable bool) string {
	if o.Panic != "" {
		return "panic"
	}
	kind := appdrv.ErrKind(o.Code, o.Log)
	if !decodable && o.Code != 0 {
		kind = "decode"
	}
	return fmt.Sprintf("code=%d kind=%s gu=%d gw=%d", o.Code, kind, o.GasUsed, o.GasWanted)
}

// Deliver executes one transaction inside the current block on the primary and records it.
func (s *Sim) Deliver(bz []byte) (appdrv.TxOut, *Rec) {
	fields, tx := appdrv.DescribeTx(bz, s.N.ChainID)
	var o appdrv.TxOut
	pre := ""
	if s.Obs != nil {
		pre = s.N.Dump()
		s.Obs.OnPreDeliver(s, bz)
	}
	tr := s.N.TraceTx(func() { o = s.N.DeliverTx(bz) })
	if s.Obs != nil && o.Panic == "" {
		defer func() { s.Obs.OnDeliver(s, bz, pre, s.N.Dump(), o, tr) }()
	}
	evm := "-"
	if tx != nil && len(tr.Events) > 0 {
		st, fk := "ok", "-"
		if o.Code != 0 {
			st, fk = "fail", appdrv.ErrKind(o.Code, o.Log)
		}
		var syn []string
		for _, a := range tr.Out {
			if ac := s.N.AccountView(fromHex(a)); ac != nil {
				syn = append(syn, fmt.Sprintf("%s/%s/%d", a, ac.Balance.Dec(), ac.Nonce))
			}
		}
		created := "-"
		if o.Code == 0 && rtypes.IsZeroAddress(tx.To) && len(o.Data) == 20 {
			created = appdrv.Hex(o.Data)
		}
		j := func(l []string) string {
			if len(l) == 0 {
				return "-"
			}
			return strings.Join(l, ";")
		}
		evm = fmt.Sprintf("%s:%s:%d:%s:%s:%s", st, fk, o.GasUsed, j(tr.In), j(syn), created)
	}
	r := s.add(&Rec{Kind: "tx", Mode: "d", Tx: bz, Line: fmt.Sprintf("tx mode=d %s evm=%s", fields, evm), Out: TxOutLine(o, tx != nil), Note: o.Log})
	if o.Panic != "" {
		r.Note = o.Panic
	}
	return o, r
}

// Check runs CheckTx on the primary and records it.
func (s *Sim) Check(bz []byte) (appdrv.TxOut, *Rec) {
	fields, tx := appdrv.DescribeTx(bz, s.N.ChainID)
	o := s.N.CheckTx(bz)
	r := s.add(&Rec{Kind: "tx", Mode: "c", Tx: bz, Line: fmt.Sprintf("tx mode=c %s evm=-", fields), Out: TxOutLine(o, tx != nil), Note: o.Log})
	if o.Panic != "" {
		r.Note = o.Panic
	}
	return o, r
}

func fromHex(h string) []byte {
	if h == "-" {
		return nil
	}
	b := make([]byte, len(h)/2)
	for i := range b {
		fmt.Sscanf(h[2*i:2*i+2], "%02x", &b[i])
	}
	return b
}

// End runs EndBlock, feeds the updates to tmsim, and records them.
func (s *Sim) End() bool {
	h := s.Height + 1
	pre := ""
	if s.Obs != nil {
		pre = s.N.Dump()
	}
	ups, p := s.N.EndBlock(h)
	out := "vu=" + appdrv.ValUpsLine(ups)
	if p != "" {
		out = "panic"
	}
	s.add(&Rec{Kind: "end", Line: "end", Out: out, Note: p})
	if p != "" {
		return false
	}
	next, err := applyUpdates(s.valset(h+1), ups, addrOfPub)
	if err != "" && s.TMError == "" {
		s.TMError = fmt.Sprintf("block %d: Tendermint would reject the validator updates %s: %s", h, appdrv.ValUpsLine(ups), err)
	}
	s.ValSets[h+2] = next
	if _, ok := s.ValSets[h+1]; !ok {
		s.ValSets[h+1] = s.valset(h + 1)
	}
	if s.Obs != nil {
		s.Obs.OnEnd(s, pre, s.N.Dump(), ups)
	}
	s.Restarted = false
	return true
}

func (s *Sim) Commit() bool {
	hash, p := s.N.Commit()
	out := "ok"
	if p != "" {
		out = "panic"
	}
	s.add(&Rec{Kind: "commit", Line: "commit", Out: out, Hash: hash, Note: p})
	if p != "" {
		return false
	}
	s.Height++
	s.Dump()
	if s.Obs != nil {
		s.Obs.OnCommit(s, s.N.Dump(), hash)
	}
	return true
}

// Restart replaces the primary by a fresh application opened on a copy of its data directory.
func (s *Sim) Restart() error {
	n, err := s.N.CloneRestart(s.Work + "/" + s.nextDir())
	if err != nil {
		return err
	}
	n.ChainID = s.N.ChainID
	out := "ok"
	if n.Height != s.N.Height || string(n.AppHash) != string(s.N.AppHash) {
		out = fmt.Sprintf("info-mismatch h=%d/%d", n.Height, s.N.Height)
	}
	s.N.Close()
	s.N = n
	s.add(&Rec{Kind: "restart", Line: "restart", Out: out})
	s.Dump()
	s.Restarted = true
	s.EverRestarted = true
	if s.Obs != nil {
		s.Obs.OnRestart(s, out == "ok")
	}
	return nil
}
