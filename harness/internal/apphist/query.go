package apphist

import (
	"encoding/json"
	"fmt"
	"strings"

	"github.com/holiman/uint256"
	"github.com/rigochain/rigo-go/ctrlers/gov/proposal"
	"github.com/rigochain/rigo-go/ctrlers/stake"
	ctrlertypes "github.com/rigochain/rigo-go/ctrlers/types"
	rtypes "github.com/rigochain/rigo-go/types"
	"github.com/rigochain/rigo-go/types/bytes"
	tmjson "github.com/tendermint/tendermint/libs/json"
	"verifharness/internal/appdrv"
)

// CanonQuery renders a query response in the model's canonical form.
func CanonQuery(path string, o appdrv.QueryOut) string {
	if o.Panic != "" {
		return "panic"
	}
	if o.Code != 0 {
		return fmt.Sprintf("code=%d val=-", o.Code)
	}
	val := "?"
	switch path {
	case "account":
		a := &struct {
			Address rtypes.Address `json:"address"`
			Name    string         `json:"name,omitempty"`
			Nonce   uint64         `json:"nonce,string"`
			Balance string         `json:"balance"`
			Code    bytes.HexBytes `json:"code,omitempty"`
			DocURL  string         `json:"docURL,omitempty"`
		}{}
		if err := tmjson.Unmarshal(o.Value, a); err != nil {
			return "unparsable " + err.Error()
		}
		bal, _ := uint256.FromDecimal(a.Balance)
		if bal == nil {
			bal = uint256.NewInt(0)
		}
		val = appdrv.FmtAccount(&ctrlertypes.Account{Address: a.Address, Name: a.Name, Nonce: a.Nonce, Balance: bal, Code: a.Code, DocURL: a.DocURL})
	case "delegatee":
		d := &stake.Delegatee{}
		if err := tmjson.Unmarshal(o.Value, d); err != nil {
			if err2 := json.Unmarshal(o.Value, d); err2 != nil {
				return "unparsable " + err.Error()
			}
		}
		val = appdrv.FmtDelegatee(d)
	case "stakes":
		var ss []*stake.Stake
		if err := tmjson.Unmarshal(o.Value, &ss); err != nil {
			if err2 := json.Unmarshal(o.Value, &ss); err2 != nil {
				return "unparsable " + err.Error()
			}
		}
		var parts []string
		for _, s := range ss {
			parts = append(parts, appdrv.FmtStake(s))
		}
		val = "S:" + joinOr(parts, ";")
	case "stakes/total_power", "stakes/voting_power":
		val = string(o.Value)
	case "reward":
		r := &stake.Reward{}
		if err := json.Unmarshal(o.Value, r); err != nil {
			return "unparsable " + err.Error()
		}
		val = appdrv.FmtReward(r)
	case "proposal":
		type prop struct {
			Status   string                `json:"status"`
			Proposal *proposal.GovProposal `json:"proposal"`
		}
		tag := func(st string) string {
			if st == "frozen" {
				return "FP"
			}
			return "P"
		}
		if len(o.Value) > 0 && o.Value[0] == '[' || string(o.Value) == "null" {
			var ps []*prop
			if err := tmjson.Unmarshal(o.Value, &ps); err != nil {
				return "unparsable " + err.Error()
			}
			var parts []string
			for _, p := range ps {
				parts = append(parts, appdrv.FmtProposal(tag(p.Status), p.Proposal))
			}
			val = "PL:" + joinOr(parts, "|")
		} else {
			p := &prop{}
			if err := tmjson.Unmarshal(o.Value, p); err != nil {
				return "unparsable " + err.Error()
			}
			val = appdrv.FmtProposal(tag(p.Status), p.Proposal)
		}
	case "gov_params":
		g := &ctrlertypes.GovParams{}
		if err := tmjson.Unmarshal(o.Value, g); err != nil {
			return "unparsable " + err.Error()
		}
		val = "G:" + appdrv.ParamsLine(g)
	}
	if val == "" {
		val = "-"
	}
	return fmt.Sprintf("code=0 val=%s", val)
}

func joinOr(l []string, sep string) string {
	if len(l) == 0 {
		return "-"
	}
	return strings.Join(l, sep)
}

// Query issues a query on the primary and records it.
func (s *Sim) Query(path string, data []byte, h int64) *Rec {
	o := s.N.Query(path, data, h)
	if s.Obs != nil && o.Panic == "" {
		s.Obs.OnQuery(s, path, data, h, CanonQuery(path, o))
	}
	return s.add(&Rec{Kind: "query", Line: fmt.Sprintf("query path=%s data=%s h=%d", path, appdrv.Hex(data), h), Out: CanonQuery(path, o), Note: o.Log})
}

// RandomQuery asks one random query (path, key, height).
func (s *Sim) RandomQuery() *Rec {
	r := s.R
	paths := []string{"account", "delegatee", "stakes", "stakes/total_power", "reward", "proposal", "gov_params", "nosuchpath"}
	path := paths[r.Pick(6, 5, 4, 3, 4, 4, 3, 1)]
	var data []byte
	switch path {
	case "account", "reward", "stakes", "delegatee":
		if r.Chance(85) {
			data = s.Keys[r.Intn(len(s.Keys))].Addr
		} else {
			data = r.Bytes(20)
		}
	case "proposal":
		if len(s.Props) > 0 && r.Chance(70) {
			data = s.Props[r.Intn(len(s.Props))].Hash
		} else if r.Chance(50) {
			data = r.Bytes(32)
		}
	}
	var h int64
	if path == "proposal" && len(data) == 32 && len(s.Props) > 0 && r.Chance(60) {
		// heights across the proposal's life cycle: before it existed, voting, closed/frozen, applied
		for _, p := range s.Props {
			if string(p.Hash) == string(data) {
				cands := []int64{p.Start - 2, p.Start, p.End, p.End + 1, p.End + 2, p.Applying, p.Applying + 1}
				h = cands[r.Intn(len(cands))]
				if h < 1 {
					h = 1
				}
				if h > s.Height {
					h = s.Height
				}
				return s.Query(path, data, h)
			}
		}
	}
	switch r.Pick(3, 5, 1, 1) {
	case 0:
		h = 0
	case 1:
		if s.Height >= 1 {
			h = int64(r.Range(1, int(s.Height)))
		}
	case 2:
		h = s.Height + int64(r.Range(1, 3))
	case 3:
		h = -1
	}
	return s.Query(path, data, h)
}

// QueryTouched asks, right after a CheckTx or DeliverTx of bz, for the objects that transaction touches (sender and
// receiver account, their rewards, stakes and delegatee records) at the latest height (0 and the explicit number):
// the answers must still be the committed ones, whatever the mempool view or the executing block hold.
func (s *Sim) QueryTouched(bz []byte) {
	tx := &ctrlertypes.Trx{}
	if tx.Decode(bz) != nil {
		return
	}
	r := s.R
	hs := []int64{0}
	if s.Height >= 1 && r.Bool() {
		hs = append(hs, s.Height)
	}
	for _, a := range [][]byte{tx.From, tx.To} {
		if len(a) != 20 {
			continue
		}
		paths := []string{"account"}
		switch r.Intn(4) {
		case 0:
			paths = append(paths, "reward")
		case 1:
			paths = append(paths, "delegatee")
		case 2:
			paths = append(paths, "stakes")
		}
		for _, p := range paths {
			s.Query(p, a, hs[r.Intn(len(hs))])
		}
	}
}

// SenderOf returns the sender address of transaction bytes (nil if undecodable).
func SenderOf(bz []byte) []byte {
	tx := &ctrlertypes.Trx{}
	if tx.Decode(bz) != nil || len(tx.From) != 20 {
		return nil
	}
	return tx.From
}
